// C07: drives the fourteen real multi-node strategies (best / latest / majority / first) through
// their public constructors with scripted providers inside synctest bubbles, and prints every
// case with what the strategy returned, and when, as a Gallina case for Check.C07.
package c07

import (
	"context"
	"errors"
	"fmt"
	"io"
	"math/big"
	"reflect"
	"sort"
	"sync/atomic"
	"testing"
	"testing/synctest"
	"time"

	eth2client "github.com/attestantio/go-eth2-client"
	"github.com/attestantio/go-eth2-client/api"
	apiv1 "github.com/attestantio/go-eth2-client/api/v1"
	apiv1bellatrix "github.com/attestantio/go-eth2-client/api/v1/bellatrix"
	apiv1capella "github.com/attestantio/go-eth2-client/api/v1/capella"
	apiv1deneb "github.com/attestantio/go-eth2-client/api/v1/deneb"
	"github.com/attestantio/go-eth2-client/spec"
	"github.com/attestantio/go-eth2-client/spec/altair"
	"github.com/attestantio/go-eth2-client/spec/bellatrix"
	"github.com/attestantio/go-eth2-client/spec/capella"
	"github.com/attestantio/go-eth2-client/spec/deneb"
	"github.com/attestantio/go-eth2-client/spec/phase0"
	"github.com/attestantio/vouch/mock"
	nullmetrics "github.com/attestantio/vouch/services/metrics/null"
	aggbest "github.com/attestantio/vouch/strategies/aggregateattestation/best"
	aggfirst "github.com/attestantio/vouch/strategies/aggregateattestation/first"
	attbest "github.com/attestantio/vouch/strategies/attestationdata/best"
	attfirst "github.com/attestantio/vouch/strategies/attestationdata/first"
	attmajority "github.com/attestantio/vouch/strategies/attestationdata/majority"
	headerfirst "github.com/attestantio/vouch/strategies/beaconblockheader/first"
	propbest "github.com/attestantio/vouch/strategies/beaconblockproposal/best"
	propfirst "github.com/attestantio/vouch/strategies/beaconblockproposal/first"
	rootfirst "github.com/attestantio/vouch/strategies/beaconblockroot/first"
	rootlatest "github.com/attestantio/vouch/strategies/beaconblockroot/latest"
	rootmajority "github.com/attestantio/vouch/strategies/beaconblockroot/majority"
	blockfirst "github.com/attestantio/vouch/strategies/signedbeaconblock/first"
	contribbest "github.com/attestantio/vouch/strategies/synccommitteecontribution/best"
	contribfirst "github.com/attestantio/vouch/strategies/synccommitteecontribution/first"
	"github.com/holiman/uint256"
	"github.com/prysmaticlabs/go-bitfield"
	"github.com/rs/zerolog"
	zerologger "github.com/rs/zerolog/log"

	. "verifharness/common"
	"verifharness/mocks"
)

// ---------------------------------------------------------------------------------------------
// Input type (also the corpus / replay format).

// Value is the content of a response.  Its index in Input.Values is its identity, except for the
// block-root strategies where the identity is the root itself.
type Value struct {
	Nil       bool   `json:"nil,omitempty"`        // response without data
	NilTarget bool   `json:"nil_target,omitempty"` // attestation data without target
	SlotOff   int64  `json:"slot_off,omitempty"`   // attestation data: the slot the data carries is Input.Slot+SlotOff (a node answering for another slot)
	Source    uint64 `json:"source,omitempty"`     // attestation data
	Target    uint64 `json:"target,omitempty"`
	Root      uint64 `json:"root,omitempty"` // attestation data: head root id; root strategies: the root id
	Set       uint64 `json:"set,omitempty"`  // aggregate / contribution: bits set
	Len       uint64 `json:"len,omitempty"`  // aggregate: bitlist length
	Version   uint64 `json:"version,omitempty"`
	Blinded   bool   `json:"blinded,omitempty"`
	Fee       uint64 `json:"fee,omitempty"` // 0 zero address, 1 non-zero, 2 payload missing
	CV        uint64 `json:"cv,omitempty"`
	EV        uint64 `json:"ev,omitempty"`
	// proposals: the consensus / execution value in wei is CVHi*2^64+CV / EVHi*2^64+EV (a block
	// worth 2^64 wei, about 18.45 ETH, or more does not fit a uint64)
	CVHi uint64 `json:"cv_hi,omitempty"`
	EVHi uint64 `json:"ev_hi,omitempty"`
}

// wei is hi*2^64+lo.
func wei(hi, lo uint64) *big.Int {
	x := new(big.Int).SetUint64(hi)
	x.Lsh(x, 64)
	return x.Add(x, new(big.Int).SetUint64(lo))
}

// bigN prints a natural number of any size as a Gallina N.
func bigN(x *big.Int) string { return x.String() + "%N" }

type Prov struct {
	T    int64  `json:"t"`             // latency in ns of fake time
	Beh  string `json:"beh"`           // respond | error | never
	Val  int    `json:"val,omitempty"` // index into Values (respond)
	Deaf bool   `json:"deaf,omitempty"`
	Err  string `json:"err,omitempty"` // plain | 404 | 503 | canceled
}

type Input struct {
	Strategy  string      `json:"strategy"`
	Timeout   int64       `json:"timeout"`
	SPE       uint64      `json:"spe"`
	Slot      uint64      `json:"slot"`
	Threshold int         `json:"threshold,omitempty"`
	Cache     [][2]uint64 `json:"cache,omitempty"` // root id -> slot
	Values    []Value     `json:"values"`
	Provs     []Prov      `json:"provs"`
	Trace     bool        `json:"trace,omitempty"`   // run the strategy at trace log level
	NowOff    int64       `json:"now_off,omitempty"` // the chain time's current slot is Slot+NowOff (the duty slot is not "now")
	Warm      bool        `json:"warm,omitempty"`    // the same service instance has served another request before (every node answering at once)
	// Prior: earlier calls made, in this order, on the SAME service instance before this one (same
	// strategy, timeout, threshold, cache and number of nodes; own slot, contents and node behaviours).
	// Every call is compared with the model of an independent call: the strategies keep nothing
	// from one call to the next.  Gap: fake ns between the previous call's return and this call
	// (0: back to back, the previous call's stragglers are still running).
	Prior []Input `json:"prior,omitempty"`
	Gap   int64   `json:"gap,omitempty"`
	// Deadline: the CALLER's context carries a deadline this many fake ns after the call (0: none).
	// Only deadlines later than Timeout are used: the strategy's own configured timeout is then the
	// binding one (context.WithTimeout of a context with a later deadline expires at the timeout), so
	// the model of the call is that of a call without caller deadline.
	Deadline int64    `json:"deadline,omitempty"`
	Tags     []string `json:"tags,omitempty"`
}

type Observed struct {
	Res   string  `json:"res"` // val | nil | err | panic
	ID    uint64  `json:"id,omitempty"`
	Time  int64   `json:"time"`
	Calls []int32 `json:"calls"`
	Note  string  `json:"note,omitempty"`
}

var strategies = []string{
	"AttBest", "AttMajority", "AttFirst", "AggBest", "AggFirst", "PropBest", "PropFirst",
	"ContribBest", "ContribFirst", "RootFirst", "RootLatest", "RootMajority", "HeaderFirst", "BlockFirst",
}

func family(st string) string {
	switch st {
	case "AttBest", "AttMajority", "AttFirst":
		return "att"
	case "AggBest", "AggFirst":
		return "agg"
	case "PropBest", "PropFirst":
		return "prop"
	case "ContribBest", "ContribFirst":
		return "contrib"
	case "RootFirst", "RootLatest", "RootMajority":
		return "root"
	case "HeaderFirst":
		return "header"
	default:
		return "block"
	}
}

func template(st string) string {
	switch st {
	case "AttBest", "AggBest", "PropBest", "ContribBest", "RootLatest":
		return "best"
	case "AttMajority":
		return "majatt"
	case "RootMajority":
		return "majroot"
	default:
		return "first"
	}
}

const unknownID = 999999

// ---------------------------------------------------------------------------------------------
// Content builders: value index -> the Go object a node returns, and back.

func rootOf(r uint64) phase0.Root {
	var root phase0.Root
	for i := 0; i < 8; i++ {
		root[31-i] = byte(r >> (8 * i))
	}
	return root
}

func rootID(root phase0.Root) uint64 {
	var r uint64
	for i := 0; i < 8; i++ {
		r |= uint64(root[31-i]) << (8 * i)
	}
	return r
}

// attSlot is the slot the attestation data of a value carries.
func attSlot(in *Input, v Value) uint64 { return uint64(int64(in.Slot) + v.SlotOff) }

func buildAtt(in *Input, vid int) *phase0.AttestationData {
	v := in.Values[vid]
	if v.Nil {
		return nil
	}
	d := &phase0.AttestationData{
		Slot:            phase0.Slot(attSlot(in, v)),
		Index:           phase0.CommitteeIndex(vid),
		BeaconBlockRoot: rootOf(v.Root),
		Source:          &phase0.Checkpoint{Epoch: phase0.Epoch(v.Source), Root: rootOf(5000 + v.Source)},
	}
	if !v.NilTarget {
		d.Target = &phase0.Checkpoint{Epoch: phase0.Epoch(v.Target), Root: rootOf(6000 + v.Target)}
	}
	return d
}

func buildAgg(in *Input, vid int) *phase0.Attestation {
	v := in.Values[vid]
	if v.Nil {
		return nil
	}
	bits := bitfield.NewBitlist(v.Len)
	for i := uint64(0); i < v.Set; i++ {
		bits.SetBitAt(i, true)
	}
	return &phase0.Attestation{
		AggregationBits: bits,
		Data: &phase0.AttestationData{
			Slot:   phase0.Slot(in.Slot),
			Index:  phase0.CommitteeIndex(vid),
			Source: &phase0.Checkpoint{Epoch: 1},
			Target: &phase0.Checkpoint{Epoch: 2},
		},
	}
}

func buildContrib(in *Input, vid int) *altair.SyncCommitteeContribution {
	v := in.Values[vid]
	if v.Nil {
		return nil
	}
	bits := bitfield.NewBitvector128()
	for i := uint64(0); i < v.Set; i++ {
		bits.SetBitAt(i, true)
	}
	return &altair.SyncCommitteeContribution{
		Slot:              phase0.Slot(in.Slot),
		BeaconBlockRoot:   rootOf(77),
		SubcommitteeIndex: uint64(vid),
		AggregationBits:   bits,
	}
}

func feeAddr(fee uint64) bellatrix.ExecutionAddress {
	if fee == 1 {
		return bellatrix.ExecutionAddress{0x01, 0x02}
	}
	return bellatrix.ExecutionAddress{}
}

func eth1() *phase0.ETH1Data {
	return &phase0.ETH1Data{BlockHash: make([]byte, 32)}
}

func syncAgg() *altair.SyncAggregate {
	return &altair.SyncAggregate{SyncCommitteeBits: bitfield.NewBitvector512()}
}

func buildProp(in *Input, vid int) *api.VersionedProposal {
	v := in.Values[vid]
	slot, idx := phase0.Slot(in.Slot), phase0.ValidatorIndex(vid)
	p := &api.VersionedProposal{
		Version:        spec.DataVersion(v.Version),
		Blinded:        v.Blinded,
		ConsensusValue: wei(v.CVHi, v.CV),
		ExecutionValue: wei(v.EVHi, v.EV),
	}
	present := v.Fee != 2
	fee := feeAddr(v.Fee)
	switch spec.DataVersion(v.Version) {
	case spec.DataVersionPhase0:
		p.Phase0 = &phase0.BeaconBlock{Slot: slot, ProposerIndex: idx, Body: &phase0.BeaconBlockBody{ETH1Data: eth1()}}
	case spec.DataVersionAltair:
		p.Altair = &altair.BeaconBlock{Slot: slot, ProposerIndex: idx, Body: &altair.BeaconBlockBody{ETH1Data: eth1(), SyncAggregate: syncAgg()}}
	case spec.DataVersionBellatrix:
		if v.Blinded {
			body := &apiv1bellatrix.BlindedBeaconBlockBody{ETH1Data: eth1(), SyncAggregate: syncAgg()}
			if present {
				body.ExecutionPayloadHeader = &bellatrix.ExecutionPayloadHeader{FeeRecipient: fee}
			}
			p.BellatrixBlinded = &apiv1bellatrix.BlindedBeaconBlock{Slot: slot, ProposerIndex: idx, Body: body}
		} else {
			body := &bellatrix.BeaconBlockBody{ETH1Data: eth1(), SyncAggregate: syncAgg()}
			if present {
				body.ExecutionPayload = &bellatrix.ExecutionPayload{FeeRecipient: fee}
			}
			p.Bellatrix = &bellatrix.BeaconBlock{Slot: slot, ProposerIndex: idx, Body: body}
		}
	case spec.DataVersionCapella:
		if v.Blinded {
			body := &apiv1capella.BlindedBeaconBlockBody{ETH1Data: eth1(), SyncAggregate: syncAgg()}
			if present {
				body.ExecutionPayloadHeader = &capella.ExecutionPayloadHeader{FeeRecipient: fee}
			}
			p.CapellaBlinded = &apiv1capella.BlindedBeaconBlock{Slot: slot, ProposerIndex: idx, Body: body}
		} else {
			body := &capella.BeaconBlockBody{ETH1Data: eth1(), SyncAggregate: syncAgg()}
			if present {
				body.ExecutionPayload = &capella.ExecutionPayload{FeeRecipient: fee}
			}
			p.Capella = &capella.BeaconBlock{Slot: slot, ProposerIndex: idx, Body: body}
		}
	case spec.DataVersionDeneb:
		if v.Blinded {
			body := &apiv1deneb.BlindedBeaconBlockBody{ETH1Data: eth1(), SyncAggregate: syncAgg()}
			if present {
				body.ExecutionPayloadHeader = &deneb.ExecutionPayloadHeader{FeeRecipient: fee, BaseFeePerGas: uint256.NewInt(1)}
			}
			p.DenebBlinded = &apiv1deneb.BlindedBeaconBlock{Slot: slot, ProposerIndex: idx, Body: body}
		} else {
			body := &deneb.BeaconBlockBody{ETH1Data: eth1(), SyncAggregate: syncAgg()}
			if present {
				body.ExecutionPayload = &deneb.ExecutionPayload{FeeRecipient: fee, BaseFeePerGas: uint256.NewInt(1)}
			}
			p.Deneb = &apiv1deneb.BlockContents{Block: &deneb.BeaconBlock{Slot: slot, ProposerIndex: idx, Body: body}}
		}
	default:
		// unknown version: carries its identity in the consensus value's neighbour field
		p.Phase0 = &phase0.BeaconBlock{Slot: slot, ProposerIndex: idx, Body: &phase0.BeaconBlockBody{ETH1Data: eth1()}}
	}
	return p
}

func propID(p *api.VersionedProposal) (uint64, bool) {
	switch {
	case p.Phase0 != nil:
		return uint64(p.Phase0.ProposerIndex), true
	case p.Altair != nil:
		return uint64(p.Altair.ProposerIndex), true
	case p.Bellatrix != nil:
		return uint64(p.Bellatrix.ProposerIndex), true
	case p.BellatrixBlinded != nil:
		return uint64(p.BellatrixBlinded.ProposerIndex), true
	case p.Capella != nil:
		return uint64(p.Capella.ProposerIndex), true
	case p.CapellaBlinded != nil:
		return uint64(p.CapellaBlinded.ProposerIndex), true
	case p.Deneb != nil && p.Deneb.Block != nil:
		return uint64(p.Deneb.Block.ProposerIndex), true
	case p.DenebBlinded != nil:
		return uint64(p.DenebBlinded.ProposerIndex), true
	}
	return 0, false
}

func buildHeader(in *Input, vid int) *apiv1.BeaconBlockHeader {
	if in.Values[vid].Nil {
		return nil
	}
	return &apiv1.BeaconBlockHeader{
		Root:      rootOf(uint64(vid) + 1),
		Canonical: true,
		Header: &phase0.SignedBeaconBlockHeader{Message: &phase0.BeaconBlockHeader{
			Slot: phase0.Slot(in.Slot), ProposerIndex: phase0.ValidatorIndex(vid)}},
	}
}

func buildBlock(in *Input, vid int) *spec.VersionedSignedBeaconBlock {
	if in.Values[vid].Nil {
		return nil
	}
	return &spec.VersionedSignedBeaconBlock{
		Version: spec.DataVersionPhase0,
		Phase0: &phase0.SignedBeaconBlock{Message: &phase0.BeaconBlock{
			Slot: phase0.Slot(in.Slot), ProposerIndex: phase0.ValidatorIndex(vid), Body: &phase0.BeaconBlockBody{ETH1Data: eth1()}}},
	}
}

// same content check: the returned object must be, field for field, what the node gave
func same(a, b any) bool { return reflect.DeepEqual(a, b) }

func valID(in *Input, id uint64, got, want func(int) any) (uint64, string) {
	if id >= uint64(len(in.Values)) {
		return unknownID, "identity field out of range"
	}
	if !same(got(int(id)), want(int(id))) {
		return unknownID, "returned content differs from what the node gave"
	}
	return id, ""
}

// ---------------------------------------------------------------------------------------------
// Scripted provider.

// One script per node for the life of the service instance; what it does depends on which call of
// the sequence (Input.Prior..., Input) is current when the node is asked.
type script struct {
	seq   []*Input // the calls made on the instance, in order
	idx   int
	cur   atomic.Int32   // index of the current call
	calls []atomic.Int32 // how often the node was asked during each call
	warm  atomic.Bool    // warm-up request: every node answers at once (see Input.Warm)
}

func (s *script) name() string { return fmt.Sprintf("node-%d", s.idx) }

// wait returns the call the node was asked in, and nil when the node answers with content, or the
// error it answers with.
func (s *script) wait(ctx context.Context) (*Input, error) {
	// which call of the sequence the request belongs to travels in the caller's context (a call
	// may return, and the next one start, before every goroutine of the strategy has asked its node)
	k, ok := ctx.Value(callKey{}).(int32)
	if !ok {
		k = s.cur.Load()
	}
	in := s.seq[k]
	s.calls[k].Add(1)
	return in, s.wait1(ctx, in)
}

type callKey struct{}

// cancelsKey carries the list of cancel functions to call when the bubble ends.
type cancelsKey struct{}

// callerCtx gives the observed call its caller's deadline (Input.Deadline), counted from the instant
// the call is made: a warm-up request served before it on the same instance is another caller's.
func callerCtx(ctx context.Context, in *Input) context.Context {
	cancels, ok := ctx.Value(cancelsKey{}).(*[]context.CancelFunc)
	if !ok || in.Deadline <= 0 {
		return ctx
	}
	cctx, cancel := context.WithDeadline(ctx, time.Now().Add(time.Duration(in.Deadline)))
	*cancels = append(*cancels, cancel)
	return cctx
}

func (s *script) wait1(ctx context.Context, in *Input) error {
	p := in.Provs[s.idx]
	if s.warm.Load() {
		// the request served before the observed one: nodes with content give it at once; for the
		// "first" strategies (response channel of capacity 1) only the first such node does
		if p.Beh == "respond" && (template(in.Strategy) != "first" || s.idx == firstResponder(in)) {
			return nil
		}
		return errors.New("scripted failure (warm-up)")
	}
	if p.Beh == "never" {
		<-ctx.Done()
		return ctx.Err()
	}
	d := time.Duration(p.T)
	if d > 0 {
		if p.Deaf {
			time.Sleep(d)
		} else {
			start := time.Now()
			timer := time.NewTimer(d)
			select {
			case <-timer.C:
			case <-ctx.Done():
				timer.Stop()
				// an answer due at this very instant is still given
				if time.Since(start) < d {
					return ctx.Err()
				}
			}
		}
	}
	if p.Beh == "error" {
		switch p.Err {
		case "404":
			return &api.Error{Method: "GET", StatusCode: 404}
		case "503":
			return &api.Error{Method: "GET", StatusCode: 503}
		case "canceled":
			return context.Canceled
		default:
			return errors.New("scripted failure")
		}
	}
	return nil
}

func firstResponder(in *Input) int {
	for i, p := range in.Provs {
		if p.Beh == "respond" {
			return i
		}
	}
	return -1
}

func meta() map[string]any { return map[string]any{} }

func (s *script) AttestationData(ctx context.Context, _ *api.AttestationDataOpts) (*api.Response[*phase0.AttestationData], error) {
	in, err := s.wait(ctx)
	if err != nil {
		return nil, err
	}
	return &api.Response[*phase0.AttestationData]{Data: buildAtt(in, in.Provs[s.idx].Val), Metadata: meta()}, nil
}

func (s *script) AggregateAttestation(ctx context.Context, _ *api.AggregateAttestationOpts) (*api.Response[*phase0.Attestation], error) {
	in, err := s.wait(ctx)
	if err != nil {
		return nil, err
	}
	return &api.Response[*phase0.Attestation]{Data: buildAgg(in, in.Provs[s.idx].Val), Metadata: meta()}, nil
}

func (s *script) Proposal(ctx context.Context, _ *api.ProposalOpts) (*api.Response[*api.VersionedProposal], error) {
	in, err := s.wait(ctx)
	if err != nil {
		return nil, err
	}
	return &api.Response[*api.VersionedProposal]{Data: buildProp(in, in.Provs[s.idx].Val), Metadata: meta()}, nil
}

func (s *script) SyncCommitteeContribution(ctx context.Context, _ *api.SyncCommitteeContributionOpts) (*api.Response[*altair.SyncCommitteeContribution], error) {
	in, err := s.wait(ctx)
	if err != nil {
		return nil, err
	}
	return &api.Response[*altair.SyncCommitteeContribution]{Data: buildContrib(in, in.Provs[s.idx].Val), Metadata: meta()}, nil
}

func (s *script) BeaconBlockRoot(ctx context.Context, _ *api.BeaconBlockRootOpts) (*api.Response[*phase0.Root], error) {
	in, err := s.wait(ctx)
	if err != nil {
		return nil, err
	}
	root := rootOf(in.Values[in.Provs[s.idx].Val].Root)
	return &api.Response[*phase0.Root]{Data: &root, Metadata: meta()}, nil
}

func (s *script) BeaconBlockHeader(ctx context.Context, _ *api.BeaconBlockHeaderOpts) (*api.Response[*apiv1.BeaconBlockHeader], error) {
	in, err := s.wait(ctx)
	if err != nil {
		return nil, err
	}
	return &api.Response[*apiv1.BeaconBlockHeader]{Data: buildHeader(in, in.Provs[s.idx].Val), Metadata: meta()}, nil
}

func (s *script) SignedBeaconBlock(ctx context.Context, _ *api.SignedBeaconBlockOpts) (*api.Response[*spec.VersionedSignedBeaconBlock], error) {
	in, err := s.wait(ctx)
	if err != nil {
		return nil, err
	}
	return &api.Response[*spec.VersionedSignedBeaconBlock]{Data: buildBlock(in, in.Provs[s.idx].Val), Metadata: meta()}, nil
}

// map-backed blockRootToSlotCache
type rootCache map[phase0.Root]phase0.Slot

func (c rootCache) BlockRootToSlot(_ context.Context, root phase0.Root) (phase0.Slot, error) {
	if s, ok := c[root]; ok {
		return s, nil
	}
	return 0, errors.New("unknown root")
}

func provMap[T any](scripts []*script, conv func(*script) T) map[string]T {
	m := make(map[string]T, len(scripts))
	for _, s := range scripts {
		m[s.name()] = conv(s)
	}
	return m
}

// ---------------------------------------------------------------------------------------------
// One case: the real constructor, the real call, inside a bubble.

// rec collects what one call returned.
type rec struct {
	obs   Observed
	start time.Time
}

func (r *rec) finish(err error, isNil bool) bool {
	r.obs.Time = int64(time.Since(r.start))
	if err != nil {
		r.obs.Res = "err"
		return true
	}
	if isNil {
		r.obs.Res = "nil"
		return true
	}
	return false
}

func (r *rec) done(id uint64, note string) {
	r.obs.Res, r.obs.ID, r.obs.Note = "val", id, note
}

// newInvoker builds the real service once (public constructor, the scripted nodes as providers)
// and returns the function that makes one call on it.
func newInvoker(ctx context.Context, in *Input, scripts []*script, ct *mocks.ChainTime) (invoke func(ctx context.Context, in *Input) Observed, bad *Observed) {
	level := zerolog.Disabled
	if in.Trace {
		level = zerolog.TraceLevel
	}
	mon := nullmetrics.New()
	T := time.Duration(in.Timeout)
	cache := rootCache{}
	for _, e := range in.Cache {
		cache[rootOf(e[0])] = phase0.Slot(e[1])
	}
	fail := func(err error) (func(ctx context.Context, in *Input) Observed, *Observed) {
		return nil, &Observed{Res: "panic", Note: "constructor: " + err.Error()}
	}
	// Input.Warm: the service instance first serves another request (same options, every node
	// answering at once); whatever it keeps from it must not show in the observed request
	warmup := func(in *Input, f func()) {
		if !in.Warm {
			return
		}
		for _, s := range scripts {
			s.warm.Store(true)
		}
		f()
		synctest.Wait()
		for _, s := range scripts {
			s.warm.Store(false)
			s.calls[s.cur.Load()].Store(0) // the warm-up request is made while its call is the current one
		}
	}

	switch in.Strategy {
	case "AttBest", "AttMajority", "AttFirst":
		provs := provMap(scripts, func(s *script) eth2client.AttestationDataProvider { return s })
		var svc eth2client.AttestationDataProvider
		var err error
		switch in.Strategy {
		case "AttBest":
			svc, err = attbest.New(ctx, attbest.WithLogLevel(level), attbest.WithClientMonitor(mon), attbest.WithProcessConcurrency(2),
				attbest.WithTimeout(T), attbest.WithAttestationDataProviders(provs), attbest.WithChainTime(ct), attbest.WithBlockRootToSlotCache(cache))
		case "AttMajority":
			svc, err = attmajority.New(ctx, attmajority.WithLogLevel(level), attmajority.WithClientMonitor(mon), attmajority.WithProcessConcurrency(2),
				attmajority.WithTimeout(T), attmajority.WithAttestationDataProviders(provs), attmajority.WithChainTime(ct),
				attmajority.WithBlockRootToSlotCache(cache), attmajority.WithThreshold(in.Threshold))
		default:
			svc, err = attfirst.New(ctx, attfirst.WithLogLevel(level), attfirst.WithClientMonitor(mon), attfirst.WithTimeout(T), attfirst.WithAttestationDataProviders(provs))
		}
		if err != nil {
			return fail(err)
		}
		invoke = func(ctx context.Context, in *Input) Observed {
			var r rec
			warmup(in, func() {
				_, _ = svc.AttestationData(ctx, &api.AttestationDataOpts{Slot: phase0.Slot(in.Slot), CommitteeIndex: 3})
			})
			ctx = callerCtx(ctx, in)
			r.start = time.Now()
			resp, err := svc.AttestationData(ctx, &api.AttestationDataOpts{Slot: phase0.Slot(in.Slot), CommitteeIndex: 3})
			if r.finish(err, err == nil && (resp == nil || resp.Data == nil)) {
				return r.obs
			}
			r.done(valID(in, uint64(resp.Data.Index), func(int) any { return resp.Data }, func(i int) any { return buildAtt(in, i) }))
			return r.obs
		}
	case "AggBest", "AggFirst":
		provs := provMap(scripts, func(s *script) eth2client.AggregateAttestationProvider { return s })
		var svc eth2client.AggregateAttestationProvider
		var err error
		if in.Strategy == "AggBest" {
			svc, err = aggbest.New(ctx, aggbest.WithLogLevel(level), aggbest.WithClientMonitor(mon), aggbest.WithProcessConcurrency(2),
				aggbest.WithTimeout(T), aggbest.WithAggregateAttestationProviders(provs))
		} else {
			svc, err = aggfirst.New(ctx, aggfirst.WithLogLevel(level), aggfirst.WithClientMonitor(mon), aggfirst.WithTimeout(T), aggfirst.WithAggregateAttestationProviders(provs))
		}
		if err != nil {
			return fail(err)
		}
		invoke = func(ctx context.Context, in *Input) Observed {
			var r rec
			warmup(in, func() {
				_, _ = svc.AggregateAttestation(ctx, &api.AggregateAttestationOpts{Slot: phase0.Slot(in.Slot), AttestationDataRoot: rootOf(9)})
			})
			ctx = callerCtx(ctx, in)
			r.start = time.Now()
			resp, err := svc.AggregateAttestation(ctx, &api.AggregateAttestationOpts{Slot: phase0.Slot(in.Slot), AttestationDataRoot: rootOf(9)})
			if r.finish(err, err == nil && (resp == nil || resp.Data == nil)) {
				return r.obs
			}
			if resp.Data.Data == nil {
				r.done(unknownID, "aggregate without data")
				return r.obs
			}
			r.done(valID(in, uint64(resp.Data.Data.Index), func(int) any { return resp.Data }, func(i int) any { return buildAgg(in, i) }))
			return r.obs
		}
	case "PropBest", "PropFirst":
		provs := provMap(scripts, func(s *script) eth2client.ProposalProvider { return s })
		var svc eth2client.ProposalProvider
		var err error
		if in.Strategy == "PropBest" {
			svc, err = propbest.New(ctx, propbest.WithLogLevel(level), propbest.WithClientMonitor(mon), propbest.WithProcessConcurrency(2),
				propbest.WithTimeout(T), propbest.WithProposalProviders(provs), propbest.WithChainTimeService(ct), propbest.WithBlockRootToSlotCache(cache),
				propbest.WithEventsProvider(mocks.NewEventsProvider()), propbest.WithSpecProvider(mock.NewSpecProvider()),
				propbest.WithSignedBeaconBlockProvider(mock.NewErroringSignedBeaconBlockProvider()))
		} else {
			svc, err = propfirst.New(ctx, propfirst.WithLogLevel(level), propfirst.WithClientMonitor(mon), propfirst.WithTimeout(T), propfirst.WithProposalProviders(provs))
		}
		if err != nil {
			return fail(err)
		}
		invoke = func(ctx context.Context, in *Input) Observed {
			var r rec
			warmup(in, func() {
				_, _ = svc.Proposal(ctx, &api.ProposalOpts{Slot: phase0.Slot(in.Slot), Graffiti: [32]byte{'v', 'o', 'u', 'c', 'h'}})
			})
			ctx = callerCtx(ctx, in)
			r.start = time.Now()
			resp, err := svc.Proposal(ctx, &api.ProposalOpts{Slot: phase0.Slot(in.Slot), Graffiti: [32]byte{'v', 'o', 'u', 'c', 'h'}})
			if r.finish(err, err == nil && (resp == nil || resp.Data == nil)) {
				return r.obs
			}
			id, ok := propID(resp.Data)
			if !ok {
				r.done(unknownID, "proposal without block")
				return r.obs
			}
			r.done(valID(in, id, func(int) any { return resp.Data }, func(i int) any { return buildProp(in, i) }))
			return r.obs
		}
	case "ContribBest", "ContribFirst":
		provs := provMap(scripts, func(s *script) eth2client.SyncCommitteeContributionProvider { return s })
		var svc eth2client.SyncCommitteeContributionProvider
		var err error
		if in.Strategy == "ContribBest" {
			svc, err = contribbest.New(ctx, contribbest.WithLogLevel(level), contribbest.WithClientMonitor(mon), contribbest.WithProcessConcurrency(2),
				contribbest.WithTimeout(T), contribbest.WithSyncCommitteeContributionProviders(provs))
		} else {
			svc, err = contribfirst.New(ctx, contribfirst.WithLogLevel(level), contribfirst.WithClientMonitor(mon), contribfirst.WithTimeout(T),
				contribfirst.WithSyncCommitteeContributionProviders(provs))
		}
		if err != nil {
			return fail(err)
		}
		invoke = func(ctx context.Context, in *Input) Observed {
			var r rec
			warmup(in, func() {
				_, _ = svc.SyncCommitteeContribution(ctx, &api.SyncCommitteeContributionOpts{Slot: phase0.Slot(in.Slot), SubcommitteeIndex: 1, BeaconBlockRoot: rootOf(77)})
			})
			ctx = callerCtx(ctx, in)
			r.start = time.Now()
			resp, err := svc.SyncCommitteeContribution(ctx, &api.SyncCommitteeContributionOpts{Slot: phase0.Slot(in.Slot), SubcommitteeIndex: 1, BeaconBlockRoot: rootOf(77)})
			if r.finish(err, err == nil && (resp == nil || resp.Data == nil)) {
				return r.obs
			}
			r.done(valID(in, resp.Data.SubcommitteeIndex, func(int) any { return resp.Data }, func(i int) any { return buildContrib(in, i) }))
			return r.obs
		}
	case "RootFirst", "RootLatest", "RootMajority":
		provs := provMap(scripts, func(s *script) eth2client.BeaconBlockRootProvider { return s })
		var svc eth2client.BeaconBlockRootProvider
		var err error
		switch in.Strategy {
		case "RootFirst":
			svc, err = rootfirst.New(ctx, rootfirst.WithLogLevel(level), rootfirst.WithClientMonitor(mon), rootfirst.WithTimeout(T), rootfirst.WithBeaconBlockRootProviders(provs))
		case "RootLatest":
			svc, err = rootlatest.New(ctx, rootlatest.WithLogLevel(level), rootlatest.WithClientMonitor(mon), rootlatest.WithProcessConcurrency(2),
				rootlatest.WithTimeout(T), rootlatest.WithBeaconBlockRootProviders(provs), rootlatest.WithBlockRootToSlotCache(cache))
		default:
			svc, err = rootmajority.New(ctx, rootmajority.WithLogLevel(level), rootmajority.WithClientMonitor(mon), rootmajority.WithProcessConcurrency(2),
				rootmajority.WithTimeout(T), rootmajority.WithBeaconBlockRootProviders(provs), rootmajority.WithBlockRootToSlotCache(cache))
		}
		if err != nil {
			return fail(err)
		}
		invoke = func(ctx context.Context, in *Input) Observed {
			var r rec
			warmup(in, func() { _, _ = svc.BeaconBlockRoot(ctx, &api.BeaconBlockRootOpts{Block: "head"}) })
			ctx = callerCtx(ctx, in)
			r.start = time.Now()
			resp, err := svc.BeaconBlockRoot(ctx, &api.BeaconBlockRootOpts{Block: "head"})
			if r.finish(err, err == nil && (resp == nil || resp.Data == nil)) {
				return r.obs
			}
			// the identity of a root is the root: it must be one some value carries
			id := rootID(*resp.Data)
			if rootOf(id) != *resp.Data {
				r.done(unknownID, "root outside the scripted range")
				return r.obs
			}
			r.done(id, "")
			return r.obs
		}
	case "HeaderFirst":
		provs := provMap(scripts, func(s *script) eth2client.BeaconBlockHeadersProvider { return s })
		svc, err := headerfirst.New(ctx, headerfirst.WithLogLevel(level), headerfirst.WithClientMonitor(mon), headerfirst.WithTimeout(T), headerfirst.WithBeaconBlockHeadersProviders(provs))
		if err != nil {
			return fail(err)
		}
		invoke = func(ctx context.Context, in *Input) Observed {
			var r rec
			warmup(in, func() { _, _ = svc.BeaconBlockHeader(ctx, &api.BeaconBlockHeaderOpts{Block: "head"}) })
			ctx = callerCtx(ctx, in)
			r.start = time.Now()
			resp, err := svc.BeaconBlockHeader(ctx, &api.BeaconBlockHeaderOpts{Block: "head"})
			if r.finish(err, err == nil && (resp == nil || resp.Data == nil)) {
				return r.obs
			}
			r.done(valID(in, uint64(resp.Data.Header.Message.ProposerIndex), func(int) any { return resp.Data }, func(i int) any { return buildHeader(in, i) }))
			return r.obs
		}
	case "BlockFirst":
		provs := provMap(scripts, func(s *script) eth2client.SignedBeaconBlockProvider { return s })
		svc, err := blockfirst.New(ctx, blockfirst.WithLogLevel(level), blockfirst.WithClientMonitor(mon), blockfirst.WithTimeout(T), blockfirst.WithSignedBeaconBlockProviders(provs))
		if err != nil {
			return fail(err)
		}
		invoke = func(ctx context.Context, in *Input) Observed {
			var r rec
			warmup(in, func() { _, _ = svc.SignedBeaconBlock(ctx, &api.SignedBeaconBlockOpts{Block: "head"}) })
			ctx = callerCtx(ctx, in)
			r.start = time.Now()
			resp, err := svc.SignedBeaconBlock(ctx, &api.SignedBeaconBlockOpts{Block: "head"})
			if r.finish(err, err == nil && (resp == nil || resp.Data == nil)) {
				return r.obs
			}
			r.done(valID(in, uint64(resp.Data.Phase0.Message.ProposerIndex), func(int) any { return resp.Data }, func(i int) any { return buildBlock(in, i) }))
			return r.obs
		}
	default:
		return fail(errors.New("unknown strategy " + in.Strategy))
	}
	return invoke, nil
}

// sequence lists the calls made on the service instance of an input: its earlier calls, then the
// input itself.  What belongs to the instance (strategy, timeout, chain parameters, threshold, cache,
// log level) is the input's; an earlier call keeps its own slot, contents and node behaviours.
func sequence(in *Input) []*Input {
	seq := make([]*Input, 0, len(in.Prior)+1)
	for i := range in.Prior {
		c := in.Prior[i]
		c.Prior = nil
		c.Strategy, c.Timeout, c.SPE, c.Threshold, c.Cache, c.Trace = in.Strategy, in.Timeout, in.SPE, in.Threshold, in.Cache, in.Trace
		if len(c.Provs) != len(in.Provs) {
			panic("an earlier call has another number of nodes")
		}
		seq = append(seq, &c)
	}
	last := *in
	last.Prior = nil
	return append(seq, &last)
}

// runCase makes the calls of an input on one service instance inside one bubble and returns what
// each call returned (the input's own call is the last).
func runCase(t *testing.T, in *Input) (all []Observed) {
	seq := sequence(in)
	scripts := make([]*script, len(in.Provs))
	for i := range in.Provs {
		scripts[i] = &script{seq: seq, idx: i, calls: make([]atomic.Int32, len(seq))}
	}
	all = make([]Observed, len(seq))
	made := 0
	panicked := func(r any) {
		for k := made; k < len(all); k++ {
			all[k] = Observed{Res: "panic", Note: fmt.Sprint(r)}
		}
		made = len(all)
	}
	defer func() {
		// a deadlocked bubble (a goroutine of the strategy left blocked for ever) panics here
		if r := recover(); r != nil {
			made = 0
			panicked(r)
		}
		for k := range all {
			all[k].Calls = make([]int32, len(scripts))
			for i, s := range scripts {
				all[k].Calls[i] = s.calls[k].Load()
			}
		}
	}()
	synctest.Test(t, func(t *testing.T) {
		defer func() {
			if r := recover(); r != nil {
				panicked(r)
			}
		}()
		ctx := context.Background()
		ct := mocks.NewChainTime(in.SPE)
		ct.SetSlot(uint64(int64(seq[0].Slot) + seq[0].NowOff))
		invoke, bad := newInvoker(ctx, in, scripts, ct)
		if bad != nil {
			for k := range all {
				all[k] = *bad
			}
			made = len(all)
			return
		}
		rest := time.Duration(in.Timeout)
		var cancels []context.CancelFunc
		defer func() {
			for _, cancel := range cancels {
				cancel()
			}
		}()
		for k, c := range seq {
			if k > 0 && c.Gap > 0 {
				time.Sleep(time.Duration(c.Gap))
			}
			for _, s := range scripts {
				s.cur.Store(int32(k))
			}
			ct.SetSlot(uint64(int64(c.Slot) + c.NowOff))
			cctx := context.WithValue(ctx, callKey{}, int32(k))
			if c.Deadline > 0 {
				// the caller works to a deadline of its own (a duty's deadline, a request budget); it is
				// set by callerCtx when the observed call is made, after any warm-up request
				cctx = context.WithValue(cctx, cancelsKey{}, &cancels)
				if d := time.Duration(c.Deadline); d > rest {
					rest = d
				}
			}
			all[k] = invoke(cctx, c)
			made = k + 1
			for _, p := range c.Provs {
				if d := time.Duration(p.T); d > rest {
					rest = d
				}
			}
		}
		// the fake clock stops when this function returns: let every node that ignores its
		// context finish first
		time.Sleep(rest + time.Second)
		synctest.Wait()
	})
	return all
}

// ---------------------------------------------------------------------------------------------
// Gallina.

func rawTerm(in *Input, vid int) string {
	v := in.Values[vid]
	switch family(in.Strategy) {
	case "att":
		return App("RAtt", Bool(v.Nil), Bool(v.NilTarget), N(attSlot(in, v)), N(v.Source), N(v.Target), N(v.Root))
	case "agg":
		return App("RAgg", Bool(v.Nil), N(v.Set), N(v.Len))
	case "prop":
		return App("RProp", N(v.Version), N(v.Fee), bigN(wei(v.CVHi, v.CV)), bigN(wei(v.EVHi, v.EV)))
	case "contrib":
		return App("RContrib", Bool(v.Nil), N(v.Set))
	case "root":
		return App("RRoot", N(v.Root))
	default:
		return App("ROpaque", Bool(v.Nil))
	}
}

func valueID(in *Input, vid int) uint64 {
	if family(in.Strategy) == "root" {
		return in.Values[vid].Root
	}
	return uint64(vid)
}

func term(id uint64, in *Input, obs Observed) string {
	cache := make([]string, 0, len(in.Cache))
	for _, e := range in.Cache {
		cache = append(cache, Pair(N(e[0]), N(e[1])))
	}
	params := Record("p_timeout", N(uint64(in.Timeout)), "p_spe", N(in.SPE), "p_slot", N(in.Slot),
		"p_threshold", N(uint64(in.Threshold)), "p_cache", List(cache))
	provs := make([]string, 0, len(in.Provs))
	for i, p := range in.Provs {
		beh := "BNever"
		switch p.Beh {
		case "respond":
			beh = App("BRespond", Record("v_id", N(valueID(in, p.Val)), "v_raw", rawTerm(in, p.Val)))
		case "error":
			beh = "BError"
		}
		provs = append(provs, Record("pv_id", N(uint64(i)), "pv_time", N(uint64(p.T)), "pv_deaf", Bool(p.Deaf), "pv_beh", beh))
	}
	res := "RPanic"
	switch obs.Res {
	case "val":
		res = App("RVal", N(obs.ID))
	case "nil":
		res = "RNil"
	case "err":
		res = "RErr"
	}
	calls := make([]string, 0, len(obs.Calls))
	for _, c := range obs.Calls {
		calls = append(calls, N(uint64(c)))
	}
	o := Record("o_res", res, "o_time", N(uint64(obs.Time)), "o_calls", List(calls))
	return Record("c_id", N(id), "c_strat", in.Strategy, "c_params", params, "c_provs", List(provs), "c_obs", o)
}

// ---------------------------------------------------------------------------------------------
// Generators.

const ms = int64(time.Millisecond)

func fact(n int) int {
	f := 1
	for i := 2; i <= n; i++ {
		f *= i
	}
	return f
}

// scheduleCount is the number of event orders the model has to consider for this input.
func scheduleCount(in *Input) int {
	T := in.Timeout
	groups := map[int64]int{T: 1}
	if template(in.Strategy) != "first" {
		groups[T/2]++
	}
	for _, p := range in.Provs {
		t := p.T
		if p.Beh == "never" || (t > T && !p.Deaf) {
			t = T
		}
		groups[t]++
	}
	n := 1
	for _, k := range groups {
		n *= fact(k)
		if n > 1<<20 {
			return n
		}
	}
	distinct := map[int]bool{}
	for _, p := range in.Provs {
		if p.Beh == "respond" {
			distinct[p.Val] = true
		}
	}
	if tp := template(in.Strategy); tp == "majatt" || tp == "majroot" {
		n *= fact(len(distinct))
	}
	return n
}

func genValue(r *Rand, in *Input, valid bool) Value {
	epoch := in.Slot / in.SPE
	switch family(in.Strategy) {
	case "att":
		v := Value{Target: epoch, Root: uint64(r.Range(1, 5))}
		v.Source = epoch - uint64(r.Range(1, 3))
		if !valid {
			switch r.Intn(4) {
			case 0:
				v.Nil = true
			case 1:
				v.NilTarget = true
			case 2:
				v.Target = epoch + 1
			default:
				v.Target = epoch - 1
			}
		}
		return v
	case "agg":
		l := uint64(r.Range(1, 2048))
		if r.Chance(1, 3) {
			l = uint64(r.Range(1, 16))
		}
		v := Value{Len: l, Set: uint64(r.Intn(int(l) + 1))}
		if r.Chance(1, 30) {
			v.Len, v.Set = 0, 0 // empty bitlist: the score is 0/0
		}
		if !valid {
			v.Nil = true
		}
		return v
	case "prop":
		v := Value{Version: uint64(r.Range(1, 5)), Fee: 1, CV: uint64(r.Intn(1<<20)) << 30, EV: uint64(r.Intn(1<<20)) << 30}
		if r.Chance(1, 3) {
			v.CV, v.EV = uint64(r.Intn(50)), uint64(r.Intn(50))
		}
		if v.Version >= 3 {
			v.Blinded = r.Chance(1, 3)
		}
		if !valid {
			v.Version = uint64(r.Range(3, 5))
			switch r.Intn(6) {
			case 0:
				v.Fee = 2
			case 1:
				v.Version = 0
			case 2:
				v.Version = 6
			default:
				v.Fee = 0
			}
			if v.Version < 3 {
				v.Blinded = false
			}
		}
		return v
	case "contrib":
		v := Value{Set: uint64(r.Intn(129))}
		if r.Chance(1, 3) {
			v.Set = uint64(r.Intn(4))
		}
		if !valid {
			v.Nil = true
		}
		return v
	case "root":
		return Value{Root: uint64(r.Range(1, 5))}
	default:
		return Value{Nil: !valid}
	}
}

// wideWei draws a block value in wei from the whole legal range: whole ETH amounts on both sides of
// 2^64 wei (about 18.45 ETH), the neighbourhoods of 2^63, 2^64 and of every power of two up to 2^80
// (where neighbouring integers share a float64), arbitrary values up to 2^80, values at 2^64 or
// above whose low 64 bits are small or large, and neighbours of a value already in the pool.
func wideWei(r *Rand, near *big.Int) *big.Int {
	pow := func(k uint) *big.Int { return new(big.Int).Lsh(big.NewInt(1), k) }
	small := func() *big.Int {
		if r.Chance(1, 2) {
			return big.NewInt(int64(r.Range(-2, 2)))
		}
		return big.NewInt(int64(r.Range(-(1 << 20), 1<<20)))
	}
	var x *big.Int
	switch r.Intn(8) {
	case 0, 1:
		x = new(big.Int).Mul(big.NewInt(int64(r.Range(1, 200))), big.NewInt(1e18))
		if r.Chance(1, 2) {
			x = new(big.Int).Mul(big.NewInt(int64(r.Range(10, 40))), big.NewInt(1e18))
		}
	case 2:
		x = new(big.Int).Add(pow(63), small())
	case 3:
		x = new(big.Int).Add(pow(64), small())
	case 4:
		x = wei(uint64(r.Intn(1<<16)), r.U64())
	case 5:
		x = new(big.Int).Add(pow(uint(r.Range(53, 80))), small())
	case 6:
		// at or above 2^64 with low 64 bits near 0 or near 2^64
		x = wei(uint64(r.Range(1, 40)), uint64(r.Intn(1<<30)))
		if r.Chance(1, 2) {
			x = wei(uint64(r.Range(1, 40)), ^uint64(r.Intn(1<<30)))
		}
	default:
		if near != nil {
			x = new(big.Int).Add(near, small())
		} else {
			x = new(big.Int).Add(pow(64), small())
		}
	}
	if x.Sign() < 0 {
		x.SetInt64(0)
	}
	return x
}

// setWide gives a proposal the total value x, split between consensus and execution value.
func setWide(r *Rand, v *Value, x *big.Int) {
	lo64 := func(y *big.Int) (uint64, uint64) {
		hi := new(big.Int).Rsh(y, 64)
		lo := new(big.Int).And(y, new(big.Int).SetUint64(^uint64(0)))
		return hi.Uint64(), lo.Uint64()
	}
	var cv, ev *big.Int
	switch r.Intn(4) {
	case 0: // two halves: each may fit 64 bits although the sum does not
		cv = new(big.Int).Rsh(x, 1)
		ev = new(big.Int).Sub(x, cv)
	case 1: // all in the consensus value
		cv, ev = x, big.NewInt(int64(r.Intn(3)))
	default: // all in the execution value (a large MEV block), an ordinary consensus reward
		cv, ev = big.NewInt(int64(r.Intn(1<<26))), x
		if r.Chance(1, 2) {
			cv = big.NewInt(0)
		}
	}
	v.CVHi, v.CV = lo64(cv)
	v.EVHi, v.EV = lo64(ev)
}

func total(v Value) *big.Int { return new(big.Int).Add(wei(v.CVHi, v.CV), wei(v.EVHi, v.EV)) }

// genForeignSlot: attestation data for another slot than the requested one.
func genForeignSlot(r *Rand, in *Input, later bool) Value {
	spe := int64(in.SPE)
	epoch := in.Slot / in.SPE
	pos := int64(in.Slot % in.SPE)
	v := Value{Root: uint64(r.Range(1, 5))}
	behind := func() {
		// a head the cache knows must not be later than the data's slot (the score's 1+slot-head is
		// unsigned): such a value has a head root of its own (6 + its index)
		v.Root = uint64(6 + len(in.Values))
		if later {
			// a later call on an instance: its cache is fixed; a root it does not know
			v.Root += 20
			return
		}
		if r.Chance(2, 3) {
			in.Cache = append(in.Cache, [2]uint64{v.Root, attSlot(in, v) - uint64(r.Intn(4))})
		}
	}
	switch r.Intn(8) {
	case 0, 1, 2: // a later epoch, self-consistent: higher target, higher score
		v.SlotOff = []int64{spe, spe - pos, 2 * spe}[r.Intn(3)]
		v.Target = attSlot(in, v) / in.SPE
		v.Source = v.Target - uint64(r.Range(0, 1)) - 1
		if v.Source < epoch {
			v.Source = epoch
		}
	case 3, 4: // an earlier epoch, self-consistent
		v.SlotOff = -[]int64{spe, pos + 1}[r.Intn(2)]
		v.Target = attSlot(in, v) / in.SPE
		v.Source = v.Target - 1
		behind()
	case 5: // another slot of the duty's epoch: acceptable
		v.SlotOff = int64(r.Intn(int(in.SPE))) - pos
		v.Target, v.Source = epoch, epoch-1
		if v.SlotOff < 0 {
			behind()
		}
	case 6: // a slot of a later epoch with the duty's target epoch: passes the target-epoch rule
		v.SlotOff = spe
		v.Target, v.Source = epoch, epoch-1
	default: // a slot of an earlier epoch with the duty's target epoch
		v.SlotOff = -(pos + 1)
		v.Target, v.Source = epoch, epoch-uint64(r.Range(1, 2))
		behind()
	}
	return v
}

// minorityFirst rewrites the nodes of a majority case: a few nodes report one value early, more
// nodes another value later (all within the timeout), the rest fail, stay silent or are late.  The
// threshold of attestationdata/majority is at most the early count, i.e. below a strict majority
// of the nodes: the early value must not be taken before the later, more frequent one is in.
func minorityFirst(r *Rand, in *Input, fixed int) bool {
	if fixed != 0 && fixed < 3 {
		return false
	}
	T, S := in.Timeout, in.Timeout/2
	att := template(in.Strategy) == "majatt"
	// two distinct acceptable values at indices 0 and 1
	if att {
		v0, v1 := genValue(r, in, true), genValue(r, in, true)
		rest := append([]Value{}, in.Values...)
		in.Values = append([]Value{v0, v1}, rest...)
	} else {
		a := uint64(r.Range(1, 5))
		b := a%5 + 1
		in.Values = []Value{{Root: a}, {Root: b}}
	}
	n := r.Range(3, 6)
	if fixed != 0 {
		n = fixed
	}
	early := r.Range(1, (n-1)/2)
	late := r.Range(early+1, n-early)
	if r.Chance(1, 6) {
		late = early // a tie between the early and the late value
	}
	used := map[int64]bool{}
	pick := func(lo, hi int64) int64 {
		for {
			t := lo + int64(r.Intn(int((hi-lo)/ms)+1))*ms + int64(r.Intn(3))
			if !used[t] && t != S && t != T && t > 0 {
				used[t] = true
				return t
			}
		}
	}
	var provs []Prov
	for i := 0; i < early; i++ {
		provs = append(provs, Prov{T: pick(ms, S/4), Beh: "respond", Val: 0})
	}
	lateLo, lateHi := S/4+ms, S-2*ms
	if att && r.Chance(1, 2) {
		lateLo, lateHi = S+ms, T-2*ms // attestationdata/majority: the soft timeout decides nothing
	}
	for i := 0; i < late; i++ {
		provs = append(provs, Prov{T: pick(lateLo, lateHi), Beh: "respond", Val: 1})
	}
	for len(provs) < n {
		switch r.Intn(4) {
		case 0:
			provs = append(provs, Prov{Beh: "never"})
		case 1:
			provs = append(provs, Prov{T: pick(ms, T-ms), Beh: "error", Err: "plain"})
		case 2:
			provs = append(provs, Prov{T: pick(T+ms, 2*T), Beh: "respond", Val: r.Intn(len(in.Values))})
		default:
			provs = append(provs, Prov{T: pick(ms, T-ms), Beh: "respond", Val: r.Intn(len(in.Values))})
		}
	}
	// node order is immaterial to the strategy (a Go map) but not to a reader
	for i := len(provs) - 1; i > 0; i-- {
		j := r.Intn(i + 1)
		provs[i], provs[j] = provs[j], provs[i]
	}
	in.Provs = provs
	if att {
		switch r.Intn(6) {
		case 0:
			in.Threshold = 0
		case 1:
			in.Threshold = early + 1
		default:
			in.Threshold = r.Range(1, early)
		}
	}
	return true
}

// hasRules: the strategy rejects some responses
func hasRules(st string) bool {
	switch st {
	case "AttBest", "AttMajority", "AggBest", "PropBest", "ContribBest":
		return true
	}
	return false
}

// nilOK: a response without data is handled (rejected or passed on) rather than dereferenced
func nilOK(st string) bool {
	switch family(st) {
	case "att", "agg", "contrib", "header", "block":
		return true
	}
	return false
}

func gen(r *Rand) Input {
	one := func(prev *Input) Input {
		for {
			in := gen1(r, prev)
			if scheduleCount(&in) <= 3000 {
				return in
			}
		}
	}
	in := one(nil)
	// family: 2-4 calls in a row on ONE service instance (other slots and epochs, or the same slot
	// again; nodes that were slow, failing or silent in an earlier call; earlier calls that ran
	// into their timeout; back to back or after a pause)
	if r.Chance(1, 6) && !hasTag(&in, "wide-epoch") {
		var prior []Input
		for k := r.Range(1, 3); k > 0; k-- {
			next := one(&in)
			in.Prior = nil
			prior = append(prior, in)
			in = next
		}
		in.Prior = prior
		in.Tags = append(in.Tags, "calls-in-a-row")
		sort.Strings(in.Tags)
	}
	return in
}

// gen1 draws one call; with prev, a further call on the service instance that served prev: what
// belongs to the instance stays, the slot does not go back.
func gen1(r *Rand, prev *Input) Input {
	in := Input{Strategy: strategies[r.Intn(len(strategies))], SPE: 32}
	// the templates with a decision to get wrong are drawn more often
	if r.Chance(1, 3) {
		in.Strategy = []string{"AttBest", "AttMajority", "AggBest", "PropBest", "ContribBest", "RootLatest", "RootMajority"}[r.Intn(7)]
	}
	if prev != nil {
		in.Strategy = prev.Strategy
	}
	tp := template(in.Strategy)
	switch r.Intn(5) {
	case 0:
		in.Timeout = 1000 * ms
	case 1:
		in.Timeout = 3000 * ms
	case 2:
		in.Timeout = 1999999999 // odd: the soft timeout is timeout/2 rounded down
	case 3:
		in.Timeout = 250 * ms
	default:
		in.Timeout = 2000 * ms
	}
	if prev != nil {
		in.Timeout = prev.Timeout
	}
	T, S := in.Timeout, in.Timeout/2
	if r.Chance(1, 8) {
		in.SPE = uint64(r.Range(1, 64))
	}
	in.Slot = in.SPE*uint64(r.Range(4, 1<<16)) + uint64(r.Intn(int(in.SPE)))
	// family: slots and epochs that do not fit 32 bits (the types are 64 bits wide).  1: the slot is
	// just above 2^32, the slots of the known heads on both sides of it; 2: the epoch is about 2^31,
	// source+target on both sides of 2^32 (known heads at most 15 slots back, one call per instance:
	// the float64 score 'source+target+1/(1+distance)' keeps the order of the exact one)
	wideSlot := 0
	wideDen := 10
	switch in.Strategy {
	case "AttBest", "AttMajority", "RootLatest", "RootMajority": // they compare slots or sum epochs
		wideDen = 4
	}
	if prev == nil && r.Chance(1, wideDen) {
		wideSlot = r.Range(1, 2)
		if family(in.Strategy) == "root" {
			wideSlot = 1
		}
		if wideSlot == 1 {
			in.SPE = 32 // epoch about 2^27: source+target < 2^29, where 1/(1+distance) still separates float64 scores
			in.Slot = 1<<32 + uint64(r.Intn(4))
			if r.Chance(1, 3) {
				in.Slot = 1<<32 + uint64(r.Intn(int(2*in.SPE)))
			}
		} else {
			// source+target crosses 2^32 between source = epoch-3 and epoch-1 when the epoch is 2^31+1
			in.SPE = 32
			in.Slot = uint64(32*(int64(1)<<31+int64([]int{1, 1, 1, 0, 2, -1}[r.Intn(6)]))) + uint64(r.Intn(32))
		}
	}
	in.Trace = r.Chance(1, 4)
	n := r.Range(1, 6)
	if r.Chance(1, 2) {
		n = r.Range(2, 4)
	}
	if prev != nil {
		in.SPE, in.Trace, n = prev.SPE, prev.Trace, len(prev.Provs)
		spe := in.SPE
		in.Slot = prev.Slot + []uint64{0, 1, 1, spe - prev.Slot%spe, spe, spe, 2 * spe}[r.Intn(7)]
		in.Cache = prev.Cache
		in.Gap = []int64{0, 0, ms, T / 2, T, 3 * T}[r.Intn(6)]
	}

	// cache: roots 1..5, most known, at most 1024 slots behind the duty slot
	for root := uint64(1); root <= 5 && prev == nil; root++ {
		if r.Chance(1, 6) {
			continue // unknown to the cache
		}
		d := uint64(r.Intn(6))
		if r.Chance(1, 5) {
			d = uint64(r.Intn(1025))
			if wideSlot == 2 {
				d = uint64(r.Intn(16))
			}
		}
		if d > in.Slot {
			d = in.Slot
		}
		in.Cache = append(in.Cache, [2]uint64{root, in.Slot - d})
	}

	// value pool
	nvals := r.Range(1, 4)
	if tp == "majatt" || tp == "majroot" {
		nvals = r.Range(1, 3)
	}
	tags := map[string]bool{}
	if wideSlot > 0 {
		tags[[]string{"", "wide-slot", "wide-epoch"}[wideSlot]] = true
	}
	for i := 0; i < nvals; i++ {
		// every family but the bare roots has an irregular kind of content
		valid := family(in.Strategy) == "root" || !r.Chance(1, 5)
		in.Values = append(in.Values, genValue(r, &in, valid))
	}
	if family(in.Strategy) == "root" {
		// the identity of a root value is its root: keep the pool duplicate-free
		seen := map[uint64]bool{}
		vals := in.Values[:0]
		for _, v := range in.Values {
			if !seen[v.Root] {
				seen[v.Root] = true
				vals = append(vals, v)
			}
		}
		in.Values = vals
	}
	// family: block values over the whole legal range (not only what fits 51 bits)
	wideValues := family(in.Strategy) == "prop" && r.Chance(2, 3)
	if wideValues {
		if len(in.Values) < 2 {
			in.Values = append(in.Values, genValue(r, &in, true))
		}
		k := r.Intn(len(in.Values)) // this one at least
		var near *big.Int
		for i := range in.Values {
			if i == k || r.Chance(1, 2) {
				x := wideWei(r, near)
				setWide(r, &in.Values[i], x)
				near = total(in.Values[i])
			}
		}
		// often a pair as in "19 ETH against 1 ETH": a value of 2^64 wei or more whose low 64 bits are
		// below another value that fits 64 bits
		if r.Chance(1, 2) {
			i := r.Intn(len(in.Values))
			j := (i + 1 + r.Intn(len(in.Values)-1)) % len(in.Values)
			over := wei(uint64(r.Range(1, 1<<uint(r.Range(1, 16)))), r.U64()>>uint(r.Range(4, 40)))
			under := new(big.Int).SetUint64(r.U64()>>uint(r.Range(0, 3)) | 1<<60)
			if r.Chance(1, 2) {
				over = new(big.Int).Mul(big.NewInt(int64(r.Range(19, 36))), big.NewInt(1e18))
				under = new(big.Int).Mul(big.NewInt(int64(r.Range(1, 18))), big.NewInt(1e18))
			}
			setWide(r, &in.Values[i], over)
			setWide(r, &in.Values[j], under)
		}
		tags["wide-value"] = true
	}
	// family: an invalid response that outscores every valid one
	if hasRules(in.Strategy) && tp == "best" && r.Chance(1, 4) {
		var v Value
		switch family(in.Strategy) {
		case "att":
			v = genValue(r, &in, true)
			v.Target = in.Slot/in.SPE + 1 // higher target epoch: higher score, wrong epoch
			v.Source = in.Slot / in.SPE
		case "agg", "contrib":
			v = Value{Nil: true}
		case "prop":
			v = Value{Version: uint64(r.Range(3, 5)), Fee: 0, CV: (1 << 21) << 30, EV: 1 << 30}
			if wideValues {
				v.EVHi = 1 << 18 // 2^82 wei
			}
		}
		in.Values = append(in.Values, v)
		tags["invalid-high-scorer"] = true
	}

	// family: a node that answers for ANOTHER slot than the one asked (it is ahead, behind, or
	// mis-routes the request).  Its data is self-consistent (target epoch = epoch of ITS slot) and so
	// has the wrong target epoch for the duty, or carries the duty's target epoch with a foreign slot
	if family(in.Strategy) == "att" && r.Chance(1, 3) {
		k := r.Range(1, 2)
		for i := 0; i < k; i++ {
			in.Values = append(in.Values, genForeignSlot(r, &in, prev != nil))
		}
		tags["foreign-slot"] = true
	}
	// the duty slot is not the chain's current slot (late duty at an epoch boundary, early request)
	if r.Chance(1, 6) {
		in.NowOff = []int64{int64(in.SPE), -int64(in.SPE), 1, -1, 2 * int64(in.SPE)}[r.Intn(5)]
		tags["now-differs"] = true
	}
	// the service instance has served another request before this one
	if r.Chance(1, 8) {
		in.Warm = true
	}

	// times
	grid := []int64{1 * ms, 7 * ms, S - ms, S - 1, S + 1, S + ms, (S + T) / 2, T - ms, T - 1, T + 1, T + ms, 2 * T}
	ties := r.Chance(1, 6)
	if ties {
		grid = append(grid, 0, 0, S, S, T, T, 1*ms, 1*ms)
		tags["tie"] = true
	}
	early := r.Chance(1, 3) // everything well before the soft timeout
	used := map[int64]bool{}
	pickTime := func() int64 {
		for k := 0; ; k++ {
			var t int64
			switch {
			case early:
				t = int64(r.Range(1, 400)) * (S / 500)
			case r.Chance(2, 3):
				t = grid[r.Intn(len(grid))]
			default:
				t = int64(r.Range(1, 2200)) * (T / 2000)
			}
			if ties && k < 3 && len(used) > 0 && r.Chance(1, 2) {
				// reuse an instant
				for u := range used {
					t = u
					break
				}
			}
			if ties || (!used[t] && t != S && t != T) {
				used[t] = true
				return t
			}
		}
	}
	for i := 0; i < n; i++ {
		p := Prov{T: pickTime()}
		k := r.Intn(20)
		if wideValues && k < 17 {
			k = 0 // block values are compared only between answers: more of them
		}
		switch {
		case k < 13:
			p.Beh, p.Val = "respond", r.Intn(len(in.Values))
		case k < 16:
			p.Beh = "error"
			p.Err = []string{"plain", "plain", "404", "503", "canceled"}[r.Intn(5)]
		default:
			p.Beh = "never"
			p.T = 0
		}
		if tp != "first" && p.Beh != "never" && r.Chance(1, 8) {
			p.Deaf = true
		}
		in.Provs = append(in.Provs, p)
	}
	minority := false
	if (tp == "majatt" || tp == "majroot") && r.Chance(1, 3) {
		fixed := 0
		if prev != nil {
			fixed = n
		}
		minority = minorityFirst(r, &in, fixed)
		if minority {
			tags["minority-first"] = true
			n = len(in.Provs)
		}
	}
	if tp == "majatt" && !minority {
		switch r.Intn(4) {
		case 0:
			in.Threshold = 0
		case 1:
			in.Threshold = r.Intn(n + 1)
		default:
			// around the largest count actually reported
			counts := map[int]int{}
			best := 0
			for _, p := range in.Provs {
				if p.Beh == "respond" {
					counts[p.Val]++
					if counts[p.Val] > best {
						best = counts[p.Val]
					}
				}
			}
			in.Threshold = best + r.Range(-1, 1)
			if in.Threshold < 0 {
				in.Threshold = 0
			}
			if in.Threshold > n {
				in.Threshold = n
			}
			tags["threshold-edge"] = true
		}
	}
	if prev != nil {
		in.Threshold = prev.Threshold
	}
	// family: the caller's context carries a deadline of its own, LATER than the strategy's configured
	// timeout (the duty's deadline, a request budget of the calling service).  The configured timeout
	// still binds.  In half of these cases no node that honours its context answers within the
	// timeout: the nodes are silent or slow (they would answer between the timeout and the caller's
	// deadline if they were left the time), so the call must end in an error AT the timeout.
	if r.Chance(1, 4) {
		in.Deadline = T + []int64{1, ms, S, T, 2 * T, 9 * T}[r.Intn(6)]
		tags["caller-deadline"] = true
		if r.Chance(1, 2) && !minority {
			D := in.Deadline
			late := []int64{T + 1, T + ms, T + (D-T)/2, D - 1, D, D + ms}
			for i := range in.Provs {
				p := &in.Provs[i]
				if p.Beh == "never" || p.T > T {
					continue
				}
				if r.Chance(1, 4) && !p.Deaf {
					p.Beh, p.T, p.Err, p.Val = "never", 0, "", 0
					continue
				}
				if p.Deaf && r.Chance(1, 2) {
					continue // a node that ignores its context still answers in time
				}
				p.T = late[r.Intn(len(late))]
			}
			tags["slow-nodes"] = true
		}
	}
	if tp == "first" {
		limitFirstTies(&in)
	}
	for _, p := range in.Provs {
		if p.Beh != "never" && (abs64(p.T-S) <= ms) && tp != "first" {
			tags["soft-edge"] = true
		}
		if p.Beh != "never" && (abs64(p.T-T) <= ms) {
			tags["hard-edge"] = true
		}
	}
	for t := range tags {
		in.Tags = append(in.Tags, t)
	}
	sort.Strings(in.Tags)
	return in
}

func hasTag(in *Input, tag string) bool {
	for _, t := range in.Tags {
		if t == tag {
			return true
		}
	}
	return false
}

func abs64(x int64) int64 {
	if x < 0 {
		return -x
	}
	return x
}

// The "first" strategies use a response channel of capacity 1: a third response sent at the very
// instant of the first (or a second one when the select took the timeout at that instant) blocks
// its goroutine for ever (that leak belongs to C20, not to C07), and a bubble cannot end with a
// blocked goroutine.  At most two responders share the earliest instant, one if it is the timeout.
func limitFirstTies(in *Input) {
	first := int64(-1)
	for _, p := range in.Provs {
		if p.Beh == "respond" && p.T <= in.Timeout && (first < 0 || p.T < first) {
			first = p.T
		}
	}
	k := 0
	if first == in.Timeout {
		k = 1
	}
	for i := range in.Provs {
		p := &in.Provs[i]
		p.Deaf = false
		if p.Beh == "respond" && p.T == first {
			k++
			if k > 2 {
				p.T += 3 * ms
			}
		}
	}
}

// structural tags computed from the input alone (they also select known findings)
func structuralTags(in *Input) []string {
	tags := append([]string{}, in.Tags...)
	add := func(t string) {
		for _, x := range tags {
			if x == t {
				return
			}
		}
		tags = append(tags, t)
	}
	add("template:" + template(in.Strategy))
	if in.Strategy == "AttMajority" && in.Threshold > len(in.Provs)/2+1 {
		add("threshold-above-majority")
	}
	if in.Trace {
		add("trace-level")
	}
	if in.Warm {
		add("warm-instance")
	}
	if len(in.Prior) > 0 {
		add("after-earlier-calls")
	}
	return tags
}

func nontrivial(in *Input) bool {
	// reaches the decision: at least one node answers with content before the hard timeout
	for _, p := range in.Provs {
		if p.Beh == "respond" && p.T < in.Timeout {
			return true
		}
	}
	return false
}

func TestC07(t *testing.T) {
	zerologger.Logger = zerolog.New(io.Discard)
	col := NewCollector("C07", "Check.C07",
		"one call of one of the 14 strategies with 1-6 scripted nodes (content, error, silence; latencies around the soft and hard timeouts; answers for another slot) in a synctest bubble, alone or as one of 2-4 calls in a row on one service instance (one case per call, with the calls made before it); non-trivial = at least one node answers with content before the hard timeout; distinct by full input text")
	n := EnvInt("VERIF_N", 1500)
	var ins []Input
	for _, in := range LoadInputs[Input]("C07") {
		in.Tags = append(in.Tags, "corpus")
		ins = append(ins, in)
	}
	// NewRand(k+1) is NewRand(k) advanced by one draw (the state is seed*gamma and every draw adds
	// gamma), so with one Fork per input "another seed" would be the same inputs shifted by one.
	// A fork of the seeded generator starts from a hashed state instead: seeds are unrelated.
	rng := NewRand(Seed()).Fork()
	for i := 0; i < n; i++ {
		ins = append(ins, gen(rng.Fork()))
	}
	for i := range ins {
		whole := &ins[i]
		observed := runCase(t, whole)
		seq := sequence(whole)
		if len(seq) > 1 {
			col.Count(fmt.Sprintf("calls-on-one-instance:%d", len(seq)))
		}
		for k := range seq {
			// one case per call: the call with the calls made before it on the same instance
			in := seq[k]
			for q := 0; q < k; q++ {
				c := *seq[q]
				c.Prior = nil
				in.Prior = append(in.Prior, c)
			}
			obs := observed[k]
			col.Count("strategy:" + in.Strategy)
			col.Count(fmt.Sprintf("nodes:%d", len(in.Provs)))
			col.Count("result:" + obs.Res)
			for _, p := range in.Provs {
				col.Count("behaviour:" + p.Beh)
				if p.Beh == "respond" {
					v := in.Values[p.Val]
					if v.Nil || v.NilTarget || (family(in.Strategy) == "att" && v.Target != in.Slot/in.SPE) ||
						(family(in.Strategy) == "prop" && (v.Version == 0 || v.Version > 5 || (v.Version >= 3 && v.Fee != 1))) {
						col.Count("content:irregular")
					}
				}
			}
			if obs.Res == "panic" {
				col.Note(fmt.Sprintf("case %d (%s): %s", col.NextID(), in.Strategy, obs.Note))
			}
			id := col.NextID()
			col.Add(Case{Term: term(id, in, obs), Nontrivial: nontrivial(in), Tags: structuralTags(in),
				Sample: map[string]any{"input": in, "observed": obs}})
		}
	}
	if err := col.Flush(); err != nil {
		t.Fatal(err)
	}
}
