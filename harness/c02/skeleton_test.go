package c02

// The order of the statements inside the three short lock-protected sections of the scheduler
// (runJob, CancelJob, finaliseJob) is read from the source: a reordering of two adjacent
// statements there (e.g. sending the run signal before setting `active`) changes the set of
// interleavings but manifests only if another goroutine is scheduled between those two
// statements, which a synctest bubble never forces.  The token lists are compared in Coq with the
// order the model was written from (Check.C02.expected_skeleton).

import (
	"go/ast"
	"go/parser"
	"go/token"
	"go/types"
	"os"
	"path/filepath"
	"strings"
)

func ignoredCall(s string) bool {
	return strings.HasPrefix(s, "s.log.") || strings.HasPrefix(s, "log.") || strings.HasPrefix(s, "monitor")
}

func stmtTokens(stmts []ast.Stmt) []string {
	var out []string
	for _, st := range stmts {
		switch x := st.(type) {
		case *ast.ExprStmt:
			s := types.ExprString(x.X)
			if !ignoredCall(s) {
				out = append(out, s)
			}
		case *ast.SendStmt:
			out = append(out, types.ExprString(x.Chan)+" <- "+types.ExprString(x.Value))
		case *ast.AssignStmt:
			var l, r []string
			for _, e := range x.Lhs {
				l = append(l, types.ExprString(e))
			}
			for _, e := range x.Rhs {
				r = append(r, types.ExprString(e))
			}
			out = append(out, strings.Join(l, ", ")+" "+x.Tok.String()+" "+strings.Join(r, ", "))
		case *ast.ReturnStmt:
			var r []string
			for _, e := range x.Results {
				r = append(r, types.ExprString(e))
			}
			out = append(out, strings.TrimSpace("return "+strings.Join(r, ", ")))
		case *ast.IfStmt:
			out = append(out, "if "+types.ExprString(x.Cond)+" {")
			out = append(out, stmtTokens(x.Body.List)...)
			if x.Else != nil {
				out = append(out, "} else {")
				if b, ok := x.Else.(*ast.BlockStmt); ok {
					out = append(out, stmtTokens(b.List)...)
				} else {
					out = append(out, stmtTokens([]ast.Stmt{x.Else})...)
				}
			}
			out = append(out, "}")
		case *ast.BlockStmt:
			out = append(out, stmtTokens(x.List)...)
		case *ast.DeferStmt:
			out = append(out, "defer "+types.ExprString(x.Call))
		case *ast.GoStmt:
			out = append(out, "go "+types.ExprString(x.Call.Fun))
		case *ast.BranchStmt:
			out = append(out, x.Tok.String())
		default:
			out = append(out, "stmt")
		}
	}
	return out
}

// skeletons returns function name -> tokens for the functions of interest, or an error text.
func skeletons() (map[string][]string, string) {
	repo := os.Getenv("VERIF_REPO")
	if repo == "" {
		repo = "/repo"
	}
	path := filepath.Join(repo, "services", "scheduler", "advanced", "service.go")
	fset := token.NewFileSet()
	f, err := parser.ParseFile(fset, path, nil, 0)
	if err != nil {
		return nil, err.Error()
	}
	want := map[string]bool{"runJob": true, "CancelJob": true, "finaliseJob": true}
	res := map[string][]string{}
	for _, d := range f.Decls {
		fd, ok := d.(*ast.FuncDecl)
		if !ok || !want[fd.Name.Name] || fd.Body == nil {
			continue
		}
		res[fd.Name.Name] = stmtTokens(fd.Body.List)
	}
	return res, ""
}
