// C02, strengthening round 5: CancelJobs(prefix) as an operation of the timed scripts and of the histories.
//
// CancelJobs collects the names that have the prefix inside one section of jobsMutex and then calls
// CancelJobIfExists on each.  It reports nothing.  A one-off job leaves the job table the moment it is claimed, a
// PERIODIC job stays listed for its whole life: while it waits, while an instance started by its timer is in
// progress, and between a run request claiming it and the end of that run.  A cancellation by prefix that lands
// in any of these windows must cancel it: no further instance starts ("a job cancelled clearly before its time
// never runs"), the name is free, later calls find nothing.  The scripts here place a CancelJobs call at every
// position relative to the instances (in a timer-started run, in a requested run, on a run request's instant,
// on the instant jobFunc starts or returns, while waiting), follow it by later calls, and let the script last
// for at least two more periods; the same positions with CancelJobIfExists / CancelJob as controls.  The
// scheduler instance holds other jobs whose names do / do not have the prefix (all idle): the former must be
// gone afterwards, the latter untouched, none may run.
package c02

import (
	"fmt"

	. "verifharness/common"
)

// kth: the instant at which the k-th instance (1-based) of an undisturbed periodic job starts.
func kth(P, D, k int) int { return k*P + (k-1)*D }

func genPrefix(r *Rand, i int) (Script, []string) {
	var sc Script
	var tag string
	P := r.Range(2, 4)
	byPrefix := func() string { return []string{"cancelall", "cancelall", "cancelall", "cancelif"}[r.Intn(4)] }
	last := 0 // the last instant of interest; the script goes on for two periods and a bit after it
	periodic := true
	switch fam := i % 14; fam {
	case 0, 1: // periodic: cancelled by prefix while an instance started by the timer is in progress
		D := r.Range(2, 3)
		k := r.Range(1, 3)
		at := kth(P, D, k) + r.Range(1, D-1)
		sc = Script{Kind: "periodic", Due: P, Dur: D, Calls: []Call{{At: at, Kind: "cancelall"}}}
		last = at + D
		tag = fmt.Sprintf("prefix:periodic-during-timer-run-%d", k)
	case 2: // periodic: ... while an instance started by a run request is in progress
		D := r.Range(2, 3)
		a := r.Range(1, P-1)
		if r.Chance(1, 3) { // the request comes between the first and the second instance
			a = kth(P, D, 1) + D + r.Range(1, P-1)
		}
		at := a + r.Range(1, D-1)
		sc = Script{Kind: "periodic", Due: P, Dur: D, Calls: []Call{{At: a, Kind: []string{"run", "run", "runif"}[r.Intn(3)]}, {At: at, Kind: "cancelall"}}}
		last = at + D
		tag = "prefix:periodic-during-requested-run"
	case 3: // periodic: on the instant of a run request (the request may have claimed the job, not yet started)
		D := r.Range(0, 2)
		a := r.Range(1, P-1)
		sc = Script{Kind: "periodic", Due: P, Dur: D, Calls: []Call{{At: a, Kind: []string{"run", "runif"}[r.Intn(2)]}, {At: a, Kind: byPrefix()}}}
		last = a + D
		tag = "prefix:periodic-tied-with-run-request"
	case 4: // periodic: on the instant jobFunc starts or returns
		D := r.Range(1, 2)
		k := r.Range(1, 2)
		at := kth(P, D, k) + []int{0, D}[r.Intn(2)]
		sc = Script{Kind: "periodic", Due: P, Dur: D, Calls: []Call{{At: at, Kind: byPrefix()}}}
		last = at + D
		tag = "prefix:periodic-at-run-boundary"
	case 5: // periodic: while it waits for its time (before the first instance, between two)
		D := r.Range(0, 2)
		at := r.Range(0, P-1)
		if r.Bool() {
			at = kth(P, D, r.Range(1, 2)) + D + r.Range(1, P-1)
		}
		sc = Script{Kind: "periodic", Due: P, Dur: D, Calls: []Call{{At: at, Kind: byPrefix()}}}
		last = at
		tag = "prefix:periodic-while-waiting"
	case 6: // periodic: in progress, then the table is looked at (lateCalls adds them below)
		D := r.Range(2, 3)
		k := r.Range(1, 2)
		at := kth(P, D, k) + r.Range(1, D-1)
		sc = Script{Kind: "periodic", Due: P, Dur: D, Calls: []Call{{At: at, Kind: "cancelall"}}}
		last = at + D
		sc.Calls = append(sc.Calls, lateCalls(r, last, false)...)
		tag = "prefix:periodic-during-run-then-calls"
	case 7: // control: the same windows with CancelJobIfExists / CancelJob (by exact name)
		D := r.Range(2, 3)
		k := r.Range(1, 2)
		at := kth(P, D, k) + r.Range(1, D-1)
		sc = Script{Kind: "periodic", Due: P, Dur: D, Calls: []Call{{At: at, Kind: []string{"cancelif", "cancelif", "cancel"}[r.Intn(3)]}}}
		if r.Bool() { // in a requested run
			a := r.Range(1, P-1)
			sc.Calls = []Call{{At: a, Kind: "run"}, {At: a + r.Range(1, D-1), Kind: []string{"cancelif", "cancel"}[r.Intn(2)]}}
			at = a + D
		}
		last = at + D
		tag = "prefix:periodic-during-run-by-name"
	case 8: // periodic: a run request refused during the run (ErrJobRunning), then cancelled by prefix, then a request
		D := 3
		s := kth(P, D, 1)
		sc = Script{Kind: "periodic", Due: P, Dur: D, Calls: []Call{{At: s + 1, Kind: "run"}, {At: s + 2, Kind: "cancelall"}, {At: s + D + r.Range(1, 2), Kind: []string{"run", "exists"}[r.Intn(2)]}}}
		last = s + D + 2
		tag = "prefix:periodic-run-refused-then-cancelled"
	case 9: // periodic: cancelled by prefix twice, or by prefix and (later) its context
		D := r.Range(2, 3)
		at := kth(P, D, 1) + r.Range(1, D-1)
		sc = Script{Kind: "periodic", Due: P, Dur: D, Calls: []Call{{At: at, Kind: "cancelall"}, {At: at + r.Range(1, D+1), Kind: []string{"cancelall", "ctx", "cancelif"}[r.Intn(3)]}}}
		last = at + 2*D + 1
		tag = "prefix:periodic-cancelled-twice"
	case 10: // one-off: cancelled by prefix before its time, then looked at
		periodic = false
		T := r.Range(3, 6)
		at := r.Range(0, T-1)
		sc = Script{Kind: "oneoff", Due: T, Dur: r.Range(0, 2), Calls: []Call{{At: at, Kind: byPrefix()}}}
		if r.Bool() {
			sc.Calls = append(sc.Calls, lateCalls(r, at, false)...)
		}
		tag = "prefix:oneoff-before-T"
	case 11: // one-off: around its time
		periodic = false
		T := r.Range(2, 5)
		sc = Script{Kind: "oneoff", Due: T, Dur: r.Range(0, 2), Calls: []Call{{At: T + r.Range(-1, 1), Kind: "cancelall"}}}
		if r.Chance(1, 3) {
			sc.Calls = append(sc.Calls, Call{At: T + r.Range(-1, 0), Kind: "run"})
		}
		tag = "prefix:oneoff-around-T"
	case 12: // one-off: while it runs (started by its timer or by a run request): it is out of the table, the others are not
		periodic = false
		T := r.Range(3, 5)
		D := r.Range(2, 3)
		sc = Script{Kind: "oneoff", Due: T, Dur: D}
		s := T
		if r.Bool() {
			s = r.Range(1, T-1)
			sc.Calls = append(sc.Calls, Call{At: s, Kind: []string{"run", "runif"}[r.Intn(2)]})
		}
		sc.Calls = append(sc.Calls, Call{At: s + r.Range(1, D-1), Kind: "cancelall"})
		if sc.Sibs == 0 {
			sc.Sibs = r.Range(1, 3)
		}
		tag = "prefix:oneoff-during-run"
	default: // a script of the ordinary families, its cancellations made by prefix
		var tags []string
		if r.Chance(1, 3) {
			sc, tags = genOneOff(r)
			periodic = false
		} else {
			sc, tags = genPeriodic(r)
		}
		some := false
		for k := range sc.Calls {
			if sc.Calls[k].Kind == "cancel" || sc.Calls[k].Kind == "cancelif" {
				sc.Calls[k].Kind = "cancelall"
				some = true
			}
		}
		if !some {
			hi := sc.Due + sc.Dur + 1
			if periodic {
				hi = 2 * (sc.Due + sc.Dur)
			}
			sc.Calls = append(sc.Calls, Call{At: r.Range(0, hi), Kind: "cancelall"})
		}
		for _, c := range sc.Calls {
			if c.At > last {
				last = c.At
			}
		}
		tag = "prefix:" + tags[0]
	}
	if periodic {
		for _, c := range sc.Calls {
			if c.At > last {
				last = c.At
			}
		}
		// two more periods (and a bit): an instance that is wrongly left alive shows at least two further starts
		if e := last + 2*(sc.Due+sc.Dur) + sc.Dur + 2; e > sc.End {
			sc.End = e
		}
		if sc.End > 44 {
			sc.End = 44
		}
		// runtimeFunc never runs out during the script, whatever happens to the job
		sc.Ticks = sc.End/(sc.Due+sc.Dur) + 6
	}
	if sc.Sibs == 0 && r.Chance(2, 3) {
		sc.Sibs = r.Range(1, 3)
	}
	if r.Chance(1, 4) {
		sc.Prefix = []string{"-", "j", "jo", "job"}[r.Intn(4)]
	}
	if r.Chance(1, 5) {
		for k := range sc.Calls {
			if sc.Calls[k].Kind == "cancelall" || sc.Calls[k].Kind == "cancelif" {
				sc.Calls[k].Cctx = []string{"done", "expired", "race"}[r.Intn(3)]
			}
		}
	}
	return sc, []string{tag, "cancel-by-prefix"}
}

// genPrefixTable: a sequential history in which CancelJobs is called with prefixes that all, some, one or none
// of the names have (names "na<i>" for even i, "nb<i>" for odd i), between operations that show what is left.
func genPrefixTable(r *Rand) []TOp {
	prefixes := []string{"n", "na", "nb", "na", "nb", "", "na2", "nb1", "nb3", "na2x", "a", "b1", "2", "N", "x", "nc"}
	names := r.Range(3, 6)
	n := r.Range(10, 26)
	var ops []TOp
	// most names are taken to begin with
	for i := 1; i <= names; i++ {
		if r.Chance(4, 5) {
			ops = append(ops, TOp{Op: "sched", Name: i, Periodic: r.Chance(1, 2)})
		}
	}
	for len(ops) < n {
		name := r.Range(1, names)
		switch k := r.Intn(12); {
		case k < 3:
			ops = append(ops, TOp{Op: "sched", Name: name, Periodic: r.Chance(1, 2)})
		case k < 5:
			ops = append(ops, TOp{Op: []string{"run", "runif", "fire"}[r.Intn(3)], Name: name})
		case k < 6:
			ops = append(ops, TOp{Op: []string{"cancel", "cancelif"}[r.Intn(2)], Name: name})
		case k < 9:
			ops = append(ops, TOp{Op: "cancelpre", Prefix: prefixes[r.Intn(len(prefixes))]}, TOp{Op: "list"})
		case k < 11:
			ops = append(ops, TOp{Op: "exists", Name: name})
		default:
			ops = append(ops, TOp{Op: "list"})
		}
	}
	ops = append(ops, TOp{Op: "list"})
	if r.Chance(1, 4) {
		for i := range ops {
			if ops[i].Op == "cancelpre" && r.Bool() {
				ops[i].Cctx = []string{"done", "expired"}[r.Intn(2)]
			}
		}
	}
	return ops
}
