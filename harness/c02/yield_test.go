package c02

// Yield points: the interleavings that need a preemption BETWEEN TWO ADJACENT STATEMENTS of the scheduler --
// a RunJob that has looked the job up in the jobs list (one section of jobsMutex) and has not yet taken the
// job's state lock while a CancelJob, or the job's own goroutine on its way out, is carried out in full --
// are a few dozen nanoseconds wide; no bubble run and no burst produces them (a change that drops the
// `finalised` check of runJob as "unreachable" passed: only the syntactic skeleton noticed).
//
// This family runs tied scripts against an INSTRUMENTED COPY of services/scheduler/advanced/service.go: before
// every acquisition of s.jobsMutex / job.stateLock made while no lock is held (all of them in this file: the
// two locks are never nested) a call of c02Yield() is inserted, which -- in the child process started with
// VERIF_C02_YIELD=1 -- sleeps 0, 1 or 2 fake nanoseconds at random.  Inside a synctest bubble a sleeping
// goroutine resumes only when every other goroutine of the bubble is blocked: the yield lets everything else
// that is due at this instant run as far as it can.  Milliseconds are the unit of the scripts, so for the
// model the events stay at their instant; every such interleaving is one of the interleavings of the events
// of one instant that the model's outcome set is computed over.  Nothing else of the code is changed; the
// copy is made from $VERIF_REPO at run time (go test -c -overlay), so it follows the tree under test.
//
// If the copy cannot be built (no go tool, no match for the lock statements) the family is left out and the
// evidence says so; it is never a violation.

import (
	"encoding/json"
	"fmt"
	"os"
	"os/exec"
	"path/filepath"
	"regexp"
	"runtime"
	"strings"

	. "verifharness/common"
)

const yieldHook = `package advanced

import (
	"math/rand/v2"
	"os"
	"time"
)

var c02YieldOn = os.Getenv("VERIF_C02_YIELD") != ""

// c02Yield: inserted by the verification harness before lock acquisitions made while no lock is held.
func c02Yield() {
	if !c02YieldOn {
		return
	}
	if k := rand.IntN(4); k >= 2 {
		time.Sleep(time.Duration(k-1) * time.Nanosecond)
	}
}
`

var lockLine = regexp.MustCompile(`(?m)^(\s*)((?:s\.jobsMutex|job\.stateLock)\.R?Lock\(\))\s*$`)

// buildYield: the instrumented test binary; "" and a reason when it cannot be made.
func buildYield(dir string) (string, int, string) {
	repo := os.Getenv("VERIF_REPO")
	if repo == "" {
		repo = "/repo"
	}
	repo, _ = filepath.Abs(repo)
	pkgDir := filepath.Join(repo, "services/scheduler/advanced")
	src, err := os.ReadFile(filepath.Join(pkgDir, "service.go"))
	if err != nil {
		return "", 0, err.Error()
	}
	points := len(lockLine.FindAllIndex(src, -1))
	if points == 0 {
		return "", 0, "no lock statement of the expected form in service.go"
	}
	inst := lockLine.ReplaceAll(src, []byte("${1}c02Yield(); ${2}"))
	svc, hook, ov := filepath.Join(dir, "service_yield.go"), filepath.Join(dir, "zz_c02yield.go"), filepath.Join(dir, "overlay.json")
	if err := os.WriteFile(svc, inst, 0o644); err != nil {
		return "", 0, err.Error()
	}
	if err := os.WriteFile(hook, []byte(yieldHook), 0o644); err != nil {
		return "", 0, err.Error()
	}
	ovj, _ := json.Marshal(map[string]any{"Replace": map[string]string{
		filepath.Join(pkgDir, "service.go"):      svc,
		filepath.Join(pkgDir, "zz_c02yield.go"): hook,
	}})
	if err := os.WriteFile(ov, ovj, 0o644); err != nil {
		return "", 0, err.Error()
	}
	hdir, _ := filepath.Abs("..")
	mod, err := os.ReadFile(filepath.Join(hdir, "go.mod"))
	if err != nil {
		return "", 0, err.Error()
	}
	sum, _ := os.ReadFile(filepath.Join(hdir, "go.sum"))
	mf := filepath.Join(dir, "gomod_yield.mod")
	if err := os.WriteFile(mf, []byte(strings.ReplaceAll(string(mod), "=> /repo", "=> "+repo)), 0o644); err != nil {
		return "", 0, err.Error()
	}
	os.WriteFile(filepath.Join(dir, "gomod_yield.sum"), sum, 0o644)
	gotool := ""
	for _, cand := range []string{runtime.Version(), "go"} {
		if p, err := exec.LookPath(cand); err == nil {
			gotool = p
			break
		}
	}
	if gotool == "" {
		return "", points, "no go tool on PATH"
	}
	out := filepath.Join(dir, "c02_yield.test")
	cmd := exec.Command(gotool, "test", "-c", "-tags", "verif", "-modfile", mf, "-overlay", ov, "-o", out, "./c02")
	cmd.Dir = hdir
	cmd.Env = append(os.Environ(), "GOFLAGS=-mod=mod", "GOPROXY=off", "GOSUMDB=off", "GOTOOLCHAIN=local")
	if msg, err := cmd.CombinedOutput(); err != nil {
		m := string(msg)
		if len(m) > 400 {
			m = m[len(m)-400:]
		}
		return "", points, "go test -c -overlay failed: " + m
	}
	return out, points, ""
}

// genYield: tied scripts for the instrumented copy.  Half of them put an early-run request on the instant of
// a complete cancellation / stop of the same job (periodic: CancelJob, CancelJobs, the parent context, the
// last instance; one-off: the job's time); the rest are the tied scripts of the general generators.
func genYield(r *Rand, i int) (Script, []string) {
	P := r.Range(2, 4)
	run := []string{"run", "runif", "run"}[r.Intn(3)]
	var sc Script
	var tags []string
	switch i % 8 {
	case 0: // periodic: run request and cancellation at one instant, while waiting
		at := r.Range(1, P-1)
		sc = Script{Kind: "periodic", Due: P, Dur: r.Range(0, 1), Ticks: 3,
			Calls: []Call{{At: at, Kind: run}, {At: at, Kind: []string{"cancel", "cancelif", "cancelall"}[r.Intn(3)]}}}
		tags = []string{"yield:periodic-run-tied-with-cancel"}
	case 1: // periodic: run request and context cancellation at one instant
		at := r.Range(1, P-1)
		sc = Script{Kind: "periodic", Due: P, Dur: r.Range(0, 1), Ticks: 3, Calls: []Call{{At: at, Kind: run}, {At: at, Kind: "ctx"}}}
		tags = []string{"yield:periodic-run-tied-with-ctx"}
	case 2: // periodic: run request on the instant the last instance returns (runtimeFunc: no more instances)
		d := r.Range(0, 1)
		sc = Script{Kind: "periodic", Due: P, Dur: d, Ticks: 1, RtErr: r.Bool(), Calls: []Call{{At: P + d, Kind: run}}}
		tags = []string{"yield:periodic-run-tied-with-last-instance"}
	case 3: // periodic: two run requests and a cancellation at one instant, then a run request clearly afterwards
		at := r.Range(1, P-1)
		sc = Script{Kind: "periodic", Due: P, Dur: 0, Ticks: 3,
			Calls: []Call{{At: at, Kind: "run"}, {At: at, Kind: "run"}, {At: at, Kind: "cancel"}, {At: at + 1, Kind: "run"}}}
		tags = []string{"yield:periodic-run-x2-tied-with-cancel"}
	case 4: // one-off: run requests on the job's time
		sc = Script{Kind: "oneoff", Due: P, Dur: r.Range(0, 1)}
		for k := r.Range(1, 3); k > 0; k-- {
			sc.Calls = append(sc.Calls, Call{At: P, Kind: run})
		}
		tags = []string{"yield:oneoff-run-at-T"}
	case 5: // one-off: run request tied with a cancellation / the context, at the job's time or before
		at := []int{P, P - 1}[r.Intn(2)]
		sc = Script{Kind: "oneoff", Due: P, Dur: r.Range(0, 1), Calls: []Call{{At: at, Kind: run}, {At: at, Kind: []string{"cancel", "ctx"}[r.Intn(2)]}}}
		tags = []string{"yield:oneoff-run-tied-with-cancel-or-ctx"}
	default:
		for try := 0; ; try++ {
			if r.Bool() {
				sc, tags = genPeriodic(r)
			} else {
				sc, tags = genOneOff(r)
			}
			// no second job of the name: the harness removes it before it looks at the table, and with yield
			// points in its own calls that removal is no longer one step
			second := false
			for _, c := range sc.Calls {
				second = second || c.Kind == "resched" || c.Kind == "dup"
			}
			if second && try <= 40 {
				continue
			}
			if tied(normalise(sc)) || try > 20 {
				break
			}
		}
		var keep []Call
		for _, c := range sc.Calls {
			if c.Kind != "resched" && c.Kind != "dup" {
				keep = append(keep, c)
			}
		}
		sc.Calls = keep
		tags = append(tags, "yield:general")
	}
	if sc.Kind == "periodic" && sc.End == 0 {
		sc.End = sc.Ticks*(sc.Due+sc.Dur) + sc.Dur + 2
	}
	if sc.Kind == "oneoff" && sc.End == 0 {
		sc.End = sc.Due + sc.Dur + 2
	}
	sc.Yield = true
	return sc, append(tags, "yield-points")
}

func yieldNote(n, points int, reason string) string {
	if reason != "" {
		return fmt.Sprintf("yield-point family (%d scripts) LEFT OUT: %s", n, reason)
	}
	return fmt.Sprintf("yield-point family: %d scripts run against a copy of service.go with %d yield points (before every acquisition of jobsMutex / stateLock)", n, points)
}
