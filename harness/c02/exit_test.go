// C02, strengthening round 4: the job table AFTER the job's goroutine has ended, by every way out.
//
// A periodic job's goroutine leaves its loop through the context branch of its select (the parent context was
// cancelled while it waited, or while jobFunc was in flight: then it gets there when jobFunc has returned and
// runtimeFunc has been asked once more), through the cancel branch (CancelJob, waiting or in flight), or because
// runtimeFunc returned ErrNoMoreInstances or an error of its own.  A one-off job's goroutine ends after its one
// run, through its context or through CancelJob.  Whatever the way out, the name must be free afterwards:
// JobExists false, RunJob / CancelJob find nothing (a run request must not "succeed" on a job nobody will run),
// ScheduleJob of the name is accepted and that job runs.  Each script here takes one way out and then looks at
// the table one to three times, clearly after the goroutine has gone (and sometimes while it is going).
package c02

import (
	"fmt"

	. "verifharness/common"
)

// lateCalls: k calls strictly after instant x, at distinct instants; a second ScheduleJob of the name only as
// the very last one (normalise drops it otherwise: the model does not follow the job it creates).
func lateCalls(r *Rand, x int, cctx bool) []Call {
	kinds := []string{"run", "run", "run", "runif", "exists", "exists", "cancel", "cancelif"}
	k := r.Range(1, 3)
	var out []Call
	at := x
	for i := 0; i < k; i++ {
		at += r.Range(1, 2)
		c := Call{At: at, Kind: kinds[r.Intn(len(kinds))]}
		if i == k-1 && r.Chance(1, 3) {
			c.Kind = "dup"
		}
		if cctx && c.Kind != "dup" && r.Chance(1, 2) {
			c.Cctx = []string{"done", "expired"}[r.Intn(2)]
		}
		out = append(out, c)
	}
	return out
}

func genExit(r *Rand, i int) (Script, []string) {
	var sc Script
	var tag string
	x := 0 // the instant at which the goroutine has gone
	P := r.Range(2, 4)
	switch fam := i % 14; fam {
	case 0, 1: // periodic: the parent context is cancelled while a timer-started jobFunc is in flight
		D := r.Range(2, 3)
		sc = Script{Kind: "periodic", Due: P, Dur: D, Ticks: r.Range(2, 4)}
		s := P
		if r.Chance(1, 3) { // during the second instance
			s = P + D + P
		}
		sc.Calls = []Call{{At: s + r.Range(1, D-1), Kind: "ctx"}}
		x = s + D
		tag = "exit:periodic-ctx-during-timer-run"
	case 2: // periodic: ... while a jobFunc started by a run request is in flight
		D := r.Range(2, 3)
		a := r.Range(1, P-1)
		sc = Script{Kind: "periodic", Due: P, Dur: D, Ticks: r.Range(2, 4)}
		sc.Calls = []Call{{At: a, Kind: []string{"run", "runif"}[r.Intn(2)]}, {At: a + r.Range(1, D-1), Kind: "ctx"}}
		x = a + D
		tag = "exit:periodic-ctx-during-requested-run"
	case 3: // periodic: the context is cancelled at the instant jobFunc starts or returns
		D := r.Range(1, 2)
		sc = Script{Kind: "periodic", Due: P, Dur: D, Ticks: r.Range(2, 3)}
		sc.Calls = []Call{{At: P + []int{0, D}[r.Intn(2)], Kind: "ctx"}}
		x = P + D
		tag = "exit:periodic-ctx-at-run-boundary"
	case 4: // periodic: the context is cancelled while the job waits for its time
		D := r.Range(0, 2)
		sc = Script{Kind: "periodic", Due: P, Dur: D, Ticks: r.Range(2, 4)}
		at := r.Range(1, P-1)
		if r.Bool() {
			at = P + D + r.Range(1, P-1)
		}
		sc.Calls = []Call{{At: at, Kind: "ctx"}}
		x = at
		tag = "exit:periodic-ctx-while-waiting"
	case 5: // periodic: CancelJob while jobFunc is in flight (the goroutine leaves when it has returned)
		D := r.Range(2, 3)
		sc = Script{Kind: "periodic", Due: P, Dur: D, Ticks: r.Range(2, 4)}
		sc.Calls = []Call{{At: P + r.Range(1, D-1), Kind: []string{"cancel", "cancel", "cancelif"}[r.Intn(3)]}}
		x = P + D
		tag = "exit:periodic-cancel-during-run"
	case 6: // periodic: CancelJob while waiting
		D := r.Range(0, 2)
		sc = Script{Kind: "periodic", Due: P, Dur: D, Ticks: r.Range(2, 4)}
		at := P + D + r.Range(1, P-1)
		sc.Calls = []Call{{At: at, Kind: []string{"cancel", "cancelif"}[r.Intn(2)]}}
		x = at
		tag = "exit:periodic-cancel-while-waiting"
	case 7, 8: // periodic: runtimeFunc returns an error of its own
		D := r.Range(0, 2)
		sc = Script{Kind: "periodic", Due: P, Dur: D, Ticks: r.Range(0, 2), RtErr: true}
		x = sc.Ticks * (P + D)
		tag = "exit:periodic-runtime-error"
	case 9: // periodic: no more instances
		D := r.Range(0, 2)
		sc = Script{Kind: "periodic", Due: P, Dur: D, Ticks: r.Range(0, 2)}
		x = sc.Ticks * (P + D)
		tag = "exit:periodic-no-more-instances"
	case 10: // periodic: an early run, then the context is cancelled during a later, timer-started run
		D := r.Range(2, 3)
		sc = Script{Kind: "periodic", Due: P, Dur: D, Ticks: r.Range(3, 4), RtErr: r.Bool()}
		s := 1 + D + P
		sc.Calls = []Call{{At: 1, Kind: "run"}, {At: s + r.Range(1, D-1), Kind: "ctx"}}
		x = s + D
		tag = "exit:periodic-early-run-then-ctx-during-run"
	case 11: // one-off: the context is cancelled before its time
		T := r.Range(3, 6)
		sc = Script{Kind: "oneoff", Due: T, Dur: r.Range(0, 2)}
		at := r.Range(1, T-1)
		sc.Calls = []Call{{At: at, Kind: "ctx"}}
		x = at
		tag = "exit:oneoff-ctx-before-T"
	case 12: // one-off: started (by its timer or by a run request), the context is cancelled while it runs
		T := r.Range(3, 5)
		D := r.Range(2, 3)
		sc = Script{Kind: "oneoff", Due: T, Dur: D}
		s := T
		if r.Bool() {
			s = r.Range(1, T-1)
			sc.Calls = append(sc.Calls, Call{At: s, Kind: []string{"run", "runif"}[r.Intn(2)]})
		}
		sc.Calls = append(sc.Calls, Call{At: s + r.Range(1, D-1), Kind: "ctx"})
		x = s + D
		tag = "exit:oneoff-ctx-during-run"
	default: // one-off: cancelled before its time
		T := r.Range(3, 6)
		sc = Script{Kind: "oneoff", Due: T, Dur: r.Range(0, 2)}
		at := r.Range(1, T-1)
		sc.Calls = []Call{{At: at, Kind: []string{"cancel", "cancelif"}[r.Intn(2)]}}
		x = at
		tag = "exit:oneoff-cancel-before-T"
	}
	// sometimes a look at the table while the goroutine is on its way out
	if x >= 2 && r.Chance(1, 4) {
		sc.Calls = append(sc.Calls, Call{At: x - 1, Kind: "exists"})
	}
	late := lateCalls(r, x, r.Chance(1, 5))
	sc.Calls = append(sc.Calls, late...)
	end := late[len(late)-1].At + sc.Dur + 2
	if sc.Kind == "periodic" {
		if e := sc.Ticks*(sc.Due+sc.Dur) + sc.Dur + 2; e > end {
			end = e
		}
	}
	sc.End = end
	tags := []string{tag, "after-exit"}
	for _, c := range late {
		tags = append(tags, fmt.Sprintf("after-exit:%s", c.Kind))
	}
	return sc, dedupe(tags)
}

func dedupe(in []string) []string {
	seen := map[string]bool{}
	var out []string
	for _, s := range in {
		if !seen[s] {
			seen[s] = true
			out = append(out, s)
		}
	}
	return out
}
