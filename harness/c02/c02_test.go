// C02: drives the real services/scheduler/advanced.Service (public constructor, no hook) through
// timed scripts inside testing/synctest bubbles and through sequential histories over several job
// names, and prints what it did as Gallina cases for Check.C02.
//
// A timed script is one job (one-off at T, or periodic with a period and a number of instances),
// a duration of jobFunc, and calls (RunJob, RunJobIfExists, CancelJob, CancelJobIfExists, cancel of
// the parent context, a second ScheduleJob of the same name, JobExists) issued from their own
// goroutines at given milliseconds of fake time.  Events at distinct instants are totally ordered
// by the bubble; events at the SAME instant sample Go's select / scheduler nondeterminism, so a
// script with ties is repeated and every distinct observed outcome is reported with its count; the
// Coq side checks that each is in the model's outcome set and satisfies the property.
package c02

import (
	"context"
	"errors"
	"fmt"
	"bufio"
	"encoding/json"
	"os"
	"os/exec"
	"runtime"
	"sort"
	"strings"
	"sync"
	"sync/atomic"
	"testing"
	"testing/synctest"
	"time"

	nullmetrics "github.com/attestantio/vouch/services/metrics/null"
	"github.com/attestantio/vouch/services/scheduler"
	advanced "github.com/attestantio/vouch/services/scheduler/advanced"
	"github.com/rs/zerolog"
	"github.com/sasha-s/go-deadlock"

	. "verifharness/common"
	"verifharness/mocks"
)

// ---------------------------------------------------------------------------------------------
// inputs

type Call struct {
	At   int    `json:"at"`
	Kind string `json:"kind"` // run | runif | cancel | cancelif | cancelall (CancelJobs with the script's prefix) | ctx | dup | exists | resched (CancelJob, then ScheduleJob of the name, back to back)
	// Cctx: the CALLER's context handed to RunJob / RunJobIfExists / CancelJob / CancelJobIfExists / JobExists
	// (it is not the job's context): "" live | done (cancelled before the call) | expired (deadline already
	// passed) | race (cancelled by another goroutine while the call is made).  The scheduler's contract does not
	// make a claim depend on it: the model ignores it, the property holds whatever it is.
	Cctx string `json:"cctx,omitempty"`
}

type Script struct {
	Kind  string `json:"kind"` // oneoff | periodic
	Due   int    `json:"due"`  // one-off: T; periodic: the period (runtimeFunc returns now+period)
	Dur   int    `json:"dur"`  // how long jobFunc takes
	Ticks int    `json:"ticks,omitempty"`
	Calls []Call `json:"calls"`
	End   int    `json:"end"`
	Reps  int    `json:"reps,omitempty"` // 0 = decided by the harness (ties: many, tie-free: few)
	// Real: run in REAL time outside a bubble, one script unit = Unit milliseconds, in a child process whose
	// environment has GODEBUG=asynctimerchan=1 (the timer-channel semantics of the repository's go directive).
	Real bool `json:"real,omitempty"`
	Unit int  `json:"unit,omitempty"`
	// RtErr: when the instances are used up runtimeFunc returns an error of its own instead of
	// scheduler.ErrNoMoreInstances (the goroutine's other way out of its loop; same tidy-up, same model script).
	RtErr bool `json:"rterr,omitempty"`
	// Yield: run against the copy of service.go with yield points before the lock acquisitions (yield_test.go);
	// not part of the Coq term (for the model the same script)
	Yield bool `json:"yield,omitempty"`
	// Prefix: what the "cancelall" calls hand to CancelJobs: a prefix of the job's name ("" = "job"; "-" = the
	// empty prefix).  For the model such a call is a CancelJobIfExists (the names are collected in one section of
	// jobsMutex, CancelJobIfExists is then called on each).
	Prefix string `json:"prefix,omitempty"`
	// Sibs: 0, or the number (1..3) of OTHER jobs of the same scheduler whose names have the prefix "job"; three
	// more whose names do not ("jo", "ajob", "Job") come with them.  One-off and periodic, far in the future.
	Sibs int `json:"sibs,omitempty"`
	// What the runtime function of a periodic job returns (strengthening round 6: instances that are NOT in the
	// future when they are handed out).  Default: now + Due units (Due 0: "now").  Lag (only with Due 0): now - Lag
	// units, a time that has passed (for the model the same script: due at once).  Fixed: a FIXED-RATE schedule,
	// the k-th instance is at t0 + (k*Due - Behind) units whatever the moment it is asked for: with Dur > Due the job
	// overruns its period, with Behind > 0 the schedule starts behind (a catch-up); Coq: sc_behind := Some Behind.
	Lag    int  `json:"lag,omitempty"`
	Fixed  bool `json:"fixed,omitempty"`
	Behind int  `json:"behind,omitempty"`
}

// prefixOf: the string handed to CancelJobs.
func prefixOf(sc Script) string {
	switch sc.Prefix {
	case "":
		return jobName
	case "-":
		return ""
	}
	return sc.Prefix
}

// the other jobs of the scheduler instance: the first sc.Sibs of these, and all of the others
var sibMatching = []string{"job/one-off", "jobs", "job"+"\u00e9"}
var sibOthers = []string{"jo", "ajob", "Job"}

func sibNames(sc Script) []string {
	if sc.Sibs <= 0 {
		return nil
	}
	k := sc.Sibs
	if k > len(sibMatching) {
		k = len(sibMatching)
	}
	return append(append([]string(nil), sibMatching[:k]...), sibOthers...)
}

type SibObs struct {
	Name   string `json:"name"`
	Match  bool   `json:"match"` // the name has the script's prefix
	Listed bool   `json:"listed"`
	Runs   int    `json:"runs"`
}

type TOp struct {
	Op       string `json:"op"` // sched | run | runif | fire | cancel | cancelif | exists | list | cancelall | cancelpre (CancelJobs(Prefix))
	Prefix   string `json:"prefix,omitempty"`
	Name     int    `json:"name,omitempty"`
	Periodic bool   `json:"periodic,omitempty"`
	Cctx     string `json:"cctx,omitempty"` // the caller's context of run / cancel / exists / list / cancelall: "" | done | expired
}

type Input struct {
	Script *Script  `json:"script,omitempty"`
	Burst  *Burst   `json:"burst,omitempty"`
	Table  []TOp    `json:"table,omitempty"`
	Tags   []string `json:"tags,omitempty"`
}

// ---------------------------------------------------------------------------------------------
// one observation of a timed script

type Obs struct {
	Calls     []string `json:"calls"`
	Starts    []int    `json:"starts"`
	Overlap   int      `json:"overlap"`
	Exists    bool     `json:"exists"`
	Listed    bool     `json:"listed"`
	Reuse     string   `json:"reuse"`
	ReuseRuns int      `json:"reuse_runs"`
	Panic     bool     `json:"panic"`
	Hung      bool     `json:"hung"`
	Running   int      `json:"running"` // executions of jobFunc in progress when the script ended
	Dup       string   `json:"dup"`     // "None": no second ScheduleJob of the name was accepted; "Some true|false": JobExists(name) at the end of the script, while that second job is pending
	Insts     []int    `json:"insts"`   // periodic: the times returned by runtimeFunc up to the end of the script
	Foreign   []string `json:"foreign,omitempty"` // texts of the errors outside the scheduler's set that calls returned (those calls read "Foreign" in Calls)
	ByPrefix  []bool   `json:"byprefix,omitempty"` // per call, from the input: it was CancelJobs(prefix)
	Sibs      []SibObs `json:"sibs,omitempty"`     // the other jobs of the scheduler instance after the script
	Count     int      `json:"count"`
}

const jobName = "job"

func codeOf(err error) string {
	switch {
	case err == nil:
		return "Ret Nil"
	case errors.Is(err, scheduler.ErrNoSuchJob):
		return "Ret ErrNoSuchJob"
	case errors.Is(err, scheduler.ErrJobRunning):
		return "Ret ErrJobRunning"
	case errors.Is(err, scheduler.ErrJobFinalised):
		return "Ret ErrJobFinalised"
	case errors.Is(err, scheduler.ErrJobAlreadyExists):
		return "Ret ErrJobAlreadyExists"
	}
	return "Foreign" // an error outside the scheduler's set (e.g. the caller's ctx.Err()): never predicted by the model
}

// callerCtx builds the context a caller hands to the scheduler.  The returned function releases it.
func callerCtx(parent context.Context, kind string) (context.Context, func()) {
	switch kind {
	case "done":
		c, cancel := context.WithCancel(parent)
		cancel()
		return c, cancel
	case "expired":
		return context.WithDeadline(parent, time.Now().Add(-time.Millisecond))
	case "race":
		c, cancel := context.WithCancel(parent)
		go cancel()
		return c, cancel
	}
	return parent, func() {}
}

type shared struct {
	mu        sync.Mutex
	calls     []string
	starts    []int
	insts     []int
	foreign   []string
	inflight  int
	overlap   int
	exists    bool
	listed    bool
	reuse     string
	reuseRuns int
	running   int
	dupOK     atomic.Bool // a second ScheduleJob of the name was accepted
	dup       string
	byprefix  []bool
	sibs      []SibObs
	panicked  bool
	finished  bool
	svc       *advanced.Service
	progress  atomic.Int64
}

func (s *shared) tick() { s.progress.Add(1) }

func listed(svc *advanced.Service, name string) bool {
	for _, n := range svc.ListJobs(context.Background()) {
		if n == name {
			return true
		}
	}
	return false
}

// expand: the calls as the Coq script sees them (a resched is a CancelJob and a ScheduleJob at one instant).
func expand(calls []Call) []Call {
	var out []Call
	for _, c := range calls {
		if c.Kind == "resched" {
			out = append(out, Call{At: c.At, Kind: "cancel"}, Call{At: c.At, Kind: "dup"})
		} else {
			out = append(out, c)
		}
	}
	return out
}

// clock: how a script's instants map to time.  In a bubble one unit is a millisecond of fake time and
// "at rest" is synctest.Wait; in real time one unit is sc.Unit milliseconds, instants are read back by
// rounding down (events are never early, only late), and "at rest" is half a unit later.
type clock struct {
	real bool
	unit time.Duration
}

func (c clock) rest() {
	if c.real {
		time.Sleep(c.unit / 2)
	} else {
		synctest.Wait()
	}
}

func clockOf(sc Script) clock {
	if sc.Real {
		return clock{real: true, unit: time.Duration(sc.Unit) * time.Millisecond}
	}
	return clock{unit: time.Millisecond}
}

// body runs the script: inside a bubble, or (sc.Real) in real time.
func body(sc Script, st *shared) {
	defer func() {
		if r := recover(); r != nil {
			st.mu.Lock()
			st.panicked = true
			st.mu.Unlock()
		}
	}()
	clk := clockOf(sc)
	t0 := time.Now()
	at := func(t time.Time) int { return int((t.Sub(t0) + clk.unit/16) / clk.unit) }
	now := func() int { return at(time.Now()) }
	ms := func(n int) time.Duration { return time.Duration(n) * clk.unit }
	svc, err := advanced.New(context.Background(), advanced.WithLogLevel(zerolog.Disabled), advanced.WithMonitor(nullmetrics.New()))
	if err != nil {
		panic(err)
	}
	st.svc = svc
	rootCtx, rootCancel := context.WithCancel(context.Background())
	defer rootCancel()
	jobCtx, jobCancel := context.WithCancel(rootCtx)
	defer jobCancel()
	jobFunc := func(context.Context) {
		st.mu.Lock()
		st.starts = append(st.starts, now())
		st.inflight++
		if st.inflight > st.overlap {
			st.overlap = st.inflight
		}
		st.mu.Unlock()
		st.tick()
		if sc.Dur > 0 {
			time.Sleep(ms(sc.Dur))
		}
		st.mu.Lock()
		st.inflight--
		st.mu.Unlock()
		st.tick()
	}
	if sc.Kind == "periodic" {
		left := sc.Ticks
		runtimeFunc := func(context.Context) (time.Time, error) {
			st.tick()
			if left <= 0 {
				if sc.RtErr {
					return time.Time{}, errors.New("runtime function failed")
				}
				return time.Time{}, scheduler.ErrNoMoreInstances
			}
			left--
			asked := time.Now()
			next := asked.Add(ms(sc.Due - sc.Lag))
			if sc.Fixed {
				next = t0.Add(ms((sc.Ticks-left)*sc.Due - sc.Behind))
			}
			// observed: the instant at which this instance is due (an instance whose time has passed is due now)
			due := next
			if due.Before(asked) {
				due = asked
			}
			st.mu.Lock()
			st.insts = append(st.insts, at(due))
			st.mu.Unlock()
			return next, nil
		}
		err = svc.SchedulePeriodicJob(jobCtx, "c02", jobName, runtimeFunc, jobFunc)
	} else {
		err = svc.ScheduleJob(jobCtx, "c02", jobName, t0.Add(ms(sc.Due)), jobFunc)
	}
	if err != nil {
		panic(err)
	}
	// the other jobs of this scheduler instance: far in the future, own functions (they must never run)
	prefix := prefixOf(sc)
	sibs := sibNames(sc)
	sibRuns := make([]atomic.Int64, len(sibs))
	for k, name := range sibs {
		f := func(context.Context) { sibRuns[k].Add(1) }
		var serr error
		if k%2 == 1 {
			serr = svc.SchedulePeriodicJob(rootCtx, "c02", name, func(context.Context) (time.Time, error) { return time.Now().Add(time.Hour), nil }, f)
		} else {
			serr = svc.ScheduleJob(rootCtx, "c02", name, t0.Add(time.Hour), f)
		}
		if serr != nil {
			panic(serr)
		}
	}
	st.mu.Lock()
	st.byprefix = nil
	for _, c := range expand(sc.Calls) {
		st.byprefix = append(st.byprefix, c.Kind == "cancelall")
	}
	st.mu.Unlock()
	dupCtx, dupCancel := context.WithCancel(rootCtx)
	defer dupCancel()
	dupJob := func() error {
		// far in the future, own context, own function: never runs; removed after the script
		err := svc.ScheduleJob(dupCtx, "c02", jobName, t0.Add(time.Hour), func(context.Context) {})
		if err == nil {
			st.dupOK.Store(true)
		}
		return err
	}
	// code of a call's result; the text of an error outside the scheduler's set is kept for the evidence
	code := func(err error) string {
		c := codeOf(err)
		if c == "Foreign" {
			st.mu.Lock()
			st.foreign = append(st.foreign, err.Error())
			st.mu.Unlock()
		}
		return c
	}
	base := 0
	for _, c := range sc.Calls {
		i := base
		base++
		if c.Kind == "resched" {
			base++
		}
		go func() {
			time.Sleep(ms(c.At))
			st.tick()
			cctx, release := callerCtx(rootCtx, c.Cctx)
			defer release()
			var res string
			switch c.Kind {
			case "resched":
				r1 := code(svc.CancelJob(cctx, jobName))
				r2 := code(dupJob())
				st.mu.Lock()
				st.calls[i], st.calls[i+1] = r1, r2
				st.mu.Unlock()
				st.tick()
				return
			case "run":
				res = code(svc.RunJob(cctx, jobName))
			case "runif":
				svc.RunJobIfExists(cctx, jobName)
				res = "Silent"
			case "cancel":
				res = code(svc.CancelJob(cctx, jobName))
			case "cancelif":
				svc.CancelJobIfExists(cctx, jobName)
				res = "Silent"
			case "cancelall":
				svc.CancelJobs(cctx, prefix)
				res = "Silent"
			case "ctx":
				jobCancel()
				res = "Ret Nil"
			case "dup":
				res = code(dupJob())
			case "exists":
				res = fmt.Sprintf("RetB %v", svc.JobExists(cctx, jobName))
			default:
				res = "Hung"
			}
			st.mu.Lock()
			st.calls[i] = res
			st.mu.Unlock()
			st.tick()
		}()
	}
	time.Sleep(ms(sc.End))
	clk.rest()
	st.tick()
	// a re-scheduling call that was accepted: that job is pending and must hold the name; then it is
	// removed again (its own context)
	dup := "None"
	if st.dupOK.Load() {
		dup = fmt.Sprintf("Some %v", svc.JobExists(rootCtx, jobName))
	}
	dupCancel()
	if !clk.real || st.dupOK.Load() {
		clk.rest()
	}
	st.tick()
	// observations after the script; the original job is left alone
	exists := svc.JobExists(rootCtx, jobName)
	isListed := listed(svc, jobName)
	var sibObs []SibObs
	for k, name := range sibs {
		sibObs = append(sibObs, SibObs{Name: name, Match: strings.HasPrefix(name, prefix), Listed: svc.JobExists(rootCtx, name) && listed(svc, name),
			Runs: int(sibRuns[k].Load())})
	}
	st.mu.Lock()
	st.sibs = sibObs
	nstarts, running, ninsts := len(st.starts), st.inflight, len(st.insts)
	st.mu.Unlock()
	var reuseRuns atomic.Int64
	reuseCtx, reuseCancel := context.WithCancel(rootCtx)
	defer reuseCancel()
	rerr := svc.ScheduleJob(reuseCtx, "c02", jobName, time.Now().Add(ms(1)), func(context.Context) { reuseRuns.Add(1) })
	// left alone until after its time; the original job may go on (a periodic job, a long jobFunc)
	time.Sleep(ms(3))
	clk.rest()
	st.mu.Lock()
	st.starts = st.starts[:nstarts] // what the original job did after the observation instant is not part of it
	st.insts = st.insts[:ninsts]
	st.exists, st.listed, st.reuse, st.reuseRuns = exists, isListed, codeOf(rerr), int(reuseRuns.Load())
	st.running = running
	st.dup = dup
	st.finished = true
	st.mu.Unlock()
	st.tick()
	// let everything go: remaining jobs leave through their ctx branch
	rootCancel()
}

// bubbleStalled: no goroutine of the process (other than the caller) is running, runnable or in a
// system call.  The driver runs one bubble at a time, so this means that every goroutine of the
// current bubble is blocked; a live bubble always has a runnable goroutine (when all are durably
// blocked the runtime makes the bubble's root runnable to advance the clock).
func bubbleStalled() bool {
	buf := make([]byte, 1<<18)
	for {
		n := runtime.Stack(buf, true)
		if n < len(buf) {
			buf = buf[:n]
			break
		}
		buf = make([]byte, 2*len(buf))
	}
	for i, block := range strings.Split(string(buf), "\n\n") {
		if i == 0 {
			continue // the caller
		}
		open, close := strings.IndexByte(block, '['), strings.IndexByte(block, ']')
		if !strings.HasPrefix(block, "goroutine ") || open < 0 || close < open {
			continue
		}
		state := block[open+1 : close]
		if strings.HasPrefix(state, "running") || strings.HasPrefix(state, "runnable") ||
			(strings.HasPrefix(state, "syscall") && !strings.Contains(block, "signal_recv")) {
			return false
		}
	}
	return true
}

var watchdogStep = 40 * time.Millisecond

// runOnce runs one repetition of a script in its own bubble, under a real-time watchdog: a bubble
// whose goroutines block on a sync.Mutex never comes to rest and synctest.Test never returns.
// The run is declared stalled when no event of the script has happened for three watchdog steps
// and two process-wide goroutine dumps in a row show nothing able to run (or, failing that, after
// 10 s of real time without an event).
func runOnce(t *testing.T, sc Script) Obs {
	st := &shared{calls: make([]string, len(expand(sc.Calls))), dup: "None"}
	for i := range st.calls {
		st.calls[i] = "Hung"
	}
	done := make(chan struct{})
	go func() {
		defer close(done)
		defer func() {
			// "deadlock: main bubble goroutine has exited but blocked goroutines remain": the calls
			// that never returned are already recorded as such
			if r := recover(); r != nil {
				st.mu.Lock()
				if !st.finished {
					st.panicked = true
				}
				st.mu.Unlock()
			}
		}()
		synctest.Test(t, func(*testing.T) { body(sc, st) })
	}()
	hung := false
	last, idle, stalled := int64(-1), 0, 0
wait:
	for {
		select {
		case <-done:
			break wait
		case <-time.After(watchdogStep):
			p := st.progress.Load()
			if p != last {
				last, idle, stalled = p, 0, 0
				continue
			}
			idle++
			if idle >= 3 {
				if bubbleStalled() {
					stalled++
				} else {
					stalled = 0
				}
			}
			if stalled >= 2 || idle >= 250 {
				select {
				case <-done: // finished in the meantime
				default:
					hung = true
				}
				break wait
			}
		}
	}
	st.mu.Lock()
	defer st.mu.Unlock()
	return collect(st, hung)
}

// runRealOnce runs one repetition of a script in real time, outside any bubble (the process was started with
// GODEBUG=asynctimerchan=1).  It is given the script's length plus two seconds.
// noisy: a probe goroutine sleeping a third of a unit over and over woke up more than a third of a unit late
// at some point of the repetition: the machine did not deliver the script's unit, the repetition is not used.
func runRealOnce(sc Script) (o Obs, noisy bool) {
	st := &shared{calls: make([]string, len(expand(sc.Calls))), dup: "None"}
	for i := range st.calls {
		st.calls[i] = "Hung"
	}
	done := make(chan struct{})
	go func() {
		defer close(done)
		body(sc, st)
	}()
	step := time.Duration(sc.Unit) * time.Millisecond / 3
	var worst atomic.Int64
	probeDone := make(chan struct{})
	go func() {
		defer close(probeDone)
		for {
			select {
			case <-done:
				return
			default:
			}
			t := time.Now()
			time.Sleep(step)
			if late := int64(time.Since(t) - step); late > worst.Load() {
				worst.Store(late)
			}
		}
	}()
	hung := false
	select {
	case <-done:
		<-probeDone
	case <-time.After(time.Duration((sc.End+8)*sc.Unit)*time.Millisecond + 2*time.Second):
		hung = true
	}
	st.mu.Lock()
	defer st.mu.Unlock()
	return collect(st, hung), time.Duration(worst.Load()) > step
}

// collect: the observation of one repetition (st.mu held).
func collect(st *shared, hung bool) Obs {
	o := Obs{Calls: append([]string(nil), st.calls...), Starts: append([]int{}, st.starts...), Overlap: st.overlap,
		Exists: st.exists, Listed: st.listed, Reuse: st.reuse, ReuseRuns: st.reuseRuns, Panic: st.panicked, Running: st.running, Dup: st.dup,
		Insts: append([]int{}, st.insts...), Foreign: append([]string(nil), st.foreign...),
		ByPrefix: append([]bool(nil), st.byprefix...), Sibs: append([]SibObs(nil), st.sibs...)}
	sort.Strings(o.Foreign)
	if hung || !st.finished {
		o.Hung = true
		o.Running = st.inflight
		o.Dup = "None"
		o.Reuse, o.ReuseRuns = "Ret Nil", 0
		if st.svc != nil {
			// the table can still be read from outside the bubble (jobsMutex only)
			res := make(chan [2]bool, 1)
			go func() { res <- [2]bool{st.svc.JobExists(context.Background(), jobName), listed(st.svc, jobName)} }()
			select {
			case r := <-res:
				o.Exists, o.Listed = r[0], r[1]
				if st.dupOK.Load() {
					o.Dup = fmt.Sprintf("Some %v", r[0])
				}
			case <-time.After(2 * time.Second):
			}
		}
	}
	return o
}

// ---------------------------------------------------------------------------------------------
// Gallina terms

func kindTerm(k string) string {
	switch k {
	case "run", "runif":
		return "KRun"
	case "cancel", "cancelif", "cancelall":
		return "KCancel"
	case "ctx":
		return "KCtx"
	case "dup":
		return "KDup"
	}
	return "KExists"
}

func scriptTerm(sc Script) string {
	calls := make([]string, 0, len(sc.Calls))
	for _, c := range expand(sc.Calls) {
		calls = append(calls, Record("cl_at", N(uint64(c.At)), "cl_kind", kindTerm(c.Kind)))
	}
	kind := "OneOff"
	if sc.Kind == "periodic" {
		kind = "Periodic"
	}
	behind := "None"
	if sc.Kind == "periodic" && sc.Fixed {
		behind = "(Some " + N(uint64(sc.Behind)) + ")"
	}
	return Record("sc_kind", kind, "sc_variant", "Fixed", "sc_due", N(uint64(sc.Due)), "sc_dur", N(uint64(sc.Dur)),
		"sc_ticks", N(uint64(sc.Ticks)), "sc_calls", List(calls), "sc_end", N(uint64(sc.End)), "sc_behind", behind)
}

func obsKey(o Obs) string {
	calls := make([]string, 0, len(o.Calls))
	foreign := make([]string, 0, len(o.Calls))
	for _, c := range o.Calls {
		// a call that returned an error outside the scheduler's set: no status of the model; flagged
		foreign = append(foreign, Bool(c == "Foreign"))
		if c == "Foreign" {
			c = "Hung"
		}
		if strings.Contains(c, " ") {
			c = "(" + c + ")"
		}
		calls = append(calls, c)
	}
	starts := make([]string, 0, len(o.Starts))
	for _, s := range o.Starts {
		starts = append(starts, N(uint64(s)))
	}
	insts := make([]string, 0, len(o.Insts))
	for _, s := range o.Insts {
		insts = append(insts, N(uint64(s)))
	}
	byprefix := make([]string, 0, len(o.ByPrefix))
	for _, b := range o.ByPrefix {
		byprefix = append(byprefix, Bool(b))
	}
	sibs := make([]string, 0, len(o.Sibs))
	for _, sb := range o.Sibs {
		sibs = append(sibs, Record("sb_match", Bool(sb.Match), "sb_listed", Bool(sb.Listed), "sb_runs", N(uint64(sb.Runs))))
	}
	reuse := strings.TrimPrefix(o.Reuse, "Ret ")
	if reuse == "Hung" || reuse == "Foreign" {
		reuse = "ErrJobFinalised" // never a result of ScheduleJob: mismatches
	}
	out := Record("o_calls", List(calls), "o_starts", List(starts), "o_overlap", N(uint64(o.Overlap)),
		"o_exists", Bool(o.Exists), "o_reuse", reuse, "o_reuse_runs", N(uint64(o.ReuseRuns)), "o_panic", Bool(o.Panic))
	return "ob_out := " + out + "; ob_listed := " + Bool(o.Listed) + "; ob_hung := " + Bool(o.Hung) + "; ob_running := " + N(uint64(o.Running)) + "; ob_dup := " + map[string]string{"None": "None", "Some true": "(Some true)", "Some false": "(Some false)"}[o.Dup] +
		"; ob_insts := " + List(insts) + "; ob_foreign := " + List(foreign) + "; ob_byprefix := " + List(byprefix) + "; ob_sibs := " + List(sibs)
}

func obsTerm(o Obs) string {
	return "{| " + obsKey(o) + "; ob_count := " + N(uint64(o.Count)) + " |}"
}

// ---------------------------------------------------------------------------------------------
// well-formedness of a script (applied to generated, corpus and replay inputs alike)

func removes(k string) bool {
	return k == "run" || k == "runif" || k == "cancel" || k == "cancelif" || k == "cancelall" || k == "ctx" || k == "resched"
}

// firstClaim: before this instant the job is certainly in the table.
func firstClaim(sc Script) int {
	m := sc.Due
	if sc.Kind == "periodic" && sc.Fixed {
		m = sc.Due - sc.Behind // the first instance's time
		if m < 0 {
			m = 0
		}
	}
	if sc.Kind == "periodic" && sc.Ticks == 0 {
		m = 0
	}
	for _, c := range sc.Calls {
		if removes(c.Kind) && c.At < m {
			m = c.At
		}
	}
	return m
}

// normalise: (1) the script lasts until every call has been issued and a jobFunc started by it
// has returned; (2) a second ScheduleJob of the name that may be ACCEPTED creates a job the model
// does not follow, so no call that looks at the table may come at or after it (such a
// re-scheduling call is dropped).  Re-scheduling while the name is certainly taken is kept.
func normalise(sc Script) Script {
	if sc.Due < 0 {
		sc.Due = 0
	}
	// the runtime function: a lag only for "now" (period 0), a fixed-rate schedule only for periodic jobs; a job
	// whose instances are due the moment they are handed out takes time (otherwise all of them run at one instant)
	if sc.Kind != "periodic" {
		sc.Lag, sc.Fixed, sc.Behind = 0, false, 0
	}
	if sc.Lag < 0 || sc.Due != 0 || sc.Fixed {
		sc.Lag = 0
	}
	if sc.Behind < 0 || !sc.Fixed {
		sc.Behind = 0
	}
	if sc.Kind == "periodic" && (sc.Due == 0 || sc.Fixed) && sc.Dur < 1 {
		sc.Dur = 1
	}
	fc := firstClaim(sc)
	var calls []Call
	for i, c := range sc.Calls {
		if c.At < 0 {
			c.At = 0
		}
		if (c.Kind == "dup" && c.At >= fc) || c.Kind == "resched" {
			clash := false
			for j, d := range sc.Calls {
				if j != i && d.At >= c.At && d.Kind != "ctx" {
					clash = true
				}
			}
			if clash && c.Kind == "dup" {
				continue
			}
			if clash {
				c.Kind = "cancel"
			}
		}
		calls = append(calls, c)
	}
	sc.Calls = calls
	end := 0
	if sc.Kind != "periodic" {
		end = sc.Due
	}
	for _, c := range sc.Calls {
		if c.At > end {
			end = c.At
		}
	}
	end += sc.Dur + 2
	if sc.End < end {
		sc.End = end
	}
	if sc.Kind != "periodic" {
		sc.Ticks = 0
		sc.RtErr = false
	}
	// CancelJobs is called with a prefix of the job's name
	if sc.Prefix != "-" && !strings.HasPrefix(jobName, sc.Prefix) {
		sc.Prefix = ""
	}
	if sc.Sibs < 0 || sc.Real {
		sc.Sibs = 0
	}
	if sc.Sibs > len(sibMatching) {
		sc.Sibs = len(sibMatching)
	}
	if sc.Real {
		// one unit = 10..100 ms of real time; no concurrent cancellation of a caller's context (nothing to
		// order it with outside a bubble); at most 40 units
		if sc.Unit < 10 {
			sc.Unit = 30
		}
		if sc.Unit > 100 {
			sc.Unit = 100
		}
		if sc.End > 40 {
			sc.End = 40
		}
		for i := range sc.Calls {
			if sc.Calls[i].Cctx == "race" {
				sc.Calls[i].Cctx = "done"
			}
		}
	} else {
		sc.Unit = 0
	}
	return sc
}

// tied: two events of the script can fall on the same instant.
func tied(sc Script) bool {
	if sc.Kind == "periodic" {
		return len(sc.Calls) > 0
	}
	seen := map[int]bool{}
	times := []int{sc.Due}
	for _, c := range sc.Calls {
		times = append(times, c.At)
	}
	for _, x := range times {
		if seen[x] {
			return true
		}
		seen[x] = true
	}
	if sc.Dur > 0 {
		for _, x := range times {
			if seen[x+sc.Dur] {
				return true
			}
		}
	}
	return false
}

// ---------------------------------------------------------------------------------------------
// generators

var callKinds = []string{"run", "run", "run", "run", "cancel", "cancel", "ctx", "ctx", "runif", "cancelif", "exists", "dup"}

func genOneOff(r *Rand) (Script, []string) {
	T := r.Range(2, 6)
	if r.Chance(1, 12) {
		T = r.Range(0, 1) // already due, or due at once
	}
	sc := Script{Kind: "oneoff", Due: T, Dur: []int{0, 0, 2, 1, 3}[r.Intn(5)]}
	off := func() int { return T + r.Range(-1, 1) }
	var tags []string
	switch fam := r.Intn(14); fam {
	case 0:
		tags = append(tags, "oneoff:timer-alone")
	case 12: // the name is released and taken again (CancelJob then ScheduleJob, as the controller does on a reorg) around T
		sc.Calls = append(sc.Calls, Call{At: off(), Kind: "resched"})
		if r.Chance(1, 3) {
			sc.Calls = append(sc.Calls, Call{At: off(), Kind: "ctx"})
		}
		tags = append(tags, "oneoff:resched-around-T")
	case 13: // released and taken again at the instant the parent context is cancelled
		at := r.Range(1, T+1)
		sc.Calls = append(sc.Calls, Call{At: at, Kind: "resched"}, Call{At: at, Kind: "ctx"})
		tags = append(tags, "oneoff:resched+ctx-same-instant")
	case 1: // k run requests around T
		k := r.Range(1, 3)
		for i := 0; i < k; i++ {
			sc.Calls = append(sc.Calls, Call{At: off(), Kind: "run"})
		}
		tags = append(tags, fmt.Sprintf("oneoff:run-x%d-around-T", k))
	case 2: // k run requests exactly at T
		k := r.Range(1, 3)
		for i := 0; i < k; i++ {
			sc.Calls = append(sc.Calls, Call{At: T, Kind: "run"})
		}
		tags = append(tags, fmt.Sprintf("oneoff:run-x%d-at-T", k))
	case 3:
		sc.Calls = append(sc.Calls, Call{At: off(), Kind: "cancel"})
		tags = append(tags, "oneoff:cancel-around-T")
	case 4:
		sc.Calls = append(sc.Calls, Call{At: off(), Kind: "ctx"})
		tags = append(tags, "oneoff:ctx-around-T")
	case 5:
		sc.Calls = append(sc.Calls, Call{At: off(), Kind: "run"}, Call{At: off(), Kind: "cancel"})
		tags = append(tags, "oneoff:run+cancel-around-T")
	case 6:
		sc.Calls = append(sc.Calls, Call{At: off(), Kind: "run"}, Call{At: off(), Kind: "ctx"})
		tags = append(tags, "oneoff:run+ctx-around-T")
	case 7:
		sc.Calls = append(sc.Calls, Call{At: off(), Kind: "cancel"}, Call{At: off(), Kind: "ctx"})
		tags = append(tags, "oneoff:cancel+ctx-around-T")
	case 8: // around each other, away from T
		sc.Due = r.Range(7, 9)
		a := r.Range(2, 4)
		kinds := []string{"run", "cancel", "ctx", "run"}
		n := r.Range(2, 3)
		for i := 0; i < n; i++ {
			sc.Calls = append(sc.Calls, Call{At: a + r.Range(-1, 1), Kind: kinds[r.Intn(len(kinds))]})
		}
		tags = append(tags, "oneoff:calls-around-each-other")
	case 9: // tied with the end of jobFunc
		if sc.Dur == 0 {
			sc.Dur = 2
		}
		sc.Calls = append(sc.Calls, Call{At: T + sc.Dur + r.Range(-1, 1), Kind: []string{"run", "cancel", "exists", "dup"}[r.Intn(4)]})
		if r.Bool() {
			sc.Calls = append(sc.Calls, Call{At: T - 1, Kind: "run"})
		}
		tags = append(tags, "oneoff:call-at-job-end")
	case 10: // observers: early and late
		sc.Calls = append(sc.Calls, Call{At: r.Range(0, 1), Kind: []string{"exists", "dup"}[r.Intn(2)]})
		sc.Calls = append(sc.Calls, Call{At: off(), Kind: []string{"run", "cancel", "ctx", "runif", "cancelif"}[r.Intn(5)]})
		sc.Calls = append(sc.Calls, Call{At: T + r.Range(0, 3), Kind: []string{"exists", "dup", "run", "cancel"}[r.Intn(4)]})
		tags = append(tags, "oneoff:observers")
	default: // free mix
		n := r.Range(1, 4)
		pts := []int{T - 1, T, T, T + 1, T + sc.Dur, 1, T - 2}
		for i := 0; i < n; i++ {
			sc.Calls = append(sc.Calls, Call{At: pts[r.Intn(len(pts))], Kind: callKinds[r.Intn(len(callKinds))]})
		}
		tags = append(tags, "oneoff:mix")
	}
	return sc, tags
}

func genPeriodic(r *Rand) (Script, []string) {
	P := r.Range(2, 4)
	sc := Script{Kind: "periodic", Due: P, Dur: []int{0, 1, 2, 0}[r.Intn(4)], Ticks: r.Range(1, 4)}
	var tags []string
	life := sc.Ticks * (P + sc.Dur)
	switch fam := r.Intn(11); fam {
	case 0:
		tags = append(tags, "periodic:alone")
	case 10: // the name is released and taken again around an instance's time, the end of the job or a context cancellation
		at := []int{P, life, r.Range(1, life+1)}[r.Intn(3)]
		sc.Calls = append(sc.Calls, Call{At: at, Kind: "resched"})
		if r.Chance(1, 2) {
			sc.Calls = append(sc.Calls, Call{At: at, Kind: "ctx"})
		}
		tags = append(tags, "periodic:resched")
	case 8: // a run request tied with a cancellation (of the job or of its context), around an instance's time or not
		at := r.Range(1, P+1)
		sc.Calls = append(sc.Calls, Call{At: at, Kind: "run"}, Call{At: at, Kind: []string{"cancel", "ctx", "cancel"}[r.Intn(3)]})
		if r.Chance(1, 3) {
			sc.Calls = append(sc.Calls, Call{At: at + 1, Kind: "run"})
		}
		tags = append(tags, "periodic:run-tied-with-cancel-or-ctx")
	case 9: // an early run on every instance, then a plain instance
		sc.Ticks = r.Range(3, 4)
		sc.Dur = r.Range(0, 1)
		at := 1
		for i := 0; i < sc.Ticks-1; i++ {
			sc.Calls = append(sc.Calls, Call{At: at, Kind: "run"})
			at += sc.Dur + r.Range(1, P-1)
		}
		tags = append(tags, "periodic:early-run-each-instance")
	case 1: // an early run, then the remaining instances
		sc.Ticks = r.Range(3, 4)
		sc.Calls = append(sc.Calls, Call{At: r.Range(1, P-1), Kind: "run"})
		tags = append(tags, "periodic:early-run-then-ticks")
	case 2: // a run request on an instance's time
		sc.Ticks = r.Range(2, 4)
		sc.Calls = append(sc.Calls, Call{At: P + r.Range(-1, 1), Kind: "run"})
		tags = append(tags, "periodic:run-around-tick")
	case 3: // several run requests at one instant
		k := r.Range(2, 3)
		at := r.Range(1, P+1)
		for i := 0; i < k; i++ {
			sc.Calls = append(sc.Calls, Call{At: at, Kind: "run"})
		}
		tags = append(tags, fmt.Sprintf("periodic:run-x%d-same-instant", k))
	case 4: // run during jobFunc
		if sc.Dur == 0 {
			sc.Dur = 2
		}
		sc.Calls = append(sc.Calls, Call{At: P + r.Range(0, sc.Dur), Kind: "run"})
		tags = append(tags, "periodic:run-during-job")
	case 5:
		sc.Calls = append(sc.Calls, Call{At: r.Range(1, life+1), Kind: "cancel"})
		if r.Bool() {
			sc.Calls = append(sc.Calls, Call{At: r.Range(1, life+1), Kind: "run"})
		}
		tags = append(tags, "periodic:cancel")
	case 6:
		sc.Calls = append(sc.Calls, Call{At: r.Range(1, life+1), Kind: "ctx"})
		if r.Bool() {
			sc.Calls = append(sc.Calls, Call{At: r.Range(1, life+1), Kind: "run"})
		}
		tags = append(tags, "periodic:ctx")
	default:
		n := r.Range(1, 3)
		for i := 0; i < n; i++ {
			sc.Calls = append(sc.Calls, Call{At: r.Range(0, life+1), Kind: callKinds[r.Intn(len(callKinds))]})
		}
		tags = append(tags, "periodic:mix")
	}
	sc.End = sc.Ticks*(P+sc.Dur) + sc.Dur + 2
	return sc, tags
}

// genCallerCtx: scripts whose callers hand a cancelled / expired / concurrently cancelled context of their
// own to RunJob, RunJobIfExists, CancelJob, CancelJobIfExists and JobExists.  The job's own context is alive
// unless the script cancels it: a claim must not depend on the caller's context (the job accepted, not
// cancelled, runs exactly once; a periodic job keeps ticking).
func genCallerCtx(r *Rand, i int) (Script, []string) {
	kinds := []string{"done", "done", "expired", "race"}
	kc := func() string { return kinds[r.Intn(len(kinds))] }
	var sc Script
	var tags []string
	switch fam := i % 8; fam {
	case 0: // one-off, one run request clearly before T
		T := r.Range(3, 6)
		sc = Script{Kind: "oneoff", Due: T, Dur: r.Range(0, 2)}
		sc.Calls = []Call{{At: r.Range(1, T-1), Kind: []string{"run", "run", "runif"}[r.Intn(3)], Cctx: kc()}}
		tags = []string{"cctx:oneoff-run-before-T"}
	case 1: // one-off, run request(s) at T
		T := r.Range(2, 5)
		sc = Script{Kind: "oneoff", Due: T, Dur: r.Range(0, 2)}
		for k := r.Range(1, 2); k > 0; k-- {
			sc.Calls = append(sc.Calls, Call{At: T, Kind: "run", Cctx: kc()})
		}
		tags = []string{"cctx:oneoff-run-at-T"}
	case 2: // one-off, cancel before T with a dead caller context: the job is cancelled all the same
		T := r.Range(3, 6)
		sc = Script{Kind: "oneoff", Due: T, Dur: r.Range(0, 2)}
		sc.Calls = []Call{{At: r.Range(1, T-1), Kind: []string{"cancel", "cancel", "cancelif"}[r.Intn(3)], Cctx: kc()}}
		if r.Bool() {
			sc.Calls = append(sc.Calls, Call{At: T + 1, Kind: "exists", Cctx: kc()})
		}
		tags = []string{"cctx:oneoff-cancel-before-T"}
	case 3: // periodic, an early run with a dead caller context, then the remaining instances
		P := r.Range(2, 4)
		sc = Script{Kind: "periodic", Due: P, Dur: r.Range(0, 2), Ticks: r.Range(3, 4)}
		sc.Calls = []Call{{At: r.Range(1, P-1), Kind: []string{"run", "runif"}[r.Intn(2)], Cctx: kc()}}
		if r.Bool() {
			sc.Calls = append(sc.Calls, Call{At: P + sc.Dur + 1, Kind: "run", Cctx: []string{"", kc()}[r.Intn(2)]})
		}
		sc.End = sc.Ticks*(P+sc.Dur) + sc.Dur + 2
		tags = []string{"cctx:periodic-early-run-then-ticks"}
	case 4: // periodic, cancel with a dead caller context
		P := r.Range(2, 4)
		sc = Script{Kind: "periodic", Due: P, Dur: r.Range(0, 1), Ticks: r.Range(2, 4)}
		sc.Calls = []Call{{At: r.Range(1, 2*P), Kind: []string{"cancel", "cancelif"}[r.Intn(2)], Cctx: kc()}}
		sc.End = sc.Ticks*(P+sc.Dur) + sc.Dur + 2
		tags = []string{"cctx:periodic-cancel"}
	case 5: // run and cancel around each other, both with contexts of their own
		T := r.Range(4, 7)
		sc = Script{Kind: "oneoff", Due: T, Dur: r.Range(0, 2)}
		a := r.Range(1, T-1)
		sc.Calls = []Call{{At: a, Kind: "run", Cctx: kc()}, {At: a + r.Range(0, 1), Kind: "cancel", Cctx: kc()}}
		tags = []string{"cctx:oneoff-run+cancel"}
	default: // a script of the ordinary families with the callers' contexts drawn at random
		if r.Chance(2, 3) {
			sc, tags = genOneOff(r)
		} else {
			sc, tags = genPeriodic(r)
		}
		some := false
		for k := range sc.Calls {
			switch sc.Calls[k].Kind {
			case "run", "runif", "cancel", "cancelif", "exists", "resched":
				if r.Chance(2, 3) {
					sc.Calls[k].Cctx = kc()
					some = true
				}
			}
		}
		if !some {
			sc.Calls = append(sc.Calls, Call{At: r.Range(1, 3), Kind: "run", Cctx: kc()})
		}
	}
	return sc, append(tags, "caller-ctx")
}

// genReal: scripts run in REAL time with the timer channels production has (buffered, go directive 1.22):
// what a long-lived timer that is re-armed leaves in its channel cannot be seen in a bubble or with the
// harness module's own Go version.  Events are whole units apart; no family relies on two events of one unit
// being ordered.
func genReal(r *Rand, i int) (Script, []string) {
	var sc Script
	var tags []string
	switch fam := i % 10; fam {
	case 0, 1: // periodic: an early run whose jobFunc outlasts the tick it pre-empted, then further instances
		P := r.Range(2, 3)
		a := r.Range(1, P-1)
		D := P - a + r.Range(1, 2)
		sc = Script{Kind: "periodic", Due: P, Dur: D, Ticks: 3, Calls: []Call{{At: a, Kind: []string{"run", "run", "runif"}[r.Intn(3)]}}}
		sc.End = a + D + 2*(P+D) + 1
		tags = []string{"real:periodic-early-run-outlasts-tick"}
	case 2: // the same, the early run outlasting two periods
		P := 2
		D := 2*P + 1
		sc = Script{Kind: "periodic", Due: P, Dur: D, Ticks: 2, Calls: []Call{{At: 1, Kind: "run"}}}
		sc.End = 1 + D + (P + D) + 1
		tags = []string{"real:periodic-early-run-outlasts-two-periods"}
	case 3: // two early runs, each outlasting the tick it pre-empted
		P := 3
		D := 3
		sc = Script{Kind: "periodic", Due: P, Dur: D, Ticks: 3, Calls: []Call{{At: 1, Kind: "run"}, {At: 1 + D + 1, Kind: "run"}}}
		sc.End = 1 + D + 1 + D + P + D + 1
		tags = []string{"real:periodic-two-early-runs"}
	case 4: // an early run that outlasts the tick, then the job is cancelled while idle
		P := r.Range(2, 3)
		D := P + 1
		sc = Script{Kind: "periodic", Due: P, Dur: D, Ticks: 3, Calls: []Call{{At: 1, Kind: "run"}, {At: 1 + D + 1, Kind: []string{"cancel", "ctx"}[r.Intn(2)]}}}
		sc.End = 1 + D + P + 2
		tags = []string{"real:periodic-early-run-then-cancel"}
	case 5: // control: the early run finishes before the tick; and the timer alone
		P := 4
		sc = Script{Kind: "periodic", Due: P, Dur: 1, Ticks: 2}
		if r.Bool() {
			sc.Calls = []Call{{At: 1, Kind: "run"}}
			sc.End = 2 + (P + 1) + 2
		} else {
			sc.End = 2*(P+1) + 2
		}
		tags = []string{"real:periodic-control"}
	case 6: // one-off: an early run whose jobFunc outlasts the job's time
		T := r.Range(2, 4)
		a := r.Range(1, T-1)
		sc = Script{Kind: "oneoff", Due: T, Dur: T - a + r.Range(1, 2), Calls: []Call{{At: a, Kind: []string{"run", "runif"}[r.Intn(2)]}}}
		tags = []string{"real:oneoff-early-run-outlasts-T"}
	case 7: // one-off: the timer alone, then a late run request
		T := r.Range(2, 3)
		sc = Script{Kind: "oneoff", Due: T, Dur: r.Range(1, 2)}
		if r.Bool() {
			sc.Calls = []Call{{At: T + 1, Kind: "run"}}
		}
		tags = []string{"real:oneoff-timer"}
	case 8: // one-off: cancelled (or its context) clearly before its time
		T := r.Range(3, 4)
		sc = Script{Kind: "oneoff", Due: T, Dur: 1, Calls: []Call{{At: 1, Kind: []string{"cancel", "ctx", "cancelif"}[r.Intn(3)]}}}
		tags = []string{"real:oneoff-cancel-before-T"}
	default: // one-off: an early run with a cancelled caller context, outlasting T
		T := 3
		sc = Script{Kind: "oneoff", Due: T, Dur: 3, Calls: []Call{{At: 1, Kind: "run", Cctx: "done"}}}
		tags = []string{"real:oneoff-early-run-dead-caller"}
	}
	sc.Real, sc.Unit = true, 30
	return sc, tags
}

// hangProne: a periodic job with two run requests at one instant can leave the second one blocked
// on the full runCh holding the job's state lock while the goroutine waits for that lock in
// finaliseJob (reported observation outside the property, C02_obs_periodic_runjob_can_block); a
// bubble in that state never comes to rest and costs 2 s of real time.
func hangProne(sc Script) bool {
	if sc.Kind != "periodic" {
		return false
	}
	runs := map[int]int{}
	for _, c := range sc.Calls {
		if c.Kind == "run" || c.Kind == "runif" {
			runs[c.At]++
		}
	}
	for _, n := range runs {
		if n >= 2 {
			return true
		}
	}
	return false
}

func genTable(r *Rand) []TOp {
	n := r.Range(6, 30)
	names := r.Range(1, 4)
	ops := make([]TOp, 0, n)
	for i := 0; i < n; i++ {
		name := r.Range(1, names)
		switch k := r.Intn(12); {
		case k < 4:
			ops = append(ops, TOp{Op: "sched", Name: name, Periodic: r.Chance(1, 3)})
		case k < 7:
			ops = append(ops, TOp{Op: []string{"run", "run", "runif", "fire"}[r.Intn(4)], Name: name})
		case k < 9:
			ops = append(ops, TOp{Op: []string{"cancel", "cancel", "cancelif"}[r.Intn(3)], Name: name})
		case k < 11:
			ops = append(ops, TOp{Op: "exists", Name: name})
		default:
			if r.Chance(1, 3) {
				ops = append(ops, TOp{Op: "cancelall"})
			} else {
				ops = append(ops, TOp{Op: "list"})
			}
		}
	}
	// one history in three hands a cancelled or expired CALLER context to some of its calls
	if r.Chance(1, 3) {
		for i := range ops {
			if ops[i].Op != "sched" && r.Chance(1, 2) {
				ops[i].Cctx = []string{"done", "expired"}[r.Intn(2)]
			}
		}
	}
	return ops
}

// ---------------------------------------------------------------------------------------------
// sequential histories over several names

// tableSched: what a history needs of a scheduler (the real one and harness/mocks.RecScheduler).
type tableSched interface {
	ScheduleJob(ctx context.Context, class string, name string, runtime time.Time, job scheduler.JobFunc) error
	SchedulePeriodicJob(ctx context.Context, class string, name string, runtime scheduler.RuntimeFunc, job scheduler.JobFunc) error
	RunJob(ctx context.Context, name string) error
	RunJobIfExists(ctx context.Context, name string)
	CancelJob(ctx context.Context, name string) error
	CancelJobIfExists(ctx context.Context, name string)
	CancelJobs(ctx context.Context, prefix string)
	JobExists(ctx context.Context, name string) bool
	ListJobs(ctx context.Context) []string
}

func tcode(err error) string {
	c := codeOf(err)
	if c == "Foreign" {
		return "TOther"
	}
	return App("TCode", strings.TrimPrefix(c, "Ret "))
}

// applyTable runs a history against one scheduler.  fire: how "the job's time arrives" is produced for an
// operation "fire" (the real scheduler: RunJob, the same table section; the mock: its explicit Fire).
// rest: called after every operation (the system comes to rest before the next one).
func applyTable(svc tableSched, ops []TOp, fire func(ctx context.Context, name string) error, rest func()) (outs []string, runs []string, nontrivial bool) {
	var counts []*atomic.Int64
	dupSeen, runSeen, reuseSeen := false, false, false
	ctx, cancel := context.WithCancel(context.Background())
	defer cancel()
	used := map[int]bool{}
	nm := tableName
	for _, op := range ops {
		// the caller's context of everything but ScheduleJob (whose context is the job's own)
		cctx, release := ctx, func() {}
		if op.Op != "sched" {
			cctx, release = callerCtx(ctx, op.Cctx)
		}
		switch op.Op {
		case "sched":
			c := &atomic.Int64{}
			f := func(context.Context) { c.Add(1) }
			var err error
			if op.Periodic {
				err = svc.SchedulePeriodicJob(ctx, "c02", nm(op.Name), func(context.Context) (time.Time, error) { return time.Now().Add(time.Hour), nil }, f)
			} else {
				err = svc.ScheduleJob(ctx, "c02", nm(op.Name), time.Now().Add(time.Hour), f)
			}
			if err == nil {
				counts = append(counts, c)
				if used[op.Name] {
					reuseSeen = true
				}
				used[op.Name] = true
			} else {
				dupSeen = true
			}
			outs = append(outs, tcode(err))
		case "run", "fire":
			var err error
			if op.Op == "fire" {
				err = fire(cctx, nm(op.Name))
			} else {
				err = svc.RunJob(cctx, nm(op.Name))
			}
			if err == nil {
				runSeen = true
			}
			outs = append(outs, tcode(err))
		case "runif":
			svc.RunJobIfExists(cctx, nm(op.Name))
			outs = append(outs, "TSilent")
		case "cancel":
			outs = append(outs, tcode(svc.CancelJob(cctx, nm(op.Name))))
		case "cancelif":
			svc.CancelJobIfExists(cctx, nm(op.Name))
			outs = append(outs, "TSilent")
		case "cancelall":
			svc.CancelJobs(cctx, "n")
			outs = append(outs, App("TCode", "Nil"))
		case "cancelpre":
			svc.CancelJobs(cctx, op.Prefix)
			outs = append(outs, App("TCode", "Nil"))
		case "exists":
			outs = append(outs, App("TBool", Bool(svc.JobExists(cctx, nm(op.Name)))))
		case "list":
			var ids []int
			for _, s := range svc.ListJobs(cctx) {
				ids = append(ids, tableID(s))
			}
			sort.Ints(ids)
			items := make([]string, 0, len(ids))
			for _, i := range ids {
				items = append(items, N(uint64(i)))
			}
			outs = append(outs, App("TNames", List(items)))
		}
		release()
		// the system comes to rest (a started jobFunc returns at once) before the next operation
		rest()
	}
	cancel()
	rest()
	for j, c := range counts {
		runs = append(runs, Pair(N(uint64(j)), N(uint64(c.Load()))))
	}
	return outs, runs, dupSeen && runSeen && reuseSeen
}

// Names of the sequential histories: two families ("na<i>" for even i, "nb<i>" for odd i) under the common
// prefix "n", so that CancelJobs can be called with prefixes that all, some, one or none of the names have.
const tableUniverse = 12

func tableName(i int) string { return fmt.Sprintf("n%c%d", 'a'+rune(i%2), i) }

func tableID(s string) int {
	for i := 0; i <= tableUniverse; i++ {
		if tableName(i) == s {
			return i
		}
	}
	return 99
}

// MockTable: the same history on harness/mocks.RecScheduler, with RunInline and without.
type MockTable struct {
	InlineOuts []string `json:"inline_outs"`
	InlineRuns []string `json:"inline_runs"`
	RecOuts    []string `json:"rec_outs"`
	RecRuns    []string `json:"rec_runs"`
}

func runTable(t *testing.T, ops []TOp) (outs []string, runs []string, nontrivial bool, mk MockTable) {
	synctest.Test(t, func(*testing.T) {
		svc, err := advanced.New(context.Background(), advanced.WithLogLevel(zerolog.Disabled), advanced.WithMonitor(nullmetrics.New()))
		if err != nil {
			panic(err)
		}
		outs, runs, nontrivial = applyTable(svc, ops, svc.RunJob, synctest.Wait)
	})
	fireOf := func(m *mocks.RecScheduler) func(context.Context, string) error {
		return func(ctx context.Context, name string) error {
			if m.Fire(ctx, name) {
				return nil
			}
			return scheduler.ErrNoSuchJob
		}
	}
	inline := mocks.NewRecScheduler()
	inline.RunInline = true
	mk.InlineOuts, mk.InlineRuns, _ = applyTable(inline, ops, fireOf(inline), func() {})
	// without RunInline a run request is recorded and the entry removed, the function is not called; Fire
	// always calls it, so in this pass "fire" is issued as RunJob too
	rec := mocks.NewRecScheduler()
	mk.RecOuts, mk.RecRuns, _ = applyTable(rec, ops, rec.RunJob, func() {})
	return outs, runs, nontrivial, mk
}

func tableTerm(ops []TOp) string {
	items := make([]string, 0, len(ops))
	for _, op := range ops {
		switch op.Op {
		case "sched":
			items = append(items, App("TSched", N(uint64(op.Name)), Bool(op.Periodic)))
		case "run", "fire":
			items = append(items, App("TRun", N(uint64(op.Name))))
		case "runif":
			items = append(items, App("TRunIf", N(uint64(op.Name))))
		case "cancel":
			items = append(items, App("TCancel", N(uint64(op.Name))))
		case "cancelif":
			items = append(items, App("TCancelIf", N(uint64(op.Name))))
		case "exists":
			items = append(items, App("TExists", N(uint64(op.Name))))
		case "cancelall":
			items = append(items, "TCancelAll")
		case "cancelpre":
			// the names of the universe that have the prefix: the specification of "prefix", computed here from the strings
			var set []string
			for i := 0; i <= tableUniverse; i++ {
				if strings.HasPrefix(tableName(i), op.Prefix) {
					set = append(set, N(uint64(i)))
				}
			}
			items = append(items, App("TCancelSet", List(set)))
		default:
			items = append(items, "TList")
		}
	}
	return List(items)
}

// ---------------------------------------------------------------------------------------------

// One unit of work for the child process: an input with its repetitions and tags decided.
type Work struct {
	In   Input    `json:"in"`
	Reps int      `json:"reps"`
	Tags []string `json:"tags"`
}

// What the child reports for one unit of work (one JSON line).
type Result struct {
	Index     int      `json:"index"`
	Observed  []Obs    `json:"observed,omitempty"`
	BObserved []BObs   `json:"bobserved,omitempty"`
	TableOuts []string `json:"table_outs,omitempty"`
	TableRuns []string `json:"table_runs,omitempty"`
	TableNT   bool     `json:"table_nt,omitempty"`
	Mock      MockTable `json:"mock,omitempty"`
	Bubbles   int      `json:"bubbles"`
	Hung      int      `json:"hung"`
	Crashed   string   `json:"crashed,omitempty"` // parent only: the child died on this input
	Skipped   bool     `json:"skipped,omitempty"` // parent only: not run (the process had died on too many inputs before)
	AsyncTimer bool    `json:"async_timer,omitempty"` // real-time items: the process had the buffered (pre-1.23) timer channels
	Noisy     int      `json:"noisy,omitempty"`       // real-time items: repetitions discarded because the machine was late
}

// child: runs the work items from VERIF_C02_FROM on, one JSON line per finished item.  A panic inside
// one of the scheduler's own goroutines (a close of a closed channel ...) kills this process; the
// parent then knows on which input.
func child(t *testing.T) {
	var work []Work
	data, err := os.ReadFile(os.Getenv("VERIF_C02_WORK"))
	if err != nil {
		t.Fatal(err)
	}
	if err := json.Unmarshal(data, &work); err != nil {
		t.Fatal(err)
	}
	out, err := os.OpenFile(os.Getenv("VERIF_C02_RESULTS"), os.O_APPEND|os.O_CREATE|os.O_WRONLY, 0o644)
	if err != nil {
		t.Fatal(err)
	}
	defer out.Close()
	totalHung := 0
	if os.Getenv("VERIF_C02_REAL") == "batch" {
		// real-time scripts: all at once (each has its own scheduler and sleeps most of the time), the
		// repetitions of one script one after the other; results are written when all are done
		from := EnvInt("VERIF_C02_FROM", 0)
		async := asyncTimerChan()
		results := make([]Result, len(work))
		var wg sync.WaitGroup
		for i := from; i < len(work); i++ {
			wg.Add(1)
			go func() {
				defer wg.Done()
				results[i] = realItem(i, work[i], async)
			}()
		}
		wg.Wait()
		for i := from; i < len(work); i++ {
			line, _ := json.Marshal(results[i])
			if _, err := out.Write(append(line, '\n')); err != nil {
				t.Fatal(err)
			}
		}
		return
	}
	for i := EnvInt("VERIF_C02_FROM", 0); i < len(work); i++ {
		w := work[i]
		res := Result{Index: i}
		if w.In.Script != nil && w.In.Script.Real {
			res = realItem(i, w, asyncTimerChan())
		} else if w.In.Burst != nil {
			distinct := map[string]*BObs{}
			var order []string
			for k := 0; k < w.Reps; k++ {
				o := runBurstOnce(t, *w.In.Burst)
				res.Bubbles++
				if o.Hung {
					res.Hung++
					totalHung++
				}
				key := bobsKey(o)
				if e, ok := distinct[key]; ok {
					e.Count++
				} else {
					o.Count = 1
					distinct[key] = &o
					order = append(order, key)
				}
				if res.Hung >= 3 || (res.Hung >= 1 && totalHung > 150) {
					break
				}
			}
			sort.Strings(order)
			for _, key := range order {
				res.BObserved = append(res.BObserved, *distinct[key])
			}
		} else if w.In.Script == nil {
			res.TableOuts, res.TableRuns, res.TableNT, res.Mock = runTable(t, w.In.Table)
			res.Bubbles = 1
		} else {
			distinct := map[string]*Obs{}
			var order []string
			for k := 0; k < w.Reps; k++ {
				o := runOnce(t, *w.In.Script)
				res.Bubbles++
				if o.Hung {
					res.Hung++
					totalHung++
				}
				key := obsKey(o)
				if e, ok := distinct[key]; ok {
					e.Count++
				} else {
					o.Count = 1
					distinct[key] = &o
					order = append(order, key)
				}
				// a run that never comes to rest costs real time: a few per script, fewer once many were seen
				if res.Hung >= 3 || (res.Hung >= 1 && totalHung > 150) {
					break
				}
			}
			sort.Strings(order)
			for _, key := range order {
				res.Observed = append(res.Observed, *distinct[key])
			}
		}
		line, _ := json.Marshal(res)
		if _, err := out.Write(append(line, '\n')); err != nil {
			t.Fatal(err)
		}
	}
}

// asyncTimerChan: does this process have the pre-1.23 timer channels (buffered: a value that was sent before
// a Reset stays in the channel)?  That is what the repository's go directive (1.22) selects for production
// builds, and what GODEBUG=asynctimerchan=1 selects for this process.
func asyncTimerChan() bool {
	tm := time.NewTimer(time.Millisecond)
	time.Sleep(20 * time.Millisecond)
	tm.Reset(time.Hour)
	defer tm.Stop()
	select {
	case <-tm.C:
		return true
	default:
		return false
	}
}

// realItem: the serial repetitions of one real-time script, every one reported (no merging: the Coq side
// applies the flake policy to the list).
func realItem(i int, w Work, async bool) Result {
	res := Result{Index: i, AsyncTimer: async}
	distinct := map[string]*Obs{}
	var order []string
	quiet := 0
	for k := 0; k < 2*w.Reps && quiet < w.Reps; k++ {
		o, noisy := runRealOnce(*w.In.Script)
		res.Bubbles++
		if noisy {
			res.Noisy++
			continue
		}
		quiet++
		if o.Hung {
			res.Hung++
		}
		key := obsKey(o)
		if e, ok := distinct[key]; ok {
			e.Count++
		} else {
			o.Count = 1
			distinct[key] = &o
			order = append(order, key)
		}
	}
	for _, key := range order {
		res.Observed = append(res.Observed, *distinct[key])
	}
	return res
}

// runChildren runs the work items in a child process (this test binary), restarted after the item on which it
// dies; one Result per item.
// maxCrashes: after the process has died on this many inputs the remaining inputs are left out (counted and
// noted); the inputs run so far, the deaths among them, are reported as usual.
const maxCrashes = 24

func runChildren(t *testing.T, dir string, tag string, work []Work, env []string, crashes *int) []Result {
	return runChildrenOf(t, os.Args[0], dir, tag, work, env, crashes)
}

func runChildrenOf(t *testing.T, binary string, dir string, tag string, work []Work, env []string, crashes *int) []Result {
	workFile, resFile := dir+"/work_"+tag+".json", dir+"/results_"+tag+".jsonl"
	data, _ := json.Marshal(work)
	if err := os.WriteFile(workFile, data, 0o644); err != nil {
		t.Fatal(err)
	}
	results := make([]Result, 0, len(work))
	for len(results) < len(work) {
		os.Remove(resFile)
		cmd := exec.Command(binary, "-test.run", "^TestC02$", "-test.count=1", "-test.timeout", "3000s")
		cmd.Env = append(os.Environ(), "VERIF_C02_CHILD=1", "VERIF_C02_WORK="+workFile, "VERIF_C02_RESULTS="+resFile,
			fmt.Sprintf("VERIF_C02_FROM=%d", len(results)))
		cmd.Env = append(cmd.Env, env...)
		outb, runErr := cmd.CombinedOutput()
		before := len(results)
		if f, err := os.Open(resFile); err == nil {
			scan := bufio.NewScanner(f)
			scan.Buffer(make([]byte, 1<<20), 1<<26)
			for scan.Scan() {
				var r Result
				if json.Unmarshal(scan.Bytes(), &r) == nil && r.Index == len(results) {
					results = append(results, r)
				}
			}
			f.Close()
		}
		if len(results) < len(work) {
			if tag == "real" && len(results) == before && len(env) > 0 && env[len(env)-1] == "VERIF_C02_REAL=batch" {
				// the batch died: one item at a time from here on, so that the culprit is known
				env = append(append([]string(nil), env[:len(env)-1]...), "VERIF_C02_REAL=serial")
				continue
			}
			// the child died on input number len(results)
			*crashes++
			msg := string(outb)
			if i := strings.Index(msg, "panic:"); i >= 0 {
				msg = msg[i:]
			} else if i := strings.Index(msg, "fatal error:"); i >= 0 {
				msg = msg[i:]
			}
			if len(msg) > 300 {
				msg = msg[:300]
			}
			if runErr == nil {
				msg = "child stopped early: " + msg
			}
			results = append(results, Result{Index: len(results), Crashed: msg})
			if *crashes > maxCrashes {
				// every input on which the process died is reported as a panic outcome (a concrete replay each);
				// the rest of the inputs is not run: restarting the process for each of them buys nothing more
				for len(results) < len(work) {
					results = append(results, Result{Index: len(results), Skipped: true})
				}
			}
		}
	}
	return results
}

func TestC02(t *testing.T) {
	deadlock.Opts.Disable = true // go-deadlock's timer pool lives outside the bubble
	if os.Getenv("VERIF_C02_CHILD") != "" {
		child(t)
		return
	}
	col := NewCollector("C02", "Check.C02",
		"one case = one timed script (one job, calls at given fake instants; repeated when events tie, every distinct outcome reported) "+
			"or one sequential history over several names, or one burst (goroutines released together operating on one name, repeated; "+
			"non-trivial: at least two lanes and a ScheduleJob); non-trivial = a timed script in which the job's time or a run/cancel/ctx call "+
			"falls inside the script, or a history with a refused duplicate, a successful RunJob and a re-used name; distinct by input text")
	col.ShardSize = 60
	col.Preamble = "From Coq Require Import String."
	n := EnvInt("VERIF_N", 300)
	tier := os.Getenv("VERIF_TIER")
	tieReps, freeReps := 50, 2
	if tier == "thorough" {
		tieReps = 200
	}
	if os.Getenv("VERIF_SEARCH") != "" {
		tieReps *= 4
	}
	tieReps = EnvInt("VERIF_C02_REPS", tieReps)
	burstReps := 6 * tieReps // 300 quick, 1200 thorough; the windows are a few hundred nanoseconds wide
	burstReps = EnvInt("VERIF_C02_BURST_REPS", burstReps)

	var ins []Input
	for _, in := range LoadInputs[Input]("C02") {
		in.Tags = append(in.Tags, "corpus")
		ins = append(ins, in)
	}
	rng := NewRand(Seed())
	for i := 0; i < n; i++ {
		r := rng.Fork()
		switch k := r.Intn(10); {
		case k < 6:
			sc, tags := genOneOff(r)
			ins = append(ins, Input{Script: &sc, Tags: tags})
		case k < 9:
			sc, tags := genPeriodic(r)
			ins = append(ins, Input{Script: &sc, Tags: tags})
		default:
			ins = append(ins, Input{Table: genTable(r), Tags: []string{"table"}})
		}
	}
	// bursts: on top of the scripts, from their own stream (the scripts of a seed stay what they were)
	nb := n / 10
	if n > 0 && nb < 8 {
		nb = 8
	}
	brng := rng.Fork()
	for i := 0; i < nb; i++ {
		b, tags := genBurst(brng.Fork())
		ins = append(ins, Input{Burst: &b, Tags: tags})
	}
	// callers with cancelled contexts, and real-time scripts: on top again, each from its own stream
	crng := rng.Fork()
	nc := n / 6
	if n > 0 && nc < 12 {
		nc = 12
	}
	for i := 0; i < nc; i++ {
		sc, tags := genCallerCtx(crng.Fork(), i)
		ins = append(ins, Input{Script: &sc, Tags: tags})
	}
	rrng := rng.Fork()
	nr := n / 30
	if n > 0 && nr < 10 {
		nr = 10
	}
	if os.Getenv("VERIF_C02_NOREAL") != "" {
		nr = 0
	}
	for i := 0; i < nr; i++ {
		sc, tags := genReal(rrng.Fork(), i)
		ins = append(ins, Input{Script: &sc, Tags: tags})
	}
	// the job table after the job's goroutine has ended, by every way out: on top again, from its own stream
	erng := rng.Fork()
	ne := n / 6
	if n > 0 && ne < 16 {
		ne = 16
	}
	for i := 0; i < ne; i++ {
		sc, tags := genExit(erng.Fork(), i)
		ins = append(ins, Input{Script: &sc, Tags: tags})
	}
	// CancelJobs(prefix) at every position relative to the instances of a periodic job (and of a one-off job),
	// other jobs of the same scheduler with and without the prefix: on top again, from its own stream
	prng := rng.Fork()
	np := n / 6
	if n > 0 && np < 20 {
		np = 20
	}
	for i := 0; i < np; i++ {
		sc, tags := genPrefix(prng.Fork(), i)
		ins = append(ins, Input{Script: &sc, Tags: tags})
	}
	// sequential histories with CancelJobs on prefixes that some names have and others do not
	trng := rng.Fork()
	for i := 0; i < np/5; i++ {
		ins = append(ins, Input{Table: genPrefixTable(trng.Fork()), Tags: []string{"table", "table:prefixes"}})
	}
	// periodic jobs whose instances are already due when runtimeFunc hands them out ("now", a fixed-rate schedule
	// overrun by its job, a catch-up), cancelled during such a stretch: on top again, from its own stream; four of
	// them also in real time
	hrng := rng.Fork()
	nh := n / 10
	if n > 0 && nh < 20 {
		nh = 20
	}
	for i := 0; i < nh; i++ {
		sc, tags := genBehind(hrng.Fork(), i)
		ins = append(ins, Input{Script: &sc, Tags: tags})
	}
	if nr > 0 {
		for i := 0; i < 4; i++ {
			sc, tags := genRealBehind(hrng.Fork(), i)
			ins = append(ins, Input{Script: &sc, Tags: tags})
		}
	}
	// tied scripts against the copy of service.go with yield points (yield_test.go): on top again, own stream
	yrng := rng.Fork()
	ny := n / 8
	if n > 0 && ny < 16 {
		ny = 16
	}
	if os.Getenv("VERIF_C02_NOYIELD") != "" {
		ny = 0
	}
	for i := 0; i < ny; i++ {
		sc, tags := genYield(yrng.Fork(), i)
		ins = append(ins, Input{Script: &sc, Tags: tags})
	}
	// decide repetitions and tags
	work := make([]Work, 0, len(ins))
	for _, in := range ins {
		if in.Burst != nil {
			b := normaliseBurst(*in.Burst)
			in.Burst = &b
			reps := b.Reps
			if reps <= 0 {
				reps = burstReps
			}
			work = append(work, Work{In: in, Reps: reps, Tags: append(append([]string(nil), in.Tags...), "burst")})
			continue
		}
		if in.Script == nil {
			work = append(work, Work{In: in, Reps: 1, Tags: in.Tags})
			continue
		}
		sc := normalise(*in.Script)
		in.Script = &sc
		tags := append([]string(nil), in.Tags...)
		reps := sc.Reps
		if sc.Real {
			// outside bubbles: three serial repetitions, a disagreement counts when all three show it
			work = append(work, Work{In: in, Reps: 3, Tags: append(tags, "real-time")})
			continue
		}
		if tied(sc) {
			tags = append(tags, "tied")
			if reps <= 0 {
				reps = tieReps
			}
		} else {
			tags = append(tags, "tie-free")
			if reps <= 0 {
				reps = freeReps
			}
		}
		if hangProne(sc) {
			tags = append(tags, "periodic:hang-prone")
		}
		work = append(work, Work{In: in, Reps: reps, Tags: tags})
	}
	// run them in a child process, restarted after the input on which it dies; the real-time scripts in a
	// process of their own whose timer channels are those of the repository's go directive (1.22: buffered)
	dir, err := os.MkdirTemp("", "c02")
	if err != nil {
		t.Fatal(err)
	}
	defer os.RemoveAll(dir)
	var bubbleWork, realWork, yieldWork []Work
	var bubbleIdx, realIdx, yieldIdx []int
	for i, w := range work {
		if w.In.Script != nil && w.In.Script.Yield && !w.In.Script.Real {
			yieldWork, yieldIdx = append(yieldWork, w), append(yieldIdx, i)
		} else if w.In.Script != nil && w.In.Script.Real {
			realWork, realIdx = append(realWork, w), append(realIdx, i)
		} else {
			bubbleWork, bubbleIdx = append(bubbleWork, w), append(bubbleIdx, i)
		}
	}
	crashes := 0
	results := make([]Result, len(work))
	// the instrumented copy is built while the other scripts run
	type ybuilt struct {
		bin, reason string
		points      int
	}
	ych := make(chan ybuilt, 1)
	if len(yieldWork) > 0 {
		go func() {
			b, p, why := buildYield(dir)
			ych <- ybuilt{b, why, p}
		}()
	}
	for k, r := range runChildren(t, dir, "bubble", bubbleWork, nil, &crashes) {
		results[bubbleIdx[k]] = r
	}
	if len(yieldWork) > 0 {
		yb := <-ych
		col.Note(yieldNote(len(yieldWork), yb.points, yb.reason))
		if yb.bin == "" {
			col.Count("yield-points:family-left-out")
			for _, i := range yieldIdx {
				results[i] = Result{Index: i, Skipped: true, Crashed: "left-out"}
			}
		} else {
			ycrashes := 0
			for k, r := range runChildrenOf(t, yb.bin, dir, "yield", yieldWork, []string{"VERIF_C02_YIELD=1"}, &ycrashes) {
				results[yieldIdx[k]] = r
			}
			crashes += ycrashes
		}
	}
	godebug := "asynctimerchan=1"
	if g := os.Getenv("GODEBUG"); g != "" {
		godebug = g + "," + godebug
	}
	asyncOK := true
	for k, r := range runChildren(t, dir, "real", realWork, []string{"GODEBUG=" + godebug, "VERIF_C02_REAL=batch"}, &crashes) {
		results[realIdx[k]] = r
		if r.Crashed == "" && !r.AsyncTimer {
			asyncOK = false
		}
	}
	if len(realWork) > 0 {
		col.Note(fmt.Sprintf("real-time scripts: %d, each repeated serially; run with GODEBUG=asynctimerchan=1; buffered timer channels in effect: %v", len(realWork), asyncOK))
		if !asyncOK {
			col.Count("real:buffered-timer-channels-NOT-in-effect")
		}
	}
	// the statement order of the three lock-protected sections, from the source
	sk, skErr := skeletons()
	for _, fn := range []string{"runJob", "CancelJob", "finaliseJob"} {
		toks := sk[fn]
		if skErr != "" {
			toks = []string{"error: " + skErr}
		}
		items := make([]string, 0, len(toks))
		for _, tk := range toks {
			items = append(items, Str(tk))
		}
		id := col.NextID()
		col.Add(Case{Term: Record("c_id", N(id), "c_body", App("Skeleton", Str(fn), List(items))), Key: "skeleton:" + fn,
			Nontrivial: false, Tags: []string{"skeleton"}, Sample: map[string]any{"input": Input{Tags: []string{"skeleton:" + fn}}, "observed": toks}})
	}
	bubbles, hungObs := 0, 0
	for i, w := range work {
		res := results[i]
		if res.Skipped {
			if w.In.Script != nil && w.In.Script.Yield && res.Crashed == "left-out" {
				col.Count("yield-points:script-left-out")
			} else {
				col.Count("input-not-run-after-too-many-process-deaths")
			}
			continue
		}
		id := col.NextID()
		bubbles += res.Bubbles
		hungObs += res.Hung
		in := w.In
		if in.Burst != nil {
			b := *in.Burst
			observed := res.BObserved
			if res.Crashed != "" {
				o := emptyBObs(b)
				o.Panic, o.Hung, o.Count = true, true, 1
				observed = []BObs{o}
				col.Note(fmt.Sprintf("case %d: the process died (%s)", id, res.Crashed))
				col.Count("process-died")
			}
			terms := make([]string, 0, len(observed))
			for _, o := range observed {
				terms = append(terms, bobsTerm(o))
			}
			col.Count("burst")
			col.Count(fmt.Sprintf("burst-lanes:%d", len(b.Lanes)))
			col.Count(fmt.Sprintf("burst-distinct-outcomes:%d", len(observed)))
			col.Count("burst-follow:" + b.Follow)
			scheds := 0
			for _, l := range b.Lanes {
				for _, op := range l {
					col.Count("burst-op:" + op)
					if op == "sched" {
						scheds++
					}
				}
			}
			term := Record("c_id", N(id), "c_body", App("Burst", burstTerm(b), List(terms)))
			if b.Callers != "" {
				col.Count("burst-callers:" + b.Callers)
			}
			col.Add(Case{Term: term, Key: "burst:" + b.Callers + burstTerm(b), Nontrivial: len(b.Lanes) >= 2 && scheds >= 1, Tags: w.Tags,
				Sample: map[string]any{"input": in, "observed": observed, "process_died": res.Crashed}})
			continue
		}
		if in.Script == nil {
			outs, runs := res.TableOuts, res.TableRuns
			if res.Crashed != "" {
				col.Note(fmt.Sprintf("case %d: the process died (%s)", id, res.Crashed))
				col.Count("process-died")
			}
			for _, op := range in.Table {
				col.Count("table-op:" + op.Op)
			}
			mk := Record("mk_inline_outs", List(res.Mock.InlineOuts), "mk_inline_runs", List(res.Mock.InlineRuns),
				"mk_rec_outs", List(res.Mock.RecOuts), "mk_rec_runs", List(res.Mock.RecRuns))
			term := Record("c_id", N(id), "c_body", App("Tabled", tableTerm(in.Table), List(outs), List(runs), mk))
			tkey := tableTerm(in.Table)
			for _, op := range in.Table {
				if op.Cctx != "" {
					col.Count("table-caller-ctx:" + op.Cctx)
				}
				if op.Op == "cancelpre" {
					col.Count("table-prefix:" + op.Prefix)
					tkey += fmt.Sprintf(" prefix/%q", op.Prefix)
				}
				if op.Cctx != "" || op.Op == "fire" {
					tkey += fmt.Sprintf(" %s/%s", op.Op, op.Cctx) // the caller's context and Fire are not part of the Coq term
				}
			}
			col.Add(Case{Term: term, Key: tkey, Nontrivial: res.TableNT, Tags: w.Tags,
				Sample: map[string]any{"input": in, "observed": map[string]any{"outs": outs, "runs": runs, "mock": res.Mock, "process_died": res.Crashed}}})
			continue
		}
		sc := *in.Script
		observed := res.Observed
		if sc.Real && res.Crashed == "" {
			if res.Noisy > 0 {
				col.Count(fmt.Sprintf("real-time-repetitions-discarded-machine-late:%d", res.Noisy))
			}
			if len(observed) == 0 {
				// no repetition ran on a quiet machine: nothing was observed, nothing is claimed
				col.Count("real-time-script-skipped-machine-late")
				col.Note(fmt.Sprintf("real-time script skipped (every repetition was disturbed by machine load): %s", scriptTerm(sc)))
				continue
			}
			if len(observed) > 1 {
				col.Count("real-time-repetitions-differ")
				col.Note(fmt.Sprintf("case %d: the serial repetitions of a real-time script differ (%d distinct outcomes); it counts only if none is acceptable", id, len(observed)))
			}
		}
		if res.Crashed != "" {
			// the scheduler panicked in one of its own goroutines: reported as a panic outcome
			calls := make([]string, len(expand(sc.Calls)))
			for k := range calls {
				calls[k] = "Hung"
			}
			observed = []Obs{{Calls: calls, Starts: []int{}, Insts: []int{}, Reuse: "Ret Nil", Panic: true, Hung: true, Dup: "None", Count: 1}}
			col.Note(fmt.Sprintf("case %d: the process died (%s)", id, res.Crashed))
			col.Count("process-died")
		}
		obsTerms := make([]string, 0, len(observed))
		for _, o := range observed {
			obsTerms = append(obsTerms, obsTerm(o))
		}
		col.Count("script:" + sc.Kind)
		col.Count(fmt.Sprintf("distinct-outcomes:%d", len(observed)))
		col.Count(fmt.Sprintf("calls:%d", len(sc.Calls)))
		for _, c := range sc.Calls {
			col.Count("call:" + c.Kind)
			switch d := c.At - sc.Due; {
			case sc.Kind == "oneoff" && d == 0:
				col.Count("oneoff-call-offset:0")
			case sc.Kind == "oneoff" && d == -1:
				col.Count("oneoff-call-offset:-1")
			case sc.Kind == "oneoff" && d == 1:
				col.Count("oneoff-call-offset:+1")
			}
		}
		nt := len(sc.Calls) > 0 || sc.Due <= sc.End
		ctor, key := "Timed", scriptTerm(sc)
		if sc.Real {
			ctor, key = "Real", fmt.Sprintf("real/%d:%s", sc.Unit, key)
			col.Count("real-time-script:" + sc.Kind)
			col.Count(fmt.Sprintf("real-time-distinct-outcomes:%d", len(observed)))
		}
		if sc.Sibs > 0 || sc.Prefix != "" {
			col.Count(fmt.Sprintf("other-jobs-with-the-prefix:%d", sc.Sibs))
			key += fmt.Sprintf(" sibs%d/%q", sc.Sibs, sc.Prefix) // the other jobs and the prefix are not part of the Coq script
		}
		for _, c := range sc.Calls {
			if c.Kind == "cancelall" {
				key += fmt.Sprintf(" %d/byprefix", c.At)
			}
		}
		if sc.Kind == "periodic" && (sc.Due == 0 || sc.Fixed) {
			col.Count("periodic:instances-not-in-the-future")
			if sc.Lag > 0 {
				key += fmt.Sprintf(" lag%d", sc.Lag) // how far in the past the times lie is not part of the Coq term (due at once)
			}
		}
		if sc.Yield {
			col.Count("yield-points:script")
			key += " yield" // run against the copy with yield points: for the model the same script
		}
		if sc.RtErr {
			col.Count("periodic:runtimeFunc-error-exit")
			key += " rterr" // how runtimeFunc ends the job is not part of the Coq term (same exit in the model)
		}
		for _, c := range sc.Calls {
			if c.Cctx != "" {
				col.Count("caller-ctx:" + c.Cctx + ":" + c.Kind)
				key += fmt.Sprintf(" %d/%s", c.At, c.Cctx) // the callers' contexts are not part of the Coq term
			}
		}
		for _, o := range observed {
			if len(o.Foreign) > 0 {
				col.Count("call-returned-foreign-error")
				col.Note(fmt.Sprintf("case %d: a call returned an error outside the scheduler's set: %s", id, o.Foreign[0]))
				break
			}
		}
		term := Record("c_id", N(id), "c_body", App(ctor, scriptTerm(sc), List(obsTerms)))
		col.Add(Case{Term: term, Key: key, Nontrivial: nt, Tags: w.Tags,
			Sample: map[string]any{"input": in, "observed": observed, "process_died": res.Crashed}})
	}
	col.Note(fmt.Sprintf("bubbles run: %d (tied scripts repeated %d times, tie-free %d times); observations that never came to rest: %d; inputs on which the process died: %d",
		bubbles, tieReps, freeReps, hungObs, crashes))
	if err := col.Flush(); err != nil {
		t.Fatal(err)
	}
}
