// C02: drives the real services/scheduler/advanced.Service (public constructor, no hook) through
// timed scripts inside testing/synctest bubbles and through sequential histories over several job
// names, and prints what it did as Gallina cases for Check.C02.
//
// A timed script is one job (one-off at T, or periodic with a period and a number of instances),
// a duration of jobFunc, and calls (RunJob, RunJobIfExists, CancelJob, CancelJobIfExists, cancel of
// the parent context, a second ScheduleJob of the same name, JobExists) issued from their own
// goroutines at given milliseconds of fake time.  Events at distinct instants are totally ordered
// by the bubble; events at the SAME instant sample Go's select / scheduler nondeterminism, so a
// script with ties is repeated and every distinct observed outcome is reported with its count; the
// Coq side checks that each is in the model's outcome set and satisfies the property.
package c02

import (
	"context"
	"errors"
	"fmt"
	"os"
	"sort"
	"strings"
	"sync"
	"sync/atomic"
	"testing"
	"testing/synctest"
	"time"

	nullmetrics "github.com/attestantio/vouch/services/metrics/null"
	"github.com/attestantio/vouch/services/scheduler"
	advanced "github.com/attestantio/vouch/services/scheduler/advanced"
	"github.com/rs/zerolog"
	"github.com/sasha-s/go-deadlock"

	. "verifharness/common"
)

// ---------------------------------------------------------------------------------------------
// inputs

type Call struct {
	At   int    `json:"at"`
	Kind string `json:"kind"` // run | runif | cancel | cancelif | ctx | dup | exists
}

type Script struct {
	Kind  string `json:"kind"` // oneoff | periodic
	Due   int    `json:"due"`  // one-off: T; periodic: the period (runtimeFunc returns now+period)
	Dur   int    `json:"dur"`  // how long jobFunc takes
	Ticks int    `json:"ticks,omitempty"`
	Calls []Call `json:"calls"`
	End   int    `json:"end"`
	Reps  int    `json:"reps,omitempty"` // 0 = decided by the harness (ties: many, tie-free: few)
}

type TOp struct {
	Op       string `json:"op"` // sched | run | cancel | exists | list
	Name     int    `json:"name,omitempty"`
	Periodic bool   `json:"periodic,omitempty"`
}

type Input struct {
	Script *Script  `json:"script,omitempty"`
	Table  []TOp    `json:"table,omitempty"`
	Tags   []string `json:"tags,omitempty"`
}

// ---------------------------------------------------------------------------------------------
// one observation of a timed script

type Obs struct {
	Calls     []string `json:"calls"`
	Starts    []int    `json:"starts"`
	Overlap   int      `json:"overlap"`
	Exists    bool     `json:"exists"`
	Listed    bool     `json:"listed"`
	Reuse     string   `json:"reuse"`
	ReuseRuns int      `json:"reuse_runs"`
	Panic     bool     `json:"panic"`
	Hung      bool     `json:"hung"`
	Count     int      `json:"count"`
}

const jobName = "job"

func codeOf(err error) string {
	switch {
	case err == nil:
		return "Ret Nil"
	case errors.Is(err, scheduler.ErrNoSuchJob):
		return "Ret ErrNoSuchJob"
	case errors.Is(err, scheduler.ErrJobRunning):
		return "Ret ErrJobRunning"
	case errors.Is(err, scheduler.ErrJobFinalised):
		return "Ret ErrJobFinalised"
	case errors.Is(err, scheduler.ErrJobAlreadyExists):
		return "Ret ErrJobAlreadyExists"
	}
	return "Hung" // an error outside the scheduler's enum: never predicted by the model
}

type shared struct {
	mu        sync.Mutex
	calls     []string
	starts    []int
	inflight  int
	overlap   int
	exists    bool
	listed    bool
	reuse     string
	reuseRuns int
	panicked  bool
	finished  bool
	svc       *advanced.Service
	progress  atomic.Int64
}

func (s *shared) tick() { s.progress.Add(1) }

func listed(svc *advanced.Service, name string) bool {
	for _, n := range svc.ListJobs(context.Background()) {
		if n == name {
			return true
		}
	}
	return false
}

// body runs inside the bubble.
func body(sc Script, st *shared) {
	defer func() {
		if r := recover(); r != nil {
			st.mu.Lock()
			st.panicked = true
			st.mu.Unlock()
		}
	}()
	t0 := time.Now()
	now := func() int { return int(time.Since(t0) / time.Millisecond) }
	ms := func(n int) time.Duration { return time.Duration(n) * time.Millisecond }
	svc, err := advanced.New(context.Background(), advanced.WithLogLevel(zerolog.Disabled), advanced.WithMonitor(nullmetrics.New()))
	if err != nil {
		panic(err)
	}
	st.svc = svc
	rootCtx, rootCancel := context.WithCancel(context.Background())
	defer rootCancel()
	jobCtx, jobCancel := context.WithCancel(rootCtx)
	defer jobCancel()
	jobFunc := func(context.Context) {
		st.mu.Lock()
		st.starts = append(st.starts, now())
		st.inflight++
		if st.inflight > st.overlap {
			st.overlap = st.inflight
		}
		st.mu.Unlock()
		st.tick()
		if sc.Dur > 0 {
			time.Sleep(ms(sc.Dur))
		}
		st.mu.Lock()
		st.inflight--
		st.mu.Unlock()
		st.tick()
	}
	if sc.Kind == "periodic" {
		left := sc.Ticks
		runtimeFunc := func(context.Context) (time.Time, error) {
			st.tick()
			if left <= 0 {
				return time.Time{}, scheduler.ErrNoMoreInstances
			}
			left--
			return time.Now().Add(ms(sc.Due)), nil
		}
		err = svc.SchedulePeriodicJob(jobCtx, "c02", jobName, runtimeFunc, jobFunc)
	} else {
		err = svc.ScheduleJob(jobCtx, "c02", jobName, t0.Add(ms(sc.Due)), jobFunc)
	}
	if err != nil {
		panic(err)
	}
	dupCtx, dupCancel := context.WithCancel(rootCtx)
	defer dupCancel()
	for i, c := range sc.Calls {
		go func() {
			time.Sleep(ms(c.At))
			st.tick()
			var res string
			switch c.Kind {
			case "run":
				res = codeOf(svc.RunJob(rootCtx, jobName))
			case "runif":
				svc.RunJobIfExists(rootCtx, jobName)
				res = "Silent"
			case "cancel":
				res = codeOf(svc.CancelJob(rootCtx, jobName))
			case "cancelif":
				svc.CancelJobIfExists(rootCtx, jobName)
				res = "Silent"
			case "ctx":
				jobCancel()
				res = "Ret Nil"
			case "dup":
				// far in the future, own context, own function: never runs; removed after the script
				res = codeOf(svc.ScheduleJob(dupCtx, "c02", jobName, t0.Add(time.Hour), func(context.Context) {}))
			case "exists":
				res = fmt.Sprintf("RetB %v", svc.JobExists(rootCtx, jobName))
			default:
				res = "Hung"
			}
			st.mu.Lock()
			st.calls[i] = res
			st.mu.Unlock()
			st.tick()
		}()
	}
	time.Sleep(ms(sc.End))
	synctest.Wait()
	st.tick()
	// a re-scheduling call that was accepted: remove that job again (its own context)
	dupCancel()
	synctest.Wait()
	st.tick()
	// observations after the script; the original job is left alone
	exists := svc.JobExists(rootCtx, jobName)
	isListed := listed(svc, jobName)
	st.mu.Lock()
	nstarts := len(st.starts)
	st.mu.Unlock()
	var reuseRuns atomic.Int64
	reuseCtx, reuseCancel := context.WithCancel(rootCtx)
	defer reuseCancel()
	rerr := svc.ScheduleJob(reuseCtx, "c02", jobName, time.Now().Add(ms(1)), func(context.Context) { reuseRuns.Add(1) })
	// left alone until after its time; the original job may go on (a periodic job, a long jobFunc)
	time.Sleep(ms(3))
	synctest.Wait()
	st.mu.Lock()
	st.starts = st.starts[:nstarts] // what the original job did after the observation instant is not part of it
	st.exists, st.listed, st.reuse, st.reuseRuns = exists, isListed, codeOf(rerr), int(reuseRuns.Load())
	st.finished = true
	st.mu.Unlock()
	st.tick()
	// let everything go: remaining jobs leave through their ctx branch
	rootCancel()
}

var watchdogStep = 250 * time.Millisecond

// runOnce runs one repetition of a script in its own bubble, under a real-time watchdog: a bubble
// whose goroutines block on a sync.Mutex never comes to rest and synctest.Test never returns.
func runOnce(t *testing.T, sc Script) Obs {
	st := &shared{calls: make([]string, len(sc.Calls))}
	for i := range st.calls {
		st.calls[i] = "Hung"
	}
	done := make(chan struct{})
	go func() {
		defer close(done)
		defer func() {
			// "deadlock: main bubble goroutine has exited but blocked goroutines remain": the calls
			// that never returned are already recorded as such
			if r := recover(); r != nil {
				st.mu.Lock()
				if !st.finished {
					st.panicked = true
				}
				st.mu.Unlock()
			}
		}()
		synctest.Test(t, func(*testing.T) { body(sc, st) })
	}()
	hung := false
	last, idle := int64(-1), 0
wait:
	for {
		select {
		case <-done:
			break wait
		case <-time.After(watchdogStep):
			p := st.progress.Load()
			if p == last {
				idle++
			} else {
				last, idle = p, 0
			}
			if idle >= 8 { // 2 s of real time without any event of the script
				hung = true
				break wait
			}
		}
	}
	st.mu.Lock()
	defer st.mu.Unlock()
	o := Obs{Calls: append([]string(nil), st.calls...), Starts: append([]int{}, st.starts...), Overlap: st.overlap,
		Exists: st.exists, Listed: st.listed, Reuse: st.reuse, ReuseRuns: st.reuseRuns, Panic: st.panicked}
	if hung || !st.finished {
		o.Hung = true
		o.Reuse, o.ReuseRuns = "Ret Nil", 0
		if st.svc != nil {
			// the table can still be read from outside the bubble (jobsMutex only)
			res := make(chan [2]bool, 1)
			go func() { res <- [2]bool{st.svc.JobExists(context.Background(), jobName), listed(st.svc, jobName)} }()
			select {
			case r := <-res:
				o.Exists, o.Listed = r[0], r[1]
			case <-time.After(2 * time.Second):
			}
		}
	}
	return o
}

// ---------------------------------------------------------------------------------------------
// Gallina terms

func kindTerm(k string) string {
	switch k {
	case "run", "runif":
		return "KRun"
	case "cancel", "cancelif":
		return "KCancel"
	case "ctx":
		return "KCtx"
	case "dup":
		return "KDup"
	}
	return "KExists"
}

func scriptTerm(sc Script) string {
	calls := make([]string, 0, len(sc.Calls))
	for _, c := range sc.Calls {
		calls = append(calls, Record("cl_at", N(uint64(c.At)), "cl_kind", kindTerm(c.Kind)))
	}
	kind := "OneOff"
	if sc.Kind == "periodic" {
		kind = "Periodic"
	}
	return Record("sc_kind", kind, "sc_variant", "Fixed", "sc_due", N(uint64(sc.Due)), "sc_dur", N(uint64(sc.Dur)),
		"sc_ticks", N(uint64(sc.Ticks)), "sc_calls", List(calls), "sc_end", N(uint64(sc.End)))
}

func obsKey(o Obs) string {
	calls := make([]string, 0, len(o.Calls))
	for _, c := range o.Calls {
		if strings.Contains(c, " ") {
			c = "(" + c + ")"
		}
		calls = append(calls, c)
	}
	starts := make([]string, 0, len(o.Starts))
	for _, s := range o.Starts {
		starts = append(starts, N(uint64(s)))
	}
	reuse := strings.TrimPrefix(o.Reuse, "Ret ")
	if reuse == "Hung" {
		reuse = "ErrJobFinalised" // never a result of ScheduleJob: mismatches
	}
	out := Record("o_calls", List(calls), "o_starts", List(starts), "o_overlap", N(uint64(o.Overlap)),
		"o_exists", Bool(o.Exists), "o_reuse", reuse, "o_reuse_runs", N(uint64(o.ReuseRuns)), "o_panic", Bool(o.Panic))
	return "ob_out := " + out + "; ob_listed := " + Bool(o.Listed) + "; ob_hung := " + Bool(o.Hung)
}

func obsTerm(o Obs) string {
	return "{| " + obsKey(o) + "; ob_count := " + N(uint64(o.Count)) + " |}"
}

// ---------------------------------------------------------------------------------------------
// well-formedness of a script (applied to generated, corpus and replay inputs alike)

func removes(k string) bool {
	return k == "run" || k == "runif" || k == "cancel" || k == "cancelif" || k == "ctx"
}

// firstClaim: before this instant the job is certainly in the table.
func firstClaim(sc Script) int {
	m := sc.Due
	if sc.Kind == "periodic" && sc.Ticks == 0 {
		m = 0
	}
	for _, c := range sc.Calls {
		if removes(c.Kind) && c.At < m {
			m = c.At
		}
	}
	return m
}

// normalise: (1) the script lasts until every call has been issued and a jobFunc started by it
// has returned; (2) a second ScheduleJob of the name that may be ACCEPTED creates a job the model
// does not follow, so no call that looks at the table may come at or after it (such a
// re-scheduling call is dropped).  Re-scheduling while the name is certainly taken is kept.
func normalise(sc Script) Script {
	if sc.Due < 0 {
		sc.Due = 0
	}
	fc := firstClaim(sc)
	var calls []Call
	for i, c := range sc.Calls {
		if c.At < 0 {
			c.At = 0
		}
		if c.Kind == "dup" && c.At >= fc {
			clash := false
			for j, d := range sc.Calls {
				if j != i && d.At >= c.At && d.Kind != "ctx" {
					clash = true
				}
			}
			if clash {
				continue
			}
		}
		calls = append(calls, c)
	}
	sc.Calls = calls
	end := 0
	if sc.Kind != "periodic" {
		end = sc.Due
	}
	for _, c := range sc.Calls {
		if c.At > end {
			end = c.At
		}
	}
	end += sc.Dur + 2
	if sc.End < end {
		sc.End = end
	}
	if sc.Kind != "periodic" {
		sc.Ticks = 0
	}
	return sc
}

// tied: two events of the script can fall on the same instant.
func tied(sc Script) bool {
	if sc.Kind == "periodic" {
		return len(sc.Calls) > 0
	}
	seen := map[int]bool{}
	times := []int{sc.Due}
	for _, c := range sc.Calls {
		times = append(times, c.At)
	}
	for _, x := range times {
		if seen[x] {
			return true
		}
		seen[x] = true
	}
	if sc.Dur > 0 {
		for _, x := range times {
			if seen[x+sc.Dur] {
				return true
			}
		}
	}
	return false
}

// ---------------------------------------------------------------------------------------------
// generators

var callKinds = []string{"run", "run", "run", "run", "cancel", "cancel", "ctx", "ctx", "runif", "cancelif", "exists", "dup"}

func genOneOff(r *Rand) (Script, []string) {
	T := r.Range(2, 6)
	sc := Script{Kind: "oneoff", Due: T, Dur: []int{0, 0, 2, 1, 3}[r.Intn(5)]}
	off := func() int { return T + r.Range(-1, 1) }
	var tags []string
	switch fam := r.Intn(12); fam {
	case 0:
		tags = append(tags, "oneoff:timer-alone")
	case 1: // k run requests around T
		k := r.Range(1, 3)
		for i := 0; i < k; i++ {
			sc.Calls = append(sc.Calls, Call{At: off(), Kind: "run"})
		}
		tags = append(tags, fmt.Sprintf("oneoff:run-x%d-around-T", k))
	case 2: // k run requests exactly at T
		k := r.Range(1, 3)
		for i := 0; i < k; i++ {
			sc.Calls = append(sc.Calls, Call{At: T, Kind: "run"})
		}
		tags = append(tags, fmt.Sprintf("oneoff:run-x%d-at-T", k))
	case 3:
		sc.Calls = append(sc.Calls, Call{At: off(), Kind: "cancel"})
		tags = append(tags, "oneoff:cancel-around-T")
	case 4:
		sc.Calls = append(sc.Calls, Call{At: off(), Kind: "ctx"})
		tags = append(tags, "oneoff:ctx-around-T")
	case 5:
		sc.Calls = append(sc.Calls, Call{At: off(), Kind: "run"}, Call{At: off(), Kind: "cancel"})
		tags = append(tags, "oneoff:run+cancel-around-T")
	case 6:
		sc.Calls = append(sc.Calls, Call{At: off(), Kind: "run"}, Call{At: off(), Kind: "ctx"})
		tags = append(tags, "oneoff:run+ctx-around-T")
	case 7:
		sc.Calls = append(sc.Calls, Call{At: off(), Kind: "cancel"}, Call{At: off(), Kind: "ctx"})
		tags = append(tags, "oneoff:cancel+ctx-around-T")
	case 8: // around each other, away from T
		sc.Due = r.Range(7, 9)
		a := r.Range(2, 4)
		kinds := []string{"run", "cancel", "ctx", "run"}
		n := r.Range(2, 3)
		for i := 0; i < n; i++ {
			sc.Calls = append(sc.Calls, Call{At: a + r.Range(-1, 1), Kind: kinds[r.Intn(len(kinds))]})
		}
		tags = append(tags, "oneoff:calls-around-each-other")
	case 9: // tied with the end of jobFunc
		if sc.Dur == 0 {
			sc.Dur = 2
		}
		sc.Calls = append(sc.Calls, Call{At: T + sc.Dur + r.Range(-1, 1), Kind: []string{"run", "cancel", "exists", "dup"}[r.Intn(4)]})
		if r.Bool() {
			sc.Calls = append(sc.Calls, Call{At: T - 1, Kind: "run"})
		}
		tags = append(tags, "oneoff:call-at-job-end")
	case 10: // observers: early and late
		sc.Calls = append(sc.Calls, Call{At: r.Range(0, 1), Kind: []string{"exists", "dup"}[r.Intn(2)]})
		sc.Calls = append(sc.Calls, Call{At: off(), Kind: []string{"run", "cancel", "ctx", "runif", "cancelif"}[r.Intn(5)]})
		sc.Calls = append(sc.Calls, Call{At: T + r.Range(0, 3), Kind: []string{"exists", "dup", "run", "cancel"}[r.Intn(4)]})
		tags = append(tags, "oneoff:observers")
	default: // free mix
		n := r.Range(1, 4)
		pts := []int{T - 1, T, T, T + 1, T + sc.Dur, 1, T - 2}
		for i := 0; i < n; i++ {
			sc.Calls = append(sc.Calls, Call{At: pts[r.Intn(len(pts))], Kind: callKinds[r.Intn(len(callKinds))]})
		}
		tags = append(tags, "oneoff:mix")
	}
	return sc, tags
}

func genPeriodic(r *Rand) (Script, []string) {
	P := r.Range(2, 4)
	sc := Script{Kind: "periodic", Due: P, Dur: []int{0, 1, 2, 0}[r.Intn(4)], Ticks: r.Range(1, 4)}
	var tags []string
	life := sc.Ticks * (P + sc.Dur)
	switch fam := r.Intn(8); fam {
	case 0:
		tags = append(tags, "periodic:alone")
	case 1: // an early run, then the remaining instances
		sc.Ticks = r.Range(3, 4)
		sc.Calls = append(sc.Calls, Call{At: r.Range(1, P-1), Kind: "run"})
		tags = append(tags, "periodic:early-run-then-ticks")
	case 2: // a run request on an instance's time
		sc.Ticks = r.Range(2, 4)
		sc.Calls = append(sc.Calls, Call{At: P + r.Range(-1, 1), Kind: "run"})
		tags = append(tags, "periodic:run-around-tick")
	case 3: // several run requests at one instant
		k := r.Range(2, 3)
		at := r.Range(1, P+1)
		for i := 0; i < k; i++ {
			sc.Calls = append(sc.Calls, Call{At: at, Kind: "run"})
		}
		tags = append(tags, fmt.Sprintf("periodic:run-x%d-same-instant", k))
	case 4: // run during jobFunc
		if sc.Dur == 0 {
			sc.Dur = 2
		}
		sc.Calls = append(sc.Calls, Call{At: P + r.Range(0, sc.Dur), Kind: "run"})
		tags = append(tags, "periodic:run-during-job")
	case 5:
		sc.Calls = append(sc.Calls, Call{At: r.Range(1, life+1), Kind: "cancel"})
		if r.Bool() {
			sc.Calls = append(sc.Calls, Call{At: r.Range(1, life+1), Kind: "run"})
		}
		tags = append(tags, "periodic:cancel")
	case 6:
		sc.Calls = append(sc.Calls, Call{At: r.Range(1, life+1), Kind: "ctx"})
		if r.Bool() {
			sc.Calls = append(sc.Calls, Call{At: r.Range(1, life+1), Kind: "run"})
		}
		tags = append(tags, "periodic:ctx")
	default:
		n := r.Range(1, 3)
		for i := 0; i < n; i++ {
			sc.Calls = append(sc.Calls, Call{At: r.Range(0, life+1), Kind: callKinds[r.Intn(len(callKinds))]})
		}
		tags = append(tags, "periodic:mix")
	}
	sc.End = sc.Ticks*(P+sc.Dur) + sc.Dur + 2
	return sc, tags
}

// hangProne: a periodic job with two run requests at one instant can leave the second one blocked
// on the full runCh holding the job's state lock while the goroutine waits for that lock in
// finaliseJob (reported observation outside the property, C02_obs_periodic_runjob_can_block); a
// bubble in that state never comes to rest and costs 2 s of real time.
func hangProne(sc Script) bool {
	if sc.Kind != "periodic" {
		return false
	}
	runs := map[int]int{}
	for _, c := range sc.Calls {
		if c.Kind == "run" || c.Kind == "runif" {
			runs[c.At]++
		}
	}
	for _, n := range runs {
		if n >= 2 {
			return true
		}
	}
	return false
}

func genTable(r *Rand) []TOp {
	n := r.Range(6, 30)
	names := r.Range(1, 4)
	ops := make([]TOp, 0, n)
	for i := 0; i < n; i++ {
		name := r.Range(1, names)
		switch k := r.Intn(12); {
		case k < 4:
			ops = append(ops, TOp{Op: "sched", Name: name, Periodic: r.Chance(1, 3)})
		case k < 7:
			ops = append(ops, TOp{Op: "run", Name: name})
		case k < 9:
			ops = append(ops, TOp{Op: "cancel", Name: name})
		case k < 11:
			ops = append(ops, TOp{Op: "exists", Name: name})
		default:
			ops = append(ops, TOp{Op: "list"})
		}
	}
	return ops
}

// ---------------------------------------------------------------------------------------------
// sequential histories over several names

func runTable(t *testing.T, ops []TOp) (outs []string, runs []string, nontrivial bool) {
	var counts []*atomic.Int64
	dupSeen, runSeen, reuseSeen := false, false, false
	synctest.Test(t, func(*testing.T) {
		svc, err := advanced.New(context.Background(), advanced.WithLogLevel(zerolog.Disabled), advanced.WithMonitor(nullmetrics.New()))
		if err != nil {
			panic(err)
		}
		ctx, cancel := context.WithCancel(context.Background())
		defer cancel()
		used := map[int]bool{}
		nm := func(i int) string { return fmt.Sprintf("n%d", i) }
		for _, op := range ops {
			switch op.Op {
			case "sched":
				c := &atomic.Int64{}
				f := func(context.Context) { c.Add(1) }
				var err error
				if op.Periodic {
					err = svc.SchedulePeriodicJob(ctx, "c02", nm(op.Name), func(context.Context) (time.Time, error) { return time.Now().Add(time.Hour), nil }, f)
				} else {
					err = svc.ScheduleJob(ctx, "c02", nm(op.Name), time.Now().Add(time.Hour), f)
				}
				if err == nil {
					counts = append(counts, c)
					if used[op.Name] {
						reuseSeen = true
					}
					used[op.Name] = true
				} else {
					dupSeen = true
				}
				outs = append(outs, App("TCode", strings.TrimPrefix(codeOf(err), "Ret ")))
			case "run":
				err := svc.RunJob(ctx, nm(op.Name))
				if err == nil {
					runSeen = true
				}
				outs = append(outs, App("TCode", strings.TrimPrefix(codeOf(err), "Ret ")))
			case "cancel":
				outs = append(outs, App("TCode", strings.TrimPrefix(codeOf(svc.CancelJob(ctx, nm(op.Name))), "Ret ")))
			case "exists":
				outs = append(outs, App("TBool", Bool(svc.JobExists(ctx, nm(op.Name)))))
			case "list":
				var ids []int
				for _, s := range svc.ListJobs(ctx) {
					var i int
					fmt.Sscanf(s, "n%d", &i)
					ids = append(ids, i)
				}
				sort.Ints(ids)
				items := make([]string, 0, len(ids))
				for _, i := range ids {
					items = append(items, N(uint64(i)))
				}
				outs = append(outs, App("TNames", List(items)))
			}
			// the system comes to rest (a started jobFunc returns at once) before the next operation
			synctest.Wait()
		}
		cancel()
		synctest.Wait()
	})
	for j, c := range counts {
		runs = append(runs, Pair(N(uint64(j)), N(uint64(c.Load()))))
	}
	return outs, runs, dupSeen && runSeen && reuseSeen
}

func tableTerm(ops []TOp) string {
	items := make([]string, 0, len(ops))
	for _, op := range ops {
		switch op.Op {
		case "sched":
			items = append(items, App("TSched", N(uint64(op.Name)), Bool(op.Periodic)))
		case "run":
			items = append(items, App("TRun", N(uint64(op.Name))))
		case "cancel":
			items = append(items, App("TCancel", N(uint64(op.Name))))
		case "exists":
			items = append(items, App("TExists", N(uint64(op.Name))))
		default:
			items = append(items, "TList")
		}
	}
	return List(items)
}

// ---------------------------------------------------------------------------------------------

func TestC02(t *testing.T) {
	deadlock.Opts.Disable = true // go-deadlock's timer pool lives outside the bubble
	col := NewCollector("C02", "Check.C02",
		"one case = one timed script (one job, calls at given fake instants; repeated when events tie, every distinct outcome reported) "+
			"or one sequential history over several names; non-trivial = a timed script in which the job's time or a run/cancel/ctx call "+
			"falls inside the script, or a history with a refused duplicate, a successful RunJob and a re-used name; distinct by input text")
	col.ShardSize = 60
	n := EnvInt("VERIF_N", 300)
	tier := os.Getenv("VERIF_TIER")
	tieReps, freeReps := 50, 2
	if tier == "thorough" {
		tieReps = 500
	}
	if os.Getenv("VERIF_SEARCH") != "" {
		tieReps *= 4
	}
	tieReps = EnvInt("VERIF_C02_REPS", tieReps)
	hangBudget := EnvInt("VERIF_C02_HANG_SCRIPTS", map[bool]int{true: 20, false: 3}[tier == "thorough"])

	var ins []Input
	for _, in := range LoadInputs[Input]("C02") {
		in.Tags = append(in.Tags, "corpus")
		ins = append(ins, in)
	}
	rng := NewRand(Seed())
	for i := 0; i < n; i++ {
		r := rng.Fork()
		switch k := r.Intn(10); {
		case k < 6:
			sc, tags := genOneOff(r)
			ins = append(ins, Input{Script: &sc, Tags: tags})
		case k < 9:
			sc, tags := genPeriodic(r)
			ins = append(ins, Input{Script: &sc, Tags: tags})
		default:
			ins = append(ins, Input{Table: genTable(r), Tags: []string{"table"}})
		}
	}
	bubbles, hungObs := 0, 0
	for _, in := range ins {
		id := col.NextID()
		if in.Script == nil {
			outs, runs, nt := runTable(t, in.Table)
			bubbles++
			for _, op := range in.Table {
				col.Count("table-op:" + op.Op)
			}
			term := Record("c_id", N(id), "c_body", App("Tabled", tableTerm(in.Table), List(outs), List(runs)))
			col.Add(Case{Term: term, Key: tableTerm(in.Table), Nontrivial: nt, Tags: in.Tags,
				Sample: map[string]any{"input": in, "observed": map[string]any{"outs": outs, "runs": runs}}})
			continue
		}
		sc := normalise(*in.Script)
		in.Script = &sc
		tags := append([]string(nil), in.Tags...)
		reps := sc.Reps
		isTied := tied(sc)
		if reps <= 0 {
			reps = freeReps
			if isTied {
				reps = tieReps
			}
		}
		if isTied {
			tags = append(tags, "tied")
		} else {
			tags = append(tags, "tie-free")
		}
		if hangProne(sc) {
			tags = append(tags, "periodic:hang-prone")
			if hangBudget <= 0 && sc.Reps <= 0 {
				// replaced by a tie-free variant: the run requests one millisecond apart
				seen := map[int]int{}
				for i, c := range sc.Calls {
					if c.Kind == "run" || c.Kind == "runif" {
						sc.Calls[i].At = c.At + seen[c.At]
						seen[c.At]++
					}
				}
				sc = normalise(sc)
				tags = append(tags, "periodic:hang-prone-spread")
			} else {
				hangBudget--
				if reps > 20 && sc.Reps <= 0 {
					reps = 20
				}
			}
		}
		distinct := map[string]*Obs{}
		var order []string
		for k := 0; k < reps; k++ {
			o := runOnce(t, sc)
			bubbles++
			if o.Hung {
				hungObs++
			}
			key := obsKey(o)
			if e, ok := distinct[key]; ok {
				e.Count++
			} else {
				o.Count = 1
				distinct[key] = &o
				order = append(order, key)
			}
		}
		sort.Strings(order)
		obsTerms := make([]string, 0, len(order))
		observed := make([]Obs, 0, len(order))
		for _, key := range order {
			obsTerms = append(obsTerms, obsTerm(*distinct[key]))
			observed = append(observed, *distinct[key])
		}
		col.Count("script:" + sc.Kind)
		col.Count(fmt.Sprintf("distinct-outcomes:%d", len(order)))
		col.Count(fmt.Sprintf("calls:%d", len(sc.Calls)))
		for _, c := range sc.Calls {
			col.Count("call:" + c.Kind)
			switch d := c.At - sc.Due; {
			case sc.Kind == "oneoff" && d == 0:
				col.Count("oneoff-call-offset:0")
			case sc.Kind == "oneoff" && d == -1:
				col.Count("oneoff-call-offset:-1")
			case sc.Kind == "oneoff" && d == 1:
				col.Count("oneoff-call-offset:+1")
			}
		}
		nt := len(sc.Calls) > 0 || sc.Due <= sc.End
		term := Record("c_id", N(id), "c_body", App("Timed", scriptTerm(sc), List(obsTerms)))
		col.Add(Case{Term: term, Key: scriptTerm(sc), Nontrivial: nt, Tags: tags,
			Sample: map[string]any{"input": in, "observed": observed}})
	}
	col.Note(fmt.Sprintf("bubbles run: %d (tied scripts repeated %d times, tie-free %d times); observations that never came to rest: %d", bubbles, tieReps, freeReps, hungObs))
	if err := col.Flush(); err != nil {
		t.Fatal(err)
	}
}
