// C02, strengthening round 6: a periodic job whose instances are NOT in the future when runtimeFunc hands them out.
//
// SchedulePeriodicJob's goroutine asks runtimeFunc for the next time and then selects over its context, its
// cancel channel, its run channel and time.After(time.Until(runtime)).  Nothing obliges runtimeFunc to return a
// time in the future: a fixed-rate schedule whose job overruns its period, a schedule that starts behind (a
// catch-up after a stall) and a runtime function that says "now" all hand out instances that are already due.
// The select is the only place where the goroutine looks at ctx.Done(), cancelCh and runCh, so it must be
// passed between any two instances -- a job that is behind its schedule is cancellable like any other, its
// name is freed by a context cancellation, a run request is not left sitting.  Every runtime function of the
// earlier families returned now + period with a period of at least 2.
//
// Scripts here (bubble, repeated like every script with ties): Due 0 ("now"; Lag: a time that has passed),
// Fixed (fixed-rate: the k-th instance at k*Due - Behind; Dur > Due = overrun, Behind > 0 = catch-up), cancelled
// by CancelJob / CancelJobIfExists / CancelJobs / the parent context during such a stretch, in the middle of an
// execution or on the instant it returns, followed by eight further executions' worth of time (a goroutine
// that does not look goes on for all of them); controls without a cancellation (every instance runs, on time
// again after a catch-up).  genRealBehind: the same in real time with the timer channels production has
// (there a pending cancellation always wins against a timer created for an instant that has passed).
package c02

import (
	. "verifharness/common"
)

var stopKinds = []string{"cancel", "cancel", "cancelif", "cancelall", "ctx", "ctx"}

// room: the script lasts eight executions beyond the cancellation, and runtimeFunc does not run out before
func room(sc *Script, tc int) {
	sc.End = tc + 8*sc.Dur + 2
	sc.Ticks = sc.End/sc.Dur + 4
}

func genBehind(r *Rand, i int) (Script, []string) {
	var sc Script
	var tag string
	stop := stopKinds[r.Intn(len(stopKinds))]
	switch fam := i % 10; fam {
	case 0, 1: // "now" (or a time that has passed): cancelled in the middle of an execution
		D := r.Range(2, 3)
		sc = Script{Kind: "periodic", Due: 0, Dur: D, Lag: []int{0, 0, 1, 4}[r.Intn(4)]}
		if fam == 1 {
			stop = []string{"ctx", "cancel"}[r.Intn(2)]
		}
		tc := r.Range(0, 2)*D + r.Range(1, D-1)
		sc.Calls = []Call{{At: tc, Kind: stop}}
		room(&sc, tc)
		tag = "behind:now-stop-during-run"
	case 2: // ... on the instant an execution returns (and the next one starts)
		D := r.Range(1, 3)
		sc = Script{Kind: "periodic", Due: 0, Dur: D, Lag: []int{0, 2}[r.Intn(2)]}
		tc := r.Range(1, 3) * D
		sc.Calls = []Call{{At: tc, Kind: stop}}
		room(&sc, tc)
		tag = "behind:now-stop-at-run-boundary"
	case 3, 4: // fixed-rate, the job overruns its period: every instance after the first is due when it is handed out
		P := r.Range(1, 2)
		D := P + r.Range(1, 2)
		sc = Script{Kind: "periodic", Due: P, Dur: D, Fixed: true}
		tc := P + r.Range(0, 2)*D + r.Range(1, D-1)
		if fam == 4 && r.Bool() {
			tc = P + r.Range(1, 2)*D // on the instant an execution returns
		}
		sc.Calls = []Call{{At: tc, Kind: stop}}
		room(&sc, tc)
		tag = "behind:overrun-stop"
	case 5: // fixed-rate, the schedule starts behind: a catch-up stretch of back-to-back executions, cancelled inside it
		P := r.Range(2, 3)
		D := P - 1
		sc = Script{Kind: "periodic", Due: P, Dur: D, Fixed: true, Behind: 8 * P * r.Range(1, 2)}
		tc := r.Range(1, 3) * D
		if D >= 2 && r.Bool() {
			tc = r.Range(0, 2)*D + 1
		}
		sc.Calls = []Call{{At: tc, Kind: stop}}
		room(&sc, tc)
		tag = "behind:catch-up-stop"
	case 6: // controls: nothing is cancelled, every instance runs -- "now"; a catch-up and then on time again
		if r.Bool() {
			D := r.Range(1, 2)
			sc = Script{Kind: "periodic", Due: 0, Dur: D, Ticks: r.Range(3, 6), Lag: []int{0, 3}[r.Intn(2)]}
			sc.End = sc.Ticks*D + D + 2
			tag = "behind:now-alone"
		} else {
			P := 3
			sc = Script{Kind: "periodic", Due: P, Dur: 1, Fixed: true, Behind: P * r.Range(1, 3), Ticks: r.Range(5, 7)}
			sc.End = sc.Ticks*(P+1) + 3
			if r.Bool() {
				sc.Calls = []Call{{At: sc.End - 2, Kind: "exists"}}
			}
			tag = "behind:catch-up-then-on-time"
		}
	case 7: // cancelled during a stretch, then calls on the name clearly afterwards
		D := 2
		sc = Script{Kind: "periodic", Due: 0, Dur: D}
		if r.Bool() {
			sc = Script{Kind: "periodic", Due: 1, Dur: D, Fixed: true, Behind: 1}
		}
		tc := r.Range(1, 2)*D + 1
		sc.Calls = []Call{{At: tc, Kind: []string{"cancel", "ctx", "cancelall"}[r.Intn(3)]}}
		room(&sc, tc)
		sc.Calls = append(sc.Calls, Call{At: sc.End - 3, Kind: []string{"exists", "run", "cancel", "runif"}[r.Intn(4)]})
		if r.Bool() {
			sc.Calls = append(sc.Calls, Call{At: sc.End - 1, Kind: "dup"})
		}
		tag = "behind:stop-then-calls"
	case 8: // a run request while the job is behind (an execution is in progress: refused), then the cancellation
		D := r.Range(2, 3)
		sc = Script{Kind: "periodic", Due: 0, Dur: D}
		if r.Bool() {
			sc = Script{Kind: "periodic", Due: 1, Dur: D, Fixed: true, Behind: 1}
		}
		tr := D + 1
		tc := 2*D + 1
		sc.Calls = []Call{{At: tr, Kind: []string{"run", "runif"}[r.Intn(2)]}, {At: tc, Kind: stop}}
		room(&sc, tc)
		tag = "behind:run-request-then-stop"
	default: // cancelled twice, or by CancelJob and by the context
		D := r.Range(2, 3)
		sc = Script{Kind: "periodic", Due: 0, Dur: D, Lag: r.Range(0, 1)}
		if r.Bool() {
			sc = Script{Kind: "periodic", Due: 1, Dur: D, Fixed: true}
		}
		tc := D + 1
		sc.Calls = []Call{{At: tc, Kind: stop}, {At: tc + r.Range(0, D), Kind: stopKinds[r.Intn(len(stopKinds))]}}
		room(&sc, tc+D)
		tag = "behind:two-stops"
	}
	if r.Chance(1, 4) {
		sc.Sibs = r.Range(1, 3)
	}
	if r.Chance(1, 5) {
		for k := range sc.Calls {
			if sc.Calls[k].Kind != "ctx" && sc.Calls[k].Kind != "dup" {
				sc.Calls[k].Cctx = []string{"done", "expired"}[r.Intn(2)]
			}
		}
	}
	return sc, []string{tag, "behind-schedule"}
}

// genRealBehind: in real time, with the timer channels of the repository's go directive.
func genRealBehind(r *Rand, i int) (Script, []string) {
	var sc Script
	var tag string
	stop := []string{"cancel", "ctx", "cancelif", "cancel"}[r.Intn(4)]
	switch fam := i % 4; fam {
	case 0, 1: // "now" / a time that has passed; executions [0,2) [2,4) ...; cancelled at 3
		sc = Script{Kind: "periodic", Due: 0, Dur: 2, Lag: []int{0, 2}[fam], Ticks: 12, Calls: []Call{{At: 3, Kind: stop}}, End: 14}
		tag = "real:behind-now-stop-during-run"
	case 2: // fixed-rate, period 1, execution 2: [1,3) [3,5) ...; cancelled at 4
		sc = Script{Kind: "periodic", Due: 1, Dur: 2, Fixed: true, Ticks: 12, Calls: []Call{{At: 4, Kind: stop}}, End: 15}
		tag = "real:behind-overrun-stop"
	default: // catch-up: the schedule starts 30 units behind; [0,2) [2,4) ...; cancelled at 3
		sc = Script{Kind: "periodic", Due: 3, Dur: 2, Fixed: true, Behind: 30, Ticks: 12, Calls: []Call{{At: 3, Kind: stop}}, End: 14}
		tag = "real:behind-catch-up-stop"
	}
	sc.Real, sc.Unit = true, 30
	return sc, []string{tag, "behind-schedule"}
}
