package c02

// Bursts: several goroutines, released together from a spinning barrier, operate on ONE job name of
// one scheduler instance at the same moment (ScheduleJob / SchedulePeriodicJob, CancelJob, RunJob).
// The timed scripts issue at most one ScheduleJob at a time while the name may be free, so a change
// that splits a table section of the scheduler into "look" and "act" (the duplicate check and the
// insert of ScheduleJob under two holds of jobsMutex, the lookup and the delete of RunJob / CancelJob
// ...) passes them; the window is a few hundred nanoseconds wide and needs real parallelism.
//
// One repetition = one synctest bubble (the goroutines of a bubble run in parallel on all Ps; fake
// time stands still while any of them runs):
//   0. a fresh service, a few bystander jobs under other names (far future);
//   1. the `pre` operations, one after the other (the system at rest in between);
//   2. the lanes: one goroutine per lane, all released at once, each performing its operations back
//      to back; then rest: JobExists, ListJobs, how often the function of every ScheduleJob ran;
//   3. the follow-up (nothing, CancelJob or RunJob), rest, the same observations;
//   4. the jobs' time passes, rest, the same observations; finally the name is scheduled once more.
// Every ScheduleJob of the burst has its own job function, so the runs are known per call.
// A burst is repeated many times; every distinct observation is reported with its count (lanes with
// the same operations are interchangeable: their observations are sorted).  The Coq side looks for a
// linearisation of the lanes on the table model (agree) and evaluates the counting laws of the
// property on the observation alone (P_b): a name is held by at most one job, accepted = claimed +
// still listed, runs = successful run requests (+ the pending job once its time has passed), a job
// cancelled before its time never runs.

import (
	"context"
	"fmt"
	"runtime"
	"sort"
	"strings"
	"sync"
	"sync/atomic"
	"testing"
	"testing/synctest"
	"time"

	nullmetrics "github.com/attestantio/vouch/services/metrics/null"
	"github.com/attestantio/vouch/services/scheduler"
	advanced "github.com/attestantio/vouch/services/scheduler/advanced"
	"github.com/rs/zerolog"

	. "verifharness/common"
)

type Burst struct {
	Periodic   bool       `json:"periodic,omitempty"`
	Due        int        `json:"due"`           // the jobs' time, ms after the start
	Pre        []string   `json:"pre,omitempty"` // sched | cancel | run, sequential
	Lanes      [][]string `json:"lanes"`         // one goroutine each
	Follow     string     `json:"follow,omitempty"` // "" | cancel | run
	Bystanders int        `json:"bystanders,omitempty"`
	Reps       int        `json:"reps,omitempty"`
	// Callers: "done" = every RunJob / CancelJob of the burst (lanes, sequential phase, follow-up) is made with
	// a CALLER context that is already cancelled.  The model ignores it; the laws hold whatever it is.
	Callers string `json:"callers,omitempty"`
}

type BLane struct {
	Codes []string `json:"codes"`
	Runs  [][3]int `json:"runs"` // per ScheduleJob of the lane: runs of its function at the three observation points
}

type BObs struct {
	Pre     BLane   `json:"pre"`
	Lanes   []BLane `json:"lanes"`
	Exists  [3]bool `json:"exists"`
	Follow  string  `json:"follow"` // "None" or a code
	ListsOK bool    `json:"lists_ok"`
	Reuse   string  `json:"reuse"`
	Panic   bool    `json:"panic"`
	Hung    bool    `json:"hung"`
	Note    string  `json:"note,omitempty"` // evidence only: the text of an error outside the scheduler's set that a call returned
	Count   int     `json:"count"`
}

// "ctx" (lanes only): the context under which the `pre` jobs were scheduled is cancelled; their
// goroutines leave through the context branch and remove their name from the table if it is still
// theirs.  For the model this is two steps of the lane, the call and (any time later) the removal.
func validBOp(op string) bool { return op == "sched" || op == "cancel" || op == "run" || op == "ctx" }

func hasCtx(b Burst) bool {
	for _, l := range b.Lanes {
		for _, op := range l {
			if op == "ctx" {
				return true
			}
		}
	}
	return false
}

// expandedLen: number of model steps of a lane.
func expandedLen(l []string) int {
	n := 0
	for _, op := range l {
		n++
		if op == "ctx" {
			n++
		}
	}
	return n
}

var burstSeq atomic.Uint64

// normaliseBurst: known operations only; no run request inside the lanes of a periodic burst (a
// RunJob that succeeded on a periodic job can lose against a simultaneous CancelJob, its run is then
// dropped: allowed, but not a function of the order of the table sections, which is all the burst
// model follows); the jobs' time lies well after the burst.
func normaliseBurst(b Burst) Burst {
	// a RunJob that succeeded can also lose against a simultaneous cancellation of the context
	ctx := hasCtx(b)
	clean := func(ops []string, lane bool) []string {
		out := []string{}
		for _, op := range ops {
			if !validBOp(op) || (lane && (b.Periodic || ctx) && op == "run") || (!lane && op == "ctx") {
				continue
			}
			out = append(out, op)
		}
		return out
	}
	b.Pre = clean(b.Pre, false)
	if len(b.Pre) > 6 {
		b.Pre = b.Pre[:6]
	}
	var lanes [][]string
	for _, l := range b.Lanes {
		l = clean(l, true)
		if len(l) > 3 {
			l = l[:3]
		}
		if len(l) > 0 {
			lanes = append(lanes, l)
		}
	}
	if len(lanes) > 8 {
		lanes = lanes[:8]
	}
	b.Lanes = lanes
	if b.Follow != "cancel" && b.Follow != "run" {
		b.Follow = ""
	}
	if b.Due < 10 {
		b.Due = 10
	}
	if b.Bystanders < 0 {
		b.Bystanders = 0
	}
	if b.Bystanders > 4 {
		b.Bystanders = 4
	}
	if b.Callers != "done" && b.Callers != "expired" {
		b.Callers = ""
	}
	return b
}

type bshared struct {
	mu       sync.Mutex
	obs      BObs
	finished bool
	progress atomic.Int64
}

func burstBody(b Burst, st *bshared) {
	defer func() {
		if r := recover(); r != nil {
			st.mu.Lock()
			st.obs.Panic = true
			st.mu.Unlock()
		}
	}()
	tick := func() { st.progress.Add(1) }
	t0 := time.Now()
	ms := func(n int) time.Duration { return time.Duration(n) * time.Millisecond }
	svc, err := advanced.New(context.Background(), advanced.WithLogLevel(zerolog.Disabled), advanced.WithMonitor(nullmetrics.New()))
	if err != nil {
		panic(err)
	}
	rootCtx, rootCancel := context.WithCancel(context.Background())
	defer rootCancel()
	preCtx, preCancel := context.WithCancel(rootCtx)
	defer preCancel()

	// bystanders: other names, far future; they must stay listed and never run
	var bystanderRuns atomic.Int64
	var others []string
	for i := 0; i < b.Bystanders; i++ {
		nm := fmt.Sprintf("other%d", i)
		f := func(context.Context) { bystanderRuns.Add(1) }
		if i%2 == 1 {
			err = svc.SchedulePeriodicJob(rootCtx, "c02", nm, func(context.Context) (time.Time, error) { return time.Now().Add(time.Hour), nil }, f)
		} else {
			err = svc.ScheduleJob(rootCtx, "c02", nm, t0.Add(time.Hour), f)
		}
		if err != nil {
			panic(err)
		}
		others = append(others, nm)
	}

	nSched := 0
	for _, op := range b.Pre {
		if op == "sched" {
			nSched++
		}
	}
	for _, l := range b.Lanes {
		for _, op := range l {
			if op == "sched" {
				nSched++
			}
		}
	}
	counters := make([]atomic.Int64, nSched+1)
	callCtx, callRelease := callerCtx(rootCtx, b.Callers)
	defer callRelease()
	// an error outside the scheduler's set reads as a call that did not return a result of the model
	bcode := func(err error) string {
		if c := codeOf(err); c != "Foreign" {
			return c
		}
		st.mu.Lock()
		st.obs.Note = "a call returned an error outside the scheduler's set: " + err.Error()
		st.mu.Unlock()
		return "Hung"
	}
	do := func(jctx context.Context, op string, id int) string {
		switch op {
		case "ctx":
			preCancel()
			return "Ret Nil"
		case "sched":
			f := func(context.Context) { counters[id].Add(1) }
			if b.Periodic {
				// one instance, at the jobs' time (an early run does not use it up)
				rt := func(context.Context) (time.Time, error) {
					if !time.Now().Before(t0.Add(ms(b.Due))) {
						return time.Time{}, scheduler.ErrNoMoreInstances
					}
					return t0.Add(ms(b.Due)), nil
				}
				return codeOf(svc.SchedulePeriodicJob(jctx, "c02", jobName, rt, f))
			}
			return codeOf(svc.ScheduleJob(jctx, "c02", jobName, t0.Add(ms(b.Due)), f))
		case "cancel":
			return bcode(svc.CancelJob(callCtx, jobName))
		case "run":
			return bcode(svc.RunJob(callCtx, jobName))
		}
		return "Hung"
	}
	strip := func(s string) string { return strings.TrimPrefix(s, "Ret ") }

	// ids of the ScheduleJob calls: pre first, then lane by lane
	next := 0
	preIDs := make([]int, len(b.Pre))
	for i, op := range b.Pre {
		if op == "sched" {
			preIDs[i] = next
			next++
		}
	}
	laneIDs := make([][]int, len(b.Lanes))
	for i, l := range b.Lanes {
		laneIDs[i] = make([]int, len(l))
		for j, op := range l {
			if op == "sched" {
				laneIDs[i][j] = next
				next++
			}
		}
	}

	// 1. pre
	pre := BLane{Codes: []string{}, Runs: [][3]int{}}
	for i, op := range b.Pre {
		pre.Codes = append(pre.Codes, strip(do(preCtx, op, preIDs[i])))
		synctest.Wait()
		tick()
	}

	// 2. the lanes, released together
	lanes := make([]BLane, len(b.Lanes))
	var ready atomic.Int32
	var release atomic.Bool
	var wg sync.WaitGroup
	// every other repetition the lanes start a few hundred nanoseconds apart
	seq := burstSeq.Add(1)
	var sink atomic.Int64
	for i, l := range b.Lanes {
		lanes[i] = BLane{Codes: make([]string, expandedLen(l)), Runs: [][3]int{}}
		for j := range lanes[i].Codes {
			lanes[i].Codes[j] = "Hung"
		}
		delay := 0
		if seq%2 == 0 {
			delay = []int{0, 50, 150, 400, 1000, 0, 250, 600}[((seq/2)*2654435761+uint64(i)*40503)>>5%8]
		}
		wg.Add(1)
		go func() {
			defer wg.Done()
			ready.Add(1)
			for spins := 1; !release.Load(); spins++ {
				if spins%2000 == 0 {
					runtime.Gosched()
				}
			}
			for d := 0; d < delay; d++ {
				sink.Add(1)
			}
			k := 0
			for j, op := range l {
				lanes[i].Codes[k] = strip(do(rootCtx, op, laneIDs[i][j]))
				k++
				if op == "ctx" {
					lanes[i].Codes[k] = "Nil" // the removal by the goroutines: no code of its own
					k++
				}
			}
			tick()
		}()
	}
	for spins := 1; int(ready.Load()) < len(b.Lanes); spins++ {
		if spins%100 == 0 {
			runtime.Gosched()
		}
	}
	release.Store(true)
	wg.Wait()
	synctest.Wait()
	tick()

	var exists [3]bool
	listsOK := true
	snap := func(k int) {
		exists[k] = svc.JobExists(rootCtx, jobName)
		want := append([]string(nil), others...)
		if exists[k] {
			want = append(want, jobName)
		}
		got := svc.ListJobs(rootCtx)
		sort.Strings(want)
		sort.Strings(got)
		if strings.Join(want, "\x00") != strings.Join(got, "\x00") || bystanderRuns.Load() != 0 {
			listsOK = false
		}
		for i, op := range b.Pre {
			if op == "sched" {
				if k == 0 {
					pre.Runs = append(pre.Runs, [3]int{})
				}
				n := 0
				for _, q := range b.Pre[:i] {
					if q == "sched" {
						n++
					}
				}
				pre.Runs[n][k] = int(counters[preIDs[i]].Load())
			}
		}
		for i, l := range b.Lanes {
			n := 0
			for j, op := range l {
				if op == "sched" {
					if k == 0 {
						lanes[i].Runs = append(lanes[i].Runs, [3]int{})
					}
					lanes[i].Runs[n][k] = int(counters[laneIDs[i][j]].Load())
					n++
				}
			}
		}
	}
	snap(0)

	// 3. the follow-up
	follow := "None"
	switch b.Follow {
	case "cancel":
		follow = strip(bcode(svc.CancelJob(callCtx, jobName)))
	case "run":
		follow = strip(bcode(svc.RunJob(callCtx, jobName)))
	}
	synctest.Wait()
	tick()
	snap(1)

	// 4. the jobs' time passes
	time.Sleep(time.Until(t0.Add(ms(b.Due + 5))))
	synctest.Wait()
	tick()
	snap(2)

	reuseCtx, reuseCancel := context.WithCancel(rootCtx)
	reuse := strip(codeOf(svc.ScheduleJob(reuseCtx, "c02", jobName, time.Now().Add(time.Hour), func(context.Context) {})))
	reuseCancel()
	synctest.Wait()

	st.mu.Lock()
	st.obs.Pre, st.obs.Lanes, st.obs.Exists, st.obs.Follow, st.obs.ListsOK, st.obs.Reuse = pre, lanes, exists, follow, listsOK, reuse
	st.finished = true
	st.mu.Unlock()
	tick()
	rootCancel()
}

// waitWatched: the real-time watchdog of runOnce (see there).
func waitWatched(done <-chan struct{}, progress *atomic.Int64) (hung bool) {
	last, idle, stalled := int64(-1), 0, 0
	for {
		select {
		case <-done:
			return false
		case <-time.After(watchdogStep):
			p := progress.Load()
			if p != last {
				last, idle, stalled = p, 0, 0
				continue
			}
			idle++
			if idle >= 3 {
				if bubbleStalled() {
					stalled++
				} else {
					stalled = 0
				}
			}
			if stalled >= 2 || idle >= 250 {
				select {
				case <-done:
					return false
				default:
					return true
				}
			}
		}
	}
}

func emptyBObs(b Burst) BObs {
	o := BObs{Pre: BLane{Codes: []string{}, Runs: [][3]int{}}, Follow: "None", Reuse: "Nil"}
	for _, op := range b.Pre {
		o.Pre.Codes = append(o.Pre.Codes, "Nil")
		if op == "sched" {
			o.Pre.Runs = append(o.Pre.Runs, [3]int{})
		}
	}
	for _, l := range b.Lanes {
		bl := BLane{Codes: []string{}, Runs: [][3]int{}}
		for _, op := range l {
			bl.Codes = append(bl.Codes, "Nil")
			if op == "ctx" {
				bl.Codes = append(bl.Codes, "Nil")
			}
			if op == "sched" {
				bl.Runs = append(bl.Runs, [3]int{})
			}
		}
		o.Lanes = append(o.Lanes, bl)
	}
	return o
}

func runBurstOnce(t *testing.T, b Burst) BObs {
	st := &bshared{}
	done := make(chan struct{})
	go func() {
		defer close(done)
		defer func() {
			if r := recover(); r != nil {
				st.mu.Lock()
				if !st.finished {
					st.obs.Panic = true
				}
				st.mu.Unlock()
			}
		}()
		synctest.Test(t, func(*testing.T) { burstBody(b, st) })
	}()
	hung := waitWatched(done, &st.progress)
	st.mu.Lock()
	defer st.mu.Unlock()
	if hung || !st.finished {
		o := emptyBObs(b)
		o.Hung = true
		o.Panic = st.obs.Panic
		o.Note = st.obs.Note
		return o
	}
	o := st.obs
	for _, l := range o.Lanes {
		for _, c := range l.Codes {
			if c == "Hung" {
				o.Hung = true
			}
		}
	}
	if o.Hung {
		h := emptyBObs(b)
		h.Hung, h.Panic, h.Note = true, o.Panic, o.Note
		return h
	}
	// lanes with the same operations are interchangeable: sort their observations
	groups := map[string][]int{}
	for i, l := range b.Lanes {
		k := strings.Join(l, ",")
		groups[k] = append(groups[k], i)
	}
	for _, idx := range groups {
		obs := make([]BLane, len(idx))
		for k, i := range idx {
			obs[k] = o.Lanes[i]
		}
		sort.SliceStable(obs, func(x, y int) bool { return fmt.Sprint(obs[x]) < fmt.Sprint(obs[y]) })
		for k, i := range idx {
			o.Lanes[i] = obs[k]
		}
	}
	return o
}

// ---------------------------------------------------------------------------------------------
// Gallina terms

func bopTerm(op string) string {
	switch op {
	case "sched":
		return "BoSched"
	case "cancel":
		return "BoCancel"
	}
	return "BoRun"
}

func burstTerm(b Burst) string {
	npre := 0
	for _, op := range b.Pre {
		if op == "sched" {
			npre++
		}
	}
	ops := func(l []string) string {
		items := make([]string, 0, len(l))
		for _, op := range l {
			if op == "ctx" {
				// the jobs scheduled under the cancelled context are those of the sequential phase
				items = append(items, "BoCtx", "(BoRelease "+N(uint64(npre))+")")
				continue
			}
			items = append(items, bopTerm(op))
		}
		return List(items)
	}
	lanes := make([]string, 0, len(b.Lanes))
	for _, l := range b.Lanes {
		lanes = append(lanes, ops(l))
	}
	follow := "None"
	if b.Follow != "" {
		follow = "(Some " + bopTerm(b.Follow) + ")"
	}
	return Record("bu_periodic", Bool(b.Periodic), "bu_pre", ops(b.Pre), "bu_lanes", List(lanes), "bu_follow", follow)
}

func bobsKey(o BObs) string {
	codes := func(l []string) string { return List(append([]string{}, l...)) }
	lanes := make([]string, 0, len(o.Lanes))
	for _, l := range o.Lanes {
		lanes = append(lanes, codes(l.Codes))
	}
	runs := func(k int) string {
		var items []string
		for _, r := range o.Pre.Runs {
			items = append(items, N(uint64(r[k])))
		}
		for _, l := range o.Lanes {
			for _, r := range l.Runs {
				items = append(items, N(uint64(r[k])))
			}
		}
		return List(items)
	}
	follow := "None"
	if o.Follow != "None" {
		follow = "(Some " + o.Follow + ")"
		if o.Follow == "Hung" {
			follow = "(Some ErrJobFinalised)" // never a result of these calls: rejected
		}
	}
	reuse := o.Reuse
	if reuse == "Hung" {
		reuse = "ErrJobFinalised"
	}
	return "bo_pre := " + codes(o.Pre.Codes) + "; bo_lanes := " + List(lanes) +
		"; bo_exists1 := " + Bool(o.Exists[0]) + "; bo_runs1 := " + runs(0) +
		"; bo_follow := " + follow +
		"; bo_exists2 := " + Bool(o.Exists[1]) + "; bo_runs2 := " + runs(1) +
		"; bo_exists3 := " + Bool(o.Exists[2]) + "; bo_runs3 := " + runs(2) +
		"; bo_lists_ok := " + Bool(o.ListsOK) + "; bo_reuse := " + reuse + "; bo_bad := " + Bool(o.Panic || o.Hung)
}

func bobsTerm(o BObs) string {
	return "{| " + bobsKey(o) + "; bo_count := " + N(uint64(o.Count)) + " |}"
}

// ---------------------------------------------------------------------------------------------
// generator

func genBurst(r *Rand) (Burst, []string) {
	b := Burst{Due: r.Range(20, 60), Periodic: r.Chance(1, 4), Bystanders: r.Range(0, 3)}
	b.Follow = []string{"", "cancel", "cancel", "run"}[r.Intn(4)]
	var tags []string
	rep := func(op string, k int) [][]string {
		var out [][]string
		for i := 0; i < k; i++ {
			out = append(out, []string{op})
		}
		return out
	}
	switch fam := r.Intn(10); fam {
	case 8, 9: // the context of the job holding the name is cancelled while others take the name over
		b.Pre = []string{"sched"}
		b.Lanes = [][]string{{"ctx"}}
		k := r.Range(1, 4)
		for i := 0; i < k; i++ {
			b.Lanes = append(b.Lanes, [][]string{{"cancel", "sched"}, {"cancel", "sched"}, {"sched"}, {"cancel"}}[r.Intn(4)])
		}
		tags = append(tags, "burst:ctx+takeover")
	case 0, 1: // k callers schedule the free name at once
		k := r.Range(2, 8)
		b.Lanes = rep("sched", k)
		tags = append(tags, "burst:sched-free-name")
	case 2: // the name is held; it is released and k callers try to take it
		b.Pre = []string{"sched"}
		b.Lanes = append(rep("sched", r.Range(2, 5)), []string{[]string{"cancel", "run"}[r.Intn(2)]})
		tags = append(tags, "burst:release+sched")
	case 3: // every caller refreshes the job: CancelJob then ScheduleJob, as the controller does
		if r.Bool() {
			b.Pre = []string{"sched"}
		}
		k := r.Range(2, 5)
		for i := 0; i < k; i++ {
			b.Lanes = append(b.Lanes, []string{"cancel", "sched"})
		}
		tags = append(tags, "burst:cancel-then-sched")
	case 4: // several claims on a held name
		b.Pre = []string{"sched"}
		k := r.Range(2, 6)
		for i := 0; i < k; i++ {
			b.Lanes = append(b.Lanes, []string{[]string{"cancel", "run", "run"}[r.Intn(3)]})
		}
		tags = append(tags, "burst:claims")
	case 5: // schedule and claim at once
		k := r.Range(2, 4)
		b.Lanes = rep("sched", k)
		for i := r.Range(1, 3); i > 0; i-- {
			b.Lanes = append(b.Lanes, []string{[]string{"cancel", "run"}[r.Intn(2)]})
		}
		tags = append(tags, "burst:sched+claims")
	case 6: // schedule, then claim one's own job
		k := r.Range(2, 5)
		for i := 0; i < k; i++ {
			b.Lanes = append(b.Lanes, []string{"sched", []string{"cancel", "run"}[r.Intn(2)]})
		}
		tags = append(tags, "burst:sched-then-claim")
	default:
		if r.Bool() {
			b.Pre = []string{"sched"}
		}
		k := r.Range(2, 6)
		for i := 0; i < k; i++ {
			var l []string
			for j := r.Range(1, 2); j > 0; j-- {
				l = append(l, []string{"sched", "sched", "cancel", "run"}[r.Intn(4)])
			}
			b.Lanes = append(b.Lanes, l)
		}
		tags = append(tags, "burst:mix")
	}
	if b.Periodic {
		tags = append(tags, "burst:periodic")
	} else {
		tags = append(tags, "burst:oneoff")
	}
	// drawn last: the bursts of a seed are what they were, one in four with dead caller contexts
	if r.Chance(1, 4) {
		b.Callers = []string{"done", "expired"}[r.Intn(2)]
		tags = append(tags, "burst:callers-"+b.Callers)
	}
	return b, tags
}
