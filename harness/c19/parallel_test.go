// C19, concurrent rounds: several goroutines (real threads, no synctest bubble) call the five util
// lookups at the same time, many times over, on a configuration that does not change meanwhile.
// The property quantifies over trees and paths only: who else is asking is no input, so every
// answer must be the one a lone caller gets.  Each goroutine keeps every DISTINCT (call, answer) it
// saw (on a tree where the property holds: one per call, in the order of its list, so the case text
// is deterministic); afterwards the same calls are made once more one at a time (state corrupted
// by the round would show there).  All of them are printed as Gallina queries and judged by
// Check.C19 (agree, P_b) like the sequential ones.
package c19

import (
	"fmt"
	"os"
	"strings"
	"sync"

	. "verifharness/common"
)

// Parallel is one concurrent round: Workers[i] is the list of calls goroutine i makes, in order,
// Rounds times over; all goroutines start together.
type Parallel struct {
	Rounds  int       `json:"rounds"`
	Workers [][]Query `json:"workers"`
}

func (p *Parallel) flat() []Query {
	var out []Query
	for _, w := range p.Workers {
		out = append(out, w...)
	}
	return out
}

// tags of a round, from the input alone.
func (p *Parallel) tags(fresh bool) []string {
	tags := []string{"parallel"}
	fnsSeen := map[string]bool{}
	paths := map[string]bool{}
	for _, q := range p.flat() {
		fnsSeen[q.Fn] = true
		paths[q.Fn+"\x00"+q.Var+"\x00"+q.Path] = true
	}
	if len(fnsSeen) == 1 {
		tags = append(tags, "parallel:one-function")
	} else {
		tags = append(tags, "parallel:several-functions")
	}
	if len(paths) > 1 {
		tags = append(tags, "parallel:different-paths")
	}
	if fresh {
		tags = append(tags, "parallel:first-calls-of-the-instance")
	}
	return tags
}

type answer struct {
	term string
	obs  any
}

const maxDistinctPerWorker = 48

// runParallel runs the round and returns, per goroutine, the distinct answers it saw (first
// occurrence order), and as the last list the answers to the same calls made one at a time after
// all goroutines have finished.
func runParallel(p *Parallel, col *Collector) [][]answer {
	rounds := p.Rounds
	if rounds < 1 {
		rounds = 1
	}
	if os.Getenv("VERIF_REPLAY") != "" { // one case alone: a race deserves more tries
		rounds *= 20
	}
	out := make([][]answer, len(p.Workers)+1)
	start := make(chan struct{})
	var wg sync.WaitGroup
	for w := range p.Workers {
		wg.Add(1)
		go func(w int) {
			defer wg.Done()
			qs := p.Workers[w]
			known := make([]map[string]bool, len(qs))
			for i := range known {
				known[i] = map[string]bool{}
			}
			var mine []answer
			<-start
			for r := 0; r < rounds; r++ {
				for i, q := range qs {
					term, obs := call(q)
					if !known[i][term] && len(mine) < maxDistinctPerWorker+len(qs) {
						known[i][term] = true
						mine = append(mine, answer{term, obs})
					}
				}
			}
			out[w] = mine
		}(w)
	}
	close(start)
	wg.Wait()
	seen := map[string]bool{}
	for _, q := range p.flat() {
		k := q.Fn + "\x00" + q.Var + "\x00" + q.Path
		if seen[k] {
			continue
		}
		seen[k] = true
		term, obs := call(q)
		out[len(p.Workers)] = append(out[len(p.Workers)], answer{term, obs})
	}
	col.Count(fmt.Sprintf("parallel-goroutines:%d", len(p.Workers)))
	for _, q := range p.flat() {
		col.Count("fn-parallel:" + q.Fn)
	}
	return out
}

// ---------------------------------------------------------------------------------------------
// Generators.

var ladderTops = []string{"strategies", "submitter", "accountmanager", "a", "m1", "m2", "m3", "m4"}

func queryFor(setting string) Query {
	q := fnOfSetting(setting)
	if q.Fn == "bool" {
		q.Var = setting
	}
	return q
}

// ladder: 3-6 spines with distinct first components; on every spine the chosen settings have a
// valid value at 2-3 levels (the top level, shared, may be one of them), now and then an explicit
// zero / empty value at the deepest (transparent, or an explicit false that wins).  A garbled or
// borrowed key therefore shows: a miss climbs to a level with another value, a hit on another
// spine's key returns that spine's value.
func (g *gen) ladder(settings []string) (Input, [][]string) {
	r := g.r
	in := Input{Layer: layers[r.Intn(len(layers))], DefLevel: defLevels[r.Intn(len(defLevels))]}
	ns := r.Range(3, 6)
	var spines [][]string
	for _, i := range r.Perm(len(ladderTops))[:ns] {
		sp := []string{ladderTops[i]}
		for d := r.Range(1, 3); d > 0; d-- {
			sp = append(sp, vocab[len(sp)][r.Intn(len(vocab[len(sp)]))])
		}
		spines = append(spines, sp)
	}
	for _, s := range settings {
		if r.Chance(4, 5) {
			g.attach(&in, nil, s, "valid")
		}
		if s == kAddresses && r.Chance(1, 2) {
			g.attach(&in, nil, kAddress, "valid")
		}
		for _, sp := range spines {
			levels := r.Perm(len(sp))
			n := r.Range(2, 3)
			if n > len(levels) {
				n = len(levels)
			}
			deepest := 0
			for _, k := range levels[:n] {
				if k+1 > deepest {
					deepest = k + 1
				}
			}
			for _, k := range levels[:n] {
				cls := "valid"
				if k+1 == deepest && r.Chance(1, 6) {
					cls = []string{"zero", "empty"}[r.Intn(2)]
				}
				g.attach(&in, sp[:k+1], s, cls)
			}
		}
	}
	return in, spines
}

// workersOn: goroutine i works on spine i mod |spines|: the full path, a path below it, its
// prefixes; now and then a path of another spine.
func (g *gen) workersOn(spines [][]string, settings []string, extra []Query) *Parallel {
	r := g.r
	p := &Parallel{Rounds: g.rounds()}
	for w, nw := 0, r.Range(3, 8); w < nw; w++ {
		sp := spines[w%len(spines)]
		var qs []Query
		for n := r.Range(2, 4); n > 0; n-- {
			q := queryFor(settings[r.Intn(len(settings))])
			switch k := r.Intn(10); {
			case k < 4:
				q.Path = strings.Join(sp, ".")
			case k < 6:
				q.Path = strings.Join(sp, ".") + "." + []string{"zz", "nope.other", "best"}[r.Intn(3)]
			case k < 8:
				q.Path = strings.Join(sp[:r.Range(1, len(sp))], ".")
			case k < 9:
				o := spines[r.Intn(len(spines))]
				q.Path = strings.Join(o[:r.Range(1, len(o))], ".")
			default:
				if len(extra) > 0 {
					q = extra[r.Intn(len(extra))]
				} else {
					q.Path = ""
				}
			}
			qs = append(qs, q)
		}
		p.Workers = append(p.Workers, qs)
	}
	return p
}

// rounds: 150-400 repetitions; one round in eight is a long one (ten times as many), for machines
// where few threads run at the same time.
func (g *gen) rounds() int {
	n := g.r.Range(150, 400)
	if g.r.Chance(1, 8) {
		n *= 10
	}
	return n
}

func spinesOf(leaves []Leaf) [][]string {
	seen := map[string]bool{}
	var out [][]string
	for _, l := range leaves {
		node := l.Key[:len(l.Key)-1]
		if l.Class == "map" && len(node) > 0 {
			node = node[:len(node)-1]
		}
		if len(node) == 0 || seen[strings.Join(node, ".")] {
			continue
		}
		seen[strings.Join(node, ".")] = true
		out = append(out, node)
	}
	return out
}

// parallel: a tree, perhaps some sequential calls, a concurrent round; or a history whose last
// phase ends with a concurrent round (the first calls after a change, made at the same time).
func (g *gen) parallel() Input {
	r := g.r
	all := g.settingsList()
	switch k := r.Intn(10); {
	case k < 4: // one function, one ladder: every goroutine builds keys of the same setting
		s := all[r.Intn(len(all))]
		if r.Chance(1, 3) {
			s = kAddresses
		}
		in, spines := g.ladder([]string{s})
		in = finish(in)
		in.Parallel = g.workersOn(spines, []string{s}, nil)
		if r.Chance(1, 2) { // some sequential calls first; else the round is the first use of the instance
			in.Queries = in.Parallel.flat()
			if len(in.Queries) > 6 {
				in.Queries = in.Queries[:6]
			}
		}
		return in
	case k < 7: // all five functions on one ladder
		in, spines := g.ladder(all)
		in = finish(in)
		in.Parallel = g.workersOn(spines, all, nil)
		if r.Chance(1, 2) {
			in.Queries = in.Parallel.flat()
			if len(in.Queries) > 6 {
				in.Queries = in.Queries[:6]
			}
		}
		return in
	case k < 9: // a random tree: absent / zero / empty / malformed values, weird paths among the calls
		in := finish(g.random())
		spines := spinesOf(in.Leaves)
		if len(spines) == 0 {
			spines = [][]string{g.spine()}
		}
		in.Parallel = g.workersOn(spines, all, in.Queries)
		if r.Chance(1, 2) {
			in.Queries = nil
		}
		return in
	default: // a history; the last phase ends with a concurrent round
		in := g.history()
		if len(in.Later) == 0 {
			in.Parallel = &Parallel{Rounds: g.rounds(), Workers: [][]Query{in.Queries, in.Queries, in.Queries}}
			return in
		}
		last := &in.Later[len(in.Later)-1]
		asked := append(append([]Query{}, in.Queries...), last.Queries...)
		p := &Parallel{Rounds: g.rounds()}
		for w, nw := 0, r.Range(3, 6); w < nw; w++ {
			var qs []Query
			for n := r.Range(2, 4); n > 0; n-- {
				qs = append(qs, asked[r.Intn(len(asked))])
			}
			p.Workers = append(p.Workers, qs)
		}
		last.Parallel = p
		if r.Chance(1, 2) {
			last.Queries = nil // the goroutines are the first to ask after the change
		}
		return in
	}
}
