// Paths whose components carry punctuation other than the level separator: the client addresses
// clients.go really passes (eth2client.localhost:5052, eth2client.http://beacon:5052), names with
// '-' and '_'.  The only level separator is '.', so the levels of such a path are its DOTTED
// prefixes and nothing else.  The family configures values at the keys one gets by cutting the
// path string at a character that is NOT a dot ("near-miss" nodes: eth2client.localhost,
// eth2client.http, ...): they belong to other paths and must never be consulted.

package c19

import (
	"sort"
	"strings"
)

// punctSeps are the characters a lop-off step could mistake for a level separator.
const punctSeps = ":/-_@[]"

var punctTops = []string{"eth2client", "strategies", "submitter", "accountmanager", "a"}

var punctComps = []string{
	"localhost:5052", "http://beacon:5052", "https://user@host:5052/eth", "n1:5051", "[::1]:5052",
	"host-1:5052", "x-y", "beacon_node-2", "a:b:c", "unix:/run/beacon", "remote:5052", "b_c",
}

var punctBoolVars = []string{"enabled", "fast-track", "reduced-memory-usage"}

// nearMisses returns the strings path[:i] for every i with path[i] in punctSeps that are usable
// as a node (no empty component).  None of them is a dotted prefix of path.
func nearMisses(path string) []string {
	var out []string
	seen := map[string]bool{}
	for i := 1; i < len(path); i++ {
		if !strings.ContainsRune(punctSeps, rune(path[i])) {
			continue
		}
		n := path[:i]
		if seen[n] || strings.HasSuffix(n, ".") || strings.HasPrefix(n, ".") || strings.Contains(n, "..") {
			continue
		}
		seen[n] = true
		out = append(out, n)
	}
	return out
}

func hasPunct(path string) bool { return strings.ContainsAny(path, punctSeps) }

var punctLayers = []string{"set", "default", "config", "json", "yaml", "mixed"}

func (g *gen) punct() Input {
	r := g.r
	in := Input{Layer: punctLayers[r.Intn(len(punctLayers))], DefLevel: defLevels[r.Intn(len(defLevels))]}
	// the setting: half of the cases a hierarchical boolean (what clients.go resolves per address)
	var s string
	if r.Bool() {
		s = punctBoolVars[r.Intn(len(punctBoolVars))]
	} else {
		s = []string{kAddresses, kTimeout, kLogLevel, kConcurrency}[r.Intn(4)]
	}
	q := fnOfSetting(s)
	isBool := q.Fn == "bool"

	comps := []string{punctTops[r.Intn(len(punctTops))]}
	if r.Chance(1, 3) {
		comps = append(comps, vocab[1][r.Intn(len(vocab[1]))])
	}
	comps = append(comps, punctComps[r.Intn(len(punctComps))])
	if r.Chance(1, 4) {
		comps = append(comps, []string{"zz", "best", "x-y", "n2:5052"}[r.Intn(4)])
	}
	path := strings.Join(comps, ".")

	used := map[string]bool{}
	attach := func(node []string, want string) {
		k := strings.Join(node, ".")
		if used[k] {
			return
		}
		used[k] = true
		g.attach(&in, node, s, want)
	}

	// the near-miss value and the class of the genuine ones: for a boolean they are opposite
	nm := r.Bool()
	nmClass, genuine := "valid", "valid"
	if isBool {
		if nm {
			genuine = "zero"
		} else {
			nmClass = "zero"
		}
	}
	if r.Chance(3, 4) {
		attach(nil, genuine)
	}
	if s == kAddresses && r.Chance(1, 2) {
		g.attach(&in, nil, kAddress, "")
	}
	for k := 1; k < len(comps); k++ {
		if r.Chance(1, 3) {
			want := genuine
			if r.Chance(1, 3) {
				want = ""
			}
			attach(comps[:k], want)
		}
	}
	if r.Chance(1, 5) {
		attach(comps, "")
	}
	cands := nearMisses(path)
	var asked []string
	want := r.Range(1, 3)
	for i, j := range r.Perm(len(cands)) {
		if i >= want {
			break
		}
		attach(strings.Split(cands[j], "."), nmClass)
		asked = append(asked, cands[j])
	}

	add := func(p string) {
		q.Path = p
		in.Queries = append(in.Queries, q)
	}
	add(path)
	if len(asked) > 0 {
		add(asked[0]) // the other path, the one the near-miss value is for
	}
	add(strings.Join(comps[:len(comps)-1], "."))
	if r.Bool() {
		add(path + ".zz")
	}
	if r.Chance(1, 3) {
		add(comps[0])
	}
	if r.Chance(1, 3) {
		add("")
	}
	return in
}

// punctTags: families read off the input.  near-miss-configured = for some call, a value of the
// call's setting sits at a key formed by cutting the call's path at a non-dot character.
func punctTags(in Input) (tags []string, nontrivial bool) {
	set := map[string]bool{}
	segment := func(leaves []Leaf, queries []Query) {
		for _, q := range queries {
			if !hasPunct(q.Path) {
				continue
			}
			set["punct-path"] = true
			s := settingOf(q)
			for _, n := range nearMisses(q.Path) {
				for _, l := range leaves {
					if l.Kind != "nil" && strings.Join(l.Key, ".") == n+"."+s {
						set["punct-path:near-miss-configured"] = true
						nontrivial = true
						for i := 0; i < len(q.Path); i++ {
							if i == len(n) {
								set["punct-path:cut-at:"+string(q.Path[i])] = true
							}
						}
					}
				}
			}
		}
	}
	segment(in.Leaves, in.Queries)
	if in.Parallel != nil {
		segment(in.Leaves, in.Parallel.flat())
	}
	for t := range set {
		tags = append(tags, t)
	}
	sort.Strings(tags)
	return tags, nontrivial
}
