// C19: drives the five real hierarchical lookups of vouch's util package (BeaconNodeAddresses,
// Timeout, LogLevel, ProcessConcurrency, HierarchicalBool) on generated configuration trees set
// through viper (override, default, merged map, JSON document, YAML document, a mix of default +
// file + override, environment variables as main.go binds them) and generated
// dotted paths, and prints each tree with the calls and what they returned as a Gallina case for
// Check.C19.  A case may go on after its first calls: later phases change the configuration of the
// SAME viper instance (viper.Set / SetDefault / MergeConfigMap / MergeConfig of one leaf, an
// environment variable set or unset, a re-read document, a new level of the global logger; never
// viper.Reset) and call again; every answer is compared with the tree as it stood at the call.
// A case may also have concurrent rounds (parallel.go): several goroutines (real threads) make
// their calls at the same time, many times over, on the configuration standing still; every
// distinct answer a goroutine saw is printed and judged like a sequential one.
package c19

import (
	"bytes"
	"encoding/json"
	"fmt"
	"os"
	"runtime"
	"sort"
	"strings"
	"testing"

	"github.com/attestantio/vouch/util"
	"github.com/rs/zerolog"
	zerologger "github.com/rs/zerolog/log"
	"github.com/spf13/viper"

	. "verifharness/common"
)

// Leaf is one leaf of the configuration tree.
type Leaf struct {
	Key   []string `json:"key"`
	Kind  string   `json:"kind"` // nil | str | int | bool | list
	S     string   `json:"s,omitempty"`
	I     int64    `json:"i,omitempty"`
	B     bool     `json:"b,omitempty"`
	L     []string `json:"l,omitempty"`
	Class string   `json:"class,omitempty"` // generator's intent: valid | zero | empty | invalid | wrongtype | nil | map
}

type Query struct {
	Fn   string `json:"fn"` // addresses | timeout | loglevel | concurrency | bool
	Var  string `json:"var,omitempty"`
	Path string `json:"path"`
}

// Change is one change of the configuration between calls, made on the live viper instance
// through the case's layer.
type Change struct {
	Op       string `json:"op"`               // set | unset | reload | deflevel
	Leaf     *Leaf  `json:"leaf,omitempty"`   // set: the key and its new value; unset: the key (env layer only)
	Leaves   []Leaf `json:"leaves,omitempty"` // reload: the whole re-read tree (config / json / yaml layers)
	DefLevel int    `json:"deflevel,omitempty"`
}

// Phase is a later stretch of a case: changes, then calls.
type Phase struct {
	Changes  []Change  `json:"changes"`
	Queries  []Query   `json:"queries"`
	Parallel *Parallel `json:"parallel,omitempty"` // a concurrent round after the phase's calls
}

type Input struct {
	Layer    string   `json:"layer"` // set | default | config | json | yaml | mixed | env
	DefLevel int      `json:"deflevel"`
	Leaves   []Leaf   `json:"leaves"`
	Queries  []Query  `json:"queries"`
	Parallel *Parallel `json:"parallel,omitempty"` // a concurrent round on the installed tree, after Queries
	Later    []Phase  `json:"later,omitempty"`
	Tags     []string `json:"tags,omitempty"`
}

const (
	kAddresses   = "beacon-node-addresses"
	kAddress     = "beacon-node-address"
	kTimeout     = "timeout"
	kLogLevel    = "log-level"
	kConcurrency = "process-concurrency"
)

var boolVars = []string{"enabled", "fast-track"}
var fns = []string{"addresses", "timeout", "loglevel", "concurrency", "bool"}

func settingOf(q Query) string {
	switch q.Fn {
	case "addresses":
		return kAddresses
	case "timeout":
		return kTimeout
	case "loglevel":
		return kLogLevel
	case "concurrency":
		return kConcurrency
	default:
		return q.Var
	}
}

// ---------------------------------------------------------------------------------------------
// Value families.  Every family has valid values, the zero / empty values that decide whether a
// level "has a value", invalid text, wrong dynamic types, null, and a map in place of a scalar.

var vocab = [][]string{
	{"strategies", "submitter", "accountmanager", "a"},
	{"attestationdata", "beaconblockproposal", "multinode", "dirk", "b", "x-y"},
	{"best", "first", "majority", "c"},
	{"deep", "d"},
}

var levelNames = []string{"none", "trace", "debug", "warn", "warning", "info", "information", "err", "error", "fatal"}
var units = []string{"ns", "us", "ms", "s", "m", "h"}

func mixCase(r *Rand, s string) string {
	switch r.Intn(4) {
	case 0:
		return strings.ToUpper(s)
	case 1:
		return strings.ToUpper(s[:1]) + s[1:]
	default:
		return s
	}
}

type gen struct {
	r    *Rand
	addr int
}

func (g *gen) address() string {
	g.addr++
	return fmt.Sprintf("n%d:%d", g.addr, 5000+g.r.Intn(100))
}

// value draws a raw value for the setting.  want: "" = any class by the family's distribution.
func (g *gen) value(setting string, want string) Leaf {
	r := g.r
	cls := want
	if cls == "" {
		switch k := r.Intn(20); {
		case k < 9:
			cls = "valid"
		case k < 12:
			cls = "zero"
		case k < 14:
			cls = "empty"
		case k < 16:
			cls = "invalid"
		case k < 18:
			cls = "wrongtype"
		case k < 19:
			cls = "nil"
		default:
			cls = "map"
		}
	}
	l := Leaf{Class: cls}
	switch cls {
	case "nil":
		l.Kind = "nil"
		return l
	case "map":
		l.Kind = "int"
		l.I = int64(r.Range(1, 9))
		return l // the caller appends a component to the key
	case "empty":
		if setting == kAddresses || setting == kAddress {
			switch r.Intn(3) {
			case 0:
				l.Kind = "list" // empty list
			case 1:
				l.Kind, l.S = "str", ""
			default:
				l.Kind, l.S = "str", "  "
			}
			return l
		}
		l.Kind, l.S = "str", ""
		return l
	}
	switch setting {
	case kAddresses, kAddress:
		switch cls {
		case "valid":
			n := r.Range(1, 3)
			addrs := make([]string, n)
			for i := range addrs {
				addrs[i] = g.address()
			}
			if r.Chance(1, 3) { // the environment-variable form: one space-separated string
				l.Kind, l.S = "str", strings.Join(addrs, " ")
				if r.Chance(1, 4) {
					l.S = " " + strings.Join(addrs, "  ") + " "
				}
			} else {
				l.Kind, l.L = "list", addrs
			}
		case "zero":
			l.Kind = "list"
			l.Class = "empty"
		case "invalid": // a list with an empty address is still a non-empty list
			l.Kind, l.L = "list", []string{""}
		default: // wrongtype
			if r.Bool() {
				l.Kind, l.I = "int", int64(r.Range(0, 9000))
			} else {
				l.Kind, l.B = "bool", r.Bool()
			}
		}
	case kTimeout:
		switch cls {
		case "valid":
			n := r.Range(1, 999)
			switch r.Intn(6) {
			case 0:
				l.Kind, l.I = "int", int64(n)*1000000
			case 1:
				l.Kind, l.S = "str", fmt.Sprintf("%d", n)
			case 2:
				l.Kind, l.S = "str", fmt.Sprintf("-%d%s", n, units[r.Intn(len(units))])
			default:
				l.Kind, l.S = "str", fmt.Sprintf("%d%s", n, units[r.Intn(len(units))])
			}
		case "zero":
			switch r.Intn(4) {
			case 0:
				l.Kind, l.I = "int", 0
			case 1:
				l.Kind, l.S = "str", "0"
			case 2:
				l.Kind, l.S = "str", "0"+units[r.Intn(len(units))]
			default:
				l.Kind, l.S = "str", "-0s"
			}
		case "invalid":
			l.Kind, l.S = "str", []string{"soon", "fast", "abc", "never", "s", "ms"}[r.Intn(6)]
		default:
			if r.Bool() {
				l.Kind, l.B = "bool", r.Bool()
			} else {
				l.Kind, l.L = "list", []string{"5s"}
			}
		}
	case kLogLevel:
		switch cls {
		case "valid":
			l.Kind, l.S = "str", mixCase(r, levelNames[r.Intn(len(levelNames))])
		case "zero":
			l.Kind, l.S = "str", ""
			l.Class = "empty"
		case "invalid":
			l.Kind, l.S = "str", []string{"verbose", "loud", "panic", "7", "warn "}[r.Intn(5)]
		default:
			switch r.Intn(3) {
			case 0:
				l.Kind, l.I = "int", int64(r.Range(-1, 7))
			case 1:
				l.Kind, l.B = "bool", r.Bool()
			default:
				l.Kind, l.L = "list", []string{"debug"}
			}
		}
	case kConcurrency:
		switch cls {
		case "valid":
			n := r.Range(1, 64)
			switch r.Intn(4) {
			case 0:
				l.Kind, l.S = "str", fmt.Sprintf("%d", n)
			case 1:
				l.Kind, l.I = "int", int64(-n)
			default:
				l.Kind, l.I = "int", int64(n)
			}
		case "zero":
			if r.Bool() {
				l.Kind, l.I = "int", 0
			} else {
				l.Kind, l.S = "str", "0"
			}
		case "invalid":
			l.Kind, l.S = "str", []string{"many", "all", "x4", "-"}[r.Intn(4)]
		default:
			if r.Bool() {
				l.Kind, l.B = "bool", r.Bool()
			} else {
				l.Kind, l.L = "list", []string{"4"}
			}
		}
	default: // hierarchical boolean
		switch cls {
		case "valid":
			switch r.Intn(4) {
			case 0:
				l.Kind, l.S = "str", []string{"true", "True", "TRUE", "t", "T", "1"}[r.Intn(6)]
			default:
				l.Kind, l.B = "bool", true
			}
		case "zero": // an explicit false
			switch r.Intn(4) {
			case 0:
				l.Kind, l.S = "str", []string{"false", "False", "FALSE", "f", "F", "0"}[r.Intn(6)]
			default:
				l.Kind, l.B = "bool", false
			}
		case "invalid":
			l.Kind, l.S = "str", []string{"yes", "no", "on", "off", "tRuE"}[r.Intn(5)]
		default:
			if r.Bool() {
				l.Kind, l.I = "int", int64(r.Range(0, 2))
			} else {
				l.Kind, l.L = "list", []string{"true"}
			}
		}
	}
	return l
}

func (g *gen) attach(in *Input, node []string, setting string, want string) {
	l := g.value(setting, want)
	l.Key = append(append([]string{}, node...), setting)
	if l.Class == "map" {
		l.Key = append(l.Key, "x")
	}
	in.Leaves = append(in.Leaves, l)
}

func (g *gen) spine() []string {
	d := g.r.Range(1, 4)
	s := make([]string, d)
	for i := range s {
		s[i] = vocab[i][g.r.Intn(len(vocab[i]))]
	}
	return s
}

func (g *gen) queryPath(spines [][]string) (string, string) {
	r := g.r
	sp := spines[r.Intn(len(spines))]
	switch k := r.Intn(20); {
	case k < 8:
		return strings.Join(sp[:r.Range(1, len(sp))], "."), "node"
	case k < 13:
		p := append([]string{}, sp[:r.Range(1, len(sp))]...)
		for i := r.Range(1, 2); i > 0; i-- {
			p = append(p, []string{"zz", "nope", "other"}[r.Intn(3)])
		}
		return strings.Join(p, "."), "below-node"
	case k < 16:
		p := append([]string{}, sp[:r.Range(0, len(sp)-1)]...)
		for len(p) < 4 && (len(p) == 0 || r.Chance(2, 3)) {
			p = append(p, vocab[len(p)][r.Intn(len(vocab[len(p)]))])
		}
		return strings.Join(p, "."), "branch"
	case k < 17:
		return "", "top"
	case k < 18:
		// a component that is itself a setting name
		p := append(append([]string{}, sp[:r.Range(1, len(sp))]...), []string{kTimeout, kLogLevel, kAddresses}[r.Intn(3)])
		return strings.Join(p, "."), "through-setting"
	default:
		base := strings.Join(sp[:r.Range(1, len(sp))], ".")
		switch r.Intn(5) {
		case 0:
			return base + ".", "weird"
		case 1:
			return "." + base, "weird"
		case 2:
			return ".", "weird"
		case 3:
			return strings.Replace(base, ".", "..", 1), "weird"
		default:
			return base + "..", "weird"
		}
	}
}

var layers = []string{"set", "default", "config", "json", "yaml", "mixed", "env"}
var defLevels = []int{-1, 0, 1, 2, 3, 4, 5, 7}

func (g *gen) settingsList() []string {
	return []string{kAddresses, kTimeout, kLogLevel, kConcurrency, boolVars[0], boolVars[1]}
}

// random: values present / absent / zero / empty / malformed at every level of 1-3 spines.
func (g *gen) random() Input {
	r := g.r
	in := Input{Layer: layers[r.Intn(len(layers))], DefLevel: defLevels[r.Intn(len(defLevels))]}
	var spines [][]string
	for i := r.Range(1, 3); i > 0; i-- {
		spines = append(spines, g.spine())
	}
	nodes := map[string][]string{}
	for _, sp := range spines {
		for i := 1; i <= len(sp); i++ {
			nodes[strings.Join(sp[:i], ".")] = sp[:i]
		}
	}
	names := make([]string, 0, len(nodes))
	for n := range nodes {
		names = append(names, n)
	}
	sort.Strings(names)
	density := r.Range(2, 6) // out of 10
	for _, s := range g.settingsList() {
		if r.Chance(3, 4) {
			g.attach(&in, nil, s, "")
		}
		for _, n := range names {
			if r.Chance(density, 10) {
				g.attach(&in, nodes[n], s, "")
			}
		}
	}
	if r.Chance(1, 2) {
		g.attach(&in, nil, kAddress, "")
	}
	for i := r.Range(4, 8); i > 0; i-- {
		fn := fns[r.Intn(len(fns))]
		q := Query{Fn: fn}
		if fn == "bool" {
			q.Var = boolVars[r.Intn(len(boolVars))]
		}
		q.Path, _ = g.queryPath(spines)
		in.Queries = append(in.Queries, q)
	}
	return in
}

// focused: one spine, one setting, values at exactly two levels (the upper one valid; the deeper one
// valid, or an explicit zero / false / empty), every other level absent; queried at and below the
// deeper level and between the two.
func (g *gen) focused() Input {
	r := g.r
	in := Input{Layer: layers[r.Intn(len(layers))], DefLevel: defLevels[r.Intn(len(defLevels))]}
	sp := g.spine()
	for len(sp) < 2 {
		sp = g.spine()
	}
	settings := g.settingsList()
	s := settings[r.Intn(len(settings))]
	hi := r.Range(0, len(sp)-1)
	lo := r.Range(hi+1, len(sp))
	upper := "valid"
	if r.Chance(1, 8) {
		upper = "zero"
	}
	g.attach(&in, sp[:hi], s, upper)
	deeper := []string{"valid", "valid", "zero", "zero", "empty", "invalid", "wrongtype", "nil", "map"}[r.Intn(9)]
	g.attach(&in, sp[:lo], s, deeper)
	if s == kAddresses && r.Chance(1, 2) {
		g.attach(&in, nil, kAddress, "")
	}
	if r.Chance(1, 3) { // a third level in between or above
		k := r.Range(0, len(sp))
		if k != hi && k != lo {
			g.attach(&in, sp[:k], s, "")
		}
	}
	q := Query{}
	switch s {
	case kAddresses:
		q.Fn = "addresses"
	case kTimeout:
		q.Fn = "timeout"
	case kLogLevel:
		q.Fn = "loglevel"
	case kConcurrency:
		q.Fn = "concurrency"
	default:
		q.Fn, q.Var = "bool", s
	}
	for k := 1; k <= len(sp); k++ {
		q.Path = strings.Join(sp[:k], ".")
		in.Queries = append(in.Queries, q)
	}
	q.Path = strings.Join(sp, ".") + ".zz"
	in.Queries = append(in.Queries, q)
	q.Path = strings.Join(sp[:lo], ".") + ".nope.other"
	in.Queries = append(in.Queries, q)
	q.Path = ""
	in.Queries = append(in.Queries, q)
	return in
}

// forEnv rewrites the leaves into what environment variables can carry: every value is a string
// (lists are space-separated, as vouch's own tests write them), and an unset or empty variable is
// no leaf at all.
func forEnv(leaves []Leaf) []Leaf {
	var out []Leaf
	for _, l := range leaves {
		switch {
		case l.Class == "map" || l.Kind == "nil":
			continue
		case l.Kind == "int":
			l.Kind, l.S, l.I = "str", fmt.Sprintf("%d", l.I), 0
		case l.Kind == "bool":
			l.Kind, l.S, l.B = "str", fmt.Sprintf("%t", l.B), false
		case l.Kind == "list":
			l.Kind, l.S, l.L = "str", strings.Join(l.L, " "), nil
		}
		if l.S == "" {
			continue
		}
		out = append(out, l)
	}
	return out
}

func finish(in Input) Input {
	if in.Layer == "env" {
		in.Leaves = forEnv(in.Leaves)
	}
	return in
}

// ---------------------------------------------------------------------------------------------
// Histories: one viper instance, calls, a change at or above a path that was asked for, calls again.

func keyEq(a, b []string) bool {
	if len(a) != len(b) {
		return false
	}
	for i := range a {
		if a[i] != b[i] {
			return false
		}
	}
	return true
}

func keyPrefix(p, k []string) bool { return len(p) <= len(k) && keyEq(p, k[:len(p)]) }

// applyChange mirrors Model.apply_change on the leaves (the level of the logger aside).
func applyChange(cur []Leaf, ch Change) []Leaf {
	switch ch.Op {
	case "set", "unset":
		out := make([]Leaf, 0, len(cur)+1)
		if ch.Op == "set" {
			out = append(out, *ch.Leaf)
		}
		for _, l := range cur {
			if !keyEq(l.Key, ch.Leaf.Key) {
				out = append(out, l)
			}
		}
		return out
	case "reload":
		return append([]Leaf{}, ch.Leaves...)
	}
	return cur
}

// phaseCalls: the calls of a phase, the sequential ones and those of its concurrent round.
func phaseCalls(ph Phase) []Query {
	if ph.Parallel == nil {
		return ph.Queries
	}
	return append(append([]Query{}, ph.Queries...), ph.Parallel.flat()...)
}

// conflicts: the key would turn an inner node into a leaf or hang a leaf below a leaf; viper's
// layers disagree on what shadows what there, and no such tree is generated.
func conflicts(cur []Leaf, key []string) bool {
	for _, l := range cur {
		if !keyEq(l.Key, key) && (keyPrefix(l.Key, key) || keyPrefix(key, l.Key)) {
			return true
		}
	}
	return false
}

func fnOfSetting(s string) Query {
	switch s {
	case kAddresses, kAddress:
		return Query{Fn: "addresses"}
	case kTimeout:
		return Query{Fn: "timeout"}
	case kLogLevel:
		return Query{Fn: "loglevel"}
	case kConcurrency:
		return Query{Fn: "concurrency"}
	}
	return Query{Fn: "bool", Var: s}
}

func properComps(path string) ([]string, bool) {
	if path == "" {
		return nil, true
	}
	comps := strings.Split(path, ".")
	for _, c := range comps {
		if c == "" {
			return nil, false
		}
	}
	return comps, true
}

// changeFor shapes a leaf into the change the layer can carry.
func changeFor(layer string, l Leaf) Change {
	switch layer {
	case "env":
		e := forEnv([]Leaf{l})
		if len(e) == 0 {
			return Change{Op: "unset", Leaf: &Leaf{Key: l.Key}}
		}
		return Change{Op: "set", Leaf: &e[0]}
	case "mixed":
		// the change goes to the override layer, where a null lets the lower layers show through:
		// an explicit empty string is the "no value" of that layer
		if l.Kind == "nil" {
			l.Kind, l.S, l.Class = "str", "", "empty"
		}
	}
	return Change{Op: "set", Leaf: &l}
}

// history: a focused or random tree and its calls, then 1-3 phases; each phase changes one or two
// keys at a level (the top level included) of a path asked for before - a value appears, changes,
// or goes away (zero / empty / null / unset) - or the logger level, or re-reads a changed document,
// and then repeats earlier calls and asks siblings that run through the same prefixes.
func (g *gen) history() Input {
	r := g.r
	var in Input
	if r.Chance(1, 3) {
		in = g.random()
	} else {
		in = g.focused()
	}
	if r.Chance(1, 3) {
		in.Queries = in.Queries[:r.Range(1, len(in.Queries))]
	}
	in = finish(in)
	cur := append([]Leaf{}, in.Leaves...)
	asked := append([]Query{}, in.Queries...)
	for ph := r.Range(1, 3); ph > 0; ph-- {
		var phase Phase
		var touched []Query // (setting, node) pairs as queries on the changed node
		for nch := r.Range(1, 2); nch > 0; nch-- {
			if r.Chance(1, 10) {
				phase.Changes = append(phase.Changes, Change{Op: "deflevel", DefLevel: defLevels[r.Intn(len(defLevels))]})
				continue
			}
			// a level of a path asked for before
			var q Query
			var comps []string
			ok := false
			for try := 0; try < 8 && !ok; try++ {
				q = asked[r.Intn(len(asked))]
				comps, ok = properComps(q.Path)
			}
			if !ok {
				continue
			}
			k := r.Range(0, len(comps))
			if r.Chance(1, 6) {
				k = 0
			}
			setting := settingOf(q)
			if r.Chance(1, 12) { // another setting at the same node: must not matter
				setting = g.settingsList()[r.Intn(6)]
			}
			if q.Fn == "addresses" && k == 0 && r.Chance(1, 3) {
				setting = kAddress
			}
			key := append(append([]string{}, comps[:k]...), setting)
			if conflicts(cur, key) {
				continue
			}
			cls := []string{"valid", "valid", "valid", "valid", "zero", "empty", "nil", "invalid", "wrongtype"}[r.Intn(9)]
			l := g.value(setting, cls)
			l.Key = key
			ch := changeFor(in.Layer, l)
			if (in.Layer == "config" || in.Layer == "json" || in.Layer == "yaml") && r.Chance(1, 6) {
				// the document is edited and read again as a whole
				next := applyChange(cur, ch)
				if len(next) > 1 && r.Chance(1, 2) {
					drop := r.Intn(len(next))
					next = append(append([]Leaf{}, next[:drop]...), next[drop+1:]...)
				}
				ch = Change{Op: "reload", Leaves: next}
			}
			cur = applyChange(cur, ch)
			phase.Changes = append(phase.Changes, ch)
			tq := fnOfSetting(setting)
			if tq.Fn == q.Fn {
				tq.Var = q.Var
			}
			tq.Path = strings.Join(comps[:k], ".")
			touched = append(touched, tq)
		}
		if len(phase.Changes) == 0 {
			continue
		}
		// calls: earlier ones again, the changed nodes, and siblings below them
		for _, i := range r.Perm(len(asked)) {
			if len(phase.Queries) >= 5 {
				break
			}
			phase.Queries = append(phase.Queries, asked[i])
		}
		for _, tq := range touched {
			phase.Queries = append(phase.Queries, tq)
			sib := tq
			if sib.Path == "" {
				sib.Path = vocab[0][r.Intn(len(vocab[0]))]
			} else {
				sib.Path += "." + []string{"zz", "other", "best", "c"}[r.Intn(4)]
			}
			phase.Queries = append(phase.Queries, sib)
		}
		asked = append(asked, phase.Queries...)
		in.Later = append(in.Later, phase)
	}
	return in
}

// ---------------------------------------------------------------------------------------------
// Driving the implementation.

var envReplacer = strings.NewReplacer("-", "_", ".", "_")

func envName(key []string) string {
	return "VOUCH_" + strings.ToUpper(envReplacer.Replace(strings.Join(key, ".")))
}

func goValue(l Leaf) any {
	switch l.Kind {
	case "str":
		return l.S
	case "int":
		return int(l.I)
	case "bool":
		return l.B
	case "list":
		v := make([]any, len(l.L))
		for i, s := range l.L {
			v[i] = s
		}
		return v
	default:
		return nil
	}
}

func nested(leaves []Leaf) map[string]any {
	root := map[string]any{}
	for _, l := range leaves {
		m := root
		for _, k := range l.Key[:len(l.Key)-1] {
			next, ok := m[k].(map[string]any)
			if !ok {
				next = map[string]any{}
				m[k] = next
			}
			m = next
		}
		m[l.Key[len(l.Key)-1]] = goValue(l)
	}
	return root
}

// install puts the tree into viper through the case's layer and returns the clean-up.
func install(in Input) (func(), error) {
	viper.Reset()
	cleanup := func() { viper.Reset() }
	switch in.Layer {
	case "env": // as main.go: prefix VOUCH, '-' and '.' replaced by '_', AutomaticEnv
		viper.SetEnvPrefix("VOUCH")
		viper.SetEnvKeyReplacer(envReplacer)
		viper.AutomaticEnv()
		var names []string
		for _, l := range in.Leaves {
			if l.Kind != "str" {
				return cleanup, fmt.Errorf("env layer carries strings only, got %s", l.Kind)
			}
			names = append(names, envName(l.Key))
			os.Setenv(envName(l.Key), l.S)
		}
		for _, ph := range in.Later {
			for _, ch := range ph.Changes {
				if ch.Op == "set" {
					names = append(names, envName(ch.Leaf.Key))
				}
			}
		}
		return func() {
			for _, n := range names {
				os.Unsetenv(n)
			}
			viper.Reset()
		}, nil
	case "mixed": // as production: defaults, a configuration file and overrides at once
		var cfg []Leaf
		for i, l := range in.Leaves {
			switch (i + len(l.Key)) % 3 {
			case 0:
				viper.SetDefault(strings.Join(l.Key, "."), goValue(l))
			case 1:
				viper.Set(strings.Join(l.Key, "."), goValue(l))
			default:
				cfg = append(cfg, l)
			}
		}
		return cleanup, viper.MergeConfigMap(nested(cfg))
	case "set":
		for _, l := range in.Leaves {
			viper.Set(strings.Join(l.Key, "."), goValue(l))
		}
	case "default":
		for _, l := range in.Leaves {
			viper.SetDefault(strings.Join(l.Key, "."), goValue(l))
		}
	case "config":
		return cleanup, viper.MergeConfigMap(nested(in.Leaves))
	case "json", "yaml":
		doc, err := json.Marshal(nested(in.Leaves))
		if err != nil {
			return cleanup, err
		}
		viper.SetConfigType(in.Layer) // a JSON document is a YAML document as well
		return cleanup, viper.ReadConfig(bytes.NewReader(doc))
	default:
		return cleanup, fmt.Errorf("unknown layer %q", in.Layer)
	}
	return cleanup, nil
}

// applyLive makes one change on the live viper instance, through the case's layer, without Reset.
func applyLive(layer string, ch Change) error {
	docOf := func(leaves []Leaf) (*bytes.Reader, error) {
		doc, err := json.Marshal(nested(leaves))
		return bytes.NewReader(doc), err
	}
	switch ch.Op {
	case "deflevel":
		zerologger.Logger = zerologger.Logger.Level(zerolog.Level(ch.DefLevel))
		return nil
	case "unset":
		if layer != "env" {
			return fmt.Errorf("unset is an environment change, layer is %q", layer)
		}
		return os.Unsetenv(envName(ch.Leaf.Key))
	case "reload":
		switch layer {
		case "config":
			viper.SetConfigType("json")
		case "json", "yaml":
		default:
			return fmt.Errorf("reload needs a document layer, layer is %q", layer)
		}
		rd, err := docOf(ch.Leaves)
		if err != nil {
			return err
		}
		return viper.ReadConfig(rd)
	case "set":
		l := *ch.Leaf
		key := strings.Join(l.Key, ".")
		switch layer {
		case "env":
			if l.Kind != "str" || l.S == "" {
				return fmt.Errorf("env layer carries non-empty strings only")
			}
			return os.Setenv(envName(l.Key), l.S)
		case "set":
			viper.Set(key, goValue(l))
		case "mixed":
			if l.Kind == "nil" {
				return fmt.Errorf("a null override is transparent; not a change of the mixed layer")
			}
			viper.Set(key, goValue(l))
		case "default":
			viper.SetDefault(key, goValue(l))
		case "config":
			return viper.MergeConfigMap(nested([]Leaf{l}))
		case "json", "yaml":
			rd, err := docOf([]Leaf{l})
			if err != nil {
				return err
			}
			return viper.MergeConfig(rd)
		default:
			return fmt.Errorf("unknown layer %q", layer)
		}
		return nil
	}
	return fmt.Errorf("unknown change %q", ch.Op)
}

func changeTerm(ch Change) string {
	switch ch.Op {
	case "set":
		return App("ChSet", strList(ch.Leaf.Key), rawTerm(*ch.Leaf))
	case "unset":
		return App("ChDel", strList(ch.Leaf.Key))
	case "reload":
		leaves := make([]string, 0, len(ch.Leaves))
		for _, l := range ch.Leaves {
			leaves = append(leaves, Pair(strList(l.Key), rawTerm(l)))
		}
		return App("ChReload", List(leaves))
	default:
		return App("ChDefLevel", Z(int64(ch.DefLevel)))
	}
}

func strList(l []string) string {
	items := make([]string, len(l))
	for i, s := range l {
		items[i] = Str(s)
	}
	return List(items)
}

// call runs one query on the real function and returns the Gallina query term and a JSON-able
// rendering of what was observed.
func call(q Query) (term string, obs any) {
	defer func() {
		if p := recover(); p != nil {
			term, obs = App("QPanic", Str(q.Path)), fmt.Sprintf("panic: %v", p)
		}
	}()
	switch q.Fn {
	case "addresses":
		res := util.BeaconNodeAddresses(q.Path)
		if res == nil {
			return App("QAddr", Str(q.Path), None()), nil
		}
		return App("QAddr", Str(q.Path), Some(strList(res))), res
	case "timeout":
		res := util.Timeout(q.Path)
		return App("QTimeout", Str(q.Path), Z(int64(res))), int64(res)
	case "loglevel":
		res := util.LogLevel(q.Path)
		return App("QLevel", Str(q.Path), Z(int64(res))), int64(res)
	case "concurrency":
		res := util.ProcessConcurrency(q.Path)
		return App("QConc", Str(q.Path), Z(res)), res
	case "bool":
		res := util.HierarchicalBool(q.Var, q.Path)
		return App("QBool", Str(q.Var), Str(q.Path), Bool(res)), res
	}
	return App("QPanic", Str(q.Path)), "unknown function " + q.Fn
}

func rawTerm(l Leaf) string {
	switch l.Kind {
	case "str":
		return App("RStr", Str(l.S))
	case "int":
		return App("RInt", Z(l.I))
	case "bool":
		return App("RBool", Bool(l.B))
	case "list":
		return App("RList", strList(l.L))
	default:
		return "RNil"
	}
}

// ---------------------------------------------------------------------------------------------
// Families, computed from the input alone.

// present returns, for a query, the classes of the leaves found at the candidate keys, deepest
// level first (index 0 = the full path, last = the top level); "" where nothing is configured.
func present(leaves []Leaf, q Query) []string {
	var comps []string
	if q.Path != "" {
		comps = strings.Split(q.Path, ".")
	}
	s := settingOf(q)
	out := make([]string, 0, len(comps)+1)
	for k := len(comps); k >= 0; k-- {
		key := strings.Join(append(append([]string{}, comps[:k]...), s), ".")
		cls := ""
		for _, l := range leaves {
			lk := strings.Join(l.Key, ".")
			if lk == key && l.Kind != "nil" {
				cls = l.Class
				if cls == "" {
					cls = "unclassified"
				}
			} else if strings.HasPrefix(lk, key+".") {
				cls = "map"
			}
		}
		out = append(out, cls)
	}
	return out
}

func classify(in Input) (tags []string, nontrivial bool, counts []string) {
	set := map[string]bool{}
	segment := func(leaves []Leaf, queries []Query) {
		nodes := map[string]bool{}
		for _, l := range leaves {
			for i := 1; i < len(l.Key); i++ {
				nodes[strings.Join(l.Key[:i], ".")] = true
			}
		}
		for _, q := range queries {
			pr := present(leaves, q)
			n, deepest := 0, ""
			for _, c := range pr {
				if c != "" {
					if n == 0 {
						deepest = c
					}
					n++
				}
			}
			counts = append(counts, fmt.Sprintf("levels-with-a-raw-value:%d", n))
			if n >= 2 {
				nontrivial = true
				set["two-or-more-levels"] = true
				if n == 2 {
					set["exactly-two-levels"] = true
				}
				switch deepest {
				case "zero":
					set["explicit-zero-or-false-deeper"] = true
				case "empty":
					set["explicit-empty-deeper"] = true
				case "invalid", "wrongtype", "map":
					set["malformed-deeper"] = true
				}
			}
			if q.Path != "" && !nodes[q.Path] {
				set["nonexistent-branch"] = true
			}
			if q.Path == "" {
				set["top-level-query"] = true
			}
			if strings.HasPrefix(q.Path, ".") || strings.HasSuffix(q.Path, ".") || strings.Contains(q.Path, "..") {
				set["weird-path"] = true
			}
		}
	}
	segment(in.Leaves, in.Queries)
	if in.Parallel != nil {
		segment(in.Leaves, in.Parallel.flat())
		for _, t := range in.Parallel.tags(len(in.Queries) == 0) {
			set[t] = true
		}
	}

	// histories: which keys changed, was a path through the changed level asked before and again after
	through := func(q Query, key []string) (int, bool) {
		comps, ok := properComps(q.Path)
		if !ok || len(key) == 0 {
			return 0, false
		}
		setting, node := key[len(key)-1], key[:len(key)-1]
		if settingOf(q) != setting && !(q.Fn == "addresses" && setting == kAddress && len(node) == 0) {
			return 0, false
		}
		return len(comps) - len(node), keyPrefix(node, comps)
	}
	cur := append([]Leaf{}, in.Leaves...)
	asked := append([]Query{}, in.Queries...)
	for _, ph := range in.Later {
		set["history"] = true
		var changed [][]string
		for _, ch := range ph.Changes {
			next := applyChange(cur, ch)
			index := func(ls []Leaf) map[string]string {
				m := map[string]string{}
				for i := len(ls) - 1; i >= 0; i-- {
					l := ls[i]
					l.Class = ""
					b, _ := json.Marshal(l)
					m[strings.Join(l.Key, "\x00")] = string(b)
				}
				return m
			}
			before, after := index(cur), index(next)
			for k, v := range after {
				if before[k] != v {
					changed = append(changed, strings.Split(k, "\x00"))
				}
			}
			for k := range before {
				if _, ok := after[k]; !ok {
					changed = append(changed, strings.Split(k, "\x00"))
				}
			}
			if ch.Op == "deflevel" {
				set["history:logger-level-changed"] = true
			}
			if ch.Op == "reload" {
				set["history:reload"] = true
			}
			cur = next
		}
		for _, key := range changed {
			if len(key) == 1 {
				set["history:top-level-changed"] = true
			}
			before := false
			for _, q := range asked {
				if _, ok := through(q, key); ok {
					before = true
				}
			}
			for _, q := range phaseCalls(ph) {
				below, ok := through(q, key)
				if !ok || !before {
					continue
				}
				set["history:change-on-asked-path"] = true
				nontrivial = true
				// nothing configured deeper than the changed level: the change decides the answer
				pr := present(cur, q)
				decides := true
				for i := 0; i < below && i < len(pr); i++ {
					if pr[i] != "" {
						decides = false
					}
				}
				if decides {
					set["history:change-decides"] = true
				}
			}
		}
		segment(cur, ph.Queries)
		asked = append(asked, ph.Queries...)
		if ph.Parallel != nil {
			segment(cur, ph.Parallel.flat())
			for _, t := range ph.Parallel.tags(len(ph.Queries) == 0) {
				set[t] = true
			}
			set["parallel:after-a-change"] = true
			asked = append(asked, ph.Parallel.flat()...)
		}
	}
	set["layer:"+in.Layer] = true
	for t := range set {
		tags = append(tags, t)
	}
	sort.Strings(tags)
	return tags, nontrivial, counts
}

// ---------------------------------------------------------------------------------------------

func runCase(t *testing.T, col *Collector, in Input) {
	cleanup, err := install(in)
	defer cleanup()
	if err != nil {
		t.Fatalf("installing the configuration (%s): %v", in.Layer, err)
	}
	saved := zerologger.Logger
	zerologger.Logger = zerologger.Logger.Level(zerolog.Level(in.DefLevel))
	defer func() { zerologger.Logger = saved }()

	qterms := make([]string, 0, len(in.Queries))
	observed := make([]any, 0, len(in.Queries))
	for _, q := range in.Queries {
		term, obs := call(q)
		qterms = append(qterms, term)
		observed = append(observed, obs)
		col.Count("fn:" + q.Fn)
	}

	// the concurrent round on the installed tree
	parTerms := []string{}
	var observedPar [][]any
	if in.Parallel != nil {
		lists := runParallel(in.Parallel, col)
		for _, l := range lists {
			ts := make([]string, 0, len(l))
			seen := make([]any, 0, len(l))
			for _, a := range l {
				ts = append(ts, a.term)
				seen = append(seen, a.obs)
			}
			parTerms = append(parTerms, List(ts))
			observedPar = append(observedPar, seen)
		}
	}

	// later phases: the same viper instance, changed in place
	later := make([]string, 0, len(in.Later))
	observedLater := make([][]any, 0, len(in.Later))
	for _, ph := range in.Later {
		chterms := make([]string, 0, len(ph.Changes))
		for _, ch := range ph.Changes {
			if err := applyLive(in.Layer, ch); err != nil {
				t.Fatalf("changing the configuration (%s, %s): %v", in.Layer, ch.Op, err)
			}
			chterms = append(chterms, changeTerm(ch))
			col.Count("change:" + ch.Op)
			if ch.Op == "set" {
				col.Count("change-value-class:" + ch.Leaf.Class)
			}
		}
		pq := make([]string, 0, len(ph.Queries))
		po := make([]any, 0, len(ph.Queries))
		for _, q := range ph.Queries {
			term, obs := call(q)
			pq = append(pq, term)
			po = append(po, obs)
			col.Count("fn-after-change:" + q.Fn)
		}
		if ph.Parallel != nil { // printed as calls of this phase
			for _, l := range runParallel(ph.Parallel, col) {
				for _, a := range l {
					pq = append(pq, a.term)
					po = append(po, a.obs)
				}
			}
		}
		later = append(later, Pair(List(chterms), List(pq)))
		observedLater = append(observedLater, po)
	}
	col.Count(fmt.Sprintf("later-phases:%d", len(in.Later)))

	leaves := make([]string, 0, len(in.Leaves))
	for _, l := range in.Leaves {
		leaves = append(leaves, Pair(strList(l.Key), rawTerm(l)))
		col.Count("value-class:" + l.Class)
	}
	col.Count("layer:" + in.Layer)
	tags, nontrivial, counts := classify(in)
	for _, c := range counts {
		col.Count(c)
	}
	ptags, pnontrivial := punctTags(in)
	tags = append(tags, ptags...)
	nontrivial = nontrivial || pnontrivial
	tags = append(tags, in.Tags...)
	key, _ := json.Marshal(in)
	id := col.NextID()
	col.Add(Case{
		Term: Record("c_id", N(id), "c_cfg", List(leaves), "c_deflevel", Z(int64(in.DefLevel)), "c_queries", List(qterms),
			"c_parallel", List(parTerms), "c_later", List(later)),
		Key: string(key), Nontrivial: nontrivial, Tags: tags,
		Sample: map[string]any{"input": in, "observed": observed, "observed_parallel": observedPar, "observed_later": observedLater},
	})
}

func TestC19(t *testing.T) {
	col := NewCollector("C19", "Check.C19",
		"configuration trees over 1-3 spines of depth 1-4 with the five hierarchical settings present / absent / zero / empty / malformed at every level, installed through one viper layer, and 4-8 calls of the real util functions per tree; a quarter of the cases go on as a history on the same viper instance (1-3 phases of changes at levels of paths already asked for - value set, changed, removed, document re-read, logger level - each followed by repeated and sibling calls); a tenth of the cases have a concurrent round (3-8 goroutines calling at the same time, 150-400 times over (one round in eight: ten times as many; twenty times as many when one case is replayed alone), on the configuration standing still: a ladder tree with values at 2-3 levels of 3-6 spines, a random tree, or the last phase of a history; on a fresh instance or after sequential calls; the same function or all five; every distinct answer seen is printed, and the calls are made once more one at a time afterwards); a tenth of the cases ask paths with punctuation other than '.' inside a component (client addresses host:port and scheme://host:port as clients.go passes them, names with '-' '_') on a tree that also holds values at 1-3 keys formed by cutting the path string at such a character (keys of other paths, never levels of this one); non-trivial = some call has a raw value configured at two or more of its candidate levels (so the choice of level decides the result), or such a near-miss key is configured for a call, or a later phase changes a candidate key of a path asked for before the change and asked through again after it; distinct by full input text")
	n := EnvInt("VERIF_N", 1500)
	if runtime.GOMAXPROCS(0) < 4 { // the concurrent rounds want real parallelism
		runtime.GOMAXPROCS(4)
	}
	// main.go's environment binding is one of the layers: start from a clean VOUCH_ namespace.
	for _, kv := range os.Environ() {
		if strings.HasPrefix(kv, "VOUCH_") {
			os.Unsetenv(strings.SplitN(kv, "=", 2)[0])
		}
	}
	var ins []Input
	for _, in := range LoadInputs[Input]("C19") {
		in.Tags = append(in.Tags, "corpus")
		ins = append(ins, in)
	}
	rng := NewRand(Seed())
	for i := 0; i < n; i++ {
		g := &gen{r: rng.Fork()}
		if k := g.r.Intn(20); k < 5 && g.r.Chance(2, 5) { // a tenth of the cases: concurrent rounds
			in := g.parallel()
			in.Tags = append(in.Tags, "gen:parallel")
			ins = append(ins, in)
		} else if k < 5 {
			in := g.history()
			in.Tags = append(in.Tags, "gen:history")
			ins = append(ins, in)
		} else if k < 11 {
			in := finish(g.focused())
			in.Tags = append(in.Tags, "gen:focused")
			ins = append(ins, in)
		} else if k < 13 { // a tenth of the cases: punctuation other than '.' inside path components
			in := g.punct()
			in.Tags = append(in.Tags, "gen:punct")
			ins = append(ins, in)
		} else {
			in := finish(g.random())
			in.Tags = append(in.Tags, "gen:random")
			ins = append(ins, in)
		}
	}
	for _, in := range ins {
		runCase(t, col, in)
	}
	if err := col.Flush(); err != nil {
		t.Fatal(err)
	}
}
