// Package common holds what every property harness shares: the PRNG, the Gallina term printer,
// the case-file writer and the statistics that end up in the evidence files.
package common

import (
	"crypto/sha256"
	"encoding/hex"
	"encoding/json"
	"fmt"
	"os"
	"path/filepath"
	"sort"
	"strconv"
	"strings"
)

// ---------------------------------------------------------------------------------------------
// PRNG: splitmix64; every random choice of a run derives from VERIF_SEED.

type Rand struct{ s uint64 }

// NewRand: the initial state is a hash of the seed (SplitMix64 finaliser, twice), so that the streams
// of consecutive seeds are unrelated (seed*gamma alone would make seed+1 the same stream one step on).
func NewRand(seed uint64) *Rand {
	z := seed + 0x1234567
	for i := 0; i < 2; i++ {
		z += 0x9E3779B97F4A7C15
		z = (z ^ (z >> 30)) * 0xBF58476D1CE4E5B9
		z = (z ^ (z >> 27)) * 0x94D049BB133111EB
		z ^= z >> 31
	}
	return &Rand{s: z}
}

func (r *Rand) U64() uint64 {
	r.s += 0x9E3779B97F4A7C15
	z := r.s
	z = (z ^ (z >> 30)) * 0xBF58476D1CE4E5B9
	z = (z ^ (z >> 27)) * 0x94D049BB133111EB
	return z ^ (z >> 31)
}

// Intn returns a value in [0,n).
func (r *Rand) Intn(n int) int {
	if n <= 0 {
		return 0
	}
	return int(r.U64() % uint64(n))
}

// Range returns a value in [lo,hi].
func (r *Rand) Range(lo, hi int) int { return lo + r.Intn(hi-lo+1) }

func (r *Rand) Bool() bool { return r.U64()&1 == 1 }

// Chance is true with probability num/den.
func (r *Rand) Chance(num, den int) bool { return r.Intn(den) < num }

// Fork derives an independent stream (so that case i does not depend on how many draws case i-1 made).
func (r *Rand) Fork() *Rand { return &Rand{s: r.U64()} }

// Perm returns a random permutation of 0..n-1.
func (r *Rand) Perm(n int) []int {
	p := make([]int, n)
	for i := range p {
		p[i] = i
	}
	for i := n - 1; i > 0; i-- {
		j := r.Intn(i + 1)
		p[i], p[j] = p[j], p[i]
	}
	return p
}

// ---------------------------------------------------------------------------------------------
// Gallina terms.

func N(x uint64) string { return strconv.FormatUint(x, 10) + "%N" }
func Z(x int64) string {
	if x < 0 {
		return "(" + strconv.FormatInt(x, 10) + ")%Z"
	}
	return strconv.FormatInt(x, 10) + "%Z"
}
func Nat(x int) string { return strconv.Itoa(x) + "%nat" }
func Bool(b bool) string {
	if b {
		return "true"
	}
	return "false"
}
func Some(s string) string    { return "(Some " + s + ")" }
func None() string            { return "None" }
func Pair(a, b string) string { return "(" + a + ", " + b + ")" }
func App(f string, args ...string) string {
	if len(args) == 0 {
		return f
	}
	return "(" + f + " " + strings.Join(args, " ") + ")"
}
func List(items []string) string { return "[" + strings.Join(items, "; ") + "]" }
func OptN(x *uint64) string {
	if x == nil {
		return None()
	}
	return Some(N(*x))
}

// Str prints a Coq string literal (printable ASCII only; others are replaced by '?').
func Str(s string) string {
	var b strings.Builder
	b.WriteByte('"')
	for _, c := range []byte(s) {
		switch {
		case c == '"':
			b.WriteString(`""`)
		case c >= 32 && c < 127:
			b.WriteByte(c)
		default:
			b.WriteByte('?')
		}
	}
	b.WriteString(`"%string`)
	return b.String()
}

// Record prints {| f1 := v1; ... |}.
func Record(fields ...string) string {
	if len(fields)%2 != 0 {
		panic("Record: odd number of arguments")
	}
	parts := make([]string, 0, len(fields)/2)
	for i := 0; i < len(fields); i += 2 {
		parts = append(parts, fields[i]+" := "+fields[i+1])
	}
	return "{| " + strings.Join(parts, "; ") + " |}"
}

// ---------------------------------------------------------------------------------------------
// Case collection, sharding and statistics.

type Case struct {
	ID         uint64
	Term       string   // Gallina term of type Check.Cxx.case
	Key        string   // canonical text of the *input* (for distinct counting); defaults to Term
	Nontrivial bool     // reaches the property's decision, by the property's stated rule
	Tags       []string // input families (counted into the evidence; used to match known findings)
	Sample     any      // JSON-able rendering for evidence.samples / replay files
}

type Stats struct {
	Property           string              `json:"property"`
	Seed               uint64              `json:"seed"`
	Evaluations        int                 `json:"evaluations"`
	DistinctNontrivial int                 `json:"distinct_nontrivial"`
	Rule               string              `json:"rule"`
	Families           map[string]int      `json:"families"`
	Dist               map[string]int      `json:"distribution"`
	Shards             []string            `json:"shards"`
	Samples            []any               `json:"samples"`
	Cases              map[string]CaseInfo `json:"cases"` // id -> info (for replays / known-finding matching)
	Notes              []string            `json:"notes"`
	ImplChecked        int                 `json:"traces_validated_against_impl"`
}

type CaseInfo struct {
	Tags   []string `json:"tags"`
	Sample any      `json:"sample"`
}

type Collector struct {
	Prop      string
	CheckMod  string // e.g. "Check.C18"
	OutDir    string
	ShardSize int
	Preamble  string // extra Coq commands after the Require (e.g. Open Scope)
	cases     []Case
	Stats     Stats
}

func NewCollector(prop, checkMod, rule string) *Collector {
	out := os.Getenv("VERIF_OUT")
	if out == "" {
		out = "."
	}
	seed, _ := strconv.ParseUint(os.Getenv("VERIF_SEED"), 10, 64)
	return &Collector{Prop: prop, CheckMod: checkMod, OutDir: out, ShardSize: 400,
		Stats: Stats{Property: prop, Seed: seed, Rule: rule, Families: map[string]int{}, Dist: map[string]int{}, Cases: map[string]CaseInfo{}}}
}

func (c *Collector) Add(cs Case) {
	cs.ID = uint64(len(c.cases))
	c.cases = append(c.cases, cs)
}

// NextID is the id the next added case will get (cases embed their id in the term).
func (c *Collector) NextID() uint64 { return uint64(len(c.cases)) }

func (c *Collector) Count(key string) { c.Stats.Dist[key]++ }
func (c *Collector) Note(s string)    { c.Stats.Notes = append(c.Stats.Notes, s) }

// Flush writes shards cases_<prop>_<k>.v and stats_<prop>.json into OutDir.
func (c *Collector) Flush() error {
	seen := map[string]bool{}
	for _, cs := range c.cases {
		c.Stats.Evaluations++
		key := cs.Key
		if key == "" {
			key = cs.Term
		}
		h := sha256.Sum256([]byte(key))
		hk := hex.EncodeToString(h[:8])
		if cs.Nontrivial && !seen[hk] {
			seen[hk] = true
			c.Stats.DistinctNontrivial++
		}
		for _, t := range cs.Tags {
			c.Stats.Families[t]++
		}
		c.Stats.Cases[strconv.FormatUint(cs.ID, 10)] = CaseInfo{Tags: cs.Tags, Sample: cs.Sample}
	}
	c.Stats.ImplChecked = c.Stats.Evaluations
	// samples: first, middle, last
	if n := len(c.cases); n > 0 {
		for _, i := range uniqueInts([]int{0, n / 2, n - 1}) {
			c.Stats.Samples = append(c.Stats.Samples, c.cases[i].Sample)
		}
	}
	shard := 0
	for start := 0; start < len(c.cases) || (start == 0 && shard == 0); start += c.ShardSize {
		end := start + c.ShardSize
		if end > len(c.cases) {
			end = len(c.cases)
		}
		name := fmt.Sprintf("cases_%s_%d.v", c.Prop, shard)
		var b strings.Builder
		fmt.Fprintf(&b, "From Verif Require Import Lib.Base %s.\n%s\nOpen Scope N_scope.\n", c.CheckMod, c.Preamble)
		b.WriteString("Definition cases : list case := [\n")
		for i := start; i < end; i++ {
			b.WriteString("  ")
			b.WriteString(c.cases[i].Term)
			if i+1 < end {
				b.WriteString(";")
			}
			b.WriteString("\n")
		}
		b.WriteString("].\n")
		b.WriteString("Definition M := Eval vm_compute in mismatches cases.\nDefinition V := Eval vm_compute in violations cases.\n")
		b.WriteString("Print M.\nPrint V.\n")
		if err := os.WriteFile(filepath.Join(c.OutDir, name), []byte(b.String()), 0o644); err != nil {
			return err
		}
		c.Stats.Shards = append(c.Stats.Shards, name)
		shard++
		if len(c.cases) == 0 {
			break
		}
	}
	js, err := json.MarshalIndent(c.Stats, "", " ")
	if err != nil {
		return err
	}
	return os.WriteFile(filepath.Join(c.OutDir, "stats_"+c.Prop+".json"), js, 0o644)
}

func uniqueInts(xs []int) []int {
	sort.Ints(xs)
	out := xs[:0]
	for i, x := range xs {
		if i == 0 || x != xs[i-1] {
			out = append(out, x)
		}
	}
	return out
}

// Env helpers.

func EnvInt(name string, def int) int {
	if v, err := strconv.Atoi(os.Getenv(name)); err == nil {
		return v
	}
	return def
}

func Seed() uint64 {
	v, _ := strconv.ParseUint(os.Getenv("VERIF_SEED"), 10, 64)
	return v
}

// CorpusDir is /verif/corpus/<prop> (VERIF_CORPUS overrides the root).
func CorpusDir(prop string) string {
	root := os.Getenv("VERIF_CORPUS")
	if root == "" {
		root = "/verif/corpus"
	}
	return filepath.Join(root, prop)
}

// LoadCorpus reads every *.json of the property's corpus directory into out (a pointer to a slice).
func LoadCorpus[T any](prop string) []T {
	var res []T
	files, _ := filepath.Glob(filepath.Join(CorpusDir(prop), "*.json"))
	sort.Strings(files)
	for _, f := range files {
		data, err := os.ReadFile(f)
		if err != nil {
			continue
		}
		var v T
		if err := json.Unmarshal(data, &v); err != nil {
			fmt.Fprintf(os.Stderr, "corpus %s: %v\n", f, err)
			continue
		}
		res = append(res, v)
	}
	return res
}

// LoadInputs returns the inputs to run before the generated ones: the single input of a replay file
// (VERIF_REPLAY; its "input"."input" field, i.e. the Sample written by a previous run) when
// replaying, otherwise the property's corpus.
func LoadInputs[T any](prop string) []T {
	if p := os.Getenv("VERIF_REPLAY"); p != "" {
		data, err := os.ReadFile(p)
		if err != nil {
			fmt.Fprintf(os.Stderr, "replay %s: %v\n", p, err)
			return nil
		}
		var outer struct {
			Input struct {
				Input json.RawMessage `json:"input"`
			} `json:"input"`
			Smallest struct {
				Input struct {
					Input json.RawMessage `json:"input"`
				} `json:"input"`
			} `json:"smallest_disagreeing_case"`
		}
		if err := json.Unmarshal(data, &outer); err != nil {
			fmt.Fprintf(os.Stderr, "replay %s: %v\n", p, err)
			return nil
		}
		raw := outer.Input.Input
		if len(raw) == 0 {
			raw = outer.Smallest.Input.Input
		}
		var v T
		if err := json.Unmarshal(raw, &v); err != nil {
			fmt.Fprintf(os.Stderr, "replay %s: %v\n", p, err)
			return nil
		}
		return []T{v}
	}
	return LoadCorpus[T](prop)
}
