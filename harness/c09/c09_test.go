// C09: drives the real builder-bid strategies (strategies/builderbid/best and /deadline), directly
// and through services/blockrelay/standard (AuctionBlock, BuilderBid), against scripted mock relay
// clients injected into util.FetchBuilderClient's cache, with real BLS signatures and fake time
// (testing/synctest), and prints each auction with what the implementation returned as a Gallina
// case for Check.C09.
package c09

import (
	"context"
	"crypto/sha256"
	"encoding/binary"
	"encoding/json"
	"errors"
	"fmt"
	"io"
	"math/big"
	"os"
	"sort"
	"strings"
	"sync"
	"testing"
	"testing/synctest"
	"time"

	"github.com/attestantio/go-block-relay/services/blockauctioneer"
	builder "github.com/attestantio/go-builder-client"
	builderapi "github.com/attestantio/go-builder-client/api"
	apibellatrix "github.com/attestantio/go-builder-client/api/bellatrix"
	apicapella "github.com/attestantio/go-builder-client/api/capella"
	apideneb "github.com/attestantio/go-builder-client/api/deneb"
	builderspec "github.com/attestantio/go-builder-client/spec"
	consensusapi "github.com/attestantio/go-eth2-client/api"
	consensusspec "github.com/attestantio/go-eth2-client/spec"
	"github.com/attestantio/go-eth2-client/spec/bellatrix"
	"github.com/attestantio/go-eth2-client/spec/capella"
	"github.com/attestantio/go-eth2-client/spec/deneb"
	"github.com/attestantio/go-eth2-client/spec/phase0"
	"github.com/attestantio/vouch/mock"
	mockaccountmanager "github.com/attestantio/vouch/services/accountmanager/mock"
	"github.com/attestantio/vouch/services/beaconblockproposer"
	"github.com/attestantio/vouch/services/blockrelay"
	standardblockrelay "github.com/attestantio/vouch/services/blockrelay/standard"
	nullmetrics "github.com/attestantio/vouch/services/metrics/null"
	"github.com/attestantio/vouch/strategies/builderbid"
	bestbid "github.com/attestantio/vouch/strategies/builderbid/best"
	deadlinebid "github.com/attestantio/vouch/strategies/builderbid/deadline"
	"github.com/attestantio/vouch/util"
	"github.com/holiman/uint256"
	"github.com/rs/zerolog"
	zerologger "github.com/rs/zerolog/log"
	"github.com/shopspring/decimal"
	e2types "github.com/wealdtech/go-eth2-types/v2"
	e2wtypes "github.com/wealdtech/go-eth2-wallet-types/v2"

	. "verifharness/common"
	"verifharness/mocks"
)

// ---------------------------------------------------------------------------------------------
// Input (also the corpus / replay format).

type BidIn struct {
	Value         string `json:"value"` // wei, decimal
	Builder       uint64 `json:"builder"`
	ZeroRecipient bool   `json:"zero_recipient,omitempty"`
	TsDelta       int64  `json:"ts_delta,omitempty"` // header timestamp - slot start (s)
	Signer        uint64 `json:"signer"`             // BLS key id; 0 = all-zero signature
	Header        uint64 `json:"header"`             // which payload header
}

type RespIn struct {
	Lat  int64  `json:"lat"`  // ms
	Kind string `json:"kind"` // err | nil | empty | malformed | hang | bid
	Bid  *BidIn `json:"bid,omitempty"`
}

type RelayIn struct {
	Kind      string   `json:"kind"` // full | nounblind | nobid | badaddr
	Min       string   `json:"min"`  // wei, decimal
	CfgKey    uint64   `json:"cfg_key,omitempty"`
	AdvKey    uint64   `json:"adv_key,omitempty"`
	Grace     int64    `json:"grace,omitempty"` // ms
	IgnoreCtx bool     `json:"ignore_ctx,omitempty"`
	Script    []RespIn `json:"script"`
	// the proposer's configuration spells this relay's address http://0x<public key AdvKey>@host: the
	// advertised key is then the one that the REAL builder client, constructed and held by
	// util.FetchBuilderClient, has parsed from the address (see fetched_test.go)
	KeyInAddr bool `json:"key_in_address,omitempty"`
}

type BConfIn struct {
	Builder uint64  `json:"builder"`
	Cat     uint64  `json:"cat"` // 0 standard, 1 excluded, 2 privileged, 3 custom
	Offset  *string `json:"offset,omitempty"`
	Factor  *string `json:"factor,omitempty"`
}

type Input struct {
	Strategy    string    `json:"strategy"`                // best | deadline
	Timeout     int64     `json:"timeout,omitempty"`       // best: hard timeout, ms
	SlotStartIn int64     `json:"slot_start_in,omitempty"` // deadline: slot start - auction start, ms
	Deadline    int64     `json:"deadline,omitempty"`      // deadline: parameter, ms into the slot
	Gap         int64     `json:"gap,omitempty"`           // deadline: bidGap, ms
	Mode        string    `json:"mode"`                    // strategy | auction | query
	Trace       bool      `json:"trace,omitempty"`         // run at zerolog trace level
	Cfgs        []BConfIn `json:"cfgs"`
	Relays      []RelayIn `json:"relays"`
	Tags        []string  `json:"tags,omitempty"`
	// which auction: slot auctionSlot + SlotOff, parent hash and proposer key by number (0 = the usual one)
	SlotOff  uint64 `json:"slot_off,omitempty"`
	Parent   uint64 `json:"parent,omitempty"`
	Proposer uint64 `json:"proposer,omitempty"`
	// auctions run before this one on the SAME strategy instance and blockrelay service (their
	// strategy parameters and builder configurations are this auction's: fixed at construction)
	Before []Input `json:"before,omitempty"`
	// what happens on the same blockrelay service AFTER the operations of the mode (auction / query only)
	Late *LateIn `json:"late,omitempty"`
	// how long after the operations of this auction the NEXT auction on the instance starts (ms); 0 = an
	// hour.  With a short pause two auctions fall into the same second of chain time, so that a relay
	// can offer the very same bid message (same header timestamp) in both.
	Settle int64 `json:"settle,omitempty"`
	// what other sites of the process (submission of validator registrations, unblinding, the auction
	// of another proposer whose configuration spells the relay differently) have asked
	// util.FetchBuilderClient for before this auction, in this order; must not show in the auction
	Fetched []FetchIn `json:"fetched_before,omitempty"`
}

// LateIn: the beacon node asks (again) for the bid of the auction's slot / parent / proposer after the
// auction has closed -- Queries BuilderBid calls, the first Wait ms after the mode's operations have
// returned, the following ones Between ms apart -- while the relays answer differently from what they
// answered during the auction: Scripts[i] is what relay i answers to the requests that these later
// operations make (its k-th such request), typically a bid that was not there before.  Other: an
// AuctionBlock for ANOTHER key (other parent; and the next slot / another proposer) runs first, at
// the instant of the first query.
type LateIn struct {
	Wait    int64      `json:"wait,omitempty"`
	Between int64      `json:"between,omitempty"`
	Queries int        `json:"queries"`
	Other   string     `json:"other,omitempty"` // "" | parent | parent+slot | parent+proposer
	Scripts [][]RespIn `json:"scripts"`
}

// lateUID names the bid of the k-th late answer of a relay.
func lateUID(relay, call int) uint64 { return uint64(relay)*1000 + 500 + uint64(call) + 1 }

// which operation a request to a relay belongs to: carried by the context of the operation
type phaseKey struct{}

const (
	phaseAuction = 0 // the operations of the mode
	phaseLate    = 1 // the later BuilderBid calls for the same key
	phaseOther   = 2 // the auction for another key in between
)

func phaseOf(ctx context.Context) int {
	if v, ok := ctx.Value(phaseKey{}).(int); ok {
		return v
	}
	return phaseAuction
}

func (in *Input) cutoff() int64 {
	if in.Strategy == "best" {
		return in.Timeout
	}
	return in.SlotStartIn + in.Deadline
}

var catNames = []string{blockrelay.StandardBuilderCategory, "excluded", "privileged", "custom"}

func bigOf(s string) *big.Int {
	v, ok := new(big.Int).SetString(s, 10)
	if !ok {
		return big.NewInt(0)
	}
	return v
}

func uid(relay, call int) uint64 { return uint64(relay)*1000 + uint64(call) + 1 }

// ---------------------------------------------------------------------------------------------
// Keys, bids.

var (
	blsOnce sync.Once
	blsKeys = map[uint64]*e2types.BLSPrivateKey{}
)

func blsKey(id uint64) *e2types.BLSPrivateKey {
	blsOnce.Do(func() {
		if err := e2types.InitBLS(); err != nil {
			panic(err)
		}
	})
	if k, ok := blsKeys[id]; ok {
		return k
	}
	h := sha256.Sum256([]byte(fmt.Sprintf("verif-c09-relay-key-%d", id)))
	h[0] = 0 // below the group order
	k, err := e2types.BLSPrivateKeyFromBytes(h[:])
	if err != nil {
		panic(err)
	}
	blsKeys[id] = k
	return k
}

func relayPubkey(id uint64) *phase0.BLSPubKey {
	if id == 0 {
		return nil
	}
	var pk phase0.BLSPubKey
	copy(pk[:], blsKey(id).PublicKey().Marshal())
	return &pk
}

func builderPubkey(id uint64) phase0.BLSPubKey {
	var pk phase0.BLSPubKey
	pk[0] = 0xb0
	binary.BigEndian.PutUint64(pk[40:], id)
	return pk
}

func fill32(tag byte, id uint64) (r [32]byte) {
	r[0] = tag
	binary.BigEndian.PutUint64(r[24:], id)
	return r
}

// makeBid builds and signs a bid.  The header is a function of (header id, fee recipient,
// timestamp): two bids have the same header root iff these agree; the version follows the header
// id so that equal headers have equal versions.
func makeBid(b *BidIn, slotStartUnix int64, domain phase0.Domain) *builderspec.VersionedSignedBuilderBid {
	var feeRecipient bellatrix.ExecutionAddress
	if !b.ZeroRecipient {
		feeRecipient = bellatrix.ExecutionAddress{0xfe, 0xe0, 0x01}
	}
	ts := uint64(slotStartUnix + b.TsDelta)
	value, _ := uint256.FromBig(bigOf(b.Value))
	pk := builderPubkey(b.Builder)
	h := b.Header
	res := &builderspec.VersionedSignedBuilderBid{}
	var sig *phase0.BLSSignature
	switch h % 3 {
	case 0:
		res.Version = consensusspec.DataVersionDeneb
		res.Deneb = &apideneb.SignedBuilderBid{Message: &apideneb.BuilderBid{
			Header: &deneb.ExecutionPayloadHeader{
				ParentHash: fill32(1, 7), FeeRecipient: feeRecipient, StateRoot: fill32(2, h), ReceiptsRoot: fill32(3, h),
				PrevRandao: fill32(4, 7), BlockNumber: 1000 + h, GasLimit: 30000000, GasUsed: 21000 * (h + 1), Timestamp: ts,
				ExtraData: []byte("verif"), BaseFeePerGas: uint256.NewInt(7), BlockHash: fill32(5, h),
				TransactionsRoot: fill32(6, h), WithdrawalsRoot: fill32(7, h),
			},
			BlobKZGCommitments: []deneb.KZGCommitment{},
			Value:              value,
			Pubkey:             pk,
		}}
		sig = &res.Deneb.Signature
	case 1:
		res.Version = consensusspec.DataVersionCapella
		res.Capella = &apicapella.SignedBuilderBid{Message: &apicapella.BuilderBid{
			Header: &capella.ExecutionPayloadHeader{
				ParentHash: fill32(1, 7), FeeRecipient: feeRecipient, StateRoot: fill32(2, h), ReceiptsRoot: fill32(3, h),
				PrevRandao: fill32(4, 7), BlockNumber: 1000 + h, GasLimit: 30000000, GasUsed: 21000 * (h + 1), Timestamp: ts,
				ExtraData: []byte("verif"), BaseFeePerGas: fill32(0, 7), BlockHash: fill32(5, h),
				TransactionsRoot: fill32(6, h), WithdrawalsRoot: fill32(7, h),
			},
			Value:  value,
			Pubkey: pk,
		}}
		sig = &res.Capella.Signature
	default:
		res.Version = consensusspec.DataVersionBellatrix
		res.Bellatrix = &apibellatrix.SignedBuilderBid{Message: &apibellatrix.BuilderBid{
			Header: &bellatrix.ExecutionPayloadHeader{
				ParentHash: fill32(1, 7), FeeRecipient: feeRecipient, StateRoot: fill32(2, h), ReceiptsRoot: fill32(3, h),
				PrevRandao: fill32(4, 7), BlockNumber: 1000 + h, GasLimit: 30000000, GasUsed: 21000 * (h + 1), Timestamp: ts,
				ExtraData: []byte("verif"), BaseFeePerGas: fill32(0, 7), BlockHash: fill32(5, h),
				TransactionsRoot: fill32(6, h),
			},
			Value:  value,
			Pubkey: pk,
		}}
		sig = &res.Bellatrix.Signature
	}
	if b.Signer != 0 {
		root, err := res.MessageHashTreeRoot()
		if err != nil {
			panic(err)
		}
		signingRoot, err := (&phase0.SigningData{ObjectRoot: root, Domain: domain}).HashTreeRoot()
		if err != nil {
			panic(err)
		}
		copy(sig[:], blsKey(b.Signer).Sign(signingRoot[:]).Marshal())
	}
	return res
}

// ---------------------------------------------------------------------------------------------
// Mock relay clients.

// call is one request that reached a relay, as the relay sees it: T is the instant (ms since the
// auction started) at which the relay's answer was ready = the instant the request arrived + the
// scripted latency.  Dropped: the requester (vouch) had ended the request's context before that
// instant (the real HTTP builder client aborts the request then), at HungUp ms; the answer was never
// delivered.  Requests that the relay never answers (hang, script exhausted) are not logged.
type call struct {
	T       int64
	Relay   int
	Call    int
	Dropped bool  `json:",omitempty"`
	HungUp  int64 `json:",omitempty"`
}

type callLog struct {
	mu    sync.Mutex
	calls []call
	late  []call // requests made by the later BuilderBid calls: T = instant of ARRIVAL at the relay, answered or not
}

func (l *callLog) addLate(c call) { l.mu.Lock(); l.late = append(l.late, c); l.mu.Unlock() }

func (l *callLog) add(c call) { l.mu.Lock(); l.calls = append(l.calls, c); l.mu.Unlock() }

type scripted struct {
	lat  time.Duration
	kind string
	bid  *builderspec.VersionedSignedBuilderBid
}

type relayMock struct {
	idx       int
	addr      string
	adv       *phase0.BLSPubKey
	script    []scripted
	late      []scripted // answers to the requests of the later operations (phaseLate, phaseOther)
	ignoreCtx bool
	start     time.Time
	log       *callLog
	mu        sync.Mutex
	n         int
	nLate     int
	real      builder.Service // the client that util.FetchBuilderClient constructed (fetched_test.go); nil: none
}

func (m *relayMock) Name() string              { return fmt.Sprintf("relay-%d", m.idx) }
func (m *relayMock) Address() string {
	if m.real != nil {
		return m.real.Address()
	}
	return m.addr
}
func (m *relayMock) Pubkey() *phase0.BLSPubKey {
	if m.real != nil {
		return m.real.Pubkey()
	}
	return m.adv
}
func (m *relayMock) answer(ctx context.Context) (*builderapi.Response[*builderspec.VersionedSignedBuilderBid], error) {
	if ph := phaseOf(ctx); ph != phaseAuction {
		return m.answerLate(ctx, ph)
	}
	m.mu.Lock()
	k := m.n
	m.n++
	m.mu.Unlock()
	if k >= len(m.script) || m.script[k].kind == "hang" {
		<-ctx.Done()
		return nil, ctx.Err()
	}
	s := m.script[k]
	arrived := time.Since(m.start)
	timer := time.NewTimer(s.lat)
	if m.ignoreCtx {
		<-timer.C
	} else {
		// like the real HTTP client: the request is aborted when its context ends
		select {
		case <-timer.C:
		case <-ctx.Done():
			timer.Stop()
			m.log.add(call{T: (arrived + s.lat).Milliseconds(), Relay: m.idx, Call: k, Dropped: true, HungUp: time.Since(m.start).Milliseconds()})
			return nil, ctx.Err()
		}
	}
	m.log.add(call{T: time.Since(m.start).Milliseconds(), Relay: m.idx, Call: k})
	return respond(s)
}

// answerLate: a request made by one of the later operations; those of the later BuilderBid calls are
// logged on arrival (the relay was asked, whatever becomes of the request).
func (m *relayMock) answerLate(ctx context.Context, phase int) (*builderapi.Response[*builderspec.VersionedSignedBuilderBid], error) {
	m.mu.Lock()
	k := m.nLate
	m.nLate++
	m.mu.Unlock()
	if phase == phaseLate {
		m.log.addLate(call{T: time.Since(m.start).Milliseconds(), Relay: m.idx, Call: k})
	}
	if k >= len(m.late) || m.late[k].kind == "hang" {
		<-ctx.Done()
		return nil, ctx.Err()
	}
	s := m.late[k]
	timer := time.NewTimer(s.lat)
	if m.ignoreCtx {
		<-timer.C
	} else {
		select {
		case <-timer.C:
		case <-ctx.Done():
			timer.Stop()
			return nil, ctx.Err()
		}
	}
	return respond(s)
}

func respond(s scripted) (*builderapi.Response[*builderspec.VersionedSignedBuilderBid], error) {
	switch s.kind {
	case "err":
		return nil, errors.New("scripted relay failure")
	case "nil":
		return &builderapi.Response[*builderspec.VersionedSignedBuilderBid]{Metadata: map[string]any{}}, nil
	case "empty":
		return &builderapi.Response[*builderspec.VersionedSignedBuilderBid]{
			Data: &builderspec.VersionedSignedBuilderBid{Version: consensusspec.DataVersionDeneb}, Metadata: map[string]any{}}, nil
	case "malformed":
		return &builderapi.Response[*builderspec.VersionedSignedBuilderBid]{
			Data: &builderspec.VersionedSignedBuilderBid{Version: consensusspec.DataVersionDeneb, Deneb: &apideneb.SignedBuilderBid{}}, Metadata: map[string]any{}}, nil
	default:
		return &builderapi.Response[*builderspec.VersionedSignedBuilderBid]{Data: s.bid, Metadata: map[string]any{}}, nil
	}
}

// fullClient supplies bids and can unblind.
type fullClient struct{ *relayMock }

func (c fullClient) BuilderBid(ctx context.Context, _ *builderapi.BuilderBidOpts) (*builderapi.Response[*builderspec.VersionedSignedBuilderBid], error) {
	return c.answer(ctx)
}
func (fullClient) UnblindProposal(context.Context, *builderapi.UnblindProposalOpts) (*builderapi.Response[*consensusapi.VersionedSignedProposal], error) {
	return nil, errors.New("not scripted")
}

// bidOnlyClient supplies bids but cannot unblind.
type bidOnlyClient struct{ *relayMock }

func (c bidOnlyClient) BuilderBid(ctx context.Context, _ *builderapi.BuilderBidOpts) (*builderapi.Response[*builderspec.VersionedSignedBuilderBid], error) {
	return c.answer(ctx)
}

// plainClient is a builder client that supplies no bids.
type plainClient struct{ *relayMock }

// execution configuration handing out the scripted relay list
type execConfig struct {
	relays []*beaconblockproposer.RelayConfig
}

func (e *execConfig) ProposerConfig(context.Context, e2wtypes.Account, phase0.BLSPubKey, bellatrix.ExecutionAddress, uint64) (*beaconblockproposer.ProposerConfig, error) {
	return &beaconblockproposer.ProposerConfig{FeeRecipient: bellatrix.ExecutionAddress{0x01}, Relays: e.relays}, nil
}

// ---------------------------------------------------------------------------------------------
// One auction on the real implementation.

type PartObs struct {
	Score string `json:"score"`
	Cat   uint64 `json:"cat"`
	UID   uint64 `json:"uid"`
}

type PartEntry struct {
	Relay uint64  `json:"relay"`
	Part  PartObs `json:"part"`
}

type Obs struct {
	Panic      bool        `json:"panic"`
	PanicMsg   string      `json:"panic_msg,omitempty"`
	HasResults bool        `json:"has_results"`
	Win        *PartObs    `json:"win"`
	Providers  []uint64    `json:"providers"`
	AllP       []uint64    `json:"all_providers"`
	Parts      []PartEntry `json:"participation"`
	Elapsed    int64       `json:"elapsed_ms"`
	Served     []*uint64   `json:"served"`
	Calls      []call      `json:"calls"`
	Stuck      bool        `json:"stuck,omitempty"` // goroutines of the call were left blocked for good
	Note       string      `json:"note,omitempty"`
	// the later BuilderBid calls: their instants (ms since the auction started), their answers, and the
	// requests they made to relays (relay-side log: instant of arrival, relay, number)
	LateAt     []int64   `json:"late_at,omitempty"`
	LateServed []*uint64 `json:"late_served,omitempty"`
	LateReqs   []call    `json:"late_requests,omitempty"`
	// diagnostics of the INPUT as it was run (never compared): scripted bids of this auction whose message
	// (hash tree root) another scripted bid of this auction has too / a bid of an earlier auction on the instance had
	DupWithin int `json:"dup_messages_within,omitempty"`
	DupAcross int `json:"dup_messages_across,omitempty"`
}

const auctionSlot = 12345

func relayAddress(i int, kind string) string {
	if kind == "badaddr" {
		if i%2 == 0 {
			return "" // "no address supplied"
		}
		return fmt.Sprintf("http://relay-%d.c09.invalid:%%zz", i) // url.Parse fails
	}
	return fmt.Sprintf("http://relay-%d.c09.invalid:18550", i)
}

// runCase runs the auction of the case -- after the auctions of in.Before, on the same strategy
// instance and the same blockrelay service -- and returns what was observed of it.
func runCase(t *testing.T, in Input) Obs {
	rounds := append(append([]Input{}, in.Before...), in)
	return runSeq(t, rounds)[len(rounds)-1]
}

// normalise gives every earlier auction of a sequence the parameters that are fixed when the
// strategy and the blockrelay service are constructed (one instance serves them all).
func normalise(rounds []Input) {
	last := rounds[len(rounds)-1]
	for j := range rounds {
		r := &rounds[j]
		r.Strategy, r.Timeout, r.Deadline, r.Gap, r.Trace, r.Cfgs = last.Strategy, last.Timeout, last.Deadline, last.Gap, last.Trace, last.Cfgs
		r.Before = nil
	}
}

// runSeq runs the auctions one after the other on ONE strategy instance and ONE blockrelay service
// (its bid cache, the strategy's parsed-key cache and whatever else an instance keeps), each with its
// own relays' behaviour, slot / parent / proposer, in one bubble of fake time.
func runSeq(t *testing.T, rounds []Input) (obss []Obs) {
	normalise(rounds)
	obss = make([]Obs, len(rounds))
	logs := make([]*callLog, len(rounds))
	for i := range logs {
		logs[i] = &callLog{}
	}
	finish := func() {
		for i := range obss {
			finishCalls(&obss[i], logs[i])
		}
	}
	// Goroutines that a call leaves blocked for good (say, relay goroutines sending on a channel
	// nobody reads any more) make synctest.Test panic with "deadlock" once everything else has
	// finished: that is reported as an observation of the case, not as the end of the test binary.
	defer func() {
		if r := recover(); r != nil {
			msg := strings.SplitN(fmt.Sprint(r), "\n", 2)[0]
			if !strings.Contains(msg, "deadlock") {
				panic(r)
			}
			for i := range obss {
				obss[i].Stuck = true
				obss[i].Note += "synctest: " + msg + "; "
			}
			finish()
		}
	}()
	runBubble(t, rounds, obss, logs)
	finish()
	return obss
}

func finishCalls(obs *Obs, lg *callLog) {
	lg.mu.Lock()
	obs.Calls = append(obs.Calls[:0], lg.calls...)
	obs.LateReqs = append(obs.LateReqs[:0], lg.late...)
	lg.mu.Unlock()
	sort.SliceStable(obs.LateReqs, func(i, j int) bool {
		if obs.LateReqs[i].T != obs.LateReqs[j].T {
			return obs.LateReqs[i].T < obs.LateReqs[j].T
		}
		return obs.LateReqs[i].Relay < obs.LateReqs[j].Relay
	})
	sort.SliceStable(obs.Calls, func(i, j int) bool {
		if obs.Calls[i].T != obs.Calls[j].T {
			return obs.Calls[i].T < obs.Calls[j].T
		}
		return obs.Calls[i].Relay < obs.Calls[j].Relay
	})
}

func runBubble(t *testing.T, rounds []Input, obss []Obs, logs []*callLog) {
	main := rounds[len(rounds)-1]
	level := zerolog.Disabled
	if main.Trace {
		level = zerolog.TraceLevel
	}
	synctest.Test(t, func(t *testing.T) {
		root, cancelRoot := context.WithCancel(context.Background())
		defer cancelRoot()
		chainTime := &mocks.ChainTime{Genesis: time.Now().Add(-auctionSlot * 12 * time.Second), SlotDuration: 12 * time.Second, SPE: 32}
		domain, _ := mock.NewDomainProvider().GenesisDomain(root, phase0.DomainType{0x00, 0x00, 0x00, 0x01})
		util.ResetBuilderClientsC09()

		builderConfigs := map[phase0.BLSPubKey]*blockrelay.BuilderConfig{}
		for _, c := range main.Cfgs {
			bc := &blockrelay.BuilderConfig{Category: catNames[c.Cat%uint64(len(catNames))]}
			if c.Offset != nil {
				bc.Offset = bigOf(*c.Offset)
			}
			if c.Factor != nil {
				bc.Factor = bigOf(*c.Factor)
			}
			builderConfigs[builderPubkey(c.Builder)] = bc
		}

		// the strategy: one instance for all the auctions
		var strat builderbid.Provider
		var err error
		if main.Strategy == "best" {
			strat, err = bestbid.New(root, bestbid.WithLogLevel(level), bestbid.WithMonitor(nullmetrics.New()),
				bestbid.WithSpecProvider(mock.NewSpecProvider()), bestbid.WithDomainProvider(mock.NewDomainProvider()),
				bestbid.WithChainTime(chainTime), bestbid.WithTimeout(time.Duration(main.Timeout)*time.Millisecond),
				bestbid.WithReleaseVersion("verif"))
		} else {
			strat, err = deadlinebid.New(root, deadlinebid.WithLogLevel(level), deadlinebid.WithMonitor(nullmetrics.New()),
				deadlinebid.WithSpecProvider(mock.NewSpecProvider()), deadlinebid.WithDomainProvider(mock.NewDomainProvider()),
				deadlinebid.WithChainTime(chainTime), deadlinebid.WithDeadline(time.Duration(main.Deadline)*time.Millisecond),
				deadlinebid.WithBidGap(time.Duration(main.Gap)*time.Millisecond), deadlinebid.WithReleaseVersion("verif"))
		}
		if err != nil {
			t.Fatalf("strategy constructor: %v", err)
		}
		// the blockrelay service: one instance, too; the relay list it hands out follows the auction
		ec := &execConfig{}
		svc := standardblockrelay.NewForVerifC09(level, mockaccountmanager.NewAccountsProvider(), ec, strat, builderConfigs)

		seenMsg := map[phase0.Root]bool{}
		for j := range rounds {
			runRound(t, root, rounds[j], &obss[j], logs[j], chainTime, domain, strat, svc, ec, builderConfigs, seenMsg)
		}
	})
}

func runRound(t *testing.T, root context.Context, in Input, obs *Obs, lg *callLog, chainTime *mocks.ChainTime, domain phase0.Domain,
	strat builderbid.Provider, svc *standardblockrelay.Service, ec *execConfig, builderConfigs map[phase0.BLSPubKey]*blockrelay.BuilderConfig,
	seenMsg map[phase0.Root]bool) {
	roundMsg := map[phase0.Root]int{}
	ctx, cancel := context.WithCancel(root)
	defer cancel()
	start := time.Now()
	slot := phase0.Slot(auctionSlot + in.SlotOff)
	slotStart := start.Add(time.Duration(in.SlotStartIn) * time.Millisecond)
	if in.Strategy == "best" {
		slotStart = start.Add(3 * time.Second)
	}
	// nothing of the earlier auctions is running any more: the chain's clock is set so that this
	// auction's slot starts where the input says
	chainTime.Genesis = slotStart.Add(-time.Duration(slot) * 12 * time.Second)

	// relays: this auction's behaviour behind the same addresses
	bidUID := map[*builderspec.VersionedSignedBuilderBid]uint64{}
	addrIdx := map[string]uint64{}
	relayConfigs := make([]*beaconblockproposer.RelayConfig, 0, len(in.Relays))
	var mocks []*relayMock
	if usesFetch(&in) {
		unwrapFetched()
	}
	for i := range in.Relays {
		r := &in.Relays[i]
		m := &relayMock{idx: i, addr: relayAddress(i, r.Kind), adv: relayPubkey(r.AdvKey), ignoreCtx: r.IgnoreCtx, start: start, log: lg}
		for k := range r.Script {
			s := scripted{lat: time.Duration(r.Script[k].Lat) * time.Millisecond, kind: r.Script[k].Kind}
			if s.kind == "bid" {
				s.bid = makeBid(r.Script[k].Bid, chainTime.StartOfSlot(slot).Unix(), domain)
				bidUID[s.bid] = uid(i, k)
				if mr, err := s.bid.MessageHashTreeRoot(); err == nil {
					roundMsg[mr]++
				}
			}
			m.script = append(m.script, s)
		}
		if in.Late != nil && in.Mode != "strategy" && i < len(in.Late.Scripts) {
			for k := range in.Late.Scripts[i] {
				ls := &in.Late.Scripts[i][k]
				s := scripted{lat: time.Duration(ls.Lat) * time.Millisecond, kind: ls.Kind}
				if s.kind == "bid" {
					s.bid = makeBid(ls.Bid, chainTime.StartOfSlot(slot).Unix(), domain)
					bidUID[s.bid] = lateUID(i, k)
				}
				m.late = append(m.late, s)
			}
		}
		if viaFetch(&in, i) {
			m.addr = spelledAddress(i, keyInAddress(r))
			mocks = append(mocks, m)
			for _, a := range spellings(&in, i) {
				addrIdx[a] = uint64(i)
			}
		}
		addrIdx[m.addr] = uint64(i)
		switch {
		case viaFetch(&in, i):
		case r.Kind == "full":
			util.InjectBuilderClientC09(m.addr, fullClient{m})
		case r.Kind == "nounblind":
			util.InjectBuilderClientC09(m.addr, bidOnlyClient{m})
		case r.Kind == "nobid":
			util.InjectBuilderClientC09(m.addr, plainClient{m})
		}
		minValue, err := decimal.NewFromString(r.Min)
		if err != nil {
			t.Fatalf("bad minimum %q", r.Min)
		}
		relayConfigs = append(relayConfigs, &beaconblockproposer.RelayConfig{
			Address: m.addr, PublicKey: relayPubkey(r.CfgKey), FeeRecipient: bellatrix.ExecutionAddress{0x01},
			GasLimit: 30000000, Grace: time.Duration(r.Grace) * time.Millisecond, MinValue: minValue,
		})
	}
	ec.relays = relayConfigs
	fetchAndWrap(t, root, &in, mocks)
	for mr, n := range roundMsg {
		if n > 1 {
			obs.DupWithin += n
		}
		if seenMsg[mr] {
			obs.DupAcross += n
		}
	}
	for mr := range roundMsg {
		seenMsg[mr] = true
	}

	parentID := in.Parent
	if parentID == 0 {
		parentID = 7
	}
	parent := phase0.Hash32(fill32(1, parentID))
	pubkey := phase0.BLSPubKey{0xaa, 0x01}
	if in.Proposer != 0 {
		pubkey[1] = byte(in.Proposer)
	}
	var res *blockauctioneer.Results
	var err error
	served := &obs.Served
	serve := func(bid *builderspec.VersionedSignedBuilderBid, err error) {
		if err != nil {
			obs.Note += "BuilderBid error: " + err.Error() + "; "
		}
		if bid == nil {
			*served = append(*served, nil)
			return
		}
		u, ok := bidUID[bid]
		if !ok {
			u = 999999999 // a bid that no relay supplied in this auction
		}
		*served = append(*served, &u)
	}
	// a call that never returns (every goroutine of the bubble blocked for good) would end the
	// whole test binary with synctest's deadlock panic: after a day of fake time release the
	// silent mocks instead, so that the case is reported with what the call then returns.
	watchdog := time.AfterFunc(24*time.Hour, func() {
		obs.Note += "watchdog: call still running after 24h of fake time; "
		cancel()
	})
	func() {
		defer watchdog.Stop()
		defer func() {
			if r := recover(); r != nil {
				obs.Panic = true
				obs.PanicMsg = strings.SplitN(fmt.Sprint(r), "\n", 2)[0]
				obs.Elapsed = time.Since(start).Milliseconds()
			}
		}()
		switch in.Mode {
		case "strategy":
			res, err = strat.BuilderBid(ctx, slot, parent, pubkey,
				&beaconblockproposer.ProposerConfig{FeeRecipient: bellatrix.ExecutionAddress{0x01}, Relays: relayConfigs}, builderConfigs)
			obs.Elapsed = time.Since(start).Milliseconds()
			if err != nil {
				obs.Note += "strategy error: " + err.Error() + "; "
			}
		case "auction":
			res, err = svc.AuctionBlock(ctx, slot, parent, pubkey)
			obs.Elapsed = time.Since(start).Milliseconds()
			if err != nil {
				obs.Note += "AuctionBlock error: " + err.Error() + "; "
			}
			serve(svc.BuilderBid(ctx, slot, parent, pubkey))
		default:
			bid, err := svc.BuilderBid(ctx, slot, parent, pubkey)
			obs.Elapsed = time.Since(start).Milliseconds()
			serve(bid, err)
			serve(svc.BuilderBid(ctx, slot, parent, pubkey))
		}
	}()
	// afterwards: the beacon node asks for the bid of this slot / parent / proposer -- the auction is
	// over, the relays may have other bids by now
	lateCancel := func() {}
	if in.Late != nil && in.Mode != "strategy" && !obs.Panic {
		var lateCtx, otherCtx context.Context
		var c1, c2 context.CancelFunc
		lateCtx, c1 = context.WithCancel(context.WithValue(root, phaseKey{}, phaseLate))
		otherCtx, c2 = context.WithCancel(context.WithValue(root, phaseKey{}, phaseOther))
		lateCancel = func() { c1(); c2() }
		lateDog := time.AfterFunc(24*time.Hour, func() {
			obs.Note += "watchdog: a later call still running after 24h of fake time; "
			lateCancel()
		})
		func() {
			defer lateDog.Stop()
			defer func() {
				if r := recover(); r != nil {
					obs.Panic = true
					obs.PanicMsg = "later call: " + strings.SplitN(fmt.Sprint(r), "\n", 2)[0]
				}
			}()
			served = &obs.LateServed
			time.Sleep(time.Duration(in.Late.Wait) * time.Millisecond)
			if in.Late.Other != "" {
				oSlot, oParent, oPubkey := slot, phase0.Hash32(fill32(1, 5000+parentID)), pubkey
				switch in.Late.Other {
				case "parent+slot":
					oSlot++
				case "parent+proposer":
					oPubkey[2] = 0x77
				}
				if _, err := svc.AuctionBlock(otherCtx, oSlot, oParent, oPubkey); err != nil {
					obs.Note += "AuctionBlock (other key) error: " + err.Error() + "; "
				}
			}
			for q := 0; q < in.Late.Queries; q++ {
				if q > 0 {
					time.Sleep(time.Duration(in.Late.Between) * time.Millisecond)
				}
				obs.LateAt = append(obs.LateAt, time.Since(start).Milliseconds())
				serve(svc.BuilderBid(lateCtx, slot, parent, pubkey))
			}
		}()
	}
	cancel() // releases the mocks that never answer
	lateCancel()
	// let every relay goroutine run to its end (fake time stops when the bubble's function returns)
	if in.Settle > 0 {
		time.Sleep(time.Duration(in.Settle) * time.Millisecond)
	} else {
		time.Sleep(time.Hour)
	}
	synctest.Wait()

	if res != nil {
		obs.HasResults = true
		partOf := func(p *blockauctioneer.Participation) PartObs {
			po := PartObs{Score: p.Score.String(), Cat: 99, UID: 999999999}
			for i, n := range catNames {
				if n == p.Category {
					po.Cat = uint64(i)
				}
			}
			if u, ok := bidUID[p.Bid]; ok {
				po.UID = u
			}
			return po
		}
		if res.WinningParticipation != nil {
			p := partOf(res.WinningParticipation)
			obs.Win = &p
		}
		for _, p := range res.Providers {
			obs.Providers = append(obs.Providers, addrIdx[p.Address()])
		}
		for _, p := range res.AllProviders {
			obs.AllP = append(obs.AllP, addrIdx[p.Address()])
		}
		for a, p := range res.Participation {
			obs.Parts = append(obs.Parts, PartEntry{Relay: addrIdx[a], Part: partOf(p)})
		}
		sort.Slice(obs.Parts, func(i, j int) bool { return obs.Parts[i].Relay < obs.Parts[j].Relay })
	}
}

// ---------------------------------------------------------------------------------------------
// Gallina.

func bigN(s string) string { return bigOf(s).String() + "%N" }
func bigZ(v *big.Int) string {
	if v.Sign() < 0 {
		return "(" + v.String() + ")%Z"
	}
	return v.String() + "%Z"
}
func optKey(k uint64) string {
	if k == 0 {
		return None()
	}
	return Some(N(k))
}
func optZ(s *string) string {
	if s == nil {
		return None()
	}
	return Some(bigZ(bigOf(*s)))
}

func bidTerm(relay, k int, b *BidIn) string { return bidTermUID(uid(relay, k), b) }

func bidTermUID(u uint64, b *BidIn) string {
	return Record("b_uid", N(u), "b_value", bigN(b.Value), "b_builder", N(b.Builder),
		"b_zero_recipient", Bool(b.ZeroRecipient), "b_ts_delta", Z(b.TsDelta), "b_signer", N(b.Signer), "b_header", N(b.Header))
}

func partTerm(p PartObs) string {
	return "(" + bigZ(bigOf(p.Score)) + ", " + N(p.Cat) + ", " + N(p.UID) + ")"
}

func nList(xs []uint64) string {
	items := make([]string, 0, len(xs))
	for _, x := range xs {
		items = append(items, N(x))
	}
	return List(items)
}

func term(id uint64, in Input, obs Obs) string {
	strat := App("Best", Z(in.Timeout))
	if in.Strategy != "best" {
		strat = App("Deadline", Z(in.SlotStartIn+in.Deadline), Z(in.Gap))
	}
	mode := map[string]string{"strategy": "MStrategy", "auction": "MAuction", "query": "MQuery"}[in.Mode]
	cfgs := make([]string, 0, len(in.Cfgs))
	for _, c := range in.Cfgs {
		cfgs = append(cfgs, Pair(N(c.Builder), Record("bc_cat", N(c.Cat%uint64(len(catNames))), "bc_offset", optZ(c.Offset), "bc_factor", optZ(c.Factor))))
	}
	kindOf := map[string]string{"full": "KFull", "nounblind": "KNoUnblind", "nobid": "KNoBid", "badaddr": "KBadAddr"}
	respOf := map[string]string{"err": "RErr", "nil": "RNil", "empty": "REmpty", "malformed": "RMalformed", "hang": "RHang"}
	relayTerm := func(i int, r *RelayIn, sc []RespIn, uidOf func(int, int) uint64) string {
		script := make([]string, 0, len(sc))
		for k, s := range sc {
			x := respOf[s.Kind]
			if s.Kind == "bid" {
				x = App("RBid", bidTermUID(uidOf(i, k), s.Bid))
			}
			script = append(script, Pair(Z(s.Lat), x))
		}
		return Record("r_idx", N(uint64(i)), "r_kind", kindOf[r.Kind], "r_min", bigN(r.Min), "r_cfg_key", optKey(r.CfgKey),
			"r_adv_key", optKey(r.AdvKey), "r_grace", Z(r.Grace), "r_script", List(script))
	}
	relays := make([]string, 0, len(in.Relays))
	lateRelays := []string{}
	for i := range in.Relays {
		r := &in.Relays[i]
		relays = append(relays, relayTerm(i, r, r.Script, uid))
		if in.Late != nil && in.Mode != "strategy" {
			var sc []RespIn
			if i < len(in.Late.Scripts) {
				sc = in.Late.Scripts[i]
			}
			lateRelays = append(lateRelays, relayTerm(i, r, sc, lateUID))
		}
	}
	win := None()
	if obs.Win != nil {
		win = Some(partTerm(*obs.Win))
	}
	parts := make([]string, 0, len(obs.Parts))
	for _, p := range obs.Parts {
		parts = append(parts, Pair(N(p.Relay), partTerm(p.Part)))
	}
	served := make([]string, 0, len(obs.Served))
	for _, s := range obs.Served {
		served = append(served, OptN(s))
	}
	calls := make([]string, 0, len(obs.Calls))
	dropped := []string{}
	for _, c := range obs.Calls {
		calls = append(calls, "("+Z(c.T)+", "+N(uint64(c.Relay))+", "+N(uint64(c.Call))+")")
		if c.Dropped {
			dropped = append(dropped, "("+Z(c.T)+", "+N(uint64(c.Relay))+", "+N(uint64(c.Call))+")")
		}
	}
	lateAt := make([]string, 0, len(obs.LateAt))
	for _, t := range obs.LateAt {
		lateAt = append(lateAt, Z(t))
	}
	lateServed := make([]string, 0, len(obs.LateServed))
	for _, s := range obs.LateServed {
		lateServed = append(lateServed, OptN(s))
	}
	lateReqs := make([]string, 0, len(obs.LateReqs))
	for _, c := range obs.LateReqs {
		lateReqs = append(lateReqs, "("+Z(c.T)+", "+N(uint64(c.Relay))+", "+N(uint64(c.Call))+")")
	}
	return Record("c_id", N(id), "c_strat", strat, "c_mode", mode, "c_cfgs", List(cfgs), "c_relays", List(relays),
		"c_panic", Bool(obs.Panic), "c_has_results", Bool(obs.HasResults), "c_win", win,
		"c_providers", nList(obs.Providers), "c_allp", nList(obs.AllP), "c_parts", List(parts),
		"c_elapsed", Z(obs.Elapsed), "c_served", List(served), "c_calls", List(calls), "c_dropped", List(dropped), "c_stuck", Bool(obs.Stuck),
		"c_late_at", List(lateAt), "c_late_relays", List(lateRelays), "c_late_served", List(lateServed), "c_late_reqs", List(lateReqs))
}

// ---------------------------------------------------------------------------------------------
// Input analysis for tags (families) — never used to judge the implementation.

func effKey(r *RelayIn) uint64 {
	if r.CfgKey != 0 {
		return r.CfgKey
	}
	return r.AdvKey
}

func eligibleIn(r *RelayIn, b *BidIn) bool {
	v := bigOf(b.Value)
	if v.Sign() == 0 || v.Cmp(bigOf(r.Min)) < 0 || b.ZeroRecipient || b.TsDelta != 0 {
		return false
	}
	if k := effKey(r); k != 0 && b.Signer != k {
		return false
	}
	return true
}

func scoreIn(in *Input, b *BidIn) *big.Int {
	s := bigOf(b.Value)
	for i := range in.Cfgs {
		c := &in.Cfgs[i]
		if c.Builder != b.Builder {
			continue
		}
		if c.Offset != nil {
			s = new(big.Int).Add(s, bigOf(*c.Offset))
		}
		if c.Factor != nil {
			m := new(big.Int).Mul(s, bigOf(*c.Factor))
			q, r := new(big.Int).QuoRem(m, big.NewInt(100), new(big.Int))
			if r.Sign() < 0 { // floor
				q.Sub(q, big.NewInt(1))
			}
			s = q
		}
		break
	}
	return s
}

func queriedIn(in *Input, r *RelayIn) bool {
	return r.Kind == "full" || (in.Strategy != "best" && r.Kind == "nounblind")
}

// tags derives the input families of the case from the input alone.
func tags(in *Input) []string {
	set := map[string]bool{"strategy:" + in.Strategy: true, "mode:" + in.Mode: true}
	if in.Trace {
		set["trace-level"] = true
	}
	if len(in.Relays) == 0 {
		set["no-relays"] = true
	}
	type cand struct {
		score  *big.Int
		value  *big.Int
		header uint64
		ok     bool
		why    string
	}
	var all []cand
	for i := range in.Relays {
		r := &in.Relays[i]
		if r.Kind != "full" {
			set["relay:"+r.Kind] = true
		}
		if r.Kind == "badaddr" {
			set["unparsable-relay-address"] = true
		}
		if !queriedIn(in, r) {
			continue
		}
		var fwd *BidIn // last forwarded bid of the relay (deadline strategy)
		for k := range r.Script {
			s := &r.Script[k]
			if in.Strategy == "best" && k > 0 {
				break
			}
			if s.Kind != "bid" {
				set["resp:"+s.Kind] = true
				continue
			}
			b := s.Bid
			v, min := bigOf(b.Value), bigOf(r.Min)
			d := new(big.Int).Sub(v, min)
			if d.IsInt64() && d.Int64() >= -1 && d.Int64() <= 1 && min.Sign() > 0 {
				set["value-at-min-edge"] = true
			}
			c := cand{score: scoreIn(in, b), value: v, header: b.Header, ok: eligibleIn(r, b)}
			switch {
			case b.TsDelta != 0:
				c.why = "bad-timestamp"
			case b.ZeroRecipient:
				c.why = "zero-recipient"
			case effKey(r) != 0 && b.Signer != effKey(r):
				c.why = "bad-signature"
			case v.Cmp(min) < 0:
				c.why = "below-min"
			case v.Sign() == 0:
				c.why = "zero-value"
			}
			if effKey(r) == 0 && b.Signer == 0 {
				set["unsigned-bid-unknown-key"] = true
			}
			if r.CfgKey != 0 && r.AdvKey != 0 && r.CfgKey != r.AdvKey {
				set["configured-key-overrides-advertised"] = true
			}
			if c.ok && c.score.Sign() == 0 {
				c.why = "zero-score"
				set["zero-score-bid"] = true
			}
			if c.ok && c.score.Sign() < 0 {
				set["negative-score-bid"] = true
			}
			all = append(all, c)
			if in.Strategy != "best" && c.ok {
				if fwd == nil || bigOf(fwd.Value).Cmp(v) < 0 {
					fwd = b
				} else {
					set["deadline-non-improving-bid"] = true
					fs := scoreIn(in, fwd)
					if c.score.Sign() != 0 && (fs.Sign() == 0 || c.score.Cmp(fs) > 0) {
						// the relay's later bid scores better than the one it shadows, but is never forwarded
						set["deadline-suppressed-better-bid"] = true
					}
				}
			}
		}
	}
	// the best-scoring response of all is not an acceptable one
	var top *cand
	for i := range all {
		if all[i].score.Sign() != 0 || !all[i].ok {
			if top == nil || all[i].score.Cmp(top.score) > 0 {
				top = &all[i]
			}
		}
	}
	if top != nil && (!top.ok || top.why == "zero-score") {
		set["top-bid-"+top.why] = true
	}
	anyOK := false
	for i := range all {
		if all[i].ok && all[i].score.Sign() != 0 {
			anyOK = true
		}
		for j := i + 1; j < len(all); j++ {
			if all[i].ok && all[j].ok {
				if all[i].header == all[j].header {
					set["equal-headers"] = true
					if all[i].score.Cmp(all[j].score) != 0 {
						set["equal-headers-different-scores"] = true
					}
				} else if all[i].score.Cmp(all[j].score) == 0 {
					set["different-headers-equal-score"] = true
				}
			}
		}
	}
	if !anyOK {
		set["no-acceptable-bid"] = true
	}
	for _, c := range in.Cfgs {
		if c.Offset != nil && bigOf(*c.Offset).Sign() < 0 {
			set["negative-offset"] = true
		}
		if c.Factor != nil && bigOf(*c.Factor).Sign() == 0 {
			set["excluded-builder"] = true
		}
	}
	for _, t := range in.Tags {
		set[t] = true
	}
	out := make([]string, 0, len(set))
	for t := range set {
		out = append(out, t)
	}
	sort.Strings(out)
	return out
}

// ---------------------------------------------------------------------------------------------
// Generator.  All instants are kept apart: relay i's answers arrive at times = i (mod 16), the
// cut-off (hard timeout / deadline instant) is = 15 (mod 16), at most 15 relays.  The "tie" family
// deliberately gives two relays the same residue.

func dec(v int64) string { return big.NewInt(v).String() }

func scaled(v int64, exp int) string {
	return new(big.Int).Mul(big.NewInt(v), new(big.Int).Exp(big.NewInt(10), big.NewInt(int64(exp)), nil)).String()
}

func pick[T any](r *Rand, xs ...T) T { return xs[r.Intn(len(xs))] }

func gen(r *Rand, tier string) Input { return genOpt(r, tier, false) }

// genOpt: short = an auction of 200-270 ms (several of them fit into one second of chain time).
func genOpt(r *Rand, tier string, short bool) Input {
	in := Input{Strategy: "best", Mode: "strategy"}
	if r.Chance(45, 100) {
		in.Strategy = "deadline"
	}
	switch k := r.Intn(100); {
	case k < 25:
		in.Mode = "auction"
	case k < 40:
		in.Mode = "query"
	}
	in.Trace = r.Chance(1, 10)
	if tier == "thorough" {
		in.Trace = r.Chance(1, 2)
	}
	exp := pick(r, 0, 0, 0, 3, 9, 15, 17)
	base := int64(r.Range(20, 400))
	val := func(v int64) string {
		if v < 0 {
			v = 0
		}
		return scaled(v, exp)
	}

	// builders and their configurations
	nBuilders := r.Range(1, 4)
	for b := 1; b <= nBuilders; b++ {
		if !r.Chance(55, 100) {
			continue
		}
		c := BConfIn{Builder: uint64(b)}
		switch k := r.Intn(100); {
		case k < 22: // excluded
			c.Cat = 1
			f := "0"
			c.Factor = &f
		case k < 34: // privileged
			c.Cat = 2
			f := pick(r, "1000000000000000000", "1000000000", "1000")
			c.Factor = &f
		default:
			c.Cat = pick(r, uint64(0), 0, 3)
			if r.Chance(60, 100) {
				f := dec(pick(r, int64(50), 90, 99, 100, 101, 110, 150, 200, 33, 1))
				c.Factor = &f
			}
			if r.Chance(55, 100) {
				var o string
				switch r.Intn(6) {
				case 0:
					o = "0"
				case 1:
					o = val(int64(r.Range(1, 50)))
				case 2:
					o = "-" + val(int64(r.Range(1, 50)))
				case 3:
					o = "-" + val(base) // cancels a bid of the base value
				case 4:
					o = "-" + val(base*3) // drives scores negative
				default:
					o = dec(int64(r.Range(-120, 120)))
				}
				c.Offset = &o
			}
		}
		in.Cfgs = append(in.Cfgs, c)
	}

	nRelays := pick(r, 1, 2, 2, 3, 3, 3, 4, 4, 5, 6)
	if r.Chance(3, 100) {
		nRelays = 0
	}
	// cut-off in units of 16 ms
	m := int64(r.Range(12, 90))
	if short {
		m = int64(r.Range(12, 16))
	}
	if in.Strategy == "best" {
		in.Timeout = 16*m + 15
	} else {
		if r.Chance(4, 100) && !short {
			m = int64(-r.Range(1, 20)) // the deadline has already passed
		}
		in.Deadline = int64(r.Range(1, 1500))
		if short {
			in.Deadline = int64(r.Range(100, 200))
		}
		in.SlotStartIn = 16*m + 15 - in.Deadline
		in.Gap = 16 * int64(r.Range(1, 8))
	}
	headers := []uint64{uint64(r.Range(1, 30)), uint64(r.Range(31, 60)), uint64(r.Range(61, 90))}
	valueOfHeader := map[uint64]int64{headers[0]: base, headers[1]: base + int64(r.Range(1, 9)), headers[2]: base - int64(r.Range(1, 9))}

	tie := r.Chance(6, 100) && nRelays >= 2
	for i := 0; i < nRelays; i++ {
		rel := RelayIn{Kind: "full", Min: "0"}
		switch k := r.Intn(100); {
		case k < 5:
			rel.Kind = "nounblind"
		case k < 8:
			rel.Kind = "nobid"
		case k < 14:
			rel.Kind = "badaddr"
		}
		switch r.Intn(5) {
		case 0:
			rel.Min = val(base)
		case 1:
			rel.Min = val(base + int64(r.Range(-2, 2)))
		case 2:
			rel.Min = val(int64(r.Range(0, int(base)*2)))
		}
		if r.Chance(45, 100) {
			rel.CfgKey = uint64(r.Range(1, 3))
		}
		if r.Chance(35, 100) {
			rel.AdvKey = uint64(r.Range(1, 3))
		}
		rel.IgnoreCtx = r.Chance(30, 100)
		residue := int64(i)
		if tie && i == 1 {
			residue = 0
		}
		// where the residue goes: the grace period or the first latency
		firstExtra := int64(0)
		if r.Bool() {
			rel.Grace = 16*int64(pick(r, 0, 0, 1, 2, 5)) + residue
		} else {
			rel.Grace = 16 * int64(pick(r, 0, 0, 0, 1, 3))
			firstExtra = residue
		}
		genBid := func() *BidIn {
			h := pick(r, headers...)
			v := valueOfHeader[h]
			switch r.Intn(10) {
			case 0:
				v += int64(r.Range(-3, 3)) // same header, different value
			case 1:
				v = base // equal values, maybe different headers
			case 2: // around the relay's minimum
				if mv := bigOf(rel.Min); mv.Sign() > 0 {
					q := new(big.Int).Div(mv, bigOf(scaled(1, exp)))
					v = q.Int64() + int64(r.Range(-1, 1))
				}
			case 3:
				v = int64(r.Range(1, int(base)*3))
			}
			b := &BidIn{Value: val(v), Builder: uint64(r.Range(1, nBuilders)), Header: h}
			if exp > 0 && r.Chance(1, 4) { // not a round number
				b.Value = new(big.Int).Add(bigOf(b.Value), big.NewInt(int64(r.Range(-3, 3)))).String()
				if bigOf(b.Value).Sign() < 0 {
					b.Value = "0"
				}
			}
			if r.Chance(2, 100) {
				b.Value = "0"
			}
			// signature
			if k := effKey(&rel); k != 0 {
				b.Signer = k
				if r.Chance(10, 100) {
					b.Signer = pick(r, uint64(0), 9, k%3+1)
				}
			} else {
				b.Signer = pick(r, uint64(0), 1, 2, 9)
			}
			if r.Chance(5, 100) {
				b.ZeroRecipient = true
			}
			if r.Chance(8, 100) {
				b.TsDelta = pick(r, int64(1), -1, 12, -12, 1)
			}
			return b
		}
		genResp := func(first bool) RespIn {
			s := RespIn{Kind: "bid"}
			switch k := r.Intn(100); {
			case k < 6:
				s.Kind = "err"
			case k < 10:
				s.Kind = "nil"
			case k < 13:
				s.Kind = "empty"
			case k < 15:
				s.Kind = "malformed"
			case k < 19:
				s.Kind = "hang"
			}
			if s.Kind == "bid" {
				s.Bid = genBid()
			}
			return s
		}
		if in.Strategy == "best" {
			s := genResp(true)
			// arrival = grace + lat = 16 n + residue, n around the cut-off now and then
			var n int64
			switch k := r.Intn(100); {
			case k < 10:
				n = m // just before the hard timeout
			case k < 20:
				n = m + 1 // just after
			case k < 26:
				n = m + int64(r.Range(2, 10))
			case k < 34:
				n = m/2 + int64(r.Range(-1, 1)) // around the soft timeout
			default:
				n = int64(r.Range(1, int(m)))
			}
			lat := 16*n + residue - rel.Grace
			if lat < 1 {
				lat += 16 * ((rel.Grace / 16) + 1)
			}
			s.Lat = lat
			rel.Script = []RespIn{s}
		} else {
			n := r.Range(1, 5)
			var prev *BidIn
			for k := 0; k < n; k++ {
				s := genResp(k == 0)
				s.Lat = 16 * int64(r.Range(1, 12))
				if k == 0 {
					s.Lat += firstExtra
				}
				if s.Kind == "bid" && prev != nil {
					switch r.Intn(10) {
					case 0, 1, 2, 3: // improving stream: same relay, higher value, new header
						v := new(big.Int).Add(bigOf(prev.Value), bigOf(val(int64(r.Range(1, 10)))))
						s.Bid.Value = v.String()
					case 4: // the same bid again
						cp := *prev
						s.Bid = &cp
					case 5: // lower value (cancellation), maybe another builder
						v := new(big.Int).Sub(bigOf(prev.Value), bigOf(val(int64(r.Range(1, 5)))))
						if v.Sign() > 0 {
							s.Bid.Value = v.String()
						}
					}
				}
				if s.Kind == "bid" {
					prev = s.Bid
				}
				rel.Script = append(rel.Script, s)
			}
			if firstExtra != 0 && len(rel.Script) > 0 && rel.Script[0].Lat%16 == 0 {
				rel.Script[0].Lat += firstExtra
			}
		}
		in.Relays = append(in.Relays, rel)
	}

	// targeted: the most valuable response is unacceptable for exactly one reason
	if nRelays > 0 && r.Chance(30, 100) {
		i := r.Intn(nRelays)
		rel := &in.Relays[i]
		if len(rel.Script) > 0 {
			k := r.Intn(len(rel.Script))
			if in.Strategy == "best" {
				k = 0
			}
			b := &BidIn{Value: val(base * 4), Builder: uint64(r.Range(1, nBuilders)), Header: headers[0], Signer: effKey(rel)}
			if b.Signer == 0 {
				b.Signer = 1
			}
			switch r.Intn(7) {
			case 0:
				b.TsDelta = pick(r, int64(1), -1, 12)
			case 1:
				if effKey(rel) == 0 {
					rel.CfgKey = 2
				}
				b.Signer = pick(r, uint64(0), 9, effKey(rel)%3+1)
			case 2:
				b.ZeroRecipient = true
			case 3:
				rel.Min = new(big.Int).Add(bigOf(b.Value), big.NewInt(1)).String()
			case 4: // excluded builder
				f := "0"
				found := false
				for j := range in.Cfgs {
					if in.Cfgs[j].Builder == b.Builder {
						in.Cfgs[j] = BConfIn{Builder: b.Builder, Cat: 1, Factor: &f}
						found = true
					}
				}
				if !found {
					in.Cfgs = append(in.Cfgs, BConfIn{Builder: b.Builder, Cat: 1, Factor: &f})
				}
			case 5: // late
				if in.Strategy == "best" {
					rel.Script[0].Lat += 16 * (m + 2)
				} else {
					rel.Script[k].Lat += 16 * (m + 2)
				}
			default: // acceptable after all: it must win
			}
			rel.Script[k].Kind = "bid"
			rel.Script[k].Bid = b
		}
	}
	// slow but in time: one relay uses up most of the time there is (a long latency, a long grace
	// period, or a slow later call of the deadline strategy) and still has its answer ready before
	// the cut-off, with the most valuable bid of the auction; it honours the request's context like
	// the real HTTP client, so a request that vouch gives up early is lost
	if nRelays > 0 && m > 6 && r.Chance(24, 100) {
		i := r.Intn(nRelays)
		rel := &in.Relays[i]
		if len(rel.Script) > 0 {
			residue := (rel.Grace + rel.Script[0].Lat) % 16
			b := &BidIn{Value: val(base * 5), Builder: uint64(r.Range(1, nBuilders)), Header: headers[1], Signer: effKey(rel)}
			if b.Signer == 0 {
				b.Signer = 1
			}
			rel.IgnoreCtx = false
			k := 0
			n := int64(r.Range(int(m)/2+1, int(m)-1)) // answer ready at 16 n + residue, after half of the time
			switch v := r.Intn(10); {
			case v < 4: // long latency
				rel.Grace = 16 * int64(pick(r, 0, 0, 1, 2))
				rel.Script[0].Lat = 16*n + residue - rel.Grace
				in.Tags = append(in.Tags, "slow-in-time:latency")
			case v < 7: // long grace period
				rel.Grace = 16 * int64(r.Range(int(m)/4, int(n)-1))
				rel.Script[0].Lat = 16*n + residue - rel.Grace
				in.Tags = append(in.Tags, "slow-in-time:grace")
			default: // deadline: a later call is slow (in time or not, depending on the calls before)
				if in.Strategy != "best" && len(rel.Script) > 1 {
					k = r.Range(1, len(rel.Script)-1)
					rel.Script[k].Lat = 16 * int64(r.Range(int(m)/3, int(m)))
					in.Tags = append(in.Tags, "slow-in-time:later-call")
				} else {
					rel.Grace = 0
					rel.Script[0].Lat = 16*n + residue
					in.Tags = append(in.Tags, "slow-in-time:latency")
				}
			}
			rel.Script[k].Kind = "bid"
			rel.Script[k].Bid = b
		}
	}
	if r.Chance(22, 100) {
		dupMessage(r, &in)
	}
	genLate(r, &in)
	return in
}

// spoilAuction makes every bid of the auction unacceptable (one reason per bid): the auction ends
// without a winner.
func spoilAuction(r *Rand, in *Input) {
	for i := range in.Relays {
		rel := &in.Relays[i]
		for k := range rel.Script {
			sc := &rel.Script[k]
			if sc.Kind != "bid" {
				continue
			}
			cp := *sc.Bid
			sc.Bid = &cp
			switch r.Intn(7) {
			case 0:
				sc.Bid.TsDelta = pick(r, int64(1), -1, 12)
			case 1:
				sc.Bid.ZeroRecipient = true
			case 2:
				sc.Kind, sc.Bid = pick(r, "err", "nil", "empty", "hang", "malformed"), nil
			case 3:
				sc.Bid.Value = "0"
			case 4:
				if effKey(rel) == 0 {
					rel.CfgKey = 2
				}
				sc.Bid.Signer = pick(r, uint64(0), 9, effKey(rel)%3+1)
			case 5: // after the cut-off
				sc.Lat += 16 * (in.cutoff()/16 + 2)
			default: // nothing at all: the relay's minimum is above everything it offers
				rel.Min = scaled(1, 30)
			}
		}
	}
}

// genLate: what happens after the auction on the same service (modes auction and query): the beacon
// node asks for the bid of the auction's key once to three times, at once or (much) later, and by then
// most relays have a bid worth more than anything offered during the auction; in two cases out of five
// the auction itself is made to end without a winner.
func genLate(r *Rand, in *Input) { genLateOpt(r, in, true) }

// genLateOpt: spoil = the auction itself may be made to end without a winner.
func genLateOpt(r *Rand, in *Input, spoil bool) {
	in.Late = nil
	if in.Mode == "strategy" || !r.Chance(75, 100) {
		return
	}
	lt := &LateIn{Queries: pick(r, 1, 1, 2, 3), Wait: pick(r, int64(0), 0, 1, 40, 500, 4000, 12000, 400000),
		Between: pick(r, int64(0), 1, 250, 12000)}
	if len(in.Relays) > 0 && spoil && r.Chance(40, 100) {
		spoilAuction(r, in)
		in.Tags = append(in.Tags, "late:auction-made-to-end-without-winner")
	}
	if len(in.Relays) > 0 && r.Chance(25, 100) {
		lt.Other = pick(r, "parent", "parent+slot", "parent+proposer")
	}
	// the largest value around, the builders and headers seen
	top := big.NewInt(100)
	builders := []uint64{1}
	headers := []uint64{95}
	for i := range in.Relays {
		for k := range in.Relays[i].Script {
			if b := in.Relays[i].Script[k].Bid; b != nil {
				if v := bigOf(b.Value); v.Cmp(top) > 0 {
					top = v
				}
				builders = append(builders, b.Builder)
				headers = append(headers, b.Header)
			}
		}
		if m := bigOf(in.Relays[i].Min); m.Cmp(top) > 0 && in.Relays[i].Min != scaled(1, 30) {
			top = m
		}
	}
	for i := range in.Relays {
		rel := &in.Relays[i]
		var sc []RespIn
		n := r.Range(1, 3)
		for k := 0; k < n; k++ {
			x := RespIn{Lat: 16*int64(r.Range(1, 5)) + int64(i), Kind: "bid"}
			switch v := r.Intn(100); {
			case v < 8:
				x.Kind = pick(r, "err", "nil", "hang", "empty")
			case v < 16 && k < len(rel.Script): // what it said during the auction
				x.Kind, x.Bid = rel.Script[k].Kind, rel.Script[k].Bid
			}
			if x.Kind == "bid" && x.Bid == nil {
				value := new(big.Int).Add(new(big.Int).Mul(top, big.NewInt(int64(r.Range(2, 4)))), big.NewInt(int64(r.Range(0, 9))))
				x.Bid = &BidIn{Value: value.String(), Builder: pick(r, builders...), Header: pick(r, headers...), Signer: effKey(rel)}
				if x.Bid.Signer == 0 {
					x.Bid.Signer = 1
				}
			}
			sc = append(sc, x)
		}
		lt.Scripts = append(lt.Scripts, sc)
	}
	in.Late = lt
}

// ---------------------------------------------------------------------------------------------

func inputKey(in Input) string {
	js, _ := json.Marshal(in)
	return string(js)
}

// genSeq: 2-4 auctions for one strategy instance and one blockrelay service.  The parameters fixed at
// construction (strategy, timeouts, bid gap, log level, builder configurations) are those of the first
// auction; every auction has its own relays' behaviour (independent, or a variation of the previous
// auction: advertised keys changed, bids re-signed or not, values moved, a relay now failing or
// silent), its own cut-off, and a slot / parent / proposer that repeats or differs.  An auction
// started through BuilderBid on an empty cache (mode query), and one without relays (which caches
// nothing), is given a key not used before: for a key used before the service legitimately answers
// from its cache.
func genSeq(r *Rand, tier string) []Input {
	first := gen(r.Fork(), tier)
	n := r.Range(2, 4)
	rounds := []Input{first}
	type key struct{ s, p, q uint64 }
	used := map[key]bool{{0, 0, 0}: true}
	for j := 1; j < n; j++ {
		var nx Input
		if r.Chance(45, 100) {
			nx = gen(r.Fork(), tier)
			for nx.Strategy != first.Strategy {
				nx = gen(r.Fork(), tier)
			}
			if nx.Strategy != "best" {
				nx.SlotStartIn = nx.SlotStartIn + nx.Deadline - first.Deadline // keeps the auction's own cut-off instant
			}
			nx.Tags = append(nx.Tags, "sequence:independent-auction")
		} else {
			js, _ := json.Marshal(rounds[j-1])
			_ = json.Unmarshal(js, &nx)
			nx.Tags = []string{"sequence:variation-of-previous"}
			for i := range nx.Relays {
				rel := &nx.Relays[i]
				if r.Chance(50, 100) { // the relay advertises another key (or none) now
					old := effKey(rel)
					rel.AdvKey = pick(r, uint64(0), 1, 2, 3)
					if r.Chance(15, 100) {
						rel.CfgKey = pick(r, uint64(0), 1, 2, 3)
					}
					if k := effKey(rel); k != old && r.Chance(80, 100) { // ... and signs with it
						for c := range rel.Script {
							if b := rel.Script[c].Bid; b != nil && b.Signer == old {
								b.Signer = k
								if k == 0 {
									b.Signer = 1
								}
							}
						}
					}
				}
				for c := range rel.Script {
					sc := &rel.Script[c]
					switch v := r.Intn(10); {
					case v < 4 && sc.Bid != nil: // other values
						sc.Bid.Value = new(big.Int).Add(bigOf(sc.Bid.Value), big.NewInt(int64(r.Range(1, 9)))).String()
						sc.Bid.Header = sc.Bid.Header%90 + 1
					case v == 4 && sc.Bid != nil:
						sc.Kind, sc.Bid = pick(r, "err", "hang", "nil"), nil
					case v == 5 && sc.Bid == nil && c > 0 && rel.Script[c-1].Bid != nil: // the relay has recovered
						cp := *rel.Script[c-1].Bid
						cp.Value = new(big.Int).Add(bigOf(cp.Value), big.NewInt(int64(r.Range(1, 9)))).String()
						sc.Kind, sc.Bid = "bid", &cp
					}
				}
			}
		}
		nx.Strategy, nx.Timeout, nx.Deadline, nx.Gap, nx.Trace, nx.Cfgs = first.Strategy, first.Timeout, first.Deadline, first.Gap, first.Trace, first.Cfgs
		switch k := r.Intn(100); {
		case k < 40:
			nx.Mode = "strategy"
		case k < 75:
			nx.Mode = "auction"
		default:
			nx.Mode = "query"
		}
		nx.SlotOff, nx.Parent, nx.Proposer = pick(r, uint64(0), 0, 0, 1, 2, 70), pick(r, uint64(0), 0, 8, 9), pick(r, uint64(0), 0, 2)
		if r.Chance(40, 100) { // the very slot / parent / proposer of an earlier auction
			e := rounds[r.Intn(len(rounds))]
			nx.SlotOff, nx.Parent, nx.Proposer = e.SlotOff, e.Parent, e.Proposer
		}
		if nx.Mode != "strategy" && nx.Late == nil || nx.Mode == "strategy" {
			genLate(r, &nx)
		}
		k := key{nx.SlotOff, nx.Parent, nx.Proposer}
		if (nx.Mode == "query" || len(nx.Relays) == 0) && used[k] { // an auction without relays caches nothing: the earlier entry stays

			nx.Parent = uint64(100 + j)
			k.p = nx.Parent
		}
		if used[k] {
			nx.Tags = append(nx.Tags, "sequence:same-key-as-earlier-auction")
		}
		used[k] = true
		rounds = append(rounds, nx)
	}
	return rounds
}

func TestC09(t *testing.T) {
	zerologger.Logger = zerolog.New(io.Discard)
	col := NewCollector("C09", "Check.C09",
		"one relay auction per case (0-6 relays; best or deadline strategy; called directly, through AuctionBlock+BuilderBid, or through BuilderBid on an empty cache; "+
			"alone on a fresh strategy/blockrelay instance or as the 2nd-4th auction on a used one; "+
			"three in four of the auctions run through the blockrelay service are followed by 1-3 later BuilderBid calls for the same key while the relays have other bids); "+
			"non-trivial = at least one scripted bid reached vouch before the cut-off (so that eligibility and scoring were decided); distinct by full input text")
	n := EnvInt("VERIF_N", 600)
	tier := "quick"
	if v := strings.TrimSpace(os.Getenv("VERIF_TIER")); v != "" {
		tier = v
	}
	// a job: auctions run in a row on one instance; those from index `from` on become cases
	type job struct {
		rounds []Input
		from   int
	}
	var jobs []job
	for _, in := range LoadInputs[Input]("C09") {
		in.Tags = append(in.Tags, "corpus")
		rounds := append(append([]Input{}, in.Before...), in)
		jobs = append(jobs, job{rounds: rounds, from: len(rounds) - 1})
	}
	rng := NewRand(Seed())
	for i := 0; i < n; {
		if i%16 == 3 && i+3 <= n { // auctions within one second of chain time: the same bid message again
			rounds := genDupSeq(rng.Fork(), tier)
			jobs = append(jobs, job{rounds: rounds})
			i += len(rounds)
			continue
		}
		if i%8 == 7 && i+4 <= n { // about one case in four is an auction of a sequence
			rounds := genSeq(rng.Fork(), tier)
			jobs = append(jobs, job{rounds: rounds})
			i += len(rounds)
			continue
		}
		jobs = append(jobs, job{rounds: []Input{gen(rng.Fork(), tier)}})
		i++
	}
	// relay clients constructed and held by util.FetchBuilderClient, fetched before under other spellings
	rngF := NewRand(Seed() ^ 0xC09F)
	for i := 0; i < n/20; i++ {
		rounds := genFetched(rngF.Fork(), tier)
		jobs = append(jobs, job{rounds: rounds, from: len(rounds) - 1})
	}
	for _, jb := range jobs {
		for j := range jb.rounds {
			if len(jb.rounds[j].Relays) > 15 {
				jb.rounds[j].Relays = jb.rounds[j].Relays[:15]
			}
		}
		run := make([]Input, len(jb.rounds))
		copy(run, jb.rounds)
		obss := runSeq(t, run)
		if len(jb.rounds) > 1 {
			col.Count(fmt.Sprintf("sequence-of:%d", len(jb.rounds)))
		}
		for j := jb.from; j < len(run); j++ {
			in := run[j] // normalised: carries the parameters of the instance
			in.Tags = jb.rounds[j].Tags
			if j > 0 {
				in.Before = append([]Input{}, run[:j]...)
			}
			emit(col, in, obss[j], j)
		}
	}
	if err := col.Flush(); err != nil {
		t.Fatal(err)
	}
}

func emit(col *Collector, in Input, obs Obs, round int) {
	tg := tags(&in)
	if round > 0 {
		tg = append(tg, "sequence", fmt.Sprintf("sequence:auction-%d-on-the-instance", round+1))
		col.Count("sequence:later-auction")
	}
	cut := in.cutoff()
	nontrivial := false
	for _, c := range obs.Calls {
		if c.T < cut && !c.Dropped && c.Relay < len(in.Relays) && c.Call < len(in.Relays[c.Relay].Script) && in.Relays[c.Relay].Script[c.Call].Kind == "bid" {
			nontrivial = true
		}
		if c.Dropped {
			col.Count("answer:dropped-by-requester")
			if c.T < cut {
				col.Count("answer:dropped-before-cut-off")
			}
		} else if c.T >= cut {
			col.Count("answer:late")
		} else {
			col.Count("answer:on-time")
		}
	}
	// instants shared by several answers: arrival order is Go's choice
	for i := 1; i < len(obs.Calls); i++ {
		if obs.Calls[i].T == obs.Calls[i-1].T && obs.Calls[i].T < cut {
			tg = append(tg, "tied-arrivals")
			break
		}
	}
	if in.Late != nil && in.Mode != "strategy" {
		tg = append(tg, "late-queries")
		col.Count(fmt.Sprintf("late:queries-%d", in.Late.Queries))
		if in.Late.Other != "" {
			tg = append(tg, "late:other-key-auction-first")
			col.Count("late:other-key-auction-first")
		}
		noWinner := obs.Win == nil && (len(obs.Served) == 0 || obs.Served[0] == nil)
		lateBid := false
		for i := range in.Late.Scripts {
			for k := range in.Late.Scripts[i] {
				if x := in.Late.Scripts[i][k]; i < len(in.Relays) && x.Kind == "bid" && eligibleIn(&in.Relays[i], x.Bid) && scoreIn(&in, x.Bid).Sign() != 0 {
					lateBid = true
				}
			}
		}
		switch {
		case noWinner && lateBid:
			col.Count("late:no-winner-then-an-eligible-bid-appears")
		case noWinner:
			col.Count("late:no-winner")
		case lateBid:
			col.Count("late:winner-then-other-eligible-bids-appear")
		default:
			col.Count("late:winner")
		}
		if len(obs.LateReqs) > 0 {
			col.Count("late:relays-asked")
		}
	}
	if obs.DupWithin > 0 {
		col.Count("dup-message:within-the-auction")
	}
	if obs.DupAcross > 0 {
		col.Count("dup-message:of-an-earlier-auction-on-the-instance")
	}
	col.Count(fmt.Sprintf("relays:%d", len(in.Relays)))
	col.Count("strategy:" + in.Strategy)
	col.Count("mode:" + in.Mode)
	switch {
	case obs.Stuck:
		col.Count("outcome:goroutines-left-blocked")
	case obs.Panic:
		col.Count("outcome:panic")
	case obs.Win != nil || (len(obs.Served) > 0 && obs.Served[0] != nil):
		col.Count("outcome:winner")
	default:
		col.Count("outcome:no-winner")
	}
	if len(obs.Providers) > 1 {
		col.Count("outcome:several-providers")
	}
	id := col.NextID()
	col.Add(Case{Term: term(id, in, obs), Key: inputKey(in), Nontrivial: nontrivial, Tags: tg,
		Sample: map[string]any{"input": in, "observed": obs}})
}
