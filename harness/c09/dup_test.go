// C09, generator families "the same bid message more than once".
//
// A bid MESSAGE (header, value, builder key) says nothing about who vouches for it: the relay's
// signature does, and eligibility is decided per relay (its key, its minimum) and per auction (the
// slot's timestamp).  Many relays carry the same builder's bid, so the same message legitimately
// turns up at several relays, on re-polls, and -- within one second of chain time -- in a later
// auction on the same strategy instance.  These families make that happen on purpose:
//
//   - dupMessage (inside one auction): the most valuable message of the auction is offered by two
//     relays with different keys: once properly signed, and once forwarded with the other relay's
//     signature / unsigned / properly re-signed / below the second relay's minimum; on a re-poll of
//     the deadline strategy first with a wrong and then with the right signature, or forwarded by a
//     relay that answered something else before.  Arrival order is whatever the scripts give.
//   - genDupSeq (2-3 auctions of 200-270 ms each, a few tens of ms apart, so that the header
//     timestamp -- slot start in whole seconds -- is the same in all of them): the top message of the
//     first auction comes back in the next one with the relay's key changed, with a wrong signature,
//     forwarded by another relay, unchanged (must win again), corrected after having been refused,
//     or below a raised minimum.
//
// Nothing here judges the implementation: every auction is compared with the model of an independent
// auction as before, and P_b is computed from the relay-side log and the scripts.
package c09

import (
	"encoding/json"
	"fmt"
	"math/big"

	. "verifharness/common"
)

func fullRelays(in *Input) []int {
	var out []int
	for i := range in.Relays {
		if in.Relays[i].Kind == "full" && len(in.Relays[i].Script) > 0 {
			out = append(out, i)
		}
	}
	return out
}

// topValue: the largest bid value (or finite minimum) of the auction, at least 100.
func topValue(in *Input) *big.Int {
	top := big.NewInt(100)
	for i := range in.Relays {
		for k := range in.Relays[i].Script {
			if b := in.Relays[i].Script[k].Bid; b != nil {
				if v := bigOf(b.Value); v.Cmp(top) > 0 {
					top = v
				}
			}
		}
		if m := bigOf(in.Relays[i].Min); m.Cmp(top) > 0 && in.Relays[i].Min != scaled(1, 30) {
			top = m
		}
	}
	return top
}

// aBuilder: a builder seen in the auction, one that is not excluded if there is one.
func aBuilder(r *Rand, in *Input) uint64 {
	seen := []uint64{1}
	for i := range in.Relays {
		for k := range in.Relays[i].Script {
			if b := in.Relays[i].Script[k].Bid; b != nil {
				seen = append(seen, b.Builder)
			}
		}
	}
	excluded := func(b uint64) bool {
		for _, c := range in.Cfgs {
			if c.Builder == b && c.Factor != nil && bigOf(*c.Factor).Sign() == 0 {
				return true
			}
		}
		return false
	}
	for try := 0; try < 6; try++ {
		if b := pick(r, seen...); !excluded(b) {
			return b
		}
	}
	return pick(r, seen...)
}

func aHeader(r *Rand, in *Input) uint64 {
	seen := []uint64{uint64(r.Range(1, 90))}
	for i := range in.Relays {
		for k := range in.Relays[i].Script {
			if b := in.Relays[i].Script[k].Bid; b != nil {
				seen = append(seen, b.Header)
			}
		}
	}
	return pick(r, seen...)
}

// setRelayKey makes k the relay's effective key (configured if one was configured, else advertised);
// the bids it signed with its former key (any bid, if none was known) are signed with the new one.
func setRelayKey(rel *RelayIn, k uint64) {
	old := effKey(rel)
	if rel.CfgKey != 0 {
		rel.CfgKey = k
	} else {
		rel.AdvKey = k
	}
	for c := range rel.Script {
		if b := rel.Script[c].Bid; b != nil && (b.Signer == old || old == 0) {
			cp := *b
			cp.Signer = k
			rel.Script[c].Bid = &cp
		}
	}
}

// firstInTime: the relay's first answer arrives before the cut-off (its residue modulo 16 is kept).
func firstInTime(r *Rand, in *Input, rel *RelayIn) {
	cut := in.cutoff()
	m := cut / 16
	arr := rel.Grace + rel.Script[0].Lat
	if arr < cut-16 {
		return
	}
	res := arr % 16
	if rel.Grace >= 16*(m/2) {
		rel.Grace %= 16
	}
	lo := int(rel.Grace/16) + 1
	hi := int(m) - 1
	if hi < lo {
		hi = lo
	}
	rel.Script[0].Lat = 16*int64(r.Range(lo, hi)) + res - rel.Grace
}

func otherKey(r *Rand, k uint64) uint64 {
	for {
		if x := uint64(r.Range(1, 3)); x != k {
			return x
		}
	}
}

func wrongSigner(r *Rand, key uint64) uint64 { return pick(r, uint64(0), 9, key%3+1) }

// secondRelay: a full relay other than a (one is added when there is none).
func secondRelay(r *Rand, in *Input, a int) int {
	var others []int
	for _, i := range fullRelays(in) {
		if i != a {
			others = append(others, i)
		}
	}
	if len(others) > 0 {
		return pick(r, others...)
	}
	i := len(in.Relays)
	m := int(in.cutoff() / 16)
	if m < 3 {
		m = 3
	}
	in.Relays = append(in.Relays, RelayIn{Kind: "full", Min: "0", IgnoreCtx: r.Chance(30, 100),
		Script: []RespIn{{Lat: 16*int64(r.Range(1, m-1)) + int64(i), Kind: "nil"}}})
	return i
}

func setBid(rel *RelayIn, k int, b BidIn) {
	for len(rel.Script) <= k {
		rel.Script = append(rel.Script, RespIn{Lat: 16, Kind: "nil"})
	}
	rel.Script[k].Kind = "bid"
	rel.Script[k].Bid = &b
}

// dupMessage: see the head of the file.
func dupMessage(r *Rand, in *Input) {
	full := fullRelays(in)
	if len(full) == 0 || len(in.Relays) >= 15 || in.cutoff() < 100 {
		return
	}
	a := pick(r, full...)
	b := secondRelay(r, in, a)
	A, B := &in.Relays[a], &in.Relays[b]
	kA := effKey(A)
	if kA == 0 {
		kA = uint64(r.Range(1, 3))
		setRelayKey(A, kA)
	}
	if kB := effKey(B); kB == 0 || kB == kA {
		setRelayKey(B, otherKey(r, kA))
	}
	kB := effKey(B)
	value := new(big.Int).Add(new(big.Int).Mul(topValue(in), big.NewInt(6)), big.NewInt(int64(r.Range(0, 9))))
	M := BidIn{Value: value.String(), Builder: aBuilder(r, in), Header: aHeader(r, in), Signer: kA}
	A.Min = pick(r, "0", "0", value.String())
	variants := []string{"forwarded-with-the-other-relays-signature", "forwarded-with-the-other-relays-signature", "forwarded-unsigned",
		"each-relay-signs-it", "below-the-second-relays-minimum"}
	if in.Strategy != "best" {
		variants = append(variants, "repoll:wrong-signature-then-right", "repoll:forwarded-by-a-relay-that-offered-something-else", "repoll:forwarded-by-a-relay-that-offered-something-else")
	}
	v := pick(r, variants...)
	in.Tags = append(in.Tags, "dup-message", "dup-message:"+v)
	switch v {
	case "forwarded-with-the-other-relays-signature":
		setBid(A, 0, M)
		fw := M
		setBid(B, 0, fw)
	case "forwarded-unsigned":
		setBid(A, 0, M)
		fw := M
		fw.Signer = pick(r, uint64(0), 9)
		setBid(B, 0, fw)
	case "each-relay-signs-it":
		setBid(A, 0, M)
		own := M
		own.Signer = kB
		setBid(B, 0, own)
		B.Min = "0"
	case "below-the-second-relays-minimum":
		setBid(A, 0, M)
		own := M
		own.Signer = kB
		setBid(B, 0, own)
		B.Min = new(big.Int).Add(value, big.NewInt(int64(pick(r, 1, 1, 1000)))).String()
	case "repoll:wrong-signature-then-right":
		bad := M
		bad.Signer = pick(r, uint64(0), 9, kB)
		setBid(A, 0, bad)
		setBid(A, 1, M)
		own := M
		own.Signer = pick(r, kB, kB, kA)
		setBid(B, 0, own)
	default: // B offers something of its own first and forwards A's signed bid on a later call
		setBid(A, 0, M)
		lowValue := new(big.Int).Div(value, big.NewInt(int64(r.Range(7, 40))))
		if lowValue.Sign() == 0 {
			lowValue = big.NewInt(1)
		}
		low := BidIn{Value: lowValue.String(), Builder: M.Builder, Header: M.Header%90 + 1, Signer: kB}
		B.Min = "0"
		setBid(B, 0, low)
		k := 1
		if len(B.Script) > 2 && r.Bool() {
			k = 2
		}
		for c := 1; c < k; c++ { // a request never answered would be the relay's last
			if B.Script[c].Kind == "hang" {
				B.Script[c].Kind = "nil"
			}
		}
		setBid(B, k, M)
	}
	firstInTime(r, in, A)
	firstInTime(r, in, B)
}

func cloneInput(in Input) Input {
	var out Input
	js, _ := json.Marshal(in)
	_ = json.Unmarshal(js, &out)
	return out
}

// genDupSeq: see the head of the file.
func genDupSeq(r *Rand, tier string) []Input {
	first := genOpt(r.Fork(), tier, true)
	for len(fullRelays(&first)) == 0 {
		first = genOpt(r.Fork(), tier, true)
	}
	first.Late = nil
	m1 := (first.cutoff() - 15) / 16
	loc := pick(r, fullRelays(&first)...)
	{
		A := &first.Relays[loc]
		kA := effKey(A)
		if kA == 0 {
			kA = uint64(r.Range(1, 3))
			setRelayKey(A, kA)
		}
		value := new(big.Int).Add(new(big.Int).Mul(topValue(&first), big.NewInt(8)), big.NewInt(int64(r.Range(0, 9))))
		M := BidIn{Value: value.String(), Builder: aBuilder(r, &first), Header: aHeader(r, &first), Signer: kA}
		if r.Chance(1, 6) { // refused the first time
			M.Signer = wrongSigner(r, kA)
			first.Tags = append(first.Tags, "dup-sequence:top-bid-wrongly-signed")
		}
		A.Min = "0"
		setBid(A, 0, M)
		firstInTime(r, &first, A)
	}
	first.Tags = append(first.Tags, "dup-sequence")
	rounds := []Input{first}
	n := pick(r, 2, 2, 3)
	at := int64(0) // deadline strategy: start of the next auction, ms since the start of the first (it returns at its cut-off)
	for j := 1; j < n; j++ {
		settle := 16*int64(r.Range(1, 3)) + 1
		at += rounds[j-1].cutoff() + settle
		nx := cloneInput(rounds[j-1])
		nx.Before, nx.Late, nx.Settle = nil, nil, 0
		stale := false
		A := &nx.Relays[loc]
		M := *A.Script[0].Bid
		valid := eligibleIn(A, &M)
		var step string
		if valid && nx.Strategy != "best" && at < 700 && r.Chance(1, 6) {
			step = "stale:offered-again-for-a-slot-that-starts-in-the-next-second"
		} else if valid {
			step = pick(r, "relay-key-changed-bid-signed-with-the-former-key", "same-message-wrong-signature", "same-message-wrong-signature",
				"forwarded-by-another-relay", "forwarded-by-another-relay", "offered-again", "minimum-raised-above-it")
		} else {
			step = pick(r, "now-properly-signed", "now-properly-signed", "offered-again", "forwarded-by-another-relay")
		}
		switch step {
		case "relay-key-changed-bid-signed-with-the-former-key":
			old := effKey(A)
			if A.CfgKey != 0 {
				A.CfgKey = otherKey(r, old)
			} else {
				A.AdvKey = otherKey(r, old)
			}
			if r.Bool() { // its other bids are signed with the new key
				for c := 1; c < len(A.Script); c++ {
					if b := A.Script[c].Bid; b != nil && b.Signer == old {
						b.Signer = effKey(A)
					}
				}
			}
		case "same-message-wrong-signature":
			A.Script[0].Bid.Signer = wrongSigner(r, effKey(A))
		case "forwarded-by-another-relay":
			b := secondRelay(r, &nx, loc)
			A = &nx.Relays[loc]
			B := &nx.Relays[b]
			if kB := effKey(B); kB == 0 || kB == M.Signer {
				avoid := M.Signer
				if avoid == 0 || avoid > 3 {
					avoid = uint64(r.Range(1, 3))
				}
				setRelayKey(B, otherKey(r, avoid))
			}
			B.Min = "0"
			setBid(B, 0, M)
			firstInTime(r, &nx, B)
			switch r.Intn(3) {
			case 0:
				A.Script[0].Kind, A.Script[0].Bid = pick(r, "err", "hang", "nil"), nil
			case 1:
				lower := M
				lower.Value = new(big.Int).Div(bigOf(M.Value), big.NewInt(9)).String()
				lower.Signer = effKey(A)
				A.Script[0].Bid = &lower
			}
			if A.Script[0].Bid == nil || A.Script[0].Bid.Value != M.Value {
				loc = b
			}
		case "stale:offered-again-for-a-slot-that-starts-in-the-next-second":
			// the very message of the earlier auction, properly signed: its timestamp is the earlier slot's
			stale = true
			A.Script[0].Bid.TsDelta = -1
		case "now-properly-signed":
			A.Script[0].Bid.Signer = effKey(A)
		case "minimum-raised-above-it":
			A.Min = new(big.Int).Add(bigOf(M.Value), big.NewInt(int64(pick(r, 1, 1, 500)))).String()
		default: // offered again as it was
		}
		if A := &nx.Relays[loc]; step != "minimum-raised-above-it" && bigOf(A.Min).Cmp(bigOf(M.Value)) > 0 {
			A.Min = "0"
		}
		// the other relays: most say what they said, some have moved on
		for i := range nx.Relays {
			if i == loc {
				continue
			}
			for c := range nx.Relays[i].Script {
				if b := nx.Relays[i].Script[c].Bid; b != nil && b.Value != M.Value && r.Chance(20, 100) {
					b.Value = new(big.Int).Add(bigOf(b.Value), big.NewInt(int64(r.Range(1, 9)))).String()
					b.Header = b.Header%90 + 1
				}
			}
		}
		if nx.Strategy != "best" {
			nx.SlotStartIn = 16*int64(r.Range(int(m1), 16)) + 15 - nx.Deadline
			if stale { // at + SlotStartIn in [1000, 2000): the slot starts one second later than the earlier one
				mm := (1000-at+nx.Deadline-15)/16 + int64(r.Range(1, 6))
				nx.SlotStartIn = 16*mm + 15 - nx.Deadline
			}
		}
		switch k := r.Intn(100); {
		case k < 40:
			nx.Mode = "strategy"
		case k < 75:
			nx.Mode = "auction"
		default:
			nx.Mode = "query"
		}
		nx.SlotOff, nx.Parent, nx.Proposer = pick(r, uint64(0), 0, 1), uint64(300+j), pick(r, uint64(0), 0, 2)
		nx.Tags = []string{"dup-sequence", "dup-sequence:" + step, fmt.Sprintf("dup-sequence:auction-%d", j+1)}
		rounds[j-1].Settle = settle
		rounds = append(rounds, nx)
		if stale {
			break
		}
	}
	last := &rounds[len(rounds)-1]
	if last.Mode != "strategy" {
		genLateOpt(r, last, false)
	}
	return rounds
}
