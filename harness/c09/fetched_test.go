//go:build verif

package c09

// The client behind a relay address is constructed, held and handed out by util.FetchBuilderClient; the
// public key that a relay address of the form http://0x<key>@host carries is parsed by the constructor
// of the real go-builder-client HTTP client and lives in the client.  The auctions of this family do
// not inject a ready-made mock under the configured address: every address is first given to the real
// util.FetchBuilderClient -- the addresses that other sites of the process asked for earlier
// (Input.Fetched: submission of validator registrations, unblinding, the configuration of another
// proposer that spells the same relay without / with another key), then the addresses of the
// auction's own configuration -- and only then is the scripted relay put BEHIND each client that
// FetchBuilderClient holds (util.WrapBuilderClientsC09): Address() and Pubkey() are the real client's,
// and which client the strategy gets for an address is decided by FetchBuilderClient's own lookup.
// Nothing of this is in the model: the advertised key of a relay is the one its configured address
// carries, whatever was fetched before.

import (
	"context"
	"fmt"
	"math/big"
	"net/url"
	"testing"
	"time"

	builder "github.com/attestantio/go-builder-client"
	"github.com/attestantio/vouch/util"
	"github.com/spf13/viper"
	. "verifharness/common"
)

// FetchIn: util.FetchBuilderClient was asked for relay Relay spelled with the public key Key (0: without).
type FetchIn struct {
	Relay int    `json:"relay"`
	Key   uint64 `json:"key,omitempty"`
}

func spelledAddress(i int, key uint64) string {
	if key == 0 {
		return relayAddress(i, "full")
	}
	return fmt.Sprintf("http://0x%x@relay-%d.c09.invalid:18550", relayPubkey(key)[:], i)
}

func keyInAddress(r *RelayIn) uint64 {
	if r.KeyInAddr {
		return r.AdvKey
	}
	return 0
}

func fetchedBefore(in *Input, i int) bool {
	for _, f := range in.Fetched {
		if f.Relay == i {
			return true
		}
	}
	return false
}

// viaFetch: the client of relay i of this auction is the one util.FetchBuilderClient constructs.
func viaFetch(in *Input, i int) bool {
	r := &in.Relays[i]
	if r.Kind == "badaddr" {
		return false
	}
	return r.KeyInAddr || (r.AdvKey == 0 && fetchedBefore(in, i))
}

func usesFetch(in *Input) bool {
	for i := range in.Relays {
		if viaFetch(in, i) {
			return true
		}
	}
	return false
}

// spellings: every address under which relay i is known to the process in this auction.
func spellings(in *Input, i int) []string {
	res := []string{spelledAddress(i, keyInAddress(&in.Relays[i]))}
	for _, f := range in.Fetched {
		if f.Relay == i {
			res = append(res, spelledAddress(i, f.Key))
		}
	}
	return res
}

func (m *relayMock) mock() *relayMock { return m }

type mockClient interface{ mock() *relayMock }

// unwrapFetched: before the relays of an auction of this family are set up, what earlier auctions on
// the instance have put into the client cache is undone: a scripted relay behind a real client gives
// way to the real client (the process has fetched it, and that stays), an injected mock goes.
func unwrapFetched() {
	util.WrapBuilderClientsC09(func(_ string, c builder.Service) builder.Service {
		if mc, ok := c.(mockClient); ok {
			return mc.mock().real // nil: removed
		}
		return c
	})
}

func relayOfAddress(address string) int {
	u, err := url.Parse(address)
	if err != nil {
		return -1
	}
	var i int
	if _, err := fmt.Sscanf(u.Hostname(), "relay-%d.c09.invalid", &i); err != nil {
		return -1
	}
	return i
}

// fetchAndWrap: see the head of the file.  mocks are the scripted relays of this auction that go
// behind real clients.
func fetchAndWrap(t *testing.T, ctx context.Context, in *Input, mocks []*relayMock) {
	if len(mocks) == 0 {
		return
	}
	viper.SetDefault("timeout", 2*time.Second) // the real client's constructor wants one
	fetch := func(address string) {
		if _, err := util.FetchBuilderClient(ctx, address, nil, "verif"); err != nil {
			t.Fatalf("FetchBuilderClient(%q): %v", address, err)
		}
	}
	for _, f := range in.Fetched {
		if f.Relay >= 0 && f.Relay < len(in.Relays) && viaFetch(in, f.Relay) {
			fetch(spelledAddress(f.Relay, f.Key))
		}
	}
	byIdx := map[int]*relayMock{}
	for _, m := range mocks {
		byIdx[m.idx] = m
		fetch(m.addr)
	}
	util.WrapBuilderClientsC09(func(_ string, c builder.Service) builder.Service {
		if _, ok := c.(mockClient); ok {
			return c // injected for this auction
		}
		m, ok := byIdx[relayOfAddress(c.Address())]
		if !ok {
			return c
		}
		w := &relayMock{idx: m.idx, addr: m.addr, adv: m.adv, script: m.script, late: m.late, ignoreCtx: m.ignoreCtx, start: m.start, log: m.log, real: c}
		switch in.Relays[m.idx].Kind {
		case "full":
			return fullClient{w}
		case "nounblind":
			return bidOnlyClient{w}
		}
		return plainClient{w}
	})
}

// genFetched: an auction in which one relay's outcome hinges on the key its configured address
// carries, after the process has fetched the relay's client under another spelling (or the same).
func genFetched(r *Rand, tier string) []Input {
	var in Input
	for {
		in = gen(r.Fork(), tier)
		if in.cutoff() >= 20 && len(in.Relays) < 6 {
			break
		}
	}
	in.Late = nil
	top := big.NewInt(0)
	for i := range in.Relays {
		for k := range in.Relays[i].Script {
			if b := in.Relays[i].Script[k].Bid; b != nil && bigOf(b.Value).Cmp(top) > 0 {
				top = bigOf(b.Value)
			}
		}
	}
	// the other relays: some of them spelled with their key, some fetched before under some spelling
	for i := range in.Relays {
		rel := &in.Relays[i]
		if rel.Kind == "badaddr" || !r.Chance(50, 100) {
			continue
		}
		rel.KeyInAddr = rel.AdvKey != 0
		for n := r.Intn(3); n > 0; n-- {
			in.Fetched = append(in.Fetched, FetchIn{Relay: i, Key: pick(r, uint64(0), rel.AdvKey, rel.AdvKey, 4)})
		}
	}
	// the relay in question: the top bid of the auction, eligible or not by the key of the configured address
	i := len(in.Relays)
	key, other := uint64(r.Range(1, 3)), uint64(5)
	bid := &BidIn{Value: new(big.Int).Add(top, big.NewInt(int64(r.Range(1000, 5000)))).String(), Builder: 9, Header: uint64(r.Range(1, 5))}
	rel := RelayIn{Kind: "full", Min: "0", Script: []RespIn{{Lat: int64(r.Range(1, 10)), Kind: "bid", Bid: bid}}}
	variant := pick(r, "without-key-first", "without-key-first", "other-key-first", "with-key-first-configured-without",
		"same-spelling-first", "another-proposer-lists-it-without-key")
	var before []Input
	switch variant {
	case "without-key-first":
		rel.AdvKey, rel.KeyInAddr = key, true
		bid.Signer = pick(r, other, 0, key)
		in.Fetched = append(in.Fetched, FetchIn{Relay: i})
	case "other-key-first":
		rel.AdvKey, rel.KeyInAddr = key, true
		bid.Signer = pick(r, other, other, key)
		in.Fetched = append(in.Fetched, FetchIn{Relay: i, Key: other})
	case "with-key-first-configured-without":
		bid.Signer = pick(r, other, 0, key)
		in.Fetched = append(in.Fetched, FetchIn{Relay: i, Key: key})
	case "same-spelling-first":
		rel.AdvKey, rel.KeyInAddr = key, true
		bid.Signer = pick(r, other, 0, key)
		in.Fetched = append(in.Fetched, FetchIn{Relay: i, Key: key})
	default:
		rel.AdvKey, rel.KeyInAddr = key, true
		bid.Signer = pick(r, other, 0)
	}
	if r.Chance(1, 6) { // the key of the relay configuration has precedence anyway
		rel.CfgKey = pick(r, key, other)
	}
	in.Relays = append(in.Relays, rel)
	in.Tags = append(in.Tags, "client-fetched-before", "client-fetched-before:"+variant)
	if variant == "another-proposer-lists-it-without-key" {
		// an auction for another proposer, whose configuration spells the relay without the key, ran
		// before on the instance (the relay signs properly with no key known: anything goes)
		var first Input
		first = in
		first.Tags = nil
		first.Relays = append([]RelayIn{}, in.Relays...)
		fr := rel
		fr.AdvKey, fr.KeyInAddr, fr.CfgKey = 0, false, 0
		first.Relays[i] = fr
		first.Fetched = append(append([]FetchIn{}, in.Fetched...), FetchIn{Relay: i})
		first.Mode, in.Mode = "strategy", "strategy"
		in.Proposer, in.Parent = 3, 11
		before = []Input{first}
	}
	return append(before, in)
}
