package c11

import (
	"encoding/json"
	"fmt"

	. "verifharness/common"
)

// Generator.  A history is built from per-validator settings profiles A, B (a change of A at a
// relay they share) and C (unrelated), a pattern saying which profile is in force in which round
// (A A, A B A, A B B A, A B C A, random), and failing subsets chosen per operation.

var gasChoices = []uint64{30000000, 36000000, 1, 2}

func genResolved(r *Rand, nrelays int) Resolved {
	res := Resolved{Fee: uint64(r.Range(1, 6))}
	if r.Chance(1, 25) {
		res.Fee = 0
	}
	gas := gasChoices[r.Intn(2)]
	k := 0
	if nrelays > 0 {
		k = r.Range(0, nrelays)
		if r.Chance(2, 3) && k == 0 {
			k = 1
		}
	}
	perm := r.Perm(nrelays)
	for i := 0; i < k; i++ {
		rc := RelayCfg{Addr: uint64(perm[i] + 1), Fee: res.Fee, Gas: gas}
		if r.Chance(1, 3) { // per-relay override
			if r.Bool() {
				rc.Fee = uint64(r.Range(1, 6))
			} else {
				rc.Gas = gasChoices[r.Intn(len(gasChoices))]
			}
		}
		res.Relays = append(res.Relays, rc)
	}
	if k > 0 && r.Chance(1, 12) { // the same relay twice (nothing forbids it)
		res.Relays = append(res.Relays, res.Relays[r.Intn(k)])
	}
	return res
}

// change returns a profile that differs from a at least in one content.
func change(r *Rand, a Resolved, nrelays int) Resolved {
	b := Resolved{Fee: a.Fee, Relays: append([]RelayCfg{}, a.Relays...)}
	if len(b.Relays) == 0 {
		return genResolved(r, nrelays)
	}
	switch r.Intn(5) {
	case 0: // top-level fee recipient, followed by the relays that had no override
		b.Fee = a.Fee%6 + 1
		for i := range b.Relays {
			if b.Relays[i].Fee == a.Fee {
				b.Relays[i].Fee = b.Fee
			}
		}
	case 1: // one relay's fee recipient
		i := r.Intn(len(b.Relays))
		b.Relays[i].Fee = b.Relays[i].Fee%6 + 1
	case 2: // gas limit everywhere
		for i := range b.Relays {
			if b.Relays[i].Gas == 30000000 {
				b.Relays[i].Gas = 36000000
			} else {
				b.Relays[i].Gas = 30000000
			}
		}
	case 3: // one relay's gas limit
		i := r.Intn(len(b.Relays))
		b.Relays[i].Gas++
	default: // relay list: drop the first, or reverse
		if len(b.Relays) > 1 && r.Bool() {
			b.Relays = b.Relays[1:]
		} else if len(b.Relays) > 1 {
			for i, j := 0, len(b.Relays)-1; i < j; i, j = i+1, j-1 {
				b.Relays[i], b.Relays[j] = b.Relays[j], b.Relays[i]
			}
		} else {
			b.Relays[0].Fee = b.Relays[0].Fee%6 + 1
		}
	}
	return b
}

func genKinds(r *Rand, nrelays int, failing bool) []KindIn {
	var ks []KindIn
	if !failing {
		return ks
	}
	for a := 1; a <= nrelays; a++ {
		if r.Chance(1, 2) {
			ks = append(ks, KindIn{Addr: uint64(a), Kind: []string{"err", "err", "nosubmitter", "noclient"}[r.Intn(4)]})
		}
	}
	return ks
}

func gen(r *Rand) Input {
	in := Input{NNodes: r.Range(0, 3), NPrepNodes: r.Range(1, 3), Fallback: uint64(r.Range(7, 9))}
	nvals := r.Range(1, 6)
	if r.Chance(1, 3) {
		nvals = r.Range(1, 2)
	}
	nrelays := r.Range(0, 3)
	if r.Chance(2, 3) {
		nrelays = r.Range(1, 3)
	}
	idx := r.Perm(12)
	for i := 0; i < nvals; i++ {
		in.Validators = append(in.Validators, ValidatorIn{Index: uint64(idx[i] + 1), Acct: uint64(100 + i), Pub: uint64(200 + (i*7)%nvals + 10*i)})
	}
	// profiles
	type prof struct{ a, b, c Resolved }
	profs := make([]prof, nvals)
	for i := range profs {
		a := genResolved(r, nrelays)
		profs[i] = prof{a: a, b: change(r, a, nrelays), c: genResolved(r, nrelays)}
	}
	patterns := [][]byte{{'A', 'A'}, {'A', 'B', 'A'}, {'A', 'B', 'A'}, {'A', 'B', 'B', 'A'}, {'A', 'B', 'C', 'A'}, {'A', 'A', 'B', 'A', 'B'}, nil}
	pat := patterns[r.Intn(len(patterns))]
	if pat == nil {
		for k := r.Range(2, 5); k > 0; k-- {
			pat = append(pat, "ABC"[r.Intn(3)])
		}
	}
	sticky := make([]bool, nvals) // validators that stay on A throughout
	for i := range sticky {
		sticky[i] = r.Chance(1, 4)
	}
	quiet := r.Chance(1, 3) // no failures at all in this history
	cfg := true
	for ri, p := range pat {
		// round
		op := Op{Kind: "round", Dt: uint64(r.Range(1, 30)), API: r.Chance(1, 4)}
		if r.Chance(1, 30) {
			cfg = !cfg
		} else if !cfg && r.Chance(2, 3) {
			cfg = true
		}
		op.Cfg = cfg
		if !op.API && r.Chance(1, 40) {
			op.AcctErr = true
		}
		failing := !quiet && r.Chance(1, 2)
		var vals []ValIn
		for i := 0; i < nvals; i++ {
			if ri > 0 && r.Chance(1, 10) {
				continue // not validating in this round
			}
			pr := profs[i].a
			if !sticky[i] {
				switch p {
				case 'B':
					pr = profs[i].b
				case 'C':
					pr = profs[i].c
				}
			}
			vi := ValIn{V: i, Res: &Resolved{Fee: pr.Fee, Relays: append([]RelayCfg{}, pr.Relays...)}}
			if failing && r.Chance(1, 6) {
				vi.Res = nil // settings cannot be resolved
			}
			if failing && r.Chance(1, 4) {
				for k := r.Range(1, 3); k > 0; k-- {
					vi.Sign = append(vi.Sign, r.Chance(1, 2))
				}
			}
			vals = append(vals, vi)
		}
		if r.Chance(1, 40) {
			vals = nil
		}
		op.Vals = vals
		op.Relays = genKinds(r, nrelays, failing)
		for k := 0; k < in.NNodes; k++ {
			if failing && r.Chance(1, 3) {
				op.Nodes = append(op.Nodes, "err")
			} else {
				op.Nodes = append(op.Nodes, "ok")
			}
		}
		in.Ops = append(in.Ops, op)

		// forwarding of registrations received over REST
		if r.Chance(1, 3) {
			f := Op{Kind: "forward", Dt: uint64(r.Range(1, 5)), Cfg: cfg, Relays: genKinds(r, nrelays, failing)}
			pubs := []uint64{}
			for k := r.Range(1, 4); k > 0; k-- {
				var pub uint64
				if r.Bool() {
					pub = in.Validators[r.Intn(nvals)].Pub // perhaps controlled
				} else {
					pub = uint64(900 + r.Intn(3))
				}
				f.Incoming = append(f.Incoming, RegIn{Pub: pub, Fee: uint64(r.Range(1, 6)), Gas: gasChoices[r.Intn(2)],
					Stamp: uint64(r.Range(0, 50)), SigAcct: uint64(r.Range(500, 503)), SigStamp: uint64(r.Range(0, 50))})
				pubs = append(pubs, pub)
			}
			done := map[uint64]bool{}
			for _, pub := range pubs {
				if done[pub] {
					continue
				}
				done[pub] = true
				if r.Chance(1, 6) {
					f.Resolve = append(f.Resolve, ResolveIn{Pub: pub})
					continue
				}
				if r.Chance(1, 10) {
					continue // unknown to the configuration: an error as well
				}
				as := []uint64{}
				perm := r.Perm(nrelays)
				for i := 0; i < r.Range(0, nrelays); i++ {
					as = append(as, uint64(perm[i]+1))
				}
				f.Resolve = append(f.Resolve, ResolveIn{Pub: pub, Relays: &as})
			}
			in.Ops = append(in.Ops, f)
		}

		// proposal preparations
		if r.Chance(1, 2) {
			pp := Op{Kind: "prepare", Dt: uint64(r.Range(1, 5)), Cfg: cfg, Vals: nil}
			for _, vi := range vals {
				c := ValIn{V: vi.V, Res: vi.Res}
				if failing && vi.Res != nil && r.Chance(1, 8) {
					c.Res = nil
				}
				pp.Vals = append(pp.Vals, c)
			}
			if r.Chance(1, 40) {
				pp.AcctErr = true
			}
			for k := 0; k < in.NPrepNodes; k++ {
				switch {
				case failing && r.Chance(1, 3):
					pp.Nodes = append(pp.Nodes, "err")
				case failing && r.Chance(1, 6):
					pp.Nodes = append(pp.Nodes, "notactive")
				default:
					pp.Nodes = append(pp.Nodes, "ok")
				}
			}
			in.Ops = append(in.Ops, pp)
		}
	}
	addTiming(r.Fork(), &in, nrelays)
	addActivation(r.Fork(), &in)
	addAddressing(r.Fork(), &in)
	return in
}

// ---------------------------------------------------------------------------------------------
// Peers that take time.  Real relay and beacon node clients need a round trip and give up when
// their context is cancelled; which peer answers first decides who is still in flight when another
// one fails.  Half of the histories get latencies: failing peers mostly fast (connection refused,
// immediate 503) and healthy ones mostly slow, sometimes the other way round, sometimes seconds
// (bounded by the client's own timeout).  The other half answers at once, as before.

var fastMs = []uint64{0, 10, 10, 20}
var slowMs = []uint64{50, 120, 250, 250}

func pickLat(r *Rand, failing bool) uint64 {
	fast := r.Chance(1, 4)
	if failing {
		fast = r.Chance(3, 4)
	}
	if r.Chance(1, 40) {
		return uint64(r.Range(2, 8)) * 1000 // a peer that is really slow
	}
	if fast {
		return fastMs[r.Intn(len(fastMs))]
	}
	return slowMs[r.Intn(len(slowMs))]
}

func addTiming(r *Rand, in *Input, nrelays int) {
	if !r.Chance(1, 2) {
		return
	}
	// something to be in flight next to: with timing, a lone preparer node gets company
	if in.NPrepNodes < 2 && r.Chance(2, 3) {
		in.NPrepNodes = 2
	}
	for i := range in.Ops {
		op := &in.Ops[i]
		kind := map[uint64]string{}
		for _, k := range op.Relays {
			kind[k.Addr] = k.Kind
		}
		switch op.Kind {
		case "round", "forward":
			for a := 1; a <= nrelays; a++ {
				op.RelayLat = append(op.RelayLat, LatIn{Addr: uint64(a), Ms: pickLat(r, kind[uint64(a)] == "err")})
			}
			if op.Kind == "round" {
				// a remote signer: 5 or 10 ms per request, all requests of a round well within the
				// half second after which time.Now().Round(time.Second) would be the next second
				reqs := 0
				for _, vi := range op.Vals {
					if vi.Res != nil {
						reqs += len(vi.Res.Relays)
					} else if op.RealCfg != "" {
						reqs += 4
					}
				}
				if r.Chance(2, 3) && reqs*10 <= 400 {
					op.SignLat = uint64(5 * r.Range(1, 2))
				}
				for k := 0; k < in.NNodes; k++ {
					op.NodeLat = append(op.NodeLat, pickLat(r, k < len(op.Nodes) && op.Nodes[k] == "err"))
				}
			}
		case "prepare":
			for len(op.Nodes) < in.NPrepNodes {
				// the node added above: fails in a third of the preparations
				if r.Chance(1, 3) {
					op.Nodes = append(op.Nodes, "err")
				} else {
					op.Nodes = append(op.Nodes, "ok")
				}
			}
			for k := 0; k < in.NPrepNodes; k++ {
				op.NodeLat = append(op.NodeLat, pickLat(r, op.Nodes[k] == "err"))
			}
		}
	}
	in.Tags = append(in.Tags, "timed")
}

// ---------------------------------------------------------------------------------------------
// Validators that are not validating all the time.  The accounts provider answers the accounts whose
// validator is active AT THE EPOCH IT IS ASKED FOR; the registration job and the proposal preparer
// ask for the next epoch, so that a validator that is about to be active is registered and prepared
// before it can propose.  Half of the histories get a current epoch per operation (advancing) and,
// per validator, an activation epoch and perhaps an exit epoch: active throughout, activating during
// the history (so that at some operation its activation epoch is the next one), exiting during the
// history (on its last epoch at some operation), pending far in the future, or in and out.  Drawn
// from a fork at the very end of gen / genReal: the rest of the stream is as before.

func addActivation(r *Rand, in *Input) {
	if !r.Chance(1, 2) {
		return
	}
	cur := uint64(r.Range(0, 40))
	if r.Chance(1, 6) {
		cur = 0
	}
	first := cur
	epochs := make([]uint64, len(in.Ops))
	for i := range in.Ops {
		if i > 0 {
			if in.Ops[i].Kind == "round" {
				cur += uint64(r.Range(0, 2))
			} else if r.Chance(1, 4) {
				cur++
			}
		}
		epochs[i] = cur
		in.Ops[i].Epoch = cur
	}
	span := int(cur-first) + 2
	from := make([]uint64, len(in.Validators))
	until := make([]uint64, len(in.Validators))
	for v := range in.Validators {
		switch r.Intn(10) {
		case 0, 1, 2: // validating throughout
			if r.Bool() {
				from[v] = uint64(r.Range(0, int(first)))
			}
		case 3, 4, 5, 6: // activating during the history
			from[v] = first + uint64(r.Range(1, span))
		case 7: // exiting during the history
			until[v] = first + uint64(r.Range(1, span))
		case 8: // pending, far away
			from[v] = cur + uint64(r.Range(3, 100))
		default: // in and out
			from[v] = first + uint64(r.Range(1, span))
			until[v] = from[v] + uint64(r.Range(1, 3))
		}
	}
	// mostly make sure the decisive situation occurs: at some job round or preparation, some
	// validator's activation epoch is exactly the next epoch
	if r.Chance(3, 4) {
		var cands []int
		for i, op := range in.Ops {
			if (op.Kind == "round" && !op.API || op.Kind == "prepare") && len(op.Vals) > 0 {
				cands = append(cands, i)
			}
		}
		if len(cands) > 0 {
			i := cands[r.Intn(len(cands))]
			v := in.Ops[i].Vals[r.Intn(len(in.Ops[i].Vals))].V
			from[v] = epochs[i] + 1
			if until[v] != 0 && until[v] <= from[v] {
				until[v] = from[v] + uint64(r.Range(1, 3))
			}
		}
	}
	for i := range in.Ops {
		for k := range in.Ops[i].Vals {
			v := in.Ops[i].Vals[k].V
			in.Ops[i].Vals[k].From, in.Ops[i].Vals[k].Until = from[v], until[v]
		}
	}
	in.Tags = append(in.Tags, "activation")
}

// ---------------------------------------------------------------------------------------------
// Real v2 execution configurations.

func relayKey(a int) string { return fmt.Sprintf("@%d@", a) }

func genRealCfg(r *Rand, vals []ValidatorIn, nrelays int) map[string]any {
	cfg := map[string]any{"version": 2}
	if r.Chance(3, 4) {
		cfg["fee_recipient"] = hexFee(uint64(r.Range(1, 6)))
	}
	if r.Chance(1, 2) {
		cfg["gas_limit"] = "36000000"
	}
	relays := map[string]any{}
	for a := 1; a <= nrelays; a++ {
		if !r.Chance(3, 4) {
			continue
		}
		rc := map[string]any{}
		if r.Chance(1, 3) {
			rc["fee_recipient"] = hexFee(uint64(r.Range(1, 6)))
		}
		if r.Chance(1, 4) {
			rc["gas_limit"] = fmt.Sprint(gasChoices[r.Intn(len(gasChoices))])
		}
		relays[relayKey(a)] = rc
	}
	cfg["relays"] = relays
	proposers := []any{}
	for _, v := range vals {
		if !r.Chance(1, 2) {
			continue
		}
		e := map[string]any{}
		if r.Bool() {
			e["proposer"] = hexPub(v.Pub)
		} else {
			e["proposer"] = fmt.Sprintf("<unknown>/account-%d", v.Acct)
		}
		if r.Chance(1, 2) {
			e["fee_recipient"] = hexFee(uint64(r.Range(1, 6)))
		}
		if r.Chance(1, 3) {
			e["gas_limit"] = "30000000"
		}
		if r.Chance(1, 5) {
			e["reset_relays"] = true
		}
		if nrelays > 0 && r.Chance(1, 2) {
			prs := map[string]any{}
			for k := r.Range(1, 2); k > 0; k-- {
				pr := map[string]any{}
				switch r.Intn(4) {
				case 0:
					pr["disabled"] = true
				case 1:
					pr["fee_recipient"] = hexFee(uint64(r.Range(1, 6)))
				case 2:
					pr["gas_limit"] = "2"
				}
				prs[relayKey(r.Range(1, nrelays))] = pr
			}
			e["relays"] = prs
		}
		proposers = append(proposers, e)
	}
	if r.Chance(1, 3) {
		// a catch-all by account name for the rest
		proposers = append(proposers, map[string]any{"proposer": "<unknown>/account-.*", "gas_limit": "1"})
	}
	cfg["proposers"] = proposers
	return cfg
}

// breakCfg puts the entry that cannot be applied somewhere in the proposers list: every validator
// not matched before it can no longer be resolved.
func breakCfg(r *Rand, cfg map[string]any) map[string]any {
	c := cloneCfg(cfg)
	ps, _ := c["proposers"].([]any)
	at := r.Intn(len(ps) + 1)
	out := append([]any{}, ps[:at]...)
	out = append(out, map[string]any{"proposer": zeroProposer})
	out = append(out, ps[at:]...)
	c["proposers"] = out
	return c
}

func cloneCfg(cfg map[string]any) map[string]any {
	b, _ := json.Marshal(cfg)
	var c map[string]any
	_ = json.Unmarshal(b, &c)
	return c
}

func changeCfg(r *Rand, cfg map[string]any) map[string]any {
	c := cloneCfg(cfg)
	switch r.Intn(3) {
	case 0:
		c["fee_recipient"] = hexFee(uint64(r.Range(1, 6)))
	case 1:
		if c["gas_limit"] == nil {
			c["gas_limit"] = "36000000"
		} else {
			delete(c, "gas_limit")
		}
	default:
		ps, _ := c["proposers"].([]any)
		if len(ps) > 0 {
			if e, ok := ps[r.Intn(len(ps))].(map[string]any); ok {
				e["fee_recipient"] = hexFee(uint64(r.Range(1, 6)))
			}
		} else {
			c["fee_recipient"] = hexFee(uint64(r.Range(1, 6)))
		}
	}
	return c
}

func cfgText(cfg map[string]any) string {
	b, _ := json.Marshal(cfg)
	return string(b)
}

// genReal: a history whose rounds run on real v2 configurations A, B (a change of A), A again,
// with the unusable proposer entry appearing in some rounds.
func genReal(r *Rand) Input {
	in := Input{NNodes: r.Range(0, 2), NPrepNodes: r.Range(1, 2), Fallback: uint64(r.Range(7, 9))}
	nvals := r.Range(1, 5)
	nrelays := r.Range(1, 3)
	idx := r.Perm(12)
	for i := 0; i < nvals; i++ {
		in.Validators = append(in.Validators, ValidatorIn{Index: uint64(idx[i] + 1), Acct: uint64(100 + i), Pub: uint64(200 + 10*i)})
	}
	a := genRealCfg(r, in.Validators, nrelays)
	b := changeCfg(r, a)
	pats := [][]byte{{'A', 'A'}, {'A', 'B', 'A'}, {'A', 'B', 'B', 'A'}, {'A', 'A', 'B'}}
	pat := pats[r.Intn(len(pats))]
	for _, p := range pat {
		cfg := a
		if p == 'B' {
			cfg = b
		}
		if r.Chance(1, 3) {
			cfg = breakCfg(r, cfg)
		}
		text := cfgText(cfg)
		op := Op{Kind: "round", Dt: uint64(r.Range(1, 30)), Cfg: true, API: r.Chance(1, 4), RealCfg: text}
		for i := 0; i < nvals; i++ {
			vi := ValIn{V: i}
			if r.Chance(1, 8) {
				vi.Sign = []bool{false}
			}
			op.Vals = append(op.Vals, vi)
		}
		if r.Chance(1, 3) {
			op.Relays = genKinds(r, nrelays, true)
		}
		for k := 0; k < in.NNodes; k++ {
			op.Nodes = append(op.Nodes, "ok")
		}
		in.Ops = append(in.Ops, op)
		if r.Chance(1, 3) {
			f := Op{Kind: "forward", Dt: 1, Cfg: true, RealCfg: text}
			for k := r.Range(1, 3); k > 0; k-- {
				pub := uint64(900 + r.Intn(2))
				if r.Bool() {
					pub = in.Validators[r.Intn(nvals)].Pub
				}
				f.Incoming = append(f.Incoming, RegIn{Pub: pub, Fee: uint64(r.Range(1, 6)), Gas: 30000000, Stamp: uint64(r.Range(0, 50)), SigAcct: 500, SigStamp: uint64(r.Range(0, 50))})
			}
			in.Ops = append(in.Ops, f)
		}
		if r.Chance(1, 2) {
			pp := Op{Kind: "prepare", Dt: 1, Cfg: true, RealCfg: text}
			for i := 0; i < nvals; i++ {
				pp.Vals = append(pp.Vals, ValIn{V: i})
			}
			for k := 0; k < in.NPrepNodes; k++ {
				pp.Nodes = append(pp.Nodes, "ok")
			}
			in.Ops = append(in.Ops, pp)
		}
	}
	addTiming(r.Fork(), &in, nrelays)
	addActivation(r.Fork(), &in)
	addAddressing(r.Fork(), &in)
	return in
}

// ---------------------------------------------------------------------------------------------
// Relays on one host.  A relay is its ADDRESS (what the configuration says), not its host: relays
// reached through one proxy differ in path, user info (the relay's public key), scheme or port only.
// A third of the histories write their relays' addresses that way (drawn from a fork at the very
// end, so the rest of the stream is as before); nothing else of the history changes.

var addressings = []string{"path", "path", "root+path", "root+path", "userinfo", "scheme", "port"}

func addAddressing(r *Rand, in *Input) {
	if !r.Chance(1, 3) {
		return
	}
	in.Addressing = addressings[r.Intn(len(addressings))]
	in.Tags = append(in.Tags, "relays-on-one-host")
}
