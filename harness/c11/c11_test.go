// C11: drives the real services/blockrelay/standard registration round (the scheduled job and the
// public SubmitValidatorRegistrations), its REST handler ValidatorRegistrations and the real
// services/proposalpreparer/standard, through histories of rounds with configuration changes and
// failing subsets of relays, beacon nodes, signing requests and validators, with recording relays
// (injected into util.FetchBuilderClient's cache), beacon nodes, signer and execution
// configurator, under fake time (testing/synctest), and prints each history with everything that
// was signed and sent as a Gallina case for Check.C11.
package c11

import (
	"context"
	"encoding/binary"
	"encoding/json"
	"errors"
	"fmt"
	"io"
	"os"
	"sort"
	"strings"
	"sync"
	"testing"
	"testing/synctest"
	"time"

	relaytypes "github.com/attestantio/go-block-relay/types"
	builderclient "github.com/attestantio/go-builder-client"
	builderapi "github.com/attestantio/go-builder-client/api"
	eth2client "github.com/attestantio/go-eth2-client"
	consensusapi "github.com/attestantio/go-eth2-client/api"
	consensusapiv1 "github.com/attestantio/go-eth2-client/api/v1"
	"github.com/attestantio/go-eth2-client/spec/bellatrix"
	"github.com/attestantio/go-eth2-client/spec/phase0"
	"github.com/attestantio/vouch/services/beaconblockproposer"
	standardblockrelay "github.com/attestantio/vouch/services/blockrelay/standard"
	v2 "github.com/attestantio/vouch/services/blockrelay/v2"
	nullmetrics "github.com/attestantio/vouch/services/metrics/null"
	standardpreparer "github.com/attestantio/vouch/services/proposalpreparer/standard"
	"github.com/attestantio/vouch/util"
	"github.com/google/uuid"
	"github.com/rs/zerolog"
	zerologger "github.com/rs/zerolog/log"
	deadlock "github.com/sasha-s/go-deadlock"
	e2types "github.com/wealdtech/go-eth2-types/v2"
	e2wtypes "github.com/wealdtech/go-eth2-wallet-types/v2"

	. "verifharness/common"
	"verifharness/mocks"
)

// ---------------------------------------------------------------------------------------------
// Input (also the corpus / replay format).

type RelayCfg struct {
	Addr uint64 `json:"addr"`
	Fee  uint64 `json:"fee"`
	Gas  uint64 `json:"gas"`
}

type Resolved struct {
	Fee    uint64     `json:"fee"`
	Relays []RelayCfg `json:"relays"`
}

// ValIn is one validating account of one operation.
type ValIn struct {
	V    int       `json:"v"`             // position in Input.Validators
	Res  *Resolved `json:"res,omitempty"` // what ProposerConfig answers (nil = error)
	Sign []bool    `json:"sign,omitempty"`
	// what the accounts provider knows about the account in this operation: it validates from
	// epoch From on (activation epoch) and until epoch Until, exclusive (exit epoch; 0 = no exit
	// scheduled).  Missing = validating since genesis: the provider answers it whatever the epoch.
	From  uint64 `json:"from,omitempty"`
	Until uint64 `json:"until,omitempty"`
}

func (vi ValIn) validatingAt(epoch uint64) bool {
	return vi.From <= epoch && (vi.Until == 0 || epoch < vi.Until)
}

type RegIn struct {
	Pub      uint64 `json:"pub"`
	Fee      uint64 `json:"fee"`
	Gas      uint64 `json:"gas"`
	Stamp    uint64 `json:"stamp"`
	SigAcct  uint64 `json:"sig_acct"`
	SigStamp uint64 `json:"sig_stamp"`
}

type ResolveIn struct {
	Pub    uint64    `json:"pub"`
	Relays *[]uint64 `json:"relays,omitempty"` // nil = ProposerConfig error
}

type KindIn struct {
	Addr uint64 `json:"addr"`
	Kind string `json:"kind"` // ok | err | nosubmitter | noclient
}

// LatIn: how long a request to relay Addr takes (milliseconds of fake time).
type LatIn struct {
	Addr uint64 `json:"addr"`
	Ms   uint64 `json:"ms"`
}

type Op struct {
	Kind     string      `json:"kind"` // round | forward | prepare
	Dt       uint64      `json:"dt"`   // whole seconds of (fake) time before the operation, >= 1
	Epoch    uint64      `json:"epoch,omitempty"` // what the chain time service says the current epoch is
	Cfg      bool        `json:"cfg"`  // an execution configuration is available
	API      bool        `json:"api,omitempty"`
	AcctErr  bool        `json:"acct_err,omitempty"`
	Vals     []ValIn     `json:"vals,omitempty"`
	Relays   []KindIn    `json:"relays,omitempty"`
	Nodes    []string    `json:"nodes,omitempty"` // round: ok|err per secondary node; prepare: ok|err|notactive per node
	Incoming []RegIn     `json:"incoming,omitempty"`
	Resolve  []ResolveIn `json:"resolve,omitempty"`
	// RealCfg, when not empty, is the JSON text of a real v2 execution configuration ("@k@" stands
	// for the address of relay k): the service is given that configuration, and the settings of
	// each validator are what it answered when the service asked (recorded, see OpObs.Resolved)
	// instead of Vals[].Res / Resolve.
	RealCfg string `json:"real_cfg,omitempty"`
	// Peers that behave like real clients: a request to a relay / to node k takes that many
	// milliseconds and is abandoned (nothing is delivered, the context's error is returned) when the
	// context it was given is cancelled first.  Missing = 0 = answers at once (the context is still
	// looked at on entry).
	SignLat  uint64   `json:"sign_lat,omitempty"` // round: every signing request (a remote signer)
	RelayLat []LatIn  `json:"relay_lat,omitempty"`
	NodeLat  []uint64 `json:"node_lat,omitempty"` // round: secondary nodes; prepare: preparer nodes
}

type ValidatorIn struct {
	Index uint64 `json:"index"`
	Acct  uint64 `json:"acct"`
	Pub   uint64 `json:"pub"`
}

type Input struct {
	Validators []ValidatorIn `json:"validators"`
	NNodes     int           `json:"nnodes"`      // secondary beacon nodes of the block relay
	NPrepNodes int           `json:"nprep_nodes"` // beacon nodes of the proposal preparer
	Fallback   uint64        `json:"fallback"`
	// Addressing says how the relays' addresses are written (see relayAddress): "" = one host per
	// relay (as before); "path" / "root+path" / "userinfo" / "scheme" / "port" = the relays are
	// distinct addresses on ONE host (relays behind one proxy, told apart by path, user info,
	// scheme or port).  The model knows relays by number: distinct numbers are distinct addresses.
	Addressing string `json:"addressing,omitempty"`
	Ops        []Op          `json:"ops"`
	Trace      bool          `json:"trace,omitempty"`
	Tags       []string      `json:"tags,omitempty"`
}

// ---------------------------------------------------------------------------------------------
// Observations.

type SigObs struct {
	Acct  uint64 `json:"acct"`
	Fee   uint64 `json:"fee"`
	Gas   uint64 `json:"gas"`
	Pub   uint64 `json:"pub"`
	Stamp uint64 `json:"stamp"`
}

type RegObs struct {
	Fee   uint64 `json:"fee"`
	Gas   uint64 `json:"gas"`
	Pub   uint64 `json:"pub"`
	Stamp uint64 `json:"stamp"`
	Sig   SigObs `json:"sig"`
}

type ReqObs struct {
	SigObs
	OK bool `json:"ok"`
}

type RelayObs struct {
	Addr uint64   `json:"addr"`
	Regs []RegObs `json:"regs"`
}

type PrepObs struct {
	Index uint64 `json:"index"`
	Fee   uint64 `json:"fee"`
}

type OpObs struct {
	Kind      string       `json:"kind"`
	Now       uint64       `json:"now"`
	Err       bool         `json:"err,omitempty"`
	Order     []int        `json:"order,omitempty"` // validators (positions in op.Vals) in the order visited
	Reqs      []ReqObs     `json:"reqs,omitempty"`
	Relays    []RelayObs   `json:"relays,omitempty"`
	Nodes     []*[]RegObs  `json:"nodes,omitempty"`
	PrepNodes []*[]PrepObs `json:"prep_nodes,omitempty"`
	// requests abandoned because their context was cancelled while they were in flight (or before
	// they started): "relay:<addr>", "node:<k>", "prepnode:<k>"; nothing was delivered to those peers
	Aborted []string `json:"aborted,omitempty"`
	// the epochs the accounts provider was asked for in this operation (for the reader of a replay
	// file; not compared)
	AskedEpochs []uint64 `json:"asked_epochs,omitempty"`
	// real configuration: what it answered for each of op.Vals (nil = error) and for the keys of
	// the forwarded registrations
	Resolved  []*Resolved `json:"resolved,omitempty"`
	FResolved []ResolveIn `json:"fresolved,omitempty"`
}

type Obs struct {
	Ops     []OpObs `json:"ops"`
	Panic   string  `json:"panic,omitempty"`
	Problem string  `json:"problem,omitempty"`
}

// ---------------------------------------------------------------------------------------------
// Encodings.

const garbled = uint64(1) << 62

func feeAddr(id uint64) bellatrix.ExecutionAddress {
	var a bellatrix.ExecutionAddress
	binary.BigEndian.PutUint64(a[12:], id)
	return a
}

func feeID(a bellatrix.ExecutionAddress) uint64 {
	for _, b := range a[:12] {
		if b != 0 {
			return garbled
		}
	}
	return binary.BigEndian.Uint64(a[12:])
}

func pubKeyOf(id uint64) phase0.BLSPubKey {
	var k phase0.BLSPubKey
	k[0] = 0xa0
	binary.BigEndian.PutUint64(k[40:], id)
	return k
}

func pubID(k phase0.BLSPubKey) uint64 {
	if k[0] != 0xa0 {
		return garbled
	}
	for _, b := range k[1:40] {
		if b != 0 {
			return garbled
		}
	}
	return binary.BigEndian.Uint64(k[40:])
}

func sigBytes(s SigObs) phase0.BLSSignature {
	var sig phase0.BLSSignature
	sig[0] = 0xb1
	binary.BigEndian.PutUint64(sig[8:], s.Acct)
	binary.BigEndian.PutUint64(sig[16:], s.Fee)
	binary.BigEndian.PutUint64(sig[24:], s.Gas)
	binary.BigEndian.PutUint64(sig[32:], s.Pub)
	binary.BigEndian.PutUint64(sig[40:], s.Stamp)
	return sig
}

func sigObs(sig phase0.BLSSignature) SigObs {
	if sig[0] != 0xb1 {
		return SigObs{Acct: garbled}
	}
	return SigObs{
		Acct:  binary.BigEndian.Uint64(sig[8:]),
		Fee:   binary.BigEndian.Uint64(sig[16:]),
		Gas:   binary.BigEndian.Uint64(sig[24:]),
		Pub:   binary.BigEndian.Uint64(sig[32:]),
		Stamp: binary.BigEndian.Uint64(sig[40:]),
	}
}

// sharedHost is the one host of the relays when Input.Addressing is not empty.
const sharedHost = "relays.example"

// trapRelay is the number under which requests are recorded that reach a client nobody configured:
// clients injected under the keys an address could be "normalised" to (the bare host and the
// like).  util.FetchBuilderClient is asked for the relay's full address, so nothing reaches them on
// a tree that holds one client per relay address.
const trapRelay = 99

func relayAddress(id uint64, kind string, style string) string {
	if kind == "noclient" {
		// an address util.FetchBuilderClient cannot parse
		return fmt.Sprintf("http://relay-%d.example:bad", id)
	}
	switch style {
	case "path":
		return fmt.Sprintf("http://%s:18550/relay-%d", sharedHost, id)
	case "root+path":
		if id == 1 {
			return fmt.Sprintf("http://%s:18550", sharedHost)
		}
		return fmt.Sprintf("http://%s:18550/relay-%d", sharedHost, id)
	case "userinfo":
		if id == 1 {
			return fmt.Sprintf("http://%s:18550", sharedHost)
		}
		return fmt.Sprintf("http://0x%096x@%s:18550", id, sharedHost)
	case "scheme":
		// http / https on one host and port, further relays by path
		switch id {
		case 1:
			return fmt.Sprintf("http://%s:18550", sharedHost)
		case 2:
			return fmt.Sprintf("https://%s:18550", sharedHost)
		}
		return fmt.Sprintf("https://%s:18550/relay-%d", sharedHost, id)
	case "port":
		if id == 1 {
			return fmt.Sprintf("http://%s", sharedHost)
		}
		return fmt.Sprintf("http://%s:%d", sharedHost, 18550+id)
	}
	return fmt.Sprintf("http://relay-%d.example:18550", id)
}

// trapKeys are the cache keys a relay address of the style could be reduced to.
func trapKeys(style string) []string {
	if style == "" {
		return nil
	}
	return []string{
		"http://" + sharedHost + ":18550", "https://" + sharedHost + ":18550",
		"http://" + sharedHost + ":18550/", "https://" + sharedHost + ":18550/",
		"http://" + sharedHost, "https://" + sharedHost, "http://" + sharedHost + "/", "https://" + sharedHost + "/",
		sharedHost + ":18550", sharedHost, "//" + sharedHost + ":18550", "//" + sharedHost,
	}
}

func relayID(address string, style string) uint64 {
	for id := uint64(1); id <= 16; id++ {
		if address == relayAddress(id, "ok", style) || address == relayAddress(id, "noclient", style) {
			return id
		}
	}
	return garbled
}

// zeroProposer is a proposer entry that parses (48 zero bytes) and that ProposerConfig refuses
// ("proposer config without either account or validator") for every validator that reaches it.
var zeroProposer = "0x" + strings.Repeat("00", 48)

func hexFee(id uint64) string {
	a := feeAddr(id)
	return fmt.Sprintf("%#x", a[:])
}

func hexPub(id uint64) string {
	k := pubKeyOf(id)
	return fmt.Sprintf("%#x", k[:])
}

// ---------------------------------------------------------------------------------------------
// Mocks.

type pubKey struct{ id uint64 }

func (k pubKey) Marshal() []byte {
	pk := pubKeyOf(k.id)
	return pk[:]
}
func (k pubKey) Aggregate(e2types.PublicKey) {}
func (k pubKey) Copy() e2types.PublicKey      { return k }

type account struct{ v ValidatorIn }

func (a account) ID() uuid.UUID {
	var id uuid.UUID
	binary.BigEndian.PutUint64(id[8:], a.v.Acct)
	return id
}
func (a account) Name() string                { return fmt.Sprintf("account-%d", a.v.Acct) }
func (a account) PublicKey() e2types.PublicKey { return pubKey{a.v.Pub} }

// env is everything the services talk to; it records what they say.
type env struct {
	mu   sync.Mutex
	base time.Time
	in   *Input
	op   *Op // current operation
	// current operation's recordings
	order     []uint64 // public keys in the order ProposerConfig was asked for them (account != nil)
	reqs      []ReqObs
	signCalls map[uint64]int
	relays    map[uint64][]RegObs
	nodes     []*[]RegObs
	prepNodes []*[]PrepObs
	aborted   []string
	asked     []uint64 // the epochs the accounts provider was asked for
	problem   string
	// real configuration of the current operation and what it answered
	real      *v2.ExecutionConfig
	resolved  map[uint64]*Resolved
	fresolved []ResolveIn
}

func (e *env) stamp(t time.Time) uint64 {
	d := t.Unix() - e.base.Unix()
	if d < 0 {
		return garbled
	}
	return uint64(d)
}

func (e *env) note(format string, args ...any) {
	if e.problem == "" {
		e.problem = fmt.Sprintf(format, args...)
	}
}

// transit is the way of a request to a peer that behaves like a real HTTP client: it is not sent
// on a context that is already cancelled, it takes ms milliseconds, and it is abandoned when the
// context is cancelled in the meantime.  nil = the request arrived.
func (e *env) transit(ctx context.Context, what string, ms uint64) error {
	err := ctx.Err()
	if err == nil && ms > 0 {
		t := time.NewTimer(time.Duration(ms) * time.Millisecond)
		select {
		case <-ctx.Done():
			t.Stop()
			err = ctx.Err()
		case <-t.C:
		}
	}
	if err != nil {
		e.mu.Lock()
		e.aborted = append(e.aborted, what)
		e.mu.Unlock()
	}
	return err
}

func (e *env) relayLat(addr uint64) uint64 {
	e.mu.Lock()
	defer e.mu.Unlock()
	for _, l := range e.op.RelayLat {
		if l.Addr == addr {
			return l.Ms
		}
	}
	return 0
}

func (e *env) nodeLat(k int) uint64 {
	e.mu.Lock()
	defer e.mu.Unlock()
	if k < len(e.op.NodeLat) {
		return e.op.NodeLat[k]
	}
	return 0
}

// -- accounts

type accountsProvider struct{ e *env }

// ValidatingAccountsForEpoch answers like services/accountmanager: the accounts whose validator is
// active at the epoch ASKED FOR (not at the current one).
func (p accountsProvider) ValidatingAccountsForEpoch(_ context.Context, epoch phase0.Epoch) (map[phase0.ValidatorIndex]e2wtypes.Account, error) {
	p.e.mu.Lock()
	defer p.e.mu.Unlock()
	if p.e.op.AcctErr {
		return nil, errors.New("scripted accounts failure")
	}
	p.e.asked = append(p.e.asked, uint64(epoch))
	res := make(map[phase0.ValidatorIndex]e2wtypes.Account, len(p.e.op.Vals))
	for _, vi := range p.e.op.Vals {
		if !vi.validatingAt(uint64(epoch)) {
			continue
		}
		v := p.e.in.Validators[vi.V]
		res[phase0.ValidatorIndex(v.Index)] = account{v}
	}
	return res, nil
}

func (p accountsProvider) ValidatingAccountsForEpochByIndex(ctx context.Context, epoch phase0.Epoch, indices []phase0.ValidatorIndex) (map[phase0.ValidatorIndex]e2wtypes.Account, error) {
	all, err := p.ValidatingAccountsForEpoch(ctx, epoch)
	if err != nil {
		return nil, err
	}
	res := make(map[phase0.ValidatorIndex]e2wtypes.Account, len(indices))
	for _, i := range indices {
		if a, ok := all[i]; ok {
			res[i] = a
		}
	}
	return res, nil
}

func (p accountsProvider) SyncCommitteeAccountsForEpoch(ctx context.Context, epoch phase0.Epoch) (map[phase0.ValidatorIndex]e2wtypes.Account, error) {
	return p.ValidatingAccountsForEpoch(ctx, epoch)
}

func (p accountsProvider) SyncCommitteeAccountsForEpochByIndex(ctx context.Context, epoch phase0.Epoch, indices []phase0.ValidatorIndex) (map[phase0.ValidatorIndex]e2wtypes.Account, error) {
	return p.ValidatingAccountsForEpochByIndex(ctx, epoch, indices)
}

// accounts: what the caller of the API hands over (every account of the operation, whatever the
// provider knows about its activation).
func (e *env) accounts() map[phase0.ValidatorIndex]e2wtypes.Account {
	res := make(map[phase0.ValidatorIndex]e2wtypes.Account, len(e.op.Vals))
	for _, vi := range e.op.Vals {
		v := e.in.Validators[vi.V]
		res[phase0.ValidatorIndex(v.Index)] = account{v}
	}
	return res
}

// -- execution configurator

type configurator struct{ e *env }

func (c configurator) ProposerConfig(ctx context.Context, acc e2wtypes.Account, pubkey phase0.BLSPubKey, fbFee bellatrix.ExecutionAddress, fbGas uint64) (*beaconblockproposer.ProposerConfig, error) {
	e := c.e
	e.mu.Lock()
	defer e.mu.Unlock()
	pub := pubID(pubkey)
	if e.real != nil {
		res, err := e.real.ProposerConfig(ctx, acc, pubkey, fbFee, fbGas)
		var rec *Resolved
		if err == nil && res != nil {
			rec = &Resolved{Fee: feeID(res.FeeRecipient)}
			for _, rc := range res.Relays {
				rec.Relays = append(rec.Relays, RelayCfg{Addr: relayID(rc.Address, e.in.Addressing), Fee: feeID(rc.FeeRecipient), Gas: rc.GasLimit})
			}
		}
		if acc == nil {
			ri := ResolveIn{Pub: pub}
			if rec != nil {
				as := []uint64{}
				for _, rc := range rec.Relays {
					as = append(as, rc.Addr)
				}
				ri.Relays = &as
			}
			e.fresolved = append(e.fresolved, ri)
		} else {
			e.order = append(e.order, pub)
			e.resolved[pub] = rec
		}
		return res, err
	}
	if acc == nil {
		// forwarding path
		for _, r := range e.op.Resolve {
			if r.Pub == pub {
				if r.Relays == nil {
					return nil, errors.New("scripted resolution failure")
				}
				res := &beaconblockproposer.ProposerConfig{FeeRecipient: feeAddr(e.in.Fallback)}
				for _, a := range *r.Relays {
					res.Relays = append(res.Relays, &beaconblockproposer.RelayConfig{Address: relayAddress(a, e.kindOf(a), e.in.Addressing), FeeRecipient: feeAddr(e.in.Fallback), GasLimit: 30000000})
				}
				return res, nil
			}
		}
		return nil, errors.New("scripted resolution failure (unknown key)")
	}
	e.order = append(e.order, pub)
	for _, vi := range e.op.Vals {
		if e.in.Validators[vi.V].Pub != pub {
			continue
		}
		if vi.Res == nil {
			return nil, errors.New("scripted resolution failure")
		}
		res := &beaconblockproposer.ProposerConfig{FeeRecipient: feeAddr(vi.Res.Fee)}
		for _, rc := range vi.Res.Relays {
			res.Relays = append(res.Relays, &beaconblockproposer.RelayConfig{
				Address: relayAddress(rc.Addr, e.kindOf(rc.Addr), e.in.Addressing), FeeRecipient: feeAddr(rc.Fee), GasLimit: rc.Gas,
			})
		}
		return res, nil
	}
	e.note("ProposerConfig asked for a validator that is not in the operation: %d", pub)
	return nil, errors.New("unknown validator")
}

func (e *env) kindOf(addr uint64) string {
	for _, k := range e.op.Relays {
		if k.Addr == addr {
			return k.Kind
		}
	}
	return "ok"
}

// -- signer

type regSigner struct{ e *env }

func (s regSigner) SignValidatorRegistration(ctx context.Context, acc e2wtypes.Account, reg *builderapi.VersionedValidatorRegistration) (phase0.BLSSignature, error) {
	e := s.e
	e.mu.Lock()
	a, ok := acc.(account)
	if !ok || reg == nil || reg.V1 == nil {
		e.note("signer called with a foreign account or an empty registration")
		e.mu.Unlock()
		return phase0.BLSSignature{}, errors.New("bad request")
	}
	so := SigObs{Acct: a.v.Acct, Fee: feeID(reg.V1.FeeRecipient), Gas: reg.V1.GasLimit, Pub: pubID(reg.V1.Pubkey), Stamp: e.stamp(reg.V1.Timestamp)}
	k := e.signCalls[a.v.Acct]
	e.signCalls[a.v.Acct] = k + 1
	good := true
	for _, vi := range e.op.Vals {
		if e.in.Validators[vi.V].Acct == a.v.Acct && k < len(vi.Sign) {
			good = vi.Sign[k]
		}
	}
	ms := e.op.SignLat
	e.mu.Unlock()
	// a remote signer: the request takes time and is abandoned when its context is cancelled; an
	// abandoned request is a failed one that nobody scripted
	if err := e.transit(ctx, fmt.Sprintf("sign:%d", a.v.Acct), ms); err != nil {
		e.mu.Lock()
		e.reqs = append(e.reqs, ReqObs{SigObs: so, OK: false})
		e.mu.Unlock()
		return phase0.BLSSignature{}, err
	}
	e.mu.Lock()
	e.reqs = append(e.reqs, ReqObs{SigObs: so, OK: good})
	e.mu.Unlock()
	if !good {
		return phase0.BLSSignature{}, errors.New("scripted signing failure")
	}
	return sigBytes(so), nil
}

// -- relays

type relayBase struct {
	e    *env
	id   uint64
	addr string
}

func (r *relayBase) Name() string              { return "c11 relay" }
func (r *relayBase) Address() string           { return r.addr }
func (r *relayBase) Pubkey() *phase0.BLSPubKey { return nil }

type relaySubmitter struct {
	relayBase
	fail bool
}

func (r *relaySubmitter) SubmitValidatorRegistrations(ctx context.Context, opts *builderapi.SubmitValidatorRegistrationsOpts) error {
	e := r.e
	if err := e.transit(ctx, fmt.Sprintf("relay:%d", r.id), e.relayLat(r.id)); err != nil {
		return err
	}
	e.mu.Lock()
	defer e.mu.Unlock()
	// a second request to the same relay in one operation (the tree never makes one: it groups the
	// registrations by relay address) arrives as well: the relay has then received both lists
	regs := e.relays[r.id]
	if regs == nil {
		regs = []RegObs{}
	}
	for _, vr := range opts.Registrations {
		if vr == nil || vr.V1 == nil || vr.V1.Message == nil {
			regs = append(regs, RegObs{Pub: garbled})
			continue
		}
		m := vr.V1.Message
		regs = append(regs, RegObs{Fee: feeID(m.FeeRecipient), Gas: m.GasLimit, Pub: pubID(m.Pubkey), Stamp: e.stamp(m.Timestamp), Sig: sigObs(vr.V1.Signature)})
	}
	e.relays[r.id] = regs
	if r.fail {
		return errors.New("scripted relay failure")
	}
	return nil
}

var (
	_ builderclient.ValidatorRegistrationsSubmitter = (*relaySubmitter)(nil)
	_ builderclient.Service                         = (*relayBase)(nil)
)

// -- beacon nodes

type node struct {
	e   *env
	idx int
}

func (n *node) Name() string    { return "c11 node" }
func (n *node) Address() string { return fmt.Sprintf("node-%d", n.idx) }
func (n *node) IsActive() bool  { return true }
func (n *node) IsSynced() bool  { return true }

type regNode struct{ node }

func (n *regNode) SubmitValidatorRegistrations(ctx context.Context, regs []*consensusapi.VersionedSignedValidatorRegistration) error {
	e := n.e
	if err := e.transit(ctx, fmt.Sprintf("node:%d", n.idx), e.nodeLat(n.idx)); err != nil {
		return err
	}
	e.mu.Lock()
	defer e.mu.Unlock()
	if n.idx >= len(e.nodes) {
		e.note("unexpected node %d", n.idx)
		return nil
	}
	if e.nodes[n.idx] != nil {
		e.note("node %d called twice in one operation", n.idx)
	}
	l := []RegObs{}
	for _, vr := range regs {
		if vr == nil || vr.V1 == nil || vr.V1.Message == nil {
			l = append(l, RegObs{Pub: garbled})
			continue
		}
		m := vr.V1.Message
		l = append(l, RegObs{Fee: feeID(m.FeeRecipient), Gas: m.GasLimit, Pub: pubID(m.Pubkey), Stamp: e.stamp(m.Timestamp), Sig: sigObs(vr.V1.Signature)})
	}
	e.nodes[n.idx] = &l
	if n.idx < len(e.op.Nodes) && e.op.Nodes[n.idx] == "err" {
		return errors.New("scripted node failure")
	}
	return nil
}

type prepNode struct{ node }

func (n *prepNode) SubmitProposalPreparations(ctx context.Context, preps []*consensusapiv1.ProposalPreparation) error {
	e := n.e
	if err := e.transit(ctx, fmt.Sprintf("prepnode:%d", n.idx), e.nodeLat(n.idx)); err != nil {
		return err
	}
	e.mu.Lock()
	defer e.mu.Unlock()
	if n.idx >= len(e.prepNodes) {
		e.note("unexpected preparation node %d", n.idx)
		return nil
	}
	if e.prepNodes[n.idx] != nil {
		e.note("preparation node %d called twice in one operation", n.idx)
	}
	l := []PrepObs{}
	for _, p := range preps {
		if p == nil {
			l = append(l, PrepObs{Index: garbled})
			continue
		}
		l = append(l, PrepObs{Index: uint64(p.ValidatorIndex), Fee: feeID(p.FeeRecipient)})
	}
	e.prepNodes[n.idx] = &l
	if n.idx < len(e.op.Nodes) {
		switch e.op.Nodes[n.idx] {
		case "err":
			return errors.New("scripted node failure")
		case "notactive":
			return eth2client.ErrNotActive
		}
	}
	return nil
}

// ---------------------------------------------------------------------------------------------
// Running one history.

func runInput(t *testing.T, in Input) (obs Obs) {
	defer func() {
		if r := recover(); r != nil {
			obs.Panic = fmt.Sprint(r)
		}
	}()
	synctest.Test(t, func(t *testing.T) {
		defer func() {
			if r := recover(); r != nil {
				obs.Panic = fmt.Sprint(r)
			}
		}()
		obs = runInBubble(t, in)
	})
	return obs
}

func runInBubble(t *testing.T, in Input) Obs {
	ctx := context.Background()
	level := zerolog.Disabled
	if in.Trace {
		level = zerolog.TraceLevel
	}
	e := &env{base: time.Now(), in: &in, op: &Op{}}
	ct := mocks.NewChainTime(32)
	var secondaries []eth2client.ValidatorRegistrationsSubmitter
	for i := 0; i < in.NNodes; i++ {
		secondaries = append(secondaries, &regNode{node{e, i}})
	}
	var preparers []eth2client.ProposalPreparationsSubmitter
	for i := 0; i < in.NPrepNodes; i++ {
		preparers = append(preparers, &prepNode{node{e, i}})
	}
	cfg := configurator{e}
	svc := standardblockrelay.NewForVerifC11(level, nullmetrics.New(), ct, feeAddr(in.Fallback), 30000000,
		accountsProvider{e}, regSigner{e}, secondaries, cfg)
	prep, err := standardpreparer.New(ctx,
		standardpreparer.WithLogLevel(level),
		standardpreparer.WithMonitor(nullmetrics.New()),
		standardpreparer.WithChainTimeService(ct),
		standardpreparer.WithValidatingAccountsProvider(accountsProvider{e}),
		standardpreparer.WithProposalPreparationsSubmitters(preparers),
		standardpreparer.WithExecutionConfigProvider(svc),
	)
	if err != nil {
		return Obs{Problem: "proposal preparer constructor: " + err.Error()}
	}
	cfgPresent := true

	var obs Obs
	prevStart, settled := e.base, e.base
	for i := range in.Ops {
		op := &in.Ops[i]
		dt := op.Dt
		if dt == 0 {
			dt = 1
		}
		// operations start on whole seconds, dt seconds after the previous one started (later if the
		// previous one's requests took longer than that)
		start := prevStart.Add(time.Duration(dt) * time.Second)
		for start.Before(settled) {
			start = start.Add(time.Second)
		}
		time.Sleep(time.Until(start))
		synctest.Wait()
		prevStart = start
		// every request of this operation has been answered or abandoned by then, even if they
		// are all made one after the other
		var total uint64
		for _, vi := range op.Vals {
			// at most one signing request per relay entry (real configurations: at most 4 relays)
			n := uint64(4)
			if vi.Res != nil {
				n = uint64(len(vi.Res.Relays))
			}
			total += n * op.SignLat
		}
		for _, l := range op.RelayLat {
			total += l.Ms
		}
		for _, ms := range op.NodeLat {
			total += ms
		}
		settled = start.Add(time.Duration(total)*time.Millisecond + 500*time.Millisecond)

		e.mu.Lock()
		e.op = op
		e.order, e.reqs, e.signCalls = nil, nil, map[uint64]int{}
		e.relays = map[uint64][]RegObs{}
		e.nodes = make([]*[]RegObs, in.NNodes)
		e.prepNodes = make([]*[]PrepObs, in.NPrepNodes)
		e.aborted, e.asked = nil, nil
		ct.SetEpoch(op.Epoch)
		now := e.stamp(time.Now())
		e.real, e.resolved, e.fresolved = nil, map[uint64]*Resolved{}, nil
		if op.RealCfg != "" {
			text := op.RealCfg
			for a := uint64(1); a <= 4; a++ {
				text = strings.ReplaceAll(text, fmt.Sprintf("@%d@", a), relayAddress(a, e.kindOf(a), e.in.Addressing))
			}
			var ec v2.ExecutionConfig
			if err := json.Unmarshal([]byte(text), &ec); err != nil {
				e.mu.Unlock()
				return Obs{Problem: "real configuration does not parse: " + err.Error()}
			}
			e.real = &ec
		}
		e.mu.Unlock()

		if op.Cfg != cfgPresent {
			if op.Cfg {
				svc.VerifC11SetExecutionConfig(cfg)
			} else {
				svc.VerifC11SetExecutionConfig(nil)
			}
			cfgPresent = op.Cfg
		}
		// the relay clients of this operation
		util.ResetBuilderClientsC09()
		seen := map[uint64]bool{}
		inject := func(addr uint64) {
			if seen[addr] {
				return
			}
			seen[addr] = true
			kind := e.kindOf(addr)
			base := relayBase{e: e, id: addr, addr: relayAddress(addr, kind, in.Addressing)}
			switch kind {
			case "noclient":
			case "nosubmitter":
				util.InjectBuilderClientC09(base.addr, &base)
			default:
				util.InjectBuilderClientC09(base.addr, &relaySubmitter{relayBase: base, fail: kind == "err"})
			}
		}
		for _, vi := range op.Vals {
			if vi.Res != nil {
				for _, rc := range vi.Res.Relays {
					inject(rc.Addr)
				}
			}
		}
		for _, r := range op.Resolve {
			if r.Relays != nil {
				for _, a := range *r.Relays {
					inject(a)
				}
			}
		}
		if op.RealCfg != "" {
			for a := uint64(1); a <= 4; a++ {
				inject(a)
			}
		}
		// relays on one host: whatever is sent to a client held under a reduced form of a relay's
		// address (and not under the address of a relay of this operation) is recorded at trapRelay
		taken := map[string]bool{}
		for a := range seen {
			taken[relayAddress(a, e.kindOf(a), in.Addressing)] = true
		}
		for _, k := range trapKeys(in.Addressing) {
			if !taken[k] {
				util.InjectBuilderClientC09(k, &relaySubmitter{relayBase: relayBase{e: e, id: trapRelay, addr: k}})
			}
		}

		oo := OpObs{Kind: op.Kind, Now: now}
		switch op.Kind {
		case "round":
			if op.API {
				oo.Err = svc.SubmitValidatorRegistrations(ctx, e.accounts()) != nil
			} else {
				svc.VerifC11RunRegistrationsJob(ctx)
			}
		case "forward":
			regs := make([]*relaytypes.SignedValidatorRegistration, 0, len(op.Incoming))
			for _, r := range op.Incoming {
				regs = append(regs, &relaytypes.SignedValidatorRegistration{
					Message: &relaytypes.ValidatorRegistration{
						FeeRecipient: feeAddr(r.Fee), GasLimit: r.Gas, Timestamp: e.base.Add(time.Duration(r.Stamp) * time.Second), Pubkey: pubKeyOf(r.Pub),
					},
					Signature: sigBytes(SigObs{Acct: r.SigAcct, Fee: r.Fee, Gas: r.Gas, Pub: r.Pub, Stamp: r.SigStamp}),
				})
			}
			_, ferr := svc.ValidatorRegistrations(ctx, regs)
			oo.Err = ferr != nil
		case "prepare":
			oo.Err = prep.UpdatePreparations(ctx) != nil
		default:
			return Obs{Problem: "unknown operation kind " + op.Kind}
		}
		time.Sleep(time.Until(settled))
		synctest.Wait()

		e.mu.Lock()
		// the validators in the order the implementation visited them; those it never asked about last
		pos := map[uint64]int{}
		for k, vi := range op.Vals {
			pos[in.Validators[vi.V].Pub] = k
		}
		used := map[int]bool{}
		order := e.order
		if op.Kind == "prepare" {
			// the preparer's visiting order is the order of the list it sends (without configuration
			// the configurator is never asked)
			order = nil
			byIndex := map[uint64]uint64{}
			for _, vi := range op.Vals {
				byIndex[in.Validators[vi.V].Index] = in.Validators[vi.V].Pub
			}
			for _, n := range e.prepNodes {
				if n != nil {
					for _, p := range *n {
						if pub, ok := byIndex[p.Index]; ok {
							order = append(order, pub)
						}
					}
					break
				}
			}
		}
		for _, pub := range order {
			if k, ok := pos[pub]; ok && !used[k] {
				used[k] = true
				oo.Order = append(oo.Order, k)
			} else if op.Kind != "prepare" {
				e.note("validator %d resolved twice in one operation", pub)
			}
		}
		for k := range op.Vals {
			if !used[k] {
				oo.Order = append(oo.Order, k)
			}
		}
		if e.real != nil {
			for _, vi := range op.Vals {
				v := in.Validators[vi.V]
				rec, asked := e.resolved[v.Pub]
				if !asked {
					// never asked by the service: ask ourselves, so that the case says what the
					// configuration holds for this validator
					if res, err := e.real.ProposerConfig(ctx, account{v}, pubKeyOf(v.Pub), feeAddr(in.Fallback), 30000000); err == nil && res != nil {
						rec = &Resolved{Fee: feeID(res.FeeRecipient)}
						for _, rc := range res.Relays {
							rec.Relays = append(rec.Relays, RelayCfg{Addr: relayID(rc.Address, e.in.Addressing), Fee: feeID(rc.FeeRecipient), Gas: rc.GasLimit})
						}
					}
				}
				oo.Resolved = append(oo.Resolved, rec)
			}
			oo.FResolved = e.fresolved
		}
		oo.Reqs = e.reqs
		addrs := make([]uint64, 0, len(e.relays))
		for a := range e.relays {
			addrs = append(addrs, a)
		}
		sort.Slice(addrs, func(i, j int) bool { return addrs[i] < addrs[j] })
		for _, a := range addrs {
			oo.Relays = append(oo.Relays, RelayObs{Addr: a, Regs: e.relays[a]})
		}
		oo.Nodes = e.nodes
		oo.PrepNodes = e.prepNodes
		oo.AskedEpochs = append([]uint64{}, e.asked...)
		if len(oo.AskedEpochs) == 0 {
			oo.AskedEpochs = nil
		}
		oo.Aborted = append([]string{}, e.aborted...)
		sort.Strings(oo.Aborted)
		if len(oo.Aborted) == 0 {
			oo.Aborted = nil
		}
		e.mu.Unlock()
		obs.Ops = append(obs.Ops, oo)
	}
	util.ResetBuilderClientsC09()
	obs.Problem = e.problem
	return obs
}

// ---------------------------------------------------------------------------------------------
// Gallina.

func gContent(fee, gas, pub uint64) string { return App("Build_content", N(fee), N(gas), N(pub)) }

func gReg(r RegObs) string {
	if r.Sig.Fee == r.Fee && r.Sig.Gas == r.Gas && r.Sig.Pub == r.Pub && r.Sig.Stamp == r.Stamp {
		return App("R", N(r.Fee), N(r.Gas), N(r.Pub), N(r.Stamp), N(r.Sig.Acct))
	}
	return App("Build_sreg", gContent(r.Fee, r.Gas, r.Pub), N(r.Stamp),
		App("Build_sig", N(r.Sig.Acct), gContent(r.Sig.Fee, r.Sig.Gas, r.Sig.Pub), N(r.Sig.Stamp)))
}

func gRegs(l []RegObs) string {
	items := make([]string, 0, len(l))
	for _, r := range l {
		items = append(items, gReg(r))
	}
	return List(items)
}

func gKind(k string) string {
	switch k {
	case "err":
		return "RErr"
	case "nosubmitter":
		return "RNoSubmitter"
	case "noclient":
		return "RNoClient"
	}
	return "ROk"
}

func gKinds(ks []KindIn) string {
	items := make([]string, 0, len(ks))
	for _, k := range ks {
		items = append(items, Pair(N(k.Addr), gKind(k.Kind)))
	}
	return List(items)
}

func gValidator(in Input, vi ValIn) string {
	v := in.Validators[vi.V]
	res := None()
	if vi.Res != nil {
		rcs := make([]string, 0, len(vi.Res.Relays))
		for _, rc := range vi.Res.Relays {
			rcs = append(rcs, App("Build_rcfg", N(rc.Addr), N(rc.Fee), N(rc.Gas)))
		}
		res = Some(App("Build_resolved", N(vi.Res.Fee), List(rcs)))
	}
	signs := make([]string, 0, len(vi.Sign))
	for _, b := range vi.Sign {
		signs = append(signs, Bool(b))
	}
	return App("Build_validator", N(v.Index), N(v.Acct), N(v.Pub), res, List(signs))
}

func gVals(in Input, op Op, order []int) string {
	items := make([]string, 0, len(op.Vals))
	if len(order) != len(op.Vals) {
		order = nil
		for k := range op.Vals {
			order = append(order, k)
		}
	}
	for _, k := range order {
		items = append(items, gValidator(in, op.Vals[k]))
	}
	return List(items)
}

// gWins: the activation windows of the accounts, in the order gVals prints them; empty when no
// account of the operation has one (missing = (0, 0) = validating since genesis).
func gWins(op Op, order []int) string {
	any := false
	for _, vi := range op.Vals {
		if vi.From != 0 || vi.Until != 0 {
			any = true
		}
	}
	if !any {
		return List(nil)
	}
	if len(order) != len(op.Vals) {
		order = nil
		for k := range op.Vals {
			order = append(order, k)
		}
	}
	items := make([]string, 0, len(op.Vals))
	for _, k := range order {
		items = append(items, Pair(N(op.Vals[k].From), N(op.Vals[k].Until)))
	}
	return List(items)
}

func term(id uint64, in Input, obs Obs) string {
	ops := make([]string, 0, len(in.Ops))
	outs := make([]string, 0, len(in.Ops))
	timing := make([]string, 0, len(in.Ops))
	for _, op := range in.Ops {
		rl := make([]string, 0, len(op.RelayLat))
		for _, l := range op.RelayLat {
			rl = append(rl, Pair(N(l.Addr), N(l.Ms)))
		}
		nl := make([]string, 0, len(op.NodeLat))
		for _, ms := range op.NodeLat {
			nl = append(nl, N(ms))
		}
		timing = append(timing, App("T", List(rl), List(nl)))
	}
	for i, op := range in.Ops {
		var oo OpObs
		if i < len(obs.Ops) {
			oo = obs.Ops[i]
		}
		if op.RealCfg != "" {
			// the settings are what the real configuration answered
			vals := make([]ValIn, len(op.Vals))
			copy(vals, op.Vals)
			for k := range vals {
				vals[k].Res = nil
				if k < len(oo.Resolved) {
					vals[k].Res = oo.Resolved[k]
				}
			}
			op.Vals = vals
			op.Resolve = oo.FResolved
		}
		switch op.Kind {
		case "round":
			nodes := make([]string, 0, len(op.Nodes))
			for k := 0; k < in.NNodes; k++ {
				nodes = append(nodes, Bool(!(k < len(op.Nodes) && op.Nodes[k] == "err")))
			}
			ops = append(ops, App("EJob", N(op.Epoch), gWins(op, oo.Order), App("Build_round_in", N(oo.Now), Bool(op.Cfg), Bool(op.API), Bool(op.AcctErr),
				gVals(in, op, oo.Order), gKinds(op.Relays), List(nodes))))
		case "forward":
			inc := make([]string, 0, len(op.Incoming))
			for _, r := range op.Incoming {
				inc = append(inc, gReg(RegObs{Fee: r.Fee, Gas: r.Gas, Pub: r.Pub, Stamp: r.Stamp, Sig: SigObs{Acct: r.SigAcct, Fee: r.Fee, Gas: r.Gas, Pub: r.Pub, Stamp: r.SigStamp}}))
			}
			rs := make([]string, 0, len(op.Resolve))
			for _, r := range op.Resolve {
				if r.Relays == nil {
					rs = append(rs, Pair(N(r.Pub), None()))
					continue
				}
				as := make([]string, 0, len(*r.Relays))
				for _, a := range *r.Relays {
					as = append(as, N(a))
				}
				rs = append(rs, Pair(N(r.Pub), Some(List(as))))
			}
			ops = append(ops, App("EOp", App("OForward", App("Build_forward_in", Bool(op.Cfg), List(inc), List(rs), gKinds(op.Relays)))))
		case "prepare":
			nodes := make([]string, 0, in.NPrepNodes)
			for k := 0; k < in.NPrepNodes; k++ {
				kind := "POk"
				if k < len(op.Nodes) {
					switch op.Nodes[k] {
					case "err":
						kind = "PErr"
					case "notactive":
						kind = "PNotActive"
					}
				}
				nodes = append(nodes, kind)
			}
			ops = append(ops, App("EPrep", N(op.Epoch), gWins(op, oo.Order), App("Build_prepare_in", Bool(op.Cfg), N(in.Fallback), Bool(op.AcctErr), gVals(in, op, oo.Order), List(nodes))))
		}
		if i >= len(obs.Ops) {
			continue // a panic: fewer outputs than operations; neither agree nor P_b can hold
		}
		switch op.Kind {
		case "round":
			reqs := make([]string, 0, len(oo.Reqs))
			for _, q := range oo.Reqs {
				reqs = append(reqs, App("Q", N(q.Acct), N(q.Fee), N(q.Gas), N(q.Pub), N(q.Stamp), Bool(q.OK)))
			}
			outs = append(outs, App("OutRound", Bool(oo.Err), List(reqs), gRelays(oo.Relays), gNodes(oo.Nodes)))
		case "forward":
			outs = append(outs, App("OutForward", gRelays(oo.Relays)))
		case "prepare":
			nodes := make([]string, 0, len(oo.PrepNodes))
			for _, n := range oo.PrepNodes {
				if n == nil {
					nodes = append(nodes, None())
					continue
				}
				ps := make([]string, 0, len(*n))
				for _, p := range *n {
					ps = append(ps, Pair(N(p.Index), N(p.Fee)))
				}
				nodes = append(nodes, Some(List(ps)))
			}
			outs = append(outs, App("OutPrepare", Bool(oo.Err), List(nodes)))
		}
	}
	if obs.Problem != "" {
		outs = nil // the harness itself saw something impossible: make the case fail loudly
	}
	return Record("c_id", N(id), "c_eops", List(ops), "c_timing", List(timing), "c_outs", List(outs))
}

func gRelays(rs []RelayObs) string {
	items := make([]string, 0, len(rs))
	for _, r := range rs {
		items = append(items, Pair(N(r.Addr), gRegs(r.Regs)))
	}
	return List(items)
}

func gNodes(ns []*[]RegObs) string {
	items := make([]string, 0, len(ns))
	for _, n := range ns {
		if n == nil {
			items = append(items, None())
		} else {
			items = append(items, Some(gRegs(*n)))
		}
	}
	return List(items)
}

// ---------------------------------------------------------------------------------------------
// Test.

func addTag(tags []string, t string) []string {
	for _, x := range tags {
		if x == t {
			return tags
		}
	}
	return append(tags, t)
}

// inputTags computes the families of a history from the input alone.
func inputTags(in Input) []string {
	tags := append([]string{}, in.Tags...)
	rounds := 0
	if in.Addressing != "" {
		tags = addTag(tags, "one-host:"+in.Addressing)
	}
	for _, op := range in.Ops {
		if in.Addressing != "" {
			// two distinct relays of one validator's settings on one host, told different things
			for _, vi := range op.Vals {
				if vi.Res == nil {
					continue
				}
				for i, a := range vi.Res.Relays {
					for _, b := range vi.Res.Relays[:i] {
						if a.Addr != b.Addr {
							tags = addTag(tags, "one-host:two-relays-of-a-validator")
							if a.Fee != b.Fee || a.Gas != b.Gas {
								tags = addTag(tags, "one-host:two-relays-different-values")
							}
						}
					}
				}
			}
		}
		if !op.Cfg {
			tags = addTag(tags, "nocfg")
		}
		if op.AcctErr {
			tags = addTag(tags, "accounts-error")
		}
		switch op.Kind {
		case "round":
			rounds++
			if op.API {
				tags = addTag(tags, "api")
			}
			for _, n := range op.Nodes {
				if n == "err" {
					tags = addTag(tags, "node-fails")
				}
			}
		case "forward":
			tags = addTag(tags, "forward")
		case "prepare":
			tags = addTag(tags, "prepare")
			for _, n := range op.Nodes {
				if n != "ok" {
					tags = addTag(tags, "prepnode-"+n)
				}
			}
		}
		for _, k := range op.Relays {
			if k.Kind != "ok" {
				tags = addTag(tags, "relay-"+k.Kind)
			}
		}
		// timing: who is still in flight when a failing peer answers
		lat := func(k int) uint64 {
			if k < len(op.NodeLat) {
				return op.NodeLat[k]
			}
			return 0
		}
		for _, l := range op.RelayLat {
			if l.Ms > 0 {
				tags = addTag(tags, "timed")
			}
			if l.Ms >= 1000 {
				tags = addTag(tags, "slow-peer")
			}
		}
		if op.SignLat > 0 {
			tags = addTag(tags, "timed")
			tags = addTag(tags, "signer-takes-time")
		}
		for k := range op.NodeLat {
			if lat(k) > 0 {
				tags = addTag(tags, "timed")
			}
			if lat(k) >= 1000 {
				tags = addTag(tags, "slow-peer")
			}
		}
		for k, n := range op.Nodes {
			if n != "err" {
				continue
			}
			for j, m := range op.Nodes {
				if m == "ok" && lat(k) < lat(j) {
					if op.Kind == "prepare" {
						tags = addTag(tags, "prepnode-fails-while-another-in-flight")
					} else {
						tags = addTag(tags, "node-fails-while-another-in-flight")
					}
				}
			}
		}
		for _, k := range op.Relays {
			if k.Kind != "err" {
				continue
			}
			var mine uint64
			for _, l := range op.RelayLat {
				if l.Addr == k.Addr {
					mine = l.Ms
				}
			}
			for _, l := range op.RelayLat {
				other := "ok"
				for _, k2 := range op.Relays {
					if k2.Addr == l.Addr {
						other = k2.Kind
					}
				}
				if other == "ok" && mine < l.Ms {
					tags = addTag(tags, "relay-fails-while-another-in-flight")
				}
			}
		}
		if op.Kind == "round" && !op.API || op.Kind == "prepare" {
			who := "job"
			if op.Kind == "prepare" {
				who = "preparer"
			}
			for _, vi := range op.Vals {
				if op.AcctErr {
					break
				}
				switch {
				case vi.From == op.Epoch+1 && vi.validatingAt(op.Epoch+1):
					tags = addTag(tags, who+":activating-next-epoch")
				case vi.From > op.Epoch+1:
					tags = addTag(tags, who+":not-yet-about-to-be-active")
				case vi.Until != 0 && vi.Until == op.Epoch+1 && vi.validatingAt(op.Epoch):
					tags = addTag(tags, who+":on-its-last-epoch")
				case vi.Until != 0 && vi.Until <= op.Epoch:
					tags = addTag(tags, who+":exited")
				}
			}
		}
		if op.RealCfg != "" {
			tags = addTag(tags, "realcfg")
			if strings.Contains(op.RealCfg, zeroProposer) {
				tags = addTag(tags, "realcfg-invalid-proposer-entry")
			}
			continue
		}
		for _, vi := range op.Vals {
			if vi.Res == nil {
				tags = addTag(tags, "unresolvable")
				continue
			}
			for _, b := range vi.Sign {
				if !b {
					tags = addTag(tags, "sign-fails")
				}
			}
			for _, rc := range vi.Res.Relays {
				if rc.Fee != vi.Res.Fee {
					tags = addTag(tags, "per-relay-fee")
				}
				if rc.Fee != vi.Res.Relays[0].Fee || rc.Gas != vi.Res.Relays[0].Gas {
					tags = addTag(tags, "per-relay-differences")
				}
			}
		}
	}
	if aba(in) {
		tags = addTag(tags, "A-B-A")
	}
	tags = addTag(tags, fmt.Sprintf("rounds:%d", rounds))
	return tags
}

// aba: some validator's settings go A -> B -> A over three rounds that do their work.
func aba(in Input) bool {
	hist := map[int][]string{}
	for _, op := range in.Ops {
		if op.Kind != "round" || !op.Cfg || op.AcctErr {
			continue
		}
		for _, vi := range op.Vals {
			if vi.Res == nil {
				continue
			}
			b, _ := json.Marshal(vi.Res.Relays)
			hist[vi.V] = append(hist[vi.V], string(b))
		}
	}
	for _, h := range hist {
		for i := 0; i+2 < len(h); i++ {
			for j := i + 1; j+1 < len(h); j++ {
				if h[j] != h[i] {
					for k := j + 1; k < len(h); k++ {
						if h[k] == h[i] {
							return true
						}
					}
				}
			}
		}
	}
	return false
}

// nontrivial: at least two rounds did their work, a registration was reused and a signature made.
func nontrivial(obs Obs) bool {
	active, reused, signed := 0, false, false
	for _, oo := range obs.Ops {
		if oo.Kind != "round" {
			continue
		}
		if len(oo.Reqs) > 0 || len(oo.Relays) > 0 {
			active++
		}
		for _, q := range oo.Reqs {
			if q.OK {
				signed = true
			}
		}
		for _, r := range oo.Relays {
			for _, reg := range r.Regs {
				if reg.Stamp < oo.Now {
					reused = true
				}
			}
		}
	}
	return active >= 2 && reused && signed
}

func TestC11(t *testing.T) {
	zerologger.Logger = zerolog.New(io.Discard)
	deadlock.Opts.Disable = true
	col := NewCollector("C11", "Check.C11",
		"histories of 2-9 operations (registration rounds by the job or the API, REST forwarding, proposal preparations) over 1-6 validators, 0-3 relays with per-relay settings, 0-3 secondary and 1-3 preparation beacon nodes, with settings changing between rounds (A->B->A included) and failing subsets of relays / nodes / signing requests / validators; in half of the histories relays and beacon nodes take time (0-250 ms, sometimes seconds; failing ones mostly fast) and abandon a request whose context is cancelled first, as real clients do, and a request counts only when it arrives; in half of the histories the chain time advances over epochs and the accounts provider, which answers the accounts validating at the epoch it is ASKED for, knows validators that activate (at some operation: at the next epoch), exit or stay pending during the history; run on the real block relay and proposal preparer services in a synctest bubble. Non-trivial = at least two rounds did their work, a signature was made and a cached registration was reused; distinct by input text")
	col.ShardSize = 100 // the terms are long: about 60 ms per case in coqc
	n := EnvInt("VERIF_N", 500)
	thorough := os.Getenv("VERIF_TIER") == "thorough"
	var ins []Input
	for _, in := range LoadInputs[Input]("C11") {
		in.Tags = addTag(in.Tags, "corpus")
		ins = append(ins, in)
	}
	rng := NewRand(NewRand(Seed()).U64())
	for i := 0; i < n; i++ {
		var in Input
		if i%8 == 7 {
			in = genReal(rng.Fork())
		} else {
			in = gen(rng.Fork())
		}
		if thorough && i%2 == 1 {
			in.Trace = true
		}
		ins = append(ins, in)
	}
	for _, in := range ins {
		obs := runInput(t, in)
		tags := inputTags(in)
		for _, op := range in.Ops {
			col.Count("op:" + op.Kind)
		}
		col.Count(fmt.Sprintf("validators:%d", len(in.Validators)))
		for _, oo := range obs.Ops {
			for _, q := range oo.Reqs {
				if q.OK {
					col.Count("signing:ok")
				} else {
					col.Count("signing:failed")
				}
			}
			for _, r := range oo.Relays {
				for _, reg := range r.Regs {
					if oo.Kind == "round" {
						if reg.Stamp < oo.Now {
							col.Count("registration:reused")
						} else {
							col.Count("registration:fresh")
						}
					} else {
						col.Count("registration:forwarded")
					}
				}
			}
		}
		for _, oo := range obs.Ops {
			for range oo.Aborted {
				col.Count("request:abandoned")
			}
		}
		for _, tg := range tags {
			if strings.Contains(tg, "in-flight") || tg == "activation" || tg == "relays-on-one-host" || strings.HasPrefix(tg, "one-host:") || strings.HasPrefix(tg, "job:") || strings.HasPrefix(tg, "preparer:") || tg == "timed" || tg == "slow-peer" || tg == "signer-takes-time" {
				col.Count("family:" + tg)
			}
		}
		if obs.Panic != "" {
			col.Count("result:panic")
		}
		if obs.Problem != "" {
			col.Count("result:harness-problem")
			col.Note("harness problem: " + obs.Problem)
		}
		key, _ := json.Marshal(in)
		id := col.NextID()
		col.Add(Case{Term: term(id, in, obs), Key: string(key), Nontrivial: nontrivial(obs), Tags: tags,
			Sample: map[string]any{"input": in, "observed": obs}})
	}
	if err := col.Flush(); err != nil {
		t.Fatal(err)
	}
}
