package c20

// Soak: a long-run history of operations applied to one set of REAL services wired as in vouch:
//   controller (NewForVerif: no tickers / event subscriptions) -> recording scheduler (jobs run
//   when the harness fires them) -> real attester (scripted data provider, signer, submitter);
//   real sync committee messenger -> real sync committee aggregator; real block relay
//   (NewForVerifC09) with a scripted builder-bid strategy.
// Runs inside a synctest bubble so that "every goroutine the operation started has finished or is
// parked" is synctest.Wait().  After every operation the sizes of the bookkeeping maps, the slots
// whose attestation job is executing and HasPendingAttestations / JobExists for the slots in
// play are read.

import (
	"context"
	"errors"
	"fmt"
	"sort"
	"strings"
	"sync"
	"testing"
	"testing/synctest"

	"github.com/attestantio/go-block-relay/services/blockauctioneer"
	builderclient "github.com/attestantio/go-builder-client"
	"github.com/attestantio/go-eth2-client/api"
	apiv1 "github.com/attestantio/go-eth2-client/api/v1"
	"github.com/attestantio/go-eth2-client/spec/altair"
	"github.com/attestantio/go-eth2-client/spec/bellatrix"
	"github.com/attestantio/go-eth2-client/spec/phase0"
	standardattester "github.com/attestantio/vouch/services/attester/standard"
	"github.com/attestantio/vouch/services/beaconblockproposer"
	"github.com/attestantio/vouch/services/beaconcommitteesubscriber"
	"github.com/attestantio/vouch/services/blockrelay"
	standardblockrelay "github.com/attestantio/vouch/services/blockrelay/standard"
	standardcontroller "github.com/attestantio/vouch/services/controller/standard"
	nullmetrics "github.com/attestantio/vouch/services/metrics/null"
	"github.com/attestantio/vouch/services/synccommitteeaggregator"
	standardaggregator "github.com/attestantio/vouch/services/synccommitteeaggregator/standard"
	"github.com/attestantio/vouch/services/synccommitteemessenger"
	standardmessenger "github.com/attestantio/vouch/services/synccommitteemessenger/standard"
	"github.com/google/uuid"
	"github.com/rs/zerolog"
	"github.com/sasha-s/go-deadlock"
	e2types "github.com/wealdtech/go-eth2-types/v2"
	e2wtypes "github.com/wealdtech/go-eth2-wallet-types/v2"

	"verifharness/mocks"
)

type Op struct {
	K string `json:"k"` // sched | start | finish | refresh | subscribe | head | message | aggregate | auction | bid
	// auction: AuctionBlock(S, ..), the proposal path; bid: BuilderBid(S, ..), the builder API that Vouch
	// serves (answered from the cache if the slot's bid is cached, else an auction whose result is cached).
	// Neither path compares S with the chain time: S is whatever was asked for.
	Cur     uint64   `json:"cur,omitempty"`
	S       uint64   `json:"s,omitempty"`
	E       uint64   `json:"e,omitempty"`
	NotCur  bool     `json:"notcur,omitempty"`
	OK      bool     `json:"ok,omitempty"`
	SubOK   bool     `json:"sub_ok,omitempty"`
	Resched bool     `json:"resched,omitempty"` // refresh: accounts available (duties re-fetched)
	Slots   []uint64 `json:"slots,omitempty"`
	// Scheduling of the goroutines around the scheduler (not part of the model's operation: the code
	// does nothing after ScheduleJob has returned, so neither changes what the model predicts).
	// Hold (sched, refresh): every goroutine of this operation that calls ScheduleJob for an
	// attestation job loses the processor once the job is in the scheduler's table and before it
	// continues; the operations that follow (the job starts, finishes, is cancelled by a refresh,
	// ...) happen in that gap.
	// Rel (any operation): the goroutines held so far continue, and come to rest, before this operation.
	Hold bool `json:"hold,omitempty"`
	Rel  bool `json:"rel,omitempty"`
}

type SoakInput struct {
	SPE uint64 `json:"spe"`
	Ops []Op   `json:"ops"`
}

type Probe struct {
	Slot uint64 `json:"slot"`
	Has  bool   `json:"has"`
	Job  bool   `json:"job"`
}

type Row struct {
	Sizes   []uint64 `json:"sizes"`
	Running []uint64 `json:"running"`
	Probes  []Probe  `json:"probes"`
	// slots of builderBidsCache, ascending: after every auction / bid and whenever they changed
	// (nil: as in the previous row)
	Bids *[]uint64 `json:"bids,omitempty"`
}

type SoakObs struct {
	Rows    []Row  `json:"rows"`
	Problem string `json:"problem,omitempty"`
}

// ---------------------------------------------------------------------------------------------
// scripted environment

type soakPubKey struct{ b [48]byte }

func (p *soakPubKey) Marshal() []byte               { return p.b[:] }
func (p *soakPubKey) Aggregate(_ e2types.PublicKey) {}
func (p *soakPubKey) Copy() e2types.PublicKey       { c := *p; return &c }

type soakAccount struct {
	index uint64
	pk    *soakPubKey
}

func newSoakAccount(index uint64) *soakAccount {
	pk := &soakPubKey{}
	for i := 0; i < 8; i++ {
		pk.b[i] = byte(index >> (8 * i))
	}
	pk.b[47] = 1
	return &soakAccount{index: index, pk: pk}
}
func (a *soakAccount) ID() uuid.UUID                { return uuid.UUID{byte(a.index), byte(a.index >> 8)} }
func (a *soakAccount) Name() string                 { return fmt.Sprintf("acct-%d", a.index) }
func (a *soakAccount) PublicKey() e2types.PublicKey { return a.pk }

type soakGate struct {
	ch chan bool // the harness sends ok / not ok to let the attestation data come back
}

type soakEnv struct {
	mu  sync.Mutex
	spe uint64

	// attester duties served to scheduleAttestations: slot -> validator index (fresh per scheduling)
	dutySlots   []uint64
	nextVal     uint64
	accountsErr bool // ValidatingAccountsForEpoch fails (refresh without accounts)
	subErr      bool // beacon committee subscriber fails
	rootErr     bool // head root unavailable to the messenger

	gates map[uint64]*soakGate // slot -> gate of the attestation job executing for that slot
}

func (e *soakEnv) Spec(_ context.Context, _ *api.SpecOpts) (*api.Response[map[string]any], error) {
	return &api.Response[map[string]any]{Data: map[string]any{
		"SLOTS_PER_EPOCH":                          e.spe,
		"SYNC_COMMITTEE_SIZE":                      uint64(512),
		"SYNC_COMMITTEE_SUBNET_COUNT":              uint64(4),
		"TARGET_AGGREGATORS_PER_SYNC_SUBCOMMITTEE": uint64(16),
		"TARGET_AGGREGATORS_PER_COMMITTEE":         uint64(16),
		"EPOCHS_PER_SYNC_COMMITTEE_PERIOD":         uint64(256),
	}, Metadata: map[string]any{}}, nil
}

func (e *soakEnv) AttesterDuties(_ context.Context, opts *api.AttesterDutiesOpts) (*api.Response[[]*apiv1.AttesterDuty], error) {
	e.mu.Lock()
	defer e.mu.Unlock()
	duties := make([]*apiv1.AttesterDuty, 0, len(e.dutySlots))
	for _, s := range e.dutySlots {
		e.nextVal++
		acc := newSoakAccount(e.nextVal)
		var pk phase0.BLSPubKey
		copy(pk[:], acc.pk.b[:])
		duties = append(duties, &apiv1.AttesterDuty{PubKey: pk, Slot: phase0.Slot(s), ValidatorIndex: phase0.ValidatorIndex(e.nextVal),
			CommitteeIndex: 0, CommitteeLength: 8, CommitteesAtSlot: 1, ValidatorCommitteeIndex: 0})
	}
	return &api.Response[[]*apiv1.AttesterDuty]{Data: duties, Metadata: map[string]any{}}, nil
}

// controller side
func (e *soakEnv) ValidatingAccountsForEpoch(_ context.Context, _ phase0.Epoch) (map[phase0.ValidatorIndex]e2wtypes.Account, error) {
	e.mu.Lock()
	defer e.mu.Unlock()
	if e.accountsErr {
		return nil, errors.New("scripted accounts failure")
	}
	return map[phase0.ValidatorIndex]e2wtypes.Account{1: newSoakAccount(1)}, nil
}

// attester side: every requested index has an account
func (e *soakEnv) ValidatingAccountsForEpochByIndex(_ context.Context, _ phase0.Epoch, indices []phase0.ValidatorIndex) (map[phase0.ValidatorIndex]e2wtypes.Account, error) {
	res := map[phase0.ValidatorIndex]e2wtypes.Account{}
	for _, i := range indices {
		res[i] = newSoakAccount(uint64(i))
	}
	return res, nil
}
func (e *soakEnv) SyncCommitteeAccountsForEpoch(context.Context, phase0.Epoch) (map[phase0.ValidatorIndex]e2wtypes.Account, error) {
	return map[phase0.ValidatorIndex]e2wtypes.Account{}, nil
}
func (e *soakEnv) SyncCommitteeAccountsForEpochByIndex(context.Context, phase0.Epoch, []phase0.ValidatorIndex) (map[phase0.ValidatorIndex]e2wtypes.Account, error) {
	return map[phase0.ValidatorIndex]e2wtypes.Account{}, nil
}

// the attestation job of a slot parks here until the harness finishes it
func (e *soakEnv) AttestationData(_ context.Context, opts *api.AttestationDataOpts) (*api.Response[*phase0.AttestationData], error) {
	g := &soakGate{ch: make(chan bool)}
	e.mu.Lock()
	e.gates[uint64(opts.Slot)] = g
	e.mu.Unlock()
	ok := <-g.ch
	e.mu.Lock()
	delete(e.gates, uint64(opts.Slot))
	e.mu.Unlock()
	if !ok {
		return nil, errors.New("scripted attestation data failure")
	}
	epoch := phase0.Epoch(uint64(opts.Slot) / e.spe)
	src := epoch
	if src > 0 {
		src--
	}
	return &api.Response[*phase0.AttestationData]{Data: &phase0.AttestationData{
		Slot: opts.Slot, Index: opts.CommitteeIndex, BeaconBlockRoot: phase0.Root{1},
		Source: &phase0.Checkpoint{Epoch: src, Root: phase0.Root{2}},
		Target: &phase0.Checkpoint{Epoch: epoch, Root: phase0.Root{3}},
	}, Metadata: map[string]any{}}, nil
}

func (e *soakEnv) SignBeaconAttestations(_ context.Context, accounts []e2wtypes.Account, _ phase0.Slot,
	_ []phase0.CommitteeIndex, _ phase0.Root, _ phase0.Epoch, _ phase0.Root, _ phase0.Epoch, _ phase0.Root,
) ([]phase0.BLSSignature, error) {
	sigs := make([]phase0.BLSSignature, len(accounts))
	for i := range sigs {
		sigs[i][0] = 0xaa
		sigs[i][1] = byte(i + 1)
	}
	return sigs, nil
}

func (e *soakEnv) SubmitAttestations(_ context.Context, _ []*phase0.Attestation) error { return nil }

func (e *soakEnv) running() []uint64 {
	e.mu.Lock()
	defer e.mu.Unlock()
	out := make([]uint64, 0, len(e.gates))
	for s := range e.gates {
		out = append(out, s)
	}
	sort.Slice(out, func(i, j int) bool { return out[i] < out[j] })
	return out
}

// beacon committee subscriber of the controller
func (e *soakEnv) Subscribe(_ context.Context, _ phase0.Epoch, _ map[phase0.ValidatorIndex]e2wtypes.Account) (map[phase0.Slot]map[phase0.CommitteeIndex]*beaconcommitteesubscriber.Subscription, error) {
	e.mu.Lock()
	defer e.mu.Unlock()
	if e.subErr {
		return nil, errors.New("scripted subscription failure")
	}
	return map[phase0.Slot]map[phase0.CommitteeIndex]*beaconcommitteesubscriber.Subscription{}, nil
}

// sync committee side
func (e *soakEnv) BeaconBlockRoot(_ context.Context, _ *api.BeaconBlockRootOpts) (*api.Response[*phase0.Root], error) {
	e.mu.Lock()
	defer e.mu.Unlock()
	if e.rootErr {
		return nil, errors.New("scripted head root failure")
	}
	root := phase0.Root{9}
	return &api.Response[*phase0.Root]{Data: &root, Metadata: map[string]any{}}, nil
}
func (e *soakEnv) SubmitSyncCommitteeMessages(context.Context, []*altair.SyncCommitteeMessage) error {
	return nil
}
func (e *soakEnv) SubmitSyncCommitteeSubscriptions(context.Context, []*apiv1.SyncCommitteeSubscription) error {
	return nil
}
func (e *soakEnv) SignSyncCommitteeRoots(_ context.Context, accounts []e2wtypes.Account, _ phase0.Epoch, _ phase0.Root) ([]phase0.BLSSignature, error) {
	return make([]phase0.BLSSignature, len(accounts)), nil
}
func (e *soakEnv) SignSyncCommitteeSelections(_ context.Context, accounts []e2wtypes.Account, _ phase0.Slot, _ []uint64) ([]phase0.BLSSignature, error) {
	return make([]phase0.BLSSignature, len(accounts)), nil
}
func (e *soakEnv) SignContributionAndProof(context.Context, e2wtypes.Account, *altair.ContributionAndProof) (phase0.BLSSignature, error) {
	return phase0.BLSSignature{}, nil
}
func (e *soakEnv) SignContributionAndProofs(_ context.Context, accounts []e2wtypes.Account, _ []*altair.ContributionAndProof) ([]phase0.BLSSignature, error) {
	return make([]phase0.BLSSignature, len(accounts)), nil
}
func (e *soakEnv) SyncCommitteeContribution(context.Context, *api.SyncCommitteeContributionOpts) (*api.Response[*altair.SyncCommitteeContribution], error) {
	return nil, errors.New("not scripted")
}
func (e *soakEnv) SubmitSyncCommitteeContributions(context.Context, []*altair.SignedContributionAndProof) error {
	return nil
}

// block relay side: the proposal path (AuctionBlock) looks the proposer's account up; the builder API
// path (BuilderBid -> immediateBuilderBid) runs the auction without an account
func (e *soakEnv) AccountByPublicKey(_ context.Context, _ phase0.BLSPubKey) (e2wtypes.Account, error) {
	return newSoakAccount(1), nil
}

type soakExecConfig struct{}

func (soakExecConfig) ProposerConfig(context.Context, e2wtypes.Account, phase0.BLSPubKey, bellatrix.ExecutionAddress, uint64) (*beaconblockproposer.ProposerConfig, error) {
	return &beaconblockproposer.ProposerConfig{FeeRecipient: bellatrix.ExecutionAddress{1},
		Relays: []*beaconblockproposer.RelayConfig{{Address: "relay.example", FeeRecipient: bellatrix.ExecutionAddress{1}, GasLimit: 30000000}}}, nil
}

type soakBidStrategy struct{}

func (soakBidStrategy) BuilderBid(context.Context, phase0.Slot, phase0.Hash32, phase0.BLSPubKey,
	*beaconblockproposer.ProposerConfig, map[phase0.BLSPubKey]*blockrelay.BuilderConfig,
) (*blockauctioneer.Results, error) {
	return &blockauctioneer.Results{Participation: map[string]*blockauctioneer.Participation{},
		AllProviders: []builderclient.BuilderBidProvider{}, Providers: []builderclient.BuilderBidProvider{}}, nil
}

// ---------------------------------------------------------------------------------------------

func attJobName(slot uint64) string { return fmt.Sprintf("Attestations for slot %d", slot) }

func runSoak(t *testing.T, in *SoakInput) (obs SoakObs) {
	deadlock.Opts.Disable = true
	synctest.Test(t, func(t *testing.T) {
		defer func() {
			if r := recover(); r != nil {
				obs.Problem = "panic: " + fmt.Sprint(r)
			}
		}()
		obs = runSoakInBubble(t, in)
	})
	return obs
}

func runSoakInBubble(t *testing.T, in *SoakInput) (obs SoakObs) {
	if in.SPE == 0 {
		obs.Problem = "spe = 0"
		return obs
	}
	ctx, cancel := context.WithCancel(context.Background())
	defer cancel()
	e := &soakEnv{spe: in.SPE, gates: map[uint64]*soakGate{}, nextVal: 1000}
	ct := mocks.NewChainTime(in.SPE)
	sched := newGapScheduler(mocks.NewRecScheduler())
	level := zerolog.Disabled
	mon := nullmetrics.New()

	att, err := standardattester.New(ctx,
		standardattester.WithLogLevel(level),
		standardattester.WithMonitor(mon),
		standardattester.WithProcessConcurrency(1),
		standardattester.WithChainTime(ct),
		standardattester.WithSpecProvider(e),
		standardattester.WithAttestationDataProvider(e),
		standardattester.WithAttestationsSubmitter(e),
		standardattester.WithValidatingAccountsProvider(e),
		standardattester.WithBeaconAttestationsSigner(e),
	)
	if err != nil {
		obs.Problem = "attester: " + err.Error()
		return obs
	}
	aggregator, err := standardaggregator.New(ctx,
		standardaggregator.WithLogLevel(level),
		standardaggregator.WithMonitor(mon),
		standardaggregator.WithSpecProvider(e),
		standardaggregator.WithBeaconBlockRootProvider(e),
		standardaggregator.WithContributionAndProofSigner(e),
		standardaggregator.WithValidatingAccountsProvider(e),
		standardaggregator.WithSyncCommitteeContributionProvider(e),
		standardaggregator.WithSyncCommitteeContributionsSubmitter(e),
		standardaggregator.WithChainTime(ct),
	)
	if err != nil {
		obs.Problem = "aggregator: " + err.Error()
		return obs
	}
	messenger, err := standardmessenger.New(ctx,
		standardmessenger.WithLogLevel(level),
		standardmessenger.WithProcessConcurrency(2),
		standardmessenger.WithMonitor(mon),
		standardmessenger.WithChainTimeService(ct),
		standardmessenger.WithSyncCommitteeAggregator(aggregator),
		standardmessenger.WithSpecProvider(e),
		standardmessenger.WithBeaconBlockRootProvider(e),
		standardmessenger.WithSyncCommitteeMessagesSubmitter(e),
		standardmessenger.WithValidatingAccountsProvider(e),
		standardmessenger.WithSyncCommitteeRootSigner(e),
		standardmessenger.WithSyncCommitteeSelectionSigner(e),
		standardmessenger.WithSyncCommitteeSubscriptionsSubmitter(e),
	)
	if err != nil {
		obs.Problem = "messenger: " + err.Error()
		return obs
	}
	relay := standardblockrelay.NewForVerifC09(level, e, soakExecConfig{}, soakBidStrategy{},
		map[phase0.BLSPubKey]*blockrelay.BuilderConfig{})
	ctrl := standardcontroller.NewForVerif(&standardcontroller.VerifDeps{
		LogLevel:                     level,
		Monitor:                      mon,
		ChainTime:                    ct,
		Scheduler:                    sched,
		AttesterDutiesProvider:       e,
		ValidatingAccountsProvider:   e,
		Attester:                     att,
		SyncCommitteeMessenger:       messenger,
		SyncCommitteeAggregator:      aggregator,
		BeaconCommitteeSubscriber:    e,
		SlotDuration:                 ct.SlotDuration,
		SlotsPerEpoch:                in.SPE,
		EpochsPerSyncCommitteePeriod: 256,
	})

	now := uint64(0)
	setNow := func(cur uint64) { now = cur; ct.SetSlot(cur) }
	indices := []phase0.ValidatorIndex{1}

	attJobs := func() (n uint64) {
		for _, name := range sched.ListJobs(ctx) {
			if strings.HasPrefix(name, "Attestations for slot ") {
				n++
			}
		}
		return n
	}
	var prevBids []uint64
	sameSlots := func(a, b []uint64) bool {
		if len(a) != len(b) {
			return false
		}
		for i := range a {
			if a[i] != b[i] {
				return false
			}
		}
		return true
	}
	observe := func(op *Op) Row {
		running := e.running()
		r := Row{Running: running, Probes: []Probe{}}
		r.Sizes = []uint64{
			uint64(len(att.VerifAttested())),
			uint64(ctrl.VerifPendingAttestationsLen()),
			attJobs(),
			uint64(len(running)),
			uint64(ctrl.VerifSubscriptionInfosLen()),
			uint64(aggregator.VerifC20BeaconBlockRootsLen()),
			uint64(messenger.VerifC20SlotDataRecordsLen()),
			uint64(relay.VerifC20BuilderBidsCacheLen()),
		}
		if bids := relay.VerifC20BuilderBidsCacheSlots(); op.K == "auction" || op.K == "bid" || !sameSlots(bids, prevBids) {
			r.Bids = &bids
			prevBids = bids
		}
		// slots in play: named by this op, executing, and the current slot (a mark left anywhere
		// else shows in the sizes: marks = jobs + executing)
		interesting := map[uint64]bool{now: true}
		for _, s := range op.Slots {
			interesting[s] = true
		}
		for _, s := range running {
			interesting[s] = true
		}
		switch op.K {
		case "start", "finish":
			interesting[op.S] = true
		case "refresh":
			for s := op.E * in.SPE; s < (op.E+1)*in.SPE; s++ {
				interesting[s] = true
			}
		}
		slots := make([]uint64, 0, len(interesting))
		for s := range interesting {
			slots = append(slots, s)
		}
		sort.Slice(slots, func(i, j int) bool { return slots[i] < slots[j] })
		for _, s := range slots {
			r.Probes = append(r.Probes, Probe{Slot: s, Has: ctrl.HasPendingAttestations(ctx, phase0.Slot(s)), Job: sched.JobExists(ctx, attJobName(s))})
		}
		return r
	}

	for i := range in.Ops {
		op := &in.Ops[i]
		if op.Rel {
			sched.release()
			synctest.Wait()
		}
		sched.setHold(op.Hold && (op.K == "sched" || op.K == "refresh"))
		switch op.K {
		case "sched":
			setNow(op.Cur)
			e.mu.Lock()
			e.dutySlots = op.Slots
			e.mu.Unlock()
			epoch := op.Cur / in.SPE
			if len(op.Slots) > 0 {
				epoch = op.Slots[0] / in.SPE
			}
			ctrl.VerifScheduleAttestations(ctx, phase0.Epoch(epoch), indices, op.NotCur)
		case "start":
			go sched.Fire(ctx, attJobName(op.S))
		case "finish":
			e.mu.Lock()
			g := e.gates[op.S]
			e.mu.Unlock()
			if g != nil {
				g.ch <- op.OK
			}
		case "refresh":
			setNow(op.Cur)
			e.mu.Lock()
			e.dutySlots = op.Slots
			e.accountsErr = !op.Resched
			e.subErr = !op.SubOK
			e.mu.Unlock()
			ctrl.VerifRefreshAttesterDutiesForEpoch(ctx, phase0.Epoch(op.E))
		case "subscribe":
			setNow(op.Cur)
			e.mu.Lock()
			e.subErr = !op.OK
			e.mu.Unlock()
			ctrl.VerifSubscribeToBeaconCommittees(ctx, phase0.Epoch(op.E), map[phase0.ValidatorIndex]e2wtypes.Account{1: newSoakAccount(1)})
		case "head":
			setNow(op.Cur)
			ctrl.HandleHeadEvent(&apiv1.Event{Topic: "head", Data: &apiv1.HeadEvent{Slot: phase0.Slot(op.S), Block: phase0.Root{byte(op.S)}}})
		case "message":
			e.mu.Lock()
			e.rootErr = !op.OK
			e.mu.Unlock()
			duty := synccommitteemessenger.NewDuty(phase0.Slot(op.S), map[phase0.ValidatorIndex][]phase0.CommitteeIndex{7: {3}})
			_, _ = messenger.Message(ctx, duty)
		case "aggregate":
			aggregator.Aggregate(ctx, &synccommitteeaggregator.Duty{Slot: phase0.Slot(op.S),
				SelectionProofs: map[phase0.ValidatorIndex]map[uint64]phase0.BLSSignature{},
				Accounts:        map[phase0.ValidatorIndex]e2wtypes.Account{}})
		case "auction":
			_, _ = relay.AuctionBlock(ctx, phase0.Slot(op.S), phase0.Hash32{byte(op.S)}, phase0.BLSPubKey{1})
		case "bid":
			_, _ = relay.BuilderBid(ctx, phase0.Slot(op.S), phase0.Hash32{byte(op.S)}, phase0.BLSPubKey{1})
		default:
			obs.Problem = "unknown op " + op.K
		}
		synctest.Wait()
		sched.setHold(false)
		obs.Rows = append(obs.Rows, observe(op))
	}
	sched.release()
	synctest.Wait()

	// let every executing job end before the bubble is left
	e.mu.Lock()
	gates := make([]*soakGate, 0, len(e.gates))
	for _, g := range e.gates {
		gates = append(gates, g)
	}
	e.mu.Unlock()
	for _, g := range gates {
		g.ch <- false
	}
	synctest.Wait()
	return obs
}
