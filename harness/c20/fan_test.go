package c20

// Fan-out scenarios: one call of a `first` strategy (or of unblindProposal) with n scripted
// providers that are released one at a time by the harness.  Runs OUTSIDE synctest bubbles (a
// goroutine left blocked for ever would make a bubble panic at exit); nothing depends on real
// time: every step is a handshake, the strategies get a one hour timeout and the "timeout" event
// is the cancellation of the caller's context (the same `case <-ctx.Done()` of the collector).
// After each event the harness waits until every goroutine of the function under test is parked
// (inside a provider mock, on a channel send, or gone), by reading the goroutine dump.  The
// observation is the number of goroutines OF THAT FUNCTION blocked on a channel send (delta to the
// count before the case), not runtime.NumGoroutine.

import (
	"context"
	"errors"
	"fmt"
	"reflect"
	"runtime"
	"strings"
	"sync"
	"time"

	builderclient "github.com/attestantio/go-builder-client"
	builderapi "github.com/attestantio/go-builder-client/api"
	eth2client "github.com/attestantio/go-eth2-client"
	"github.com/attestantio/go-eth2-client/api"
	apiv1 "github.com/attestantio/go-eth2-client/api/v1"
	apiv1deneb "github.com/attestantio/go-eth2-client/api/v1/deneb"
	"github.com/attestantio/go-eth2-client/spec"
	"github.com/attestantio/go-eth2-client/spec/altair"
	"github.com/attestantio/go-eth2-client/spec/deneb"
	"github.com/attestantio/go-eth2-client/spec/phase0"
	standardproposer "github.com/attestantio/vouch/services/beaconblockproposer/standard"
	nullmetrics "github.com/attestantio/vouch/services/metrics/null"
	aggfirst "github.com/attestantio/vouch/strategies/aggregateattestation/first"
	attfirst "github.com/attestantio/vouch/strategies/attestationdata/first"
	headerfirst "github.com/attestantio/vouch/strategies/beaconblockheader/first"
	propfirst "github.com/attestantio/vouch/strategies/beaconblockproposal/first"
	rootfirst "github.com/attestantio/vouch/strategies/beaconblockroot/first"
	blockfirst "github.com/attestantio/vouch/strategies/signedbeaconblock/first"
	contribfirst "github.com/attestantio/vouch/strategies/synccommitteecontribution/first"
	"github.com/rs/zerolog"
)

const (
	kindAttData = iota
	kindAggAtt
	kindHeader
	kindProposal
	kindRoot
	kindBlock
	kindContrib
	kindUnblind
	nKinds
)

var kindNames = []string{"attestationdata/first", "aggregateattestation/first", "beaconblockheader/first",
	"beaconblockproposal/first", "beaconblockroot/first", "signedbeaconblock/first",
	"synccommitteecontribution/first", "unblindProposal"}

// text that identifies, in a goroutine dump, the provider goroutines of each function under test
var kindMarkers = []string{
	"strategies/attestationdata/first.(*Service).AttestationData.func1",
	"strategies/aggregateattestation/first.(*Service).AggregateAttestation.func1",
	"strategies/beaconblockheader/first.(*Service).BeaconBlockHeader.func1",
	"strategies/beaconblockproposal/first.(*Service).Proposal.func1",
	"strategies/beaconblockroot/first.(*Service).BeaconBlockRoot.func1",
	"strategies/signedbeaconblock/first.(*Service).SignedBeaconBlock.func1",
	"strategies/synccommitteecontribution/first.(*Service).SyncCommitteeContribution.func1",
	"services/beaconblockproposer/standard.(*Service).unblindProposal.func1",
}

type FanEv struct {
	Timeout  bool `json:"timeout,omitempty"`  // the caller's context ends
	Deadline bool `json:"deadline,omitempty"` // the strategy's own timeout passes (the caller's context lives on); first event of a call only
	I        int  `json:"i"`                  // provider released
	OK       bool `json:"ok"`                 // ... with an answer (else an error)
}

type FanInput struct {
	Kind int `json:"kind"`
	N    int `json:"n"`
	// Honour[i]: provider i returns the context's error when its request context ends before its
	// release.  A release event of such a provider that stands after the end of its context must
	// have ok=false (it is skipped if the provider has already returned).  A provider that honours
	// the context and has no release event at all is a node that never answers.
	Honour []bool  `json:"honour"`
	Evs    []FanEv `json:"evs"`
	// Calls > 1: the script is run that many times, one call after the other, on the SAME service
	// instance under the SAME caller context (ignored when the script ends the caller's context).
	Calls int `json:"calls,omitempty"`
	// EndCaller: after the last call the caller's context ends.
	EndCaller bool `json:"end_caller,omitempty"`
}

// FanRow: at quiescence after an event.
type FanRow struct {
	Returned bool `json:"returned"` // the current call has come back
	Inflight int  `json:"inflight"` // requests (of all calls so far) outstanding at providers that honour their context
}

type FanObs struct {
	Returned     bool     `json:"returned"` // every call came back
	OK           bool     `json:"ok"`
	Blocked      int      `json:"blocked"`
	Alive        int      `json:"alive"` // goroutines of the function, or started by it, that exist at the end
	Rows         []FanRow `json:"rows,omitempty"`
	Problem      string   `json:"problem,omitempty"`
	Unrepeatable bool     `json:"unrepeatable,omitempty"`
}

func (in *FanInput) effCalls() int {
	c := in.Calls
	if c < 1 {
		c = 1
	}
	for _, ev := range in.Evs {
		if ev.Timeout {
			return 1
		}
	}
	return c
}

// ---------------------------------------------------------------------------------------------
// the scripted provider

type fanAnswer struct{ ok bool }

// the provider's part in one call of the function under test
type fanCall struct {
	release chan fanAnswer
	entered bool
	result  string // "", "ok", "err", "ctx"
}

type fanProvider struct {
	id       int
	honour   bool
	mu       sync.Mutex
	cur      *fanCall   // the call in progress
	all      []*fanCall // every call so far (requests of earlier calls may still be outstanding)
	inflight int        // requests that have entered and not returned, all calls
}

// arm prepares the provider for the next call of the function under test.
func (p *fanProvider) arm() {
	p.mu.Lock()
	p.cur = &fanCall{release: make(chan fanAnswer, 1)}
	p.all = append(p.all, p.cur)
	p.mu.Unlock()
}

var errFan = errors.New("POST failed with status 400: scripted failure") // unblindProposal does not retry a 400

//go:noinline
func (p *fanProvider) wait(ctx context.Context) bool {
	p.mu.Lock()
	c := p.cur
	c.entered = true
	p.inflight++
	p.mu.Unlock()
	var a fanAnswer
	if p.honour {
		select {
		case a = <-c.release:
		case <-ctx.Done():
			p.setResult(c, "ctx")
			return false
		}
	} else {
		a = <-c.release
	}
	if a.ok {
		p.setResult(c, "ok")
	} else {
		p.setResult(c, "err")
	}
	return a.ok
}

func (p *fanProvider) setResult(c *fanCall, r string) {
	p.mu.Lock()
	c.result = r
	p.inflight--
	p.mu.Unlock()
}
func (p *fanProvider) getResult() string { p.mu.Lock(); defer p.mu.Unlock(); return p.cur.result }
func (p *fanProvider) getInflight() int  { p.mu.Lock(); defer p.mu.Unlock(); return p.inflight }

func (p *fanProvider) AttestationData(ctx context.Context, opts *api.AttestationDataOpts) (*api.Response[*phase0.AttestationData], error) {
	if !p.wait(ctx) {
		return nil, errFan
	}
	return &api.Response[*phase0.AttestationData]{Data: &phase0.AttestationData{Slot: opts.Slot,
		Source: &phase0.Checkpoint{}, Target: &phase0.Checkpoint{}}, Metadata: map[string]any{}}, nil
}

func (p *fanProvider) AggregateAttestation(ctx context.Context, opts *api.AggregateAttestationOpts) (*api.Response[*phase0.Attestation], error) {
	if !p.wait(ctx) {
		return nil, errFan
	}
	return &api.Response[*phase0.Attestation]{Data: &phase0.Attestation{Data: &phase0.AttestationData{Slot: opts.Slot,
		Source: &phase0.Checkpoint{}, Target: &phase0.Checkpoint{}}}, Metadata: map[string]any{}}, nil
}

func (p *fanProvider) BeaconBlockHeader(ctx context.Context, _ *api.BeaconBlockHeaderOpts) (*api.Response[*apiv1.BeaconBlockHeader], error) {
	if !p.wait(ctx) {
		return nil, errFan
	}
	return &api.Response[*apiv1.BeaconBlockHeader]{Data: &apiv1.BeaconBlockHeader{}, Metadata: map[string]any{}}, nil
}

func (p *fanProvider) Proposal(ctx context.Context, _ *api.ProposalOpts) (*api.Response[*api.VersionedProposal], error) {
	if !p.wait(ctx) {
		return nil, errFan
	}
	return &api.Response[*api.VersionedProposal]{Data: &api.VersionedProposal{Version: spec.DataVersionDeneb}, Metadata: map[string]any{}}, nil
}

func (p *fanProvider) BeaconBlockRoot(ctx context.Context, _ *api.BeaconBlockRootOpts) (*api.Response[*phase0.Root], error) {
	if !p.wait(ctx) {
		return nil, errFan
	}
	root := phase0.Root{byte(p.id + 1)}
	return &api.Response[*phase0.Root]{Data: &root, Metadata: map[string]any{}}, nil
}

func (p *fanProvider) SignedBeaconBlock(ctx context.Context, _ *api.SignedBeaconBlockOpts) (*api.Response[*spec.VersionedSignedBeaconBlock], error) {
	if !p.wait(ctx) {
		return nil, errFan
	}
	return &api.Response[*spec.VersionedSignedBeaconBlock]{Data: &spec.VersionedSignedBeaconBlock{Version: spec.DataVersionDeneb}, Metadata: map[string]any{}}, nil
}

func (p *fanProvider) SyncCommitteeContribution(ctx context.Context, opts *api.SyncCommitteeContributionOpts) (*api.Response[*altair.SyncCommitteeContribution], error) {
	if !p.wait(ctx) {
		return nil, errFan
	}
	return &api.Response[*altair.SyncCommitteeContribution]{Data: &altair.SyncCommitteeContribution{Slot: opts.Slot}, Metadata: map[string]any{}}, nil
}

// builderclient.UnblindedProposalProvider
func (p *fanProvider) Name() string              { return fmt.Sprintf("relay-%d", p.id) }
func (p *fanProvider) Address() string           { return fmt.Sprintf("relay-%d.example", p.id) }
func (p *fanProvider) Pubkey() *phase0.BLSPubKey { return nil }
func (p *fanProvider) UnblindProposal(ctx context.Context, _ *builderapi.UnblindProposalOpts) (*builderapi.Response[*api.VersionedSignedProposal], error) {
	if !p.wait(ctx) {
		return nil, errFan
	}
	return &builderapi.Response[*api.VersionedSignedProposal]{Data: &api.VersionedSignedProposal{Version: spec.DataVersionDeneb,
		Deneb: &apiv1deneb.SignedBlockContents{SignedBlock: &deneb.SignedBeaconBlock{}}}, Metadata: map[string]any{}}, nil
}

// ---------------------------------------------------------------------------------------------
// The log writer of unblindProposal doubles as a barrier: a provider goroutine that has its block
// logs "Unblinded block" just before it marks the semaphore and sends; holding every successful
// goroutine there until all answers are in reproduces "the relays answer all at once" exactly.

type barrierWriter struct {
	mu   sync.Mutex
	open chan struct{}
}

//go:noinline
func (w *barrierWriter) Write(b []byte) (int, error) {
	if strings.Contains(string(b), "Unblinded block") {
		w.mu.Lock()
		ch := w.open
		w.mu.Unlock()
		<-ch
	}
	return len(b), nil
}

// ---------------------------------------------------------------------------------------------
// goroutine dump

type dumpCount struct {
	inMock    int // parked in a provider mock or at the log barrier
	blocked   int // parked on a channel send
	transient int // anything else: still moving
	others    int // parked goroutines inside the function or started by it that are not its provider goroutines
}

func (c dumpCount) total() int { return c.inMock + c.blocked + c.others }

// chanWait: the goroutine is parked on a channel operation (nothing in the function under test
// makes it move again by itself); any other state (running, runnable, a lock, a sleep) is passing.
func chanWait(header string) bool {
	return strings.Contains(header, "[chan receive") || strings.Contains(header, "[select") || strings.Contains(header, "[chan send")
}

func fanDump(marker string) (dumpCount, bool) {
	broad := strings.TrimSuffix(marker, ".func1")
	buf := make([]byte, 1<<20)
	for {
		n := runtime.Stack(buf, true)
		if n < len(buf) {
			buf = buf[:n]
			break
		}
		buf = make([]byte, 2*len(buf))
	}
	var c dumpCount
	collectorMoving := false
	for _, g := range strings.Split(string(buf), "\n\n") {
		nl := strings.IndexByte(g, '\n')
		if nl < 0 {
			continue
		}
		header, body := g[:nl], g[nl:]
		if strings.Contains(body, "c20.fanCollector") {
			if !strings.Contains(header, "[select") {
				collectorMoving = true
			}
			continue
		}
		if !strings.Contains(body, marker) {
			if strings.Contains(body, broad) {
				if chanWait(header) {
					c.others++
				} else {
					c.transient++
				}
			}
			continue
		}
		switch {
		case strings.Contains(body, "c20.(*fanProvider).wait") || strings.Contains(body, "c20.(*barrierWriter).Write"):
			if strings.Contains(header, "[chan receive") || strings.Contains(header, "[select") {
				c.inMock++
			} else {
				c.transient++
			}
		case strings.Contains(header, "[chan send"):
			c.blocked++
		case chanWait(header):
			// waiting on a channel that is not a provider's: e.g. a goroutine that waits for its context to end
			c.others++
		default:
			c.transient++
		}
	}
	return c, collectorMoving
}

// fanSettle waits until nothing of the function under test is moving.
func fanSettle(marker string, done <-chan struct{}) (dumpCount, bool) {
	deadline := time.Now().Add(5 * time.Second)
	quiet := 0
	var c dumpCount
	for time.Now().Before(deadline) {
		var moving bool
		c, moving = fanDump(marker)
		select {
		case <-done:
			moving = false // the collector has returned (its goroutine may still be unwinding)
		default:
		}
		if c.transient == 0 && !moving {
			quiet++
			if quiet >= 3 {
				return c, true
			}
		} else {
			quiet = 0
		}
		runtime.Gosched()
		time.Sleep(50 * time.Microsecond)
	}
	return c, false
}

//go:noinline
func fanCollector(call func() error, res *error, done chan struct{}) {
	*res = call()
	close(done)
}

// ---------------------------------------------------------------------------------------------

// fanDeadline is the strategies' timeout in scripts with a Deadline event (real time; such an
// event is the first of its call, so nothing races with it); every other script runs under an hour.
const fanDeadline = 15 * time.Millisecond

func runFanOnce(in *FanInput) (obs FanObs) {
	defer func() {
		if r := recover(); r != nil {
			obs.Problem = "panic: " + fmt.Sprint(r)
		}
	}()
	if in.Kind < 0 || in.Kind >= nKinds || in.N <= 0 || in.N > 8 {
		obs.Problem = "bad input"
		return obs
	}
	hasDeadline := false
	for k, ev := range in.Evs {
		if ev.Deadline {
			if in.Kind == kindUnblind || k != 0 {
				obs.Problem = "bad input"
				return obs
			}
			hasDeadline = true
		}
	}
	marker := kindMarkers[in.Kind]
	base, _ := fanDump(marker)

	provs := make([]*fanProvider, in.N)
	for i := range provs {
		h := i < len(in.Honour) && in.Honour[i]
		provs[i] = &fanProvider{id: i, honour: h}
		provs[i].arm()
	}
	parent, cancel := context.WithCancel(context.Background())
	defer cancel()
	mon := nullmetrics.New()
	T := time.Hour
	if hasDeadline {
		T = fanDeadline
	}
	var bws []*barrierWriter
	var bw *barrierWriter

	var call func() error
	name := func(i int) string { return fmt.Sprintf("p%d", i) }
	switch in.Kind {
	case kindAttData:
		m := map[string]eth2client.AttestationDataProvider{}
		for i, p := range provs {
			m[name(i)] = p
		}
		svc, err := attfirst.New(parent, attfirst.WithLogLevel(zerolog.Disabled), attfirst.WithClientMonitor(mon), attfirst.WithTimeout(T), attfirst.WithAttestationDataProviders(m))
		if err != nil {
			obs.Problem = err.Error()
			return obs
		}
		call = func() error { _, err := svc.AttestationData(parent, &api.AttestationDataOpts{Slot: 5}); return err }
	case kindAggAtt:
		m := map[string]eth2client.AggregateAttestationProvider{}
		for i, p := range provs {
			m[name(i)] = p
		}
		svc, err := aggfirst.New(parent, aggfirst.WithLogLevel(zerolog.Disabled), aggfirst.WithClientMonitor(mon), aggfirst.WithTimeout(T), aggfirst.WithAggregateAttestationProviders(m))
		if err != nil {
			obs.Problem = err.Error()
			return obs
		}
		call = func() error {
			_, err := svc.AggregateAttestation(parent, &api.AggregateAttestationOpts{Slot: 5})
			return err
		}
	case kindHeader:
		m := map[string]eth2client.BeaconBlockHeadersProvider{}
		for i, p := range provs {
			m[name(i)] = p
		}
		svc, err := headerfirst.New(parent, headerfirst.WithLogLevel(zerolog.Disabled), headerfirst.WithClientMonitor(mon), headerfirst.WithTimeout(T), headerfirst.WithBeaconBlockHeadersProviders(m))
		if err != nil {
			obs.Problem = err.Error()
			return obs
		}
		call = func() error {
			_, err := svc.BeaconBlockHeader(parent, &api.BeaconBlockHeaderOpts{Block: "head"})
			return err
		}
	case kindProposal:
		m := map[string]eth2client.ProposalProvider{}
		for i, p := range provs {
			m[name(i)] = p
		}
		svc, err := propfirst.New(parent, propfirst.WithLogLevel(zerolog.Disabled), propfirst.WithClientMonitor(mon), propfirst.WithTimeout(T), propfirst.WithProposalProviders(m))
		if err != nil {
			obs.Problem = err.Error()
			return obs
		}
		call = func() error { _, err := svc.Proposal(parent, &api.ProposalOpts{Slot: 5}); return err }
	case kindRoot:
		m := map[string]eth2client.BeaconBlockRootProvider{}
		for i, p := range provs {
			m[name(i)] = p
		}
		svc, err := rootfirst.New(parent, rootfirst.WithLogLevel(zerolog.Disabled), rootfirst.WithClientMonitor(mon), rootfirst.WithTimeout(T), rootfirst.WithBeaconBlockRootProviders(m))
		if err != nil {
			obs.Problem = err.Error()
			return obs
		}
		call = func() error {
			_, err := svc.BeaconBlockRoot(parent, &api.BeaconBlockRootOpts{Block: "head"})
			return err
		}
	case kindBlock:
		m := map[string]eth2client.SignedBeaconBlockProvider{}
		for i, p := range provs {
			m[name(i)] = p
		}
		svc, err := blockfirst.New(parent, blockfirst.WithLogLevel(zerolog.Disabled), blockfirst.WithClientMonitor(mon), blockfirst.WithTimeout(T), blockfirst.WithSignedBeaconBlockProviders(m))
		if err != nil {
			obs.Problem = err.Error()
			return obs
		}
		call = func() error {
			_, err := svc.SignedBeaconBlock(parent, &api.SignedBeaconBlockOpts{Block: "head"})
			return err
		}
	case kindContrib:
		m := map[string]eth2client.SyncCommitteeContributionProvider{}
		for i, p := range provs {
			m[name(i)] = p
		}
		svc, err := contribfirst.New(parent, contribfirst.WithLogLevel(zerolog.Disabled), contribfirst.WithClientMonitor(mon), contribfirst.WithTimeout(T), contribfirst.WithSyncCommitteeContributionProviders(m))
		if err != nil {
			obs.Problem = err.Error()
			return obs
		}
		call = func() error {
			_, err := svc.SyncCommitteeContribution(parent, &api.SyncCommitteeContributionOpts{Slot: 5})
			return err
		}
	case kindUnblind:
		ps := make([]builderclient.UnblindedProposalProvider, len(provs))
		for i, p := range provs {
			ps[i] = p
		}
		call = func() error {
			// (the function has no state of its own: the hook makes a service with a logger per call)
			proposal := &api.VersionedSignedProposal{Version: spec.DataVersionDeneb, Blinded: true,
				DenebBlinded: &apiv1deneb.SignedBlindedBeaconBlock{}}
			return standardproposer.VerifC20UnblindProposal(parent, bw, zerolog.TraceLevel, proposal, ps)
		}
	}

	var done chan struct{}
	// every provider goroutine of the current call is inside its mock
	waitEntered := func() bool {
		deadline := time.Now().Add(5 * time.Second)
		for time.Now().Before(deadline) {
			all := true
			for _, p := range provs {
				p.mu.Lock()
				if !p.cur.entered {
					all = false
				}
				p.mu.Unlock()
			}
			if all {
				return true
			}
			time.Sleep(50 * time.Microsecond)
		}
		return false
	}
	openBarrier := func(w *barrierWriter) {
		w.mu.Lock()
		select {
		case <-w.open:
		default:
			close(w.open)
		}
		w.mu.Unlock()
	}
	cleanup := func() {
		cancel()
		for _, p := range provs {
			p.mu.Lock()
			for _, c := range p.all {
				select {
				case c.release <- fanAnswer{ok: false}:
				default:
				}
			}
			p.mu.Unlock()
		}
		for _, w := range bws {
			openBarrier(w)
		}
		if done != nil {
			select {
			case <-done:
			case <-time.After(5 * time.Second):
			}
		}
	}
	inflight := func() int {
		n := 0
		for _, p := range provs {
			if p.honour {
				n += p.getInflight()
			}
		}
		return n
	}
	isDone := func() bool {
		select {
		case <-done:
			return true
		default:
			return false
		}
	}
	row := func() { obs.Rows = append(obs.Rows, FanRow{Returned: isDone(), Inflight: inflight()}) }

	calls := in.effCalls()
	allReturned, allOK := true, true
	for c := 0; c < calls; c++ {
		if c > 0 {
			for _, p := range provs {
				p.arm()
			}
		}
		bw = &barrierWriter{open: make(chan struct{})}
		bws = append(bws, bw)
		var callErr error
		done = make(chan struct{})
		go fanCollector(call, &callErr, done)

		if !waitEntered() {
			obs.Problem = "providers were not all called"
			cleanup()
			return obs
		}
		if _, ok := fanSettle(marker, done); !ok {
			obs.Problem = "did not settle at start"
			cleanup()
			return obs
		}

		released := make([]bool, in.N)
		for _, ev := range in.Evs {
			switch {
			case ev.Deadline:
				// the strategy's own timeout: nothing to do but wait for it
				select {
				case <-done:
				case <-time.After(5 * time.Second):
					obs.Problem = "the deadline did not end the call"
					cleanup()
					return obs
				}
			case ev.Timeout:
				if in.Kind == kindUnblind {
					openBarrier(bw) // answers that are in are delivered before the context ends
					if _, ok := fanSettle(marker, done); !ok {
						obs.Problem = "did not settle"
						cleanup()
						return obs
					}
				}
				cancel()
			default:
				if ev.I < 0 || ev.I >= in.N || released[ev.I] {
					obs.Problem = "bad event"
					cleanup()
					return obs
				}
				released[ev.I] = true
				p := provs[ev.I]
				if r := p.getResult(); r == "ctx" {
					if ev.OK {
						obs.Problem = "inconsistent input: provider already returned the context's error"
						cleanup()
						return obs
					}
				} else {
					p.mu.Lock()
					ch := p.cur.release
					p.mu.Unlock()
					ch <- fanAnswer{ok: ev.OK}
				}
			}
			// (unblinding: all answers first; the barrier opens after the last event has settled)
			if _, ok := fanSettle(marker, done); !ok {
				obs.Problem = "did not settle"
				cleanup()
				return obs
			}
			row()
		}
		openBarrier(bw)
		if _, ok := fanSettle(marker, done); !ok {
			obs.Problem = "did not settle at the end"
			cleanup()
			return obs
		}
		if !isDone() {
			allReturned = false
			allOK = false
			break // a call that has not come back is not followed by another one
		}
		if callErr != nil {
			allOK = false
		}
	}
	if in.EndCaller {
		cancel()
		if _, ok := fanSettle(marker, done); !ok {
			obs.Problem = "did not settle after the caller's context ended"
			cleanup()
			return obs
		}
		row()
	}
	c, ok := fanSettle(marker, done)
	if !ok {
		obs.Problem = "did not settle at the end"
		cleanup()
		return obs
	}
	obs.Returned = allReturned
	obs.OK = allOK
	obs.Blocked = c.blocked - base.blocked
	obs.Alive = c.total() - base.total()
	cleanup()
	return obs
}

func fanClean(o *FanObs) bool {
	if o.Problem != "" || !o.Returned || o.Blocked != 0 || o.Alive != 0 {
		return false
	}
	for _, r := range o.Rows {
		if r.Inflight != 0 {
			return false
		}
	}
	return true
}

// runFan applies the re-run policy: an observation that shows a leak, a request left in flight or a
// call that did not come back is repeated twice more and reported only if all three runs agree.
func runFan(in *FanInput) FanObs {
	o := runFanOnce(in)
	if fanClean(&o) {
		return o
	}
	o2 := runFanOnce(in)
	o3 := runFanOnce(in)
	if reflect.DeepEqual(o, o2) && reflect.DeepEqual(o2, o3) {
		return o
	}
	// not repeatable: report a clean run if there was one, and say so
	for _, x := range []FanObs{o, o2, o3} {
		if fanClean(&x) {
			x.Unrepeatable = true
			return x
		}
	}
	o3.Unrepeatable = true
	return o3
}
