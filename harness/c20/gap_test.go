package c20

// gapScheduler: the recording scheduler of the soak, plus the one thing the real scheduler does to
// its callers that a mock returning at once hides: the goroutine that called ScheduleJob can lose
// the processor as soon as the job is in the table (services/scheduler/advanced: the job's own
// goroutine is started inside ScheduleJob and, for a job whose time has come already - the current
// slot's attestation after a reorg refresh or a late start-up - runs at once), so the job can be
// started, finish, or be cancelled by a refresh before the caller executes its next statement.
//
// While `hold` is set, a caller of ScheduleJob for an attestation job is parked AFTER the underlying
// ScheduleJob has returned (job in the table, or refused) and BEFORE the result is handed back; it
// continues when the harness calls release().  The harness drives the job meanwhile (Fire, the
// attestation gate, CancelJob through the controller's refresh).  Parking inside the call is
// indistinguishable, for the caller, from being descheduled right after the call returned.

import (
	"context"
	"strings"
	"sync"
	"time"

	"github.com/attestantio/vouch/services/scheduler"

	"verifharness/mocks"
)

type gapScheduler struct {
	*mocks.RecScheduler
	mu     sync.Mutex
	hold   bool
	parked chan struct{} // closed by release(); callers parked on it
	nHeld  int           // callers parked so far (statistics)
}

func newGapScheduler(rec *mocks.RecScheduler) *gapScheduler {
	return &gapScheduler{RecScheduler: rec, parked: make(chan struct{})}
}

func (g *gapScheduler) setHold(on bool) {
	g.mu.Lock()
	g.hold = on
	g.mu.Unlock()
}

// release lets every parked caller continue.
func (g *gapScheduler) release() {
	g.mu.Lock()
	close(g.parked)
	g.parked = make(chan struct{})
	g.mu.Unlock()
}

func (g *gapScheduler) held() int {
	g.mu.Lock()
	defer g.mu.Unlock()
	return g.nHeld
}

func (g *gapScheduler) ScheduleJob(ctx context.Context, class string, name string, runtime time.Time, job scheduler.JobFunc) error {
	err := g.RecScheduler.ScheduleJob(ctx, class, name, runtime, job)
	g.mu.Lock()
	hold, ch := g.hold, g.parked
	if hold && strings.HasPrefix(name, "Attestations for slot ") {
		g.nHeld++
	} else {
		ch = nil
	}
	g.mu.Unlock()
	if ch != nil {
		select {
		case <-ch:
		case <-ctx.Done():
		}
	}
	return err
}
