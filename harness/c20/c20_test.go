// C20: long-run bookkeeping (memory) and fan-out goroutines of the real services, printed as
// Gallina cases for Check.C20.  See soak_test.go and fan_test.go for the two kinds of case.
package c20

import (
	"encoding/json"
	"fmt"
	"strings"
	"testing"
	"time"

	"github.com/rs/zerolog"

	. "verifharness/common"
)

type Input struct {
	Soak *SoakInput `json:"soak,omitempty"`
	Fan  *FanInput  `json:"fan,omitempty"`
	Jobs *JobsInput `json:"jobs,omitempty"`
}

type Observed struct {
	Soak *SoakObs `json:"soak,omitempty"`
	Fan  *FanObs  `json:"fan,omitempty"`
	Jobs *JobsObs `json:"jobs,omitempty"`
}

// ---------------------------------------------------------------------------------------------
// Gallina

func nList(xs []uint64) string {
	items := make([]string, len(xs))
	for i, x := range xs {
		items[i] = N(x)
	}
	return List(items)
}

func opTerm(o *Op) string {
	if o.K == "bid" {
		return App("XBid", N(o.S))
	}
	return App("XBase", baseOpTerm(o))
}

func baseOpTerm(o *Op) string {
	switch o.K {
	case "sched":
		return App("OSched", N(o.Cur), Bool(o.NotCur), nList(o.Slots))
	case "start":
		return App("OStart", N(o.S))
	case "finish":
		return App("OFinish", N(o.S), Bool(o.OK))
	case "refresh":
		r := None()
		if o.Resched {
			r = Some(nList(o.Slots))
		}
		return App("ORefresh", N(o.Cur), N(o.E), r, Bool(o.SubOK))
	case "subscribe":
		return App("OSubscribe", N(o.Cur), N(o.E), Bool(o.OK))
	case "head":
		return App("OHead", N(o.Cur), N(o.S))
	case "message":
		return App("OMessage", N(o.S), Bool(o.OK))
	case "aggregate":
		return App("OAggregate", N(o.S))
	case "auction":
		return App("OAuction", N(o.S))
	}
	return "OAggregate 0%N"
}

func rowTerm(r *Row) string {
	probes := make([]string, len(r.Probes))
	for i, p := range r.Probes {
		probes[i] = Record("p_slot", N(p.Slot), "p_has", Bool(p.Has), "p_job", Bool(p.Job))
	}
	bids := None()
	if r.Bids != nil {
		bids = Some(nList(*r.Bids))
	}
	return Record("r_sizes", nList(r.Sizes), "r_running", nList(r.Running), "r_probes", List(probes), "r_bids", bids)
}

func soakTerm(id uint64, in *SoakInput, obs *SoakObs) string {
	ops := make([]string, len(in.Ops))
	for i := range in.Ops {
		ops[i] = opTerm(&in.Ops[i])
	}
	rows := make([]string, len(obs.Rows))
	for i := range obs.Rows {
		rows[i] = rowTerm(&obs.Rows[i])
	}
	return Record("c_id", N(id), "c_body", App("Soak", N(in.SPE), List(ops), List(rows)))
}

func fanTerm(id uint64, in *FanInput, obs *FanObs) string {
	evs := make([]string, len(in.Evs))
	for i, ev := range in.Evs {
		switch {
		case ev.Timeout:
			evs[i] = "RvCallerEnd"
		case ev.Deadline:
			evs[i] = "RvDeadline"
		default:
			evs[i] = App("RvRelease", Nat(ev.I), Bool(ev.OK))
		}
	}
	hon := make([]string, in.N)
	for i := range hon {
		hon[i] = Bool(i < len(in.Honour) && in.Honour[i])
	}
	rows := make([]string, len(obs.Rows))
	for i, r := range obs.Rows {
		infl := r.Inflight
		if infl < 0 {
			infl = 0
		}
		rows[i] = Pair(Bool(r.Returned), N(uint64(infl)))
	}
	blocked, alive := obs.Blocked, obs.Alive
	if blocked < 0 {
		blocked = 0
	}
	if alive < 0 {
		alive = 0
	}
	// which context the requests carry, whether there is a deadline and an all-failed notice follow
	// from the kind (Check.C20.req_init)
	return Record("c_id", N(id), "c_body", App("Req", N(uint64(in.Kind)), Nat(in.N), List(hon), Nat(in.effCalls()),
		Bool(in.EndCaller), List(evs), List(rows), Bool(obs.Returned), Bool(obs.OK), N(uint64(blocked)), N(uint64(alive))))
}

// ---------------------------------------------------------------------------------------------
// generators

// genFan: providers answer (ok / error) in a random order; the caller's context may end at some
// point; providers that honour the context and were not released before the collector ended
// return its error (their release event, ok=false, stands after that point).
func genFan(r *Rand, kind int, family string) FanInput {
	n := r.Range(1, 5)
	switch family {
	case "all-at-once":
		n = r.Range(3, 6)
	case "single":
		n = 1
	}
	in := FanInput{Kind: kind, N: n, Honour: make([]bool, n)}
	order := r.Perm(n)
	oks := make([]bool, n)
	for i := range oks {
		switch family {
		case "all-at-once", "late-all-ok":
			oks[i] = true
		case "all-fail":
			oks[i] = false
		default:
			oks[i] = r.Chance(2, 3)
		}
		if family == "silent" || family == "mixed" {
			in.Honour[i] = r.Chance(1, 2)
		}
	}
	timeoutAt := -1 // position in the order before which the context ends
	switch family {
	case "timeout-first", "late-all-ok":
		timeoutAt = 0
	case "timeout-mid", "silent":
		timeoutAt = r.Range(0, n)
	case "mixed":
		if r.Chance(1, 2) {
			timeoutAt = r.Range(0, n)
		}
	case "all-fail":
		if kind != kindUnblind || r.Chance(1, 2) {
			timeoutAt = n
		}
	}
	if kind != kindUnblind && timeoutAt < 0 {
		// a `first` strategy whose providers all fail ends by its deadline
		allFail := true
		for _, ok := range oks {
			if ok {
				allFail = false
			}
		}
		if allFail {
			timeoutAt = n
		}
	}
	collectorDone := false
	var late []FanEv // honouring providers cut off by the end of the collector
	for pos, i := range order {
		if pos == timeoutAt {
			in.Evs = append(in.Evs, FanEv{Timeout: true})
			collectorDone = true
		}
		cancelled := collectorDone && (kind != kindUnblind || timeoutAt >= 0 && pos >= timeoutAt)
		if in.Honour[i] && cancelled {
			late = append(late, FanEv{I: i, OK: false})
			continue
		}
		in.Evs = append(in.Evs, FanEv{I: i, OK: oks[i]})
		if oks[i] && !collectorDone {
			collectorDone = true // first answer: the collector returns (and a `first` strategy cancels its context)
		}
	}
	if timeoutAt == n {
		in.Evs = append(in.Evs, FanEv{Timeout: true})
	}
	in.Evs = append(in.Evs, late...)
	return in
}

// genFanSilent: nodes that never answer.  Some providers honour their request context and are
// never released; the caller's context lives on after the call (as the attester's does, slot after
// slot); the script is run several times on the same service.  Either another provider answers,
// or (`first` strategies, family "deadline-silent") the strategy's own timeout passes first.
// What must hold: once the call is back (for unblinding: once the caller's context has ended)
// nothing is outstanding at a provider that would return when told to.
func genFanSilent(r *Rand, kind int, family string) FanInput {
	n := r.Range(2, 5)
	in := FanInput{Kind: kind, N: n, Honour: make([]bool, n), Calls: r.Range(1, 4)}
	deadline := family == "deadline-silent" && kind != kindUnblind
	nSilent := r.Range(1, n-1)
	if deadline && r.Chance(1, 3) {
		nSilent = n // no node answers at all
	}
	order := r.Perm(n)
	silent := map[int]bool{}
	for _, i := range order[:nSilent] {
		silent[i] = true
		in.Honour[i] = true
	}
	var rest []int
	for _, i := range order[nSilent:] {
		rest = append(rest, i)
		in.Honour[i] = r.Chance(1, 3)
	}
	ctxDone := false // the request context has ended
	if deadline {
		in.Evs = append(in.Evs, FanEv{Deadline: true})
		ctxDone = true
	}
	// unblinding: sometimes no other relay delivers; the call then comes back only when its caller gives up
	noneDelivers := kind == kindUnblind && r.Chance(1, 4)
	okAt := -1
	if !deadline && !noneDelivers {
		okAt = r.Range(0, len(rest)-1)
	}
	for pos, i := range rest {
		if in.Honour[i] && ctxDone {
			continue // cut off: it has returned the context's error
		}
		ok := pos == okAt || (!noneDelivers && r.Chance(1, 2))
		in.Evs = append(in.Evs, FanEv{I: i, OK: ok})
		if ok && kind != kindUnblind {
			ctxDone = true // first answer: the strategy ends the call's context
		}
	}
	if noneDelivers {
		in.Evs = append(in.Evs, FanEv{Timeout: true})
		in.Calls = 1
	} else if kind == kindUnblind {
		in.EndCaller = r.Chance(2, 3)
	} else {
		in.EndCaller = r.Chance(1, 4)
	}
	return in
}

func fanTags(in *FanInput) []string {
	tags := []string{"fan", "fan-" + kindNames[in.Kind]}
	succ, timeout := 0, false
	for _, ev := range in.Evs {
		if ev.Timeout {
			timeout = true
		} else if ev.OK {
			succ++
		}
	}
	if succ >= 3 {
		tags = append(tags, "fan-3plus-successes")
	}
	if succ == 0 {
		tags = append(tags, "fan-no-success")
		if in.Kind == kindUnblind && !timeout {
			tags = append(tags, "unblind-all-fail")
		}
	}
	if timeout {
		tags = append(tags, "fan-context-ends")
	}
	hasEv := map[int]bool{}
	for _, ev := range in.Evs {
		if ev.Deadline {
			tags = append(tags, "fan-deadline-passes")
		} else if !ev.Timeout {
			hasEv[ev.I] = true
		}
	}
	for i := 0; i < in.N; i++ {
		if !hasEv[i] && i < len(in.Honour) && in.Honour[i] {
			tags = append(tags, "fan-node-never-answers")
			break
		}
	}
	if in.effCalls() > 1 {
		tags = append(tags, "fan-several-calls-one-service")
	}
	if in.EndCaller {
		tags = append(tags, "fan-caller-ends-afterwards")
	}
	return tags
}

// genSoak walks a simulated chain slot by slot.
type soakGen struct {
	r        *Rand
	spe      uint64
	ops      []Op
	jobs     map[uint64]bool // generator's own view, only to keep the history inside the theorems' conditions
	running  map[uint64]bool
	maxStart uint64
	fam      map[string]bool
	// scheduler gap: operations left until the goroutines parked behind ScheduleJob continue
	gapLeft  int
	gapSlots map[uint64]bool // slots whose job was set up by a parked goroutine
	onlyPath string          // bid soaks: "" (both paths), "bid" or "auction"
}

// a slot number that never has a duty: `finish` of it does nothing in the code and in the model; it
// carries the release of the parked goroutines so that the state right after is observed
const noSuchSlot = uint64(1) << 40

func (g *soakGen) add(o Op) {
	if g.gapLeft > 0 {
		// what happens while the scheduling goroutines are parked
		switch o.K {
		case "start":
			if g.gapSlots[o.S] {
				g.fam["gap-job-started"] = true
			}
		case "finish":
			if g.gapSlots[o.S] {
				g.fam["gap-job-finished"] = true
			}
		case "refresh":
			for s := range g.gapSlots {
				if s/g.spe == o.E {
					g.fam["gap-job-cancelled"] = true
				}
			}
		}
	}
	g.ops = append(g.ops, o)
	if g.gapLeft > 0 && !o.Hold {
		g.gapLeft--
		if g.gapLeft == 0 {
			g.ops = append(g.ops, Op{K: "finish", S: noSuchSlot, Rel: true})
			g.gapSlots = map[uint64]bool{}
		}
	}
}

// openGap: the goroutines of the scheduling operation about to be added lose the processor behind
// ScheduleJob for the next few operations.
func (g *soakGen) openGap(o *Op, slots []uint64) {
	o.Hold = true
	if g.gapLeft == 0 {
		g.gapLeft = g.r.Range(1, 6)
	}
	if g.gapSlots == nil {
		g.gapSlots = map[uint64]bool{}
	}
	for _, s := range slots {
		g.gapSlots[s] = true
	}
	g.fam["scheduler-gap"] = true
}

func (g *soakGen) epochSlots(e uint64, from uint64, density int) []uint64 {
	var out []uint64
	for s := e * g.spe; s < (e+1)*g.spe; s++ {
		if s >= from && g.r.Chance(density, 4) {
			out = append(out, s)
		}
	}
	return out
}

func (g *soakGen) sched(cur uint64, notcur bool, slots []uint64) {
	// never set up again a slot whose job is executing, nor one that has already run
	var keep []uint64
	for _, s := range slots {
		if g.running[s] || (s <= g.maxStart && g.maxStart > 0) {
			continue
		}
		keep = append(keep, s)
	}
	o := Op{K: "sched", Cur: cur, NotCur: notcur, Slots: keep}
	if len(keep) > 0 && g.r.Chance(1, 3) {
		g.openGap(&o, keep)
	}
	g.add(o)
	for _, s := range keep {
		if s > cur || (s == cur && !notcur) {
			g.jobs[s] = true
		}
	}
}

// strayBid: a request for a bid (either path) for a slot far from the slot s the chain is at.
func (g *soakGen) strayBid(s uint64) {
	r := g.r
	var x uint64
	switch r.Range(0, 4) {
	case 0: // far future
		x = s + uint64(r.Range(1000, 10000000))
		g.fam["bid-stray-far-future"] = true
	case 1: // very far future (still far from the end of uint64)
		x = (uint64(1) << uint(r.Range(33, 61))) + uint64(r.Range(0, 1000))
		g.fam["bid-stray-far-future"] = true
	case 2: // beyond the window, not by much
		x = s + uint64(r.Range(33, 200))
		g.fam["bid-stray-future"] = true
	case 3: // far past
		if s <= 40 {
			x = 0
		} else {
			x = s - uint64(r.Range(33, int(min(s, 100000))))
		}
		g.fam["bid-stray-past"] = true
	default: // slot 0
		x = 0
		g.fam["bid-stray-past"] = true
	}
	kind, other := "bid", "auction"
	if r.Chance(1, 3) {
		kind, other = "auction", "bid"
	}
	if g.onlyPath != "" {
		kind, other = g.onlyPath, g.onlyPath
	}
	g.add(Op{K: kind, S: x})
	if r.Chance(1, 3) {
		g.add(Op{K: kind, S: x}) // asked again (the API: from the cache if it is still there)
	}
	if r.Chance(1, 3) {
		g.add(Op{K: other, S: s}) // and the slot we are at, again
	}
}

// genBidSoak: a run of the block relay alone: requests for bids slot after slot (proposal path and
// builder API), with requests for slots far from the chain's among them, then ordinary running for
// longer than the cache's window.
func genBidSoak(r *Rand) (SoakInput, []string) {
	g := &soakGen{r: r, spe: 4, jobs: map[uint64]bool{}, running: map[uint64]bool{}, fam: map[string]bool{"bid-soak": true}}
	base := uint64(r.Range(0, 5000))
	if r.Chance(1, 4) {
		base = uint64(1)<<32 + uint64(r.Range(0, 100000))
	}
	n := r.Range(45, 160)
	nStray := r.Range(0, 3)
	if r.Chance(1, 2) {
		nStray = 1
	}
	strayAt := map[int]bool{}
	for i := 0; i < nStray; i++ {
		if i == 0 {
			strayAt[r.Range(0, 8)] = true // early: a long ordinary run follows
		} else {
			strayAt[r.Range(0, n-1)] = true
		}
	}
	density := r.Range(1, 4)
	mode := r.Range(0, 3) // 0, 3: both paths mixed
	switch mode {
	case 1:
		g.fam["bid-api-only"] = true
		g.onlyPath = "bid"
	case 2:
		g.fam["bid-proposals-only"] = true
		g.onlyPath = "auction"
	}
	for i := 0; i < n; i++ {
		s := base + uint64(i)
		if strayAt[i] {
			g.strayBid(s)
		}
		if r.Chance(density, 4) {
			pick := r.Range(0, 2)
			switch mode {
			case 1: // a Vouch that only serves the builder API (validators it does not propose for)
				pick = 1
			case 2: // proposals only
				pick = 0
			}
			switch pick {
			case 0:
				g.add(Op{K: "auction", S: s})
			case 1:
				g.add(Op{K: "bid", S: s})
			default:
				g.add(Op{K: "auction", S: s})
				g.add(Op{K: "bid", S: s})
			}
			if r.Chance(1, 8) {
				g.add(Op{K: "bid", S: s + 1})
			}
		}
	}
	tags := []string{"soak"}
	for f := range g.fam {
		tags = append(tags, f)
	}
	return SoakInput{SPE: 4, Ops: g.ops}, tags
}

func genSoak(r *Rand, epochs int, spe uint64) (SoakInput, []string) {
	g := &soakGen{r: r, spe: spe, jobs: map[uint64]bool{}, running: map[uint64]bool{}, fam: map[string]bool{}}
	startEpoch := uint64(r.Range(0, 3))
	if r.Chance(1, 4) {
		startEpoch = uint64(r.Range(40, 2000))
	}
	outageEpoch := map[uint64]bool{}  // every attestation of the epoch fails (node outage)
	noDutyEpoch := map[uint64]bool{}  // no duty in the epoch
	silentEpoch := map[uint64]bool{}  // no head event during the epoch
	noSchedEpoch := map[uint64]bool{} // the epoch's preparation did not happen (duties fetch failed)
	for k := 0; k < epochs; k++ {
		e := startEpoch + uint64(k)
		switch {
		case r.Chance(1, 9):
			outageEpoch[e] = true
		case r.Chance(1, 10):
			noDutyEpoch[e] = true
		case r.Chance(1, 14):
			noSchedEpoch[e] = true
		}
		if r.Chance(1, 8) {
			silentEpoch[e] = true
		}
	}
	var pendingFinish []uint64 // slots left executing, to be finished later
	bidAPI := r.Chance(1, 2)   // this soak has requests from the builder API, stray slots included
	for k := 0; k < epochs; k++ {
		e := startEpoch + uint64(k)
		first := e * spe
		prep := first
		if k == 0 && r.Chance(1, 3) {
			// vouch started part-way through the epoch: the duties of what is left of it, the current
			// slot's included (its job is overdue when more than the attestation delay has passed)
			prep = first + uint64(r.Range(0, int(spe)-1))
			if prep > first {
				g.fam["late-start-up"] = true
			}
		}
		for s := prep; s < first+spe; s++ {
			cur := s
			if s == prep {
				// epoch preparation: subscriptions for the next epoch, attestations of this one
				g.add(Op{K: "subscribe", Cur: cur, E: e + 1, OK: !r.Chance(1, 12)})
				if k == 0 {
					g.add(Op{K: "subscribe", Cur: cur, E: e, OK: true})
				}
				switch {
				case noSchedEpoch[e]:
					g.fam["epoch-not-prepared"] = true
				case noDutyEpoch[e]:
					g.sched(cur, false, nil)
					g.fam["epoch-without-duty"] = true
				default:
					g.sched(cur, false, g.epochSlots(e, cur, 3))
				}
				if r.Chance(1, 10) {
					// duties of the next epoch set up early (as at start-up)
					g.sched(cur, true, g.epochSlots(e+1, cur, 2))
					g.fam["next-epoch-early"] = true
				}
			}
			// head event
			if !silentEpoch[e] {
				switch {
				case r.Chance(3, 4):
					g.add(Op{K: "head", Cur: cur, S: s})
				case r.Chance(1, 2) && s > 0:
					g.add(Op{K: "head", Cur: cur, S: s - 1}) // late block: not the current slot
					g.fam["late-head"] = true
				}
			} else {
				g.fam["epoch-without-head-events"] = true
			}
			// reorg: duties of this or the next epoch are withdrawn and fetched again
			if r.Chance(1, 7) {
				re := e
				if r.Chance(1, 2) {
					re = e + 1
				}
				o := Op{K: "refresh", Cur: cur, E: re, SubOK: !r.Chance(1, 6)}
				hadJob := g.jobs[cur]
				for x := re * spe; x < (re+1)*spe; x++ {
					delete(g.jobs, x)
				}
				if r.Chance(5, 6) {
					o.Resched = true
					for _, x := range g.epochSlots(re, cur, r.Range(1, 3)) {
						if g.running[x] || (x <= g.maxStart && g.maxStart > 0) {
							continue
						}
						o.Slots = append(o.Slots, x)
						if x > cur || (x == cur && hadJob) {
							g.jobs[x] = true
						}
					}
					g.fam["reorg-rescheduled"] = true
					if len(o.Slots) > 0 && r.Chance(1, 2) {
						// the rescheduled jobs (the current slot's is overdue) are in the table
						// before the scheduling goroutines continue
						g.openGap(&o, o.Slots)
						if hadJob && o.Slots[0] == cur {
							g.fam["gap-overdue-current-slot"] = true
						}
					}
				} else {
					g.fam["reorg-without-accounts"] = true
				}
				g.add(o)
			}
			// the attestation job of this slot
			if g.jobs[s] {
				delete(g.jobs, s)
				g.add(Op{K: "start", S: s})
				g.running[s] = true
				if s > g.maxStart {
					g.maxStart = s
				}
				if r.Chance(1, 5) {
					// something arrives while the job is executing
					if r.Chance(1, 2) {
						g.add(Op{K: "head", Cur: cur, S: s})
					} else {
						o := Op{K: "refresh", Cur: cur, E: e, Resched: true, SubOK: true}
						for x := first; x < first+spe; x++ {
							delete(g.jobs, x)
						}
						for _, x := range g.epochSlots(e, cur+1, 2) {
							o.Slots = append(o.Slots, x)
							g.jobs[x] = true
						}
						g.add(o)
						g.fam["reorg-while-attesting"] = true
					}
				}
				if r.Chance(1, 12) {
					pendingFinish = append(pendingFinish, s) // slow node: ends a slot or two later
					g.fam["slow-attestation"] = true
				} else {
					ok := !outageEpoch[e] && !r.Chance(1, 10)
					g.add(Op{K: "finish", S: s, OK: ok})
					delete(g.running, s)
					if !ok {
						g.fam["failed-attestation"] = true
					}
				}
			} else if r.Chance(1, 30) {
				g.add(Op{K: "start", S: s}) // a timer for a job that no longer exists: nothing happens
			}
			if outageEpoch[e] {
				g.fam["outage-epoch"] = true
			}
			// attestations that were left executing
			if len(pendingFinish) > 0 && r.Chance(1, 2) {
				x := pendingFinish[0]
				pendingFinish = pendingFinish[1:]
				g.add(Op{K: "finish", S: x, OK: !r.Chance(1, 3)})
				delete(g.running, x)
			}
			// sync committee message every slot, sometimes without a head root; aggregation is rare
			if r.Chance(9, 10) {
				ok := !r.Chance(1, 12)
				g.add(Op{K: "message", S: s, OK: ok})
				if r.Chance(1, 6) {
					g.add(Op{K: "aggregate", S: s})
					g.fam["aggregated-slot"] = true
				}
			}
			// block auction for a proposal
			if r.Chance(1, 5) {
				g.add(Op{K: "auction", S: s})
				if r.Chance(1, 8) {
					g.add(Op{K: "auction", S: s}) // asked twice (another parent)
				}
			}
			// the builder API: a beacon node asks for the bid of this slot or the next (answered from
			// the cache after our own auction, otherwise an auction on the spot)
			if bidAPI && r.Chance(1, 6) {
				g.add(Op{K: "bid", S: s + uint64(r.Range(0, 1))})
				g.fam["bid-api"] = true
			}
			// ... or for a slot that has nothing to do with the chain time (the slot is the caller's)
			if bidAPI && (r.Chance(1, 14) || (k == 0 && s == prep+1 && r.Chance(2, 3))) {
				g.strayBid(s)
			}
		}
	}
	for _, x := range pendingFinish {
		g.add(Op{K: "finish", S: x, OK: true})
	}
	if g.gapLeft > 0 {
		g.gapLeft = 0
		g.add(Op{K: "finish", S: noSuchSlot, Rel: true})
	}
	tags := []string{"soak"}
	for f := range g.fam {
		tags = append(tags, f)
	}
	if epochs >= 50 {
		tags = append(tags, "soak-50-epochs")
	}
	return SoakInput{SPE: spe, Ops: g.ops}, tags
}

// ---------------------------------------------------------------------------------------------

func TestC20(t *testing.T) {
	col := NewCollector("C20", "Check.C20",
		"a soak case is non-trivial when it has at least one started attestation job and one head event, or more than 20 requests for a builder bid; a fan case when at least one provider answers or the strategy's deadline passes; a jobs case when a job is scheduled")
	col.ShardSize = 25
	zerolog.SetGlobalLevel(zerolog.TraceLevel) // as vouch's main does (logging.go)
	rng := NewRand(Seed())
	n := EnvInt("VERIF_N", 300)

	addSoak := func(in *SoakInput, tags []string) {
		obs := runSoak(t, in)
		if obs.Problem != "" {
			col.Count("soak-problem:" + obs.Problem)
			tags = append(tags, "harness-problem")
		}
		starts, heads, bidReqs := 0, 0, 0
		for _, o := range in.Ops {
			col.Count("op-" + o.K)
			switch o.K {
			case "start":
				starts++
			case "head":
				heads++
			case "auction", "bid":
				bidReqs++
			}
		}
		for _, tg := range tags {
			if strings.HasPrefix(tg, "bid-") {
				col.Count("soak-" + tg)
			}
		}
		key, _ := json.Marshal(in)
		col.Add(Case{Term: soakTerm(col.NextID(), in, &obs), Key: string(key), Nontrivial: (starts > 0 && heads > 0) || bidReqs > 20, Tags: tags,
			Sample: map[string]any{"input": Input{Soak: in}, "observed": Observed{Soak: summarise(&obs)}}})
	}
	famTime := map[string]time.Duration{}
	addFan := func(in *FanInput, family string) {
		t0 := time.Now()
		obs := runFan(in)
		famTime[family] += time.Since(t0)
		tags := fanTags(in)
		if family != "" {
			tags = append(tags, "fan-family-"+family)
		}
		if obs.Problem != "" {
			col.Count("fan-problem:" + obs.Problem)
			tags = append(tags, "harness-problem")
		}
		if obs.Unrepeatable {
			col.Count("fan-unrepeatable")
			col.Note(fmt.Sprintf("unreproducible goroutine count for %s n=%d", kindNames[in.Kind], in.N))
		}
		answered := false
		for _, ev := range in.Evs {
			if !ev.Timeout {
				answered = true // a provider answers, or the strategy's deadline passes
			}
		}
		col.Count("fan-" + kindNames[in.Kind])
		key, _ := json.Marshal(in)
		col.Add(Case{Term: fanTerm(col.NextID(), in, &obs), Key: string(key), Nontrivial: answered, Tags: tags,
			Sample: map[string]any{"input": Input{Fan: in}, "observed": Observed{Fan: &obs}}})
	}

	addJobs := func(in *JobsInput, tags []string) {
		obs := runJobs(t, in)
		if obs.Problem != "" {
			col.Count("jobs-problem:" + obs.Problem)
			tags = append(tags, "harness-problem")
		}
		scheduled := false
		for _, o := range in.Ops {
			col.Count("jobop-" + o.K)
			if o.K == "schedule" {
				scheduled = true
			}
		}
		key, _ := json.Marshal(in)
		last := &JobsObs{Problem: obs.Problem}
		if len(obs.Rows) > 0 {
			last.Rows = obs.Rows[len(obs.Rows)-1:]
		}
		col.Add(Case{Term: jobsTerm(col.NextID(), in, &obs), Key: string(key), Nontrivial: scheduled, Tags: tags,
			Sample: map[string]any{"input": Input{Jobs: in}, "observed": Observed{Jobs: last}}})
	}

	phase := time.Now()
	lap := func(what string) {
		t.Logf("%s: %.1f s", what, time.Since(phase).Seconds())
		phase = time.Now()
	}
	for _, in := range LoadInputs[Input]("C20") {
		in := in
		switch {
		case in.Jobs != nil:
			addJobs(in.Jobs, []string{"jobs", "corpus"})
		case in.Soak != nil:
			addSoak(in.Soak, []string{"soak", "corpus"})
		case in.Fan != nil:
			addFan(in.Fan, "corpus")
		}
	}

	lap("corpus")
	if n > 0 {
		// fan-out: every function under test in every family
		families := []string{"all-at-once", "mixed", "timeout-first", "late-all-ok", "timeout-mid", "silent", "all-fail", "single", "random",
			"silent-node", "deadline-silent"}
		nFan := n / 2
		for i := 0; i < nFan; i++ {
			r := rng.Fork()
			kind := i % nKinds
			family := families[(i/nKinds)%len(families)]
			if kind == kindUnblind && (family == "silent") {
				family = "mixed"
			}
			if family == "silent-node" || family == "deadline-silent" {
				in := genFanSilent(r, kind, family)
				addFan(&in, family)
				continue
			}
			in := genFan(r, kind, family)
			if kind == kindUnblind {
				// a relay that never answers would keep the unblinding goroutines for ever by design
				// (there is deliberately no deadline); only answered relays are scripted
				for j := range in.Honour {
					in.Honour[j] = false
				}
				in = regenUnblind(r, in, family)
			}
			addFan(&in, family)
		}
		// nodes that never answer, under a caller context that lives on: some more of every function
		for i := 0; i < n/10; i++ {
			r := rng.Fork()
			family := []string{"silent-node", "deadline-silent"}[(i/nKinds)%2]
			in := genFanSilent(r, i%nKinds, family)
			addFan(&in, family)
		}
		lap("fan-out")
		t.Logf("fan-out by family: %v", famTime)
		// the real scheduler's job table
		nJobs := n / 6
		for i := 0; i < nJobs; i++ {
			r := rng.Fork()
			ops := r.Range(5, 40)
			if i%10 == 0 {
				ops = r.Range(200, 400)
			}
			in, tags := genJobs(r, ops)
			addJobs(&in, tags)
		}
		lap("jobs")
		// soaks: many short, some medium, a few long (50+ epochs)
		nSoak := n - nFan - nJobs
		long := 4
		if os := EnvInt("VERIF_LONG_SOAKS", -1); os >= 0 {
			long = os
		}
		for i := 0; i < nSoak; i++ {
			r := rng.Fork()
			spe := uint64(4)
			if r.Chance(1, 5) {
				spe = uint64(r.Range(2, 8))
			}
			epochs := r.Range(1, 4)
			switch {
			case i%25 == 0 && i/25 < long: // one long soak per shard of 25 cases
				epochs = r.Range(50, 60)
				spe = 4
			case i%5 == 0:
				epochs = r.Range(8, 16)
			}
			in, tags := genSoak(r, epochs, spe)
			addSoak(&in, tags)
		}
		// the block relay's cache of builder bids under requests for slots in any order
		for i := 0; i < n/25; i++ {
			in, tags := genBidSoak(rng.Fork())
			addSoak(&in, tags)
		}
	}
	lap("soaks")
	if err := col.Flush(); err != nil {
		t.Fatal(err)
	}
}

// regenUnblind rebuilds the event list of an unblinding scenario without context-honouring
// providers (every relay is released explicitly).
func regenUnblind(r *Rand, in FanInput, family string) FanInput {
	out := FanInput{Kind: in.Kind, N: in.N, Honour: make([]bool, in.N)}
	seen := map[int]bool{}
	for _, ev := range in.Evs {
		if ev.Timeout {
			out.Evs = append(out.Evs, ev)
			continue
		}
		if !seen[ev.I] {
			seen[ev.I] = true
			out.Evs = append(out.Evs, ev)
		}
	}
	for i := 0; i < in.N; i++ {
		if !seen[i] {
			out.Evs = append(out.Evs, FanEv{I: i, OK: false})
		}
	}
	_ = family
	_ = r
	return out
}

// summarise keeps replay files small: the last row and the first row that looks wrong are enough
// for a reader; the full observation is in the case term.
func summarise(o *SoakObs) *SoakObs {
	s := &SoakObs{Problem: o.Problem}
	if len(o.Rows) > 0 {
		last := o.Rows[len(o.Rows)-1]
		for i := len(o.Rows) - 1; i >= 0 && last.Bids == nil; i-- {
			last.Bids = o.Rows[i].Bids
		}
		s.Rows = []Row{last}
	}
	return s
}

var _ = strings.Contains
