package c20

import (
	"fmt"
	"os"
	"runtime"
	"testing"
	"github.com/rs/zerolog"
)

func TestDebugFan(t *testing.T) {
	if os.Getenv("C20_DEBUG") == "" {
		t.Skip()
	}
	zerolog.SetGlobalLevel(zerolog.TraceLevel)
	in := &FanInput{Kind: kindUnblind, N: 3, Honour: []bool{false, false, false}, Evs: []FanEv{{I: 0, OK: true}, {I: 1, OK: true}, {I: 2, OK: true}}}
	o := runFanOnce(in)
	fmt.Printf("%+v\n", o)
	buf := make([]byte, 1<<20)
	n := runtime.Stack(buf, true)
	fmt.Println(string(buf[:n]))
}
