package c20

// Jobs: the REAL scheduler (services/scheduler/advanced) through its public interface, inside a
// synctest bubble (fake time).  After every operation (and synctest.Wait) ListJobs and the ids
// whose job function has run are read.  Operations happen at quiescence, so a timer never races
// an explicit RunJob / CancelJob here (C02 covers those ties).

import (
	"context"
	"fmt"
	"sort"
	"strconv"
	"strings"
	"sync"
	"testing"
	"testing/synctest"
	"time"

	nullmetrics "github.com/attestantio/vouch/services/metrics/null"
	advancedscheduler "github.com/attestantio/vouch/services/scheduler/advanced"
	"github.com/rs/zerolog"
	"github.com/sasha-s/go-deadlock"

	. "verifharness/common"
)

type JobOp struct {
	K  string `json:"k"` // schedule | cancel | run | advance
	ID uint64 `json:"id,omitempty"`
	Ms uint64 `json:"ms,omitempty"` // schedule: delay from now; advance: time that passes
}

type JobsInput struct {
	Ops []JobOp `json:"ops"`
}

type JobsRow struct {
	Table []uint64 `json:"table"`
	Runs  []uint64 `json:"runs"`
}

type JobsObs struct {
	Rows    []JobsRow `json:"rows"`
	Problem string    `json:"problem,omitempty"`
}

func jobName(id uint64) string { return fmt.Sprintf("job-%d", id) }

func runJobs(t *testing.T, in *JobsInput) (obs JobsObs) {
	deadlock.Opts.Disable = true
	synctest.Test(t, func(t *testing.T) {
		defer func() {
			if r := recover(); r != nil {
				obs.Problem = "panic: " + fmt.Sprint(r)
			}
		}()
		ctx, cancel := context.WithCancel(context.Background())
		sched, err := advancedscheduler.New(ctx, advancedscheduler.WithLogLevel(zerolog.Disabled), advancedscheduler.WithMonitor(nullmetrics.New()))
		if err != nil {
			obs.Problem = err.Error()
			cancel()
			return
		}
		var mu sync.Mutex
		var runs []uint64
		for _, op := range in.Ops {
			id := op.ID
			switch op.K {
			case "schedule":
				_ = sched.ScheduleJob(ctx, "c20", jobName(id), time.Now().Add(time.Duration(op.Ms)*time.Millisecond), func(context.Context) {
					mu.Lock()
					runs = append(runs, id)
					mu.Unlock()
				})
			case "cancel":
				_ = sched.CancelJob(ctx, jobName(id))
			case "run":
				_ = sched.RunJob(ctx, jobName(id))
			case "advance":
				time.Sleep(time.Duration(op.Ms) * time.Millisecond)
			}
			synctest.Wait()
			row := JobsRow{Table: []uint64{}, Runs: []uint64{}}
			for _, name := range sched.ListJobs(ctx) {
				if v, err := strconv.ParseUint(strings.TrimPrefix(name, "job-"), 10, 64); err == nil {
					row.Table = append(row.Table, v)
				}
			}
			sort.Slice(row.Table, func(i, j int) bool { return row.Table[i] < row.Table[j] })
			mu.Lock()
			row.Runs = append(row.Runs, runs...)
			mu.Unlock()
			sort.Slice(row.Runs, func(i, j int) bool { return row.Runs[i] < row.Runs[j] })
			obs.Rows = append(obs.Rows, row)
		}
		cancel() // every job goroutine still waiting leaves through its ctx.Done() branch
		synctest.Wait()
	})
	return obs
}

func jobsTerm(id uint64, in *JobsInput, obs *JobsObs) string {
	ops := make([]string, len(in.Ops))
	for i, o := range in.Ops {
		switch o.K {
		case "schedule":
			ops[i] = App("JSchedule", N(o.ID), N(o.Ms))
		case "cancel":
			ops[i] = App("JCancel", N(o.ID))
		case "run":
			ops[i] = App("JRun", N(o.ID))
		default:
			ops[i] = App("JAdvance", N(o.Ms))
		}
	}
	rows := make([]string, len(obs.Rows))
	for i, r := range obs.Rows {
		rows[i] = Pair(nList(r.Table), nList(r.Runs))
	}
	return Record("c_id", N(id), "c_body", App("Jobs", List(ops), List(rows)))
}

// genJobs: a few names scheduled again and again at various distances, run early, cancelled, left
// to their timers; "burst" schedules many jobs for the same instant.
func genJobs(r *Rand, n int) (JobsInput, []string) {
	var in JobsInput
	names := uint64(r.Range(2, 7))
	fam := map[string]bool{}
	for i := 0; i < n; i++ {
		switch r.Intn(10) {
		case 0, 1, 2, 3:
			ms := uint64(r.Range(1, 40))
			if r.Chance(1, 8) {
				ms = 0
				fam["jobs-immediate"] = true
			}
			in.Ops = append(in.Ops, JobOp{K: "schedule", ID: uint64(r.Intn(int(names))), Ms: ms})
		case 4:
			in.Ops = append(in.Ops, JobOp{K: "cancel", ID: uint64(r.Intn(int(names)))})
			fam["jobs-cancel"] = true
		case 5:
			in.Ops = append(in.Ops, JobOp{K: "run", ID: uint64(r.Intn(int(names)))})
			fam["jobs-run-early"] = true
		case 6:
			if r.Chance(1, 3) {
				ms := uint64(r.Range(1, 20))
				for k := uint64(0); k < names; k++ {
					in.Ops = append(in.Ops, JobOp{K: "schedule", ID: k, Ms: ms})
				}
				fam["jobs-burst-same-instant"] = true
			}
		default:
			in.Ops = append(in.Ops, JobOp{K: "advance", Ms: uint64(r.Range(1, 30))})
		}
	}
	in.Ops = append(in.Ops, JobOp{K: "advance", Ms: 50})
	tags := []string{"jobs"}
	for f := range fam {
		tags = append(tags, f)
	}
	return in, tags
}
