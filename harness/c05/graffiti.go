// The bytes of the graffiti: a graffiti provider that hands back a text of any length, possibly with the
// {{CLIENT}} placeholder, and a proposal provider that is (or is not) a NodeClientProvider whose node
// calls itself anything at all.
package c05

import (
	"context"
	"errors"
	"math/big"
	"strings"

	eth2client "github.com/attestantio/go-eth2-client"
	"github.com/attestantio/go-eth2-client/api"

	. "verifharness/common"
)

const placeholder = "{{CLIENT}}"

// isNodeClientProvider: the proposal provider the service is constructed with implements NodeClient
func isNodeClientProvider(in *Input) bool { return in.NodeClient == "err" || in.NodeClient == "ok" }

// rtClient is the router as a proposal provider that also is a consensusclient.NodeClientProvider
type rtClient struct{ *router }

func (r rtClient) NodeClient(ctx context.Context) (*api.Response[string], error) {
	return r.of(ctx).nodeClient(ctx)
}

func proposalProvider(rt *router, head *Input) eth2client.ProposalProvider {
	if isNodeClientProvider(head) {
		return rtClient{rt}
	}
	return rt
}

// the node's answer: at once; like a real client, the context's error when the context is over
func (w *world) nodeClient(ctx context.Context) (*api.Response[string], error) {
	w.rec.mu.Lock()
	w.rec.nodeClient++
	w.rec.mu.Unlock()
	if err := ctx.Err(); err != nil {
		return nil, err
	}
	if w.in.NodeClient != "ok" {
		return nil, errors.New("scripted node client failure")
	}
	return &api.Response[string]{Data: w.in.NodeClientVal, Metadata: map[string]any{}}, nil
}

// bigGraffiti completes the proposal request just recorded when its graffiti is not a small integer
func (r *recorder) bigGraffiti(g []byte) {
	if get(g) != Unknown {
		return
	}
	r.mu.Lock()
	if n := len(r.events); n > 0 && r.events[n-1].Kind == "proposal" {
		r.events[n-1].Big = new(big.Int).SetBytes(g).String()
	}
	r.mu.Unlock()
}

func bytesTerm(s string) string {
	items := make([]string, len(s))
	for i := 0; i < len(s); i++ {
		items[i] = N(uint64(s[i]))
	}
	return List(items)
}

// the graffiti of the environment as the model's source: resolve_graffiti (in the model) turns the text,
// the placeholder and the node's answer into the value Propose knows
func graffitiSourceTerm(in *Input) string {
	nc := "NCNone"
	switch in.NodeClient {
	case "err":
		nc = "NCErr"
	case "ok":
		nc = App("NCOk", bytesTerm(in.NodeClientVal))
	}
	return App("resolve_graffiti", App("GSBytes", bytesTerm(*in.GraffitiText), nc))
}

var graffitiTexts = []string{
	"{{CLIENT}}", "vouch {{CLIENT}}", "{{CLIENT}} via vouch", "{{CLIENT}}/{{CLIENT}}", "a{{CLIENT}}b{{CLIENT}}c",
	"{{CLIENT}", "{CLIENT}}", "{{{{CLIENT}}}}", "{{client}}", "{{CLIENT}}{{CLIENT}}{{CLIENT}}{{CLIENT}}",
	"0123456789012345678901234567{{CLIENT}}", "01234567890123456789012345678901{{CLIENT}}", "", "x",
	"exactly thirty-two bytes long ...", "a graffiti that is longer than the thirty-two bytes there are",
}

var clientStrings = []string{
	"Lighthouse/v4.5.0-441fc16/x86_64-linux", "teku/v23.10.0/linux-x86_64/-eclipseadoptium-openjdk64bitservervm-java-17",
	"Prysm/v4.1.1 (linux amd64)", "Nimbus/v23.10.1-8b07f4-stateofus", "Lodestar/v1.12.0/c1a1b4a",
	"Grandine 0.4.0", "", "/", "//", "Nimbus", "name/", "/v1.0", " ", "-", "v1", "multi", "{{CLIENT}}", "{{CLIENT}}/{{CLIENT}}",
	"a/b/c/d/e/f/g", strings.Repeat("L", 33), strings.Repeat("long/", 60), "ünïcode/v1", "tab\tand\nnewline",
}

func randomText(r *Rand, n int) string {
	const alphabet = "abcdefghijklmnopqrstuvwxyzABCDEFGHIJKLMNOPQRSTUVWXYZ0123456789 /-+._{}"
	b := make([]byte, n)
	for i := range b {
		b[i] = alphabet[r.Intn(len(alphabet))]
	}
	return string(b)
}

// genGraffitiText: the graffiti provider's answer as a text (1 "ok" answer in 3), and the node behind
// the proposal provider.  The usual client strings ("Name/vX.Y.Z/platform") and the unusual ones (no '/',
// empty, only '/', longer than the graffiti, the placeholder itself, random).
func genGraffitiText(r *Rand, in *Input) {
	// the proposal provider is a NodeClientProvider 3 times in 4, whatever the graffiti is
	switch k := r.Intn(8); {
	case k < 2:
		in.NodeClient = ""
	case k < 3:
		in.NodeClient = "err"
	default:
		in.NodeClient = "ok"
		if r.Chance(1, 5) {
			in.NodeClientVal = randomText(r, r.Range(0, 40))
		} else {
			in.NodeClientVal = clientStrings[r.Intn(len(clientStrings))]
		}
	}
	if in.Graffiti != "ok" || !r.Chance(1, 3) {
		return
	}
	var text string
	switch k := r.Intn(10); {
	case k < 7:
		text = graffitiTexts[r.Intn(len(graffitiTexts))]
	case k < 9:
		// a random text around a placeholder
		text = randomText(r, r.Range(0, 12)) + placeholder + randomText(r, r.Range(0, 12))
	default:
		text = randomText(r, r.Range(0, 48))
	}
	in.GraffitiText = &text
}

func graffitiTags(in *Input) []string {
	if in.Graffiti != "ok" || in.GraffitiText == nil {
		return nil
	}
	tags := []string{"graffiti-text"}
	if strings.Contains(*in.GraffitiText, placeholder) {
		tags = append(tags, "graffiti-text:placeholder")
		switch {
		case in.NodeClient == "ok" && !strings.Contains(in.NodeClientVal, "/"):
			tags = append(tags, "graffiti-text:placeholder:client-without-slash")
		case in.NodeClient == "ok":
			tags = append(tags, "graffiti-text:placeholder:client-with-slash")
		case in.NodeClient == "err":
			tags = append(tags, "graffiti-text:placeholder:node-client-fails")
		default:
			tags = append(tags, "graffiti-text:placeholder:no-node-client-provider")
		}
	}
	if len(*in.GraffitiText) > 32 {
		tags = append(tags, "graffiti-text:longer-than-32")
	}
	return tags
}
