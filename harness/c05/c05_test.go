// C05: drives the real services/beaconblockproposer/standard.Service (Prepare, then Propose) wired
// to the real services/signer/standard.Service, with scripted recording accounts (remote signers),
// accounts / domain / graffiti / proposal providers, auctioneer, relays and submitter, one case per
// testing/synctest bubble, and prints each case with everything the environment was asked as a
// Gallina case for Check.C05.
package c05

import (
	"context"
	"fmt"
	"io"
	"sort"
	"testing"
	"testing/synctest"
	"time"

	"github.com/attestantio/go-eth2-client/spec/phase0"
	"github.com/attestantio/vouch/services/beaconblockproposer"
	standardproposer "github.com/attestantio/vouch/services/beaconblockproposer/standard"
	nullmetrics "github.com/attestantio/vouch/services/metrics/null"
	standardsigner "github.com/attestantio/vouch/services/signer/standard"
	"github.com/rs/zerolog"
	zerologger "github.com/rs/zerolog/log"

	. "verifharness/common"
	"verifharness/mocks"
)

// ---------------------------------------------------------------------------------------------
// Input.

type Hdr struct {
	Slot     uint64 `json:"slot"`
	Proposer uint64 `json:"proposer"`
	Parent   uint64 `json:"parent"`
	State    uint64 `json:"state"`
	Body     uint64 `json:"body"`
}

type Proposal struct {
	Version     uint64 `json:"version"`
	Blinded     bool   `json:"blinded"`
	Block       *Hdr   `json:"block"`
	BodyPresent bool   `json:"body_present"`
	Blobs       uint64 `json:"blobs"`
}

type SBlock struct {
	Hdr   *Hdr   `json:"hdr"`
	Sig   uint64 `json:"sig"`
	Blobs uint64 `json:"blobs"`
}

type Req struct {
	Version uint64 `json:"version"`
	Conts   []Cont `json:"conts"`
}

type UOut struct {
	Kind  string  `json:"kind"` // ok | echo | 400 | err | hang | nil
	Lat   uint64  `json:"lat"`
	Block *SBlock `json:"block,omitempty"`
	Blobs uint64  `json:"blobs,omitempty"`
}

type Relay struct {
	Can    bool   `json:"can"`
	Script []UOut `json:"script"`
}

type AccEntry struct {
	Index   uint64  `json:"index"`
	Account *uint64 `json:"account"`
}

type Input struct {
	Slot      uint64 `json:"slot"`
	Validator uint64 `json:"validator"`
	// the duty before Prepare (filled in by hand when DoPrepare is false)
	DoPrepare  bool    `json:"do_prepare"`
	PreAccount *uint64 `json:"pre_account"`
	PreRandao  uint64  `json:"pre_randao"`
	// configuration
	SPE        uint64 `json:"spe"`
	UnblindAll bool   `json:"unblind_all"`
	Boost      uint64 `json:"boost"`
	Trace      bool   `json:"trace,omitempty"`
	Plain      bool   `json:"plain,omitempty"` // the accounts are local keys (handed a signing root), not remote protecting signers
	// environment
	Accounts    *[]AccEntry `json:"accounts"` // nil: the accounts provider fails
	DomRandao   bool        `json:"dom_randao"`
	SigRandao   *uint64     `json:"sig_randao"`
	Graffiti    string      `json:"graffiti"` // none | err | ok
	GraffitiVal uint64      `json:"graffiti_val"`
	// the graffiti as a text of any length (instead of the 32 bytes of graffiti_val), which may hold
	// the {{CLIENT}} placeholder; node_client: is the proposal provider a NodeClientProvider (a matter
	// of the service's construction: the first duty's for a whole history), and what does the node
	// answer: none | err | ok (with node_client_val, any string)
	GraffitiText  *string `json:"graffiti_text,omitempty"`
	NodeClient    string  `json:"node_client,omitempty"`
	NodeClientVal string  `json:"node_client_val,omitempty"`
	Head        uint64      `json:"head"`
	Auction     string      `json:"auction"` // none | err | ok
	Winners     []int       `json:"winners"`
	All         []int       `json:"all"`
	Proposal    *Proposal   `json:"proposal"` // nil: the beacon node fails
	DomBlock    bool        `json:"dom_block"`
	SigBlock    *uint64     `json:"sig_block"`
	Relays      []Relay     `json:"relays"`
	SubmitOK    bool        `json:"submit_ok"`
	Deadline    uint64      `json:"deadline"`
	// how long the accounts provider and the account's RANDAO signing take (ms of fake time; they
	// matter when Prepare calls of several duties overlap)
	AccLat  uint64 `json:"acc_lat,omitempty"`
	SignLat uint64 `json:"sign_lat,omitempty"`
	// how long the providers asked by Propose take to give their answers (ms of fake time); like real
	// clients they give up with the context's error if the context ends first.  hangMs (or more) is
	// a provider that never answers.
	LatGraffiti uint64   `json:"lat_graffiti,omitempty"`
	LatAuction  uint64   `json:"lat_auction,omitempty"`
	LatProposal uint64   `json:"lat_proposal,omitempty"`
	LatDomain   uint64   `json:"lat_domain,omitempty"`
	LatSign     uint64   `json:"lat_sign,omitempty"`
	LatSubmit   uint64   `json:"lat_submit,omitempty"`
	Tags        []string `json:"tags,omitempty"`
	// A history on ONE service instance: the further duties this same proposer service (and signer)
	// handles, each with its own environment answers, and the order of the Prepare / Propose calls.
	// Duty 0 is this input, duty k is Others[k-1].  What belongs to the service's construction (spe,
	// unblind_all, boost, plain, trace, whether a graffiti provider / an auctioneer is configured) is
	// this input's for every duty.  An empty Order is: each duty in turn, Prepare (if do_prepare)
	// then Propose.
	Others []Input `json:"others,omitempty"`
	Order  []Op    `json:"order,omitempty"`
	Shape  string  `json:"shape,omitempty"` // how the generator related the duties and ordered the calls (a label)
}

type Op struct {
	Duty int    `json:"duty"`
	Op   string `json:"op"` // prepare | propose
	// a Prepare call made in its own goroutine: the next call of the order starts without waiting for
	// it (the controller prepares all the duties of an epoch at once); every such call has returned
	// before the next call without this flag starts
	Go bool `json:"go,omitempty"`
}

type Obs struct {
	PrepEvents []Event  `json:"prep_events"`
	PrepOK     bool     `json:"prep_ok"`
	// the duty as it is handed to Propose: the account and the RANDAO reveal it carries
	PostAccount *uint64 `json:"post_account"`
	PostRandao  uint64  `json:"post_randao"`
	Panic      bool     `json:"panic"`
	PanicMsg   string   `json:"panic_msg,omitempty"`
	Events     []Event  `json:"events"`
	Calls      [][]Call `json:"calls"`
	Submit     *Submit  `json:"submit"`
	// Calls[..].Start, Submit.At and Ret are in ms after T0, the instant the last sequential answer
	// (graffiti, auction, proposal, domain, signature) was given; Ret is the instant Propose returned
	// or, if it submitted, handed the block to the submitter; RetAbs the instant it returned
	Ret    uint64 `json:"ret"`
	T0     uint64 `json:"t0"`
	RetAbs uint64 `json:"ret_abs"`
	Cut    Cuts   `json:"cut"`
	SubCut bool   `json:"sub_cut"`
	// how often the node was asked for its client string (not compared; counted in the evidence)
	NodeClientCalls int `json:"node_client_calls,omitempty"`
}

// a provider that never answers (until the context is done)
const hangMs = 10000000

// seqEnd: the instant the signature is back if Propose hands its own context to every step, and
// whether no answer is cut before (the forward pass of the model's cuts_of)
func seqEnd(in *Input) (uint64, bool) {
	lats := []uint64{0, 0, in.LatProposal, in.LatDomain, in.LatSign}
	if in.Graffiti != "none" {
		lats[0] = in.LatGraffiti
	}
	if in.Auction != "none" {
		lats[1] = in.LatAuction
	}
	t, ok := uint64(0), true
	for _, l := range lats {
		if t+l >= in.Deadline {
			ok = false
			if t < in.Deadline {
				t = in.Deadline
			}
			continue
		}
		t += l
	}
	return t, ok
}

// no answer of a step is due at the very instant the context ends
func stepTieFree(in *Input) bool {
	lats := []uint64{0, 0, in.LatProposal, in.LatDomain, in.LatSign}
	if in.Graffiti != "none" {
		lats[0] = in.LatGraffiti
	}
	if in.Auction != "none" {
		lats[1] = in.LatAuction
	}
	t := uint64(0)
	for _, l := range lats {
		if t < in.Deadline && t+l == in.Deadline {
			return false
		}
		if t+l >= in.Deadline {
			if t < in.Deadline {
				t = in.Deadline
			}
			continue
		}
		t += l
	}
	return true
}

// ---------------------------------------------------------------------------------------------
// Running one case.

// every finishing time of every relay running undisturbed (three tries, 250 ms apart, a hanging
// call returning when the deadline passes): the generator keeps these pairwise distinct across
// relays and away from the deadline, so that no two goroutines act at one fake instant.
func finishTimes(in *Input) [][]uint64 {
	res := make([][]uint64, len(in.Relays))
	t0, _ := seqEnd(in)
	for i, r := range in.Relays {
		start := t0 // the relays are asked when the signature is there
		for k := 0; k < 3; k++ {
			out := UOut{Kind: "err"}
			if k < len(r.Script) {
				out = r.Script[k]
			}
			f := start + out.Lat
			if out.Kind == "hang" {
				f = start
				if in.Deadline > f {
					f = in.Deadline
				}
				f += out.Lat
			}
			res[i] = append(res[i], f)
			if out.Kind != "err" && out.Kind != "hang" {
				break
			}
			start = f + 250
		}
	}
	return res
}

func tieFree(in *Input) bool {
	if !stepTieFree(in) {
		return false
	}
	fts := finishTimes(in)
	// two relays' calls returning at one instant (kept apart everywhere, though since the repair of
	// unblindProposal only a return at the instant of the first delivery is left to Go's scheduler)
	seen := map[uint64]bool{}
	for _, fs := range fts {
		for _, f := range fs {
			if seen[f] {
				return false
			}
			seen[f] = true
		}
	}
	// the instant a relay goroutine gives up (250 ms after a last retryable failure) is not the deadline
	for i, fs := range fts {
		k := len(fs) - 1
		end := fs[k]
		if k >= len(in.Relays[i].Script) || in.Relays[i].Script[k].Kind == "err" || in.Relays[i].Script[k].Kind == "hang" {
			end += 250
		}
		if end == in.Deadline {
			return false
		}
	}
	for i, fs := range fts {
		for k, f := range fs {
			if k >= len(in.Relays[i].Script) {
				continue
			}
			if kind := in.Relays[i].Script[k].Kind; kind != "ok" && kind != "echo" {
				continue
			}
			// relay i would hand over a block at f: not at the deadline, and no other relay's call starts then
			if f == in.Deadline {
				return false
			}
			for j, gs := range fts {
				if j == i {
					continue
				}
				for _, g := range gs {
					if g+250 == f {
						return false
					}
				}
			}
		}
	}
	return true
}

func horizon(in *Input) time.Duration {
	max := uint64(0)
	for _, fs := range finishTimes(in) {
		for _, f := range fs {
			if f > max {
				max = f
			}
		}
	}
	if in.Deadline > max {
		max = in.Deadline
	}
	// a submission that takes its time, relays started later than planned (a tree under test may
	// take longer over the sequential steps than the model)
	max += in.Deadline
	return time.Duration(max+2000) * time.Millisecond
}

// duties returns the duties of the history: the input itself and its Others, the latter brought to
// the service-level configuration of the former (one service instance has one configuration).
func duties(in *Input) []*Input {
	ds := []*Input{in}
	for i := range in.Others {
		o := &in.Others[i]
		o.SPE, o.UnblindAll, o.Boost, o.Plain, o.Trace = in.SPE, in.UnblindAll, in.Boost, in.Plain, in.Trace
		if in.Graffiti == "none" {
			o.Graffiti = "none"
		} else if o.Graffiti == "none" {
			o.Graffiti = "ok"
		}
		if in.Auction == "none" {
			o.Auction = "none"
		} else if o.Auction == "none" {
			o.Auction = "err"
		}
		// one service instance has one proposal provider, and the node behind it is one client: it calls
		// itself the same for every duty (a client string remembered by the service is no fault)
		o.NodeClient, o.NodeClientVal = in.NodeClient, in.NodeClientVal
		o.Others, o.Order = nil, nil
		ds = append(ds, o)
	}
	return ds
}

// schedule is the order of the calls: in.Order when it is a valid one (every duty proposed exactly
// once, prepared exactly once before that iff do_prepare), otherwise duty after duty.
func schedule(in *Input, ds []*Input) []Op {
	valid := len(in.Order) > 0
	prepared, proposed := make([]int, len(ds)), make([]int, len(ds))
	for _, op := range in.Order {
		if op.Duty < 0 || op.Duty >= len(ds) {
			valid = false
			break
		}
		switch op.Op {
		case "prepare":
			if proposed[op.Duty] > 0 {
				valid = false
			}
			prepared[op.Duty]++
		case "propose":
			proposed[op.Duty]++
			if op.Go {
				valid = false
			}
		default:
			valid = false
		}
	}
	for k, d := range ds {
		want := 0
		if d.DoPrepare {
			want = 1
		}
		if proposed[k] != 1 || prepared[k] != want {
			valid = false
		}
	}
	if valid {
		return in.Order
	}
	var ops []Op
	for k, d := range ds {
		if d.DoPrepare {
			ops = append(ops, Op{Duty: k, Op: "prepare"})
		}
		ops = append(ops, Op{Duty: k, Op: "propose"})
	}
	return ops
}

func accountID(a any) *uint64 {
	switch x := a.(type) {
	case nil:
		return nil
	case *account:
		if x == nil {
			return nil
		}
		return u(x.id)
	case *plainAccount:
		if x == nil {
			return nil
		}
		return u(x.id)
	}
	return u(Unknown)
}

// overlapBroken is set when overlapping Prepare calls once failed to return (a deadlock in the
// tree under test): later histories make their Prepare calls one after the other.
var overlapBroken bool

// runSession runs the whole history of the input on one proposer service (and one signer) and
// returns what was observed for each duty.  Prepare calls flagged to overlap (they open the order)
// are made first, in goroutines of their own in real time -- goroutines waiting for a sync.Mutex
// would stall the fake clock of a bubble for ever -- under a watchdog; every other call is made
// inside one synctest bubble, one at a time.
func runSession(t *testing.T, in *Input) []Obs {
	ds := duties(in)
	ops := schedule(in, ds)
	obs := make([]Obs, len(ds))
	done := make([]bool, len(ds))
	for k := range obs {
		obs[k].PrepOK = true
	}
	together := 0
	for together < len(ops) && ops[together].Go && ops[together].Op == "prepare" {
		together++
	}
	if overlapBroken {
		together = 0
	}

	var (
		svc      *standardproposer.Service
		rt       *router
		worlds   []*world
		dutyObjs []*beaconblockproposer.Duty
	)
	ctx0 := context.Background()
	setup := func() {
		tab := &bodyTable{m: map[phase0.Root]uint64{}}
		rt = &router{head: in}
		worlds = make([]*world, len(ds))
		for k, d := range ds {
			worlds[k] = newWorld(d, tab)
		}
		rt.cur = worlds[0]
		level := zerolog.Disabled
		if in.Trace {
			level = zerolog.TraceLevel
		}
		signer, err := standardsigner.New(ctx0,
			standardsigner.WithLogLevel(level),
			standardsigner.WithMonitor(nullmetrics.New()),
			standardsigner.WithClientMonitor(nullmetrics.New()),
			standardsigner.WithSpecProvider(rt),
			standardsigner.WithDomainProvider(rt),
		)
		if err != nil {
			t.Fatalf("signer constructor: %v", err)
		}
		params := []standardproposer.Parameter{
			standardproposer.WithLogLevel(level),
			standardproposer.WithMonitor(nullmetrics.New()),
			standardproposer.WithChainTime(mocks.NewChainTime(in.SPE)),
			standardproposer.WithProposalDataProvider(proposalProvider(rt, in)),
			standardproposer.WithValidatingAccountsProvider(rt),
			standardproposer.WithExecutionChainHeadProvider(rt),
			standardproposer.WithProposalSubmitter(rt),
			standardproposer.WithRANDAORevealSigner(signer),
			standardproposer.WithBeaconBlockSigner(signer),
			standardproposer.WithBlobSidecarSigner(signer),
			standardproposer.WithUnblindFromAllRelays(in.UnblindAll),
			standardproposer.WithBuilderBoostFactor(in.Boost),
		}
		if in.Graffiti != "none" {
			params = append(params, standardproposer.WithGraffitiProvider(rGraffiti{rt}))
		}
		if in.Auction != "none" {
			params = append(params, standardproposer.WithBlockAuctioneer(rAuctioneer{rt}))
		}
		svc, err = standardproposer.New(ctx0, params...)
		if err != nil {
			t.Fatalf("proposer constructor: %v", err)
		}
		// the duty objects, as the controller creates them when it learns of the duties
		dutyObjs = make([]*beaconblockproposer.Duty, len(ds))
		for k, d := range ds {
			duty := beaconblockproposer.NewDuty(phase0.Slot(d.Slot), phase0.ValidatorIndex(d.Validator))
			if d.PreAccount != nil {
				duty.SetAccount(worlds[k].newAccount(*d.PreAccount))
			}
			duty.SetRandaoReveal(sigOf(d.PreRandao))
			dutyObjs[k] = duty
		}
	}
	// one Prepare call; what it observed is written into *o
	prepare := func(k int, o *Obs) {
		w := worlds[k]
		w.begin(false)
		func() {
			defer func() {
				if r := recover(); r != nil {
					o.Panic = true
					o.PanicMsg = fmt.Sprintf("Prepare: %v", r)
				}
			}()
			o.PrepOK = svc.Prepare(rt.with(ctx0, w), dutyObjs[k]) == nil
		}()
		w.rec.mu.Lock()
		o.PrepEvents = w.rec.events
		w.rec.mu.Unlock()
	}

	stuck := false
	if together > 0 {
		setup()
		results := make([]Obs, together)
		finished := make(chan int, together)
		for i := 0; i < together; i++ {
			results[i].PrepOK = true
			go func(i int) {
				prepare(ops[i].Duty, &results[i])
				finished <- i
			}(i)
		}
		watchdog := time.After(30 * time.Second)
		for n := 0; n < together && !stuck; n++ {
			select {
			case i := <-finished:
				k := ops[i].Duty
				obs[k].PrepOK, obs[k].PrepEvents, obs[k].Panic, obs[k].PanicMsg = results[i].PrepOK, results[i].PrepEvents, results[i].Panic, results[i].PanicMsg
			case <-watchdog:
				stuck, overlapBroken = true, true
			}
		}
	}

	var bubble any
	if !stuck {
		func() {
			defer func() {
				if r := recover(); r != nil {
					bubble = r
				}
			}()
			synctest.Test(t, func(t *testing.T) {
				if svc == nil {
					setup()
				}
				for _, op := range ops[together:] {
					k, d, duty := op.Duty, ds[op.Duty], dutyObjs[op.Duty]
					o, w := &obs[k], worlds[k]
					if op.Op == "prepare" {
						prepare(k, o)
						synctest.Wait()
						continue
					}
					w.begin(true)
					o.PostAccount = accountID(duty.Account())
					reveal := duty.RANDAOReveal()
					o.PostRandao = get(reveal[:])
					ctx, cancel := context.WithTimeout(rt.with(ctx0, w), time.Duration(d.Deadline)*time.Millisecond)
					func() {
						defer func() {
							if r := recover(); r != nil {
								o.Panic = true
								o.PanicMsg = fmt.Sprintf("Propose: %v", r)
							}
						}()
						svc.Propose(ctx, duty)
					}()
					o.RetAbs = w.rec.now()
					o.Ret = w.rec.since()
					// let every relay goroutine finish
					if rest := horizon(d) - time.Since(w.rec.start); rest > 0 {
						time.Sleep(rest)
					}
					synctest.Wait()
					cancel()
					w.rec.mu.Lock()
					o.Events = w.rec.events
					o.Calls = w.rec.calls
					o.Submit = w.rec.submit
					if o.Submit != nil {
						o.Ret = o.Submit.At
					}
					o.T0, o.Cut, o.SubCut = w.rec.t0, w.rec.cut, w.rec.subCut
					o.NodeClientCalls = w.rec.nodeClient
					w.proposing = false
					w.rec.mu.Unlock()
					done[k] = true
				}
			})
		}()
	}
	for k := range obs {
		if stuck && !done[k] {
			obs[k].Panic = true
			obs[k].PanicMsg = "overlapping Prepare calls: one of them did not return within 30 s"
		}
		if bubble != nil && !done[k] {
			obs[k].Panic = true
			obs[k].PanicMsg = fmt.Sprintf("bubble: %v", bubble)
		}
		if obs[k].Calls == nil {
			obs[k].Calls = make([][]Call, len(ds[k].Relays))
		}
	}
	return obs
}

// ---------------------------------------------------------------------------------------------
// Gallina.

func optN(p *uint64) string {
	if p == nil {
		return None()
	}
	return Some(N(*p))
}

func hdrTerm(h *Hdr) string {
	if h == nil {
		return None()
	}
	return Some(Record("h_slot", N(h.Slot), "h_proposer", N(h.Proposer), "h_parent", N(h.Parent), "h_state", N(h.State), "h_body", N(h.Body)))
}

func sblockTerm(b SBlock) string {
	return Record("sb_hdr", hdrTerm(b.Hdr), "sb_sig", N(b.Sig), "sb_blobs", N(b.Blobs))
}

func contsTerm(cs []Cont) string {
	cs = append([]Cont{}, cs...)
	sort.SliceStable(cs, func(a, b int) bool { return cs[a].Code < cs[b].Code })
	items := make([]string, len(cs))
	for i, c := range cs {
		items[i] = Pair(N(c.Code), sblockTerm(c.Block))
	}
	return List(items)
}

func natList(xs []int) string {
	items := make([]string, len(xs))
	for i, x := range xs {
		items[i] = Nat(x)
	}
	return List(items)
}

func uoutTerm(o UOut) string {
	switch o.Kind {
	case "ok":
		return App("UOk", sblockTerm(*o.Block))
	case "echo":
		return App("UEcho", N(o.Blobs))
	case "400":
		return "U400"
	case "hang":
		return "UHang"
	case "nil":
		return "UNil"
	default:
		return "UErr"
	}
}

func envTerm(in *Input) string {
	acc := "AccErr"
	if in.Accounts != nil {
		items := make([]string, len(*in.Accounts))
		for i, e := range *in.Accounts {
			items[i] = Pair(N(e.Index), optN(e.Account))
		}
		acc = App("AccOk", List(items))
	}
	g := "GNone"
	switch in.Graffiti {
	case "err":
		g = "GErr"
	case "ok":
		g = App("GOk", N(in.GraffitiVal))
		if in.GraffitiText != nil {
			g = graffitiSourceTerm(in)
		}
	}
	a := "ANone"
	switch in.Auction {
	case "err":
		a = "AErr"
	case "ok":
		a = App("AOk", natList(in.Winners), natList(in.All))
	}
	p := "PErr"
	if in.Proposal != nil {
		q := in.Proposal
		p = App("POk", Record("p_version", N(q.Version), "p_blinded", Bool(q.Blinded), "p_block", hdrTerm(q.Block),
			"p_body_present", Bool(q.BodyPresent), "p_blobs", N(q.Blobs)))
	}
	rs := make([]string, len(in.Relays))
	for i, r := range in.Relays {
		sc := make([]string, len(r.Script))
		for k, o := range r.Script {
			sc[k] = Pair(N(o.Lat), uoutTerm(o))
		}
		rs[i] = Record("r_can", Bool(r.Can), "r_script", List(sc))
	}
	return Record("e_accounts", acc, "e_dom_randao", Bool(in.DomRandao), "e_sig_randao", optN(in.SigRandao),
		"e_graffiti", g, "e_head", N(in.Head), "e_auction", a, "e_proposal", p,
		"e_dom_block", Bool(in.DomBlock), "e_sig_block", optN(in.SigBlock), "e_relays", List(rs),
		"e_submit_ok", Bool(in.SubmitOK), "e_deadline", N(in.Deadline))
}

func arg(e Event, i int) string {
	if i < len(e.Args) {
		return N(e.Args[i])
	}
	return N(Unknown)
}

func eventTerm(e Event) string {
	switch e.Kind {
	case "accounts":
		l := make([]string, len(e.List))
		for i, x := range e.List {
			l[i] = N(x)
		}
		return App("EAccounts", arg(e, 0), List(l))
	case "domain":
		return App("EDomain", arg(e, 0), arg(e, 1))
	case "signrandao":
		return App("ESignRandao", arg(e, 0), arg(e, 1), Pair(arg(e, 2), arg(e, 3)))
	case "graffiti":
		return App("EGraffiti", arg(e, 0), arg(e, 1))
	case "auction":
		return App("EAuction", arg(e, 0), arg(e, 1), arg(e, 2))
	case "proposal":
		if e.Big != "" {
			return App("EProposal", arg(e, 0), arg(e, 1), e.Big+"%N", arg(e, 3))
		}
		return App("EProposal", arg(e, 0), arg(e, 1), arg(e, 2), arg(e, 3))
	case "signblock":
		return App("ESignBlock", arg(e, 0), arg(e, 1), arg(e, 2), arg(e, 3), arg(e, 4), arg(e, 5), Pair(arg(e, 6), arg(e, 7)))
	default:
		// a request the model has no name for (all accounts, builder bid, attestation signature,
		// genesis domain): an impossible domain request stands for it
		return App("EDomain", N(Unknown), N(Unknown))
	}
}

func eventsTerm(es []Event) string {
	items := make([]string, len(es))
	for i, e := range es {
		items[i] = eventTerm(e)
	}
	return List(items)
}

func obsTerm(o *Obs) string {
	calls := make([]string, len(o.Calls))
	for i, cs := range o.Calls {
		items := make([]string, len(cs))
		for k, c := range cs {
			items[k] = Pair(N(c.Start), Record("u_version", N(c.Req.Version), "u_conts", contsTerm(c.Req.Conts)))
		}
		calls[i] = List(items)
	}
	sub := None()
	if s := o.Submit; s != nil {
		v := s.Version
		if s.Count > 1 {
			v = Unknown // submitted more than once
		}
		sub = Some(Pair(N(s.At), Record("sp_version", N(v), "sp_blinded", Bool(s.Blinded), "sp_conts", contsTerm(s.Conts))))
	}
	return Record("o_panic", Bool(o.Panic), "o_events", eventsTerm(o.Events), "o_unblind", List(calls), "o_submit", sub, "o_ret", N(o.Ret))
}

func caseTerm(id uint64, in *Input, o *Obs) string {
	times, live := make([]string, len(o.Events)), make([]string, len(o.Events))
	for i, e := range o.Events {
		times[i], live[i] = N(e.At), Bool(e.Live)
	}
	return Record("c_id", N(id),
		"c_cfg", Record("c_unblind_all", Bool(in.UnblindAll), "c_boost", N(in.Boost), "c_spe", N(in.SPE)),
		"c_env", envTerm(in),
		"c_lat", Record("l_graffiti", N(in.LatGraffiti), "l_auction", N(in.LatAuction), "l_proposal", N(in.LatProposal),
			"l_domain", N(in.LatDomain), "l_sign", N(in.LatSign), "l_submit", N(in.LatSubmit)),
		"c_duty", Record("d_slot", N(in.Slot), "d_validator", N(in.Validator), "d_account", optN(in.PreAccount), "d_randao", N(in.PreRandao)),
		"c_prepare", Bool(in.DoPrepare),
		"c_prep_events", eventsTerm(o.PrepEvents), "c_prep_ok", Bool(o.PrepOK),
		"c_post_account", optN(o.PostAccount), "c_post_randao", N(o.PostRandao),
		"c_cut", Record("x_graffiti", Bool(o.Cut.Graffiti), "x_auction", Bool(o.Cut.Auction), "x_proposal", Bool(o.Cut.Proposal),
			"x_domain", Bool(o.Cut.Domain), "x_sign", Bool(o.Cut.Sign)),
		"c_times", List(times), "c_live", List(live), "c_t0", N(o.T0),
		"c_obs", obsTerm(o), "c_ret", N(o.RetAbs), "c_sub_cut", Bool(o.SubCut))
}

// ---------------------------------------------------------------------------------------------
// Generator.

func u(x uint64) *uint64 { return &x }

func genHdr(r *Rand, slot, validator uint64) *Hdr {
	h := &Hdr{Slot: slot, Proposer: validator, Parent: uint64(r.Range(1, 1<<30)), State: uint64(r.Range(1, 1<<30)), Body: uint64(r.Range(1, 1<<30))}
	if r.Chance(1, 4) {
		h.Proposer = uint64(r.Range(0, 2000))
	}
	return h
}

func genRelays(r *Rand, in *Input) {
	n := r.Range(0, 4)
	if in.Proposal != nil && in.Proposal.Blinded && r.Chance(3, 4) {
		n = r.Range(1, 4)
	}
	in.Relays = make([]Relay, n)
	profile := []int{0, 1, 1, 1, 2, 2, 2}[r.Intn(7)] // 0: everything fails; 1: mostly honest; 2: mixed
	for i := range in.Relays {
		in.Relays[i].Can = !r.Chance(1, 10)
		sc := make([]UOut, 3)
		for k := range sc {
			o := UOut{Lat: uint64(r.Range(0, 6))*1000 + uint64(r.Range(0, 999))}
			var kind int
			switch profile {
			case 0:
				kind = 2 + r.Intn(4)
			case 1:
				kind = []int{1, 1, 1, 0, 3, 3}[r.Intn(6)]
			default:
				kind = r.Intn(7)
			}
			switch kind {
			case 0:
				o.Kind = "ok"
				b := &SBlock{Sig: uint64(r.Range(1, 1<<30)), Hdr: genHdr(r, in.Slot, in.Validator)}
				if in.Proposal != nil && in.Proposal.Block != nil && r.Chance(1, 2) {
					h := *in.Proposal.Block
					b.Hdr = &h
				}
				if r.Chance(1, 12) {
					b.Hdr = nil
				}
				if in.Proposal != nil && in.Proposal.Version == 5 && r.Chance(2, 3) {
					b.Blobs = uint64(r.Range(1, 1<<20))
				}
				o.Block = b
			case 1, 6:
				o.Kind = "echo"
				if in.Proposal != nil && in.Proposal.Version == 5 && r.Chance(2, 3) {
					o.Blobs = uint64(r.Range(1, 1<<20))
				}
			case 2:
				o.Kind = "400"
			case 3:
				o.Kind = "err"
			case 4:
				o.Kind = "hang"
				o.Lat = uint64(r.Range(0, 40))
			default:
				o.Kind = "nil"
			}
			sc[k] = o
		}
		in.Relays[i].Script = sc
	}
}

// genLats: how long the graffiti provider, the auctioneer, the beacon node, the domain provider, the
// account and the submitter take.  The ms part of every latency is at most 150 and every deadline ends
// in 999, so no answer of a sequential step is due at the very instant the context ends.
func genLats(r *Rand, in *Input) {
	small := func() uint64 { return uint64(r.Range(0, 150)) }
	switch k := r.Intn(20); {
	case k < 9:
		return // every provider answers at once
	case k < 13:
		in.LatGraffiti, in.LatAuction, in.LatProposal, in.LatDomain, in.LatSign, in.LatSubmit = small(), small(), small(), small(), small(), small()
		in.Tags = append(in.Tags, "lat:small")
		return
	}
	if r.Bool() {
		in.LatGraffiti, in.LatAuction, in.LatProposal, in.LatDomain, in.LatSign, in.LatSubmit = small(), small(), small(), small(), small(), small()
	}
	// one or two slow (or hanging) steps
	n := 1
	if r.Chance(1, 4) {
		n = 2
	}
	for ; n > 0; n-- {
		slow := uint64(r.Range(0, int(in.Deadline/1000)+1))*1000 + small()
		if r.Chance(1, 3) {
			// within the context, but longer than a second or two
			slow = uint64(r.Range(1, int(in.Deadline/1000)))*1000 + small()
		}
		kind := "slow"
		if r.Chance(1, 6) {
			slow, kind = hangMs, "hang"
		}
		switch []int{0, 0, 0, 0, 1, 1, 1, 2, 2, 3, 4, 5, 5}[r.Intn(13)] {
		case 0:
			in.LatGraffiti = slow
			in.Tags = append(in.Tags, "lat:"+kind+":graffiti")
		case 1:
			in.LatAuction = slow
			in.Tags = append(in.Tags, "lat:"+kind+":auction")
		case 2:
			in.LatProposal = slow
			in.Tags = append(in.Tags, "lat:"+kind+":proposal")
		case 3:
			in.LatDomain = slow
			in.Tags = append(in.Tags, "lat:"+kind+":domain")
		case 4:
			in.LatSign = slow
			in.Tags = append(in.Tags, "lat:"+kind+":sign")
		default:
			in.LatSubmit = slow
			in.Tags = append(in.Tags, "lat:"+kind+":submit")
		}
	}
}

// firstBlockWhileBusy shapes the relays so that one of them hands back the full block promptly (on its
// first try, or on its second after a quick failure) while another one is still inside UnblindProposal:
// hanging until the context ends, or slow to answer (whatever its answer is), possibly past the
// deadline -- or (1 in 6) has already given up.  The first full block has to be submitted, without
// waiting for the other relay.  Returns the two relays.
func firstBlockWhileBusy(r *Rand, in *Input) []int {
	for len(in.Relays) < 2 {
		in.Relays = append(in.Relays, Relay{Can: true, Script: []UOut{{Kind: "err", Lat: uint64(r.Range(0, 999))}, {Kind: "err", Lat: uint64(r.Range(0, 999))}, {Kind: "err", Lat: uint64(r.Range(0, 999))}}})
	}
	w := r.Intn(len(in.Relays))
	b := r.Intn(len(in.Relays) - 1)
	if b >= w {
		b++
	}
	in.Relays[w].Can, in.Relays[b].Can = true, true
	block := func(lat uint64) UOut {
		o := UOut{Kind: "echo", Lat: lat}
		if r.Chance(1, 3) {
			o.Kind = "ok"
			o.Block = &SBlock{Sig: uint64(r.Range(1, 1<<30)), Hdr: genHdr(r, in.Slot, in.Validator)}
			if in.Proposal.Block != nil && r.Bool() {
				h := *in.Proposal.Block
				o.Block.Hdr = &h
			}
		}
		if in.Proposal.Version == 5 && r.Chance(2, 3) {
			if o.Kind == "ok" {
				o.Block.Blobs = uint64(r.Range(1, 1<<20))
			} else {
				o.Blobs = uint64(r.Range(1, 1<<20))
			}
		}
		return o
	}
	// the relay that delivers
	first := uint64(r.Range(5, 1500))
	sw := in.Relays[w].Script
	if r.Chance(1, 4) {
		// on its second try
		quick := uint64(r.Range(0, 300))
		sw[0] = UOut{Kind: "err", Lat: quick}
		sw[1] = block(first)
		first += quick + 250
	} else {
		sw[0] = block(first)
	}
	// the relay that is busy then
	sb := in.Relays[b].Script
	switch r.Intn(6) {
	case 5:
		// has given up (a 400, or no block at all) before the first block is back: the block of the
		// other relay is still to be waited for, and submitted
		sb[0] = UOut{Kind: []string{"400", "400", "nil"}[r.Intn(3)], Lat: uint64(r.Range(0, int(first)))}
	case 0, 1:
		// never answers: every try hangs until the context is over
		for k := range sb {
			sb[k] = UOut{Kind: "hang", Lat: uint64(r.Range(0, 40))}
		}
	case 2:
		// fails quickly once, then hangs
		sb[0] = UOut{Kind: "err", Lat: uint64(r.Range(0, 200))}
		sb[1] = UOut{Kind: "hang", Lat: uint64(r.Range(0, 40))}
		sb[2] = UOut{Kind: "hang", Lat: uint64(r.Range(0, 40))}
	default:
		// answers (a block, an error, a 400, nothing) well after the first block is back, maybe after the deadline
		sb[0].Lat = first + uint64(r.Range(100, 7000))
	}
	return []int{w, b}
}

func subset(r *Rand, xs []int, keep int) []int {
	var out []int
	for _, x := range xs {
		if r.Chance(keep, 4) {
			out = append(out, x)
		}
	}
	return out
}

func gen(r *Rand) Input { return genDuty(r, nil) }

// genDuty draws one duty with its environment; fix (if any) may set slot, validator and the
// service-level configuration before the environment is drawn around them.
func genDuty(r *Rand, fix func(*Input)) Input {
	in := Input{
		Slot: uint64(r.Range(1, 1<<20)), Validator: uint64(r.Range(0, 2000)),
		DoPrepare: true, SPE: uint64([]int{1, 6, 8, 32, 32, 32}[r.Intn(6)]),
		UnblindAll: r.Chance(1, 3), Boost: uint64(r.Range(0, 200)),
		DomRandao: true, DomBlock: true, SubmitOK: !r.Chance(1, 6),
		Head:     uint64(r.Range(1, 1<<30)),
		Deadline: uint64(r.Range(1, 12))*1000 + 999,
		Trace:    r.Chance(1, 10),
		Plain:    r.Chance(1, 4),
	}
	if r.Chance(1, 8) {
		// the last or first slot of an epoch
		e := uint64(r.Range(1, 1000))
		in.Slot = e*in.SPE + []uint64{0, in.SPE - 1}[r.Intn(2)]
	}
	if fix != nil {
		fix(&in)
	}
	// accounts
	acct := uint64(r.Range(1, 50))
	entries := []AccEntry{{Index: in.Validator, Account: &acct}}
	in.Accounts = &entries
	in.SigRandao = u(uint64(r.Range(1, 1<<30)))
	in.SigBlock = u(uint64(r.Range(1, 1<<30)))
	// one failure position in Prepare, sometimes (8 of 80)
	switch r.Intn(80) {
	case 0:
		in.Accounts = nil
	case 1:
		entries = []AccEntry{}
	case 2:
		other := uint64(r.Range(51, 99))
		entries = append(entries, AccEntry{Index: in.Validator + 1, Account: &other})
	case 3:
		entries[0].Index = in.Validator + uint64(r.Range(1, 3))
	case 4:
		entries[0].Account = nil
	case 5:
		in.DomRandao = false
	case 6:
		in.SigRandao = nil
	case 7:
		in.SigRandao = u(0)
	}
	if r.Chance(1, 16) {
		// a duty filled in by hand (or not at all)
		in.DoPrepare = false
		if r.Chance(5, 6) {
			in.PreAccount = u(uint64(r.Range(1, 50)))
		}
		if r.Chance(5, 6) {
			in.PreRandao = uint64(r.Range(1, 1<<30))
		}
	} else if r.Chance(1, 25) {
		// Prepare on a duty that already carries an account and a reveal (a second Prepare)
		in.PreAccount = u(uint64(r.Range(51, 99)))
		in.PreRandao = uint64(r.Range(1, 1<<30))
	}
	// signing the block (3 of 36)
	switch r.Intn(36) {
	case 0:
		in.DomBlock = false
	case 1:
		in.SigBlock = nil
	case 2:
		in.SigBlock = u(0)
	}
	// graffiti
	switch k := r.Intn(20); {
	case k < 4:
		in.Graffiti = "none"
	case k < 9:
		in.Graffiti = "err"
	default:
		in.Graffiti = "ok"
		in.GraffitiVal = uint64(r.Range(0, 1<<30))
	}
	// the proposal
	if !r.Chance(1, 20) {
		p := &Proposal{Version: uint64(r.Range(1, 5)), BodyPresent: !r.Chance(1, 30), Block: genHdr(r, in.Slot, in.Validator)}
		if r.Chance(1, 30) {
			p.Version = []uint64{0, 6, 7}[r.Intn(3)]
		}
		if p.Version >= 3 {
			p.Blinded = r.Chance(3, 5)
		} else {
			p.Blinded = r.Chance(1, 15)
		}
		switch r.Intn(24) {
		case 0:
			p.Block.Slot = in.Slot + 1
		case 1:
			if in.Slot > 0 {
				p.Block.Slot = in.Slot - 1
			}
		case 2:
			p.Block.Slot = uint64(r.Range(0, 1<<20))
		case 3:
			// the next epoch's slot with the same position, and the slot the epoch starts at
			p.Block.Slot = in.Slot + in.SPE
		}
		if r.Chance(1, 30) {
			p.Block = nil
		}
		if p.Version == 5 && !p.Blinded && r.Chance(2, 3) {
			p.Blobs = uint64(r.Range(1, 1<<20))
		}
		in.Proposal = p
	}
	// is there an auctioneer, and does the auction fail
	switch k := r.Intn(20); {
	case k < 1:
		in.Auction = "none"
	case k < 3:
		in.Auction = "err"
	default:
		in.Auction = "ok"
	}
	// how long the providers take
	genLats(r, &in)
	// relays and the auction
	// 1 blinded proposal in 4: one relay hands back the full block while another one is still asked
	busy := in.Proposal != nil && in.Proposal.Blinded && in.Auction == "ok" && r.Chance(1, 4)
	var pair []int
	for {
		genRelays(r, &in)
		if busy {
			pair = firstBlockWhileBusy(r, &in)
		}
		if tieFree(&in) {
			break
		}
	}
	if busy {
		in.Tags = append(in.Tags, "unblind:a-relay-still-asked-when-the-first-block-is-back")
	}
	idx := make([]int, len(in.Relays))
	for i := range idx {
		idx[i] = i
	}
	if in.Auction == "ok" {
		in.All = subset(r, idx, 3)
		if r.Chance(3, 4) {
			in.All = idx
		}
		in.Winners = subset(r, in.All, 2)
		if r.Chance(1, 12) {
			// winners outside AllProviders (the auctioneer's business, not vouch's)
			in.Winners = subset(r, idx, 2)
		}
		if in.All == nil {
			in.All = []int{}
		}
		if in.Winners == nil {
			in.Winners = []int{}
		}
		if busy && r.Chance(5, 6) {
			// both relays of the pair are asked: they are among the winners, or nobody won / every relay is asked
			in.All = idx
			switch r.Intn(3) {
			case 0:
				in.Winners = []int{}
			case 1:
				in.Winners = idx
			default:
				in.Winners = nil
				for _, i := range idx {
					if i == pair[0] || i == pair[1] || r.Bool() {
						in.Winners = append(in.Winners, i)
					}
				}
			}
		}
	}
	if in.Proposal != nil && in.Proposal.Blinded && in.Auction == "ok" && r.Chance(1, 5) {
		in.Deadline = uint64(r.Range(0, 2))*1000 + 999
		for !tieFree(&in) {
			in.Deadline += 1000
		}
	}
	// the bytes of the graffiti (drawn last, from a stream of its own: the rest of the duty is what it was)
	genGraffitiText(r.Fork(), &in)
	return in
}

// ---------------------------------------------------------------------------------------------
// Histories: several duties handled by one service instance.

// the account the accounts provider holds for the duty's own validator
func ownAccount(in *Input) *uint64 {
	if in.Accounts == nil {
		return nil
	}
	for _, e := range *in.Accounts {
		if e.Index == in.Validator {
			return e.Account
		}
	}
	return nil
}

func setOwnAccount(in *Input, id uint64) {
	if in.Accounts == nil {
		return
	}
	for i, e := range *in.Accounts {
		if e.Index == in.Validator && e.Account != nil {
			(*in.Accounts)[i].Account = u(id)
		}
	}
}

var relations = []string{"same-epoch-other-validator", "same-epoch-other-validator", "same-validator-other-epoch",
	"same-validator-same-epoch", "repeat-duty", "same-slot-other-validator", "unrelated"}

// relation of duty d to an earlier duty ref of the same history (computed from the inputs)
func relationOf(ref, d *Input) string {
	sameV, sameS, sameE := ref.Validator == d.Validator, ref.Slot == d.Slot, ref.Slot/ref.SPE == d.Slot/ref.SPE
	switch {
	case sameV && sameS:
		return "repeat-duty"
	case sameV && sameE:
		return "same-validator-same-epoch"
	case sameV:
		return "same-validator-other-epoch"
	case sameS:
		return "same-slot-other-validator"
	case sameE:
		return "same-epoch-other-validator"
	}
	return "unrelated"
}

func genHistory(r *Rand) Input {
	head := gen(r)
	n := []int{2, 2, 2, 3, 3, 4}[r.Intn(6)]
	all := []*Input{&head}
	others := make([]Input, 0, n-1)
	for len(others) < n-1 {
		ref := all[r.Intn(len(all))]
		rel := relations[r.Intn(len(relations))]
		o := genDuty(r, func(in *Input) {
			in.SPE, in.UnblindAll, in.Boost, in.Plain, in.Trace = head.SPE, head.UnblindAll, head.Boost, head.Plain, head.Trace
			epoch := ref.Slot / head.SPE
			otherValidator := func() uint64 {
				v := uint64(r.Range(0, 2000))
				if v == ref.Validator {
					v++
				}
				return v
			}
			switch rel {
			case "same-epoch-other-validator":
				in.Slot, in.Validator = epoch*head.SPE+uint64(r.Intn(int(head.SPE))), otherValidator()
			case "same-validator-other-epoch":
				in.Validator = ref.Validator
				in.Slot = ref.Slot + head.SPE*uint64(r.Range(1, 3))
				if r.Bool() && ref.Slot >= head.SPE {
					in.Slot = ref.Slot - head.SPE
				}
			case "same-validator-same-epoch":
				in.Slot, in.Validator = epoch*head.SPE+uint64(r.Intn(int(head.SPE))), ref.Validator
			case "repeat-duty":
				in.Slot, in.Validator = ref.Slot, ref.Validator
			case "same-slot-other-validator":
				in.Slot, in.Validator = ref.Slot, otherValidator()
			}
		})
		// one validator has one account, another validator another one
		if a, b := ownAccount(ref), ownAccount(&o); a != nil && b != nil {
			if o.Validator == ref.Validator {
				if r.Chance(7, 8) {
					setOwnAccount(&o, *a)
				}
			} else if *a == *b {
				setOwnAccount(&o, *a+100)
			}
		}
		others = append(others, o)
		all = append(all, &others[len(others)-1])
	}
	head.Others = others
	ds := duties(&head)
	// an account's RANDAO reveal is a function of the account and the epoch: the same account asked
	// again for the same epoch gives the same reveal
	for j := range ds {
		for i := 0; i < j; i++ {
			a, b := ownAccount(ds[i]), ownAccount(ds[j])
			if a != nil && b != nil && *a == *b && ds[i].Slot/head.SPE == ds[j].Slot/head.SPE && ds[i].SigRandao != nil && ds[j].SigRandao != nil {
				ds[j].SigRandao = u(*ds[i].SigRandao)
				break
			}
		}
	}
	// the order of the calls
	var ops []Op
	prep := func(k int) {
		if ds[k].DoPrepare {
			ops = append(ops, Op{Duty: k, Op: "prepare"})
		}
	}
	switch kind := r.Intn(10); {
	case kind < 2:
		// what the controller does: every duty of the epoch is prepared, all at once in goroutines of
		// their own, when the epoch's duties are known, and proposed when its slot comes; the accounts
		// provider and the signer take their time, so that the Prepare calls really overlap
		head.Shape = "prepare-together-then-propose"
		for k := range ds {
			ds[k].AccLat, ds[k].SignLat = uint64(r.Range(0, 30)), uint64(r.Range(0, 30))
			if ds[k].DoPrepare {
				ops = append(ops, Op{Duty: k, Op: "prepare", Go: true})
			}
		}
		for k := range ds {
			ops = append(ops, Op{Duty: k, Op: "propose"})
		}
	case kind < 5:
		head.Shape = "duty-after-duty"
		for k := range ds {
			prep(k)
			ops = append(ops, Op{Duty: k, Op: "propose"})
		}
	case kind < 8:
		head.Shape = "prepare-all-then-propose"
		for k := range ds {
			prep(k)
		}
		for k := range ds {
			ops = append(ops, Op{Duty: k, Op: "propose"})
		}
	case kind < 9:
		head.Shape = "prepare-all-then-propose-reversed"
		for k := range ds {
			prep(k)
		}
		for k := len(ds) - 1; k >= 0; k-- {
			ops = append(ops, Op{Duty: k, Op: "propose"})
		}
	default:
		head.Shape = "interleaved"
		next := make([]int, len(ds)) // 0: prepare next, 1: propose next, 2: finished
		for k := range ds {
			if !ds[k].DoPrepare {
				next[k] = 1
			}
		}
		for {
			var live []int
			for k := range ds {
				if next[k] < 2 {
					live = append(live, k)
				}
			}
			if len(live) == 0 {
				break
			}
			k := live[r.Intn(len(live))]
			ops = append(ops, Op{Duty: k, Op: []string{"prepare", "propose"}[next[k]]})
			next[k]++
		}
	}
	head.Order = ops
	return head
}

// shapeOf names the order of the calls of a history
func shapeOf(ops []Op, ds []*Input) string {
	lastPrepare, firstPropose, sequential, inOrder := -1, len(ops), true, true
	prevPropose := -1
	for _, op := range ops {
		if op.Go {
			return "prepare-together-then-propose"
		}
	}
	for i, op := range ops {
		if op.Op == "prepare" {
			lastPrepare = i
			if i+1 >= len(ops) || ops[i+1] != (Op{Duty: op.Duty, Op: "propose"}) {
				sequential = false
			}
		} else {
			if i < firstPropose {
				firstPropose = i
			}
			if op.Duty < prevPropose {
				inOrder = false
			}
			prevPropose = op.Duty
		}
	}
	switch {
	case sequential && inOrder:
		return "duty-after-duty"
	case lastPrepare < firstPropose && inOrder:
		return "prepare-all-then-propose"
	case lastPrepare < firstPropose:
		return "prepare-all-then-propose-other-order"
	}
	return "interleaved"
}

func tagsOf(in *Input) []string {
	var tags []string
	if p := in.Proposal; p != nil {
		if p.Blinded {
			tags = append(tags, "blinded")
			if in.Auction != "ok" {
				tags = append(tags, "blinded-without-auction-results")
			}
		} else {
			tags = append(tags, "unblinded")
		}
		if p.Block != nil && p.Block.Slot != in.Slot {
			tags = append(tags, "other-slot")
		}
	} else {
		tags = append(tags, "no-proposal")
	}
	if in.Graffiti == "err" {
		tags = append(tags, "graffiti-fails")
	}
	if in.Auction == "err" {
		tags = append(tags, "auction-fails")
	}
	if !in.DoPrepare {
		tags = append(tags, "hand-made-duty")
	}
	tags = append(tags, graffitiTags(in)...)
	return tags
}

// stillAsked: at the instant of the submission some relay was inside a call (made before, returning later)
func stillAsked(in *Input, o *Obs) bool {
	for i, cs := range o.Calls {
		for k, c := range cs {
			if i >= len(in.Relays) || k >= len(in.Relays[i].Script) {
				continue
			}
			out := in.Relays[i].Script[k]
			// times are in ms after T0; a hanging call returns when the context is over
			if c.Start <= o.Submit.At && (out.Kind == "hang" && o.T0+o.Submit.At < in.Deadline || out.Kind != "hang" && c.Start+out.Lat > o.Submit.At) {
				return true
			}
		}
	}
	return false
}

func count(col *Collector, in *Input, o *Obs) {
	if p := in.Proposal; p != nil {
		col.Count(fmt.Sprintf("proposal:v%d:blinded=%v", p.Version, p.Blinded))
		if p.Block == nil {
			col.Count("proposal:block-nil")
		} else if p.Block.Slot != in.Slot {
			col.Count("proposal:other-slot")
		}
		if !p.BodyPresent {
			col.Count("proposal:body-nil")
		}
	} else {
		col.Count("proposal:error")
	}
	col.Count(fmt.Sprintf("account:plain=%v", in.Plain))
	col.Count("graffiti:" + in.Graffiti)
	for _, tg := range graffitiTags(in) {
		col.Count(tg)
	}
	if o.NodeClientCalls > 0 {
		col.Count(fmt.Sprintf("observed:node-client-asked=%d", o.NodeClientCalls))
	}
	if isNodeClientProvider(in) {
		col.Count("node-client:" + in.NodeClient)
	} else {
		col.Count("node-client:not-a-provider")
	}
	col.Count("auction:" + in.Auction)
	lat := false
	for _, tg := range in.Tags {
		if len(tg) > 4 && tg[:4] == "lat:" {
			col.Count(tg)
			lat = true
		}
		if len(tg) > 8 && tg[:8] == "unblind:" {
			col.Count(tg)
		}
	}
	if !lat {
		col.Count("lat:instant")
	}
	if _, ok := seqEnd(in); !ok {
		col.Count("lat:an-answer-is-due-after-the-deadline")
	}
	if o.Cut != (Cuts{}) || o.SubCut {
		col.Count("observed:an-answer-cut-by-the-context")
	}
	col.Count(fmt.Sprintf("relays:%d", len(in.Relays)))
	for _, r := range in.Relays {
		for _, s := range r.Script {
			col.Count("relay-answer:" + s.Kind)
		}
	}
	if !o.PrepOK {
		col.Count("prepare:failed")
	}
	if !in.DomBlock || in.SigBlock == nil {
		col.Count("blocksigning:fails")
	}
	ncalls := 0
	for _, cs := range o.Calls {
		ncalls += len(cs)
	}
	col.Count(fmt.Sprintf("observed:unblind-calls:%d", ncalls))
	if o.Submit != nil && stillAsked(in, o) {
		col.Count("observed:block-submitted-while-another-relay-was-still-asked")
	}
	switch {
	case o.Panic:
		col.Count("observed:panic")
	case o.Submit != nil && in.Proposal != nil && in.Proposal.Blinded:
		col.Count("observed:submitted-unblinded-by-relay")
	case o.Submit != nil:
		col.Count("observed:submitted-local")
	case ncalls > 0 && o.Ret >= in.Deadline:
		col.Count("observed:no-relay-delivered-in-time")
	case ncalls > 0:
		col.Count("observed:every-relay-gave-up-before-the-deadline")
	default:
		col.Count("observed:nothing-submitted")
	}
}

func TestC05(t *testing.T) {
	col := NewCollector("C05", "Check.C05",
		"one proposal duty per case, alone (3 of 5 inputs) or as one of the 2-4 duties of a history handled by ONE proposer service and signer instance (related duties: same epoch / other validator, same validator / other epoch, repeated duty, ...; calls duty after duty, all Prepares first as the controller does, or interleaved), every duty compared on its own: Prepare then Propose on the real proposer + real signer with scripted accounts provider, remote-signer account, domain / graffiti / proposal providers, auctioneer, 0-4 relays (three scripted answers each, fake latencies) and submitter, in a synctest bubble; all versions x blinded x one failure position per step. Non-trivial = the proposal request reaches the beacon node (the duty passed validation); distinct by input text")
	n := EnvInt("VERIF_N", 500)
	zerologger.Logger = zerolog.New(io.Discard) // trace-level cases write their log lines nowhere
	var ins []Input
	for _, in := range LoadInputs[Input]("C05") {
		in.Tags = append(in.Tags, "corpus")
		ins = append(ins, in)
	}
	rng := NewRand(Seed())
	for total := 0; total < n; {
		r := rng.Fork()
		var in Input
		if r.Chance(2, 5) {
			in = genHistory(r)
		} else {
			in = gen(r)
		}
		total += 1 + len(in.Others)
		ins = append(ins, in)
	}
	for i := range ins {
		in := &ins[i]
		ds := duties(in)
		allObs := runSession(t, in)
		ops := schedule(in, ds)
		histKey := ""
		if len(ds) > 1 {
			col.Count(fmt.Sprintf("history:duties=%d", len(ds)))
			col.Count("history:order=" + shapeOf(ops, ds))
			for _, d := range ds {
				histKey += envTerm(d) + fmt.Sprint(d.Slot, d.Validator, d.DoPrepare)
			}
			histKey += fmt.Sprint(ops)
		} else {
			col.Count("history:single-duty")
		}
		for k, d := range ds {
			obs := &allObs[k]
			count(col, d, obs)
			tags := append(tagsOf(d), d.Tags...)
			if k > 0 {
				for _, tg := range in.Tags {
					if tg == "corpus" {
						tags = append(tags, tg)
					}
				}
			}
			if len(ds) > 1 {
				tags = append(tags, "history")
				seen := map[string]bool{}
				for i := 0; i < len(ds); i++ {
					if i == k {
						continue
					}
					rel := relationOf(ds[i], d)
					if !seen[rel] {
						seen[rel] = true
						tags = append(tags, "history:"+rel)
						col.Count("history:relation:" + rel)
					}
				}
			}
			nt := false
			for _, e := range obs.Events {
				if e.Kind == "proposal" {
					nt = true
				}
			}
			id := col.NextID()
			col.Add(Case{Term: caseTerm(id, d, obs), Key: envTerm(d) + fmt.Sprint(d.Slot, d.Validator, d.DoPrepare, d.PreAccount != nil, d.PreRandao, d.UnblindAll, d.Plain, d.Trace, k) + histKey,
				Nontrivial: nt, Tags: tags, Sample: map[string]any{"input": in, "duty": k, "observed": obs}})
		}
	}
	if err := col.Flush(); err != nil {
		t.Fatal(err)
	}
}
