// Scripted, recording environment of the C05 harness: accounts provider, accounts (remote
// signers), spec and domain providers, graffiti provider, execution chain head, auctioneer, relays,
// beacon node (proposal provider) and submitter.  Every mock answers what the case's input says and
// records what it was asked, decoded back into the small integers of the input.
package c05

import (
	"context"
	"encoding/binary"
	"errors"
	"fmt"
	"sync"
	"time"

	"github.com/attestantio/go-block-relay/services/blockauctioneer"
	builderclient "github.com/attestantio/go-builder-client"
	builderapi "github.com/attestantio/go-builder-client/api"
	builderspec "github.com/attestantio/go-builder-client/spec"
	"github.com/attestantio/go-eth2-client/api"
	apiv1bellatrix "github.com/attestantio/go-eth2-client/api/v1/bellatrix"
	apiv1capella "github.com/attestantio/go-eth2-client/api/v1/capella"
	apiv1deneb "github.com/attestantio/go-eth2-client/api/v1/deneb"
	"github.com/attestantio/go-eth2-client/spec"
	"github.com/attestantio/go-eth2-client/spec/altair"
	"github.com/attestantio/go-eth2-client/spec/bellatrix"
	"github.com/attestantio/go-eth2-client/spec/capella"
	"github.com/attestantio/go-eth2-client/spec/deneb"
	"github.com/attestantio/go-eth2-client/spec/phase0"
	"github.com/google/uuid"
	"github.com/holiman/uint256"
	e2types "github.com/wealdtech/go-eth2-types/v2"
	e2wtypes "github.com/wealdtech/go-eth2-wallet-types/v2"
)

// Unknown marks a value that does not decode to one of the harness's small integers (vouch
// altered it, or made it up).
const Unknown = 999999999

// ---------------------------------------------------------------------------------------------
// Encodings: small integers <-> the byte arrays of the real types.

func put(b []byte, n uint64) { binary.BigEndian.PutUint64(b[len(b)-8:], n) }

func get(b []byte) uint64 {
	for _, x := range b[:len(b)-8] {
		if x != 0 {
			return Unknown
		}
	}
	return binary.BigEndian.Uint64(b[len(b)-8:])
}

func rootOf(n uint64) (r phase0.Root)        { put(r[:], n); return }
func hashOf(n uint64) (r phase0.Hash32)      { put(r[:], n); return }
func sigOf(n uint64) (s phase0.BLSSignature) { put(s[:], n); return }
func graffitiOf(n uint64) []byte             { b := make([]byte, 32); put(b, n); return b }
func pubkeyOf(n uint64) []byte               { b := make([]byte, 48); put(b, n); return b }

// domain = type (4 bytes) ++ epoch (little endian, 8 bytes) ++ zeros
func domainOf(t phase0.DomainType, epoch uint64) (d phase0.Domain) {
	copy(d[:4], t[:])
	binary.LittleEndian.PutUint64(d[4:12], epoch)
	return
}

func decodeDomain(d []byte) (uint64, uint64) {
	if len(d) != 32 {
		return Unknown, Unknown
	}
	for _, x := range d[12:] {
		if x != 0 {
			return Unknown, Unknown
		}
	}
	if d[1] != 0 || d[2] != 0 || d[3] != 0 {
		return Unknown, Unknown
	}
	return uint64(d[0]), binary.LittleEndian.Uint64(d[4:12])
}

var (
	domainProposer = phase0.DomainType{0, 0, 0, 0}
	domainRandao   = phase0.DomainType{2, 0, 0, 0}
)

// ---------------------------------------------------------------------------------------------
// Recorder.

type Event struct {
	Kind string   `json:"kind"`
	Args []uint64 `json:"args"`
	List []uint64 `json:"list,omitempty"`
	// the instant the request was made (ms of fake time since the call started) and whether the
	// context it came with was still alive
	At   uint64 `json:"at,omitempty"`
	Live bool   `json:"live,omitempty"`
	// a proposal request whose graffiti is not one of the harness's small integers: the 32 bytes as
	// the (decimal) number they spell, big endian
	Big string `json:"big,omitempty"`
}

// Cuts: which sequential answers of Propose the providers cut short with the context's error
// (the context ended before the answer was ready, or had ended before the request came).
type Cuts struct {
	Graffiti bool `json:"graffiti,omitempty"`
	Auction  bool `json:"auction,omitempty"`
	Proposal bool `json:"proposal,omitempty"`
	Domain   bool `json:"domain,omitempty"`
	Sign     bool `json:"sign,omitempty"`
}

type Call struct {
	Start uint64 `json:"start"`
	Req   Req    `json:"req"`
}

type recorder struct {
	mu     sync.Mutex
	start  time.Time
	events []Event
	calls  [][]Call
	submit *Submit
	// the instant the last sequential answer was given: relay calls and the submission are timed from it
	t0     uint64
	cut    Cuts
	subCut bool
	// how often the node was asked for its client string
	nodeClient int
}

func (r *recorder) now() uint64 { return uint64(time.Since(r.start) / time.Millisecond) }

// since is the time since the last sequential answer
func (r *recorder) since() uint64 {
	n := r.now()
	r.mu.Lock()
	defer r.mu.Unlock()
	if n < r.t0 {
		return 0
	}
	return n - r.t0
}

func (r *recorder) add(kind string, args ...uint64) {
	r.mu.Lock()
	r.events = append(r.events, Event{Kind: kind, Args: args, At: r.now(), Live: true})
	r.mu.Unlock()
}

// addCtx records a request together with its instant and the state of the context it came with
func (r *recorder) addCtx(ctx context.Context, kind string, args ...uint64) {
	at := r.now()
	r.mu.Lock()
	r.events = append(r.events, Event{Kind: kind, Args: args, At: at, Live: ctx.Err() == nil})
	r.mu.Unlock()
}

// answered notes that a sequential answer is given now; cut: it is the context's error
func (r *recorder) answered(cut *bool, err error) {
	n := r.now()
	r.mu.Lock()
	r.t0 = n
	if err != nil && cut != nil {
		*cut = true
	}
	r.mu.Unlock()
}

// serve is what every provider does with a request, like a real client: nothing if the context is
// already over, otherwise work for lat ms (of fake time) unless the context ends first.
func serve(ctx context.Context, lat uint64) error {
	if err := ctx.Err(); err != nil {
		return err
	}
	if lat == 0 {
		return nil
	}
	t := time.NewTimer(time.Duration(lat) * time.Millisecond)
	defer t.Stop()
	select {
	case <-t.C:
		return nil
	case <-ctx.Done():
		return ctx.Err()
	}
}

// ---------------------------------------------------------------------------------------------
// Body roots: every body the harness builds is registered under its hash tree root.

type bodyTable struct {
	mu sync.Mutex
	m  map[phase0.Root]uint64
}

func (t *bodyTable) reg(root [32]byte, err error, id uint64) {
	if err != nil {
		panic(fmt.Sprintf("harness: body root: %v", err))
	}
	t.mu.Lock()
	t.m[root] = id
	t.mu.Unlock()
}

func (t *bodyTable) id(root [32]byte, err error) uint64 {
	if err != nil {
		return Unknown
	}
	t.mu.Lock()
	defer t.mu.Unlock()
	if id, ok := t.m[root]; ok {
		return id
	}
	return Unknown
}

func syncAggregate() *altair.SyncAggregate {
	return &altair.SyncAggregate{SyncCommitteeBits: make([]byte, 64)}
}

func bellatrixPayload() *bellatrix.ExecutionPayload {
	return &bellatrix.ExecutionPayload{ExtraData: []byte{}, Transactions: []bellatrix.Transaction{}}
}
func bellatrixHeader() *bellatrix.ExecutionPayloadHeader {
	return &bellatrix.ExecutionPayloadHeader{ExtraData: []byte{}}
}
func capellaPayload() *capella.ExecutionPayload {
	return &capella.ExecutionPayload{ExtraData: []byte{}, Transactions: []bellatrix.Transaction{}, Withdrawals: []*capella.Withdrawal{}}
}
func capellaHeader() *capella.ExecutionPayloadHeader {
	return &capella.ExecutionPayloadHeader{ExtraData: []byte{}}
}
func denebPayload() *deneb.ExecutionPayload {
	return &deneb.ExecutionPayload{ExtraData: []byte{}, BaseFeePerGas: uint256.NewInt(7), Transactions: []bellatrix.Transaction{}, Withdrawals: []*capella.Withdrawal{}}
}
func denebHeader() *deneb.ExecutionPayloadHeader {
	return &deneb.ExecutionPayloadHeader{ExtraData: []byte{}, BaseFeePerGas: uint256.NewInt(7)}
}

func g32(id uint64) (g [32]byte) { put(g[:], id); return }

// bodies, one constructor per container type; the body id sits in the graffiti field
func (t *bodyTable) phase0Body(id uint64) *phase0.BeaconBlockBody {
	b := &phase0.BeaconBlockBody{ETH1Data: &phase0.ETH1Data{BlockHash: make([]byte, 32)}, Graffiti: g32(id)}
	r, err := b.HashTreeRoot()
	t.reg(r, err, id)
	return b
}
func (t *bodyTable) altairBody(id uint64) *altair.BeaconBlockBody {
	b := &altair.BeaconBlockBody{ETH1Data: &phase0.ETH1Data{BlockHash: make([]byte, 32)}, Graffiti: g32(id), SyncAggregate: syncAggregate()}
	r, err := b.HashTreeRoot()
	t.reg(r, err, id)
	return b
}
func (t *bodyTable) bellatrixBody(id uint64) *bellatrix.BeaconBlockBody {
	b := &bellatrix.BeaconBlockBody{ETH1Data: &phase0.ETH1Data{BlockHash: make([]byte, 32)}, Graffiti: g32(id), SyncAggregate: syncAggregate(), ExecutionPayload: bellatrixPayload()}
	r, err := b.HashTreeRoot()
	t.reg(r, err, id)
	return b
}
func (t *bodyTable) bellatrixBlindedBody(id uint64) *apiv1bellatrix.BlindedBeaconBlockBody {
	b := &apiv1bellatrix.BlindedBeaconBlockBody{ETH1Data: &phase0.ETH1Data{BlockHash: make([]byte, 32)}, Graffiti: g32(id), SyncAggregate: syncAggregate(), ExecutionPayloadHeader: bellatrixHeader()}
	r, err := b.HashTreeRoot()
	t.reg(r, err, id)
	return b
}
func (t *bodyTable) capellaBody(id uint64) *capella.BeaconBlockBody {
	b := &capella.BeaconBlockBody{ETH1Data: &phase0.ETH1Data{BlockHash: make([]byte, 32)}, Graffiti: g32(id), SyncAggregate: syncAggregate(), ExecutionPayload: capellaPayload()}
	r, err := b.HashTreeRoot()
	t.reg(r, err, id)
	return b
}
func (t *bodyTable) capellaBlindedBody(id uint64) *apiv1capella.BlindedBeaconBlockBody {
	b := &apiv1capella.BlindedBeaconBlockBody{ETH1Data: &phase0.ETH1Data{BlockHash: make([]byte, 32)}, Graffiti: g32(id), SyncAggregate: syncAggregate(), ExecutionPayloadHeader: capellaHeader()}
	r, err := b.HashTreeRoot()
	t.reg(r, err, id)
	return b
}
func (t *bodyTable) denebBody(id uint64) *deneb.BeaconBlockBody {
	b := &deneb.BeaconBlockBody{ETH1Data: &phase0.ETH1Data{BlockHash: make([]byte, 32)}, Graffiti: g32(id), SyncAggregate: syncAggregate(), ExecutionPayload: denebPayload()}
	r, err := b.HashTreeRoot()
	t.reg(r, err, id)
	return b
}
func (t *bodyTable) denebBlindedBody(id uint64) *apiv1deneb.BlindedBeaconBlockBody {
	b := &apiv1deneb.BlindedBeaconBlockBody{ETH1Data: &phase0.ETH1Data{BlockHash: make([]byte, 32)}, Graffiti: g32(id), SyncAggregate: syncAggregate(), ExecutionPayloadHeader: denebHeader()}
	r, err := b.HashTreeRoot()
	t.reg(r, err, id)
	return b
}

// blobs of deneb block contents: one proof and one blob carrying the id (0: none)
func blobsOf(id uint64) ([]deneb.KZGProof, []deneb.Blob) {
	if id == 0 {
		return nil, nil
	}
	var p deneb.KZGProof
	put(p[:], id)
	bl := make([]deneb.Blob, 1)
	put(bl[0][:48], id)
	return []deneb.KZGProof{p}, bl
}

func decodeBlobs(ps []deneb.KZGProof, bs []deneb.Blob) uint64 {
	if len(ps) == 0 && len(bs) == 0 {
		return 0
	}
	if len(ps) != 1 || len(bs) != 1 {
		return Unknown
	}
	a, b := get(ps[0][:]), get(bs[0][:48])
	if a != b {
		return Unknown
	}
	return a
}

// ---------------------------------------------------------------------------------------------
// The proposal the beacon node returns.

func (t *bodyTable) buildProposal(p *Proposal) *api.VersionedProposal {
	vp := &api.VersionedProposal{Version: spec.DataVersion(p.Version), Blinded: p.Blinded}
	h := p.Block
	switch spec.DataVersion(p.Version) {
	case spec.DataVersionPhase0:
		if h != nil {
			vp.Phase0 = &phase0.BeaconBlock{Slot: phase0.Slot(h.Slot), ProposerIndex: phase0.ValidatorIndex(h.Proposer), ParentRoot: rootOf(h.Parent), StateRoot: rootOf(h.State)}
			if p.BodyPresent {
				vp.Phase0.Body = t.phase0Body(h.Body)
			}
		}
	case spec.DataVersionAltair:
		if h != nil {
			vp.Altair = &altair.BeaconBlock{Slot: phase0.Slot(h.Slot), ProposerIndex: phase0.ValidatorIndex(h.Proposer), ParentRoot: rootOf(h.Parent), StateRoot: rootOf(h.State)}
			if p.BodyPresent {
				vp.Altair.Body = t.altairBody(h.Body)
			}
		}
	case spec.DataVersionBellatrix:
		if h == nil {
			break
		}
		if p.Blinded {
			vp.BellatrixBlinded = &apiv1bellatrix.BlindedBeaconBlock{Slot: phase0.Slot(h.Slot), ProposerIndex: phase0.ValidatorIndex(h.Proposer), ParentRoot: rootOf(h.Parent), StateRoot: rootOf(h.State)}
			if p.BodyPresent {
				vp.BellatrixBlinded.Body = t.bellatrixBlindedBody(h.Body)
			}
		} else {
			vp.Bellatrix = &bellatrix.BeaconBlock{Slot: phase0.Slot(h.Slot), ProposerIndex: phase0.ValidatorIndex(h.Proposer), ParentRoot: rootOf(h.Parent), StateRoot: rootOf(h.State)}
			if p.BodyPresent {
				vp.Bellatrix.Body = t.bellatrixBody(h.Body)
			}
		}
	case spec.DataVersionCapella:
		if h == nil {
			break
		}
		if p.Blinded {
			vp.CapellaBlinded = &apiv1capella.BlindedBeaconBlock{Slot: phase0.Slot(h.Slot), ProposerIndex: phase0.ValidatorIndex(h.Proposer), ParentRoot: rootOf(h.Parent), StateRoot: rootOf(h.State)}
			if p.BodyPresent {
				vp.CapellaBlinded.Body = t.capellaBlindedBody(h.Body)
			}
		} else {
			vp.Capella = &capella.BeaconBlock{Slot: phase0.Slot(h.Slot), ProposerIndex: phase0.ValidatorIndex(h.Proposer), ParentRoot: rootOf(h.Parent), StateRoot: rootOf(h.State)}
			if p.BodyPresent {
				vp.Capella.Body = t.capellaBody(h.Body)
			}
		}
	case spec.DataVersionDeneb:
		if p.Blinded {
			if h == nil {
				break
			}
			vp.DenebBlinded = &apiv1deneb.BlindedBeaconBlock{Slot: phase0.Slot(h.Slot), ProposerIndex: phase0.ValidatorIndex(h.Proposer), ParentRoot: rootOf(h.Parent), StateRoot: rootOf(h.State)}
			if p.BodyPresent {
				vp.DenebBlinded.Body = t.denebBlindedBody(h.Body)
			}
		} else {
			// the library dereferences Deneb unconditionally: the contents are always there, the block may be nil
			proofs, blobs := blobsOf(p.Blobs)
			vp.Deneb = &apiv1deneb.BlockContents{KZGProofs: proofs, Blobs: blobs}
			if h != nil {
				vp.Deneb.Block = &deneb.BeaconBlock{Slot: phase0.Slot(h.Slot), ProposerIndex: phase0.ValidatorIndex(h.Proposer), ParentRoot: rootOf(h.Parent), StateRoot: rootOf(h.State)}
				if p.BodyPresent {
					vp.Deneb.Block.Body = t.denebBody(h.Body)
				}
			}
		}
	}
	return vp
}

// ---------------------------------------------------------------------------------------------
// Decoding signed blocks (what the submitter and the relays are handed).

const bodyNil = 888888888

func mkHdr(slot phase0.Slot, idx phase0.ValidatorIndex, parent, state phase0.Root, body uint64) *Hdr {
	return &Hdr{Slot: uint64(slot), Proposer: uint64(idx), Parent: get(parent[:]), State: get(state[:]), Body: body}
}

type Cont struct {
	Code  uint64 `json:"code"`
	Block SBlock `json:"block"`
}

func (t *bodyTable) decodeConts(sp *api.VersionedSignedProposal) []Cont {
	var cs []Cont
	if b := sp.Phase0; b != nil {
		sb := SBlock{Sig: get(b.Signature[:])}
		if m := b.Message; m != nil {
			body := uint64(bodyNil)
			if m.Body != nil {
				body = t.id(m.Body.HashTreeRoot())
			}
			sb.Hdr = mkHdr(m.Slot, m.ProposerIndex, m.ParentRoot, m.StateRoot, body)
		}
		cs = append(cs, Cont{1, sb})
	}
	if b := sp.Altair; b != nil {
		sb := SBlock{Sig: get(b.Signature[:])}
		if m := b.Message; m != nil {
			body := uint64(bodyNil)
			if m.Body != nil {
				body = t.id(m.Body.HashTreeRoot())
			}
			sb.Hdr = mkHdr(m.Slot, m.ProposerIndex, m.ParentRoot, m.StateRoot, body)
		}
		cs = append(cs, Cont{2, sb})
	}
	if b := sp.Bellatrix; b != nil {
		sb := SBlock{Sig: get(b.Signature[:])}
		if m := b.Message; m != nil {
			body := uint64(bodyNil)
			if m.Body != nil {
				body = t.id(m.Body.HashTreeRoot())
			}
			sb.Hdr = mkHdr(m.Slot, m.ProposerIndex, m.ParentRoot, m.StateRoot, body)
		}
		cs = append(cs, Cont{4, sb})
	}
	if b := sp.BellatrixBlinded; b != nil {
		cs = append(cs, Cont{8, t.decodeBellatrixBlinded(b)})
	}
	if b := sp.Capella; b != nil {
		sb := SBlock{Sig: get(b.Signature[:])}
		if m := b.Message; m != nil {
			body := uint64(bodyNil)
			if m.Body != nil {
				body = t.id(m.Body.HashTreeRoot())
			}
			sb.Hdr = mkHdr(m.Slot, m.ProposerIndex, m.ParentRoot, m.StateRoot, body)
		}
		cs = append(cs, Cont{16, sb})
	}
	if b := sp.CapellaBlinded; b != nil {
		cs = append(cs, Cont{32, t.decodeCapellaBlinded(b)})
	}
	if c := sp.Deneb; c != nil {
		sb := SBlock{Blobs: decodeBlobs(c.KZGProofs, c.Blobs)}
		if b := c.SignedBlock; b != nil {
			sb.Sig = get(b.Signature[:])
			if m := b.Message; m != nil {
				body := uint64(bodyNil)
				if m.Body != nil {
					body = t.id(m.Body.HashTreeRoot())
				}
				sb.Hdr = mkHdr(m.Slot, m.ProposerIndex, m.ParentRoot, m.StateRoot, body)
			}
		} else {
			sb.Sig = Unknown
		}
		cs = append(cs, Cont{64, sb})
	}
	if b := sp.DenebBlinded; b != nil {
		cs = append(cs, Cont{128, t.decodeDenebBlinded(b)})
	}
	return cs
}

func (t *bodyTable) decodeBellatrixBlinded(b *apiv1bellatrix.SignedBlindedBeaconBlock) SBlock {
	sb := SBlock{Sig: get(b.Signature[:])}
	if m := b.Message; m != nil {
		body := uint64(bodyNil)
		if m.Body != nil {
			body = t.id(m.Body.HashTreeRoot())
		}
		sb.Hdr = mkHdr(m.Slot, m.ProposerIndex, m.ParentRoot, m.StateRoot, body)
	}
	return sb
}
func (t *bodyTable) decodeCapellaBlinded(b *apiv1capella.SignedBlindedBeaconBlock) SBlock {
	sb := SBlock{Sig: get(b.Signature[:])}
	if m := b.Message; m != nil {
		body := uint64(bodyNil)
		if m.Body != nil {
			body = t.id(m.Body.HashTreeRoot())
		}
		sb.Hdr = mkHdr(m.Slot, m.ProposerIndex, m.ParentRoot, m.StateRoot, body)
	}
	return sb
}
func (t *bodyTable) decodeDenebBlinded(b *apiv1deneb.SignedBlindedBeaconBlock) SBlock {
	sb := SBlock{Sig: get(b.Signature[:])}
	if m := b.Message; m != nil {
		body := uint64(bodyNil)
		if m.Body != nil {
			body = t.id(m.Body.HashTreeRoot())
		}
		sb.Hdr = mkHdr(m.Slot, m.ProposerIndex, m.ParentRoot, m.StateRoot, body)
	}
	return sb
}

func (t *bodyTable) decodeReq(p *api.VersionedSignedBlindedProposal) Req {
	r := Req{Version: Unknown}
	if p == nil {
		return r
	}
	r.Version = uint64(p.Version)
	if p.Bellatrix != nil {
		r.Conts = append(r.Conts, Cont{8, t.decodeBellatrixBlinded(p.Bellatrix)})
	}
	if p.Capella != nil {
		r.Conts = append(r.Conts, Cont{32, t.decodeCapellaBlinded(p.Capella)})
	}
	if p.Deneb != nil {
		r.Conts = append(r.Conts, Cont{128, t.decodeDenebBlinded(p.Deneb)})
	}
	return r
}

// the full signed block a relay returns: in the container of the request's version
func (t *bodyTable) buildFull(version uint64, b SBlock) *api.VersionedSignedProposal {
	sp := &api.VersionedSignedProposal{Version: spec.DataVersion(version)}
	h := b.Hdr
	switch spec.DataVersion(version) {
	case spec.DataVersionBellatrix:
		sp.Bellatrix = &bellatrix.SignedBeaconBlock{Signature: sigOf(b.Sig)}
		if h != nil {
			sp.Bellatrix.Message = &bellatrix.BeaconBlock{Slot: phase0.Slot(h.Slot), ProposerIndex: phase0.ValidatorIndex(h.Proposer), ParentRoot: rootOf(h.Parent), StateRoot: rootOf(h.State), Body: t.bellatrixBody(h.Body)}
		}
	case spec.DataVersionCapella:
		sp.Capella = &capella.SignedBeaconBlock{Signature: sigOf(b.Sig)}
		if h != nil {
			sp.Capella.Message = &capella.BeaconBlock{Slot: phase0.Slot(h.Slot), ProposerIndex: phase0.ValidatorIndex(h.Proposer), ParentRoot: rootOf(h.Parent), StateRoot: rootOf(h.State), Body: t.capellaBody(h.Body)}
		}
	case spec.DataVersionDeneb:
		proofs, blobs := blobsOf(b.Blobs)
		sp.Deneb = &apiv1deneb.SignedBlockContents{KZGProofs: proofs, Blobs: blobs, SignedBlock: &deneb.SignedBeaconBlock{Signature: sigOf(b.Sig)}}
		if h != nil {
			sp.Deneb.SignedBlock.Message = &deneb.BeaconBlock{Slot: phase0.Slot(h.Slot), ProposerIndex: phase0.ValidatorIndex(h.Proposer), ParentRoot: rootOf(h.Parent), StateRoot: rootOf(h.State), Body: t.denebBody(h.Body)}
		}
	}
	return sp
}

// ---------------------------------------------------------------------------------------------
// Accounts (remote signers implementing AccountProtectingSigner).

type fakeSig struct{ b []byte }

func (s fakeSig) Verify([]byte, e2types.PublicKey) bool                   { return false }
func (s fakeSig) VerifyAggregate([][]byte, []e2types.PublicKey) bool      { return false }
func (s fakeSig) VerifyAggregateCommon([]byte, []e2types.PublicKey) bool  { return false }
func (s fakeSig) Marshal() []byte                                         { return s.b }

type fakePub struct{ b []byte }

func (p fakePub) Marshal() []byte             { return p.b }
func (p fakePub) Aggregate(e2types.PublicKey) {}
func (p fakePub) Copy() e2types.PublicKey     { return p }

type account struct {
	id  uint64
	rec *recorder
	in  *Input
	tab *bodyTable
}

func (a *account) ID() uuid.UUID               { var u uuid.UUID; put(u[:], a.id); return u }
func (a *account) Name() string                { return fmt.Sprintf("account %d", a.id) }
func (a *account) PublicKey() e2types.PublicKey { return fakePub{pubkeyOf(a.id)} }

func (a *account) SignGeneric(_ context.Context, data []byte, domain []byte) (e2types.Signature, error) {
	// RANDAO reveal: the root is the epoch, little endian, zero padded
	epoch := uint64(Unknown)
	if len(data) == 32 {
		epoch = binary.LittleEndian.Uint64(data[:8])
		for _, x := range data[8:] {
			if x != 0 {
				epoch = Unknown
			}
		}
	}
	dt, de := decodeDomain(domain)
	a.rec.add("signrandao", a.id, epoch, dt, de)
	nap(a.in.SignLat)
	if a.in.SigRandao == nil {
		return nil, errors.New("scripted signing failure")
	}
	s := sigOf(*a.in.SigRandao)
	return fakeSig{s[:]}, nil
}

func (a *account) SignBeaconProposal(ctx context.Context, slot uint64, proposerIndex uint64, parentRoot []byte, stateRoot []byte, bodyRoot []byte, domain []byte) (e2types.Signature, error) {
	dt, de := decodeDomain(domain)
	body := uint64(Unknown)
	if len(bodyRoot) == 32 {
		var r [32]byte
		copy(r[:], bodyRoot)
		body = a.tab.id(r, nil)
	}
	parent, state := uint64(Unknown), uint64(Unknown)
	if len(parentRoot) == 32 {
		parent = get(parentRoot)
	}
	if len(stateRoot) == 32 {
		state = get(stateRoot)
	}
	a.rec.addCtx(ctx, "signblock", a.id, slot, proposerIndex, parent, state, body, dt, de)
	err := serve(ctx, a.in.LatSign)
	a.rec.answered(&a.rec.cut.Sign, err)
	if err != nil {
		return nil, err
	}
	if a.in.SigBlock == nil {
		return nil, errors.New("scripted signing failure")
	}
	s := sigOf(*a.in.SigBlock)
	return fakeSig{s[:]}, nil
}

func (a *account) SignBeaconAttestation(context.Context, uint64, uint64, []byte, uint64, []byte, uint64, []byte, []byte) (e2types.Signature, error) {
	a.rec.add("signattestation", a.id)
	return nil, errors.New("not an attestation harness")
}

var _ e2wtypes.AccountProtectingSigner = (*account)(nil)

// plainAccount is a local key: it is handed a signing root only (AccountSigner).  The harness
// recovers what was signed by searching the signing roots of the candidates around the duty: a
// root that is none of them is recorded with Unknown fields.
type plainAccount struct {
	id uint64
	w  *world
}

func (a *plainAccount) ID() uuid.UUID                { var u uuid.UUID; put(u[:], a.id); return u }
func (a *plainAccount) Name() string                 { return fmt.Sprintf("account %d", a.id) }
func (a *plainAccount) PublicKey() e2types.PublicKey { return fakePub{pubkeyOf(a.id)} }

func signingRoot(object phase0.Root, domain phase0.Domain) [32]byte {
	r, err := (&phase0.SigningData{ObjectRoot: object, Domain: domain}).HashTreeRoot()
	if err != nil {
		panic(err)
	}
	return r
}

func (a *plainAccount) Sign(ctx context.Context, data []byte) (e2types.Signature, error) {
	in := a.w.in
	var root [32]byte
	if len(data) == 32 {
		copy(root[:], data)
	}
	epochs := map[uint64]bool{}
	slots := map[uint64]bool{in.Slot: true, in.Slot + 1: true}
	if in.Slot > 0 {
		slots[in.Slot-1] = true
	}
	if in.Proposal != nil && in.Proposal.Block != nil {
		slots[in.Proposal.Block.Slot] = true
	}
	for s := range slots {
		e := s / in.SPE
		epochs[e], epochs[e+1] = true, true
		if e > 0 {
			epochs[e-1] = true
		}
	}
	types := []phase0.DomainType{domainRandao, domainProposer}
	// a RANDAO reveal: the epoch as a root
	for e1 := range epochs {
		var obj phase0.Root
		binary.LittleEndian.PutUint64(obj[:8], e1)
		for e2 := range epochs {
			for _, t := range types {
				if signingRoot(obj, domainOf(t, e2)) == root {
					a.w.rec.add("signrandao", a.id, e1, uint64(t[0]), e2)
					nap(in.SignLat)
					if in.SigRandao == nil {
						return nil, errors.New("scripted signing failure")
					}
					s := sigOf(*in.SigRandao)
					return fakeSig{s[:]}, nil
				}
			}
		}
	}
	// a block header
	if lp := a.w.lastProposal; lp != nil {
		var roots []phase0.Root
		if r, err := lp.ParentRoot(); err == nil {
			roots = append(roots, r)
		}
		if r, err := lp.StateRoot(); err == nil {
			roots = append(roots, r)
		}
		if r, err := lp.BodyRoot(); err == nil {
			roots = append(roots, r)
		}
		indices := map[uint64]bool{in.Validator: true}
		if in.Proposal != nil && in.Proposal.Block != nil {
			indices[in.Proposal.Block.Proposer] = true
		}
		name := func(r phase0.Root) uint64 {
			if id := a.w.tab.id(r, nil); id != Unknown {
				return id
			}
			return get(r[:])
		}
		for sl := range slots {
			for idx := range indices {
				for _, pr := range roots {
					for _, sr := range roots {
						for _, br := range roots {
							hdr := &phase0.BeaconBlockHeader{Slot: phase0.Slot(sl), ProposerIndex: phase0.ValidatorIndex(idx), ParentRoot: pr, StateRoot: sr, BodyRoot: br}
							obj, err := hdr.HashTreeRoot()
							if err != nil {
								continue
							}
							for e2 := range epochs {
								for _, t := range types {
									if signingRoot(obj, domainOf(t, e2)) == root {
										body := a.w.tab.id(br, nil)
										if body == Unknown {
											body = name(br)
										}
										a.w.rec.addCtx(ctx, "signblock", a.id, sl, idx, get(pr[:]), get(sr[:]), body, uint64(t[0]), e2)
										err := serve(ctx, in.LatSign)
										a.w.rec.answered(&a.w.rec.cut.Sign, err)
										if err != nil {
											return nil, err
										}
										if in.SigBlock == nil {
											return nil, errors.New("scripted signing failure")
										}
										s := sigOf(*in.SigBlock)
										return fakeSig{s[:]}, nil
									}
								}
							}
						}
					}
				}
			}
		}
	}
	// none of the candidates
	if a.w.lastProposal == nil {
		a.w.rec.add("signrandao", a.id, Unknown, Unknown, Unknown)
		if in.SigRandao == nil {
			return nil, errors.New("scripted signing failure")
		}
		s := sigOf(*in.SigRandao)
		return fakeSig{s[:]}, nil
	}
	a.w.rec.addCtx(ctx, "signblock", a.id, Unknown, Unknown, Unknown, Unknown, Unknown, Unknown, Unknown)
	if err := serve(ctx, in.LatSign); err != nil {
		a.w.rec.answered(&a.w.rec.cut.Sign, err)
		return nil, err
	}
	a.w.rec.answered(nil, nil)
	if in.SigBlock == nil {
		return nil, errors.New("scripted signing failure")
	}
	s := sigOf(*in.SigBlock)
	return fakeSig{s[:]}, nil
}

var _ e2wtypes.AccountSigner = (*plainAccount)(nil)

func (w *world) newAccount(id uint64) e2wtypes.Account {
	if w.in.Plain {
		return &plainAccount{id: id, w: w}
	}
	return &account{id: id, rec: w.rec, in: w.in, tab: w.tab}
}

// ---------------------------------------------------------------------------------------------
// Providers.

// world is the environment of ONE duty: its answers, and the record of what was asked on its behalf.
type world struct {
	in  *Input // the duty's environment answers
	rec *recorder
	tab *bodyTable
	// the proposal last handed to vouch (the plain account searches its roots)
	lastProposal *api.VersionedProposal
	// the relays of the duty
	relays    []builderclient.BuilderBidProvider
	proposing bool
}

func newWorld(d *Input, tab *bodyTable) *world {
	w := &world{in: d, rec: &recorder{start: time.Now()}, tab: tab}
	w.relays = make([]builderclient.BuilderBidProvider, len(d.Relays))
	for i, r := range d.Relays {
		if r.Can {
			w.relays[i] = &relayCan{relayBase: relayBase{w: w, i: i}}
		} else {
			w.relays[i] = &relayBase{w: w, i: i}
		}
	}
	w.rec.calls = make([][]Call, len(d.Relays))
	return w
}

// begin starts a fresh record: one Prepare or Propose call for this duty follows.
func (w *world) begin(proposing bool) {
	w.rec.mu.Lock()
	w.lastProposal = nil
	w.proposing = proposing
	w.rec.start = time.Now()
	w.rec.events = nil
	w.rec.calls = make([][]Call, len(w.in.Relays))
	w.rec.submit = nil
	w.rec.t0, w.rec.cut, w.rec.subCut = 0, Cuts{}, false
	w.rec.nodeClient = 0
	w.rec.mu.Unlock()
}

// router is what the ONE proposer service and the ONE signer of a history are constructed with.  A
// request is answered by the world of the duty on whose behalf it is made: the harness hands every
// Prepare / Propose call a context that names its duty, and vouch passes the context of a call on
// to everything it asks (a request with a context that names no duty goes to the duty whose call
// started last).  So calls for different duties may overlap in time.
type ctxKey struct{}

type router struct {
	head *Input
	mu   sync.Mutex
	cur  *world
}

func (r *router) with(ctx context.Context, w *world) context.Context {
	r.mu.Lock()
	r.cur = w
	r.mu.Unlock()
	return context.WithValue(ctx, ctxKey{}, w)
}

func (r *router) of(ctx context.Context) *world {
	if w, ok := ctx.Value(ctxKey{}).(*world); ok {
		return w
	}
	r.mu.Lock()
	defer r.mu.Unlock()
	return r.cur
}

func (r *router) ValidatingAccountsForEpoch(ctx context.Context, e phase0.Epoch) (map[phase0.ValidatorIndex]e2wtypes.Account, error) {
	return r.of(ctx).ValidatingAccountsForEpoch(ctx, e)
}
func (r *router) SyncCommitteeAccountsForEpoch(ctx context.Context, e phase0.Epoch) (map[phase0.ValidatorIndex]e2wtypes.Account, error) {
	return r.of(ctx).SyncCommitteeAccountsForEpoch(ctx, e)
}
func (r *router) SyncCommitteeAccountsForEpochByIndex(ctx context.Context, e phase0.Epoch, idx []phase0.ValidatorIndex) (map[phase0.ValidatorIndex]e2wtypes.Account, error) {
	return r.of(ctx).SyncCommitteeAccountsForEpochByIndex(ctx, e, idx)
}
func (r *router) ValidatingAccountsForEpochByIndex(ctx context.Context, e phase0.Epoch, idx []phase0.ValidatorIndex) (map[phase0.ValidatorIndex]e2wtypes.Account, error) {
	return r.of(ctx).ValidatingAccountsForEpochByIndex(ctx, e, idx)
}
func (r *router) Spec(context.Context, *api.SpecOpts) (*api.Response[map[string]any], error) {
	return (&world{in: r.head}).Spec(nil, nil)
}
func (r *router) Domain(ctx context.Context, dt phase0.DomainType, e phase0.Epoch) (phase0.Domain, error) {
	return r.of(ctx).Domain(ctx, dt, e)
}
func (r *router) GenesisDomain(ctx context.Context, dt phase0.DomainType) (phase0.Domain, error) {
	return r.of(ctx).GenesisDomain(ctx, dt)
}
func (r *router) ExecutionChainHead(ctx context.Context) (phase0.Hash32, uint64) {
	return r.of(ctx).ExecutionChainHead(ctx)
}
func (r *router) Proposal(ctx context.Context, opts *api.ProposalOpts) (*api.Response[*api.VersionedProposal], error) {
	return r.of(ctx).Proposal(ctx, opts)
}
func (r *router) SubmitProposal(ctx context.Context, sp *api.VersionedSignedProposal) error {
	return r.of(ctx).SubmitProposal(ctx, sp)
}

type rGraffiti struct{ r *router }

func (g rGraffiti) Graffiti(ctx context.Context, slot phase0.Slot, idx phase0.ValidatorIndex) ([]byte, error) {
	return graffiti{g.r.of(ctx)}.Graffiti(ctx, slot, idx)
}

type rAuctioneer struct{ r *router }

func (a rAuctioneer) AuctionBlock(ctx context.Context, slot phase0.Slot, parentHash phase0.Hash32, pubkey phase0.BLSPubKey) (*blockauctioneer.Results, error) {
	return (&auctioneer{w: a.r.of(ctx)}).AuctionBlock(ctx, slot, parentHash, pubkey)
}

// a mock that takes its time (fake time inside the bubble), so that calls for different duties overlap
func nap(ms uint64) {
	if ms > 0 {
		time.Sleep(time.Duration(ms) * time.Millisecond)
	}
}

// accounts provider
func (w *world) ValidatingAccountsForEpoch(context.Context, phase0.Epoch) (map[phase0.ValidatorIndex]e2wtypes.Account, error) {
	w.rec.add("allaccounts")
	return nil, errors.New("not scripted")
}

func (w *world) SyncCommitteeAccountsForEpoch(context.Context, phase0.Epoch) (map[phase0.ValidatorIndex]e2wtypes.Account, error) {
	w.rec.add("allaccounts")
	return nil, errors.New("not scripted")
}

func (w *world) SyncCommitteeAccountsForEpochByIndex(context.Context, phase0.Epoch, []phase0.ValidatorIndex) (map[phase0.ValidatorIndex]e2wtypes.Account, error) {
	w.rec.add("allaccounts")
	return nil, errors.New("not scripted")
}

func (w *world) ValidatingAccountsForEpochByIndex(_ context.Context, epoch phase0.Epoch, indices []phase0.ValidatorIndex) (map[phase0.ValidatorIndex]e2wtypes.Account, error) {
	ev := Event{Kind: "accounts", Args: []uint64{uint64(epoch)}, List: []uint64{}}
	for _, i := range indices {
		ev.List = append(ev.List, uint64(i))
	}
	w.rec.mu.Lock()
	w.rec.events = append(w.rec.events, ev)
	w.rec.mu.Unlock()
	nap(w.in.AccLat)
	if w.in.Accounts == nil {
		return nil, errors.New("scripted accounts failure")
	}
	m := map[phase0.ValidatorIndex]e2wtypes.Account{}
	for _, e := range *w.in.Accounts {
		if e.Account == nil {
			m[phase0.ValidatorIndex(e.Index)] = nil
		} else {
			m[phase0.ValidatorIndex(e.Index)] = w.newAccount(*e.Account)
		}
	}
	return m, nil
}

// spec provider (signer)
func (w *world) Spec(context.Context, *api.SpecOpts) (*api.Response[map[string]any], error) {
	return &api.Response[map[string]any]{Metadata: map[string]any{}, Data: map[string]any{
		"SLOTS_PER_EPOCH":            w.in.SPE,
		"DOMAIN_BEACON_ATTESTER":     phase0.DomainType{1, 0, 0, 0},
		"DOMAIN_BEACON_PROPOSER":     domainProposer,
		"DOMAIN_RANDAO":              domainRandao,
		"DOMAIN_SELECTION_PROOF":     phase0.DomainType{5, 0, 0, 0},
		"DOMAIN_AGGREGATE_AND_PROOF": phase0.DomainType{6, 0, 0, 0},
	}}, nil
}

// domain provider (signer)
func (w *world) Domain(ctx context.Context, dt phase0.DomainType, epoch phase0.Epoch) (phase0.Domain, error) {
	t := uint64(dt[0])
	if dt[1] != 0 || dt[2] != 0 || dt[3] != 0 {
		t = Unknown
	}
	w.rec.addCtx(ctx, "domain", t, uint64(epoch))
	if w.proposing {
		// the signer's request on behalf of Propose (Prepare's calls may run outside a bubble: no waiting there)
		err := serve(ctx, w.in.LatDomain)
		w.rec.answered(&w.rec.cut.Domain, err)
		if err != nil {
			return phase0.Domain{}, err
		}
	}
	ok := true
	switch dt {
	case domainRandao:
		ok = w.in.DomRandao
	case domainProposer:
		ok = w.in.DomBlock
	}
	if !ok {
		return phase0.Domain{}, errors.New("scripted domain failure")
	}
	return domainOf(dt, uint64(epoch)), nil
}

func (w *world) GenesisDomain(_ context.Context, dt phase0.DomainType) (phase0.Domain, error) {
	w.rec.add("genesisdomain", uint64(dt[0]))
	return domainOf(dt, 0), nil
}

// graffiti provider
type graffiti struct{ w *world }

func (g graffiti) Graffiti(ctx context.Context, slot phase0.Slot, idx phase0.ValidatorIndex) ([]byte, error) {
	g.w.rec.addCtx(ctx, "graffiti", uint64(slot), uint64(idx))
	err := serve(ctx, g.w.in.LatGraffiti)
	g.w.rec.answered(&g.w.rec.cut.Graffiti, err)
	if err != nil {
		return nil, err
	}
	if g.w.in.Graffiti == "err" {
		return nil, errors.New("scripted graffiti failure")
	}
	if g.w.in.GraffitiText != nil {
		return []byte(*g.w.in.GraffitiText), nil
	}
	return graffitiOf(g.w.in.GraffitiVal), nil
}

// execution chain head
func (w *world) ExecutionChainHead(context.Context) (phase0.Hash32, uint64) {
	return hashOf(w.in.Head), 12345
}

// relays
type relayBase struct {
	w *world // the duty this relay object belongs to
	i int
}

func (r *relayBase) Name() string              { return fmt.Sprintf("relay%d", r.i) }
func (r *relayBase) Address() string           { return fmt.Sprintf("relay%d:18550", r.i) }
func (r *relayBase) Pubkey() *phase0.BLSPubKey { return nil }
func (r *relayBase) BuilderBid(context.Context, *builderapi.BuilderBidOpts) (*builderapi.Response[*builderspec.VersionedSignedBuilderBid], error) {
	r.w.rec.add("builderbid", uint64(r.i))
	return nil, errors.New("the auction is scripted")
}

type relayCan struct {
	relayBase
	mu sync.Mutex
	n  int
}

func (r *relayCan) UnblindProposal(ctx context.Context, opts *builderapi.UnblindProposalOpts) (*builderapi.Response[*api.VersionedSignedProposal], error) {
	start := r.w.rec.since()
	var req Req
	if opts == nil {
		req = Req{Version: Unknown}
	} else {
		req = r.w.tab.decodeReq(opts.Proposal)
	}
	r.mu.Lock()
	k := r.n
	r.n++
	r.mu.Unlock()
	r.w.rec.mu.Lock()
	if !r.w.proposing || r.i >= len(r.w.rec.calls) {
		// a relay of this duty asked while the duty is not being proposed (on behalf of another duty)
		r.w.rec.events = append(r.w.rec.events, Event{Kind: "strayunblind", Args: []uint64{uint64(r.i)}})
	} else {
		r.w.rec.calls[r.i] = append(r.w.rec.calls[r.i], Call{Start: start, Req: req})
	}
	r.w.rec.mu.Unlock()
	out := UOut{Kind: "err"}
	if k < len(r.w.in.Relays[r.i].Script) {
		out = r.w.in.Relays[r.i].Script[k]
	}
	if out.Kind == "hang" {
		<-ctx.Done()
		time.Sleep(time.Duration(out.Lat) * time.Millisecond)
		return nil, ctx.Err()
	}
	time.Sleep(time.Duration(out.Lat) * time.Millisecond)
	switch out.Kind {
	case "ok":
		return &builderapi.Response[*api.VersionedSignedProposal]{Data: r.w.tab.buildFull(req.Version, *out.Block), Metadata: map[string]any{}}, nil
	case "echo":
		if len(req.Conts) == 0 {
			return &builderapi.Response[*api.VersionedSignedProposal]{Data: &api.VersionedSignedProposal{Version: spec.DataVersion(req.Version)}, Metadata: map[string]any{}}, nil
		}
		b := req.Conts[0].Block
		b.Blobs = out.Blobs
		return &builderapi.Response[*api.VersionedSignedProposal]{Data: r.w.tab.buildFull(req.Version, b), Metadata: map[string]any{}}, nil
	case "400":
		return nil, errors.New("failed to submit unblind proposal request: POST failed with status 400: no such payload")
	case "nil":
		return nil, nil
	default:
		return nil, errors.New("failed to submit unblind proposal request: POST failed with status 500: try later")
	}
}

var (
	_ builderclient.BuilderBidProvider        = (*relayBase)(nil)
	_ builderclient.UnblindedProposalProvider = (*relayCan)(nil)
)

// auctioneer
type auctioneer struct {
	w *world
}

func (a *auctioneer) AuctionBlock(ctx context.Context, slot phase0.Slot, parentHash phase0.Hash32, pubkey phase0.BLSPubKey) (*blockauctioneer.Results, error) {
	a.w.rec.addCtx(ctx, "auction", uint64(slot), get(parentHash[:]), get(pubkey[:]))
	err := serve(ctx, a.w.in.LatAuction)
	a.w.rec.answered(&a.w.rec.cut.Auction, err)
	if err != nil {
		return nil, err
	}
	if a.w.in.Auction == "err" {
		return nil, errors.New("scripted auction failure")
	}
	res := &blockauctioneer.Results{Participation: map[string]*blockauctioneer.Participation{}}
	res.AllProviders = []builderclient.BuilderBidProvider{}
	res.Providers = []builderclient.BuilderBidProvider{}
	for _, i := range a.w.in.All {
		res.AllProviders = append(res.AllProviders, a.w.relays[i])
	}
	for _, i := range a.w.in.Winners {
		res.Providers = append(res.Providers, a.w.relays[i])
	}
	return res, nil
}

// beacon node
func (w *world) Proposal(ctx context.Context, opts *api.ProposalOpts) (*api.Response[*api.VersionedProposal], error) {
	boost := uint64(Unknown)
	if opts.BuilderBoostFactor != nil {
		boost = *opts.BuilderBoostFactor
	}
	w.rec.addCtx(ctx, "proposal", uint64(opts.Slot), get(opts.RandaoReveal[:]), get(opts.Graffiti[:]), boost)
	w.rec.bigGraffiti(opts.Graffiti[:])
	err := serve(ctx, w.in.LatProposal)
	w.rec.answered(&w.rec.cut.Proposal, err)
	if err != nil {
		return nil, err
	}
	if w.in.Proposal == nil {
		return nil, errors.New("scripted proposal failure")
	}
	w.lastProposal = w.tab.buildProposal(w.in.Proposal)
	return &api.Response[*api.VersionedProposal]{Data: w.lastProposal, Metadata: map[string]any{}}, nil
}

// submitter
type Submit struct {
	At      uint64 `json:"at"`
	Version uint64 `json:"version"`
	Blinded bool   `json:"blinded"`
	Conts   []Cont `json:"conts"`
	Count   int    `json:"count"`
}

func (w *world) SubmitProposal(ctx context.Context, sp *api.VersionedSignedProposal) error {
	at := w.rec.since()
	s := &Submit{At: at, Version: Unknown, Count: 1}
	if sp != nil {
		s.Version, s.Blinded, s.Conts = uint64(sp.Version), sp.Blinded, w.tab.decodeConts(sp)
	}
	w.rec.mu.Lock()
	if w.rec.submit != nil {
		s.Count = w.rec.submit.Count + 1
	}
	w.rec.submit = s
	w.rec.mu.Unlock()
	if err := serve(ctx, w.in.LatSubmit); err != nil {
		w.rec.mu.Lock()
		w.rec.subCut = true
		w.rec.mu.Unlock()
		return err
	}
	if !w.in.SubmitOK {
		return errors.New("scripted submission failure")
	}
	return nil
}
