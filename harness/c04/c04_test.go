// C04: drives the real services/attester/standard.Service through one observed Attest call per case,
// preceded by calls that make a chosen subset of its validators "already attested", with chosen
// subsets account-less or left unsigned, over duties of 1-12 validators in 1-4 committees of
// different sizes in shuffled order; and (family "merged-duties") through one Attest call per slot
// on the duty objects the real attester.MergeDuties builds from a beacon node's answer covering
// several slots, in which the same committee index has different lengths at different slots; and
// (families "overlap", "merged-overlap") through calls for different slots that overlap on the one
// service, as the scheduler's per-slot jobs do.  The service is built with a process concurrency of
// 1 to 64 (main.go passes the number of cores; above 1 in three quarters of the cases) and, in half of the
// cases, the signer's latency differs from account to account (family "split-sign": both).  Prints the
// case for Check.C04.
package c04

import (
	"context"
	"fmt"
	"os"
	"sort"
	"testing"

	apiv1 "github.com/attestantio/go-eth2-client/api/v1"
	"github.com/attestantio/go-eth2-client/spec/phase0"
	"github.com/attestantio/vouch/services/attester"

	. "verifharness/attenv"
	. "verifharness/common"
)

// ApiDuty is one row of the beacon node's attester duties answer.
type ApiDuty struct {
	Slot uint64 `json:"slot"`
	Val  uint64 `json:"val"`
	Comm uint64 `json:"comm"`
	Pos  uint64 `json:"pos"`
	Len  uint64 `json:"len"`
	Cas  uint64 `json:"cas"`
}

// Input is a history (flattened: spe, runs, trace_log, tags) plus, optionally, a beacon node answer
// that is merged by the real MergeDuties; run i with FromApi[i] is given the merged duty object of
// slot Runs[i].Duty.Slot (the other fields of Runs[i].Duty are not used then).
//
// Concurrency is the process concurrency the attester service is configured with (0: 1; main.go
// passes util.ProcessConcurrency, the number of cores by default).  SignLat[i], when not empty, gives
// the latency of the signer per account for call i as (validator, latency) pairs: a signing request is
// answered after the largest latency of the accounts it names, Timing.Sign for an account without an
// entry (attenv/c04_conc.go).  Generated entries are never above Timing.Sign, and where calls
// overlap one account that is certain to be asked for has no entry, so that a call that asks once
// for all its accounts waits exactly Timing.Sign.
type Input struct {
	History
	Api         []ApiDuty     `json:"api,omitempty"`
	FromApi     []bool        `json:"from_api,omitempty"`
	Concurrency int64         `json:"concurrency,omitempty"`
	SignLat     [][][2]uint64 `json:"sign_lat,omitempty"`
}

func (in Input) extra() Extra { return Extra{Concurrency: in.Concurrency, SignLat: in.SignLat} }

// dutyVals: the validators of call i's duty, read off the input
func dutyVals(in Input, i int) []uint64 {
	if !in.fromApi(i) {
		return in.Runs[i].Duty.Vals
	}
	var vals []uint64
	for _, a := range in.Api {
		if a.Slot == in.Runs[i].Duty.Slot {
			vals = append(vals, a.Val)
		}
	}
	return vals
}

// vary chooses the process concurrency of the service (above 1 in three quarters of the cases, always
// when force) and, in half of the cases (always when force), per-account latencies of the signer for
// every call that is certain to ask for an account that only it can ask for (a validator of its duty
// alone, with an account): that account keeps Timing.Sign, the others get distinct shorter
// latencies.  stretch: the calls run one after another with long gaps, so the signer's latency
// may be made longer (more distinct latencies fit below it).
func vary(r *Rand, in *Input, force, stretch bool) []string {
	var tags []string
	in.Concurrency = []int64{1, 1, 2, 2, 3, 4, 8, 16}[r.Intn(8)]
	if force || r.Chance(1, 9) {
		in.Concurrency = []int64{2, 2, 3, 4, 5, 8, 16, 64}[r.Intn(8)]
	}
	if in.Concurrency > 1 {
		tags = append(tags, "concurrency-above-1")
	}
	if !force && !r.Bool() {
		return tags
	}
	lat := make([][][2]uint64, len(in.Runs))
	some := false
	for i := range in.Runs {
		run := &in.Runs[i]
		vals := dutyVals(*in, i)
		var certain []uint64
		for _, v := range vals {
			ok := containsU(run.Script.Accounts, v)
			for j := range in.Runs {
				ok = ok && (j == i || !containsU(dutyVals(*in, j), v))
			}
			if ok && !containsU(certain, v) {
				certain = append(certain, v)
			}
		}
		if len(certain) == 0 {
			continue
		}
		if stretch {
			run.Timing.Sign = uint64(K * r.Range(8, 40))
		}
		steps := int(run.Timing.Sign/K) - 1 // latencies K, 2K, ..., steps*K: all below Timing.Sign
		if steps < 1 {
			continue
		}
		anchor := certain[r.Intn(len(certain))]
		perm := r.Perm(steps)
		k := 0
		for _, v := range sorted(vals) {
			if v == anchor || !containsU(run.Script.Accounts, v) {
				continue
			}
			lat[i] = append(lat[i], [2]uint64{v, uint64(K * (1 + perm[k%steps]))})
			k++
		}
		some = some || len(lat[i]) > 0
	}
	if some {
		in.SignLat = lat
		tags = append(tags, "sign-latency-per-account")
		if in.Concurrency > 1 {
			tags = append(tags, "split-sign")
		}
	}
	return tags
}

func (in Input) fromApi(i int) bool { return i < len(in.FromApi) && in.FromApi[i] }

func (in Input) usesApi() bool {
	for i := range in.Runs {
		if in.fromApi(i) {
			return true
		}
	}
	return len(in.Api) > 0
}

// runInput drives the real code: MergeDuties over the answer (when there is one), then the history.
// It returns what was observed, the merged duties as read back through the accessors before any
// call of Attest, and the history to print (runs from the api carry the observed merged duty).
func runInput(t *testing.T, in Input) (Observed, []Duty, History) {
	if !in.usesApi() {
		// the same runner and mocks (attenv/c04_overlap.go) as on the merged path
		return RunHistoryC04(t, in.History, nil, in.extra()), nil, in.History
	}
	var objs []*attester.Duty
	var merged []Duty
	mergeProblem := ""
	obs := RunHistoryC04(t, in.History, func(ctx context.Context) ([]*attester.Duty, []bool) {
		rows := make([]*apiv1.AttesterDuty, len(in.Api))
		for i, a := range in.Api {
			rows[i] = &apiv1.AttesterDuty{Slot: phase0.Slot(a.Slot), ValidatorIndex: phase0.ValidatorIndex(a.Val),
				CommitteeIndex: phase0.CommitteeIndex(a.Comm), ValidatorCommitteeIndex: a.Pos, CommitteeLength: a.Len,
				CommitteesAtSlot: a.Cas}
		}
		func() {
			defer func() {
				if r := recover(); r != nil {
					mergeProblem = fmt.Sprintf("MergeDuties panicked: %v", r)
				}
			}()
			ds, err := attester.MergeDuties(ctx, rows)
			if err != nil {
				mergeProblem = "MergeDuties failed: " + err.Error()
				return
			}
			objs = ds
		}()
		// the order of the duties in MergeDuties' result is not C04's matter: by slot here
		sort.SliceStable(objs, func(a, b int) bool { return objs[a].Slot() < objs[b].Slot() })
		for _, d := range objs {
			merged = append(merged, ReadDuty(d))
		}
		given := make([]*attester.Duty, len(in.Runs))
		skip := make([]bool, len(in.Runs))
		for i := range in.Runs {
			if !in.fromApi(i) {
				continue
			}
			for _, d := range objs {
				if uint64(d.Slot()) == in.Runs[i].Duty.Slot {
					given[i] = d
					break
				}
			}
			skip[i] = given[i] == nil // no duty for that slot: nothing to call Attest with
		}
		return given, skip
	}, in.extra())
	if mergeProblem != "" && obs.Problem == "" {
		obs.Problem = mergeProblem
	}
	// Attest must leave the duty objects as they were (they may be handed to it again)
	for k, d := range objs {
		if fmt.Sprint(ReadDuty(d)) != fmt.Sprint(merged[k]) && obs.Problem == "" {
			obs.Problem = fmt.Sprintf("Attest changed the duty of slot %d", merged[k].Slot)
		}
	}
	hp := in.History
	hp.Runs = append([]Run{}, in.Runs...)
	for i := range hp.Runs {
		if !in.fromApi(i) {
			continue
		}
		d := Duty{Slot: in.Runs[i].Duty.Slot}
		for _, m := range merged {
			if m.Slot == d.Slot {
				d = m
				break
			}
		}
		hp.Runs[i].Duty = d
	}
	return obs, merged, hp
}

func caseTerm(id uint64, in Input, hp History, obs Observed, merged []Duty) string {
	api := make([]string, len(in.Api))
	for i, a := range in.Api {
		api[i] = Record("ad_slot", N(a.Slot), "ad_val", N(a.Val), "ad_comm", N(a.Comm), "ad_pos", N(a.Pos), "ad_len", N(a.Len), "ad_cas", N(a.Cas))
	}
	from := make([]string, len(in.Runs))
	for i := range in.Runs {
		from[i] = Bool(in.fromApi(i))
	}
	ms := make([]string, len(merged))
	for i, m := range merged {
		ms[i] = DutyTerm(m)
	}
	return Record("k_base", Term(id, hp, obs), "k_api", List(api), "k_from", List(from), "k_merged", List(ms))
}

// genMerged: a beacon node answer for 2-4 slots of one epoch in which the same committee indices
// occur at every slot with lengths that differ from slot to slot (as on a real chain whenever the
// number of active validators is not a multiple of the number of committees), merged by the real
// MergeDuties; one Attest call per slot on the merged duty objects.
func genMerged(r *Rand, traceLog bool) (Input, []string) {
	in := Input{History: History{SPE: []uint64{4, 8, 32}[r.Intn(3)], TraceLog: traceLog}}
	h := &in.History
	fam := map[string]bool{"merged-duties": true}
	epoch := uint64(r.Range(0, 60))
	nslots := r.Range(2, 4)
	span := h.SPE
	if r.Chance(1, 4) {
		span = 2 * h.SPE // the answer covers two epochs: a validator may have a duty in each
		fam["merged-two-epochs"] = true
	}
	offs := map[uint64]bool{}
	var slots []uint64
	for len(slots) < nslots {
		o := uint64(r.Intn(int(span)))
		if !offs[o] {
			offs[o] = true
			slots = append(slots, epoch*h.SPE+o)
		}
	}
	sort.Slice(slots, func(a, b int) bool { return slots[a] < slots[b] })
	ncomm := r.Range(1, 3)
	base := 6
	if r.Chance(1, 8) {
		base = 2043 // lengths around MAX_VALIDATORS_PER_COMMITTEE (2048), some beyond it
		fam["merged-big-committees"] = true
	}
	size := make([][]uint64, nslots) // size[k][c]
	for k := range size {
		size[k] = make([]uint64, ncomm)
		for c := range size[k] {
			// 7, 8, 9 straddle a byte of the bitlist
			size[k][c] = uint64(base + 3*c + r.Intn(3))
		}
	}
	// the committee of the first validators of the first two slots has different lengths there
	c0 := r.Intn(ncomm)
	if size[0][c0] == size[1][c0] {
		if r.Bool() {
			size[1][c0]++
		} else {
			size[0][c0]++
		}
	}
	n := r.Range(2, 10)
	seen := map[uint64]bool{}
	usedPos := map[[3]uint64]bool{}
	valsAt := make([][]uint64, nslots)
	var all []uint64
	epochsOf := map[uint64][]uint64{} // validator -> epochs in which it has a duty already
	for i := 0; i < n; i++ {
		k, c := r.Intn(nslots), r.Intn(ncomm)
		if i < 2 {
			k, c = i, c0
		}
		v := uint64(r.Range(0, 40))
		for seen[v] {
			v = uint64(r.Range(0, 40))
		}
		if len(all) > 0 && span > h.SPE && r.Chance(1, 2) {
			// a validator of another slot once more, if that slot is in another epoch
			w := all[r.Intn(len(all))]
			if !containsU(epochsOf[w], slots[k]/h.SPE) {
				v = w
				fam["merged-validator-in-two-epochs"] = true
			}
		}
		seen[v] = true
		epochsOf[v] = append(epochsOf[v], slots[k]/h.SPE)
		sz := size[k][c]
		pos := uint64(r.Intn(int(sz)))
		if r.Chance(1, 4) {
			pos = sz - 1 // the last position: beyond the end of any shorter bitlist
			fam["merged-last-position"] = true
		}
		for tries := 0; usedPos[[3]uint64{uint64(k), uint64(c), pos}] && tries < 8; tries++ {
			pos = uint64(r.Intn(int(sz)))
		}
		usedPos[[3]uint64{uint64(k), uint64(c), pos}] = true
		in.Api = append(in.Api, ApiDuty{Slot: slots[k], Val: v, Comm: uint64(c), Pos: pos, Len: sz, Cas: uint64(ncomm)})
		valsAt[k] = append(valsAt[k], v)
		if !containsU(all, v) {
			all = append(all, v)
		}
	}
	// the beacon node's answer is in no particular order
	for i := len(in.Api) - 1; i > 0; i-- {
		j := r.Intn(i + 1)
		in.Api[i], in.Api[j] = in.Api[j], in.Api[i]
	}
	var pre, noacct, unsigned []uint64
	for _, v := range all {
		switch r.Intn(12) {
		case 0:
			pre = append(pre, v)
			fam["merged-skip-attested"] = true
		case 1:
			noacct = append(noacct, v)
			fam["merged-skip-accountless"] = true
		case 2:
			unsigned = append(unsigned, v)
			fam["merged-skip-unsigned"] = true
		}
	}
	if len(pre) > 0 {
		// an earlier call of the same epoch (duty built directly) marks them as already attested
		pslot := (slots[r.Intn(nslots)]/h.SPE)*h.SPE + uint64(r.Intn(int(h.SPE)))
		pd := Duty{Slot: pslot, Sizes: [][2]uint64{{9, 64}}}
		for i, v := range pre {
			pd.Vals = append(pd.Vals, v)
			pd.Comms = append(pd.Comms, 9)
			pd.Poss = append(pd.Poss, uint64(i))
		}
		h.Runs = append(h.Runs, Run{Duty: pd, Script: Script{Data: goodData(r, h.SPE, pslot), Accounts: sorted(pre)}, Timing: seqTiming(r, 0)})
		in.FromApi = append(in.FromApi, false)
	}
	// the account manager knows the validators of all slots
	var accts []uint64
	for _, v := range all {
		if !containsU(noacct, v) {
			accts = append(accts, v)
		}
	}
	if r.Chance(1, 3) {
		accts = append(accts, 77, 78)
	}
	var order []int // the slots that have a duty, in slot order
	for k := 0; k < nslots; k++ {
		if len(valsAt[k]) > 0 {
			order = append(order, k)
		}
	}
	if r.Chance(1, 5) {
		for i := len(order) - 1; i > 0; i-- {
			j := r.Intn(i + 1)
			order[i], order[j] = order[j], order[i]
		}
		fam["merged-slots-out-of-order"] = true
	}
	if r.Chance(1, 6) {
		order = append(order, order[r.Intn(len(order))]) // the same duty object once more
		fam["merged-redelivered"] = true
	}
	var apiRuns []int
	for _, k := range order {
		s := Script{Data: goodData(r, h.SPE, slots[k]), Accounts: sorted(accts), Unsigned: sorted(unsigned)}
		if r.Chance(1, 30) {
			s.SubmitErr = true
		}
		apiRuns = append(apiRuns, len(h.Runs))
		h.Runs = append(h.Runs, Run{Duty: Duty{Slot: slots[k]}, Script: s, Timing: seqTiming(r, len(h.Runs))})
		in.FromApi = append(in.FromApi, true)
	}
	if len(apiRuns) > 1 && r.Chance(1, 3) {
		// the calls for the slots overlap on the one service (a slot's job still waiting for its
		// signatures, or for the beacon nodes, when the next slot's job starts)
		mode := pickOverlapMode(r)
		for j, tm := range overlapTimings(r, 1000*apiRuns[0]+10, apiRuns, mode) {
			h.Runs[apiRuns[j]].Timing = tm
		}
		fam["merged-overlap"] = true
		fam["overlap-"+overlapModes[mode]] = true
	}
	var tags []string
	for f := range fam {
		tags = append(tags, f)
	}
	sort.Strings(tags)
	return in, tags
}

// sorted: the elements in ascending order, each once (an account map has no validator twice)
func sorted(xs []uint64) []uint64 {
	out := append([]uint64{}, xs...)
	sort.Slice(out, func(i, j int) bool { return out[i] < out[j] })
	uniq := out[:0]
	for i, x := range out {
		if i == 0 || x != out[i-1] {
			uniq = append(uniq, x)
		}
	}
	return uniq
}

func goodData(r *Rand, spe, slot uint64) Data {
	e := slot / spe
	d := Data{Slot: slot, Root: uint64(r.Range(1, 1000)), Tgt: e, TgtRoot: uint64(r.Range(1, 1000)), SrcRoot: uint64(r.Range(1, 1000))}
	if e > 0 {
		d.Src = e - 1
	}
	return d
}

func seqTiming(r *Rand, i int) Timing {
	return Timing{Start: uint64(K*1000*i + i), Fetch: uint64(K * r.Range(1, 5)), Accounts: uint64(K * r.Range(1, 5)),
		Sign: uint64(K * r.Range(1, 5)), Submit: uint64(K * r.Range(1, 5))}
}

// Overlapping calls.  The scheduler runs one attestation job per slot, each calling Attest on the one
// service with no mutual exclusion; a call that waits (for the attestation data, the accounts, a slow
// remote signer, the beacon nodes) is overlapped by the call for the next slot, or by a late call for
// an earlier one.  overlapTimings lays the calls idx (run indices, the first is the waiting call A)
// out accordingly; base is A's start in units of K.  Modes:
//
//	sign-window     A's signer is slow; every other call receives its accounts -- and so fills its
//	                per-validator arrays and calls its own signer -- while A waits for its signatures
//	submit-window   A's submission is slow; the others build their attestations meanwhile
//	accounts-window A's accounts provider is slow; the others receive their attestation data meanwhile
//	random          starts within a short span, any latencies
var overlapModes = []string{"sign-window", "submit-window", "accounts-window", "random"}

func pickOverlapMode(r *Rand) int {
	switch x := r.Intn(20); {
	case x < 10:
		return 0
	case x < 13:
		return 1
	case x < 16:
		return 2
	}
	return 3
}

func overlapTimings(r *Rand, base int, idx []int, mode int) []Timing {
	lat := func(lo, hi int) uint64 { return uint64(K * r.Range(lo, hi)) }
	ts := make([]Timing, len(idx))
	if mode == 3 {
		for j, i := range idx {
			ts[j] = Timing{Start: uint64(K*(base+r.Intn(30)) + i), Fetch: lat(1, 20), Accounts: lat(1, 10), Sign: lat(1, 20), Submit: lat(1, 20)}
		}
		return ts
	}
	f, a, sg, sb := r.Range(1, 4), r.Range(1, 4), r.Range(1, 4), r.Range(1, 4)
	long := r.Range(20, 40)
	win := 0 // start of A's long wait, in units of K after A's start
	switch mode {
	case 0:
		sg, win = long, f+a
	case 1:
		sb, win = long, f+a+sg
	default:
		a, win = long, f
	}
	ts[0] = Timing{Start: uint64(K*base + idx[0]), Fetch: uint64(K * f), Accounts: uint64(K * a), Sign: uint64(K * sg), Submit: uint64(K * sb)}
	for j := 1; j < len(idx); j++ {
		bf, ba, bs := r.Range(1, 3), r.Range(1, 3), r.Range(1, 3)
		off := bf // the instant of this call that falls into A's wait, in units of K after its start
		switch mode {
		case 0:
			off = bf + ba
		case 1:
			off = bf + ba + bs
		}
		x := r.Range(1, long-2)
		t := Timing{Start: uint64(K*(base+win+x-off) + idx[j]), Fetch: uint64(K * bf), Accounts: uint64(K * ba), Sign: uint64(K * bs), Submit: lat(1, 30)}
		if mode != 1 {
			t.Sign = lat(1, 30) // returns before or after A's wait is over
		}
		ts[j] = t
	}
	return ts
}

// genOverlap: 2-3 duties of different slots (of one epoch, or of two consecutive epochs with the
// same validators), each with its own committees, positions and committee sizes, attested by
// overlapping calls on the one service; before them, sometimes, an earlier call that marks some
// validators as already attested (and is the largest duty the service has seen).
func genOverlap(r *Rand, traceLog bool) (History, []string) {
	h := History{SPE: []uint64{4, 8, 32}[r.Intn(3)], TraceLog: traceLog}
	fam := map[string]bool{"overlap": true}
	epoch := uint64(r.Range(0, 60))
	nmain := 2
	if r.Chance(3, 10) {
		nmain = 3
	}
	twoEpochs := r.Chance(2, 5)
	slots := make([]uint64, 0, nmain)
	usedSlot := map[uint64]bool{}
	for len(slots) < nmain {
		e := epoch
		if twoEpochs && len(slots) > 0 && (len(slots) == 1 || r.Bool()) {
			e = epoch + 1
		}
		sl := e*h.SPE + uint64(r.Intn(int(h.SPE)))
		if !usedSlot[sl] {
			usedSlot[sl] = true
			slots = append(slots, sl)
		}
	}
	if r.Chance(1, 4) {
		// a late call for the older slot comes second
		slots[0], slots[1] = slots[1], slots[0]
		fam["overlap-older-slot-second"] = true
	}
	if twoEpochs {
		fam["overlap-two-epochs"] = true
	} else {
		fam["overlap-same-epoch"] = true
	}
	// sizes of the duties; in half of the cases the waiting call has the largest
	ns := make([]int, nmain)
	for j := range ns {
		ns[j] = r.Range(1, 6)
	}
	if r.Bool() {
		for j := 1; j < nmain; j++ {
			if ns[j] > ns[0] {
				ns[0], ns[j] = ns[j], ns[0]
			}
		}
		fam["overlap-first-largest"] = true
	}
	seen := map[uint64]bool{}
	fresh := func() uint64 {
		v := uint64(r.Range(0, 60))
		for seen[v] {
			v = uint64(r.Range(0, 60))
		}
		seen[v] = true
		return v
	}
	disjointComms := r.Bool() // committee indices of different duties from different ranges
	duties := make([]Duty, nmain)
	var all []uint64
	for j := range duties {
		d := Duty{Slot: slots[j]}
		ncomm := r.Range(1, 3)
		for c := 0; c < ncomm; c++ {
			ci := uint64(2*c + r.Intn(2))
			if disjointComms {
				ci += uint64(8 * j)
			}
			// the same committee index has different sizes at different slots
			d.Sizes = append(d.Sizes, [2]uint64{ci, uint64(5 + 3*c + r.Intn(3) + 11*j)})
		}
		usedPos := map[[2]uint64]bool{}
		for i := 0; i < ns[j]; i++ {
			var v uint64
			prevEpoch := j > 0 && slots[j]/h.SPE != slots[0]/h.SPE
			switch {
			case prevEpoch && i < len(duties[0].Vals) && r.Chance(2, 3) && !containsU(d.Vals, duties[0].Vals[i]):
				v = duties[0].Vals[i] // the same validator attests in the next epoch
				fam["overlap-validator-in-two-epochs"] = true
			case j > 0 && !prevEpoch && i == 0 && r.Chance(1, 5):
				v = duties[0].Vals[r.Intn(len(duties[0].Vals))] // also in the other call's duty of this epoch: one of the two skips it
				fam["overlap-shared-validator"] = true
			default:
				v = fresh()
			}
			k := uint64(r.Intn(ncomm))
			size := d.Sizes[k][1]
			pos := uint64(r.Intn(int(size)))
			for tries := 0; usedPos[[2]uint64{k, pos}] && tries < 8; tries++ {
				pos = uint64(r.Intn(int(size)))
			}
			usedPos[[2]uint64{k, pos}] = true
			d.Vals = append(d.Vals, v)
			d.Comms = append(d.Comms, d.Sizes[k][0])
			d.Poss = append(d.Poss, pos)
			if !containsU(all, v) {
				all = append(all, v)
			}
		}
		duties[j] = d
	}
	var pre, noacct, unsigned []uint64
	for _, v := range all {
		switch r.Intn(14) {
		case 0:
			pre = append(pre, v)
			fam["overlap-skip-attested"] = true
		case 1:
			noacct = append(noacct, v)
			fam["overlap-skip-accountless"] = true
		case 2:
			unsigned = append(unsigned, v)
			fam["overlap-skip-unsigned"] = true
		}
	}
	if len(pre) > 0 || r.Chance(1, 4) {
		// an earlier call, long finished when the others start: marks [pre] for the first epoch and has
		// more validators than any of the later duties
		pslot := epoch*h.SPE + uint64(r.Intn(int(h.SPE)))
		pd := Duty{Slot: pslot, Sizes: [][2]uint64{{9, 64}}}
		pvals := append([]uint64{}, pre...)
		for len(pvals) < 7 {
			pvals = append(pvals, fresh())
		}
		for i, v := range pvals {
			pd.Vals = append(pd.Vals, v)
			pd.Comms = append(pd.Comms, 9)
			pd.Poss = append(pd.Poss, uint64(i))
		}
		h.Runs = append(h.Runs, Run{Duty: pd, Script: Script{Data: goodData(r, h.SPE, pslot), Accounts: sorted(pvals)}, Timing: seqTiming(r, 0)})
		fam["overlap-after-larger-duty"] = true
	}
	var accts []uint64
	for _, v := range all {
		if !containsU(noacct, v) {
			accts = append(accts, v)
		}
	}
	if r.Chance(1, 3) {
		accts = append(accts, 77, 78)
	}
	var idx []int
	for j := range duties {
		s := Script{Data: goodData(r, h.SPE, slots[j]), Accounts: sorted(accts), Unsigned: sorted(unsigned)}
		if r.Chance(1, 30) {
			s.SubmitErr = true
		}
		if j > 0 && r.Chance(1, 30) {
			s.SignErr = true
		}
		idx = append(idx, len(h.Runs))
		h.Runs = append(h.Runs, Run{Duty: duties[j], Script: s})
	}
	mode := pickOverlapMode(r)
	for j, tm := range overlapTimings(r, 1000*idx[0]+10, idx, mode) {
		h.Runs[idx[j]].Timing = tm
	}
	fam["overlap-"+overlapModes[mode]] = true
	var tags []string
	for f := range fam {
		tags = append(tags, f)
	}
	sort.Strings(tags)
	return h, tags
}

func gen(r *Rand, traceLog bool) (History, []string) {
	h := History{SPE: []uint64{1, 4, 8, 32, 32}[r.Intn(5)], TraceLog: traceLog}
	epoch := uint64(r.Range(0, 60))
	slot := epoch*h.SPE + uint64(r.Intn(int(h.SPE)))
	n := r.Range(1, 12)
	if r.Chance(1, 3) {
		n = r.Range(2, 4) // small duties like the statement's (1,2,3)
	}
	// distinct validator indices, not in any particular order
	vals := make([]uint64, 0, n)
	seen := map[uint64]bool{}
	for len(vals) < n {
		v := uint64(r.Range(0, 40))
		if !seen[v] {
			seen[v] = true
			vals = append(vals, v)
		}
	}
	ncomm := r.Range(1, 4)
	d := Duty{Slot: slot}
	// 1/8: committees of realistic and of excessive size (MAX_VALIDATORS_PER_COMMITTEE is 2048: no
	// attestation is made for a validator whose committee is said to be larger)
	big := r.Chance(1, 8)
	bigSizes := []uint64{128, 509, 2047, 2048, 2049, 4100}
	bigOff := r.Intn(len(bigSizes))
	for c := 0; c < ncomm; c++ {
		// committee indices need not be 0..k-1; sizes all different (7, 8, 9 straddle a byte of the bitlist)
		size := uint64(5 + 3*c + r.Intn(3))
		if big {
			size = bigSizes[(bigOff+c)%len(bigSizes)]
		}
		d.Sizes = append(d.Sizes, [2]uint64{uint64(2*c + r.Intn(2)), size})
	}
	sortedDuty := r.Chance(1, 3) // as MergeDuties delivers: by committee, then validator
	type ent struct{ v, k uint64 }
	ents := make([]ent, n)
	for i, v := range vals {
		ents[i] = ent{v, uint64(r.Intn(ncomm))}
	}
	if sortedDuty {
		sort.Slice(ents, func(a, b int) bool {
			if ents[a].k != ents[b].k {
				return ents[a].k < ents[b].k
			}
			return ents[a].v < ents[b].v
		})
	}
	usedPos := map[[2]uint64]bool{}
	for _, e := range ents {
		size := d.Sizes[e.k][1]
		pos := uint64(r.Intn(int(size)))
		for tries := 0; usedPos[[2]uint64{e.k, pos}] && tries < 8; tries++ {
			pos = uint64(r.Intn(int(size)))
		}
		usedPos[[2]uint64{e.k, pos}] = true
		d.Vals = append(d.Vals, e.v)
		d.Comms = append(d.Comms, d.Sizes[e.k][0])
		d.Poss = append(d.Poss, pos)
	}
	if r.Chance(1, 25) {
		// a validator listed twice (two assignments): either may be used
		j := r.Intn(len(d.Vals))
		k := r.Intn(ncomm)
		d.Vals = append(d.Vals, d.Vals[j])
		d.Comms = append(d.Comms, d.Sizes[k][0])
		d.Poss = append(d.Poss, uint64(r.Intn(int(d.Sizes[k][1]))))
	}

	// who is skipped, and why
	var pre, noacct, unsigned []uint64
	fam := map[string]bool{}
	mode := r.Intn(10)
	for i, v := range d.Vals {
		var skip bool
		switch {
		case mode == 0: // nobody skipped
		case mode == 1:
			skip = i == 0
		case mode == 2:
			skip = i == len(d.Vals)-1
		case mode == 3:
			skip = i > 0 && i < len(d.Vals)-1 && r.Bool()
		default:
			skip = r.Chance(1, 3)
		}
		if !skip {
			continue
		}
		pos := "middle"
		if i == 0 {
			pos = "first"
		} else if i == len(d.Vals)-1 {
			pos = "last"
		}
		switch r.Intn(4) {
		case 0, 1:
			pre = append(pre, v)
			fam["skip-attested-"+pos] = true
		case 2:
			noacct = append(noacct, v)
			fam["skip-accountless-"+pos] = true
		default:
			unsigned = append(unsigned, v)
			fam["skip-unsigned-"+pos] = true
		}
	}
	if len(pre)+len(noacct)+len(unsigned) == 0 {
		fam["no-skip"] = true
	}
	if ncomm > 1 {
		fam["several-committees"] = true
	}
	if big {
		fam["big-committees"] = true
		for _, sz := range d.Sizes {
			if sz[1] > 2048 {
				fam["oversize-committee"] = true
			}
		}
	}
	if sortedDuty {
		fam["duty-sorted"] = true
	} else {
		fam["duty-shuffled"] = true
	}

	// earlier calls of the same epoch that mark the pre-attested validators (one or two calls)
	if len(pre) > 0 {
		parts := [][]uint64{pre}
		if len(pre) > 1 && r.Bool() {
			k := r.Range(1, len(pre)-1)
			parts = [][]uint64{pre[:k], pre[k:]}
		}
		for _, part := range parts {
			pslot := epoch*h.SPE + uint64(r.Intn(int(h.SPE)))
			pd := Duty{Slot: pslot, Sizes: [][2]uint64{{9, 64}}}
			for i, v := range part {
				pd.Vals = append(pd.Vals, v)
				pd.Comms = append(pd.Comms, 9)
				pd.Poss = append(pd.Poss, uint64(i))
			}
			ps := Script{Data: goodData(r, h.SPE, pslot), Accounts: sorted(part)}
			if r.Chance(1, 4) {
				ps.FetchErr = true // marked even though the earlier call failed
			}
			h.Runs = append(h.Runs, Run{Duty: pd, Script: ps, Timing: seqTiming(r, len(h.Runs))})
		}
	}
	var accts []uint64
	for _, v := range d.Vals {
		skip := false
		for _, w := range noacct {
			skip = skip || v == w
		}
		if !skip && (len(accts) == 0 || !containsU(accts, v)) {
			accts = append(accts, v)
		}
	}
	if r.Chance(1, 3) {
		accts = append(accts, 77, 78) // accounts of validators that are not in the duty
	}
	s := Script{Data: goodData(r, h.SPE, slot), Accounts: sorted(accts), Unsigned: sorted(unsigned)}
	if r.Chance(1, 30) {
		s.SubmitErr = true
	}
	h.Runs = append(h.Runs, Run{Duty: d, Script: s, Timing: seqTiming(r, len(h.Runs))})
	if r.Chance(1, 6) {
		// the same duty once more: everybody is skipped now
		h.Runs = append(h.Runs, Run{Duty: d, Script: s, Timing: seqTiming(r, len(h.Runs))})
		fam["redelivered"] = true
	}
	var tags []string
	for f := range fam {
		tags = append(tags, f)
	}
	sort.Strings(tags)
	return h, tags
}

func containsS(xs []string, x string) bool {
	for _, y := range xs {
		if x == y {
			return true
		}
	}
	return false
}

func containsU(xs []uint64, x uint64) bool {
	for _, y := range xs {
		if x == y {
			return true
		}
	}
	return false
}

func TestC04(t *testing.T) {
	col := NewCollector("C04", "Check.C04",
		"one observed Attest call over a duty of 1-12 validators in 1-4 committees of different sizes (shuffled or sorted order), after earlier calls that mark a chosen subset as already attested, with chosen subsets account-less or unsigned; every 8th case: calls for 2-3 slots overlapping on the one service (a call waiting for its signatures, the beacon nodes or its accounts while the others run); the service's process concurrency is 1-64 and in half of the cases the signer's latency differs per account; non-trivial = at least one attestation is submitted (the assignment lookup is reached); distinct by full input text")
	n := EnvInt("VERIF_N", 800)
	thorough := os.Getenv("VERIF_TIER") == "thorough"
	type item struct {
		in   Input
		tags []string
	}
	var items []item
	for _, in := range LoadInputs[Input]("C04") {
		items = append(items, item{in, append(append([]string{}, in.Tags...), "corpus")})
	}
	rng := NewRand(Seed())
	for i := 0; i < n; i++ {
		r := rng.Fork()
		if i%4 == 3 {
			in, tg := genMerged(r, thorough && i%8 == 7)
			tg = append(tg, vary(r.Fork(), &in, false, !containsS(tg, "merged-overlap"))...)
			items = append(items, item{in, tg})
			continue
		}
		if i%8 == 5 {
			h, tg := genOverlap(r, thorough && i%16 == 5)
			in := Input{History: h}
			tg = append(tg, vary(r.Fork(), &in, false, false)...)
			items = append(items, item{in, tg})
			continue
		}
		h, tg := gen(r, thorough && i%2 == 1)
		in := Input{History: h}
		// every 8th case: a service with a process concurrency above 1 and a signer that is slower for
		// some accounts than for others
		tg = append(tg, vary(r.Fork(), &in, i%8 == 1, true)...)
		items = append(items, item{in, tg})
	}
	for _, it := range items {
		in := it.in
		obs, merged, hp := runInput(t, in)
		h := in.History
		nt := false
		for _, ev := range obs.Trace {
			if ev.Kind == "submit" && len(ev.Atts) > 0 {
				nt = true
				col.Count(fmt.Sprintf("attestations:%d", len(ev.Atts)))
			}
		}
		for _, x := range it.tags {
			col.Count("family:" + x)
		}
		col.Count(fmt.Sprintf("validators:%d", len(hp.Runs[len(hp.Runs)-1].Duty.Vals)))
		col.Count(fmt.Sprintf("committees:%d", len(hp.Runs[len(hp.Runs)-1].Duty.Sizes)))
		if h.TraceLog {
			col.Count("log:trace")
		}
		in.Tags = it.tags
		id := col.NextID()
		col.Add(Case{Term: caseTerm(id, in, hp, obs, merged), Key: fmt.Sprintf("%v%v%v", in.Runs, in.Api, in.FromApi) + fmt.Sprint(h.SPE, in.Concurrency, in.SignLat), Nontrivial: nt, Tags: it.tags,
			Sample: map[string]any{"input": in, "observed": map[string]any{"calls": obs, "merged": merged}}})
	}
	if err := col.Flush(); err != nil {
		t.Fatal(err)
	}
}
