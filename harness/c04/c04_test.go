// C04: drives the real services/attester/standard.Service through one observed Attest call per case,
// preceded by calls that make a chosen subset of its validators "already attested", with chosen
// subsets account-less or left unsigned, over duties of 1-12 validators in 1-4 committees of
// different sizes in shuffled order; prints the case for Check.C04.
package c04

import (
	"fmt"
	"os"
	"sort"
	"testing"

	. "verifharness/attenv"
	. "verifharness/common"
)

// sorted: the elements in ascending order, each once (an account map has no validator twice)
func sorted(xs []uint64) []uint64 {
	out := append([]uint64{}, xs...)
	sort.Slice(out, func(i, j int) bool { return out[i] < out[j] })
	uniq := out[:0]
	for i, x := range out {
		if i == 0 || x != out[i-1] {
			uniq = append(uniq, x)
		}
	}
	return uniq
}

func goodData(r *Rand, spe, slot uint64) Data {
	e := slot / spe
	d := Data{Slot: slot, Root: uint64(r.Range(1, 1000)), Tgt: e, TgtRoot: uint64(r.Range(1, 1000)), SrcRoot: uint64(r.Range(1, 1000))}
	if e > 0 {
		d.Src = e - 1
	}
	return d
}

func seqTiming(r *Rand, i int) Timing {
	return Timing{Start: uint64(K*1000*i + i), Fetch: uint64(K * r.Range(1, 5)), Accounts: uint64(K * r.Range(1, 5)),
		Sign: uint64(K * r.Range(1, 5)), Submit: uint64(K * r.Range(1, 5))}
}

func gen(r *Rand, traceLog bool) (History, []string) {
	h := History{SPE: []uint64{1, 4, 8, 32, 32}[r.Intn(5)], TraceLog: traceLog}
	epoch := uint64(r.Range(0, 60))
	slot := epoch*h.SPE + uint64(r.Intn(int(h.SPE)))
	n := r.Range(1, 12)
	if r.Chance(1, 3) {
		n = r.Range(2, 4) // small duties like the statement's (1,2,3)
	}
	// distinct validator indices, not in any particular order
	vals := make([]uint64, 0, n)
	seen := map[uint64]bool{}
	for len(vals) < n {
		v := uint64(r.Range(0, 40))
		if !seen[v] {
			seen[v] = true
			vals = append(vals, v)
		}
	}
	ncomm := r.Range(1, 4)
	d := Duty{Slot: slot}
	for c := 0; c < ncomm; c++ {
		// committee indices need not be 0..k-1; sizes all different (7, 8, 9 straddle a byte of the bitlist)
		d.Sizes = append(d.Sizes, [2]uint64{uint64(2*c + r.Intn(2)), uint64(5 + 3*c + r.Intn(3))})
	}
	sortedDuty := r.Chance(1, 3) // as MergeDuties delivers: by committee, then validator
	type ent struct{ v, k uint64 }
	ents := make([]ent, n)
	for i, v := range vals {
		ents[i] = ent{v, uint64(r.Intn(ncomm))}
	}
	if sortedDuty {
		sort.Slice(ents, func(a, b int) bool {
			if ents[a].k != ents[b].k {
				return ents[a].k < ents[b].k
			}
			return ents[a].v < ents[b].v
		})
	}
	usedPos := map[[2]uint64]bool{}
	for _, e := range ents {
		size := d.Sizes[e.k][1]
		pos := uint64(r.Intn(int(size)))
		for tries := 0; usedPos[[2]uint64{e.k, pos}] && tries < 8; tries++ {
			pos = uint64(r.Intn(int(size)))
		}
		usedPos[[2]uint64{e.k, pos}] = true
		d.Vals = append(d.Vals, e.v)
		d.Comms = append(d.Comms, d.Sizes[e.k][0])
		d.Poss = append(d.Poss, pos)
	}
	if r.Chance(1, 25) {
		// a validator listed twice (two assignments): either may be used
		j := r.Intn(len(d.Vals))
		k := r.Intn(ncomm)
		d.Vals = append(d.Vals, d.Vals[j])
		d.Comms = append(d.Comms, d.Sizes[k][0])
		d.Poss = append(d.Poss, uint64(r.Intn(int(d.Sizes[k][1]))))
	}

	// who is skipped, and why
	var pre, noacct, unsigned []uint64
	fam := map[string]bool{}
	mode := r.Intn(10)
	for i, v := range d.Vals {
		var skip bool
		switch {
		case mode == 0: // nobody skipped
		case mode == 1:
			skip = i == 0
		case mode == 2:
			skip = i == len(d.Vals)-1
		case mode == 3:
			skip = i > 0 && i < len(d.Vals)-1 && r.Bool()
		default:
			skip = r.Chance(1, 3)
		}
		if !skip {
			continue
		}
		pos := "middle"
		if i == 0 {
			pos = "first"
		} else if i == len(d.Vals)-1 {
			pos = "last"
		}
		switch r.Intn(4) {
		case 0, 1:
			pre = append(pre, v)
			fam["skip-attested-"+pos] = true
		case 2:
			noacct = append(noacct, v)
			fam["skip-accountless-"+pos] = true
		default:
			unsigned = append(unsigned, v)
			fam["skip-unsigned-"+pos] = true
		}
	}
	if len(pre)+len(noacct)+len(unsigned) == 0 {
		fam["no-skip"] = true
	}
	if ncomm > 1 {
		fam["several-committees"] = true
	}
	if sortedDuty {
		fam["duty-sorted"] = true
	} else {
		fam["duty-shuffled"] = true
	}

	// earlier calls of the same epoch that mark the pre-attested validators (one or two calls)
	if len(pre) > 0 {
		parts := [][]uint64{pre}
		if len(pre) > 1 && r.Bool() {
			k := r.Range(1, len(pre)-1)
			parts = [][]uint64{pre[:k], pre[k:]}
		}
		for _, part := range parts {
			pslot := epoch*h.SPE + uint64(r.Intn(int(h.SPE)))
			pd := Duty{Slot: pslot, Sizes: [][2]uint64{{9, 64}}}
			for i, v := range part {
				pd.Vals = append(pd.Vals, v)
				pd.Comms = append(pd.Comms, 9)
				pd.Poss = append(pd.Poss, uint64(i))
			}
			ps := Script{Data: goodData(r, h.SPE, pslot), Accounts: sorted(part)}
			if r.Chance(1, 4) {
				ps.FetchErr = true // marked even though the earlier call failed
			}
			h.Runs = append(h.Runs, Run{Duty: pd, Script: ps, Timing: seqTiming(r, len(h.Runs))})
		}
	}
	var accts []uint64
	for _, v := range d.Vals {
		skip := false
		for _, w := range noacct {
			skip = skip || v == w
		}
		if !skip && (len(accts) == 0 || !containsU(accts, v)) {
			accts = append(accts, v)
		}
	}
	if r.Chance(1, 3) {
		accts = append(accts, 77, 78) // accounts of validators that are not in the duty
	}
	s := Script{Data: goodData(r, h.SPE, slot), Accounts: sorted(accts), Unsigned: sorted(unsigned)}
	if r.Chance(1, 30) {
		s.SubmitErr = true
	}
	h.Runs = append(h.Runs, Run{Duty: d, Script: s, Timing: seqTiming(r, len(h.Runs))})
	if r.Chance(1, 6) {
		// the same duty once more: everybody is skipped now
		h.Runs = append(h.Runs, Run{Duty: d, Script: s, Timing: seqTiming(r, len(h.Runs))})
		fam["redelivered"] = true
	}
	var tags []string
	for f := range fam {
		tags = append(tags, f)
	}
	sort.Strings(tags)
	return h, tags
}

func containsU(xs []uint64, x uint64) bool {
	for _, y := range xs {
		if x == y {
			return true
		}
	}
	return false
}

func TestC04(t *testing.T) {
	col := NewCollector("C04", "Check.C04",
		"one observed Attest call over a duty of 1-12 validators in 1-4 committees of different sizes (shuffled or sorted order), after earlier calls that mark a chosen subset as already attested, with chosen subsets account-less or unsigned; non-trivial = at least one attestation is submitted (the assignment lookup is reached); distinct by full input text")
	n := EnvInt("VERIF_N", 800)
	thorough := os.Getenv("VERIF_TIER") == "thorough"
	type item struct {
		h    History
		tags []string
	}
	var items []item
	for _, h := range LoadInputs[History]("C04") {
		items = append(items, item{h, append(append([]string{}, h.Tags...), "corpus")})
	}
	rng := NewRand(Seed())
	for i := 0; i < n; i++ {
		h, tg := gen(rng.Fork(), thorough && i%2 == 1)
		items = append(items, item{h, tg})
	}
	for _, it := range items {
		h := it.h
		obs := RunHistory(t, h)
		nt := false
		for _, ev := range obs.Trace {
			if ev.Kind == "submit" && len(ev.Atts) > 0 {
				nt = true
				col.Count(fmt.Sprintf("attestations:%d", len(ev.Atts)))
			}
		}
		for _, x := range it.tags {
			col.Count("family:" + x)
		}
		col.Count(fmt.Sprintf("validators:%d", len(h.Runs[len(h.Runs)-1].Duty.Vals)))
		col.Count(fmt.Sprintf("committees:%d", len(h.Runs[len(h.Runs)-1].Duty.Sizes)))
		if h.TraceLog {
			col.Count("log:trace")
		}
		h.Tags = it.tags
		id := col.NextID()
		col.Add(Case{Term: Term(id, h, obs), Key: fmt.Sprintf("%v", h.Runs) + fmt.Sprint(h.SPE), Nontrivial: nt, Tags: it.tags,
			Sample: map[string]any{"input": h, "observed": obs}})
	}
	if err := col.Flush(); err != nil {
		t.Fatal(err)
	}
}
