// Racing histories (C01): calls of Attest released together on real parallel threads, no latencies,
// many trials on fresh service instances.  This is the only way to enter a window between two critical
// sections that contains no call-out of the code (no log line, no chain time call): not forced, only
// made likely; the trial that shows a validator signed for twice (if any) is the one reported.
package attenv

import (
	"context"
	"fmt"
	"io"
	"runtime"
	"sort"
	"sync"
	"sync/atomic"
	"testing"

	"github.com/attestantio/vouch/services/attester"
	standardattester "github.com/attestantio/vouch/services/attester/standard"
	nullmetrics "github.com/attestantio/vouch/services/metrics/null"
	"github.com/rs/zerolog"
	zerologger "github.com/rs/zerolog/log"

	"verifharness/mocks"
)

// dupSigned: some (validator, epoch of the requested slot) is in two signing requests of the trace.
func dupSigned(spe uint64, trace []Event) bool {
	seen := map[[2]uint64]bool{}
	for _, ev := range trace {
		if ev.Kind != "sign" {
			continue
		}
		for _, p := range ev.Pairs {
			k := [2]uint64{p[0], ev.Vote.Slot / spe}
			if seen[k] {
				return true
			}
			seen[k] = true
		}
	}
	return false
}

// RunRacing runs the history (timings ignored: all calls start together, environment calls return at
// once) up to trials times, each on a fresh service, and returns the first trial in which a validator
// was signed for twice in an epoch, else the last trial; hit is the number of that trial (0 = none).
func RunRacing(t *testing.T, h History, trials int) (obs Observed, hit int) {
	logOnce.Do(func() { zerologger.Logger = zerologger.Output(io.Discard) })
	for k := range h.Runs {
		h.Runs[k].Timing = Timing{}
	}
	for trial := 1; trial <= trials; trial++ {
		obs = raceOnce(h)
		if obs.Problem != "" {
			return obs, 0
		}
		if dupSigned(h.SPE, obs.Trace) {
			return obs, trial
		}
	}
	return obs, 0
}

func raceOnce(h History) Observed {
	var obs Observed
	e := &env{h: h}
	ctx := context.Background()
	svc, err := standardattester.New(ctx,
		standardattester.WithLogLevel(zerolog.Disabled),
		standardattester.WithMonitor(nullmetrics.New()),
		standardattester.WithProcessConcurrency(h.Concurrency()),
		standardattester.WithChainTime(mocks.NewChainTime(h.SPE)),
		standardattester.WithSpecProvider(specProvider{h.SPE}),
		standardattester.WithAttestationDataProvider(e),
		standardattester.WithAttestationsSubmitter(e),
		standardattester.WithValidatingAccountsProvider(e),
		standardattester.WithBeaconAttestationsSigner(e),
	)
	if err != nil {
		obs.Problem = "constructor: " + err.Error()
		return obs
	}
	results := make([]string, len(h.Runs))
	var wg sync.WaitGroup
	var ready atomic.Int32
	n := int32(len(h.Runs))
	for i := range h.Runs {
		duty, err := MakeDuty(h.Runs[i].Duty)
		if err != nil {
			results[i] = "noduty"
			n--
			continue
		}
		wg.Add(1)
		go func(i int, duty *attester.Duty) {
			defer wg.Done()
			defer func() {
				if r := recover(); r != nil {
					results[i] = fmt.Sprintf("panic: %v", r)
				}
			}()
			runCtx := context.WithValue(ctx, runKey{}, i)
			ready.Add(1)
			for spins := 0; ready.Load() < n; spins++ { // spin barrier: all calls enter Attest within nanoseconds
				if spins > 1<<20 {
					runtime.Gosched()
				}
			}
			atts, err := svc.Attest(runCtx, duty)
			if err != nil {
				results[i] = "err"
			} else {
				results[i] = fmt.Sprintf("ok:%d", len(atts))
			}
		}(i, duty)
	}
	wg.Wait()
	obs.Results = results
	obs.Trace = e.trace
	obs.Problem = e.prob
	for epoch, vals := range svc.VerifAttested() {
		row := []uint64{uint64(epoch)}
		for _, v := range vals {
			row = append(row, uint64(v))
		}
		obs.Final = append(obs.Final, row)
	}
	sort.Slice(obs.Final, func(a, b int) bool { return obs.Final[a][0] < obs.Final[b][0] })
	if obs.Trace == nil {
		obs.Trace = []Event{}
	}
	return obs
}
