// Gated histories (C01): calls of Attest that wake up at the SAME fake instant are interleaved INSIDE
// the code between two environment calls, without any hook in the code under test.
//
// Every place where the attester calls out of its own code is a possible switch point: each line it
// writes to its logger (the service runs at trace level with a writer of the harness) and each call of
// the chain time service (SlotToEpoch / StartOfSlot).  At such a point the call that is running hands
// the turn to another call of the same tie group, chosen by the input's list of turns, and parks until
// it gets the turn back.  Exactly one call of a group runs at any time, so the execution is a function
// of the input (replayable), and it is one of the interleavings of the atomic steps of the model: the
// harness never parks a call that holds the lock of the attested sets (hook VerifAttestedBusy, a
// TryLock probe), so critical sections stay atomic.  Which interleaving is taken depends on where the
// code happens to log; the check therefore compares a gated history with the SET of outcomes of all
// interleavings of the tied segments (Model/C01_Ties.v), never with one predicted schedule.
package attenv

import (
	"context"
	"encoding/json"
	"fmt"
	"io"
	"os"
	"runtime"
	"sort"
	"sync"
	"testing"
	"testing/synctest"
	"time"

	"github.com/attestantio/go-eth2-client/spec/phase0"
	"github.com/attestantio/vouch/services/attester"
	standardattester "github.com/attestantio/vouch/services/attester/standard"
	nullmetrics "github.com/attestantio/vouch/services/metrics/null"
	"github.com/rs/zerolog"
	zerologger "github.com/rs/zerolog/log"

	"verifharness/mocks"
)

// YHistory is a history with the list of turns that decides who runs next at each switch point of a
// tie group: turn c picks candidate number c modulo the number of candidates (candidates in
// ascending order of run index; at a yield the running call is a candidate itself, when it leaves for
// an environment call or returns only the parked ones are).  When the list is used up the lowest
// candidate runs.
type YHistory struct {
	History
	Gated  bool  `json:"gated,omitempty"`
	Turns  []int `json:"turns,omitempty"`
	Racing int   `json:"racing,omitempty"` // > 0: a racing history (racing.go) of that many trials
}

// YieldStats is reported for the evidence only (never compared).
type YieldStats struct {
	Groups   int // tie groups with at least two calls present
	Points   int // switch points reached while a group was in progress (outside critical sections)
	InLock   int // log lines written while the lock was held (no switch)
	Switches int // times the turn went to another call
	Foreign  int // switch points and environment calls reached on a goroutine other than the calling one (ignored by the gate)
}

type gate struct {
	mu     sync.Mutex
	base   time.Time
	ties   map[uint64]bool
	turns  []int
	pos    int
	parked map[int]chan struct{}
	holder int
	busy   func() bool
	stats  YieldStats
	// the goroutine on which each call of Attest was made.  The gate follows that goroutine only: a
	// goroutine that the code under test starts itself (an environment call made in the background of
	// the call) is not parked and gives no turn away; its environment calls are plain latencies.
	main map[uint64]int
}

// goid: the number of the calling goroutine (from the first line of its stack, "goroutine N [...").
func goid() uint64 {
	var buf [64]byte
	n := runtime.Stack(buf[:], false)
	var id uint64
	for _, c := range buf[len("goroutine "):n] {
		if c < '0' || c > '9' {
			break
		}
		id = id*10 + uint64(c-'0')
	}
	return id
}

// register: the calling goroutine is the one on which run i calls Attest.
func (g *gate) register(i int) {
	if g == nil {
		return
	}
	g.mu.Lock()
	g.main[goid()] = i
	g.mu.Unlock()
}

// caller: the run whose call of Attest was made on the calling goroutine, -1 for any other goroutine.
func (g *gate) caller() int {
	g.mu.Lock()
	defer g.mu.Unlock()
	if i, ok := g.main[goid()]; ok {
		return i
	}
	return -1
}

func (g *gate) now() uint64 { return uint64(time.Since(g.base) / time.Millisecond) }

func (g *gate) pick(cands []int) int {
	sort.Ints(cands)
	if g.pos < len(g.turns) {
		c := g.turns[g.pos]
		g.pos++
		if c < 0 {
			c = -c
		}
		return cands[c%len(cands)]
	}
	return cands[0]
}

func (g *gate) parkedRuns() []int {
	res := make([]int, 0, len(g.parked))
	for i := range g.parked {
		res = append(res, i)
	}
	return res
}

// enter: run i has just woken up (started, or an environment call of its has returned).
func (g *gate) enter(i int) {
	if g == nil || !g.ties[g.now()] {
		return
	}
	ch := make(chan struct{})
	g.mu.Lock()
	g.parked[i] = ch
	g.mu.Unlock()
	<-ch
}

// start (coordinator, after every call woken at this instant has parked): give the first turn.
func (g *gate) start() {
	g.mu.Lock()
	defer g.mu.Unlock()
	if len(g.parked) == 0 {
		return
	}
	if len(g.parked) > 1 {
		g.stats.Groups++
	}
	g.handTo(g.pick(g.parkedRuns()))
}

func (g *gate) handTo(h int) {
	ch := g.parked[h]
	delete(g.parked, h)
	g.holder = h
	close(ch)
}

// yield: the running call has reached a switch point.
func (g *gate) yield() {
	if g == nil {
		return
	}
	me := goid()
	g.mu.Lock()
	if i, ok := g.main[me]; !ok || i != g.holder {
		// a goroutine started by the code under test, or a call that does not have the turn
		if !ok && g.busy != nil { // (busy is set once the service is constructed)
			g.stats.Foreign++
		}
		g.mu.Unlock()
		return
	}
	if g.holder < 0 || len(g.parked) == 0 {
		g.mu.Unlock()
		return
	}
	if g.busy != nil && g.busy() {
		g.stats.InLock++
		g.mu.Unlock()
		return
	}
	g.stats.Points++
	i := g.holder
	h := g.pick(append(g.parkedRuns(), i))
	if h == i {
		g.mu.Unlock()
		return
	}
	g.stats.Switches++
	ch := make(chan struct{})
	g.parked[i] = ch
	g.handTo(h)
	g.mu.Unlock()
	<-ch
}

// leave: run i is about to wait for an environment call, or has returned.
func (g *gate) leave(i int) {
	if g == nil {
		return
	}
	g.mu.Lock()
	defer g.mu.Unlock()
	if g.holder != i {
		return
	}
	g.holder = -1
	if len(g.parked) > 0 {
		g.stats.Switches++
		g.handTo(g.pick(g.parkedRuns()))
	}
}

// pause is the latency of an environment call of run i.
func (e *env) pause(i int, ms uint64) {
	if e.gate != nil && e.gate.caller() != i {
		// an environment call made on a goroutine of the code's own making (in the background of the
		// call of Attest): a plain latency, the call itself keeps or waits for its turn as before
		e.gate.mu.Lock()
		e.gate.stats.Foreign++
		e.gate.mu.Unlock()
		sleepMs(ms)
		return
	}
	e.gate.leave(i)
	sleepMs(ms)
	e.gate.enter(i)
}

type yieldWriter struct{ g *gate }

func (w yieldWriter) Write(p []byte) (int, error) {
	w.g.yield()
	return len(p), nil
}

type yieldChainTime struct {
	*mocks.ChainTime
	g *gate
}

func (c yieldChainTime) SlotToEpoch(slot phase0.Slot) phase0.Epoch {
	c.g.yield()
	return c.ChainTime.SlotToEpoch(slot)
}

func (c yieldChainTime) StartOfSlot(slot phase0.Slot) time.Time {
	c.g.yield()
	return c.ChainTime.StartOfSlot(slot)
}

// WakeInstants are the five instants at which run r wakes up if it gets that far.
func WakeInstants(r Run) [5]uint64 {
	t := r.Timing
	t1 := t.Start + t.Fetch
	t2 := t1 + t.Accounts
	t3 := t2 + t.Sign
	return [5]uint64{t.Start, t1, t2, t3, t3 + t.Submit}
}

// TieInstants: the instants at which more than one call may wake up, ascending.  ok is false when one
// call has two wake-ups at the same instant (a latency of zero), which the gate does not support.
func TieInstants(h History) (ties []uint64, ok bool) {
	count := map[uint64]int{}
	ok = true
	for _, r := range h.Runs {
		w := WakeInstants(r)
		for k, x := range w {
			if k > 0 && x == w[k-1] {
				ok = false
			}
			count[x]++
		}
	}
	for x, n := range count {
		if n > 1 {
			ties = append(ties, x)
		}
	}
	sort.Slice(ties, func(a, b int) bool { return ties[a] < ties[b] })
	return ties, ok
}

// RunHistoryYield drives the real attester through a gated history inside a synctest bubble.
func RunHistoryYield(t *testing.T, yh YHistory) (Observed, YieldStats) {
	logOnce.Do(func() { zerologger.Logger = zerologger.Output(io.Discard) })
	h := yh.History
	var obs Observed
	var stats YieldStats
	tieList, ok := TieInstants(h)
	if !ok {
		obs.Problem = "gated history with a latency of zero"
		obs.Trace = []Event{}
		return obs, stats
	}
	// real-time watchdog (outside the bubble): a gated history that stops making progress is a harness
	// failure with the input on stderr, never a silent hang
	watchdog := time.AfterFunc(60*time.Second, func() {
		in, _ := json.Marshal(yh)
		fmt.Fprintf(os.Stderr, "gated history made no progress for 60 s (a call parked inside a critical section?): %s\n", in)
		os.Exit(3)
	})
	defer watchdog.Stop()
	started := time.Now()
	synctest.Test(t, func(t *testing.T) {
		g := &gate{base: time.Now(), ties: map[uint64]bool{}, turns: yh.Turns, parked: map[int]chan struct{}{}, holder: -1, main: map[uint64]int{}}
		for _, x := range tieList {
			g.ties[x] = true
		}
		e := &env{h: h, gate: g}
		previousLogger, previousLevel := zerologger.Logger, zerolog.GlobalLevel()
		zerologger.Logger = zerolog.New(yieldWriter{g})
		zerolog.SetGlobalLevel(zerolog.TraceLevel)
		defer zerolog.SetGlobalLevel(previousLevel)
		ctx := context.Background()
		svc, err := standardattester.New(ctx,
			standardattester.WithLogLevel(zerolog.TraceLevel),
			standardattester.WithMonitor(nullmetrics.New()),
			standardattester.WithProcessConcurrency(h.Concurrency()),
			standardattester.WithChainTime(yieldChainTime{mocks.NewChainTime(h.SPE), g}),
			standardattester.WithSpecProvider(specProvider{h.SPE}),
			standardattester.WithAttestationDataProvider(e),
			standardattester.WithAttestationsSubmitter(e),
			standardattester.WithValidatingAccountsProvider(e),
			standardattester.WithBeaconAttestationsSigner(e),
		)
		zerologger.Logger = previousLogger
		if err != nil {
			obs.Problem = "constructor: " + err.Error()
			return
		}
		g.busy = svc.VerifAttestedBusy
		results := make([]string, len(h.Runs))
		var wg sync.WaitGroup
		for i := range h.Runs {
			duty, err := MakeDuty(h.Runs[i].Duty)
			if err != nil {
				results[i] = "noduty"
				continue
			}
			wg.Add(1)
			go func(i int, duty *attester.Duty) {
				defer wg.Done()
				defer g.leave(i)
				defer func() {
					if r := recover(); r != nil {
						results[i] = fmt.Sprintf("panic: %v", r)
					}
				}()
				g.register(i)
				sleepMs(h.Runs[i].Timing.Start)
				g.enter(i)
				atts, err := svc.Attest(context.WithValue(ctx, runKey{}, i), duty)
				if err != nil {
					results[i] = "err"
				} else {
					results[i] = fmt.Sprintf("ok:%d", len(atts))
				}
			}(i, duty)
		}
		// coordinator: at every tie instant, once every call that woke up has parked, give the first turn
		wg.Add(1)
		go func() {
			defer wg.Done()
			for _, x := range tieList {
				if d := time.Duration(x)*time.Millisecond - time.Since(g.base); d > 0 {
					time.Sleep(d)
				}
				synctest.Wait()
				g.start()
			}
		}()
		wg.Wait()
		obs.Results = results
		e.mu.Lock()
		obs.Trace = e.trace
		obs.Problem = e.prob
		e.mu.Unlock()
		g.mu.Lock()
		stats = g.stats
		if len(g.parked) > 0 && obs.Problem == "" {
			obs.Problem = "calls still parked at the end of the history"
		}
		g.mu.Unlock()
		final := svc.VerifAttested()
		for epoch, vals := range final {
			row := []uint64{uint64(epoch)}
			for _, v := range vals {
				row = append(row, uint64(v))
			}
			obs.Final = append(obs.Final, row)
		}
		sort.Slice(obs.Final, func(a, b int) bool { return obs.Final[a][0] < obs.Final[b][0] })
	})
	obs.Elapsed = time.Since(started)
	if obs.Trace == nil {
		obs.Trace = []Event{}
	}
	return obs, stats
}
