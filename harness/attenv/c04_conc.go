// C04 (added after seeded change C04-9): the attester service is built by main.go with
// util.ProcessConcurrency (the number of cores by default), not with 1 as every test of the
// repository and, until this round, every harness service was; and a remote signer does not answer
// for every account in the same time.  Extra carries both: the process concurrency the service is
// configured with, and per call the latency of the signer per account.  A signing request is answered
// after the largest latency of the accounts it names (c04_overlap.go, signLatency), so that a call
// that asks once for all its accounts waits as long as its slowest account takes, and a call that
// splits its accounts into several requests sees the requests for the quick accounts return first.
package attenv

// Extra is what a C04 input says about the service and the signer beyond the History.
type Extra struct {
	Concurrency int64         // process concurrency of the attester service (0: 1)
	SignLat     [][][2]uint64 // per run: (validator, signer latency for that validator's account in ms)
}

func (x Extra) concurrency() int64 {
	if x.Concurrency <= 0 {
		return 1
	}
	return x.Concurrency
}
