// C04 (added after seeded change C04-5): running a history in which some calls of Attest are given
// duty objects made elsewhere -- the real attester.MergeDuties over the beacon node's answer --
// instead of duties built with NewDuty from the input.  The same *attester.Duty object may be given
// to several calls.  Everything else is RunHistory's.
package attenv

import (
	"context"
	"fmt"
	"io"
	"sort"
	"sync"
	"testing"
	"testing/synctest"
	"time"

	"github.com/attestantio/go-eth2-client/spec/phase0"
	"github.com/attestantio/vouch/services/attester"
	standardattester "github.com/attestantio/vouch/services/attester/standard"
	nullmetrics "github.com/attestantio/vouch/services/metrics/null"
	"github.com/rs/zerolog"
	zerologger "github.com/rs/zerolog/log"

	"verifharness/mocks"
)

// DutyTerm prints a duty as a Gallina record of Model.C01_Attester.duty.
func DutyTerm(d Duty) string { return dutyTerm(d) }

// ReadDuty reads a real duty back through its accessors: the three arrays and, for each of its own
// committee indices (first occurrence order), CommitteeSize.
func ReadDuty(d *attester.Duty) Duty {
	res := Duty{Slot: uint64(d.Slot()), Vals: []uint64{}, Comms: []uint64{}, Poss: []uint64{}, Sizes: [][2]uint64{}}
	for _, v := range d.ValidatorIndices() {
		res.Vals = append(res.Vals, uint64(v))
	}
	seen := map[phase0.CommitteeIndex]bool{}
	for _, c := range d.CommitteeIndices() {
		res.Comms = append(res.Comms, uint64(c))
		if !seen[c] {
			seen[c] = true
			res.Sizes = append(res.Sizes, [2]uint64{uint64(c), d.CommitteeSize(c)})
		}
	}
	res.Poss = append(res.Poss, d.ValidatorCommitteeIndices()...)
	return res
}

// RunHistoryWithDuties is RunHistory, except that call i is given given[i] when that is not nil
// (MakeDuty(h.Runs[i].Duty) otherwise) and is not made at all when skip[i] (its result is "noduty":
// there was no duty object to give).  prepare, when not nil, runs inside the bubble before the
// service is built and returns both (so that the duties are made by the code under test in the same
// bubble).  The signer and the submitter are those of c04_overlap.go (they sign what they are given at
// call time and check that their arguments are unchanged when the call returns).
func RunHistoryWithDuties(t *testing.T, h History, prepare func(ctx context.Context) (given []*attester.Duty, skip []bool)) Observed {
	return RunHistoryC04(t, h, prepare, Extra{})
}

// RunHistoryC04 is RunHistoryWithDuties on a service built with the process concurrency and a signer
// with the per-account latencies of x (c04_conc.go).
func RunHistoryC04(t *testing.T, h History, prepare func(ctx context.Context) (given []*attester.Duty, skip []bool), x Extra) Observed {
	logOnce.Do(func() { zerologger.Logger = zerologger.Output(io.Discard) })
	var obs Observed
	started := time.Now()
	synctest.Test(t, func(t *testing.T) {
		e := &env{h: h}
		level := zerolog.Disabled
		if h.TraceLog {
			level = zerolog.TraceLevel
		}
		ctx := context.Background()
		var given []*attester.Duty
		var skip []bool
		if prepare != nil {
			given, skip = prepare(ctx)
		}
		e2 := &env2{env: e, signLat: x.SignLat}
		svc, err := standardattester.New(ctx,
			standardattester.WithLogLevel(level),
			standardattester.WithMonitor(nullmetrics.New()),
			standardattester.WithProcessConcurrency(x.concurrency()),
			standardattester.WithChainTime(mocks.NewChainTime(h.SPE)),
			standardattester.WithSpecProvider(specProvider{h.SPE}),
			standardattester.WithAttestationDataProvider(e),
			standardattester.WithAttestationsSubmitter(e2), // c04_overlap.go: arguments are looked at again at return
			standardattester.WithValidatingAccountsProvider(e),
			standardattester.WithBeaconAttestationsSigner(e2),
		)
		if err != nil {
			obs.Problem = "constructor: " + err.Error()
			return
		}
		results := make([]string, len(h.Runs))
		var wg sync.WaitGroup
		for i := range h.Runs {
			var duty *attester.Duty
			if i < len(skip) && skip[i] {
				results[i] = "noduty"
				continue
			}
			if i < len(given) && given[i] != nil {
				duty = given[i]
			} else {
				duty, err = MakeDuty(h.Runs[i].Duty)
				if err != nil {
					results[i] = "noduty"
					continue
				}
			}
			wg.Add(1)
			go func(i int, duty *attester.Duty) {
				defer wg.Done()
				defer func() {
					if r := recover(); r != nil {
						results[i] = fmt.Sprintf("panic: %v", r)
					}
				}()
				sleepMs(h.Runs[i].Timing.Start)
				atts, err := svc.Attest(context.WithValue(ctx, runKey{}, i), duty)
				if err != nil {
					results[i] = "err"
				} else {
					results[i] = fmt.Sprintf("ok:%d", len(atts))
				}
			}(i, duty)
		}
		wg.Wait()
		obs.Results = results
		e.mu.Lock()
		obs.Trace = e.trace
		obs.Problem = e.prob
		e.mu.Unlock()
		final := svc.VerifAttested()
		for epoch, vals := range final {
			row := []uint64{uint64(epoch)}
			for _, v := range vals {
				row = append(row, uint64(v))
			}
			obs.Final = append(obs.Final, row)
		}
		sort.Slice(obs.Final, func(a, b int) bool { return obs.Final[a][0] < obs.Final[b][0] })
	})
	obs.Elapsed = time.Since(started)
	if obs.Trace == nil {
		obs.Trace = []Event{}
	}
	return obs
}
