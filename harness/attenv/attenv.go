// Package attenv is the shared environment of the C01 and C04 harnesses: it runs a history of
// Attest calls against ONE real services/attester/standard.Service inside a synctest bubble, with a
// scripted attestation data provider, accounts provider, signer and submitter that record every
// call, and prints the history with what was observed as a Gallina term of type Check.C01_Case.case.
package attenv

import (
	"context"
	"encoding/binary"
	"errors"
	"fmt"
	"io"
	"sort"
	"sync"
	"testing"
	"testing/synctest"
	"time"

	"github.com/attestantio/go-eth2-client/api"
	"github.com/attestantio/go-eth2-client/spec/phase0"
	"github.com/attestantio/vouch/services/attester"
	standardattester "github.com/attestantio/vouch/services/attester/standard"
	nullmetrics "github.com/attestantio/vouch/services/metrics/null"
	"github.com/google/uuid"
	"github.com/rs/zerolog"
	zerologger "github.com/rs/zerolog/log"
	e2types "github.com/wealdtech/go-eth2-types/v2"
	e2wtypes "github.com/wealdtech/go-eth2-wallet-types/v2"

	. "verifharness/common"
	"verifharness/mocks"
)

// ---------------------------------------------------------------------------------------------
// Input.

type Duty struct {
	Slot  uint64      `json:"slot"`
	Vals  []uint64    `json:"vals"`
	Comms []uint64    `json:"comms"`
	Poss  []uint64    `json:"poss"`
	Sizes [][2]uint64 `json:"sizes"` // committee index -> committee length (unique keys)
}

type Data struct {
	Slot    uint64 `json:"slot"`
	Root    uint64 `json:"root"`
	Src     uint64 `json:"src"`
	SrcRoot uint64 `json:"src_root"`
	Tgt     uint64 `json:"tgt"`
	TgtRoot uint64 `json:"tgt_root"`
}

type Script struct {
	FetchErr    bool     `json:"fetch_err,omitempty"`
	Data        Data     `json:"data"`
	AccountsErr bool     `json:"accounts_err,omitempty"`
	Accounts    []uint64 `json:"accounts"` // validators the account manager has an account for (sorted, unique)
	SignErr     bool     `json:"sign_err,omitempty"`
	Unsigned    []uint64 `json:"unsigned,omitempty"` // validators the signer returns a zero signature for
	SubmitErr   bool     `json:"submit_err,omitempty"`
}

// Timing in milliseconds of fake time.
type Timing struct {
	Start    uint64 `json:"start"`
	Fetch    uint64 `json:"fetch"`
	Accounts uint64 `json:"accounts"`
	Sign     uint64 `json:"sign"`
	Submit   uint64 `json:"submit"`
}

type Run struct {
	Duty   Duty   `json:"duty"`
	Script Script `json:"script"`
	Timing Timing `json:"timing"`
}

type History struct {
	SPE      uint64   `json:"spe"`
	Runs     []Run    `json:"runs"`
	TraceLog bool     `json:"trace_log,omitempty"` // run the service at zerolog.TraceLevel (output discarded)
	// Conc is the process concurrency the service is configured with (0: 1, what every test of the
	// repository uses; main.go passes util.ProcessConcurrency, the number of cores by default).  The
	// unchanged attester does not use the value, so the model does not mention it.
	Conc int64 `json:"conc,omitempty"`
	Tags     []string `json:"tags,omitempty"`
}

// ---------------------------------------------------------------------------------------------
// Observed.

type Vote struct {
	Slot    uint64 `json:"slot"`
	Comm    uint64 `json:"comm"`
	Root    uint64 `json:"root"`
	Src     uint64 `json:"src"`
	SrcRoot uint64 `json:"src_root"`
	Tgt     uint64 `json:"tgt"`
	TgtRoot uint64 `json:"tgt_root"`
}

type Att struct {
	Len     uint64   `json:"len"`
	Bits    []uint64 `json:"bits"`
	Vote    Vote     `json:"vote"`
	SigV    uint64   `json:"sig_validator"`
	SigVote Vote     `json:"sig_vote"`
}

type Event struct {
	Kind  string      `json:"kind"` // sign | submit
	Run   int         `json:"run"`
	Pairs [][2]uint64 `json:"pairs,omitempty"` // sign: (validator, committee index), sorted by validator
	Vote  *Vote       `json:"vote,omitempty"`  // sign: slot, root, source, target passed (Comm unused)
	Atts  []Att       `json:"atts,omitempty"`  // submit: sorted by signing validator
}

type Observed struct {
	Trace   []Event       `json:"trace"`
	Results []string      `json:"results"` // per run: "err" | "ok:<n>" | "panic: ..."
	Final   [][]uint64    `json:"final"`   // attested map: [epoch, validators...] sorted
	Problem string        `json:"problem,omitempty"`
	Elapsed time.Duration `json:"-"`
}

// ---------------------------------------------------------------------------------------------
// Encodings.

const weird = uint64(1) << 63 // decodes of values that are not of the harness's own making

func RootOf(r uint64) phase0.Root {
	var root phase0.Root
	binary.BigEndian.PutUint64(root[24:], r)
	return root
}

func rootVal(r phase0.Root) uint64 {
	for _, b := range r[:24] {
		if b != 0 {
			return weird
		}
	}
	return binary.BigEndian.Uint64(r[24:])
}

// the mock signature: marker, then the signing validator and everything it was asked to sign
func encodeSig(v uint64, vt Vote) phase0.BLSSignature {
	var sig phase0.BLSSignature
	sig[0] = 0xA5
	for i, x := range []uint64{v, vt.Slot, vt.Comm, vt.Root, vt.Src, vt.SrcRoot, vt.Tgt, vt.TgtRoot} {
		binary.BigEndian.PutUint64(sig[8+8*i:], x)
	}
	return sig
}

func decodeSig(sig phase0.BLSSignature) (uint64, Vote) {
	if sig[0] != 0xA5 {
		return weird, Vote{}
	}
	x := make([]uint64, 8)
	for i := range x {
		x[i] = binary.BigEndian.Uint64(sig[8+8*i:])
	}
	return x[0], Vote{Slot: x[1], Comm: x[2], Root: x[3], Src: x[4], SrcRoot: x[5], Tgt: x[6], TgtRoot: x[7]}
}

// ---------------------------------------------------------------------------------------------
// Mocks.

type pubKey struct{ idx uint64 }

func (k pubKey) Marshal() []byte {
	b := make([]byte, 48)
	binary.BigEndian.PutUint64(b[40:], k.idx)
	return b
}
func (k pubKey) Aggregate(e2types.PublicKey) {}
func (k pubKey) Copy() e2types.PublicKey      { return k }

type account struct{ idx uint64 }

func (a account) ID() uuid.UUID {
	var id uuid.UUID
	binary.BigEndian.PutUint64(id[8:], a.idx)
	return id
}
func (a account) Name() string                { return fmt.Sprintf("validator-%d", a.idx) }
func (a account) PublicKey() e2types.PublicKey { return pubKey{a.idx} }

type runKey struct{}

type env struct {
	mu    sync.Mutex
	h     History
	trace []Event
	prob  string
	gate  *gate // nil: calls interleave at the environment calls only (see yield.go)
}

func (e *env) run(ctx context.Context) (int, *Run) {
	i, ok := ctx.Value(runKey{}).(int)
	if !ok || i < 0 || i >= len(e.h.Runs) {
		e.problem("call without a run id in its context")
		return -1, nil
	}
	return i, &e.h.Runs[i]
}

func (e *env) problem(s string) {
	e.mu.Lock()
	if e.prob == "" {
		e.prob = s
	}
	e.mu.Unlock()
}

// Concurrency is the process concurrency the service of this history is built with.
func (h History) Concurrency() int64 {
	if h.Conc <= 0 {
		return 1
	}
	return h.Conc
}

func sleepMs(ms uint64) { time.Sleep(time.Duration(ms) * time.Millisecond) }

func contains(xs []uint64, x uint64) bool {
	for _, y := range xs {
		if x == y {
			return true
		}
	}
	return false
}

// attestation data provider
func (e *env) AttestationData(ctx context.Context, opts *api.AttestationDataOpts) (*api.Response[*phase0.AttestationData], error) {
	i, r := e.run(ctx)
	if r == nil {
		return nil, errors.New("no run")
	}
	e.pause(i, r.Timing.Fetch)
	if r.Script.FetchErr {
		return nil, errors.New("scripted data failure")
	}
	d := r.Script.Data
	return &api.Response[*phase0.AttestationData]{
		Data: &phase0.AttestationData{
			Slot:            phase0.Slot(d.Slot),
			Index:           opts.CommitteeIndex,
			BeaconBlockRoot: RootOf(d.Root),
			Source:          &phase0.Checkpoint{Epoch: phase0.Epoch(d.Src), Root: RootOf(d.SrcRoot)},
			Target:          &phase0.Checkpoint{Epoch: phase0.Epoch(d.Tgt), Root: RootOf(d.TgtRoot)},
		},
		Metadata: map[string]any{},
	}, nil
}

// accounts provider: like the dirk and wallet account managers, only requested indices are returned
func (e *env) ValidatingAccountsForEpochByIndex(ctx context.Context, _ phase0.Epoch, indices []phase0.ValidatorIndex) (map[phase0.ValidatorIndex]e2wtypes.Account, error) {
	i, r := e.run(ctx)
	if r == nil {
		return nil, errors.New("no run")
	}
	e.pause(i, r.Timing.Accounts)
	if r.Script.AccountsErr {
		return nil, errors.New("scripted accounts failure")
	}
	res := make(map[phase0.ValidatorIndex]e2wtypes.Account)
	for _, idx := range indices {
		if contains(r.Script.Accounts, uint64(idx)) {
			res[idx] = account{uint64(idx)}
		}
	}
	return res, nil
}

func (e *env) ValidatingAccountsForEpoch(context.Context, phase0.Epoch) (map[phase0.ValidatorIndex]e2wtypes.Account, error) {
	e.problem("unexpected call of ValidatingAccountsForEpoch")
	return nil, errors.New("unexpected")
}
func (e *env) SyncCommitteeAccountsForEpoch(context.Context, phase0.Epoch) (map[phase0.ValidatorIndex]e2wtypes.Account, error) {
	e.problem("unexpected call of SyncCommitteeAccountsForEpoch")
	return nil, errors.New("unexpected")
}
func (e *env) SyncCommitteeAccountsForEpochByIndex(context.Context, phase0.Epoch, []phase0.ValidatorIndex) (map[phase0.ValidatorIndex]e2wtypes.Account, error) {
	e.problem("unexpected call of SyncCommitteeAccountsForEpochByIndex")
	return nil, errors.New("unexpected")
}

// signer: records the request at call time; like the real signer it refuses an empty batch and
// otherwise returns one signature per account (zero for the scripted "unsigned" validators)
func (e *env) SignBeaconAttestations(ctx context.Context, accounts []e2wtypes.Account, slot phase0.Slot,
	committeeIndices []phase0.CommitteeIndex, blockRoot phase0.Root, sourceEpoch phase0.Epoch, sourceRoot phase0.Root,
	targetEpoch phase0.Epoch, targetRoot phase0.Root,
) ([]phase0.BLSSignature, error) {
	i, r := e.run(ctx)
	if r == nil {
		return nil, errors.New("no run")
	}
	vt := Vote{Slot: uint64(slot), Root: rootVal(blockRoot), Src: uint64(sourceEpoch), SrcRoot: rootVal(sourceRoot),
		Tgt: uint64(targetEpoch), TgtRoot: rootVal(targetRoot)}
	ev := Event{Kind: "sign", Run: i, Vote: &vt}
	if len(committeeIndices) != len(accounts) {
		e.problem("signer called with arrays of different lengths")
	}
	idxs := make([]uint64, len(accounts))
	for k, a := range accounts {
		acc, ok := a.(account)
		if !ok {
			e.problem("signer called with a foreign account")
			idxs[k] = weird
		} else {
			idxs[k] = acc.idx
		}
		c := weird
		if k < len(committeeIndices) {
			c = uint64(committeeIndices[k])
		}
		ev.Pairs = append(ev.Pairs, [2]uint64{idxs[k], c})
	}
	sort.SliceStable(ev.Pairs, func(a, b int) bool { return ev.Pairs[a][0] < ev.Pairs[b][0] })
	e.mu.Lock()
	e.trace = append(e.trace, ev)
	e.mu.Unlock()

	e.pause(i, r.Timing.Sign)
	if r.Script.SignErr {
		return nil, errors.New("scripted signing failure")
	}
	if len(accounts) == 0 {
		return nil, errors.New("no accounts supplied")
	}
	sigs := make([]phase0.BLSSignature, len(accounts))
	for k := range accounts {
		if contains(r.Script.Unsigned, idxs[k]) {
			continue
		}
		v := vt
		if k < len(committeeIndices) {
			v.Comm = uint64(committeeIndices[k])
		}
		sigs[k] = encodeSig(idxs[k], v)
	}
	return sigs, nil
}

// submitter: records (decoded) what it is given at call time
func (e *env) SubmitAttestations(ctx context.Context, attestations []*phase0.Attestation) error {
	i, r := e.run(ctx)
	if r == nil {
		return errors.New("no run")
	}
	ev := Event{Kind: "submit", Run: i}
	for _, a := range attestations {
		ev.Atts = append(ev.Atts, decodeAtt(a))
	}
	sort.SliceStable(ev.Atts, func(a, b int) bool { return ev.Atts[a].SigV < ev.Atts[b].SigV })
	e.mu.Lock()
	e.trace = append(e.trace, ev)
	e.mu.Unlock()
	e.pause(i, r.Timing.Submit)
	if r.Script.SubmitErr {
		return errors.New("scripted submission failure")
	}
	return nil
}

func decodeAtt(a *phase0.Attestation) Att {
	var res Att
	if a == nil || a.Data == nil || a.Data.Source == nil || a.Data.Target == nil {
		res.SigV = weird
		return res
	}
	res.Len = a.AggregationBits.Len()
	res.Bits = []uint64{}
	for _, b := range a.AggregationBits.BitIndices() {
		res.Bits = append(res.Bits, uint64(b))
	}
	res.Vote = Vote{Slot: uint64(a.Data.Slot), Comm: uint64(a.Data.Index), Root: rootVal(a.Data.BeaconBlockRoot),
		Src: uint64(a.Data.Source.Epoch), SrcRoot: rootVal(a.Data.Source.Root),
		Tgt: uint64(a.Data.Target.Epoch), TgtRoot: rootVal(a.Data.Target.Root)}
	res.SigV, res.SigVote = decodeSig(a.Signature)
	return res
}

type specProvider struct{ spe uint64 }

func (s specProvider) Spec(context.Context, *api.SpecOpts) (*api.Response[map[string]any], error) {
	return &api.Response[map[string]any]{Data: map[string]any{"SLOTS_PER_EPOCH": s.spe}, Metadata: map[string]any{}}, nil
}

// ---------------------------------------------------------------------------------------------
// Running a history.

func MakeDuty(d Duty) (*attester.Duty, error) {
	vals := make([]phase0.ValidatorIndex, len(d.Vals))
	for i, v := range d.Vals {
		vals[i] = phase0.ValidatorIndex(v)
	}
	comms := make([]phase0.CommitteeIndex, len(d.Comms))
	for i, c := range d.Comms {
		comms[i] = phase0.CommitteeIndex(c)
	}
	poss := append([]uint64{}, d.Poss...)
	sizes := make(map[phase0.CommitteeIndex]uint64, len(d.Sizes))
	for _, s := range d.Sizes {
		sizes[phase0.CommitteeIndex(s[0])] = s[1]
	}
	return attester.NewDuty(context.Background(), phase0.Slot(d.Slot), uint64(len(d.Sizes)), vals, comms, poss, sizes)
}

var logOnce sync.Once

// RunHistory drives the real attester through the history inside a synctest bubble.
func RunHistory(t *testing.T, h History) Observed {
	logOnce.Do(func() { zerologger.Logger = zerologger.Output(io.Discard) })
	var obs Observed
	started := time.Now()
	synctest.Test(t, func(t *testing.T) {
		e := &env{h: h}
		level := zerolog.Disabled
		if h.TraceLog {
			level = zerolog.TraceLevel
		}
		ctx := context.Background()
		svc, err := standardattester.New(ctx,
			standardattester.WithLogLevel(level),
			standardattester.WithMonitor(nullmetrics.New()),
			standardattester.WithProcessConcurrency(h.Concurrency()),
			standardattester.WithChainTime(mocks.NewChainTime(h.SPE)),
			standardattester.WithSpecProvider(specProvider{h.SPE}),
			standardattester.WithAttestationDataProvider(e),
			standardattester.WithAttestationsSubmitter(e),
			standardattester.WithValidatingAccountsProvider(e),
			standardattester.WithBeaconAttestationsSigner(e),
		)
		if err != nil {
			obs.Problem = "constructor: " + err.Error()
			return
		}
		results := make([]string, len(h.Runs))
		var wg sync.WaitGroup
		for i := range h.Runs {
			duty, err := MakeDuty(h.Runs[i].Duty)
			if err != nil {
				results[i] = "noduty"
				continue
			}
			wg.Add(1)
			go func(i int, duty *attester.Duty) {
				defer wg.Done()
				defer func() {
					if r := recover(); r != nil {
						results[i] = fmt.Sprintf("panic: %v", r)
					}
				}()
				sleepMs(h.Runs[i].Timing.Start)
				atts, err := svc.Attest(context.WithValue(ctx, runKey{}, i), duty)
				if err != nil {
					results[i] = "err"
				} else {
					results[i] = fmt.Sprintf("ok:%d", len(atts))
				}
			}(i, duty)
		}
		wg.Wait()
		obs.Results = results
		e.mu.Lock()
		obs.Trace = e.trace
		obs.Problem = e.prob
		e.mu.Unlock()
		final := svc.VerifAttested()
		for epoch, vals := range final {
			row := []uint64{uint64(epoch)}
			for _, v := range vals {
				row = append(row, uint64(v))
			}
			obs.Final = append(obs.Final, row)
		}
		sort.Slice(obs.Final, func(a, b int) bool { return obs.Final[a][0] < obs.Final[b][0] })
	})
	obs.Elapsed = time.Since(started)
	if obs.Trace == nil {
		obs.Trace = []Event{}
	}
	return obs
}

// ---------------------------------------------------------------------------------------------
// Gallina.

func nlist(xs []uint64) string {
	items := make([]string, len(xs))
	for i, x := range xs {
		items[i] = N(x)
	}
	return List(items)
}

func dutyTerm(d Duty) string {
	sizes := make([]string, len(d.Sizes))
	for i, s := range d.Sizes {
		sizes[i] = Pair(N(s[0]), N(s[1]))
	}
	return Record("d_slot", N(d.Slot), "d_vals", nlist(d.Vals), "d_comms", nlist(d.Comms), "d_poss", nlist(d.Poss), "d_sizes", List(sizes))
}

func dataTerm(d Data) string {
	return Record("a_slot", N(d.Slot), "a_root", N(d.Root), "a_src", N(d.Src), "a_src_root", N(d.SrcRoot), "a_tgt", N(d.Tgt), "a_tgt_root", N(d.TgtRoot))
}

func scriptTerm(s Script) string {
	fetch, accounts, sign := None(), None(), None()
	if !s.FetchErr {
		fetch = Some(dataTerm(s.Data))
	}
	if !s.AccountsErr {
		accounts = Some(nlist(s.Accounts))
	}
	if !s.SignErr {
		sign = Some(nlist(s.Unsigned))
	}
	return Record("s_fetch", fetch, "s_accounts", accounts, "s_sign", sign, "s_submit", Bool(!s.SubmitErr))
}

func voteTerm(v Vote) string {
	return Record("vt_slot", N(v.Slot), "vt_comm", N(v.Comm), "vt_root", N(v.Root), "vt_src", N(v.Src), "vt_src_root", N(v.SrcRoot),
		"vt_tgt", N(v.Tgt), "vt_tgt_root", N(v.TgtRoot))
}

func eventTerm(ev Event) string {
	switch ev.Kind {
	case "sign":
		pairs := make([]string, len(ev.Pairs))
		for i, p := range ev.Pairs {
			pairs[i] = Pair(N(p[0]), N(p[1]))
		}
		v := ev.Vote
		return App("SignReq", Record("sr_run", Nat(ev.Run), "sr_pairs", List(pairs), "sr_slot", N(v.Slot), "sr_root", N(v.Root),
			"sr_src", N(v.Src), "sr_src_root", N(v.SrcRoot), "sr_tgt", N(v.Tgt), "sr_tgt_root", N(v.TgtRoot)))
	default:
		atts := make([]string, len(ev.Atts))
		for i, a := range ev.Atts {
			atts[i] = Record("at_len", N(a.Len), "at_bits", nlist(a.Bits), "at_vote", voteTerm(a.Vote), "at_sig", Pair(N(a.SigV), voteTerm(a.SigVote)))
		}
		return App("Submit", Nat(ev.Run), List(atts))
	}
}

// Term prints the case.  Results that the model has no word for (panic, rejected duty) become
// "ROk 4294967295", which no model run produces: such a case is a mismatch, never silently dropped.
func Term(id uint64, h History, obs Observed) string {
	runs := make([]string, len(h.Runs))
	times := make([]string, len(h.Runs))
	for i, r := range h.Runs {
		runs[i] = Record("r_duty", dutyTerm(r.Duty), "r_script", scriptTerm(r.Script))
		times[i] = Record("tm_start", N(r.Timing.Start), "tm_fetch", N(r.Timing.Fetch), "tm_accounts", N(r.Timing.Accounts),
			"tm_sign", N(r.Timing.Sign), "tm_submit", N(r.Timing.Submit))
	}
	trace := make([]string, len(obs.Trace))
	for i, ev := range obs.Trace {
		trace[i] = eventTerm(ev)
	}
	results := make([]string, len(obs.Results))
	for i, r := range obs.Results {
		var n uint64
		switch {
		case r == "err":
			results[i] = "RErr"
		case len(r) > 3 && r[:3] == "ok:":
			fmt.Sscanf(r[3:], "%d", &n)
			results[i] = App("ROk", N(n))
		default:
			results[i] = App("ROk", N(4294967295))
		}
	}
	if obs.Problem != "" {
		results = append(results, App("ROk", N(4294967294)))
	}
	final := make([]string, len(obs.Final))
	for i, row := range obs.Final {
		final[i] = Pair(N(row[0]), nlist(row[1:]))
	}
	return Record("c_id", N(id), "c_spe", N(h.SPE), "c_runs", List(runs), "c_times", List(times),
		"c_trace", List(trace), "c_results", List(results), "c_final", List(final))
}

// ---------------------------------------------------------------------------------------------
// Helpers for generators.

// K is the modulus that keeps the instants of different runs distinct: every instant of run i is
// congruent to i modulo K (start = a*K+i, latencies are multiples of K), for up to K runs.
const K = 16

func Epoch(h History, i int) uint64 { return h.Runs[i].Duty.Slot / h.SPE }

// DataOK is the property's notion of acceptable attestation data for the duty.
func DataOK(spe uint64, r Run) bool {
	d := r.Script.Data
	return !r.Script.FetchErr && d.Slot == r.Duty.Slot && d.Tgt == r.Duty.Slot/spe && d.Src <= d.Tgt
}
