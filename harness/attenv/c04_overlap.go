// C04 (added after seeded change C04-8): a signer and a submitter that behave like the real ones
// when several calls of Attest are in flight on ONE service.
//
// The real signer computes what it signs from its arguments when it is called and hands that to
// the (possibly slow, remote) accounts; the real submitter holds on to the attestations it was given
// until the beacon nodes have answered.  Both keep the caller waiting, and meanwhile another call of
// Attest -- the scheduler starts one job per slot, with no mutual exclusion -- may run on the same
// service.  So the mocks here
//   - record their arguments when called (as attenv.env does) and sign exactly those values,
//   - look at their arguments AGAIN when the scripted latency has passed: slices and objects handed
//     to the signer or the submitter must not change while the call is outstanding.  If they did, the
//     values at return are recorded as a further event of the same kind for that call (the property
//     predicate allows one submission per call, and signing requests of one call only for validators
//     that no other request of that call names, so this is a violation with the input at hand) and
//     the case is marked with a problem (so it is a mismatch as well).
//
// Everything else (attestation data, accounts, run ids, the trace) is attenv.env's.
package attenv

import (
	"context"
	"errors"
	"fmt"
	"sort"

	"github.com/attestantio/go-eth2-client/spec/phase0"
	e2wtypes "github.com/wealdtech/go-eth2-wallet-types/v2"
)

type env2 struct {
	*env
	// signLat[i], when not empty: (validator, latency) pairs of call i -- the remote signer is slower
	// for some accounts than for others.  A signing request is answered when its slowest account has
	// answered: after the largest latency of the accounts it names (Timing.Sign for an account without
	// an entry).  See c04_conc.go.
	signLat [][][2]uint64
}

func (e *env2) signLatency(i int, r *Run, idxs []uint64) uint64 {
	if i >= len(e.signLat) || len(e.signLat[i]) == 0 || len(idxs) == 0 {
		return r.Timing.Sign
	}
	var m uint64
	for _, v := range idxs {
		l := r.Timing.Sign
		for _, p := range e.signLat[i] {
			if p[0] == v {
				l = p[1]
			}
		}
		if l > m {
			m = l
		}
	}
	return m
}

func readSignArgs(e *env, accounts []e2wtypes.Account, committeeIndices []phase0.CommitteeIndex) (idxs, comms []uint64, pairs [][2]uint64) {
	idxs = make([]uint64, len(accounts))
	comms = make([]uint64, len(accounts))
	for k, a := range accounts {
		acc, ok := a.(account)
		if !ok {
			e.problem("signer called with a foreign account")
			idxs[k] = weird
		} else {
			idxs[k] = acc.idx
		}
		comms[k] = weird
		if k < len(committeeIndices) {
			comms[k] = uint64(committeeIndices[k])
		}
		pairs = append(pairs, [2]uint64{idxs[k], comms[k]})
	}
	sort.SliceStable(pairs, func(a, b int) bool { return pairs[a][0] < pairs[b][0] })
	return idxs, comms, pairs
}

func (e *env2) SignBeaconAttestations(ctx context.Context, accounts []e2wtypes.Account, slot phase0.Slot,
	committeeIndices []phase0.CommitteeIndex, blockRoot phase0.Root, sourceEpoch phase0.Epoch, sourceRoot phase0.Root,
	targetEpoch phase0.Epoch, targetRoot phase0.Root,
) ([]phase0.BLSSignature, error) {
	i, r := e.run(ctx)
	if r == nil {
		return nil, errors.New("no run")
	}
	vt := Vote{Slot: uint64(slot), Root: rootVal(blockRoot), Src: uint64(sourceEpoch), SrcRoot: rootVal(sourceRoot),
		Tgt: uint64(targetEpoch), TgtRoot: rootVal(targetRoot)}
	if len(committeeIndices) != len(accounts) {
		e.problem("signer called with arrays of different lengths")
	}
	idxs, comms, pairs := readSignArgs(e.env, accounts, committeeIndices)
	e.mu.Lock()
	e.trace = append(e.trace, Event{Kind: "sign", Run: i, Vote: &vt, Pairs: pairs})
	e.mu.Unlock()

	sleepMs(e.signLatency(i, r, idxs))

	// the arguments are the caller's until the call returns: they must still be what they were
	if _, _, later := readSignArgs(e.env, accounts, committeeIndices); fmt.Sprint(later) != fmt.Sprint(pairs) {
		vt2 := vt
		e.mu.Lock()
		e.trace = append(e.trace, Event{Kind: "sign", Run: i, Vote: &vt2, Pairs: later})
		e.mu.Unlock()
		e.problem(fmt.Sprintf("the arrays given to SignBeaconAttestations by call %d changed while it was signing (second sign event: their values at return)", i))
	}
	if r.Script.SignErr {
		return nil, errors.New("scripted signing failure")
	}
	if len(accounts) == 0 {
		return nil, errors.New("no accounts supplied")
	}
	sigs := make([]phase0.BLSSignature, len(accounts))
	for k := range accounts {
		if contains(r.Script.Unsigned, idxs[k]) {
			continue
		}
		v := vt
		v.Comm = comms[k]
		sigs[k] = encodeSig(idxs[k], v)
	}
	return sigs, nil
}

func decodeAtts(attestations []*phase0.Attestation) []Att {
	atts := make([]Att, 0, len(attestations))
	for _, a := range attestations {
		atts = append(atts, decodeAtt(a))
	}
	sort.SliceStable(atts, func(a, b int) bool { return atts[a].SigV < atts[b].SigV })
	return atts
}

func (e *env2) SubmitAttestations(ctx context.Context, attestations []*phase0.Attestation) error {
	i, r := e.run(ctx)
	if r == nil {
		return errors.New("no run")
	}
	atts := decodeAtts(attestations)
	e.mu.Lock()
	e.trace = append(e.trace, Event{Kind: "submit", Run: i, Atts: atts})
	e.mu.Unlock()

	sleepMs(r.Timing.Submit)

	// the beacon nodes are sent what the slice holds when they are reached, not when Attest called
	if later := decodeAtts(attestations); fmt.Sprint(later) != fmt.Sprint(atts) {
		e.mu.Lock()
		e.trace = append(e.trace, Event{Kind: "submit", Run: i, Atts: later})
		e.mu.Unlock()
		e.problem(fmt.Sprintf("the attestations given to SubmitAttestations by call %d changed while they were being submitted (second submit event: their values at return)", i))
	}
	if r.Script.SubmitErr {
		return errors.New("scripted submission failure")
	}
	return nil
}
