package c03

import (
	"encoding/json"
	"os"
	"sort"

	. "verifharness/common"
)

func getenv(k, def string) string {
	if v := os.Getenv(k); v != "" {
		return v
	}
	return def
}

func jsonOf(v any) string {
	b, _ := json.Marshal(v)
	return string(b)
}

// ---------------------------------------------------------------------------------------------
// Chain-time inputs.

const nsPerS = int64(1000000000)

func genTime(r *Rand) Input {
	in := TimeIn{SPE: uint64(r.Range(1, 64))}
	tags := []string{"time"}
	secs := int64(r.Range(1, 60))
	if r.Chance(1, 3) {
		secs = []int64{12, 5, 6, 2, 1}[r.Intn(5)]
	}
	in.DurNs = secs * nsPerS
	if r.Chance(1, 12) {
		in.DurNs += int64(r.Range(1, 999999999)) // not a whole number of seconds: outside the theorem's domain
		tags = append(tags, "fractional-duration")
	}
	// age of the chain at the first probe
	var elapsed int64
	switch r.Intn(6) {
	case 0: // genesis in the future
		elapsed = -int64(r.Range(1, 200)) * in.DurNs / int64(r.Range(1, 7))
		tags = append(tags, "before-genesis")
	case 1:
		elapsed = int64(r.Range(0, 300)) * nsPerS / int64(r.Range(1, 9))
	case 2:
		elapsed = int64(r.Range(1, 400)) * 86400 * nsPerS // up to about a year
	default: // 1 to 60 years: beyond 2^24 s, where float64 seconds lose nanoseconds
		elapsed = int64(r.Range(200, 21900))*86400*nsPerS + int64(r.U64()%uint64(86400*nsPerS))
		tags = append(tags, "old-chain")
	}
	in.ElapsedNs = elapsed
	// target instants (ns since genesis), at or after the first probe
	var targets []int64
	base := elapsed
	if base < 0 {
		targets = append(targets, -1, 0, 1, in.DurNs-1, in.DurNs, in.DurNs+1)
		base = 0
	}
	cur := base / in.DurNs
	offs := []int64{-1, 0, 1, -1000, 1000, -999999999, nsPerS - 1, nsPerS, in.DurNs / 2}
	for i := 0; i < 3; i++ {
		k := cur + 1 + int64(r.Intn(4))
		if r.Chance(1, 2) { // an epoch boundary
			k = (cur/int64(in.SPE) + 1 + int64(r.Intn(2))) * int64(in.SPE)
		}
		for j := 0; j < 3; j++ {
			targets = append(targets, k*in.DurNs+offs[r.Intn(len(offs))])
		}
		targets = append(targets, k*in.DurNs-1, k*in.DurNs)
		// the last nanosecond of a whole second inside a slot
		targets = append(targets, k*in.DurNs+int64(r.Intn(int(in.DurNs/nsPerS)+1))*nsPerS-1)
	}
	for i := 0; i < 3; i++ {
		targets = append(targets, base+int64(r.U64()%uint64(6*int64(in.SPE)*in.DurNs)))
	}
	sort.Slice(targets, func(i, j int) bool { return targets[i] < targets[j] })
	in.Deltas = []int64{0}
	for _, tg := range targets {
		if d := tg - elapsed; d >= 0 {
			in.Deltas = append(in.Deltas, d)
		}
	}
	if len(in.Deltas) > 14 {
		// keep the first and a random selection, in order
		keep := map[int]bool{0: true}
		for len(keep) < 14 {
			keep[r.Intn(len(in.Deltas))] = true
		}
		var ds []int64
		for i, d := range in.Deltas {
			if keep[i] {
				ds = append(ds, d)
			}
		}
		in.Deltas = ds
	}
	// slots and epochs for the pure conversions
	ucur := uint64(cur)
	in.Slots = []uint64{0, 1, ucur, ucur + 1, ucur - ucur%in.SPE, ucur - ucur%in.SPE + in.SPE - 1, uint64(r.Intn(1 << 20))}
	in.Epochs = []uint64{0, 1, ucur / in.SPE, ucur/in.SPE + 1, uint64(r.Intn(1 << 16))}
	if r.Chance(1, 6) { // int64/uint64 overflow edges: the model carries the wrap-around, the theorems exclude it
		tags = append(tags, "overflow-edge")
		edge := uint64((int64(1)<<62)/in.DurNs) * 2 // about 2^63 / dur
		in.Slots = append(in.Slots, edge-1, edge, edge+1, r.U64(), 1<<63, ^uint64(0))
		in.Epochs = append(in.Epochs, edge/in.SPE, edge/in.SPE+1, r.U64(), (^uint64(0))/in.SPE, (^uint64(0))/in.SPE+1)
	}
	return Input{Kind: "time", Time: &in, Tags: tags}
}

func genSecs(r *Rand) Input {
	var ds []int64
	for i := 0; i < 24; i++ {
		sec := int64(r.U64() % uint64(int64(1)<<uint(r.Range(1, 33))))
		var ns int64
		switch r.Intn(4) {
		case 0:
			ns = nsPerS - 1 - int64(r.Intn(40))
		case 1:
			ns = int64(r.Intn(40))
		default:
			ns = int64(r.Intn(int(nsPerS)))
		}
		ds = append(ds, sec*nsPerS+ns)
	}
	return Input{Kind: "secs", Secs: ds, Tags: []string{"secs-f64"}}
}

// ---------------------------------------------------------------------------------------------
// MergeDuties inputs: keys (slot, committee, validator) distinct, or exact duplicates.

func genMerge(r *Rand) Input {
	n := r.Range(0, 14)
	base := uint64(r.Intn(1000))
	seen := map[[3]uint64]FDuty{}
	tags := map[string]bool{}
	tiny := r.Chance(1, 6)
	var ds []FDuty
	for i := 0; i < n; i++ {
		d := FDuty{Slot: base + uint64(r.Intn(4)), Val: uint64(r.Intn(12)), Comm: uint64(r.Intn(3)), VCI: uint64(r.Intn(100))}
		k := [3]uint64{d.Slot, d.Val, d.Comm}
		if old, ok := seen[k]; ok {
			d = old // exact duplicate
		} else {
			d.CLen = 100 + d.Comm*7 + d.Slot%5
			d.CAS = 4 + d.Slot%3
			if r.Chance(1, 5) { // inconsistent node answers: the last duty in sort order decides
				d.CLen += uint64(r.Intn(3))
				d.CAS += uint64(r.Intn(3))
			}
			// Round 7: the edges of the legal ranges.  The last seat of a committee (position =
			// length-1, always so in a one-member committee of a tiny network), the first seat, and
			// the last committee of the slot (committee = committees-1) are all legal duties.
			switch {
			case tiny:
				d.CLen = uint64(r.Range(1, 3))
				d.VCI = uint64(r.Intn(int(d.CLen)))
				d.CAS = 3
				tags["merge-tiny-committee"] = true
			case r.Chance(1, 4):
				d.VCI = d.CLen - 1
				tags["merge-last-seat"] = true
			case r.Chance(1, 6):
				d.VCI = 0
			}
			if !tiny && r.Chance(1, 6) {
				d.CAS = d.Comm + 1
				tags["merge-last-committee"] = true
			}
			seen[k] = d
		}
		ds = append(ds, d)
	}
	tl := []string{"merge"}
	for _, t := range []string{"merge-tiny-committee", "merge-last-seat", "merge-last-committee"} {
		if tags[t] {
			tl = append(tl, t)
		}
	}
	return Input{Kind: "merge", Merge: ds, Tags: tl}
}

// ---------------------------------------------------------------------------------------------
// Controller histories.

type hgen struct {
	r       *Rand
	h       *Hist
	version uint64
	tags    map[string]bool
}

func (g *hgen) tag(s string) { g.tags[s] = true }

// slotNear picks a slot for a duty of epoch e: mostly inside, with the edges and the outside
// neighbours over-represented, and the current slot and its neighbours.
func (g *hgen) slotNear(e, cur uint64) uint64 {
	spe := g.h.SPE
	first := e * spe
	switch g.r.Intn(12) {
	case 0:
		return first
	case 1:
		return first + spe - 1
	case 2:
		if first > 0 {
			g.tag("duty-outside-epoch")
			return first - 1
		}
	case 3:
		g.tag("duty-outside-epoch")
		return first + spe
	case 4:
		g.tag("duty-outside-epoch")
		return uint64(g.r.Intn(int(first + 3*spe)))
	case 5:
		return cur
	case 6:
		return cur + 1
	case 7:
		if cur > 0 {
			return cur - 1
		}
	}
	return first + uint64(g.r.Intn(int(spe)))
}

// env builds the node's view for epochs lo..hi; validator indices carry the version so that a
// refreshed job is distinguishable from a stale one.
func (g *hgen) env(lo, hi, cur uint64, withSync bool) *Env {
	g.version++
	e := &Env{Vals: true}
	if g.r.Chance(1, 40) {
		e.Vals = false
		g.tag("no-validators")
	}
	off := g.version * 10
	for ep := lo; ep <= hi; ep++ {
		var ads []ADuty
		nv := g.r.Range(1, 4)
		if g.r.Chance(1, 15) {
			nv = 0
		}
		for v := 1; v <= nv; v++ {
			d := ADuty{Slot: g.slotNear(ep, cur), Val: off + uint64(v), Comm: uint64(g.r.Intn(3)), VCI: uint64(g.r.Intn(50))}
			ads = append(ads, d)
			if g.r.Chance(1, 10) { // the node repeats a duty
				ads = append(ads, d)
				g.tag("duplicate-duty")
			}
		}
		if g.r.Chance(1, 3) && len(ads) > 0 { // two validators in one slot
			d := ads[0]
			d.Val = off + 7
			d.Comm = uint64(g.r.Intn(3))
			ads = append(ads, d)
		}
		e.Att = append(e.Att, EpochAtt{Epoch: ep, Duties: ads})
		var pds []PDuty
		np := g.r.Range(0, 3)
		used := map[uint64]bool{}
		for i := 0; i < np; i++ {
			s := g.slotNear(ep, cur)
			if used[s] {
				if !g.r.Chance(1, 6) {
					continue
				}
				g.tag("two-proposers-one-slot")
			}
			used[s] = true
			pds = append(pds, PDuty{Slot: s, Val: off + uint64(g.r.Range(1, 3))})
		}
		e.Prop = append(e.Prop, EpochProp{Epoch: ep, Duties: pds})
	}
	if withSync && g.h.Period > 0 {
		for p := lo / g.h.Period; p <= hi/g.h.Period+1; p++ {
			var vs []uint64
			for i := 0; i < g.r.Range(0, 3); i++ {
				vs = append(vs, off+uint64(g.r.Range(1, 3)))
			}
			e.Sync = append(e.Sync, PeriodSync{Period: p, Vals: vs})
		}
	}
	return e
}

func (g *hgen) add(op Op) { g.h.Ops = append(g.h.Ops, op) }

func newHist(r *Rand) *hgen {
	h := &Hist{
		SPE:         uint64(r.Range(2, 6)),
		SlotSecs:    uint64([]int{12, 12, 5, 6, 1, 2, 3, 7}[r.Intn(8)]),
		GenesisUnix: 1600000000 + int64(r.Intn(100000)),
		Period:      uint64([]int{2, 3, 4, 8}[r.Intn(4)]),
	}
	if r.Chance(1, 8) {
		h.SPE = uint64(r.Range(7, 32))
	}
	switch r.Intn(3) {
	case 0:
		h.AttDelayMs = int64(h.SlotSecs) * 1000 / 3
	case 1:
		h.AttDelayMs = int64(r.Range(1, int(h.SlotSecs)*1000-1))
	default:
		h.AttDelayMs = int64(r.Range(1, 4000))
	}
	if r.Chance(1, 2) {
		h.PropDelayMs = int64(r.Range(1, int(h.SlotSecs)*500))
	}
	h.FastTrack = r.Chance(1, 2)
	return &hgen{r: r, h: h, tags: map[string]bool{}}
}

func (g *hgen) finish(kind string) Input {
	tags := []string{"hist", kind}
	for t := range g.tags {
		tags = append(tags, t)
	}
	sort.Strings(tags[2:])
	return Input{Kind: "hist", Hist: g.h, Tags: tags}
}

// direct: hook-built controller; direct schedule / refresh calls with every kind of epoch argument
// and clock position.
func genDirect(r *Rand) Input {
	g := newHist(r)
	h := g.h
	h.Hook = true
	ce := uint64(r.Range(0, 40))
	cur := ce*h.SPE + uint64(r.Intn(int(h.SPE)))
	if r.Chance(1, 4) { // exactly on an epoch edge
		cur = ce*h.SPE + []uint64{0, h.SPE - 1}[r.Intn(2)]
	}
	lo := ce
	if lo > 0 {
		lo--
	}
	g.add(Op{K: "advance", Slot: cur})
	g.add(Op{K: "setenv", Env: g.env(lo, ce+2, cur, false)})
	pickEpoch := func() uint64 {
		switch r.Intn(8) {
		case 0:
			if ce > 0 {
				return ce - 1
			}
		case 1, 2:
			return ce + 1
		case 3:
			return ce + 2
		}
		return ce
	}
	for i, n := 0, r.Range(3, 9); i < n; i++ {
		switch k := r.Intn(20); {
		case k < 5:
			g.add(Op{K: "schedatt", Epoch: pickEpoch(), NotCur: r.Bool()})
		case k < 9:
			g.add(Op{K: "schedprop", Epoch: pickEpoch(), NotCur: r.Bool()})
		case k < 11:
			g.add(Op{K: "refreshatt", Epoch: pickEpoch()})
		case k < 13:
			g.add(Op{K: "refreshprop", Epoch: pickEpoch()})
		case k < 15:
			cur += uint64(r.Range(0, 2))
			if r.Chance(1, 5) {
				cur += h.SPE
			}
			ce = cur / h.SPE
			g.add(Op{K: "advance", Slot: cur})
		case k < 16:
			lo := ce
			if lo > 0 {
				lo--
			}
			g.add(Op{K: "setenv", Env: g.env(lo, ce+2, cur, false)})
		case k < 18:
			kind := []string{"att", "prop", "early"}[r.Intn(3)]
			s := cur + uint64(r.Intn(3))
			if r.Chance(1, 3) && s > 0 {
				s--
			}
			hs := s - 1
			if r.Chance(1, 3) {
				hs = s
			}
			g.add(Op{K: "fire", Job: kind, Num: s, HeadSlot: hs})
		case k < 19:
			g.add(Op{K: "tick"})
			if r.Chance(1, 2) {
				g.add(Op{K: "fire", Job: "prep", Num: ce + 1})
			}
		default:
			g.add(Op{K: "head", Slot: cur, Prev: uint64(r.Intn(3)), Cur: uint64(r.Intn(3))})
		}
	}
	return g.finish("direct")
}

// lifecycle: the public constructor, the clock moving slot by slot, the epoch ticker, head events
// with (mostly) consistent dependent roots, jobs fired when due, restarts.  Follows the discipline
// of the "no slot twice" theorem (WF).
func genLifecycle(r *Rand) Input {
	g := newHist(r)
	h := g.h
	h.WF = true
	withSync := r.Chance(1, 4)
	if withSync {
		h.HaveAgg = true
		f := uint64(0)
		h.SpecAltair = &f
		g.tag("sync-enabled")
	}
	ce := uint64(r.Range(1, 30))
	cur := ce*h.SPE + uint64(r.Intn(int(h.SPE)))
	if r.Chance(1, 4) {
		cur = ce*h.SPE + []uint64{0, h.SPE - 1}[r.Intn(2)]
	}
	g.add(Op{K: "advance", Slot: cur})
	g.add(Op{K: "setenv", Env: g.env(ce, ce+2, cur, withSync)})
	g.add(Op{K: "start"})
	startEpoch := ce
	prevRoot, curRoot := uint64(r.Range(1, 9)), uint64(r.Range(11, 19))
	nextRoot := uint64(100)
	ticked := map[uint64]bool{}
	steps := r.Range(int(h.SPE), 2*int(h.SPE)+4)
	if steps > 14 {
		steps = 14
	}
	for i := 0; i < steps; i++ {
		cur++
		if r.Chance(1, 12) {
			cur++ // a slot in which nothing is delivered
		}
		newEpoch := cur/h.SPE != ce
		ce = cur / h.SPE
		g.add(Op{K: "advance", Slot: cur})
		if newEpoch {
			prevRoot, curRoot = curRoot, nextRoot
			nextRoot++
		}
		if cur%h.SPE == 0 && ce > startEpoch && r.Chance(9, 10) {
			g.add(Op{K: "tick"})
			ticked[ce] = true
		}
		if r.Chance(1, 10) { // the node's duties change (with or without a visible root change)
			g.add(Op{K: "setenv", Env: g.env(ce, ce+2, cur, withSync)})
		}
		if r.Chance(4, 5) {
			pr, cr := prevRoot, curRoot
			switch r.Intn(12) {
			case 0:
				g.tag("prev-root-changed")
				g.add(Op{K: "setenv", Env: g.env(ce, ce+2, cur, withSync)})
				prevRoot = nextRoot
				nextRoot++
				pr = prevRoot
			case 1:
				g.tag("cur-root-changed")
				g.add(Op{K: "setenv", Env: g.env(ce, ce+2, cur, withSync)})
				curRoot = nextRoot
				nextRoot++
				cr = curRoot
			case 2:
				g.tag("both-roots-changed")
				g.add(Op{K: "setenv", Env: g.env(ce, ce+2, cur, withSync)})
				prevRoot, curRoot = nextRoot, nextRoot+1
				nextRoot += 2
				pr, cr = prevRoot, curRoot
			}
			g.add(Op{K: "head", Slot: cur, Prev: pr, Cur: cr})
		}
		if ticked[ce] && r.Chance(1, 8) {
			g.tag("double-tick")
			g.add(Op{K: "tick"})
		}
		// the jobs of this slot become due
		if r.Chance(9, 10) {
			hs := cur - 1
			if r.Chance(1, 2) {
				hs = cur - 2
			}
			g.add(Op{K: "fire", Job: "early", Num: cur, HeadSlot: hs})
		}
		if r.Chance(9, 10) {
			g.add(Op{K: "fire", Job: "prop", Num: cur})
		}
		if h.PropDelayMs > 0 && r.Chance(1, 3) {
			// the early-proposal job is still waiting for the head header (or was left behind) when the
			// slot's proposal job has already run on its own timer: bringing the proposal forward now
			// must find nothing to run.  An early job that ran above is gone and this is a no-op.
			g.tag("early-after-proposal-ran")
			g.add(Op{K: "fire", Job: "early", Num: cur, HeadSlot: cur - 1})
		}
		if r.Chance(9, 10) {
			g.add(Op{K: "fire", Job: "att", Num: cur})
		}
		if r.Chance(1, 10) && cur > 1 { // a job that was left behind runs late
			g.add(Op{K: "fire", Job: []string{"att", "prop"}[r.Intn(2)], Num: cur - 1})
		}
		if cur%h.SPE == h.SPE/2 && r.Chance(9, 10) {
			g.add(Op{K: "fire", Job: "prep", Num: ce + 1})
		}
		switch r.Intn(30) {
		case 0:
			g.add(Op{K: "refreshatt", Epoch: ce + uint64(r.Intn(2))})
		case 1:
			g.add(Op{K: "refreshprop", Epoch: ce})
		case 2, 3:
			g.tag("restart")
			g.add(Op{K: "start"})
			startEpoch = ce
			ticked = map[uint64]bool{}
		}
	}
	return g.finish("lifecycle")
}

// reorg: head-event sequences over a small alphabet of roots, including the zero root, epoch 0,
// events for other slots, epoch changes.
func genReorg(r *Rand) Input {
	g := newHist(r)
	h := g.h
	useNew := r.Bool()
	h.Hook = !useNew
	ce := uint64(r.Range(0, 6))
	if r.Chance(1, 3) {
		ce = 0
		g.tag("epoch-0")
	}
	cur := ce*h.SPE + uint64(r.Intn(int(h.SPE)))
	g.add(Op{K: "advance", Slot: cur})
	g.add(Op{K: "setenv", Env: g.env(ce, ce+2, cur, false)})
	if useNew {
		g.add(Op{K: "start"})
	} else {
		g.add(Op{K: "schedatt", Epoch: ce, NotCur: true})
		g.add(Op{K: "schedprop", Epoch: ce, NotCur: true})
		g.add(Op{K: "schedatt", Epoch: ce + 1, NotCur: true})
	}
	for i, n := 0, r.Range(3, 8); i < n; i++ {
		if r.Chance(1, 2) {
			cur += uint64(r.Range(1, 2))
			if r.Chance(1, 4) {
				cur = (cur/h.SPE + 1) * h.SPE // first slot of the next epoch
			}
			g.add(Op{K: "advance", Slot: cur})
		}
		ce = cur / h.SPE
		g.add(Op{K: "setenv", Env: g.env(ce, ce+2, cur, false)})
		slot := cur
		if r.Chance(1, 10) {
			slot = cur + uint64(r.Range(1, 2)) - uint64(r.Intn(2))*2 // an event for another slot (ignored)
			g.tag("event-other-slot")
		}
		g.add(Op{K: "head", Slot: slot, Prev: uint64(r.Intn(4)), Cur: uint64(r.Intn(4))})
	}
	return g.finish("reorg")
}

// altair: chains whose Altair fork epoch is not 0: start-ups before, at and after the fork; the
// tick of the fork epoch.
func genAltair(r *Rand) Input {
	g := newHist(r)
	h := g.h
	h.HaveAgg = !r.Chance(1, 10)
	f := uint64(r.Range(1, 9))
	if !r.Chance(1, 12) {
		h.SpecAltair = &f
	}
	g.tag("altair-fork-epoch-nonzero")
	var ce uint64
	switch r.Intn(4) {
	case 0:
		ce = f
	case 1:
		ce = f + uint64(r.Range(1, 4))
	default:
		ce = uint64(r.Range(1, int(f)))
		if ce < f {
			g.tag("start-before-altair")
		}
	}
	cur := ce*h.SPE + uint64(r.Intn(int(h.SPE)))
	g.add(Op{K: "advance", Slot: cur})
	g.add(Op{K: "setenv", Env: g.env(ce, ce+2, cur, true)})
	g.add(Op{K: "start"})
	for i, n := 0, r.Range(1, 4); i < n; i++ {
		ce++
		cur = ce * h.SPE
		g.add(Op{K: "advance", Slot: cur})
		if r.Chance(1, 2) {
			g.add(Op{K: "setenv", Env: g.env(ce, ce+2, cur, true)})
		}
		g.add(Op{K: "tick"})
		if ce == f {
			g.tag("tick-at-altair")
		}
		if r.Chance(1, 3) {
			g.add(Op{K: "schedsync", Epoch: ce + uint64(r.Intn(int(h.Period)+1)), NotCur: r.Bool()})
		}
		if r.Chance(1, 4) && ce >= h.Period {
			g.add(Op{K: "refreshsync", Epoch: ce + uint64(r.Intn(int(h.Period)))})
		}
	}
	return g.finish("altair")
}

// syncEpoch0: a chain whose Altair fork epoch is 0, observed during epoch 0 and around the first
// period boundary: the first slot of the window must not underflow ("slot -1"), and the refresh of
// the next period uses the unguarded first slot - 1 of a later period.
func genSyncEpoch0(r *Rand) Input {
	g := newHist(r)
	h := g.h
	h.HaveAgg = true
	f := uint64(0)
	h.SpecAltair = &f
	g.tag("sync-epoch-0")
	useNew := r.Bool()
	h.Hook = !useNew
	h.Handling = true
	h.AltairEpoch = 0
	cur := uint64(r.Intn(int(h.SPE)))
	if r.Chance(1, 3) {
		cur = 0
	}
	g.add(Op{K: "advance", Slot: cur})
	g.add(Op{K: "setenv", Env: g.env(0, 2, cur, true)})
	if useNew {
		g.add(Op{K: "start"})
	}
	for i, n := 0, r.Range(1, 4); i < n; i++ {
		switch r.Intn(5) {
		case 0, 1:
			g.add(Op{K: "schedsync", Epoch: uint64(r.Intn(int(h.Period) + 1)), NotCur: r.Bool()})
		case 2:
			g.add(Op{K: "refreshsync", Epoch: uint64(r.Intn(2)) * h.Period})
		case 3:
			cur += uint64(r.Range(0, 2))
			g.add(Op{K: "advance", Slot: cur})
			g.add(Op{K: "fire", Job: "sync", Num: cur + uint64(r.Intn(2))})
		default:
			g.add(Op{K: "setenv", Env: g.env(0, 2, cur, true)})
		}
	}
	return g.finish("sync-epoch-0")
}

// syncBoundary: start-ups and restarts in each of the last 8 epochs of a sync committee period,
// after which the clock runs, epoch by epoch with the ticker, through the period boundary: every
// slot of the NEXT period must have its preparation job before it comes up, whichever of the
// start-up code, the epoch ticker (period - 5) and the fork-epoch handler was responsible for it.
// Variants: fork at 0 / at an earlier epoch (aligned or not); the Altair fork inside the last 5
// epochs of a period with the process started before the fork (fork-epoch handler); restarts on the
// way; changed views of the node; a skipped tick (the claim is then void).
func genSyncBoundary(r *Rand) Input {
	g := newHist(r)
	h := g.h
	h.SPE = uint64(r.Range(2, 3))
	if r.Chance(1, 6) {
		h.SPE = 4
	}
	h.Period = uint64([]int{5, 6, 8, 8, 8, 10}[r.Intn(6)])
	h.HaveAgg = true
	P := h.Period
	pn := uint64(r.Range(1, 3)) // the period the process starts in
	boundary := (pn + 1) * P    // first epoch of the next period
	// k epochs before the boundary: each of the last 8, the edges of the preparation window more often
	var k uint64
	switch x := r.Intn(8); {
	case x < 2:
		k = 5
	case x < 6:
		k = uint64(r.Range(1, 4))
	default:
		k = uint64(r.Range(6, 8))
	}
	if k > P {
		k = P
	}
	e0 := boundary - k
	fork := uint64(0)
	forkHandler := r.Chance(1, 4)
	switch {
	case forkHandler:
		// the fork epoch lies inside the last 5 epochs of the period (each distance equally often) and
		// the process starts one or two epochs before it, so that only the fork-epoch handler (and, at
		// distance 5, the ticker's own test in the same tick) can set the next period up
		dist := uint64(r.Range(1, 5))
		k = dist + uint64(r.Range(1, 2))
		e0 = boundary - k
		fork = boundary - dist
		g.tag("fork-near-boundary")
	case r.Chance(1, 3):
		fork = uint64(r.Range(1, int(e0))) // some earlier epoch, aligned or not
		g.tag("altair-fork-epoch-nonzero")
	}
	h.SpecAltair = &fork
	g.tag("start-" + []string{"", "1", "2", "3", "4", "5", "6", "7", "8"}[k] + "-before-boundary")
	syncEnv := func(ce, cur uint64) *Env {
		e := g.env(ce, ce+1, cur, false)
		e.Vals = true
		off := g.version * 10
		for p := uint64(0); p <= pn+2; p++ {
			vs := []uint64{off + uint64(r.Range(1, 3))}
			if r.Chance(1, 3) {
				vs = append(vs, off+uint64(r.Range(1, 3)))
			}
			if r.Chance(1, 25) {
				vs = nil // the node names nobody for this period: nothing to schedule, nothing claimed
				g.tag("no-sync-duties")
			}
			e.Sync = append(e.Sync, PeriodSync{Period: p, Vals: vs})
		}
		return e
	}
	ce := e0
	cur := ce*h.SPE + uint64(r.Intn(int(h.SPE)))
	g.add(Op{K: "advance", Slot: cur})
	g.add(Op{K: "setenv", Env: syncEnv(ce, cur)})
	g.add(Op{K: "start"})
	prevRoot, curRoot, nextRoot := uint64(1), uint64(11), uint64(100)
	last := boundary + uint64(r.Range(0, 1))
	for ce < last {
		// the eve of the next epoch (at the boundary: the first slot of the next period's window)
		if r.Chance(1, 2) || ce+1 == boundary {
			if eve := (ce+1)*h.SPE - 1; eve > cur {
				cur = eve
				g.add(Op{K: "advance", Slot: cur})
				if eve >= 2 && ce+1 == boundary && r.Chance(1, 2) {
					g.add(Op{K: "fire", Job: "sync", Num: cur})
				}
			}
		}
		ce++
		cur = ce * h.SPE
		g.add(Op{K: "advance", Slot: cur})
		prevRoot, curRoot = curRoot, nextRoot
		nextRoot++
		if r.Chance(1, 14) {
			g.tag("tick-skipped")
		} else {
			g.add(Op{K: "tick"})
			if ce == fork {
				g.tag("tick-at-altair")
			}
		}
		switch r.Intn(10) {
		case 0:
			g.add(Op{K: "setenv", Env: syncEnv(ce, cur)})
		case 1, 2:
			g.add(Op{K: "head", Slot: cur, Prev: prevRoot, Cur: curRoot})
		case 3:
			g.tag("cur-root-changed")
			g.add(Op{K: "head", Slot: cur, Prev: prevRoot, Cur: curRoot})
			cur++
			g.add(Op{K: "advance", Slot: cur})
			g.add(Op{K: "setenv", Env: syncEnv(ce, cur)})
			curRoot = nextRoot
			nextRoot++
			g.add(Op{K: "head", Slot: cur, Prev: prevRoot, Cur: curRoot})
		case 4:
			if ce < boundary {
				g.tag("restart")
				cur += uint64(r.Intn(int(h.SPE)))
				g.add(Op{K: "advance", Slot: cur})
				g.add(Op{K: "start"})
			}
		}
	}
	// a few slots into the new period
	for i, n := 0, r.Range(1, 2); i < n; i++ {
		cur++
		g.add(Op{K: "advance", Slot: cur})
	}
	return g.finish("sync-boundary")
}

// ---------------------------------------------------------------------------------------------
// slow-fetch: the beacon node answers a duties request late, the chain moves on meanwhile (a
// restart late in a slot, a busy node at the epoch boundary).  Duties are dense (most slots of
// the epochs around the clock have one), so that the slots that pass during the request matter.

func (g *hgen) denseEnv(lo, hi uint64, withSync bool) *Env {
	g.version++
	r, spe := g.r, g.h.SPE
	e := &Env{Vals: true}
	off := g.version * 10
	for ep := lo; ep <= hi; ep++ {
		var ads []ADuty
		var pds []PDuty
		for s := ep * spe; s < (ep+1)*spe; s++ {
			if r.Chance(4, 5) {
				ads = append(ads, ADuty{Slot: s, Val: off + 1 + s%3, Comm: uint64(r.Intn(3)), VCI: uint64(r.Intn(50))})
			}
			if r.Chance(1, 2) {
				pds = append(pds, PDuty{Slot: s, Val: off + 1 + (s+1)%3})
			}
		}
		if r.Chance(1, 6) {
			ads = append(ads, ADuty{Slot: (ep + 1) * spe, Val: off + 2, Comm: 0, VCI: 1})
			g.tag("duty-outside-epoch")
		}
		e.Att = append(e.Att, EpochAtt{Epoch: ep, Duties: ads})
		e.Prop = append(e.Prop, EpochProp{Epoch: ep, Duties: pds})
	}
	if withSync && g.h.Period > 0 {
		for p := lo / g.h.Period; p <= hi/g.h.Period+1; p++ {
			vs := []uint64{off + uint64(r.Range(1, 3))}
			if r.Chance(1, 10) {
				vs = nil
			}
			e.Sync = append(e.Sync, PeriodSync{Period: p, Vals: vs})
		}
	}
	return e
}

// slowDelay picks the late request: attester duties of this or the next epoch, proposer duties of
// this epoch, sync committee duties of this or the next period; mostly one slot late, sometimes
// late within the slot (0), two slots, or a whole epoch.
func (g *hgen) slowDelay(ce uint64, kinds string, withSync bool) *Delay {
	r := g.r
	d := &Delay{}
	switch x := r.Intn(6); {
	case x < 1:
		d.Slots = 0
	case x < 4:
		d.Slots = 1
	case x < 5:
		d.Slots = 2
	default:
		d.Slots = g.h.SPE
	}
	k := kinds
	if k == "" {
		k = []string{"att", "att", "prop", "sync"}[r.Intn(4)]
		if k == "sync" && !withSync {
			k = "att"
		}
	}
	d.Kind = k
	switch k {
	case "att":
		d.Key = ce + uint64(r.Intn(2))
	case "prop":
		d.Key = ce
	case "sync":
		d.Key = ce / max(g.h.Period, 1)
		if r.Chance(1, 3) {
			d.Key++
		}
	}
	g.tag("slow-" + k)
	return d
}

func genSlowFetch(r *Rand) Input {
	g := newHist(r)
	h := g.h
	if h.SPE > 6 { // dense duties: long epochs add cost, not coverage
		h.SPE = uint64(r.Range(2, 6))
	}
	withSync := r.Chance(1, 2)
	if withSync { // a preparation job per slot of the period: keep the tables small
		h.SPE = uint64(r.Range(2, 4))
		h.Period = uint64([]int{2, 3, 4}[r.Intn(3)])
	}
	if r.Chance(2, 5) {
		return genSlowDirect(g, withSync)
	}
	if withSync {
		h.HaveAgg = true
		f := uint64(0)
		h.SpecAltair = &f
		g.tag("sync-enabled")
	}
	ce := uint64(r.Range(1, 30))
	cur := ce*h.SPE + uint64(r.Intn(int(h.SPE)))
	late := func(op Op, kinds string, num, den int) {
		if r.Chance(num, den) {
			op.Delay = g.slowDelay(ce, kinds, withSync)
			g.add(op)
			cur += op.Delay.Slots
			ce = cur / h.SPE
			return
		}
		g.add(op)
	}
	g.add(Op{K: "advance", Slot: cur})
	g.add(Op{K: "setenv", Env: g.denseEnv(ce, ce+2, withSync)})
	late(Op{K: "start"}, "", 2, 3)
	prevRoot, curRoot, nextRoot := uint64(r.Range(1, 9)), uint64(r.Range(11, 19)), uint64(100)
	steps := r.Range(3, int(h.SPE)+4)
	if steps > 8 {
		steps = 8
	}
	envEpoch := ce
	for i := 0; i < steps; i++ {
		old := ce
		cur++
		ce = cur / h.SPE
		g.add(Op{K: "advance", Slot: cur})
		if ce != old {
			prevRoot, curRoot = curRoot, nextRoot
			nextRoot++
		}
		if ce != envEpoch {
			g.add(Op{K: "setenv", Env: g.denseEnv(ce, ce+2, withSync)})
			envEpoch = ce
		}
		if cur%h.SPE == 0 && r.Chance(9, 10) {
			k := "prop"
			if withSync && r.Chance(1, 3) {
				k = "sync"
			}
			late(Op{K: "tick"}, k, 1, 2)
		}
		if r.Chance(2, 3) {
			pr, cr := prevRoot, curRoot
			switch r.Intn(6) {
			case 0:
				g.tag("prev-root-changed")
				g.add(Op{K: "setenv", Env: g.denseEnv(ce, ce+2, withSync)})
				prevRoot = nextRoot
				nextRoot++
				pr = prevRoot
			case 1:
				g.tag("cur-root-changed")
				g.add(Op{K: "setenv", Env: g.denseEnv(ce, ce+2, withSync)})
				curRoot = nextRoot
				nextRoot++
				cr = curRoot
			case 2:
				g.tag("both-roots-changed")
				g.add(Op{K: "setenv", Env: g.denseEnv(ce, ce+2, withSync)})
				prevRoot, curRoot = nextRoot, nextRoot+1
				nextRoot += 2
				pr, cr = prevRoot, curRoot
			}
			late(Op{K: "head", Slot: cur, Prev: pr, Cur: cr}, "", 1, 2)
		}
		if r.Chance(2, 3) {
			g.add(Op{K: "fire", Job: "early", Num: cur, HeadSlot: cur - 1 - uint64(r.Intn(2))})
		}
		if r.Chance(2, 3) {
			g.add(Op{K: "fire", Job: "prop", Num: cur})
		}
		if r.Chance(2, 3) {
			g.add(Op{K: "fire", Job: "att", Num: cur})
		}
		if cur%h.SPE >= h.SPE/2 && r.Chance(1, 2) {
			op := Op{K: "fire", Job: "prep", Num: ce + 1}
			if r.Chance(2, 3) {
				op.Delay = g.slowDelay(ce, "att", withSync)
				op.Delay.Key = ce + 1
				g.add(op)
				cur += op.Delay.Slots
				ce = cur / h.SPE
			} else {
				g.add(op)
			}
		}
		switch r.Intn(12) {
		case 0:
			late(Op{K: "refreshatt", Epoch: ce + uint64(r.Intn(2))}, "att", 2, 3)
		case 1:
			late(Op{K: "refreshprop", Epoch: ce}, "prop", 2, 3)
		case 2, 3:
			g.tag("restart")
			late(Op{K: "start"}, "", 2, 3)
		}
	}
	g.tag("slow-lifecycle")
	return g.finish("slow-fetch")
}

// the scheduling and refresh functions called directly (hook-built controller), each with its own
// request answered late
func genSlowDirect(g *hgen, withSync bool) Input {
	r, h := g.r, g.h
	h.Hook = true
	if withSync {
		h.HaveAgg = true
		h.Handling = true
		h.AltairEpoch = uint64(r.Intn(2)) * uint64(r.Range(1, 3))
		g.tag("sync-enabled")
	}
	ce := uint64(r.Range(1, 20))
	if h.Handling && ce < h.AltairEpoch {
		ce = h.AltairEpoch + uint64(r.Intn(3))
	}
	cur := ce*h.SPE + uint64(r.Intn(int(h.SPE)))
	if r.Chance(1, 3) {
		cur = ce*h.SPE + h.SPE - 1 // the last slot of an epoch: the answer arrives in the next epoch
	}
	g.add(Op{K: "advance", Slot: cur})
	lo := ce
	if lo > 0 {
		lo--
	}
	g.add(Op{K: "setenv", Env: g.denseEnv(lo, ce+2, withSync)})
	late := func(op Op, kind string, key uint64) {
		if r.Chance(3, 4) {
			op.Delay = g.slowDelay(ce, kind, withSync)
			op.Delay.Key = key
			if r.Chance(1, 8) {
				op.Delay.Key++ // another request than the one this call makes: nothing waits
			}
		}
		g.add(op)
		if op.Delay != nil {
			cur += op.Delay.Slots
			ce = cur / h.SPE
		}
	}
	P := max(h.Period, 1)
	for i, n := 0, r.Range(2, 7); i < n; i++ {
		ep := ce + uint64(r.Intn(2))
		switch k := r.Intn(20); {
		case k < 4:
			late(Op{K: "schedatt", Epoch: ep, NotCur: r.Bool()}, "att", ep)
		case k < 7:
			late(Op{K: "schedprop", Epoch: ep, NotCur: r.Bool()}, "prop", ep)
		case k < 9:
			late(Op{K: "refreshatt", Epoch: ep}, "att", ep)
		case k < 11:
			late(Op{K: "refreshprop", Epoch: ep}, "prop", ep)
		case k < 14:
			if withSync {
				se := ce + uint64(r.Intn(int(P)+1))
				key := se / P
				if se/P == ce/P || r.Chance(1, 2) {
					key = max(se/P*P, ce) / P
				}
				late(Op{K: "schedsync", Epoch: se, NotCur: r.Bool()}, "sync", key)
			}
		case k < 15:
			if withSync && ce >= P {
				se := ce + uint64(r.Intn(int(P)))
				late(Op{K: "refreshsync", Epoch: se}, "sync", max(se/P*P, ce)/P)
			}
		case k < 16:
			late(Op{K: "tick"}, "prop", ce)
			if r.Chance(1, 2) {
				late(Op{K: "fire", Job: "prep", Num: ce + 1}, "att", ce+1)
			}
		case k < 17:
			late(Op{K: "head", Slot: cur, Prev: uint64(r.Intn(3)), Cur: uint64(r.Intn(3))}, []string{"att", "prop"}[r.Intn(2)], ce+uint64(r.Intn(2)))
		case k < 18:
			cur += uint64(r.Range(0, 2))
			ce = cur / h.SPE
			g.add(Op{K: "advance", Slot: cur})
		case k < 19:
			g.add(Op{K: "setenv", Env: g.denseEnv(ce, ce+2, withSync)})
		default:
			kind := []string{"att", "prop", "early"}[r.Intn(3)]
			g.add(Op{K: "fire", Job: kind, Num: cur, HeadSlot: cur - uint64(r.Range(1, 2))})
		}
	}
	g.tag("slow-direct")
	return g.finish("slow-fetch")
}

func gen(r *Rand, i int) Input {
	switch k := r.Intn(100); {
	case k < 22:
		return genTime(r)
	case k < 24:
		return genSecs(r)
	case k < 28:
		return genMerge(r)
	case k < 36:
		return genSlowFetch(r)
	case k < 55:
		return genDirect(r)
	case k < 76:
		return genLifecycle(r)
	case k < 85:
		return genReorg(r)
	case k < 88:
		return genSyncEpoch0(r)
	case k < 94:
		return genSyncBoundary(r)
	default:
		return genAltair(r)
	}
}
