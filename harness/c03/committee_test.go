package c03

// Round 7: the committee shape the scripted beacon node reports with its attester duties.
//
// A case names, per duty, the slot, validator, committee and position; committee length and the
// number of committees of the slot are not part of the case (the controller's jobs do not depend
// on them) and used to be the constants 128 and 64, so that no validator ever sat in the last
// seat of its committee or in the last committee of its slot.  Real answers are tight: the
// position runs up to length-1 and the committee index up to committees-1.  The shape is now a
// function of the answer: every other committee (slot+committee even) is exactly as long as its
// highest reported position requires (its highest-seated validator has the last seat; a
// one-member committee when that position is 0), the others keep the wide constant; every other
// slot has exactly as many committees as its highest reported committee index requires.
func committeeShape(ds []ADuty) (map[[2]uint64]uint64, map[uint64]uint64) {
	maxPos := map[[2]uint64]uint64{}
	maxComm := map[uint64]uint64{}
	for _, d := range ds {
		k := [2]uint64{d.Slot, d.Comm}
		if v, ok := maxPos[k]; !ok || d.VCI > v {
			maxPos[k] = d.VCI
		}
		if v, ok := maxComm[d.Slot]; !ok || d.Comm > v {
			maxComm[d.Slot] = d.Comm
		}
	}
	clen := map[[2]uint64]uint64{}
	for k, m := range maxPos {
		if (k[0]+k[1])%2 == 0 || m+1 > 128 {
			clen[k] = m + 1
		} else {
			clen[k] = 128
		}
	}
	cas := map[uint64]uint64{}
	for s, m := range maxComm {
		if s%2 == 0 || m+1 > 64 {
			cas[s] = m + 1
		} else {
			cas[s] = 64
		}
	}
	return clen, cas
}
