package c03

// The other properties' harnesses (C01, C14, C15, C18, C20, ...) do not run the real chain-time
// service but mocks.ChainTime, an integer re-implementation whose "now" the harness sets.  Its
// conversions are an assumption of those ties; it is discharged here, on every run of the C03 check,
// by comparing the mock with the real services/chaintime/standard on random chain parameters.

import (
	"context"
	"testing"
	"time"

	"github.com/attestantio/go-eth2-client/spec/phase0"
	"github.com/attestantio/vouch/mock"
	standardchaintime "github.com/attestantio/vouch/services/chaintime/standard"
	"github.com/rs/zerolog"

	. "verifharness/common"
	"verifharness/mocks"
)

func validateMockChainTime(t *testing.T, rng *Rand) int {
	t.Helper()
	n := 0
	for trial := 0; trial < 40; trial++ {
		spe := uint64(rng.Range(1, 64))
		dur := time.Duration(rng.Range(1, 60)) * time.Second
		genesis := time.Unix(int64(1500000000+rng.Intn(200000000)), 0)
		real, err := standardchaintime.New(context.Background(),
			standardchaintime.WithLogLevel(zerolog.Disabled),
			standardchaintime.WithGenesisProvider(mock.NewGenesisProvider(genesis)),
			standardchaintime.WithSpecProvider(&specProvider{spec: map[string]any{
				"SECONDS_PER_SLOT": dur,
				"SLOTS_PER_EPOCH":  spe,
			}}),
		)
		if err != nil {
			t.Fatalf("chaintime constructor: %v", err)
		}
		m := mocks.NewChainTime(spe)
		m.Genesis, m.SlotDuration = genesis, dur
		for k := 0; k < 25; k++ {
			slot := phase0.Slot(rng.Intn(1 << uint(rng.Range(1, 40))))
			epoch := phase0.Epoch(rng.Intn(1 << uint(rng.Range(1, 34))))
			if !m.StartOfSlot(slot).Equal(real.StartOfSlot(slot)) || !m.StartOfEpoch(epoch).Equal(real.StartOfEpoch(epoch)) ||
				m.SlotToEpoch(slot) != real.SlotToEpoch(slot) || m.FirstSlotOfEpoch(epoch) != real.FirstSlotOfEpoch(epoch) {
				t.Fatalf("mocks.ChainTime differs from services/chaintime/standard: spe %d dur %v slot %d epoch %d", spe, dur, slot, epoch)
			}
			m.SetSlot(uint64(slot))
			if m.CurrentSlot() != slot || m.CurrentEpoch() != real.SlotToEpoch(slot) {
				t.Fatalf("mocks.ChainTime current slot/epoch inconsistent with the real conversions: spe %d slot %d", spe, slot)
			}
			n++
		}
	}
	return n
}
