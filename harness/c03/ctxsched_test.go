package c03

// ctxSched: the recording scheduler of the controller histories made to honour the PARENT CONTEXT of
// a job the way the production scheduler (services/scheduler/advanced) does:
//
//   * ScheduleJob(ctx, ...) / SchedulePeriodicJob(ctx, ...) remember ctx with the job;
//   * once that context is done (cancelled, or its deadline has passed) the job is dropped: it leaves
//     the table, never runs, RunJob/JobExists/CancelJob do not see it, its name is free again
//     (advanced: "Parent context done; job not running", removeJob);
//   * a job that runs (its time has come = Fire, RunJob, RunJobIfExists) runs with the context it was
//     SCHEDULED with, not with the caller's;
//   * a job whose context carries a deadline earlier than the job's own time will be dropped before
//     it runs: Snapshot (what the harness shows to the check as "the jobs that are set up") leaves it
//     out and Fire drops it instead of running it.  The harness's fake wall clock and its integer
//     chain time are not the same clock, so the rule is stated in durations: dropped iff
//     deadline - now(wall) < job time - now(chain).
//
// The controller never cancels the contexts it hands to the scheduler and gives them no deadline, so
// on the correct code none of this ever happens and the models need no notion of cancellation: the
// check simply finds the job present and firing.  validateCtxSched (below) compares these semantics
// with the real advanced scheduler on random scripts at the start of every run.

import (
	"context"
	"fmt"
	"sort"
	"sync"
	"testing"
	"testing/synctest"
	"time"

	nullmetrics "github.com/attestantio/vouch/services/metrics/null"
	"github.com/attestantio/vouch/services/scheduler"
	advancedscheduler "github.com/attestantio/vouch/services/scheduler/advanced"
	"github.com/rs/zerolog"

	. "verifharness/common"
	"verifharness/mocks"
)

type jobCtx struct {
	ctx    context.Context
	seq    int
	doomed bool // the context's deadline comes before the job's time
}

type ctxSched struct {
	*mocks.RecScheduler
	chainNow func() time.Time

	cmu     sync.Mutex
	ctxs    map[string]jobCtx
	dropped []string // names of the jobs dropped because of their context, in order
}

func newCtxSched(inner *mocks.RecScheduler, chainNow func() time.Time) *ctxSched {
	return &ctxSched{RecScheduler: inner, chainNow: chainNow, ctxs: map[string]jobCtx{}}
}

// sweepLocked drops every job whose parent context is done.  The real scheduler does this in the
// job's own goroutine as soon as the context is done; the mock does it before every operation and
// every observation, which no caller can tell apart.
func (s *ctxSched) sweepLocked() {
	for name, jc := range s.ctxs {
		j, ok := s.RecScheduler.Get(name)
		if !ok || j.Seq != jc.seq {
			delete(s.ctxs, name)
			continue
		}
		if jc.ctx.Err() != nil {
			s.RecScheduler.CancelJobIfExists(context.Background(), name)
			delete(s.ctxs, name)
			s.dropped = append(s.dropped, name)
		}
	}
}

func (s *ctxSched) sweep() {
	s.cmu.Lock()
	s.sweepLocked()
	s.cmu.Unlock()
}

// jobContext: the context the named job was scheduled with (after a sweep).
func (s *ctxSched) jobContext(name string, fallback context.Context) (context.Context, bool) {
	s.cmu.Lock()
	defer s.cmu.Unlock()
	s.sweepLocked()
	if jc, ok := s.ctxs[name]; ok {
		return jc.ctx, jc.doomed
	}
	return fallback, false
}

func (s *ctxSched) remember(ctx context.Context, name string, runtime *time.Time) {
	j, ok := s.RecScheduler.Get(name)
	if !ok {
		return
	}
	jc := jobCtx{ctx: ctx, seq: j.Seq}
	if dl, has := ctx.Deadline(); has && runtime != nil {
		jc.doomed = time.Until(dl) < runtime.Sub(s.chainNow())
	}
	s.ctxs[name] = jc
}

func (s *ctxSched) ScheduleJob(ctx context.Context, class string, name string, runtime time.Time, job scheduler.JobFunc) error {
	s.cmu.Lock()
	defer s.cmu.Unlock()
	s.sweepLocked()
	err := s.RecScheduler.ScheduleJob(ctx, class, name, runtime, job)
	if err == nil {
		s.remember(ctx, name, &runtime)
	}
	return err
}

func (s *ctxSched) SchedulePeriodicJob(ctx context.Context, class string, name string, runtime scheduler.RuntimeFunc, job scheduler.JobFunc) error {
	s.cmu.Lock()
	defer s.cmu.Unlock()
	s.sweepLocked()
	err := s.RecScheduler.SchedulePeriodicJob(ctx, class, name, runtime, job)
	if err == nil {
		s.remember(ctx, name, nil)
	}
	return err
}

func (s *ctxSched) CancelJob(ctx context.Context, name string) error {
	s.sweep()
	return s.RecScheduler.CancelJob(ctx, name)
}

func (s *ctxSched) CancelJobIfExists(ctx context.Context, name string) {
	s.sweep()
	s.RecScheduler.CancelJobIfExists(ctx, name)
}

func (s *ctxSched) CancelJobs(ctx context.Context, prefix string) {
	s.sweep()
	s.RecScheduler.CancelJobs(ctx, prefix)
}

func (s *ctxSched) RunJob(ctx context.Context, name string) error {
	jctx, _ := s.jobContext(name, ctx)
	return s.RecScheduler.RunJob(jctx, name)
}

func (s *ctxSched) RunJobIfExists(ctx context.Context, name string) {
	jctx, _ := s.jobContext(name, ctx)
	s.RecScheduler.RunJobIfExists(jctx, name)
}

func (s *ctxSched) JobExists(ctx context.Context, name string) bool {
	s.sweep()
	return s.RecScheduler.JobExists(ctx, name)
}

func (s *ctxSched) ListJobs(ctx context.Context) []string {
	s.sweep()
	return s.RecScheduler.ListJobs(ctx)
}

// Get (harness side): a job by name, if its context still lives.
func (s *ctxSched) Get(name string) (*mocks.Job, bool) {
	s.sweep()
	return s.RecScheduler.Get(name)
}

// Fire (harness side): the job's time has come.  A job whose context would have been done by then
// is dropped; otherwise it leaves the table and runs with the context it was scheduled with.
func (s *ctxSched) Fire(ctx context.Context, name string) bool {
	jctx, doomed := s.jobContext(name, ctx)
	if doomed {
		s.cmu.Lock()
		s.RecScheduler.CancelJobIfExists(context.Background(), name)
		delete(s.ctxs, name)
		s.dropped = append(s.dropped, name)
		s.cmu.Unlock()
		return false
	}
	return s.RecScheduler.Fire(jctx, name)
}

// Snapshot (harness side): the jobs that are set up and will run when their time comes.
func (s *ctxSched) Snapshot() []mocks.Job {
	s.cmu.Lock()
	defer s.cmu.Unlock()
	s.sweepLocked()
	all := s.RecScheduler.Snapshot()
	out := all[:0]
	for _, j := range all {
		if jc, ok := s.ctxs[j.Name]; ok && jc.seq == j.Seq && jc.doomed {
			continue
		}
		out = append(out, j)
	}
	return out
}

func (s *ctxSched) droppedCount() int {
	s.cmu.Lock()
	defer s.cmu.Unlock()
	return len(s.dropped)
}

// ---------------------------------------------------------------------------------------------
// Validation against the real scheduler.

type vOp struct {
	k    string // sched cancelctx canceljob run runif advance
	name int
	ctx  int
	ms   int
}

// validateCtxSched runs random scripts against services/scheduler/advanced and against ctxSched side
// by side in a bubble, with shared contexts (one never cancelled, three cancelled by the script, two
// with deadlines), and requires after every step: same errors, same job list, same jobs run.  The
// mock does not run jobs by itself: the validation fires what is due after every 50 ms step, as the
// controller harness fires a job when its history says the time has come.  Job times are multiples of
// 100 ms, deadlines fall on odd multiples of 50 ms: no tie between a timer and a deadline.
// Returns the number of compared steps.
func validateCtxSched(t *testing.T, rng *Rand) int {
	t.Helper()
	steps := 0
	for script := 0; script < 60; script++ {
		var ops []vOp
		nops := rng.Range(6, 16)
		for i := 0; i < nops; i++ {
			switch x := rng.Intn(20); {
			case x < 9:
				ops = append(ops, vOp{k: "sched", name: rng.Intn(5), ctx: rng.Intn(6), ms: 100 * rng.Range(1, 12)})
			case x < 12:
				ops = append(ops, vOp{k: "cancelctx", ctx: rng.Range(1, 3)})
			case x < 13:
				ops = append(ops, vOp{k: "canceljob", name: rng.Intn(5)})
			case x < 15:
				ops = append(ops, vOp{k: "run", name: rng.Intn(5)})
			case x < 16:
				ops = append(ops, vOp{k: "runif", name: rng.Intn(5)})
			default:
				ops = append(ops, vOp{k: "advance", ms: 100 * rng.Range(1, 6)})
			}
		}
		ops = append(ops, vOp{k: "advance", ms: 2000})
		// a script in which a job is scheduled on a context that is cancelled right afterwards (the
		// shape of a deferred cancel) and one with an already cancelled context, always
		if script%3 == 0 {
			ops = append([]vOp{{k: "sched", name: 0, ctx: 1, ms: 600}, {k: "cancelctx", ctx: 1}, {k: "sched", name: 1, ctx: 1, ms: 400}}, ops...)
		}
		synctest.Test(t, func(t *testing.T) {
			root, stop := context.WithCancel(context.Background())
			real, err := advancedscheduler.New(root, advancedscheduler.WithLogLevel(zerolog.Disabled), advancedscheduler.WithMonitor(nullmetrics.New()))
			if err != nil {
				t.Fatalf("advanced scheduler: %v", err)
			}
			inner := mocks.NewRecScheduler()
			inner.RunInline = true
			mock := newCtxSched(inner, time.Now)
			ctxs := []context.Context{root}
			var cancels []context.CancelFunc
			for i := 0; i < 3; i++ {
				c, cf := context.WithCancel(root)
				ctxs, cancels = append(ctxs, c), append(cancels, cf)
			}
			for _, ms := range []int{350, 950} {
				c, cf := context.WithTimeout(root, time.Duration(ms)*time.Millisecond)
				ctxs, cancels = append(ctxs, c), append(cancels, cf)
			}
			defer func() { // also on a failure: no goroutine of the real scheduler is left waiting in the bubble
				stop()
				for _, cf := range cancels {
					cf()
				}
				synctest.Wait()
			}()
			var mu sync.Mutex
			var runsReal, runsMock []int
			predicted := map[int]bool{} // instance -> the mock said at set-up: will be dropped before its time
			explicit := map[int]bool{}  // instances run by RunJob / RunJobIfExists
			inRun := false
			compare := func(where string) {
				synctest.Wait()
				a, b := real.ListJobs(root), mock.ListJobs(root)
				sort.Strings(a)
				sort.Strings(b)
				if fmt.Sprint(a) != fmt.Sprint(b) {
					t.Fatalf("ctxSched differs from services/scheduler/advanced (%s): jobs %v vs %v; script %+v", where, a, b, ops)
				}
				mu.Lock()
				sort.Ints(runsReal)
				sort.Ints(runsMock)
				ra, rb := fmt.Sprint(runsReal), fmt.Sprint(runsMock)
				mu.Unlock()
				if ra != rb {
					t.Fatalf("ctxSched differs from services/scheduler/advanced (%s): ran %v vs %v; script %+v", where, ra, rb, ops)
				}
				steps++
			}
			fireDue := func() {
				for {
					var due *mocks.Job
					for _, j := range mock.RecScheduler.Snapshot() {
						j := j
						if !j.Time.After(time.Now()) && (due == nil || j.Time.Before(due.Time)) {
							due = &j
						}
					}
					if due == nil {
						return
					}
					mock.Fire(root, due.Name)
				}
			}
			for i, op := range ops {
				inst := i
				name := fmt.Sprintf("job-%d", op.name)
				switch op.k {
				case "sched":
					rt := time.Now().Add(time.Duration(op.ms) * time.Millisecond)
					e1 := real.ScheduleJob(ctxs[op.ctx], "v", name, rt, func(context.Context) {
						mu.Lock()
						runsReal = append(runsReal, inst)
						if inRun {
							explicit[inst] = true
						}
						mu.Unlock()
					})
					e2 := mock.ScheduleJob(ctxs[op.ctx], "v", name, rt, func(context.Context) {
						mu.Lock()
						runsMock = append(runsMock, inst)
						mu.Unlock()
					})
					if (e1 == nil) != (e2 == nil) {
						t.Fatalf("ctxSched differs from services/scheduler/advanced: ScheduleJob %v vs %v; script %+v", e1, e2, ops)
					}
					if e2 == nil {
						mock.cmu.Lock()
						if jc, ok := mock.ctxs[name]; ok {
							predicted[inst] = jc.doomed
						}
						mock.cmu.Unlock()
					}
				case "cancelctx":
					cancels[op.ctx-1]()
				case "canceljob":
					e1, e2 := real.CancelJob(root, name), mock.CancelJob(root, name)
					if (e1 == nil) != (e2 == nil) {
						t.Fatalf("ctxSched differs from services/scheduler/advanced: CancelJob %v vs %v; script %+v", e1, e2, ops)
					}
				case "run":
					synctest.Wait()
					mu.Lock()
					inRun = true
					mu.Unlock()
					e1, e2 := real.RunJob(root, name), mock.RunJob(root, name)
					if (e1 == nil) != (e2 == nil) {
						t.Fatalf("ctxSched differs from services/scheduler/advanced: RunJob %v vs %v; script %+v", e1, e2, ops)
					}
					synctest.Wait()
					mu.Lock()
					inRun = false
					mu.Unlock()
				case "runif":
					synctest.Wait()
					mu.Lock()
					inRun = true
					mu.Unlock()
					real.RunJobIfExists(root, name)
					mock.RunJobIfExists(root, name)
					synctest.Wait()
					mu.Lock()
					inRun = false
					mu.Unlock()
				case "advance":
					for ms := 0; ms < op.ms; ms += 50 {
						time.Sleep(50 * time.Millisecond)
						synctest.Wait()
						fireDue()
						compare("advance")
					}
				}
				synctest.Wait()
				fireDue()
				compare(op.k)
			}
			// what Snapshot hides as "will be dropped before its time" never ran by its timer on the
			// real scheduler
			mu.Lock()
			for _, inst := range runsReal {
				if predicted[inst] && !explicit[inst] {
					t.Fatalf("ctxSched predicted that job instance %d would be dropped before its time, the real scheduler ran it; script %+v", inst, ops)
				}
			}
			mu.Unlock()
		})
	}
	return steps
}
