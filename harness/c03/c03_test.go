// C03: drives (a) the real services/chaintime/standard.Service inside a synctest bubble, (b) the
// real services/controller/standard.Service (public constructor New for start-ups and restarts,
// hook constructor NewForVerif for direct calls) over the abstract recording scheduler, and
// (c) attester.MergeDuties, and prints what they did as Gallina cases for Check.C03.
package c03

import (
	"context"
	"errors"
	"fmt"
	"io"
	"math/big"
	"sort"
	"strconv"
	"strings"
	"sync"
	"testing"
	"testing/synctest"
	"time"

	eth2client "github.com/attestantio/go-eth2-client"
	"github.com/attestantio/go-eth2-client/api"
	apiv1 "github.com/attestantio/go-eth2-client/api/v1"
	"github.com/attestantio/go-eth2-client/spec/altair"
	"github.com/attestantio/go-eth2-client/spec/phase0"
	"github.com/attestantio/vouch/mock"
	mockaccountmanager "github.com/attestantio/vouch/services/accountmanager/mock"
	mockattestationaggregator "github.com/attestantio/vouch/services/attestationaggregator/mock"
	"github.com/attestantio/vouch/services/attester"
	"github.com/attestantio/vouch/services/beaconblockproposer"
	mockbeaconcommitteesubscriber "github.com/attestantio/vouch/services/beaconcommitteesubscriber/mock"
	"github.com/attestantio/vouch/services/cache"
	mockcache "github.com/attestantio/vouch/services/cache/mock"
	standardchaintime "github.com/attestantio/vouch/services/chaintime/standard"
	controller "github.com/attestantio/vouch/services/controller/standard"
	nullmetrics "github.com/attestantio/vouch/services/metrics/null"
	mockproposalpreparer "github.com/attestantio/vouch/services/proposalpreparer/mock"
	"github.com/attestantio/vouch/services/scheduler"
	"github.com/attestantio/vouch/services/synccommitteeaggregator"
	mocksynccommitteeaggregator "github.com/attestantio/vouch/services/synccommitteeaggregator/mock"
	"github.com/attestantio/vouch/services/synccommitteemessenger"
	mocksynccommitteesubscriber "github.com/attestantio/vouch/services/synccommitteesubscriber/mock"
	"github.com/rs/zerolog"
	zerologger "github.com/rs/zerolog/log"
	"github.com/sasha-s/go-deadlock"
	e2wtypes "github.com/wealdtech/go-eth2-wallet-types/v2"

	. "verifharness/common"
	"verifharness/mocks"
)

// ---------------------------------------------------------------------------------------------
// Input types (JSON: corpus and replay files).

type ADuty struct {
	Slot uint64 `json:"s"`
	Val  uint64 `json:"v"`
	Comm uint64 `json:"c"`
	VCI  uint64 `json:"i"`
}
type PDuty struct {
	Slot uint64 `json:"s"`
	Val  uint64 `json:"v"`
}
type EpochAtt struct {
	Epoch  uint64  `json:"epoch"`
	Duties []ADuty `json:"duties"`
}
type EpochProp struct {
	Epoch  uint64  `json:"epoch"`
	Duties []PDuty `json:"duties"`
}
type PeriodSync struct {
	Period uint64   `json:"period"`
	Vals   []uint64 `json:"vals"`
}
type Env struct {
	Att  []EpochAtt   `json:"att,omitempty"`
	Prop []EpochProp  `json:"prop,omitempty"`
	Sync []PeriodSync `json:"sync,omitempty"`
	Vals bool         `json:"vals"`
}

// Delay: while this op runs, the beacon node answers the duties request of kind Kind ("att" /
// "prop": for epoch Key; "sync": for sync committee period Key) only after the chain has moved on
// by Slots slots; every other request is answered at once.  By the end of the op the clock has
// advanced by Slots slots whether or not the request was made.
type Delay struct {
	Kind  string `json:"kind"`
	Key   uint64 `json:"key"`
	Slots uint64 `json:"slots"`
}

// Op kinds: advance setenv start tick head fire schedatt schedprop schedsync refreshatt refreshprop refreshsync
type Op struct {
	Delay    *Delay `json:"delay,omitempty"`
	K        string `json:"k"`
	Slot     uint64 `json:"slot,omitempty"`
	Epoch    uint64 `json:"epoch,omitempty"`
	Prev     uint64 `json:"prev,omitempty"`
	Cur      uint64 `json:"cur,omitempty"`
	NotCur   bool   `json:"notcur,omitempty"`
	Job      string `json:"job,omitempty"` // att prop early prep sync
	Num      uint64 `json:"num,omitempty"`
	HeadSlot uint64 `json:"headslot,omitempty"`
	Env      *Env   `json:"env,omitempty"`
}

type Hist struct {
	SPE         uint64  `json:"spe"`
	SlotSecs    uint64  `json:"slot_secs"`
	GenesisUnix int64   `json:"genesis_unix"`
	AttDelayMs  int64   `json:"att_delay_ms"`
	PropDelayMs int64   `json:"prop_delay_ms"`
	FastTrack   bool    `json:"fast_track"`
	Period      uint64  `json:"period"`
	SpecAltair  *uint64 `json:"spec_altair"`
	HaveAgg     bool    `json:"have_agg"`
	// Hook: the controller is built with NewForVerif(Handling, AltairEpoch); otherwise the first op
	// must be "start" (public constructor New).
	Hook        bool   `json:"hook"`
	Handling    bool   `json:"handling,omitempty"`
	AltairEpoch uint64 `json:"altair_epoch,omitempty"`
	Ops         []Op   `json:"ops"`
	// WF: the history follows the discipline under which "no slot twice" is claimed (see Properties/C03.v).
	WF bool `json:"wf"`
}

type TimeIn struct {
	ElapsedNs int64    `json:"elapsed_ns"` // first probe instant minus genesis (negative: genesis in the future)
	DurNs     int64    `json:"dur_ns"`
	SPE       uint64   `json:"spe"`
	Deltas    []int64  `json:"deltas"` // probe instants, ns after the first one, non-decreasing
	Slots     []uint64 `json:"slots"`
	Epochs    []uint64 `json:"epochs"`
}

type FDuty struct {
	Slot uint64 `json:"s"`
	Val  uint64 `json:"v"`
	Comm uint64 `json:"c"`
	VCI  uint64 `json:"i"`
	CLen uint64 `json:"l"`
	CAS  uint64 `json:"n"`
}

type Input struct {
	Kind  string   `json:"kind"` // time | secs | hist | merge
	Time  *TimeIn  `json:"time,omitempty"`
	Secs  []int64  `json:"secs,omitempty"`
	Hist  *Hist    `json:"hist,omitempty"`
	Merge []FDuty  `json:"merge,omitempty"`
	Tags  []string `json:"tags,omitempty"`
}

// ---------------------------------------------------------------------------------------------
// Small helpers.

func rootOf(r uint64) phase0.Root {
	var root phase0.Root
	for i := 0; i < 8; i++ {
		root[31-i] = byte(r >> (8 * i))
	}
	return root
}

func rootNum(r phase0.Root) uint64 {
	var x uint64
	for i := 0; i < 8; i++ {
		x = x<<8 | uint64(r[24+i])
	}
	return x
}

// unixNs is the exact number of nanoseconds since the Unix epoch (no int64 overflow).
func unixNs(t time.Time) *big.Int {
	x := new(big.Int).Mul(big.NewInt(t.Unix()), big.NewInt(1000000000))
	return x.Add(x, big.NewInt(int64(t.Nanosecond())))
}

func ZBig(x *big.Int) string {
	if x.Sign() < 0 {
		return "(" + x.String() + ")%Z"
	}
	return x.String() + "%Z"
}

func triple(a, b, c uint64) string { return "(" + N(a) + ", " + N(b) + ", " + N(c) + ")" }

// ---------------------------------------------------------------------------------------------
// Chain time: the real service in a bubble.

type specProvider struct{ spec map[string]any }

func (s *specProvider) Spec(_ context.Context, _ *api.SpecOpts) (*api.Response[map[string]any], error) {
	cp := make(map[string]any, len(s.spec))
	for k, v := range s.spec {
		cp[k] = v
	}
	return &api.Response[map[string]any]{Data: cp, Metadata: map[string]any{}}, nil
}

func runTime(t *testing.T, in *TimeIn) (term string, nontrivial bool) {
	var probes, slots, epochs []string
	var genesisNs *big.Int
	synctest.Test(t, func(t *testing.T) {
		ctx := context.Background()
		start := time.Now()
		// Genesis as a beacon node reports it: a wall-clock instant without monotonic reading.
		g := new(big.Int).Sub(unixNs(start), big.NewInt(in.ElapsedNs))
		sec, nsec := new(big.Int), new(big.Int)
		sec.DivMod(g, big.NewInt(1000000000), nsec)
		genesis := time.Unix(sec.Int64(), nsec.Int64())
		genesisNs = unixNs(genesis)
		ct, err := standardchaintime.New(ctx,
			standardchaintime.WithLogLevel(zerolog.Disabled),
			standardchaintime.WithGenesisProvider(mock.NewGenesisProvider(genesis)),
			standardchaintime.WithSpecProvider(&specProvider{spec: map[string]any{
				"SECONDS_PER_SLOT": time.Duration(in.DurNs),
				"SLOTS_PER_EPOCH":  in.SPE,
			}}),
		)
		if err != nil {
			t.Fatalf("chaintime constructor: %v", err)
		}
		var last int64
		for _, d := range in.Deltas {
			if d > last {
				time.Sleep(time.Duration(d - last))
				last = d
			}
			now := time.Now()
			slot := ct.CurrentSlot()
			epoch := ct.CurrentEpoch()
			probes = append(probes, Record(
				"tp_now", ZBig(unixNs(now)),
				"tp_slot", N(uint64(slot)),
				"tp_epoch", N(uint64(epoch)),
				"tp_start", ZBig(unixNs(ct.StartOfSlot(slot))),
				"tp_next", ZBig(unixNs(ct.StartOfSlot(slot+1))),
				"tp_slot_epoch", N(uint64(ct.SlotToEpoch(slot))),
				"tp_first", N(uint64(ct.FirstSlotOfEpoch(epoch))),
				"tp_first_next", N(uint64(ct.FirstSlotOfEpoch(epoch+1))),
				"tp_epoch_start", ZBig(unixNs(ct.StartOfEpoch(epoch))),
			))
			if slot > 0 {
				nontrivial = true
			}
		}
		for _, s := range in.Slots {
			slots = append(slots, Record(
				"ts_slot", N(s),
				"ts_start", ZBig(unixNs(ct.StartOfSlot(phase0.Slot(s)))),
				"ts_epoch", N(uint64(ct.SlotToEpoch(phase0.Slot(s)))),
			))
		}
		for _, e := range in.Epochs {
			epochs = append(epochs, Record(
				"te_epoch", N(e),
				"te_start", ZBig(unixNs(ct.StartOfEpoch(phase0.Epoch(e)))),
				"te_first", N(uint64(ct.FirstSlotOfEpoch(phase0.Epoch(e)))),
				"te_genesis", ZBig(unixNs(ct.GenesisTime())),
			))
		}
	})
	params := Record("ct_genesis", ZBig(genesisNs), "ct_dur", Z(in.DurNs), "ct_spe", N(in.SPE))
	return App("BTime", params, List(probes), List(slots), List(epochs)), nontrivial
}

func runSecs(ds []int64) string {
	items := make([]string, 0, len(ds))
	for _, d := range ds {
		items = append(items, Pair(Z(d), Z(int64(uint64(time.Duration(d).Seconds())))))
	}
	return App("BSecs", List(items))
}

// ---------------------------------------------------------------------------------------------
// MergeDuties.

func runMerge(in []FDuty) string {
	duties := make([]*apiv1.AttesterDuty, 0, len(in))
	ins := make([]string, 0, len(in))
	for _, d := range in {
		duties = append(duties, &apiv1.AttesterDuty{Slot: phase0.Slot(d.Slot), ValidatorIndex: phase0.ValidatorIndex(d.Val),
			CommitteeIndex: phase0.CommitteeIndex(d.Comm), ValidatorCommitteeIndex: d.VCI, CommitteeLength: d.CLen, CommitteesAtSlot: d.CAS})
		ins = append(ins, Record("fd_slot", N(d.Slot), "fd_val", N(d.Val), "fd_comm", N(d.Comm), "fd_vci", N(d.VCI), "fd_clen", N(d.CLen), "fd_cas", N(d.CAS)))
	}
	merged, err := attester.MergeDuties(context.Background(), duties)
	if err != nil {
		return App("BMerge", List(ins), "None")
	}
	outs := make([]string, 0, len(merged))
	for _, m := range merged {
		var vals, comms, vcis, clens []string
		seen := map[uint64]bool{}
		var cs []uint64
		for i := range m.ValidatorIndices() {
			vals = append(vals, N(uint64(m.ValidatorIndices()[i])))
			comms = append(comms, N(uint64(m.CommitteeIndices()[i])))
			vcis = append(vcis, N(m.ValidatorCommitteeIndices()[i]))
			c := uint64(m.CommitteeIndices()[i])
			if !seen[c] {
				seen[c] = true
				cs = append(cs, c)
			}
		}
		sort.Slice(cs, func(i, j int) bool { return cs[i] < cs[j] })
		for _, c := range cs {
			clens = append(clens, Pair(N(c), N(m.CommitteeSize(phase0.CommitteeIndex(c)))))
		}
		outs = append(outs, Record("md_slot", N(uint64(m.Slot())), "md_cas", N(m.CommitteesAtSlot()), "md_vals", List(vals),
			"md_comms", List(comms), "md_vcis", List(vcis), "md_clens", List(clens)))
	}
	return App("BMerge", List(ins), Some(List(outs)))
}

// ---------------------------------------------------------------------------------------------
// The controller's world: scripted environment and recording services.

type world struct {
	mu   sync.Mutex
	env  Env
	peek bool // the harness is inspecting a job's payload, not running it

	attLog, propLog []string // Gallina (slot, payload) terms of real runs
	peekPay         []string // payload seen while peeking
	headSlot        uint64   // what the node reports as head to proposeEarly
	headErr         bool

	// a slow beacon node: the matching request sleeps (fake time) until everything else the op
	// started has finished, the chain time moves to delayTarget, then the answer is given
	ct          *mocks.ChainTime
	delay       *Delay
	delayTarget uint64
}

// slowAnswer blocks a matching duties request like a busy beacon node does; it honours the
// request's context.
func (w *world) slowAnswer(ctx context.Context, kind string, key uint64) error {
	w.mu.Lock()
	d, target, ct := w.delay, w.delayTarget, w.ct
	w.mu.Unlock()
	if err := ctx.Err(); err != nil {
		return err // a request on a context that is done fails, as an HTTP client's does
	}
	if d == nil || ct == nil || d.Kind != kind || d.Key != key {
		return nil
	}
	select {
	case <-ctx.Done():
		return ctx.Err()
	case <-time.After(300 * time.Millisecond):
	}
	if uint64(ct.CurrentSlot()) < target {
		ct.SetSlot(target)
	}
	return nil
}

// clockSched is the recording scheduler, noting for every accepted one-off job the chain time's
// current slot at the moment it was set up.
type clockSched struct {
	*ctxSched
	ct     *mocks.ChainTime
	mu     sync.Mutex
	setups []string
}

func (s *clockSched) ScheduleJob(ctx context.Context, class string, name string, runtime time.Time, job scheduler.JobFunc) error {
	err := s.ctxSched.ScheduleJob(ctx, class, name, runtime, job)
	if err == nil {
		if _, ctor, num, ok := parseJob(name); ok {
			at := uint64(s.ct.CurrentSlot())
			s.mu.Lock()
			s.setups = append(s.setups, Pair(App(ctor, N(num)), N(at)))
			s.mu.Unlock()
		}
	}
	return err
}

func (s *clockSched) drain() []string {
	s.mu.Lock()
	defer s.mu.Unlock()
	res := s.setups
	s.setups = nil
	sort.Strings(res)
	return res
}

func (w *world) setEnv(e Env) { w.mu.Lock(); w.env = e; w.mu.Unlock() }

// attester duties provider
func (w *world) AttesterDuties(ctx context.Context, opts *api.AttesterDutiesOpts) (*api.Response[[]*apiv1.AttesterDuty], error) {
	if err := w.slowAnswer(ctx, "att", uint64(opts.Epoch)); err != nil {
		return nil, err
	}
	w.mu.Lock()
	defer w.mu.Unlock()
	var res []*apiv1.AttesterDuty
	for _, ea := range w.env.Att {
		if ea.Epoch == uint64(opts.Epoch) {
			clen, cas := committeeShape(ea.Duties)
			for _, d := range ea.Duties {
				res = append(res, &apiv1.AttesterDuty{Slot: phase0.Slot(d.Slot), ValidatorIndex: phase0.ValidatorIndex(d.Val),
					CommitteeIndex: phase0.CommitteeIndex(d.Comm), ValidatorCommitteeIndex: d.VCI,
					CommitteeLength: clen[[2]uint64{d.Slot, d.Comm}], CommitteesAtSlot: cas[d.Slot]})
			}
			break
		}
	}
	return &api.Response[[]*apiv1.AttesterDuty]{Data: res, Metadata: map[string]any{}}, nil
}

func (w *world) ProposerDuties(ctx context.Context, opts *api.ProposerDutiesOpts) (*api.Response[[]*apiv1.ProposerDuty], error) {
	if err := w.slowAnswer(ctx, "prop", uint64(opts.Epoch)); err != nil {
		return nil, err
	}
	w.mu.Lock()
	defer w.mu.Unlock()
	var res []*apiv1.ProposerDuty
	for _, ep := range w.env.Prop {
		if ep.Epoch == uint64(opts.Epoch) {
			for _, d := range ep.Duties {
				res = append(res, &apiv1.ProposerDuty{Slot: phase0.Slot(d.Slot), ValidatorIndex: phase0.ValidatorIndex(d.Val)})
			}
			break
		}
	}
	return &api.Response[[]*apiv1.ProposerDuty]{Data: res, Metadata: map[string]any{}}, nil
}

type syncProvider struct {
	w      *world
	period uint64
}

func (s *syncProvider) SyncCommitteeDuties(ctx context.Context, opts *api.SyncCommitteeDutiesOpts) (*api.Response[[]*apiv1.SyncCommitteeDuty], error) {
	if err := s.w.slowAnswer(ctx, "sync", uint64(opts.Epoch)/s.period); err != nil {
		return nil, err
	}
	s.w.mu.Lock()
	defer s.w.mu.Unlock()
	var res []*apiv1.SyncCommitteeDuty
	for _, ps := range s.w.env.Sync {
		if ps.Period == uint64(opts.Epoch)/s.period {
			for _, v := range ps.Vals {
				res = append(res, &apiv1.SyncCommitteeDuty{ValidatorIndex: phase0.ValidatorIndex(v), ValidatorSyncCommitteeIndices: []phase0.CommitteeIndex{phase0.CommitteeIndex(v % 512)}})
			}
			break
		}
	}
	return &api.Response[[]*apiv1.SyncCommitteeDuty]{Data: res, Metadata: map[string]any{}}, nil
}

// validating accounts provider: three accounts, or none.
type accountsProvider struct{ w *world }

func (a *accountsProvider) accounts() map[phase0.ValidatorIndex]e2wtypes.Account {
	a.w.mu.Lock()
	defer a.w.mu.Unlock()
	res := map[phase0.ValidatorIndex]e2wtypes.Account{}
	if a.w.env.Vals {
		res[1], res[2], res[3] = nil, nil, nil
	}
	return res
}
func (a *accountsProvider) ValidatingAccountsForEpoch(ctx context.Context, _ phase0.Epoch) (map[phase0.ValidatorIndex]e2wtypes.Account, error) {
	return a.accounts(), ctx.Err()
}
func (a *accountsProvider) ValidatingAccountsForEpochByIndex(ctx context.Context, _ phase0.Epoch, _ []phase0.ValidatorIndex) (map[phase0.ValidatorIndex]e2wtypes.Account, error) {
	return a.accounts(), ctx.Err()
}
func (a *accountsProvider) SyncCommitteeAccountsForEpoch(ctx context.Context, _ phase0.Epoch) (map[phase0.ValidatorIndex]e2wtypes.Account, error) {
	return a.accounts(), ctx.Err()
}
func (a *accountsProvider) SyncCommitteeAccountsForEpochByIndex(ctx context.Context, _ phase0.Epoch, _ []phase0.ValidatorIndex) (map[phase0.ValidatorIndex]e2wtypes.Account, error) {
	return a.accounts(), ctx.Err()
}

// attester
type recAttester struct{ w *world }

func attPayload(d *attester.Duty) string {
	type tr struct{ v, c, i uint64 }
	ts := make([]tr, 0, len(d.ValidatorIndices()))
	for k := range d.ValidatorIndices() {
		ts = append(ts, tr{uint64(d.ValidatorIndices()[k]), uint64(d.CommitteeIndices()[k]), d.ValidatorCommitteeIndices()[k]})
	}
	// canonical order (committee, validator, position): sort.Slice in MergeDuties is not stable
	sort.Slice(ts, func(a, b int) bool {
		if ts[a].c != ts[b].c {
			return ts[a].c < ts[b].c
		}
		if ts[a].v != ts[b].v {
			return ts[a].v < ts[b].v
		}
		return ts[a].i < ts[b].i
	})
	items := make([]string, 0, len(ts))
	for _, x := range ts {
		items = append(items, triple(x.v, x.c, x.i))
	}
	return List(items)
}

// Attest on a context that is done attests to nothing (the real attester's requests and signatures
// all fail), so nothing is logged.
func (a *recAttester) Attest(ctx context.Context, duty *attester.Duty) ([]*phase0.Attestation, error) {
	a.w.mu.Lock()
	defer a.w.mu.Unlock()
	if a.w.peek {
		a.w.peekPay = append(a.w.peekPay, attPayload(duty))
		return nil, nil
	}
	if err := ctx.Err(); err != nil {
		return nil, err
	}
	a.w.attLog = append(a.w.attLog, Pair(N(uint64(duty.Slot())), attPayload(duty)))
	return nil, nil
}

// proposer
type recProposer struct{ w *world }

// Prepare fails on a context that is done, as the real one does (it asks the account manager and a
// possibly remote signer for the RANDAO reveal with that context).
func (p *recProposer) Prepare(ctx context.Context, _ *beaconblockproposer.Duty) error { return ctx.Err() }
func (p *recProposer) Propose(ctx context.Context, duty *beaconblockproposer.Duty) {
	p.w.mu.Lock()
	defer p.w.mu.Unlock()
	pay := List([]string{triple(uint64(duty.ValidatorIndex()), 0, 0)})
	if p.w.peek {
		p.w.peekPay = append(p.w.peekPay, pay)
		return
	}
	if ctx.Err() != nil {
		return // proposing on a context that is done proposes nothing
	}
	p.w.propLog = append(p.w.propLog, Pair(N(uint64(duty.Slot())), pay))
}

// sync committee messenger: Prepare records (when peeking) and always fails, so that no message
// job is ever scheduled (message and aggregation scheduling belong to C15).
type recMessenger struct{ w *world }

func (m *recMessenger) Prepare(_ context.Context, duty *synccommitteemessenger.Duty) error {
	m.w.mu.Lock()
	defer m.w.mu.Unlock()
	if m.w.peek {
		vs := make([]uint64, 0, len(duty.ValidatorIndices()))
		for _, v := range duty.ValidatorIndices() {
			vs = append(vs, uint64(v))
		}
		sort.Slice(vs, func(i, j int) bool { return vs[i] < vs[j] })
		items := make([]string, 0, len(vs))
		for _, v := range vs {
			items = append(items, triple(v, 0, 0))
		}
		m.w.peekPay = append(m.w.peekPay, List(items))
	}
	return errors.New("scripted: not preparing")
}
func (m *recMessenger) Message(_ context.Context, _ *synccommitteemessenger.Duty) ([]*altair.SyncCommitteeMessage, error) {
	return nil, errors.New("scripted")
}
func (m *recMessenger) GetDataUsedForSlot(_ phase0.Slot) (synccommitteemessenger.SlotData, bool) {
	return synccommitteemessenger.SlotData{}, false
}
func (m *recMessenger) RemoveHistoricDataUsedForSlotVerification(_ phase0.Slot) {}

// beacon block headers provider for proposeEarly
type headers struct{ w *world }

func (h *headers) BeaconBlockHeader(_ context.Context, _ *api.BeaconBlockHeaderOpts) (*api.Response[*apiv1.BeaconBlockHeader], error) {
	h.w.mu.Lock()
	defer h.w.mu.Unlock()
	if h.w.peek || h.w.headErr {
		return nil, errors.New("scripted failure")
	}
	return &api.Response[*apiv1.BeaconBlockHeader]{
		Data: &apiv1.BeaconBlockHeader{
			Header: &phase0.SignedBeaconBlockHeader{Message: &phase0.BeaconBlockHeader{Slot: phase0.Slot(h.w.headSlot)}},
		},
		Metadata: map[string]any{},
	}, nil
}

// ---------------------------------------------------------------------------------------------
// Running a history.

type ctl struct {
	h     *Hist
	w     *world
	ct    *mocks.ChainTime
	sched *mocks.RecScheduler
	cx    *ctxSched // sched made to honour the parent context of a job (what the controller talks to, through cs)
	cs    *clockSched
	ev    *mocks.EventsProvider
	svc   *controller.Service
	tick  *controller.VerifEpochTickerData // hook-built instance only
	level zerolog.Level
}

func (c *ctl) agg() synccommitteeaggregator.Service {
	if c.h.HaveAgg {
		return mocksynccommitteeaggregator.New()
	}
	return nil
}

func (c *ctl) spec() eth2client.SpecProvider {
	spec := map[string]any{
		"SECONDS_PER_SLOT": time.Duration(c.h.SlotSecs) * time.Second,
		"SLOTS_PER_EPOCH":  c.h.SPE,
	}
	if c.h.Period != 0 {
		spec["EPOCHS_PER_SYNC_COMMITTEE_PERIOD"] = c.h.Period
	}
	if c.h.SpecAltair != nil {
		spec["ALTAIR_FORK_EPOCH"] = *c.h.SpecAltair
	}
	return &specProvider{spec: spec}
}

// start builds a fresh process: new scheduler, new event subscriptions, public constructor.
func (c *ctl) start(t *testing.T) {
	c.sched = mocks.NewRecScheduler()
	c.sched.RunInline = true // RunJobIfExists (fast track, propose early) really runs the job
	c.cx = newCtxSched(c.sched, func() time.Time { return c.ct.StartOfSlot(c.ct.CurrentSlot()) })
	c.cs = &clockSched{ctxSched: c.cx, ct: c.ct}
	c.ev = mocks.NewEventsProvider()
	c.tick = nil
	params := []controller.Parameter{
		controller.WithLogLevel(c.level),
		controller.WithMonitor(nullmetrics.New()),
		controller.WithSpecProvider(c.spec()),
		controller.WithChainTimeService(c.ct),
		controller.WithProposerDutiesProvider(c.w),
		controller.WithAttesterDutiesProvider(c.w),
		controller.WithSyncCommitteeDutiesProvider(&syncProvider{w: c.w, period: max(c.h.Period, 1)}),
		controller.WithEventsProvider(c.ev),
		controller.WithValidatingAccountsProvider(&accountsProvider{w: c.w}),
		controller.WithProposalsPreparer(mockproposalpreparer.New()),
		controller.WithScheduler(c.cs),
		controller.WithAttester(&recAttester{w: c.w}),
		controller.WithSyncCommitteeMessenger(&recMessenger{w: c.w}),
		controller.WithSyncCommitteeSubscriber(mocksynccommitteesubscriber.New()),
		controller.WithBeaconBlockProposer(&recProposer{w: c.w}),
		controller.WithBeaconCommitteeSubscriber(mockbeaconcommitteesubscriber.New()),
		controller.WithAttestationAggregator(mockattestationaggregator.New()),
		controller.WithAccountsRefresher(mockaccountmanager.NewRefresher()),
		controller.WithBlockToSlotSetter(mockcache.New(map[phase0.Root]phase0.Slot{}).(cache.BlockRootToSlotSetter)),
		controller.WithBeaconBlockHeadersProvider(&headers{w: c.w}),
		controller.WithSignedBeaconBlockProvider(mock.NewSignedBeaconBlockProvider()),
		controller.WithMaxAttestationDelay(time.Duration(c.h.AttDelayMs) * time.Millisecond),
		controller.WithMaxProposalDelay(time.Duration(c.h.PropDelayMs) * time.Millisecond),
		controller.WithFastTrackAttestations(c.h.FastTrack),
		controller.WithFastTrackGrace(100 * time.Millisecond),
	}
	if c.h.HaveAgg {
		params = append(params, controller.WithSyncCommitteeAggregator(mocksynccommitteeaggregator.New()))
	}
	svc, err := controller.New(context.Background(), params...)
	if err != nil {
		t.Fatalf("controller constructor: %v", err)
	}
	c.svc = svc
}

func (c *ctl) hook() {
	c.sched = mocks.NewRecScheduler()
	c.sched.RunInline = true // RunJobIfExists (fast track, propose early) really runs the job
	c.cx = newCtxSched(c.sched, func() time.Time { return c.ct.StartOfSlot(c.ct.CurrentSlot()) })
	c.cs = &clockSched{ctxSched: c.cx, ct: c.ct}
	c.ev = mocks.NewEventsProvider()
	deps := &controller.VerifDeps{
		LogLevel:                    c.level,
		Monitor:                     nullmetrics.New(),
		ChainTime:                   c.ct,
		Scheduler:                   c.cs,
		ProposerDutiesProvider:      c.w,
		AttesterDutiesProvider:      c.w,
		SyncCommitteeDutiesProvider: &syncProvider{w: c.w, period: max(c.h.Period, 1)},
		ValidatingAccountsProvider:  &accountsProvider{w: c.w},
		ProposalsPreparer:           mockproposalpreparer.New(),
		Attester:                    &recAttester{w: c.w},
		SyncCommitteeMessenger:      &recMessenger{w: c.w},
		SyncCommitteesSubscriber:    mocksynccommitteesubscriber.New(),
		BeaconBlockProposer:         &recProposer{w: c.w},
		BeaconBlockHeadersProvider:  &headers{w: c.w},
		SignedBeaconBlockProvider:   mock.NewSignedBeaconBlockProvider(),
		AttestationAggregator:       mockattestationaggregator.New(),
		BeaconCommitteeSubscriber:   mockbeaconcommitteesubscriber.New(),
		AccountsRefresher:           mockaccountmanager.NewRefresher(),
		BlockToSlotSetter:           mockcache.New(map[phase0.Root]phase0.Slot{}).(cache.BlockRootToSlotSetter),

		SlotDuration:                 time.Duration(c.h.SlotSecs) * time.Second,
		SlotsPerEpoch:                c.h.SPE,
		EpochsPerSyncCommitteePeriod: c.h.Period,
		MaxProposalDelay:             time.Duration(c.h.PropDelayMs) * time.Millisecond,
		MaxAttestationDelay:          time.Duration(c.h.AttDelayMs) * time.Millisecond,
		FastTrackAttestations:        c.h.FastTrack,
		FastTrackGrace:               100 * time.Millisecond,
		HandlingAltair:               c.h.Handling,
		AltairForkEpoch:              phase0.Epoch(c.h.AltairEpoch),
		BellatrixForkEpoch:           0xffffffffffffffff,
		CapellaForkEpoch:             0xffffffffffffffff,
	}
	if c.h.HaveAgg {
		deps.SyncCommitteeAggregator = mocksynccommitteeaggregator.New()
	}
	c.svc = controller.NewForVerif(deps)
	c.tick = c.svc.VerifNewEpochTickerData()
}

// settle lets every goroutine the controller started finish (including the ticker's 200 ms wait
// and the fast-track grace period, in fake time).
func settle() {
	time.Sleep(time.Second)
	synctest.Wait()
}

var jobPrefixes = []struct{ kind, ctor, prefix string }{
	{"att", "JAtt", "Attestations for slot "},
	{"prop", "JProp", "Beacon block proposal for slot "},
	{"early", "JEarly", "Early beacon block proposal for slot "},
	{"prep", "JPrep", "Prepare for epoch "},
	{"sync", "JSync", "Prepare sync committee messages for slot "},
}

func jobName(kind string, num uint64) string {
	for _, p := range jobPrefixes {
		if p.kind == kind {
			return p.prefix + strconv.FormatUint(num, 10)
		}
	}
	return ""
}

func parseJob(name string) (kind, ctor string, num uint64, ok bool) {
	for _, p := range jobPrefixes {
		if strings.HasPrefix(name, p.prefix) {
			n, err := strconv.ParseUint(name[len(p.prefix):], 10, 64)
			if err != nil {
				return "", "", 0, false
			}
			return p.kind, p.ctor, n, true
		}
	}
	return "", "", 0, false
}

// snapshot prints the one-off jobs of the scheduler, with their payloads (obtained by running the
// job function in "peek" mode, in which the recording services only note what they were given).
func (c *ctl) snapshot(t *testing.T) string {
	type ent struct {
		rank int
		num  uint64
		term string
	}
	var ents []ent
	for _, j := range c.cx.Snapshot() {
		if j.Periodic {
			continue
		}
		kind, ctor, num, ok := parseJob(j.Name)
		if !ok {
			t.Fatalf("unexpected job name %q", j.Name)
		}
		pay := "[]"
		if kind == "att" || kind == "prop" || kind == "sync" {
			c.w.mu.Lock()
			c.w.peek, c.w.peekPay = true, nil
			c.w.mu.Unlock()
			j.Func(context.Background())
			c.w.mu.Lock()
			c.w.peek = false
			if len(c.w.peekPay) == 1 {
				pay = c.w.peekPay[0]
			} else {
				pay = "[(0, 0, 999999)]" // the job did not do what its name says
			}
			c.w.mu.Unlock()
		}
		rank := 0
		for i, p := range jobPrefixes {
			if p.kind == kind {
				rank = i
			}
		}
		ents = append(ents, ent{rank, num, Record("j_name", App(ctor, N(num)), "j_time", ZBig(unixNs(j.Time)), "j_pay", pay)})
	}
	sort.Slice(ents, func(i, k int) bool {
		if ents[i].rank != ents[k].rank {
			return ents[i].rank < ents[k].rank
		}
		return ents[i].num < ents[k].num
	})
	items := make([]string, 0, len(ents))
	for _, e := range ents {
		items = append(items, e.term)
	}
	return List(items)
}

func vals3() []phase0.ValidatorIndex { return []phase0.ValidatorIndex{1, 2, 3} }

func (c *ctl) indices() []phase0.ValidatorIndex {
	c.w.mu.Lock()
	defer c.w.mu.Unlock()
	if c.w.env.Vals {
		return vals3()
	}
	return nil
}

func (c *ctl) apply(t *testing.T, op Op) {
	ctx := context.Background()
	if op.Delay != nil {
		target := uint64(c.ct.CurrentSlot()) + op.Delay.Slots
		c.w.mu.Lock()
		c.w.delay, c.w.delayTarget = op.Delay, target
		c.w.mu.Unlock()
		defer func() {
			c.w.mu.Lock()
			c.w.delay = nil
			c.w.mu.Unlock()
			if uint64(c.ct.CurrentSlot()) < target {
				c.ct.SetSlot(target)
			}
		}()
	}
	switch op.K {
	case "advance":
		c.ct.SetSlot(op.Slot)
	case "setenv":
		c.w.setEnv(*op.Env)
	case "start":
		c.start(t)
	case "tick":
		if c.tick != nil {
			c.svc.VerifEpochTicker(ctx, c.tick)
		} else if j, ok := c.cx.Get("Epoch ticker"); ok {
			jctx, _ := c.cx.jobContext("Epoch ticker", ctx)
			j.Func(jctx)
		}
		// no ticker (its parent context is done): the tick does not happen, the tables show it
	case "head":
		ev := &apiv1.Event{Topic: "head", Data: &apiv1.HeadEvent{Slot: phase0.Slot(op.Slot), Block: rootOf(1000 + op.Slot),
			PreviousDutyDependentRoot: rootOf(op.Prev), CurrentDutyDependentRoot: rootOf(op.Cur)}}
		if hs := c.ev.Handlers["head"]; len(hs) > 0 {
			hs[0](ev)
		} else {
			c.svc.HandleHeadEvent(ev)
		}
	case "fire":
		c.w.mu.Lock()
		c.w.headSlot = op.HeadSlot
		c.w.mu.Unlock()
		c.cx.Fire(ctx, jobName(op.Job, op.Num))
	case "schedatt":
		c.svc.VerifScheduleAttestations(ctx, phase0.Epoch(op.Epoch), c.indices(), op.NotCur)
	case "schedprop":
		c.svc.VerifScheduleProposals(ctx, phase0.Epoch(op.Epoch), c.indices(), op.NotCur)
	case "schedsync":
		c.svc.VerifScheduleSyncCommitteeMessages(ctx, phase0.Epoch(op.Epoch), c.indices(), op.NotCur)
	case "refreshatt":
		c.svc.VerifRefreshAttesterDutiesForEpoch(ctx, phase0.Epoch(op.Epoch))
	case "refreshprop":
		c.svc.VerifRefreshProposerDutiesForEpoch(ctx, phase0.Epoch(op.Epoch))
	case "refreshsync":
		c.svc.VerifRefreshSyncCommitteeDutiesForEpochPeriod(ctx, phase0.Epoch(op.Epoch))
	default:
		t.Fatalf("unknown op %q", op.K)
	}
	settle()
}

func envTerm(e *Env) string {
	var att, prop, syn []string
	for _, ea := range e.Att {
		ds := make([]string, 0, len(ea.Duties))
		for _, d := range ea.Duties {
			ds = append(ds, Record("ad_slot", N(d.Slot), "ad_val", N(d.Val), "ad_comm", N(d.Comm), "ad_vci", N(d.VCI)))
		}
		att = append(att, Pair(N(ea.Epoch), List(ds)))
	}
	for _, ep := range e.Prop {
		ds := make([]string, 0, len(ep.Duties))
		for _, d := range ep.Duties {
			ds = append(ds, Record("pd_slot", N(d.Slot), "pd_val", N(d.Val)))
		}
		prop = append(prop, Pair(N(ep.Epoch), List(ds)))
	}
	for _, ps := range e.Sync {
		vs := make([]string, 0, len(ps.Vals))
		for _, v := range ps.Vals {
			vs = append(vs, N(v))
		}
		syn = append(syn, Pair(N(ps.Period), List(vs)))
	}
	return Record("e_att", List(att), "e_prop", List(prop), "e_sync", List(syn), "e_vals", Bool(e.Vals))
}

func opTerm(op Op) string {
	switch op.K {
	case "advance":
		return App("Advance", N(op.Slot))
	case "setenv":
		return App("SetEnv", envTerm(op.Env))
	case "start":
		return "Start"
	case "tick":
		return "Tick"
	case "head":
		return App("Head", N(op.Slot), N(op.Prev), N(op.Cur))
	case "fire":
		_, ctor, _, _ := parseJob(jobName(op.Job, op.Num))
		return App("Fire", App(ctor, N(op.Num)), N(op.HeadSlot))
	case "schedatt":
		return App("SchedAtt", N(op.Epoch), Bool(op.NotCur))
	case "schedprop":
		return App("SchedProp", N(op.Epoch), Bool(op.NotCur))
	case "schedsync":
		return App("SchedSync", N(op.Epoch), Bool(op.NotCur))
	case "refreshatt":
		return App("RefreshAtt", N(op.Epoch))
	case "refreshprop":
		return App("RefreshProp", N(op.Epoch))
	case "refreshsync":
		return App("RefreshSync", N(op.Epoch))
	}
	return "?"
}

func dopTerm(op Op) string {
	d := None()
	if op.Delay != nil {
		kind := map[string]string{"att": "RAtt", "prop": "RProp", "sync": "RSync"}[op.Delay.Kind]
		d = Some(Record("dl_kind", kind, "dl_key", N(op.Delay.Key), "dl_slots", N(op.Delay.Slots)))
	}
	return Pair(opTerm(op), d)
}

func runHist(t *testing.T, h *Hist, level zerolog.Level) (term string, nontrivial bool, obs map[string]any) {
	var snaps, clocks, setups []string
	slow := false
	for _, op := range h.Ops {
		if op.Delay != nil {
			slow = true
		}
	}
	w := &world{env: Env{Vals: true}}
	var reorg string
	jobsSeen := 0
	prevSnap := "[]"
	synctest.Test(t, func(t *testing.T) {
		ct := mocks.NewChainTime(h.SPE)
		ct.Genesis = time.Unix(h.GenesisUnix, 0)
		ct.SlotDuration = time.Duration(h.SlotSecs) * time.Second
		c := &ctl{h: h, w: w, ct: ct, level: level}
		w.ct = ct
		if h.Hook {
			c.hook()
		}
		for i, op := range h.Ops {
			if c.svc == nil && op.K != "start" && op.K != "advance" && op.K != "setenv" {
				t.Fatalf("op %d (%s) before the controller exists", i, op.K)
			}
			c.apply(t, op)
			clocks = append(clocks, N(uint64(ct.CurrentSlot())))
			if c.cs != nil {
				setups = append(setups, List(c.cs.drain()))
			} else {
				setups = append(setups, "[]")
			}
			if c.svc == nil {
				snaps = append(snaps, "None")
				continue
			}
			s := c.snapshot(t)
			if s != "[]" {
				jobsSeen++
			}
			if s == prevSnap {
				snaps = append(snaps, "None") // unchanged
			} else {
				snaps = append(snaps, Some(s))
			}
			prevSnap = s
		}
		if c.svc != nil {
			le, pr, cr := c.svc.VerifReorgState()
			reorg = "(" + N(uint64(le)) + ", " + N(rootNum(pr)) + ", " + N(rootNum(cr)) + ")"
		} else {
			reorg = "(0, 0, 0)"
		}
		// Fake time stops when this function returns and a goroutine still waiting for a timer then
		// counts as a deadlock of the bubble.  The controller leaves none behind; code that bounds a
		// context (context.WithTimeout) and lets it run out does: let every such timer fire.
		time.Sleep(50 * 365 * 24 * time.Hour)
		synctest.Wait()
	})
	ops := make([]string, 0, len(h.Ops))
	for _, op := range h.Ops {
		ops = append(ops, opTerm(op))
	}
	specAltair := None()
	if h.SpecAltair != nil {
		specAltair = Some(N(*h.SpecAltair))
	}
	cfg := Record(
		"c_ct", Record("ct_genesis", ZBig(new(big.Int).Mul(big.NewInt(h.GenesisUnix), big.NewInt(1000000000))),
			"ct_dur", ZBig(new(big.Int).Mul(big.NewInt(int64(h.SlotSecs)), big.NewInt(1000000000))), "ct_spe", N(h.SPE)),
		"c_att_delay", Z(h.AttDelayMs*1000000),
		"c_prop_delay", Z(h.PropDelayMs*1000000),
		"c_ft_att", Bool(h.FastTrack),
		"c_period", N(h.Period),
		"c_spec_altair", specAltair,
		"c_have_agg", Bool(h.HaveAgg),
	)
	init := None()
	if h.Hook {
		init = Some(Pair(Bool(h.Handling), N(h.AltairEpoch)))
	}
	w.mu.Lock()
	defer w.mu.Unlock()
	term = App("BHist", cfg, init, List(ops), List(snaps), List(w.attLog), List(w.propLog), reorg, Bool(h.WF))
	obs = map[string]any{"att_log": w.attLog, "prop_log": w.propLog, "reorg": reorg}
	if slow {
		dops := make([]string, 0, len(h.Ops))
		for _, op := range h.Ops {
			dops = append(dops, dopTerm(op))
		}
		term = App("BHistD", cfg, init, List(dops), List(snaps), List(clocks), List(setups), List(w.attLog), List(w.propLog), reorg)
		obs["clocks"], obs["setups"] = clocks, setups
	}
	return term, jobsSeen > 0, obs
}

// ---------------------------------------------------------------------------------------------

func TestC03(t *testing.T) {
	deadlock.Opts.Disable = true
	zerologger.Logger = zerolog.New(io.Discard)
	col := NewCollector("C03", "Check.C03",
		"chain-time cases (real chaintime service in a bubble: conversions at slot/epoch boundaries +-1 ns and random instants), "+
			"controller histories (real controller over the abstract scheduler: start-ups, ticks, head events, job firings, direct schedule/refresh calls; whole job table compared after every op), "+
			"MergeDuties cases; non-trivial = a chain-time probe beyond slot 0 / a history in which at least one job was scheduled / a merge of >= 2 duties; distinct by input text")
	col.ShardSize = 100 // a case costs ~130 ms in coqc (parsing nanosecond numerals); the shards are evaluated in parallel
	n := EnvInt("VERIF_N", 800)
	tier := strings.ToLower(strings.TrimSpace(getenv("VERIF_TIER", "quick")))
	var ins []Input
	for _, in := range LoadInputs[Input]("C03") {
		in.Tags = append(in.Tags, "corpus")
		ins = append(ins, in)
	}
	rng := NewRand(Seed())
	col.Count(fmt.Sprintf("mock-chaintime-validated:%d", validateMockChainTime(t, NewRand(Seed()+77))))
	col.Count(fmt.Sprintf("ctx-scheduler-validated-steps:%d", validateCtxSched(t, NewRand(Seed()+78))))
	for i := 0; i < n; i++ {
		ins = append(ins, gen(rng.Fork(), i))
	}
	for i, in := range ins {
		id := col.NextID()
		var body string
		var nt bool
		var obs any
		switch in.Kind {
		case "time":
			body, nt = runTime(t, in.Time)
			col.Count("time:probes")
		case "secs":
			body, nt = runSecs(in.Secs), true
		case "merge":
			body, nt = runMerge(in.Merge), len(in.Merge) >= 2
		case "hist":
			level := zerolog.Disabled
			if tier == "thorough" && i%2 == 1 {
				level = zerolog.TraceLevel
			}
			body, nt, obs = runHist(t, in.Hist, level)
			for _, op := range in.Hist.Ops {
				col.Count("op:" + op.K)
			}
		default:
			t.Fatalf("unknown input kind %q", in.Kind)
		}
		col.Count("kind:" + in.Kind)
		for _, tg := range in.Tags {
			col.Count("family:" + tg)
		}
		keyIn := in
		keyIn.Tags = nil
		col.Add(Case{Term: Record("c_id", N(id), "c_body", body), Key: fmt.Sprintf("%+v", jsonOf(keyIn)), Nontrivial: nt, Tags: in.Tags,
			Sample: map[string]any{"input": in, "observed": obs}})
	}
	if err := col.Flush(); err != nil {
		t.Fatal(err)
	}
}
