package c16

import (
	"context"
	"fmt"
	"sort"
	"sync"

	builderapi "github.com/attestantio/go-builder-client/api"
	"github.com/attestantio/go-eth2-client/spec/phase0"
	standardblockrelay "github.com/attestantio/vouch/services/blockrelay/standard"
	"github.com/attestantio/vouch/util"
	e2wtypes "github.com/wealdtech/go-eth2-wallet-types/v2"
)

// The validator registration round: the second user of the execution configuration in force.
// In production it runs in goroutines of its own (New, the scheduler); here the hook runs it in the
// case's goroutine so that a panic is an observation and not the end of the harness.

// regRelay is a relay that accepts validator registrations and records whose it was sent.
type regRelay struct {
	id   uint64
	book *regBook
}

type regBook struct {
	mu   sync.Mutex
	seen map[uint64]bool
}

func (m *regRelay) Name() string              { return fmt.Sprintf("relay-%d", m.id) }
func (m *regRelay) Address() string           { return cfgAddr(m.id) }
func (m *regRelay) Pubkey() *phase0.BLSPubKey { return nil }
func (m *regRelay) SubmitValidatorRegistrations(ctx context.Context, opts *builderapi.SubmitValidatorRegistrationsOpts) error {
	if err := ctx.Err(); err != nil {
		return err
	}
	if opts == nil || len(opts.Registrations) == 0 {
		return nil
	}
	m.book.mu.Lock()
	m.book.seen[m.id] = true
	m.book.mu.Unlock()
	return nil
}

type regSigner struct{}

func (regSigner) SignValidatorRegistration(context.Context, e2wtypes.Account, *builderapi.VersionedValidatorRegistration) (phase0.BLSSignature, error) {
	return phase0.BLSSignature{0xc1, 0x6}, nil
}

const maxCfgRelay = 8

// enableRegistrations prepares the service and the relay client cache for registration rounds.
func enableRegistrations(svc *standardblockrelay.Service) *regBook {
	book := &regBook{seen: map[uint64]bool{}}
	for id := uint64(1); id <= maxCfgRelay; id++ {
		util.InjectBuilderClientC09(cfgAddr(id), &regRelay{id: id, book: book})
	}
	svc.VerifC16EnableRegistrations(regSigner{})
	return book
}

// registrationRound runs one round and returns the relays that received a registration (sorted).
func registrationRound(ctx context.Context, svc *standardblockrelay.Service, book *regBook) (ids []uint64, panicked bool, msg string) {
	book.mu.Lock()
	book.seen = map[uint64]bool{}
	book.mu.Unlock()
	panicked, msg = catch(func() { svc.VerifC16SubmitValidatorRegistrations(ctx) })
	book.mu.Lock()
	defer book.mu.Unlock()
	ids = []uint64{}
	for id := range book.seen {
		ids = append(ids, id)
	}
	sort.Slice(ids, func(a, b int) bool { return ids[a] < ids[b] })
	return ids, panicked, msg
}
