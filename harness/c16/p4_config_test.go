package c16

import (
	"context"
	"encoding/binary"
	"encoding/hex"
	"errors"
	"fmt"
	"reflect"
	"sort"
	"strings"
	"testing"

	"github.com/attestantio/go-eth2-client/spec/bellatrix"
	"github.com/attestantio/go-eth2-client/spec/phase0"
	"github.com/attestantio/vouch/services/blockrelay"
	standardblockrelay "github.com/attestantio/vouch/services/blockrelay/standard"
	"github.com/google/uuid"
	"github.com/rs/zerolog"
	e2types "github.com/wealdtech/go-eth2-types/v2"
	e2wtypes "github.com/wealdtech/go-eth2-wallet-types/v2"

	. "verifharness/common"
	"verifharness/mocks"
)

// Shapes of execution configuration documents (the JSON text is generated from the shape).

type BaseRelayIn struct {
	Addr uint64 `json:"addr"`
	Null bool   `json:"null,omitempty"`
}

type PRelayIn struct {
	Addr     uint64 `json:"addr"`
	Null     bool   `json:"null,omitempty"`
	Disabled bool   `json:"disabled,omitempty"`
}

type ProposerIn struct {
	Null      bool       `json:"null,omitempty"`
	Key       string     `json:"key"` // accounts | validator | neither
	Accounts  []uint64   `json:"accounts,omitempty"`
	Validator uint64     `json:"validator,omitempty"`
	Reset     bool       `json:"reset,omitempty"`
	Relays    []PRelayIn `json:"relays,omitempty"`
}

type V2In struct {
	BadField  int           `json:"bad_field,omitempty"`  // 0 = every scalar field parses; k>0 = the k-th kind of invalid field
	NullLists bool          `json:"null_lists,omitempty"` // an empty relays / proposers / proposer relays collection is written as null
	Relays    []BaseRelayIn `json:"relays,omitempty"`
	Proposers []ProposerIn  `json:"proposers,omitempty"`
}

type V1PropIn struct {
	HasBuilder bool     `json:"has_builder,omitempty"`
	Enabled    bool     `json:"enabled,omitempty"`
	Relays     []uint64 `json:"relays,omitempty"` // 0 = a null / empty entry
}

type V1EntryIn struct {
	Key  uint64    `json:"key"`
	Prop *V1PropIn `json:"prop"` // nil = null
}

type V1In struct {
	BadField  int         `json:"bad_field,omitempty"`
	NullLists bool        `json:"null_lists,omitempty"` // absent proposer_config / builder / empty builder relays are written as null
	Proposers []V1EntryIn `json:"proposers,omitempty"`
	Default   *V1PropIn   `json:"default"` // nil = null or absent
	Explicit  bool        `json:"explicit_null,omitempty"`
}

type DocIn struct {
	Kind    string `json:"kind"`              // unavailable | malformed | version | v1 | v2 | bare
	Variant int    `json:"variant,omitempty"` // malformed: which text; unavailable: 0 = the source fails, 1 = the accounts provider fails, 2 = no validating accounts
	Raw     string `json:"raw,omitempty"`     // bare: the document text, a JSON value that is not an object (one of bareNullTexts / bareValueTexts)
	Version uint64 `json:"version,omitempty"`
	V1      *V1In  `json:"v1,omitempty"`
	V2      *V2In  `json:"v2,omitempty"`
}

type ConfigStep struct {
	Doc     DocIn       `json:"doc"`
	Lookups [][2]uint64 `json:"lookups"`          // (account id, pubkey id)
	Source  string      `json:"source,omitempty"` // first step only: "" = static source (file), "http" = dynamic source (POST with the public keys)
	// Then: what the source answers when it is asked again within this refresh ("" the same | flip: a
	// failure becomes the last document that decoded, a document becomes a failure | nil: an
	// error-free answer without a body); the code fetches once per refresh.
	Then string `json:"then,omitempty"`
}

// Bare documents: legal JSON values that are not objects, with the white space JSON allows around
// them.  `null` passes the metadata probe (nothing is set: version 0) and reaches the v1 decoder;
// every other value fails the probe.
var bareNullTexts = []string{"null", " null", "null\n", "\t\r\n null \r\n", "\n\nnull  "}
var bareValueTexts = []string{"true", "false", "0", "-1", "2", "1.5e3", `""`, `"null"`, `"{}"`, "[]", "[null]", `[{"version":2}]`, " true\n", "\n[ ]\n"}

func bareIsNull(raw string) (isNull, known bool) {
	for _, t := range bareNullTexts {
		if t == raw {
			return true, true
		}
	}
	for _, t := range bareValueTexts {
		if t == raw {
			return false, true
		}
	}
	return false, false
}

var malformedTexts = []string{``, `{`, `[]`, `"config"`, `{"version":"two"}`, `{"version":2,"relays":[]}`, `{"version":2,"proposers":{}}`,
	`{"version":2,"relays":{"http://relay-1.c16.invalid":5}}`, `{"version":2,"proposers":[7]}`, `{"default_config":"x"}`,
	`{"default_config":{"fee_recipient":"` + feeHex + `","builder":[]}}`, `{"proposer_config":[],"default_config":{"fee_recipient":"` + feeHex + `"}}`,
	`{"version":2,"proposers":[{"proposer":"(","relays":{}}]}`, "\x00\x01", `{"version":2,"relays":{"a":{"gas_limit":5}}}`,
	// (the first 15 are referenced by index from older corpus files; new ones are appended)
	`nul`, `NULL`, `null null`, `null}`, `{"version":2}null`, `{"version":null,"default_config":7}`, `{"version":2,"relays":null,"proposers":7}`,
	`{"default_config":{"fee_recipient":"` + feeHex + `","builder":{"enabled":null,"relays":7}}}`}

// ---------------------------------------------------------------------------------------------

func cfgAddr(a uint64) string {
	if a == 0 {
		return ""
	}
	return fmt.Sprintf("http://relay-%d.c16.invalid", a)
}

func cfgAddrID(s string) uint64 {
	var a uint64
	if _, err := fmt.Sscanf(s, "http://relay-%d.c16.invalid", &a); err != nil {
		return 0
	}
	return a
}

func cfgPubkey(k uint64) phase0.BLSPubKey {
	var p phase0.BLSPubKey
	if k != 0 {
		p[0] = 0xaa
	}
	binary.BigEndian.PutUint64(p[40:], k)
	return p
}

func cfgPubkeyHex(k uint64) string { p := cfgPubkey(k); return "0x" + hex.EncodeToString(p[:]) }

const feeHex = "0x0102030405060708090a0b0c0d0e0f1011121314"

type cfgAccount struct{ id uint64 }

type cfgKey struct{ id uint64 }

func (k cfgKey) Marshal() []byte                  { p := cfgPubkey(k.id); return p[:] }
func (cfgKey) Aggregate(e2types.PublicKey)        {}
func (k cfgKey) Copy() e2types.PublicKey          { return k }
func (a cfgAccount) ID() uuid.UUID                { return uuid.UUID{byte(a.id)} }
func (a cfgAccount) Name() string                 { return fmt.Sprintf("acc%d", a.id) }
func (a cfgAccount) PublicKey() e2types.PublicKey { return cfgKey{a.id} }

func accountName(id uint64) string { return fmt.Sprintf("<unknown>/acc%d", id) }

func v1PropJSON(p *V1PropIn, bad bool, nullLists bool) string {
	if p == nil {
		return "null"
	}
	fee := feeHex
	if bad {
		fee = "0xzz"
	}
	if !p.HasBuilder {
		if nullLists {
			return fmt.Sprintf(`{"fee_recipient":"%s","gas_limit":"30000000","builder":null}`, fee)
		}
		return fmt.Sprintf(`{"fee_recipient":"%s","gas_limit":"30000000"}`, fee)
	}
	if nullLists && len(p.Relays) == 0 {
		return fmt.Sprintf(`{"fee_recipient":"%s","builder":{"enabled":%v,"relays":null}}`, fee, p.Enabled)
	}
	rel := make([]string, len(p.Relays))
	for i, a := range p.Relays {
		if a == 0 {
			rel[i] = "null"
		} else {
			rel[i] = fmt.Sprintf("%q", cfgAddr(a))
		}
	}
	return fmt.Sprintf(`{"fee_recipient":"%s","builder":{"enabled":%v,"relays":[%s]}}`, fee, p.Enabled, strings.Join(rel, ","))
}

func docJSON(d DocIn) string {
	switch d.Kind {
	case "malformed":
		if d.Variant < 15 {
			return malformedTexts[d.Variant]
		}
		return malformedTexts[d.Variant%len(malformedTexts)]
	case "bare":
		return d.Raw
	case "version":
		return fmt.Sprintf(`{"version":%d,"relays":{}}`, d.Version)
	case "v1":
		v := d.V1
		parts := []string{}
		if len(v.Proposers) > 0 || v.BadField == 2 {
			ents := make([]string, 0, len(v.Proposers)+1)
			for i, e := range v.Proposers {
				ents = append(ents, fmt.Sprintf("%q:%s", cfgPubkeyHex(e.Key), v1PropJSON(e.Prop, v.BadField == 3 && i == 0 && e.Prop != nil, v.NullLists)))
			}
			if v.BadField == 2 {
				ents = append(ents, `"0x1234":`+v1PropJSON(&V1PropIn{}, false, false)) // a key of the wrong length
			}
			parts = append(parts, `"proposer_config":{`+strings.Join(ents, ",")+`}`)
		} else if v.NullLists {
			parts = append(parts, `"proposer_config":null`)
		}
		if v.Default != nil {
			parts = append(parts, `"default_config":`+v1PropJSON(v.Default, v.BadField == 1, v.NullLists))
		} else if v.Explicit {
			parts = append(parts, `"default_config":null`)
		}
		return "{" + strings.Join(parts, ",") + "}"
	case "v2":
		v := d.V2
		parts := []string{`"version":2`}
		switch v.BadField {
		case 1:
			parts = append(parts, `"gas_limit":"lots"`)
		case 2:
			parts = append(parts, `"min_value":"-1"`)
		case 3:
			parts = append(parts, `"fee_recipient":"0x1234"`)
		case 4:
			parts = append(parts, `"grace":"-5"`)
		default:
			parts = append(parts, `"fee_recipient":"`+feeHex+`"`, `"gas_limit":"30000000"`)
			if v.NullLists {
				// null scalars: encoding/json leaves the string fields empty, i.e. absent
				parts = append(parts, `"grace":null`, `"min_value":null`)
			}
		}
		if len(v.Relays) > 0 {
			ents := make([]string, len(v.Relays))
			for i, r := range v.Relays {
				body := `{"min_value":"0.01"}`
				if v.NullLists {
					body = `{"min_value":"0.01","public_key":null,"grace":null,"fee_recipient":null}`
				}
				if r.Null {
					body = "null"
				} else if v.BadField == 5 && i == 0 {
					body = `{"public_key":"0x00"}`
				}
				ents[i] = fmt.Sprintf("%q:%s", cfgAddr(r.Addr), body)
			}
			parts = append(parts, `"relays":{`+strings.Join(ents, ",")+`}`)
		} else if v.NullLists {
			parts = append(parts, `"relays":null`)
		}
		if len(v.Proposers) == 0 && v.NullLists {
			parts = append(parts, `"proposers":null`)
		}
		if len(v.Proposers) > 0 {
			ents := make([]string, len(v.Proposers))
			for i, p := range v.Proposers {
				if p.Null {
					ents[i] = "null"
					continue
				}
				var key string
				switch p.Key {
				case "accounts":
					if len(p.Accounts) == 0 {
						key = "nomatch/.*"
					} else {
						names := make([]string, len(p.Accounts))
						for j, a := range p.Accounts {
							names[j] = accountName(a)
						}
						key = "(" + strings.Join(names, "|") + ")"
					}
				case "validator":
					key = cfgPubkeyHex(p.Validator)
				default:
					key = cfgPubkeyHex(0)
				}
				fields := []string{fmt.Sprintf(`"proposer":%q`, key)}
				if v.BadField == 6 && i == 0 {
					fields = append(fields, `"gas_limit":"-1"`)
				} else if v.NullLists {
					fields = append(fields, `"gas_limit":null`, `"grace":null`)
				}
				if p.Reset {
					fields = append(fields, `"reset_relays":true`)
				}
				if len(p.Relays) > 0 {
					rs := make([]string, len(p.Relays))
					for j, r := range p.Relays {
						body := fmt.Sprintf(`{"disabled":%v,"gas_limit":"1000000"}`, r.Disabled)
						if v.NullLists {
							body = fmt.Sprintf(`{"disabled":%v,"gas_limit":"1000000","public_key":null,"min_value":null}`, r.Disabled)
						}
						if r.Null {
							body = "null"
						}
						rs[j] = fmt.Sprintf("%q:%s", cfgAddr(r.Addr), body)
					}
					fields = append(fields, `"relays":{`+strings.Join(rs, ",")+`}`)
				} else if v.NullLists {
					fields = append(fields, `"relays":null`)
				}
				ents[i] = "{" + strings.Join(fields, ",") + "}"
			}
			parts = append(parts, `"proposers":[`+strings.Join(ents, ",")+`]`)
		}
		return "{" + strings.Join(parts, ",") + "}"
	}
	return ""
}

// badFieldEffective: whether the shape's BadField really puts an invalid field into the text.
func v2FieldsOK(v *V2In) bool {
	switch v.BadField {
	case 0:
		return true
	case 5:
		return !(len(v.Relays) > 0 && !v.Relays[0].Null)
	case 6:
		return !(len(v.Proposers) > 0 && !v.Proposers[0].Null)
	}
	return v.BadField > 6
}

func v1FieldsOK(v *V1In) bool {
	ok := true
	switch v.BadField {
	case 1:
		ok = v.Default == nil
	case 2:
		ok = false
	case 3:
		ok = !(len(v.Proposers) > 0 && v.Proposers[0].Prop != nil)
	}
	if !ok {
		return false
	}
	// an enabled builder needs relays ("relays missing")
	bad := func(p *V1PropIn) bool { return p != nil && p.HasBuilder && p.Enabled && len(p.Relays) == 0 }
	if bad(v.Default) {
		return false
	}
	for _, e := range v.Proposers {
		if bad(e.Prop) {
			return false
		}
	}
	return true
}

func v1PropTerm(p *V1PropIn) string {
	if p == nil {
		return None()
	}
	b := None()
	if p.HasBuilder {
		b = Some(Record("b1_enabled", Bool(p.Enabled), "b1_relays", nlist(p.Relays)))
	}
	return Some(Record("p1_builder", b))
}

func docTerm(d DocIn) string {
	switch d.Kind {
	case "unavailable":
		return "DUnavailable"
	case "malformed":
		return "DMalformed"
	case "version":
		return App("DVersion", N(d.Version))
	case "bare":
		if isNull, _ := bareIsNull(d.Raw); isNull {
			return App("DBare", "BNull")
		}
		return App("DBare", "BValue")
	case "v1":
		ents := make([]string, len(d.V1.Proposers))
		for i, e := range d.V1.Proposers {
			ents[i] = Pair(N(e.Key), v1PropTerm(e.Prop))
		}
		return App("DV1", Record("d1_fields_ok", Bool(v1FieldsOK(d.V1)), "d1_proposers", List(ents), "d1_default", v1PropTerm(d.V1.Default)))
	default:
		rel := make([]string, len(d.V2.Relays))
		for i, r := range d.V2.Relays {
			rel[i] = Pair(N(r.Addr), Bool(r.Null))
		}
		props := make([]string, len(d.V2.Proposers))
		for i, p := range d.V2.Proposers {
			if p.Null {
				props[i] = None()
				continue
			}
			var key string
			switch p.Key {
			case "accounts":
				key = App("PKAccounts", nlist(p.Accounts))
			case "validator":
				key = App("PKValidator", N(p.Validator))
			default:
				key = "PKNeither"
			}
			rs := make([]string, len(p.Relays))
			for j, r := range p.Relays {
				e := Some(Bool(r.Disabled))
				if r.Null {
					e = None()
				}
				rs[j] = Record("prl_addr", N(r.Addr), "prl_entry", e)
			}
			props[i] = Some(Record("pp_key", key, "pp_reset", Bool(p.Reset), "pp_relays", List(rs)))
		}
		return App("DV2", Record("d2_fields_ok", Bool(v2FieldsOK(d.V2)), "d2_relays", List(rel), "d2_proposers", List(props)))
	}
}

// cfgSource is the scripted configuration source (majordomo) and accounts provider.
type cfgSource struct {
	text        string
	fail        bool
	accountsErr bool // the accounts provider fails: the refresh ends before anything is fetched
	noAccounts  bool // no validating accounts: nothing is fetched
	fetches     int
	stepFetches int    // fetches within the current refresh
	then        string // what later fetches of the refresh get
	alt         string // a document nobody else serves (base relay 77)
}

func (c *cfgSource) Fetch(ctx context.Context, _ string) ([]byte, error) {
	c.fetches++
	c.stepFetches++
	if err := ctx.Err(); err != nil {
		return nil, err
	}
	fail, text := c.fail, c.text
	if c.stepFetches > 1 {
		switch c.then {
		case "flip":
			fail = !fail
			if !fail {
				text = c.alt
			}
		case "nil":
			return nil, nil
		}
	}
	if fail {
		return nil, errors.New("scripted configuration source failure")
	}
	return []byte(text), nil
}
func (c *cfgSource) accounts() (map[phase0.ValidatorIndex]e2wtypes.Account, error) {
	switch {
	case c.accountsErr:
		return nil, errors.New("scripted accounts provider failure")
	case c.noAccounts:
		return map[phase0.ValidatorIndex]e2wtypes.Account{}, nil
	}
	return map[phase0.ValidatorIndex]e2wtypes.Account{1: cfgAccount{1}}, nil
}
func (c *cfgSource) ValidatingAccountsForEpoch(context.Context, phase0.Epoch) (map[phase0.ValidatorIndex]e2wtypes.Account, error) {
	return c.accounts()
}
func (c *cfgSource) ValidatingAccountsForEpochByIndex(context.Context, phase0.Epoch, []phase0.ValidatorIndex) (map[phase0.ValidatorIndex]e2wtypes.Account, error) {
	return c.accounts()
}
func (c *cfgSource) SyncCommitteeAccountsForEpoch(context.Context, phase0.Epoch) (map[phase0.ValidatorIndex]e2wtypes.Account, error) {
	return nil, errors.New("not scripted")
}
func (c *cfgSource) SyncCommitteeAccountsForEpochByIndex(context.Context, phase0.Epoch, []phase0.ValidatorIndex) (map[phase0.ValidatorIndex]e2wtypes.Account, error) {
	return nil, errors.New("not scripted")
}

// runConfig drives the real block relay service: each step's document is what the configuration
// source returns to one periodic refresh (fetchExecutionConfig), after which the lookups go
// through the service's ProposerConfig.  The decode outcome of the document alone is observed
// through blockrelay.UnmarshalJSON.
func runConfig(t *testing.T, steps []ConfigStep) result {
	ctx := context.Background()
	res := result{}
	src := &cfgSource{}
	level := zerolog.Disabled
	if len(steps) > 0 && steps[0].Doc.Variant%7 == 3 {
		level = zerolog.TraceLevel
	}
	url := "file:///execution-config.json"
	if len(steps) > 0 && steps[0].Source == "http" {
		url = "https://config.c16.invalid/execution-config"
		res.counts = append(res.counts, "source:http")
	}
	// ONE service instance for the whole history: what a refresh installs is what later lookups use.
	svc := standardblockrelay.NewForVerifC16(level, src, url, mocks.NewChainTime(32), src, bellatrix.ExecutionAddress{9}, 12345)
	book := enableRegistrations(svc)
	dead := false // a refresh panicked: the service is not used any further
	inSteps := make([]string, len(steps))
	obsSteps := make([]string, len(steps))
	obsJSON := []any{}
	for i, st := range steps {
		text := docJSON(st.Doc)
		if st.Doc.Kind == "bare" {
			if _, known := bareIsNull(st.Doc.Raw); !known {
				t.Fatalf("bare document %q is not one of the classified texts", st.Doc.Raw)
			}
		}
		unavailable := st.Doc.Kind == "unavailable"
		src.text = text
		src.fail = unavailable && st.Doc.Variant%3 == 0
		src.accountsErr = unavailable && st.Doc.Variant%3 == 1
		src.noAccounts = unavailable && st.Doc.Variant%3 == 2
		src.stepFetches, src.then = 0, st.Then
		if st.Then != "" {
			res.counts = append(res.counts, "later-fetches:"+st.Then)
		}
		if src.fail && st.Then == "flip" {
			res.counts = append(res.counts, "source-fails-then-serves")
		}
		src.alt = docJSON(DocIn{Kind: "v2", V2: &V2In{Relays: []BaseRelayIn{{Addr: 77}}}})
		var cfg blockrelay.ExecutionConfigurator
		var err error
		decPanic, decMsg := false, ""
		if unavailable {
			err = errors.New("unavailable")
		} else {
			decPanic, decMsg = catch(func() { cfg, err = blockrelay.UnmarshalJSON([]byte(text)) })
			// A configurator handed back with a nil error is there to be used.  If it is a nil pointer
			// inside the (non-nil) interface, using it is part of the decode outcome.
			if !decPanic && err == nil && cfg != nil {
				if v := reflect.ValueOf(cfg); v.Kind() == reflect.Pointer && v.IsNil() {
					res.counts = append(res.counts, "decoded-nil-pointer")
					if p, m := catch(func() {
						_, _ = cfg.ProposerConfig(ctx, cfgAccount{1}, cfgPubkey(1), bellatrix.ExecutionAddress{9}, 12345)
					}); p {
						decPanic, decMsg = true, "UnmarshalJSON returned a nil "+v.Type().String()+" with a nil error; using it: "+m
					}
				}
			}
		}
		if !dead {
			if p, m := catch(func() { svc.VerifC16FetchExecutionConfig(ctx) }); p {
				dead, decPanic, decMsg = true, true, m
			}
		}
		var dec string
		switch {
		case decPanic:
			dec = panicT
			res.obs.Panic, res.obs.Message = true, decMsg
		case err != nil || cfg == nil:
			dec = errT("CEDecode")
		default:
			dec = okT("tt")
		}
		lks := make([]string, len(st.Lookups))
		outs := make([]string, len(st.Lookups))
		outsJSON := []any{}
		for j, lk := range st.Lookups {
			lks[j] = Pair(N(lk[0]), N(lk[1]))
			if dead {
				outs[j] = panicT
				outsJSON = append(outsJSON, "service lost to an earlier panic")
				continue
			}
			var addrs []uint64
			var lerr error
			p, m := catch(func() {
				pc, e := svc.ProposerConfig(ctx, cfgAccount{lk[0]}, cfgPubkey(lk[1]))
				lerr = e
				if e == nil {
					for _, r := range pc.Relays {
						addrs = append(addrs, cfgAddrID(r.Address))
					}
				}
			})
			switch {
			case p:
				outs[j] = panicT
				res.obs.Panic, res.obs.Message = true, m
				outsJSON = append(outsJSON, "panic: "+m)
			case lerr != nil:
				outs[j] = errT("CELookup")
				outsJSON = append(outsJSON, "error")
			default:
				sort.Slice(addrs, func(a, b int) bool { return addrs[a] < addrs[b] })
				outs[j] = okT(nlist(addrs))
				if addrs == nil {
					addrs = []uint64{}
				}
				outsJSON = append(outsJSON, addrs)
			}
		}
		// the registration round that follows the refresh (the accounts provider is back if it was away)
		src.accountsErr, src.noAccounts = false, false
		reg, regJSON := panicT, any("service lost to an earlier panic")
		if !dead {
			ids, p, m := registrationRound(ctx, svc, book)
			if p {
				res.obs.Panic, res.obs.Message = true, m
				regJSON = "panic: " + m
			} else {
				reg, regJSON = okT(nlist(ids)), ids
			}
		}
		inSteps[i] = Pair(docTerm(st.Doc), List(lks))
		obsSteps[i] = Pair(Pair(dec, List(outs)), reg)
		obsJSON = append(obsJSON, map[string]any{"text": text, "decode": dec, "lookups": outsJSON, "registered_with": regJSON})

		res.counts = append(res.counts, "doc:"+st.Doc.Kind)
		switch st.Doc.Kind {
		case "malformed", "version", "unavailable":
			res.nontrivial = true
			if unavailable {
				res.counts = append(res.counts, []string{"unavailable:source", "unavailable:accounts-error", "unavailable:no-accounts"}[st.Doc.Variant%3])
			}
		case "bare":
			res.nontrivial = true
			if isNull, _ := bareIsNull(st.Doc.Raw); isNull {
				res.counts = append(res.counts, "bare-null")
				if i > 0 {
					res.counts = append(res.counts, "bare-null-after-other-documents")
				}
			} else {
				res.counts = append(res.counts, "bare-value")
			}
		case "v2":
			if st.Doc.V2.NullLists {
				res.counts = append(res.counts, "v2-null-collections")
			}
			for _, r := range st.Doc.V2.Relays {
				if r.Null {
					res.counts = append(res.counts, "null-relay")
					res.nontrivial = true
				}
			}
			for _, p := range st.Doc.V2.Proposers {
				if p.Null {
					res.counts = append(res.counts, "null-proposer")
					res.nontrivial = true
				}
				if p.Key == "neither" && !p.Null {
					res.counts = append(res.counts, "proposer-neither")
				}
				for _, r := range p.Relays {
					if r.Null {
						res.counts = append(res.counts, "null-proposer-relay")
						res.nontrivial = true
					}
				}
			}
			if !v2FieldsOK(st.Doc.V2) {
				res.counts = append(res.counts, "v2-bad-field")
			}
		case "v1":
			if st.Doc.V1.NullLists {
				res.counts = append(res.counts, "v1-null-collections")
			}
			if st.Doc.V1.Default == nil {
				res.counts = append(res.counts, "v1-no-default")
				res.nontrivial = true
			}
			for _, e := range st.Doc.V1.Proposers {
				if e.Prop == nil {
					res.counts = append(res.counts, "v1-null-proposer")
					res.nontrivial = true
				}
			}
		}
	}
	res.inTerm = App("IConfig", List(inSteps))
	res.obsTerm = App("OConfig", List(obsSteps))
	res.obs.Detail = obsJSON
	return res
}

// ---------------------------------------------------------------------------------------------

func genV1Prop(r *Rand) *V1PropIn {
	p := &V1PropIn{HasBuilder: !r.Chance(1, 4)}
	if p.HasBuilder {
		p.Enabled = !r.Chance(1, 4)
		n := r.Range(1, 3)
		if !p.Enabled && r.Bool() {
			n = 0
		}
		for i := 0; i < n; i++ {
			a := uint64(r.Range(1, 4))
			if r.Chance(1, 8) {
				a = 0
			}
			p.Relays = append(p.Relays, a)
		}
	}
	return p
}

func genBare(r *Rand) DocIn {
	if r.Chance(2, 5) {
		return DocIn{Kind: "bare", Raw: bareNullTexts[r.Intn(len(bareNullTexts))]}
	}
	return DocIn{Kind: "bare", Raw: bareValueTexts[r.Intn(len(bareValueTexts))]}
}

func genDoc(r *Rand) DocIn {
	switch k := r.Intn(14); {
	case k == 13:
		return genBare(r)
	case k < 1:
		if r.Chance(1, 2) {
			return DocIn{Kind: "unavailable", Variant: r.Intn(3)}
		}
		return DocIn{Kind: "malformed", Variant: r.Intn(len(malformedTexts))}
	case k < 2:
		return DocIn{Kind: "version", Version: []uint64{1, 3, 7}[r.Intn(3)]}
	case k < 5:
		v := &V1In{NullLists: r.Chance(1, 4)}
		if r.Chance(1, 6) {
			v.BadField = r.Range(1, 3)
		}
		seen := map[uint64]bool{}
		for i, n := 0, r.Intn(4); i < n; i++ {
			k := uint64(r.Range(1, 4))
			if seen[k] {
				continue
			}
			seen[k] = true
			e := V1EntryIn{Key: k}
			if !r.Chance(1, 3) {
				e.Prop = genV1Prop(r)
			}
			v.Proposers = append(v.Proposers, e)
		}
		if !r.Chance(1, 5) {
			v.Default = genV1Prop(r)
		} else {
			v.Explicit = r.Bool()
		}
		return DocIn{Kind: "v1", V1: v}
	default:
		v := &V2In{NullLists: r.Chance(1, 4)}
		if r.Chance(1, 8) {
			v.BadField = r.Range(1, 6)
		}
		seen := map[uint64]bool{}
		for i, n := 0, r.Intn(4); i < n; i++ {
			a := uint64(r.Range(1, 5))
			if seen[a] {
				continue
			}
			seen[a] = true
			v.Relays = append(v.Relays, BaseRelayIn{Addr: a, Null: r.Chance(1, 6)})
		}
		for i, n := 0, r.Intn(4); i < n; i++ {
			p := ProposerIn{Null: r.Chance(1, 8), Reset: r.Chance(1, 4)}
			switch k := r.Intn(7); {
			case k < 3:
				p.Key = "accounts"
				for a := uint64(1); a <= 3; a++ {
					if r.Chance(1, 3) {
						p.Accounts = append(p.Accounts, a)
					}
				}
			case k < 6:
				p.Key = "validator"
				p.Validator = uint64(r.Range(1, 4))
			default:
				p.Key = "neither"
			}
			ps := map[uint64]bool{}
			for j, m := 0, r.Intn(4); j < m; j++ {
				a := uint64(r.Range(1, 6))
				if ps[a] {
					continue
				}
				ps[a] = true
				p.Relays = append(p.Relays, PRelayIn{Addr: a, Null: r.Chance(1, 6), Disabled: r.Chance(1, 3)})
			}
			v.Proposers = append(v.Proposers, p)
		}
		return DocIn{Kind: "v2", V2: v}
	}
}

func genConfig(r *Rand) []ConfigStep {
	n := r.Range(1, 3)
	steps := make([]ConfigStep, n)
	var lookups [][2]uint64
	for j, m := 0, r.Range(1, 4); j < m; j++ {
		lookups = append(lookups, [2]uint64{uint64(r.Range(1, 4)), uint64(r.Range(1, 5))})
	}
	for i := range steps {
		steps[i].Doc = genDoc(r)
		// mostly the same questions after every refresh, so that "previous configuration kept" shows
		steps[i].Lookups = lookups
		if r.Chance(1, 5) {
			steps[i].Lookups = append([][2]uint64{{uint64(r.Range(1, 4)), uint64(r.Range(1, 5))}}, lookups...)
		}
	}
	// family: a bare JSON value arrives as the whole document — first thing, or in the middle of a
	// history so that the configuration in force must survive it — and the service is then used.
	if r.Chance(1, 5) {
		at := r.Intn(len(steps) + 1)
		bare := ConfigStep{Doc: genBare(r), Lookups: lookups}
		steps = append(steps[:at], append([]ConfigStep{bare}, steps[at:]...)...)
	}
	// family: a configuration with relays is in force, then a refresh that must not change it (a bare
	// value, an unreadable source, a failing accounts provider, no accounts, malformed text), with the
	// same questions before and after.
	if r.Chance(1, 5) {
		good := &V2In{NullLists: r.Bool()}
		for a, n := uint64(1), uint64(r.Range(1, 3)); a <= n; a++ {
			good.Relays = append(good.Relays, BaseRelayIn{Addr: a})
		}
		if r.Bool() {
			good.Proposers = append(good.Proposers, ProposerIn{Key: "validator", Validator: lookups[0][1], Reset: r.Chance(1, 4),
				Relays: []PRelayIn{{Addr: uint64(r.Range(1, 6)), Disabled: r.Chance(1, 3)}}})
		}
		var keep DocIn
		switch k := r.Intn(6); {
		case k < 2:
			keep = genBare(r)
		case k < 5:
			keep = DocIn{Kind: "unavailable", Variant: r.Intn(3)}
		default:
			keep = DocIn{Kind: "malformed", Variant: r.Intn(len(malformedTexts))}
		}
		pre := []ConfigStep{{Doc: DocIn{Kind: "v2", V2: good}, Lookups: lookups}, {Doc: keep, Lookups: lookups}}
		steps = append(pre, steps[:len(steps)-1]...)
	}
	if r.Chance(1, 4) {
		steps[0].Source = "http"
	}
	for i := range steps {
		steps[i].Then = []string{"", "flip", "flip", "nil"}[r.Intn(4)]
		if d := steps[i].Doc; d.Kind == "unavailable" && d.Variant%3 == 0 && r.Chance(2, 3) {
			steps[i].Then = "flip" // the source fails, then serves a document: what a second attempt would get
		}
	}
	// family: a refresh whose source fails (and would serve another document if asked again), with a
	// configuration in force or without
	if r.Chance(1, 8) {
		at := r.Intn(len(steps) + 1)
		lks := [][2]uint64{{1, 1}}
		if len(steps) > 0 {
			lks = steps[0].Lookups
		}
		fails := ConfigStep{Doc: DocIn{Kind: "unavailable", Variant: 0}, Lookups: lks, Then: "flip"}
		steps = append(steps[:at], append([]ConfigStep{fails}, steps[at:]...)...)
		if at == 0 && len(steps) > 1 {
			steps[0].Source, steps[1].Source = steps[1].Source, ""
		}
	}
	return steps
}
