package c16

import (
	"context"
	"errors"
	"fmt"
	"strings"
	"testing"
	"time"

	eth2client "github.com/attestantio/go-eth2-client"
	"github.com/attestantio/go-eth2-client/api"
	apiv1 "github.com/attestantio/go-eth2-client/api/v1"
	"github.com/attestantio/go-eth2-client/spec"
	"github.com/attestantio/go-eth2-client/spec/altair"
	"github.com/attestantio/go-eth2-client/spec/bellatrix"
	"github.com/attestantio/go-eth2-client/spec/capella"
	"github.com/attestantio/go-eth2-client/spec/deneb"
	"github.com/attestantio/go-eth2-client/spec/phase0"
	"github.com/attestantio/vouch/mock"
	standardcache "github.com/attestantio/vouch/services/cache/standard"
	"github.com/attestantio/vouch/services/graffitiprovider/dynamic"
	nullmetrics "github.com/attestantio/vouch/services/metrics/null"
	"github.com/attestantio/vouch/services/submitter/multinode"
	"github.com/rs/zerolog"
	"github.com/wealdtech/go-majordomo"

	. "verifharness/common"
	"verifharness/mocks"
)

// =============================================================================================
// Path 6: cache head events.

type HeadIn struct {
	Kind      string `json:"kind"`               // nodata | fetcherr | block
	AtStart   bool   `json:"at_start,omitempty"` // the block is the one fetched by the constructor
	Version   uint64 `json:"version,omitempty"`
	Container bool   `json:"container,omitempty"`
	Message   bool   `json:"message,omitempty"`
	Body      bool   `json:"body,omitempty"`
	Payload   bool   `json:"payload,omitempty"`
	StateZero bool   `json:"state_zero,omitempty"`
	Exec      uint64 `json:"exec,omitempty"`
	Trace     bool   `json:"trace_log,omitempty"`
}

type headBlocks struct {
	in   *HeadIn
	live bool
}

func execHash(x uint64) phase0.Hash32 {
	var h phase0.Hash32
	h[0] = 0xee
	h[31] = byte(x)
	h[30] = byte(x >> 8)
	return h
}

func (b *headBlocks) SignedBeaconBlock(context.Context, *api.SignedBeaconBlockOpts) (*api.Response[*spec.VersionedSignedBeaconBlock], error) {
	if !b.live || b.in.Kind == "fetcherr" {
		return nil, errors.New("scripted block failure")
	}
	return &api.Response[*spec.VersionedSignedBeaconBlock]{Data: makeBlock(b.in), Metadata: map[string]any{}}, nil
}

// makeBlock builds the block of the shape given by the version and nil-ness fields of in.
func makeBlock(in *HeadIn) *spec.VersionedSignedBeaconBlock {
	blk := &spec.VersionedSignedBeaconBlock{Version: spec.DataVersion(in.Version)}
	state := phase0.Root{1}
	if in.StateZero {
		state = phase0.Root{}
	}
	switch spec.DataVersion(in.Version) {
	case spec.DataVersionPhase0:
		if in.Container {
			blk.Phase0 = &phase0.SignedBeaconBlock{}
		}
	case spec.DataVersionAltair:
		if in.Container {
			blk.Altair = &altair.SignedBeaconBlock{}
		}
	case spec.DataVersionBellatrix:
		if in.Container {
			blk.Bellatrix = &bellatrix.SignedBeaconBlock{}
			if in.Message {
				blk.Bellatrix.Message = &bellatrix.BeaconBlock{}
				if in.Body {
					blk.Bellatrix.Message.Body = &bellatrix.BeaconBlockBody{}
					if in.Payload {
						blk.Bellatrix.Message.Body.ExecutionPayload = &bellatrix.ExecutionPayload{StateRoot: state, BlockNumber: in.Exec, BlockHash: execHash(in.Exec)}
					}
				}
			}
		}
	case spec.DataVersionCapella:
		if in.Container {
			blk.Capella = &capella.SignedBeaconBlock{}
			if in.Message {
				blk.Capella.Message = &capella.BeaconBlock{}
				if in.Body {
					blk.Capella.Message.Body = &capella.BeaconBlockBody{}
					if in.Payload {
						blk.Capella.Message.Body.ExecutionPayload = &capella.ExecutionPayload{StateRoot: state, BlockNumber: in.Exec, BlockHash: execHash(in.Exec)}
					}
				}
			}
		}
	case spec.DataVersionDeneb:
		if in.Container {
			blk.Deneb = &deneb.SignedBeaconBlock{}
			if in.Message {
				blk.Deneb.Message = &deneb.BeaconBlock{}
				if in.Body {
					blk.Deneb.Message.Body = &deneb.BeaconBlockBody{}
					if in.Payload {
						blk.Deneb.Message.Body.ExecutionPayload = &deneb.ExecutionPayload{StateRoot: state, BlockNumber: in.Exec, BlockHash: execHash(in.Exec)}
					}
				}
			}
		}
	}
	return blk
}

// headTerm reads the execution head of the cache as an option term.
func headTerm(ctx context.Context, svc *standardcache.Service) (string, uint64) {
	hash, height := svc.ExecutionChainHead(ctx)
	switch {
	case hash == (phase0.Hash32{}) && height == 0:
		return None(), height
	case hash == execHash(height):
		return Some(N(height)), height
	}
	return Some(N(1 << 62)), height // an execution head nobody scripted
}

type noHeaders struct{}

func (noHeaders) BeaconBlockHeader(context.Context, *api.BeaconBlockHeaderOpts) (*api.Response[*apiv1.BeaconBlockHeader], error) {
	return nil, errors.New("not scripted")
}

func runHead(t *testing.T, in *HeadIn) result {
	ctx := context.Background()
	blocks := &headBlocks{in: in, live: in.AtStart && in.Kind == "block"}
	ev := mocks.NewEventsProvider()
	level := zerolog.Disabled
	if in.Trace {
		level = zerolog.TraceLevel
	}
	var svc *standardcache.Service
	var cerr error
	panicked, msg := catch(func() {
		svc, cerr = standardcache.New(ctx,
			standardcache.WithLogLevel(level),
			standardcache.WithMonitor(nullmetrics.New()),
			standardcache.WithChainTime(mocks.NewChainTime(32)),
			standardcache.WithScheduler(mocks.NewRecScheduler()),
			standardcache.WithEventsProvider(ev),
			standardcache.WithSignedBeaconBlockProvider(blocks),
			standardcache.WithBeaconBlockHeadersProvider(noHeaders{}),
		)
	})
	if !panicked {
		if cerr != nil {
			t.Fatalf("cache constructor: %v", cerr)
		}
		if !(in.AtStart && in.Kind == "block") {
			if len(ev.Handlers["head"]) != 1 {
				t.Fatalf("expected one head handler, got %d", len(ev.Handlers["head"]))
			}
			blocks.live = true
			event := &apiv1.Event{Topic: "head"}
			if in.Kind != "nodata" {
				event.Data = &apiv1.HeadEvent{Slot: 100, Block: phase0.Root{7}}
			}
			panicked, msg = catch(func() { ev.Handlers["head"][0](event) })
		}
	}
	res := result{obs: Observed{Panic: panicked, Message: msg}}
	if panicked {
		res.obsTerm = App("OHead", panicT)
	} else {
		term, height := headTerm(ctx, svc)
		res.obsTerm = App("OHead", okT(term))
		res.obs.Detail = map[string]any{"height": height}
	}
	switch in.Kind {
	case "nodata":
		res.inTerm = App("IHead", "HNoData")
		res.nontrivial = true
	case "fetcherr":
		res.inTerm = App("IHead", "HFetchErr")
		res.nontrivial = true
	default:
		res.inTerm = App("IHead", App("HBlock", Record("bk_version", N(in.Version), "bk_container", Bool(in.Container), "bk_message", Bool(in.Message),
			"bk_body", Bool(in.Body), "bk_payload", Bool(in.Payload), "bk_state_zero", Bool(in.StateZero), "bk_exec", N(in.Exec))))
		wf := !(in.Version >= 1 && in.Version <= 5) || (in.Container && in.Message && in.Body)
		if !wf {
			res.tags = append(res.tags, "outside-decoder-domain")
			res.counts = append(res.counts, "outside-decoder-domain")
		}
		if in.Version == 0 || in.Version > 5 || !in.Payload || in.StateZero || !wf {
			res.nontrivial = true
		}
		res.counts = append(res.counts, fmt.Sprintf("version:%d", in.Version))
	}
	res.counts = append(res.counts, "kind:"+in.Kind)
	return res
}

func genHead(r *Rand) *HeadIn {
	in := &HeadIn{Trace: r.Chance(1, 8)}
	switch k := r.Intn(12); {
	case k < 1:
		in.Kind = "nodata"
	case k < 2:
		in.Kind = "fetcherr"
	default:
		in.Kind = "block"
		in.AtStart = r.Chance(1, 4)
		in.Version = uint64(r.Range(1, 5))
		if r.Chance(1, 8) {
			in.Version = []uint64{0, 6, 7, 99}[r.Intn(4)]
		}
		in.Container, in.Message, in.Body = true, true, true
		if r.Chance(1, 4) {
			// what the decoders never deliver: a missing container, message or body
			switch r.Intn(3) {
			case 0:
				in.Container = false
			case 1:
				in.Message = false
			default:
				in.Body = false
			}
		}
		in.Payload = !r.Chance(1, 5)
		in.StateZero = r.Chance(1, 5)
		in.Exec = uint64(r.Range(1, 60000))
	}
	return in
}

// =============================================================================================
// Path 7: the error body of a node that rejects a sync committee submission.

type ErrBodyIn struct {
	Call     string   `json:"call"`                // messages | contributions
	Server   string   `json:"server"`              // lighthouse | teku | other
	Body     string   `json:"body"`                // nojson | badjson | failures
	Variant  int      `json:"variant"`             // which text of that kind
	Failures []string `json:"failures"`            // null | tolerated | real
	Omit     bool     `json:"omit,omitempty"`      // the failures list is absent (only with no failures)
	NullList bool     `json:"null_list,omitempty"` // the failures list is the JSON value null (only with no failures)
	// VersionErr: the node's version cannot be fetched (the server is then unknown to the classifier);
	// Then: what NodeVersion answers when asked again within the classification ("" | flip | nil)
	VersionErr bool   `json:"version_err,omitempty"`
	Then       string `json:"then,omitempty"`
	Trace      bool   `json:"trace_log,omitempty"`
}

type errNode struct {
	server string
	err    error
	verr   bool
	sc     *again
}

func (n *errNode) Name() string    { return "node" }
func (n *errNode) Address() string { return "http://node.c16.invalid" }
func (n *errNode) IsActive() bool  { return true }
func (n *errNode) IsSynced() bool  { return true }
func (n *errNode) NodeVersion(context.Context, *api.NodeVersionOpts) (*api.Response[string], error) {
	fail := n.verr
	switch _, then := n.sc.call("nodeversion"); then {
	case "flip":
		fail = !fail
	case "nil":
		return nil, nil
	}
	if fail {
		return nil, errors.New("scripted node version failure")
	}
	v := map[string]string{"lighthouse": "Lighthouse/v5.1.3-3058b96/x86_64-linux", "teku": "teku/v24.4.0/linux-x86_64/-eclipseadoptium-openjdk64bitservervm-java-17",
		"other": "Nimbus/v24.3.0-dc19b0-stateofus"}[n.server]
	return &api.Response[string]{Data: v, Metadata: map[string]any{}}, nil
}
func (n *errNode) SubmitSyncCommitteeMessages(context.Context, []*altair.SyncCommitteeMessage) error {
	return n.err
}
func (n *errNode) SubmitSyncCommitteeContributions(context.Context, []*altair.SignedContributionAndProof) error {
	return n.err
}

var _ eth2client.Service = (*errNode)(nil)

func errBodyText(in *ErrBodyIn) string {
	prefix := []string{"POST failed with status 400: ", "failed to submit: ", ""}[in.Variant%3]
	switch in.Body {
	case "nojson":
		return []string{"context deadline exceeded", "POST failed with status 503", "connection refused", "EOF", "POST failed with status 400: null", "POST failed with status 400: [null]"}[in.Variant%6]
	case "badjson":
		return prefix + []string{`{`, `{"code":400,"failures":"none"}`, `{"code":[],"failures":[]}`, `{"failures":[{"index":{},"message":"x"}]}`, `{"failures":{}}`, `{not json}`}[in.Variant%6]
	}
	tol, real := "Verification: PriorSyncCommitteeMessageKnown { validator_index: 5, slot: Slot(100) }", "Verification: InvalidSignature"
	if in.Call == "contributions" {
		tol = "Verification: AggregatorAlreadyKnown(5)"
	}
	code, idx := "400", func(i int) string { return fmt.Sprintf("%d", i) }
	if in.Server == "teku" {
		tol = "Ignoring sync committee message as a duplicate was processed during validation"
		real = "Rejecting sync committee message because the signature is invalid"
		code, idx = `"400"`, func(i int) string { return fmt.Sprintf(`"%d"`, i) }
	}
	if in.Omit && len(in.Failures) == 0 {
		return prefix + fmt.Sprintf(`{"code":%s,"message":"Service unavailable: syncing"}`, code)
	}
	if in.NullList && len(in.Failures) == 0 {
		return prefix + fmt.Sprintf(`{"code":%s,"message":"error processing","failures":null}`, code)
	}
	ents := make([]string, len(in.Failures))
	for i, f := range in.Failures {
		switch f {
		case "null":
			ents[i] = "null"
		case "tolerated":
			ents[i] = fmt.Sprintf(`{"index":%s,"message":%q}`, idx(i), tol)
		default:
			ents[i] = fmt.Sprintf(`{"index":%s,"message":%q}`, idx(i), real)
		}
	}
	return prefix + fmt.Sprintf(`{"code":%s,"message":"error processing","failures":[%s]}`, code, strings.Join(ents, ","))
}

func runErrBody(t *testing.T, in *ErrBodyIn) result {
	ctx := context.Background()
	level := zerolog.Disabled
	if in.Trace {
		level = zerolog.TraceLevel
	}
	svc, err := multinode.New(ctx,
		multinode.WithLogLevel(level),
		multinode.WithClientMonitor(nullmetrics.New()),
		multinode.WithProcessConcurrency(2),
		multinode.WithTimeout(time.Second),
		multinode.WithProposalSubmitters(map[string]eth2client.ProposalSubmitter{"a": mock.NewProposalSubmitter()}),
		multinode.WithAttestationsSubmitters(map[string]eth2client.AttestationsSubmitter{"a": mock.NewAttestationsSubmitter()}),
		multinode.WithAggregateAttestationsSubmitters(map[string]eth2client.AggregateAttestationsSubmitter{"a": mock.NewAggregateAttestationsSubmitter()}),
		multinode.WithProposalPreparationsSubmitters(map[string]eth2client.ProposalPreparationsSubmitter{"a": mock.NewProposalPreparationsSubmitter()}),
		multinode.WithBeaconCommitteeSubscriptionsSubmitters(map[string]eth2client.BeaconCommitteeSubscriptionsSubmitter{"a": mock.NewBeaconCommitteeSubscriptionsSubmitter()}),
		multinode.WithSyncCommitteeMessagesSubmitters(map[string]eth2client.SyncCommitteeMessagesSubmitter{"a": mock.NewSyncCommitteeMessagesSubmitter()}),
		multinode.WithSyncCommitteeSubscriptionsSubmitters(map[string]eth2client.SyncCommitteeSubscriptionsSubmitter{"a": mock.NewSyncCommitteeSubscriptionsSubmitter()}),
		multinode.WithSyncCommitteeContributionsSubmitters(map[string]eth2client.SyncCommitteeContributionsSubmitter{"a": mock.NewSyncCommitteeContributionsSubmitter()}),
	)
	if err != nil {
		t.Fatalf("multinode submitter constructor: %v", err)
	}
	text := errBodyText(in)
	node := &errNode{server: in.Server, err: errors.New(text), verr: in.VersionErr, sc: &again{then: in.Then}}
	var out error
	panicked, msg := catch(func() {
		if in.Call == "contributions" {
			out = svc.VerifC16HandleSyncCommitteeContributionsError(ctx, node, node.err)
		} else {
			out = svc.VerifC16HandleSyncCommitteeMessagesError(ctx, node, node.err)
		}
	})
	res := result{obs: Observed{Panic: panicked, Message: msg, Detail: map[string]any{"text": text, "accepted": out == nil}}}
	switch {
	case panicked:
		res.obsTerm = App("OErrBody", panicT)
	case out == nil:
		res.obsTerm = App("OErrBody", okT("tt"))
	default:
		res.obsTerm = App("OErrBody", errT("tt"))
	}
	server := map[string]string{"lighthouse": "SLighthouse", "teku": "STeku", "other": "SOther"}[in.Server]
	if in.Call == "contributions" && in.Server == "teku" {
		server = "SOther" // the contributions handler only knows Lighthouse bodies
	}
	if in.VersionErr {
		server = "SOther" // nobody knows what the node is
		res.counts = append(res.counts, "node-version-unavailable")
	}
	var body string
	switch in.Body {
	case "nojson":
		body = "BNoJson"
	case "badjson":
		body = "BBadJson"
	default:
		fs := make([]string, len(in.Failures))
		for i, f := range in.Failures {
			fs[i] = map[string]string{"null": "FNull", "tolerated": "FTolerated", "real": "FReal"}[f]
			if f != "tolerated" {
				res.nontrivial = true
			}
			res.counts = append(res.counts, "failure:"+f)
		}
		if len(fs) == 0 {
			res.nontrivial = true
			res.counts = append(res.counts, "no-failures")
			if in.NullList {
				res.counts = append(res.counts, "failures-list-null")
			}
		}
		body = App("BFailures", List(fs))
	}
	if in.Body != "failures" {
		res.nontrivial = true
	}
	res.inTerm = App("IErrBody", server, body)
	res.counts = append(res.counts, "body:"+in.Body, "server:"+in.Server, "call:"+in.Call)
	return res
}

func genErrBody(r *Rand) *ErrBodyIn {
	in := &ErrBodyIn{Variant: r.Intn(12), Trace: r.Chance(1, 6)}
	in.Call = []string{"messages", "messages", "contributions"}[r.Intn(3)]
	in.Server = []string{"lighthouse", "lighthouse", "teku", "teku", "other"}[r.Intn(5)]
	switch k := r.Intn(10); {
	case k < 1:
		in.Body = "nojson"
	case k < 2:
		in.Body = "badjson"
	default:
		in.Body = "failures"
		n := r.Intn(5)
		for i := 0; i < n; i++ {
			switch k := r.Intn(8); {
			case k < 5:
				in.Failures = append(in.Failures, "tolerated")
			case k < 6:
				in.Failures = append(in.Failures, "null")
			default:
				in.Failures = append(in.Failures, "real")
			}
		}
		in.Omit = n == 0 && r.Bool()
		in.NullList = n == 0 && !in.Omit && r.Bool()
	}
	in.VersionErr = r.Chance(1, 8)
	in.Then = []string{"", "flip", "flip", "nil"}[r.Intn(4)]
	return in
}

// =============================================================================================
// Path 8: the dynamic graffiti provider over file contents.

type FetchIn struct {
	Kind string `json:"kind"` // data | notfound | other
	Data []byte `json:"data,omitempty"`
}

type DynamicIn struct {
	Primary  FetchIn  `json:"primary"`
	Fallback *FetchIn `json:"fallback,omitempty"`
	Trace    bool     `json:"trace_log,omitempty"`
}

type files struct{ in *DynamicIn }

func (f files) Fetch(_ context.Context, key string) ([]byte, error) {
	src := f.in.Primary
	if key == "file:///fallback" {
		if f.in.Fallback == nil {
			return nil, errors.New("no fallback configured, yet asked for")
		}
		src = *f.in.Fallback
	}
	switch src.Kind {
	case "data":
		return append([]byte{}, src.Data...), nil
	case "notfound":
		return nil, fmt.Errorf("file missing: %w", majordomo.ErrNotFound)
	}
	return nil, errors.New("scripted fetch failure")
}

func fetchTerm(f FetchIn) string {
	switch f.Kind {
	case "data":
		return App("FData", bytesTerm(f.Data))
	case "notfound":
		return "FNotFound"
	}
	return "FOther"
}

func runDynamic(t *testing.T, in *DynamicIn) result {
	ctx := context.Background()
	level := zerolog.Disabled
	if in.Trace {
		level = zerolog.TraceLevel
	}
	params := []dynamic.Parameter{dynamic.WithLogLevel(level), dynamic.WithMajordomo(files{in}), dynamic.WithLocation("file:///graffiti")}
	if in.Fallback != nil {
		params = append(params, dynamic.WithFallbackLocation("file:///fallback"))
	}
	svc, err := dynamic.New(ctx, params...)
	if err != nil {
		t.Fatalf("dynamic graffiti constructor: %v", err)
	}
	var out []byte
	var gerr error
	panicked, msg := catch(func() { out, gerr = svc.Graffiti(ctx, 12345, 7) })
	res := result{obs: Observed{Panic: panicked, Message: msg, Detail: map[string]any{"graffiti": out, "error": gerr != nil}}}
	switch {
	case panicked:
		res.obsTerm = App("ODynamic", panicT)
	case gerr != nil:
		res.obsTerm = App("ODynamic", errT("GEFetch"))
	default:
		res.obsTerm = App("ODynamic", okT(bytesTerm(out)))
	}
	fb := None()
	if in.Fallback != nil {
		fb = Some(fetchTerm(*in.Fallback))
	}
	res.inTerm = App("IDynamic", fetchTerm(in.Primary), fb)
	res.counts = append(res.counts, "primary:"+in.Primary.Kind)
	if in.Primary.Kind != "data" {
		res.nontrivial = true
	} else {
		s := string(in.Primary.Data)
		switch {
		case len(s) == 0:
			res.counts = append(res.counts, "empty-file")
			res.nontrivial = true
		case strings.TrimSpace(s) == "":
			res.counts = append(res.counts, "blank-file")
			res.nontrivial = true
		case strings.Contains(s, "\r\n"):
			res.counts = append(res.counts, "crlf")
			res.nontrivial = true
		case strings.Contains(s, "\n\n"):
			res.counts = append(res.counts, "blank-lines")
			res.nontrivial = true
		}
	}
	return res
}

func genFile(r *Rand) []byte {
	switch r.Intn(8) {
	case 0:
		return []byte{}
	case 1:
		return []byte(strings.Repeat("\n", r.Range(1, 5)))
	case 2:
		return []byte(" \r\n\t\r\n ")
	}
	pieces := []string{"a", "vouch", "{{CLIENT}}", "line two", "\n", "\n", "\r\n", "\r", " ", "\t", "x y", "\n\n", "\r\n\r\n", "0123456789012345678901234567890123456789"}
	var b strings.Builder
	for i, n := 0, r.Range(1, 9); i < n; i++ {
		b.WriteString(pieces[r.Intn(len(pieces))])
	}
	return []byte(b.String())
}

func genFetch(r *Rand) FetchIn {
	switch k := r.Intn(8); {
	case k < 6:
		return FetchIn{Kind: "data", Data: genFile(r)}
	case k < 7:
		return FetchIn{Kind: "notfound"}
	}
	return FetchIn{Kind: "other"}
}

func genDynamic(r *Rand) *DynamicIn {
	in := &DynamicIn{Primary: genFetch(r), Trace: r.Chance(1, 8)}
	if r.Chance(1, 3) {
		f := genFetch(r)
		in.Fallback = &f
	}
	return in
}
