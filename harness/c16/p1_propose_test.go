package c16

import (
	"context"
	"errors"
	"fmt"
	"math/big"
	"sort"
	"strings"
	"sync"
	"testing"
	"testing/synctest"
	"time"

	"github.com/attestantio/go-block-relay/services/blockauctioneer"
	builderclient "github.com/attestantio/go-builder-client"
	builderapi "github.com/attestantio/go-builder-client/api"
	builderspec "github.com/attestantio/go-builder-client/spec"
	eth2client "github.com/attestantio/go-eth2-client"
	"github.com/attestantio/go-eth2-client/api"
	apiv1bellatrix "github.com/attestantio/go-eth2-client/api/v1/bellatrix"
	apiv1capella "github.com/attestantio/go-eth2-client/api/v1/capella"
	apiv1deneb "github.com/attestantio/go-eth2-client/api/v1/deneb"
	"github.com/attestantio/go-eth2-client/spec"
	"github.com/attestantio/go-eth2-client/spec/altair"
	"github.com/attestantio/go-eth2-client/spec/bellatrix"
	"github.com/attestantio/go-eth2-client/spec/capella"
	"github.com/attestantio/go-eth2-client/spec/deneb"
	"github.com/attestantio/go-eth2-client/spec/phase0"
	"github.com/attestantio/vouch/services/beaconblockproposer"
	standardproposer "github.com/attestantio/vouch/services/beaconblockproposer/standard"
	nullmetrics "github.com/attestantio/vouch/services/metrics/null"
	"github.com/google/uuid"
	"github.com/holiman/uint256"
	"github.com/prysmaticlabs/go-bitfield"
	"github.com/rs/zerolog"
	e2types "github.com/wealdtech/go-eth2-types/v2"
	e2wtypes "github.com/wealdtech/go-eth2-wallet-types/v2"

	. "verifharness/common"
	"verifharness/mocks"
)

// ---------------------------------------------------------------------------------------------
// Input.

type ProvIn struct {
	ID       uint64 `json:"id"`
	Unblinds bool   `json:"unblinds"`
}

type ProposalIn struct {
	Version uint64 `json:"version"` // spec.DataVersion: 0 unknown, 1 phase0 .. 5 deneb, 6+ not handled
	Blinded bool   `json:"blinded"`
	Present bool   `json:"present"`
	SlotOK  bool   `json:"slot_ok"`
}

type ProposeIn struct {
	Graffiti     string      `json:"graffiti"` // none | err | bytes
	GraffitiData []byte      `json:"graffiti_data,omitempty"`
	NodeClient   string      `json:"node_client,omitempty"` // "" / not (the proposal provider has no NodeClient) | err | name
	ClientName   []byte      `json:"client_name,omitempty"`
	Auction      string      `json:"auction"` // none | err | res
	Providers    []ProvIn    `json:"providers,omitempty"`
	AllProviders []ProvIn    `json:"all_providers,omitempty"`
	Proposal     *ProposalIn `json:"proposal"` // nil: the provider fails
	SignOK       bool        `json:"sign_ok"`
	UnblindAll   bool        `json:"unblind_all"`
	UnblindOK    bool        `json:"unblind_ok"`
	SubmitOK     bool        `json:"submit_ok"`
	// UnblindFailures: how many calls every relay first answers 503 (a failure proposeBlock's unblinding
	// loop retries, three calls in all) before it gives its final answer (the payload or 400).
	UnblindFailures int `json:"unblind_failures,omitempty"`
	// Then: what every other provider answers from its second call within the operation on
	// ("" the same again | flip: a failure becomes a success and a success a failure | nil: an
	// error-free answer that carries nothing).  The code asks each of them once per proposal.
	Then  string `json:"then,omitempty"`
	Trace bool   `json:"trace_log,omitempty"`
}

// again counts the calls of one provider method within a case and reports (from the second call on)
// what the script says about later calls.
type again struct {
	mu   sync.Mutex
	then string
	n    map[string]int
}

func (a *again) call(key string) (n int, then string) {
	a.mu.Lock()
	defer a.mu.Unlock()
	if a.n == nil {
		a.n = map[string]int{}
	}
	a.n[key]++
	if a.n[key] > 1 {
		return a.n[key], a.then
	}
	return 1, ""
}

// ---------------------------------------------------------------------------------------------
// Mocks.

const proposeSlot = 12345

type p1log struct {
	mu        sync.Mutex
	graffiti  []byte
	signed    bool
	unblind   []uint64
	submitted bool
}

type p1account struct{}

type p1pubkey struct{}

func (p1pubkey) Marshal() []byte               { b := make([]byte, 48); b[0] = 0xaa; return b }
func (p1pubkey) Aggregate(e2types.PublicKey)   {}
func (k p1pubkey) Copy() e2types.PublicKey     { return k }
func (p1account) ID() uuid.UUID                { return uuid.UUID{1} }
func (p1account) Name() string                 { return "proposer" }
func (p1account) PublicKey() e2types.PublicKey { return p1pubkey{} }

var _ e2wtypes.Account = p1account{}

type p1relay struct {
	id  uint64
	in  *ProposeIn
	log *p1log
	// first is the id of the relay that returns the payload when UnblindOK
	first func() uint64
	sc    *again
}

func (r *p1relay) Name() string              { return fmt.Sprintf("relay-%d", r.id) }
func (r *p1relay) Address() string           { return fmt.Sprintf("http://relay-%d.c16.invalid", r.id) }
func (r *p1relay) Pubkey() *phase0.BLSPubKey { return nil }
func (r *p1relay) BuilderBid(context.Context, *builderapi.BuilderBidOpts) (*builderapi.Response[*builderspec.VersionedSignedBuilderBid], error) {
	return nil, errors.New("not scripted")
}

type p1unblinder struct{ *p1relay }

func (r p1unblinder) UnblindProposal(ctx context.Context, opts *builderapi.UnblindProposalOpts) (*builderapi.Response[*api.VersionedSignedProposal], error) {
	r.log.mu.Lock()
	already := false
	for _, x := range r.log.unblind {
		if x == r.id {
			already = true
		}
	}
	if !already {
		r.log.unblind = append(r.log.unblind, r.id)
	}
	r.log.mu.Unlock()
	if err := ctx.Err(); err != nil {
		return nil, err
	}
	if n, _ := r.sc.call(fmt.Sprintf("unblind-%d", r.id)); n <= r.in.UnblindFailures {
		return nil, errors.New("POST failed with status 503: scripted transient failure")
	}
	if r.in.UnblindOK && r.first() == r.id {
		res := &api.VersionedSignedProposal{Version: opts.Proposal.Version}
		switch opts.Proposal.Version {
		case spec.DataVersionBellatrix:
			res.Bellatrix = &bellatrix.SignedBeaconBlock{}
		case spec.DataVersionCapella:
			res.Capella = &capella.SignedBeaconBlock{}
		case spec.DataVersionDeneb:
			res.Deneb = &apiv1deneb.SignedBlockContents{}
		}
		return &builderapi.Response[*api.VersionedSignedProposal]{Data: res, Metadata: map[string]any{}}, nil
	}
	return nil, errors.New("POST failed with status 400: scripted")
}

var _ builderclient.UnblindedProposalProvider = p1unblinder{}

type p1env struct {
	in  *ProposeIn
	log *p1log
	res *blockauctioneer.Results
	sc  *again
}

func (e *p1env) Graffiti(context.Context, phase0.Slot, phase0.ValidatorIndex) ([]byte, error) {
	fail := e.in.Graffiti == "err"
	switch _, then := e.sc.call("graffiti"); then {
	case "flip":
		fail = !fail
	case "nil":
		return nil, nil
	}
	if fail {
		return nil, errors.New("scripted graffiti failure")
	}
	return append([]byte{}, e.in.GraffitiData...), nil
}

func (e *p1env) AuctionBlock(context.Context, phase0.Slot, phase0.Hash32, phase0.BLSPubKey) (*blockauctioneer.Results, error) {
	fail := e.in.Auction == "err"
	switch _, then := e.sc.call("auction"); then {
	case "flip":
		fail = !fail
	case "nil":
		return nil, nil
	}
	if fail {
		return nil, errors.New("scripted auction failure")
	}
	if e.res == nil {
		return &blockauctioneer.Results{Participation: map[string]*blockauctioneer.Participation{}}, nil
	}
	return e.res, nil
}

func (e *p1env) ExecutionChainHead(context.Context) (phase0.Hash32, uint64) {
	return phase0.Hash32{1}, 7
}

func (e *p1env) ValidatingAccountsForEpoch(context.Context, phase0.Epoch) (map[phase0.ValidatorIndex]e2wtypes.Account, error) {
	return map[phase0.ValidatorIndex]e2wtypes.Account{1: p1account{}}, nil
}
func (e *p1env) ValidatingAccountsForEpochByIndex(context.Context, phase0.Epoch, []phase0.ValidatorIndex) (map[phase0.ValidatorIndex]e2wtypes.Account, error) {
	return map[phase0.ValidatorIndex]e2wtypes.Account{1: p1account{}}, nil
}

func (e *p1env) SignRANDAOReveal(context.Context, e2wtypes.Account, phase0.Slot) (phase0.BLSSignature, error) {
	return phase0.BLSSignature{1}, nil
}
func (e *p1env) SignBeaconBlockProposal(context.Context, e2wtypes.Account, phase0.Slot, phase0.ValidatorIndex, phase0.Root, phase0.Root, phase0.Root) (phase0.BLSSignature, error) {
	ok := e.in.SignOK
	if _, then := e.sc.call("sign"); then != "" {
		ok = !ok
	}
	if !ok {
		return phase0.BLSSignature{}, errors.New("scripted signing failure")
	}
	e.log.mu.Lock()
	e.log.signed = true
	e.log.mu.Unlock()
	return phase0.BLSSignature{2}, nil
}
func (e *p1env) SignBlobSidecar(context.Context, e2wtypes.Account, phase0.Slot, phase0.Root) (phase0.BLSSignature, error) {
	return phase0.BLSSignature{3}, nil
}
func (e *p1env) SyncCommitteeAccountsForEpoch(context.Context, phase0.Epoch) (map[phase0.ValidatorIndex]e2wtypes.Account, error) {
	return nil, errors.New("not scripted")
}
func (e *p1env) SyncCommitteeAccountsForEpochByIndex(context.Context, phase0.Epoch, []phase0.ValidatorIndex) (map[phase0.ValidatorIndex]e2wtypes.Account, error) {
	return nil, errors.New("not scripted")
}

func (e *p1env) SubmitProposal(context.Context, *api.VersionedSignedProposal) error {
	e.log.mu.Lock()
	e.log.submitted = true
	e.log.mu.Unlock()
	ok := e.in.SubmitOK
	if _, then := e.sc.call("submit"); then != "" {
		ok = !ok
	}
	if !ok {
		return errors.New("scripted submission failure")
	}
	return nil
}

func eth1() *phase0.ETH1Data { return &phase0.ETH1Data{BlockHash: make([]byte, 32)} }

func syncAgg() *altair.SyncAggregate {
	return &altair.SyncAggregate{SyncCommitteeBits: bitfield.NewBitvector512()}
}

// makeProposal builds what the decoders would deliver for (version, blinded), or leaves the
// container nil when !present.
func makeProposal(p *ProposalIn, opts *api.ProposalOpts) *api.VersionedProposal {
	slot := opts.Slot
	if !p.SlotOK {
		slot++
	}
	v := &api.VersionedProposal{Version: spec.DataVersion(p.Version), Blinded: p.Blinded,
		ConsensusValue: big.NewInt(1), ExecutionValue: big.NewInt(2)}
	if !p.Present {
		return v
	}
	switch spec.DataVersion(p.Version) {
	case spec.DataVersionPhase0:
		v.Phase0 = &phase0.BeaconBlock{Slot: slot, Body: &phase0.BeaconBlockBody{RANDAOReveal: opts.RandaoReveal, ETH1Data: eth1(), Graffiti: opts.Graffiti}}
	case spec.DataVersionAltair:
		v.Altair = &altair.BeaconBlock{Slot: slot, Body: &altair.BeaconBlockBody{RANDAOReveal: opts.RandaoReveal, ETH1Data: eth1(), Graffiti: opts.Graffiti, SyncAggregate: syncAgg()}}
	case spec.DataVersionBellatrix:
		if p.Blinded {
			v.BellatrixBlinded = &apiv1bellatrix.BlindedBeaconBlock{Slot: slot, Body: &apiv1bellatrix.BlindedBeaconBlockBody{
				RANDAOReveal: opts.RandaoReveal, ETH1Data: eth1(), Graffiti: opts.Graffiti, SyncAggregate: syncAgg(),
				ExecutionPayloadHeader: &bellatrix.ExecutionPayloadHeader{FeeRecipient: bellatrix.ExecutionAddress{1}}}}
		} else {
			v.Bellatrix = &bellatrix.BeaconBlock{Slot: slot, Body: &bellatrix.BeaconBlockBody{
				RANDAOReveal: opts.RandaoReveal, ETH1Data: eth1(), Graffiti: opts.Graffiti, SyncAggregate: syncAgg(),
				ExecutionPayload: &bellatrix.ExecutionPayload{FeeRecipient: bellatrix.ExecutionAddress{1}}}}
		}
	case spec.DataVersionCapella:
		if p.Blinded {
			v.CapellaBlinded = &apiv1capella.BlindedBeaconBlock{Slot: slot, Body: &apiv1capella.BlindedBeaconBlockBody{
				RANDAOReveal: opts.RandaoReveal, ETH1Data: eth1(), Graffiti: opts.Graffiti, SyncAggregate: syncAgg(),
				ExecutionPayloadHeader: &capella.ExecutionPayloadHeader{FeeRecipient: bellatrix.ExecutionAddress{1}}}}
		} else {
			v.Capella = &capella.BeaconBlock{Slot: slot, Body: &capella.BeaconBlockBody{
				RANDAOReveal: opts.RandaoReveal, ETH1Data: eth1(), Graffiti: opts.Graffiti, SyncAggregate: syncAgg(),
				ExecutionPayload: &capella.ExecutionPayload{FeeRecipient: bellatrix.ExecutionAddress{1}}}}
		}
	case spec.DataVersionDeneb:
		if p.Blinded {
			v.DenebBlinded = &apiv1deneb.BlindedBeaconBlock{Slot: slot, Body: &apiv1deneb.BlindedBeaconBlockBody{
				RANDAOReveal: opts.RandaoReveal, ETH1Data: eth1(), Graffiti: opts.Graffiti, SyncAggregate: syncAgg(),
				ExecutionPayloadHeader: &deneb.ExecutionPayloadHeader{FeeRecipient: bellatrix.ExecutionAddress{1}, BaseFeePerGas: uint256.NewInt(1)}}}
		} else {
			v.Deneb = &apiv1deneb.BlockContents{Block: &deneb.BeaconBlock{Slot: slot, Body: &deneb.BeaconBlockBody{
				RANDAOReveal: opts.RandaoReveal, ETH1Data: eth1(), Graffiti: opts.Graffiti, SyncAggregate: syncAgg(),
				ExecutionPayload: &deneb.ExecutionPayload{FeeRecipient: bellatrix.ExecutionAddress{1}, BaseFeePerGas: uint256.NewInt(1)}}}}
		}
	}
	return v
}

func (e *p1env) Proposal(_ context.Context, opts *api.ProposalOpts) (*api.Response[*api.VersionedProposal], error) {
	e.log.mu.Lock()
	e.log.graffiti = append([]byte{}, opts.Graffiti[:]...)
	e.log.mu.Unlock()
	p := e.in.Proposal
	switch _, then := e.sc.call("proposal"); then {
	case "flip":
		if p == nil {
			p = &ProposalIn{Version: 5, Present: true, SlotOK: true}
		} else {
			p = nil
		}
	case "nil":
		return &api.Response[*api.VersionedProposal]{Metadata: map[string]any{}}, nil
	}
	if p == nil {
		return nil, errors.New("scripted proposal failure")
	}
	return &api.Response[*api.VersionedProposal]{Data: makeProposal(p, opts), Metadata: map[string]any{}}, nil
}

// p1named is the proposal provider as a single beacon node that can be asked for its client.
type p1named struct{ *p1env }

func (e p1named) NodeClient(context.Context) (*api.Response[string], error) {
	fail := e.in.NodeClient == "err"
	switch _, then := e.sc.call("nodeclient"); then {
	case "flip":
		fail = !fail
	case "nil":
		return nil, nil
	}
	if fail {
		return nil, errors.New("scripted node client failure")
	}
	return &api.Response[string]{Data: string(e.in.ClientName), Metadata: map[string]any{}}, nil
}

// ---------------------------------------------------------------------------------------------
// Running.

func proposalProvider(env *p1env) eth2client.ProposalProvider {
	if env.in.NodeClient == "err" || env.in.NodeClient == "name" {
		return p1named{env}
	}
	return env
}

// runProposeOps runs the proposals one after the other on ONE proposer service (built from the first
// input: which collaborators exist is decided at construction); before each proposal the mocks are
// switched to that proposal's input, a fresh log and fresh call counters.  It stops at the first panic.
func runProposeOps(t *testing.T, ops []*ProposeIn) (panics []bool, msgs []string, logs []*p1log) {
	synctest.Test(t, func(t *testing.T) {
		base := ops[0]
		env := &p1env{in: base, log: &p1log{}, sc: &again{}}
		level := zerolog.Disabled
		if base.Trace {
			level = zerolog.TraceLevel
		}
		params := []standardproposer.Parameter{
			standardproposer.WithLogLevel(level),
			standardproposer.WithMonitor(nullmetrics.New()),
			standardproposer.WithChainTime(mocks.NewChainTime(32)),
			standardproposer.WithProposalDataProvider(proposalProvider(env)),
			standardproposer.WithValidatingAccountsProvider(env),
			standardproposer.WithExecutionChainHeadProvider(env),
			standardproposer.WithProposalSubmitter(env),
			standardproposer.WithRANDAORevealSigner(env),
			standardproposer.WithBeaconBlockSigner(env),
			standardproposer.WithBlobSidecarSigner(env),
			standardproposer.WithUnblindFromAllRelays(base.UnblindAll),
			standardproposer.WithBuilderBoostFactor(100),
		}
		if base.Graffiti != "none" {
			params = append(params, standardproposer.WithGraffitiProvider(env))
		}
		if base.Auction != "none" {
			params = append(params, standardproposer.WithBlockAuctioneer(env))
		}
		svc, err := standardproposer.New(context.Background(), params...)
		if err != nil {
			t.Fatalf("proposer constructor: %v", err)
		}
		for k, in := range ops {
			lg := &p1log{}
			sc := &again{then: in.Then}
			env.in, env.log, env.sc, env.res = in, lg, sc, nil
			// The relay that returns the payload: the first unblinding relay of the selection the
			// code should make (providers, or all providers when there are none / unblind-all).
			first := func() uint64 {
				cands := in.Providers
				if len(cands) == 0 || in.UnblindAll {
					cands = in.AllProviders
				}
				for _, p := range cands {
					if p.Unblinds {
						return p.ID
					}
				}
				return ^uint64(0)
			}
			mk := func(ps []ProvIn) []builderclient.BuilderBidProvider {
				out := make([]builderclient.BuilderBidProvider, 0, len(ps))
				for _, p := range ps {
					r := &p1relay{id: p.ID, in: in, log: lg, first: first, sc: sc}
					if p.Unblinds {
						out = append(out, p1unblinder{r})
					} else {
						out = append(out, r)
					}
				}
				return out
			}
			if in.Auction == "res" {
				env.res = &blockauctioneer.Results{Providers: mk(in.Providers), AllProviders: mk(in.AllProviders),
					Participation: map[string]*blockauctioneer.Participation{}}
			}
			ctx, cancel := context.WithTimeout(context.Background(), 4*time.Second)
			duty := beaconblockproposer.NewDuty(proposeSlot+phase0.Slot(k), 1)
			duty.SetAccount(p1account{})
			duty.SetRandaoReveal(phase0.BLSSignature{1})
			panicked, msg := catch(func() { svc.Propose(ctx, duty) })
			cancel()
			synctest.Wait()
			panics, msgs, logs = append(panics, panicked), append(msgs, msg), append(logs, lg)
			if panicked {
				break
			}
		}
	})
	return panics, msgs, logs
}

func runPropose(t *testing.T, in *ProposeIn) result {
	panics, msgs, logs := runProposeOps(t, []*ProposeIn{in})
	res, rec, tr := proposeResult(in, logs[0], panics[0], msgs[0])
	res.inTerm = App("IPropose", rec)
	res.obsTerm = App("OPropose", Bool(panics[0]), tr)
	return res
}

// proposeResult: the input record and the observed trace of one proposal as terms, with its counters.
func proposeResult(in *ProposeIn, lg *p1log, panicked bool, msg string) (result, string, string) {
	lg.mu.Lock()
	defer lg.mu.Unlock()
	graffiti := lg.graffiti
	if graffiti == nil {
		graffiti = []byte{}
	}
	unb := append([]uint64{}, lg.unblind...)
	sort.Slice(unb, func(i, j int) bool { return unb[i] < unb[j] })

	// input term
	provs := func(ps []ProvIn) string {
		items := make([]string, len(ps))
		for i, p := range ps {
			items[i] = Record("pv_id", N(p.ID), "pv_unblinds", Bool(p.Unblinds))
		}
		return List(items)
	}
	var g string
	switch in.Graffiti {
	case "none":
		g = "GNoProvider"
	case "err":
		g = "GErr"
	default:
		g = App("GBytes", bytesTerm(in.GraffitiData))
	}
	var a string
	switch in.Auction {
	case "none":
		a = "ANoAuctioneer"
	case "err":
		a = "AErr"
	default:
		a = App("ARes", Record("au_providers", provs(in.Providers), "au_all", provs(in.AllProviders)))
	}
	p := None()
	if in.Proposal != nil {
		p = Some(Record("pr_version", N(in.Proposal.Version), "pr_blinded", Bool(in.Proposal.Blinded),
			"pr_present", Bool(in.Proposal.Present), "pr_slot_ok", Bool(in.Proposal.SlotOK)))
	}
	nc := "NCNot"
	switch in.NodeClient {
	case "err":
		nc = "NCErr"
	case "name":
		nc = App("NCName", bytesTerm(in.ClientName))
	}
	rec := Record("p1_graffiti", g, "p1_node_client", nc, "p1_auction", a, "p1_proposal", p, "p1_sign_ok", Bool(in.SignOK),
		"p1_unblind_all", Bool(in.UnblindAll), "p1_unblind_ok", Bool(in.UnblindOK && in.UnblindFailures < 3), "p1_submit_ok", Bool(in.SubmitOK))
	tr := Record("t_graffiti", bytesTerm(graffiti), "t_signed", Bool(lg.signed),
		"t_unblind", nlist(unb), "t_submitted", Bool(lg.submitted))

	res := result{
		obs: Observed{Panic: panicked, Message: msg, Detail: map[string]any{"graffiti": graffiti, "signed": lg.signed, "unblind": unb, "submitted": lg.submitted}}}
	blinded := in.Proposal != nil && in.Proposal.Blinded
	if in.Proposal != nil && in.Proposal.Version == 5 && !in.Proposal.Blinded && !in.Proposal.Present {
		// an unblinded Deneb proposal with nil contents: the library's own accessor panics on it
		res.tags = append(res.tags, "outside-decoder-domain")
		res.counts = append(res.counts, "outside-decoder-domain")
		res.nontrivial = true
	}
	if blinded && in.Auction != "res" {
		res.counts = append(res.counts, "blinded-without-auction-result")
		res.nontrivial = true
	}
	if blinded && in.Auction == "res" {
		res.counts = append(res.counts, "blinded-with-auction-result")
		res.nontrivial = true
		cands := in.Providers
		if len(cands) == 0 || in.UnblindAll {
			cands = in.AllProviders
		}
		can := 0
		for _, p := range cands {
			if p.Unblinds {
				can++
			}
		}
		if len(cands) > 0 && can == 0 {
			res.counts = append(res.counts, "selected-relays-cannot-unblind")
		}
	}
	if in.Proposal == nil {
		res.counts = append(res.counts, "proposal-error")
	} else {
		res.counts = append(res.counts, fmt.Sprintf("version:%d", in.Proposal.Version))
		if !in.Proposal.Present {
			res.counts = append(res.counts, "data-missing")
		}
	}
	res.counts = append(res.counts, "graffiti:"+in.Graffiti, "auction:"+in.Auction)
	if in.Then != "" {
		res.counts = append(res.counts, "later-calls:"+in.Then)
	}
	if blinded && in.Auction == "res" && in.UnblindFailures > 0 {
		res.counts = append(res.counts, fmt.Sprintf("relay-fails-%d-times-first", in.UnblindFailures))
	}
	if in.Graffiti == "bytes" && strings.Contains(string(in.GraffitiData), "{{CLIENT}}") {
		res.counts = append(res.counts, "client-template:node-client-"+map[string]string{"": "not", "not": "not", "err": "err", "name": "name"}[in.NodeClient])
		if in.NodeClient == "name" {
			res.nontrivial = true
		}
	}
	return res, rec, tr
}

// ---------------------------------------------------------------------------------------------
// Generator.

func genProvs(r *Rand, n int, base uint64) []ProvIn {
	out := make([]ProvIn, 0, n)
	for i := 0; i < n; i++ {
		out = append(out, ProvIn{ID: base + uint64(i), Unblinds: !r.Chance(1, 4)})
	}
	return out
}

func genPropose(r *Rand) *ProposeIn {
	in := &ProposeIn{SignOK: !r.Chance(1, 10), UnblindAll: r.Chance(1, 3), UnblindOK: !r.Chance(1, 4), SubmitOK: !r.Chance(1, 8)}
	switch r.Intn(5) {
	case 0:
		in.Graffiti = "none"
	case 1:
		in.Graffiti = "err"
	default:
		in.Graffiti = "bytes"
		n := []int{0, 1, 10, 31, 32, 33, 64}[r.Intn(7)]
		in.GraffitiData = make([]byte, n)
		for i := range in.GraffitiData {
			in.GraffitiData[i] = byte(r.Range(32, 126))
		}
		if n >= 10 && r.Bool() {
			copy(in.GraffitiData[r.Intn(n-9):], "{{CLIENT}}")
		}
	}
	switch r.Intn(4) {
	case 0:
		in.NodeClient = "not"
	case 1:
		in.NodeClient = "err"
	default:
		in.NodeClient = "name"
		in.ClientName = []byte(clientNames[r.Intn(len(clientNames))])
	}
	switch r.Intn(4) {
	case 0:
		in.Auction = "none"
	case 1:
		in.Auction = "err"
	default:
		in.Auction = "res"
		all := genProvs(r, r.Intn(4), 1)
		in.AllProviders = all
		// the winning providers are a subset of all providers
		for _, p := range all {
			if r.Chance(1, 2) {
				in.Providers = append(in.Providers, p)
			}
		}
		// family: none of the winning relays can unblind although other relays can
		if len(in.Providers) > 0 && len(in.Providers) < len(all) && r.Chance(1, 3) {
			win := map[uint64]bool{}
			for i := range in.Providers {
				in.Providers[i].Unblinds = false
				win[in.Providers[i].ID] = true
			}
			for i := range all {
				all[i].Unblinds = !win[all[i].ID]
			}
		}
	}
	if !r.Chance(1, 12) {
		p := &ProposalIn{Version: uint64(r.Range(1, 5)), Blinded: r.Chance(3, 5), Present: !r.Chance(1, 6), SlotOK: !r.Chance(1, 10)}
		if r.Chance(1, 10) {
			p.Version = []uint64{0, 6, 9}[r.Intn(3)]
		}
		in.Proposal = p
	}
	in.Trace = r.Chance(1, 8)
	// what the providers answer when asked again, and relays that fail before they answer
	in.Then = []string{"", "flip", "flip", "nil"}[r.Intn(4)]
	if r.Chance(1, 2) {
		in.UnblindFailures = r.Range(1, 4)
	}
	return in
}
