package c16

import (
	"context"
	"errors"
	"fmt"
	"sync"
	"testing"
	"testing/synctest"
	"time"

	eth2client "github.com/attestantio/go-eth2-client"
	"github.com/attestantio/go-eth2-client/api"
	"github.com/attestantio/go-eth2-client/spec/phase0"
	"github.com/attestantio/vouch/mock"
	nullmetrics "github.com/attestantio/vouch/services/metrics/null"
	propbest "github.com/attestantio/vouch/strategies/beaconblockproposal/best"
	"github.com/rs/zerolog"

	. "verifharness/common"
	"verifharness/mocks"
)

// GraffitiIn: the 32 graffiti bytes of the proposal options, and the beacon nodes of the strategy.
type NodeIn struct {
	Kind string `json:"kind"` // not (no NodeClient method) | err | name
	Name []byte `json:"name,omitempty"`
}

type GraffitiIn struct {
	Graffiti []byte   `json:"graffiti"` // at most 32 bytes; padded with zeroes to 32
	Nodes    []NodeIn `json:"nodes"`
	// Then: what a node answers when its NodeClient is asked again within the operation
	// ("" the same | flip | nil: an error-free answer that carries nothing); the code asks once.
	Then  string `json:"then,omitempty"`
	Trace bool   `json:"trace_log,omitempty"`
}

type p3log struct {
	mu    sync.Mutex
	order []int          // nodes in the order their NodeClient was called
	sent  map[int][]byte // graffiti each node's Proposal request carried
}

type p3node struct {
	idx int
	in  NodeIn
	log *p3log
	sc  *again
}

func (n *p3node) Proposal(_ context.Context, opts *api.ProposalOpts) (*api.Response[*api.VersionedProposal], error) {
	n.log.mu.Lock()
	n.log.sent[n.idx] = append([]byte{}, opts.Graffiti[:]...)
	n.log.mu.Unlock()
	return nil, errors.New("scripted proposal failure")
}

type p3named struct{ *p3node }

func (n p3named) NodeClient(context.Context) (*api.Response[string], error) {
	fail := n.in.Kind == "err"
	calls, then := n.sc.call(fmt.Sprintf("nodeclient-%d", n.idx))
	if calls == 1 {
		n.log.mu.Lock()
		n.log.order = append(n.log.order, n.idx)
		n.log.mu.Unlock()
	}
	switch then {
	case "flip":
		fail = !fail
	case "nil":
		return nil, nil
	}
	if fail {
		return nil, errors.New("scripted node client failure")
	}
	return &api.Response[string]{Data: string(n.in.Name), Metadata: map[string]any{}}, nil
}

type p3cache struct{}

func (p3cache) BlockRootToSlot(context.Context, phase0.Root) (phase0.Slot, error) {
	return 0, errors.New("unknown root")
}

func nodeTerm(n NodeIn) string {
	switch n.Kind {
	case "not":
		return "NCNot"
	case "err":
		return "NCErr"
	}
	return App("NCName", bytesTerm(n.Name))
}

func runGraffiti(t *testing.T, in *GraffitiIn) result {
	lg := &p3log{sent: map[int][]byte{}}
	var g [32]byte
	copy(g[:], in.Graffiti)
	var panicked bool
	var msg string
	synctest.Test(t, func(t *testing.T) {
		ctx, cancel := context.WithCancel(context.Background())
		defer cancel()
		provs := map[string]eth2client.ProposalProvider{}
		sc := &again{then: in.Then}
		for i, n := range in.Nodes {
			node := &p3node{idx: i, in: n, log: lg, sc: sc}
			if n.Kind == "not" {
				provs[fmt.Sprintf("node-%d", i)] = node
			} else {
				provs[fmt.Sprintf("node-%d", i)] = p3named{node}
			}
		}
		level := zerolog.Disabled
		if in.Trace {
			level = zerolog.TraceLevel
		}
		svc, err := propbest.New(ctx, propbest.WithLogLevel(level), propbest.WithClientMonitor(nullmetrics.New()), propbest.WithProcessConcurrency(2),
			propbest.WithTimeout(2*time.Second), propbest.WithProposalProviders(provs), propbest.WithChainTimeService(mocks.NewChainTime(32)),
			propbest.WithBlockRootToSlotCache(p3cache{}), propbest.WithEventsProvider(mocks.NewEventsProvider()),
			propbest.WithSpecProvider(mock.NewSpecProvider()), propbest.WithSignedBeaconBlockProvider(mock.NewErroringSignedBeaconBlockProvider()))
		if err != nil {
			t.Fatalf("best proposal strategy constructor: %v", err)
		}
		panicked, msg = catch(func() {
			_, _ = svc.Proposal(ctx, &api.ProposalOpts{Slot: 12345, RandaoReveal: phase0.BLSSignature{1}, Graffiti: g})
		})
		cancel()
		synctest.Wait()
	})

	// The model takes the nodes in iteration order.  The nodes whose NodeClient was called are
	// known in order; a node that was not called either cannot be called (kind "not") or came
	// when the template was gone.  Order reconstruction: called nodes first in call order is only
	// right if no uncalled node came in between with a different view of the graffiti, so the
	// position of every uncalled node is recovered from the graffiti it was sent: it is placed
	// after the last called node whose output equals what it received (the template never comes
	// back once it is gone, and an untouched graffiti is what precedes every rewrite).
	lg.mu.Lock()
	defer lg.mu.Unlock()
	type slot struct {
		idx  int
		sent []byte
	}
	order := make([]int, 0, len(in.Nodes))
	called := map[int]bool{}
	for _, i := range lg.order {
		called[i] = true
	}
	// graffiti after each called node, in call order
	uncalled := []int{}
	for i := range in.Nodes {
		if !called[i] {
			uncalled = append(uncalled, i)
		}
	}
	placed := map[int]bool{}
	cur := append([]byte{}, g[:]...)
	// uncalled nodes that saw the initial graffiti come first
	for _, u := range uncalled {
		if s, ok := lg.sent[u]; ok && string(s) == string(cur) && !placed[u] {
			order = append(order, u)
			placed[u] = true
		}
	}
	for _, c := range lg.order {
		order = append(order, c)
		if s, ok := lg.sent[c]; ok {
			if string(s) != string(cur) {
				cur = s
				for _, u := range uncalled {
					if s2, ok := lg.sent[u]; ok && string(s2) == string(cur) && !placed[u] {
						order = append(order, u)
						placed[u] = true
					}
				}
			}
		}
	}
	for _, u := range uncalled {
		if !placed[u] {
			order = append(order, u)
		}
	}

	nodes := make([]string, len(order))
	sent := make([]string, 0, len(order))
	sentJSON := make([][]byte, 0, len(order))
	complete := true
	for k, i := range order {
		nodes[k] = nodeTerm(in.Nodes[i])
		s, ok := lg.sent[i]
		if !ok {
			complete = false
			continue
		}
		sent = append(sent, bytesTerm(s))
		sentJSON = append(sentJSON, s)
	}
	res := result{inTerm: App("IGraffiti", bytesTerm(g[:]), List(nodes))}
	switch {
	case panicked:
		res.obsTerm = App("OGraffiti", panicT)
	case !complete:
		res.obsTerm = App("OGraffiti", errT("tt")) // a node was not asked: never predicted
	default:
		res.obsTerm = App("OGraffiti", okT(List(sent)))
	}
	res.obs = Observed{Panic: panicked, Message: msg, Detail: map[string]any{"order": order, "sent": sentJSON}}
	hasT := false
	for i := 0; i+10 <= len(g); i++ {
		if string(g[i:i+10]) == "{{CLIENT}}" {
			hasT = true
		}
	}
	if hasT {
		res.counts = append(res.counts, "template")
		for _, n := range in.Nodes {
			if n.Kind == "name" {
				res.nontrivial = true
				switch {
				case len(n.Name) < 10:
					res.counts = append(res.counts, "name-shorter-than-template")
				case len(n.Name) == 10:
					res.counts = append(res.counts, "name-same-length")
				default:
					res.counts = append(res.counts, "name-longer-than-template")
				}
			}
		}
	} else {
		res.counts = append(res.counts, "no-template")
	}
	res.counts = append(res.counts, fmt.Sprintf("nodes:%d", len(in.Nodes)))
	return res
}

var clientNames = []string{"teku", "prysm", "nimbus", "lodestar", "grandine", "lighthouse", "", "x", "a-very-long-client-name/v1.2.3-abcdef", "erigon-caplin", "{{CLIENT}}", "{{CLIENT}}!"}

func genGraffiti(r *Rand) *GraffitiIn {
	in := &GraffitiIn{Trace: r.Chance(1, 8)}
	tm := "{{CLIENT}}"
	switch r.Intn(8) {
	case 0:
		in.Graffiti = []byte("plain graffiti")
	case 1:
		in.Graffiti = []byte(tm)
	case 2:
		in.Graffiti = []byte("hello " + tm)
	case 3:
		in.Graffiti = []byte(tm + " " + tm + " " + tm)
	case 4:
		in.Graffiti = []byte("0123456789012345678901" + tm) // template ends at byte 32
	case 5:
		in.Graffiti = []byte("vouch/" + tm + "/" + tm)
	case 6:
		in.Graffiti = []byte("{{CLIENT}" + tm + "}") // near-miss prefix
	default:
		n := r.Intn(33)
		in.Graffiti = make([]byte, n)
		for i := range in.Graffiti {
			in.Graffiti[i] = byte(r.Range(32, 126))
		}
		if n >= 10 && r.Bool() {
			copy(in.Graffiti[r.Intn(n-9):], tm)
		}
	}
	nn := r.Range(1, 3)
	for i := 0; i < nn; i++ {
		switch k := r.Intn(8); {
		case k < 1:
			in.Nodes = append(in.Nodes, NodeIn{Kind: "not"})
		case k < 2:
			in.Nodes = append(in.Nodes, NodeIn{Kind: "err"})
		default:
			in.Nodes = append(in.Nodes, NodeIn{Kind: "name", Name: []byte(clientNames[r.Intn(len(clientNames))])})
		}
	}
	in.Then = []string{"", "flip", "flip", "nil"}[r.Intn(4)]
	return in
}
