// Path 11 (aggsel): the attestation aggregator's AggregatorsAndSignatures over the committee lengths
// of the beacon node's attester duties.  The real service is built by its public constructor (spec
// provider answering TARGET_AGGREGATORS_PER_COMMITTEE and SLOTS_PER_EPOCH; the slot selection signer
// is the harness's: it returns one scripted 96-byte signature per account, or fails).  The input's
// committee lengths are small (0, 1, below the target), exactly the target, multiples, mainnet-sized
// and hostile (2^64-1).  The model does not hash: the harness computes SHA-256 of each signature
// itself and hands the first eight bytes (little endian) to the model as the row's number.
package c16

import (
	"context"
	"crypto/sha256"
	"encoding/binary"
	"errors"
	"testing"

	eth2client "github.com/attestantio/go-eth2-client"
	"github.com/attestantio/go-eth2-client/api"
	"github.com/attestantio/go-eth2-client/spec/phase0"
	"github.com/attestantio/vouch/mock"
	mockaccountmanager "github.com/attestantio/vouch/services/accountmanager/mock"
	standardaggregator "github.com/attestantio/vouch/services/attestationaggregator/standard"
	nullmetrics "github.com/attestantio/vouch/services/metrics/null"
	nullsubmitter "github.com/attestantio/vouch/services/submitter/null"
	"github.com/rs/zerolog"
	e2wtypes "github.com/wealdtech/go-eth2-wallet-types/v2"

	. "verifharness/common"
	"verifharness/mocks"
)

type AggSelRow struct {
	CLen uint64 `json:"clen"` // committee_length of the validator's attester duty
	Sig  uint64 `json:"sig"`  // seed of the 96 bytes the signer returns as slot signature
}

type AggSelIn struct {
	Target   uint64      `json:"target"` // TARGET_AGGREGATORS_PER_COMMITTEE of the node's spec (>= 1)
	Slot     uint64      `json:"slot"`
	SignFail bool        `json:"sign_fail,omitempty"`
	Rows     []AggSelRow `json:"rows"`
	Trace    bool        `json:"trace_log,omitempty"`
}

type aggSpec struct{ target uint64 }

func (s aggSpec) Spec(context.Context, *api.SpecOpts) (*api.Response[map[string]any], error) {
	return &api.Response[map[string]any]{Data: map[string]any{"SLOTS_PER_EPOCH": uint64(32), "TARGET_AGGREGATORS_PER_COMMITTEE": s.target},
		Metadata: map[string]any{}}, nil
}

var _ eth2client.SpecProvider = aggSpec{}

func aggSig(seed uint64) phase0.BLSSignature {
	var sig phase0.BLSSignature
	r := NewRand(seed)
	for i := 0; i < len(sig); i += 8 {
		binary.LittleEndian.PutUint64(sig[i:], r.U64())
	}
	return sig
}

type aggSigner struct {
	in    *AggSelIn
	calls int
}

func (s *aggSigner) SignSlotSelections(_ context.Context, accounts []e2wtypes.Account, _ phase0.Slot) ([]phase0.BLSSignature, error) {
	s.calls++
	if s.in.SignFail {
		return nil, errors.New("scripted slot selection signing failure")
	}
	sigs := make([]phase0.BLSSignature, len(accounts))
	for i := range accounts {
		sigs[i] = aggSig(s.in.Rows[i].Sig)
	}
	return sigs, nil
}

func (s *aggSigner) SignAggregateAndProof(context.Context, e2wtypes.Account, phase0.Slot, phase0.Root) (phase0.BLSSignature, error) {
	return phase0.BLSSignature{}, errors.New("not part of this path")
}

func runAggSel(t *testing.T, in *AggSelIn) result {
	if in.Target == 0 {
		t.Fatalf("aggsel: TARGET_AGGREGATORS_PER_COMMITTEE = 0 is outside the harness's domain")
	}
	ctx := context.Background()
	level := zerolog.Disabled
	if in.Trace {
		level = zerolog.TraceLevel
	}
	signer := &aggSigner{in: in}
	null, err := nullsubmitter.New(ctx)
	if err != nil {
		t.Fatalf("null submitter: %v", err)
	}
	svc, err := standardaggregator.New(ctx,
		standardaggregator.WithLogLevel(level),
		standardaggregator.WithMonitor(nullmetrics.New()),
		standardaggregator.WithSpecProvider(aggSpec{in.Target}),
		standardaggregator.WithValidatingAccountsProvider(mockaccountmanager.NewValidatingAccountsProvider()),
		standardaggregator.WithAggregateAttestationProvider(mock.NewAggregateAttestationProvider()),
		standardaggregator.WithAggregateAttestationsSubmitter(null),
		standardaggregator.WithSlotSelectionSigner(signer),
		standardaggregator.WithAggregateAndProofSigner(signer),
		standardaggregator.WithChainTime(mocks.NewChainTime(32)),
	)
	if err != nil {
		t.Fatalf("attestation aggregator constructor: %v", err)
	}
	accounts := make([]e2wtypes.Account, len(in.Rows))
	sizes := make([]uint64, len(in.Rows))
	rows := make([]string, len(in.Rows))
	small := false
	for i, r := range in.Rows {
		sizes[i] = r.CLen
		sig := aggSig(r.Sig)
		h := sha256.Sum256(sig[:])
		rows[i] = Pair(N(r.CLen), N(binary.LittleEndian.Uint64(h[:8])))
		if r.CLen < in.Target {
			small = true
		}
	}
	res := result{inTerm: App("IAggSel", N(in.Target), Bool(!in.SignFail), List(rows))}
	var (
		sigs []phase0.BLSSignature
		aggs []bool
		rerr error
	)
	p, msg := catch(func() {
		sigs, aggs, rerr = svc.AggregatorsAndSignatures(ctx, accounts, phase0.Slot(in.Slot), sizes)
	})
	switch {
	case p:
		res.obs = Observed{Panic: true, Message: msg}
		res.obsTerm = App("OAggSel", panicT)
	case rerr != nil:
		res.obs = Observed{Message: "error"}
		res.obsTerm = App("OAggSel", errT("tt"))
	default:
		// the signatures handed back are the signer's, one per account
		same := len(sigs) == len(in.Rows)
		for i := 0; same && i < len(sigs); i++ {
			same = sigs[i] == aggSig(in.Rows[i].Sig)
		}
		items := make([]string, len(aggs))
		for i, a := range aggs {
			items[i] = Bool(a)
		}
		res.obs = Observed{Detail: map[string]any{"aggregators": aggs, "signatures_returned": same}}
		res.obsTerm = App("OAggSel", okT(Pair(Bool(same), List(items))))
	}
	if small {
		res.counts = append(res.counts, "committee-below-target")
		res.tags = append(res.tags, "aggsel:committee-below-target")
	}
	if in.SignFail {
		res.counts = append(res.counts, "signer-fails")
	}
	if len(in.Rows) == 0 {
		res.counts = append(res.counts, "no-accounts")
	}
	res.nontrivial = small || in.SignFail
	return res
}

func genAggSel(r *Rand) *AggSelIn {
	in := &AggSelIn{Slot: uint64(r.Intn(1 << 20)), Trace: r.Chance(1, 6), SignFail: r.Chance(1, 10)}
	in.Target = []uint64{16, 16, 16, 16, 1, 2, 3, 64, uint64(1 + r.Intn(40))}[r.Intn(9)]
	n := r.Intn(7)
	for i := 0; i < n; i++ {
		var c uint64
		switch k := r.Intn(12); {
		case k < 1:
			c = 0
		case k < 2:
			c = 1
		case k < 3:
			c = in.Target - 1
		case k < 4:
			c = uint64(r.Intn(int(in.Target)))
		case k < 5:
			c = in.Target
		case k < 8:
			c = in.Target*uint64(1+r.Intn(5)) + uint64(r.Intn(int(in.Target))) // modulo 1..5: selection is likely
		case k < 10:
			c = uint64(64 + r.Intn(2048))
		case k < 11:
			c = ^uint64(0) - uint64(r.Intn(3))
		default:
			c = r.U64()
		}
		in.Rows = append(in.Rows, AggSelRow{CLen: c, Sig: r.U64() >> 1})
	}
	return in
}
