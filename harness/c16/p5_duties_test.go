package c16

import (
	"context"
	"fmt"
	"sort"
	"strings"
	"testing"

	apiv1 "github.com/attestantio/go-eth2-client/api/v1"
	"github.com/attestantio/go-eth2-client/spec/phase0"
	"github.com/attestantio/vouch/services/attester"

	"verifharness/attenv"
	. "verifharness/common"
)

// DutyIn is one attester duty as the beacon node reports it.
type DutyIn struct {
	Slot  uint64 `json:"slot"`
	CIdx  uint64 `json:"cidx"`
	VIdx  uint64 `json:"vidx"`
	VCIdx uint64 `json:"vcidx"`
	CLen  uint64 `json:"clen"`
	CAS   uint64 `json:"cas"`
}

type DutiesIn struct {
	Duties []DutyIn `json:"duties"`
	Held   []uint64 `json:"held"` // validators the account manager holds (sorted, unique)
}

const dutySPE = 32

// sizes this harness may hand to the real code: small ones, and ones so large that the runtime
// refuses the allocation outright (a recoverable panic).  Anything between would really allocate.
func safeCLen(n uint64) bool { return n <= 1<<20 || n >= 1<<52 }

func runDuties(t *testing.T, in *DutiesIn) result {
	res := result{}
	for _, d := range in.Duties {
		if !safeCLen(d.CLen) {
			t.Fatalf("committee length %d is outside what the harness may allocate", d.CLen)
		}
	}
	duties := make([]*apiv1.AttesterDuty, len(in.Duties))
	for i, d := range in.Duties {
		duties[i] = &apiv1.AttesterDuty{Slot: phase0.Slot(d.Slot), CommitteeIndex: phase0.CommitteeIndex(d.CIdx), ValidatorIndex: phase0.ValidatorIndex(d.VIdx),
			ValidatorCommitteeIndex: d.VCIdx, CommitteeLength: d.CLen, CommitteesAtSlot: d.CAS}
	}
	var merged []*attester.Duty
	var merr error
	mp, mmsg := catch(func() { merged, merr = attester.MergeDuties(context.Background(), duties) })

	rows := []string{}
	detail := []any{}
	switch {
	case mp:
		// a panic while merging: every slot is lost; report it on the first slot
		res.obs.Panic, res.obs.Message = true, mmsg
		rows = append(rows, Pair(N(0), panicT))
	case merr != nil:
		rows = append(rows, Pair(N(0), errT("AENone")))
	default:
		for _, m := range merged {
			// hand the merged duty, field by field, to the real attester
			ad := attenv.Duty{Slot: uint64(m.Slot())}
			for _, v := range m.ValidatorIndices() {
				ad.Vals = append(ad.Vals, uint64(v))
			}
			seen := map[uint64]bool{}
			for _, c := range m.CommitteeIndices() {
				ad.Comms = append(ad.Comms, uint64(c))
				if !seen[uint64(c)] {
					seen[uint64(c)] = true
					ad.Sizes = append(ad.Sizes, [2]uint64{uint64(c), m.CommitteeSize(c)})
				}
			}
			ad.Poss = append(ad.Poss, m.ValidatorCommitteeIndices()...)
			epoch := ad.Slot / dutySPE
			h := attenv.History{SPE: dutySPE, Runs: []attenv.Run{{Duty: ad, Script: attenv.Script{
				Data:     attenv.Data{Slot: ad.Slot, Root: 1, Src: sub1(epoch), SrcRoot: 2, Tgt: epoch, TgtRoot: 3},
				Accounts: in.Held}}}}
			obs := attenv.RunHistory(t, h)
			var out string
			r := ""
			if len(obs.Results) == 1 {
				r = obs.Results[0]
			}
			switch {
			case strings.HasPrefix(r, "panic"):
				out = panicT
				res.obs.Panic, res.obs.Message = true, r
			case strings.HasPrefix(r, "ok"):
				var atts []attenv.Att
				for _, ev := range obs.Trace {
					if ev.Kind == "submit" {
						atts = append(atts, ev.Atts...)
					}
				}
				sort.Slice(atts, func(a, b int) bool { return atts[a].SigV < atts[b].SigV })
				items := make([]string, len(atts))
				for i, a := range atts {
					items[i] = fmt.Sprintf("(%s, %s, %s, %s)", N(a.SigV), N(a.Vote.Comm), N(a.Len), Bool(len(a.Bits) > 0))
				}
				out = okT(List(items))
			default:
				out = errT("AENone")
			}
			rows = append(rows, Pair(N(ad.Slot), out))
			detail = append(detail, map[string]any{"slot": ad.Slot, "result": r, "problem": obs.Problem})
		}
	}

	ds := make([]string, len(in.Duties))
	slots := map[uint64]int{}
	type key struct{ s, v uint64 }
	dup := map[key]int{}
	for i, d := range in.Duties {
		ds[i] = Record("ad_slot", N(d.Slot), "ad_cidx", N(d.CIdx), "ad_vidx", N(d.VIdx), "ad_vcidx", N(d.VCIdx), "ad_clen", N(d.CLen), "ad_cas", N(d.CAS))
		slots[d.Slot]++
		dup[key{d.Slot, d.VIdx}]++
		switch {
		case d.CLen > 2048:
			res.counts = append(res.counts, "oversize-committee")
			res.nontrivial = true
		case d.CLen == 0:
			res.counts = append(res.counts, "zero-committee")
			res.nontrivial = true
		case d.VCIdx >= d.CLen:
			res.counts = append(res.counts, "position-out-of-range")
			res.nontrivial = true
		}
	}
	for _, n := range dup {
		if n > 1 {
			res.counts = append(res.counts, "duplicate-validator-in-slot")
			res.nontrivial = true
		}
	}
	if len(in.Duties) == 0 {
		res.counts = append(res.counts, "no-duties")
	}
	res.counts = append(res.counts, fmt.Sprintf("slots:%d", len(slots)))
	res.inTerm = App("IDuties", List(ds), nlist(in.Held))
	res.obsTerm = App("ODuties", List(rows))
	res.obs.Detail = detail
	return res
}

func sub1(e uint64) uint64 {
	if e == 0 {
		return 0
	}
	return e - 1
}

func genDuties(r *Rand) *DutiesIn {
	in := &DutiesIn{}
	nslots := r.Range(1, 3)
	base := uint64(r.Range(0, 2000))
	if r.Chance(1, 10) {
		base = 0
	}
	nd := r.Range(0, 7)
	for i := 0; i < nd; i++ {
		d := DutyIn{Slot: base + uint64(r.Intn(nslots)), CIdx: uint64(r.Intn(3)), VIdx: uint64(r.Range(1, 6)), CAS: uint64(r.Range(1, 4))}
		switch k := r.Intn(12); {
		case k < 7:
			d.CLen = uint64(r.Range(1, 300))
		case k < 8:
			d.CLen = 0
		case k < 9:
			d.CLen = []uint64{2047, 2048, 2049}[r.Intn(3)]
		case k < 10:
			d.CLen = []uint64{4096, 65536, 1 << 20}[r.Intn(3)]
		default:
			d.CLen = []uint64{1 << 52, 1 << 60, 1<<64 - 1, 1<<63 + 5}[r.Intn(4)]
		}
		switch k := r.Intn(8); {
		case k < 5:
			if d.CLen > 0 {
				d.VCIdx = uint64(r.Intn(int(min64(d.CLen, 1<<20))))
			}
		case k < 6:
			d.VCIdx = d.CLen
		case k < 7:
			d.VCIdx = d.CLen + uint64(r.Range(1, 9))
		default:
			d.VCIdx = 1<<64 - 1
		}
		if r.Chance(1, 12) {
			d.CIdx = 1<<64 - 1
		}
		in.Duties = append(in.Duties, d)
	}
	// exact duplicates, and the same validator in another committee of the slot
	if len(in.Duties) > 0 && r.Chance(1, 4) {
		in.Duties = append(in.Duties, in.Duties[r.Intn(len(in.Duties))])
	}
	if len(in.Duties) > 0 && r.Chance(1, 4) {
		d := in.Duties[r.Intn(len(in.Duties))]
		d.CIdx = (d.CIdx + 1) % 3
		in.Duties = append(in.Duties, d)
	}
	// two entries with the same (slot, committee, validator) must be identical: the implementation's
	// sort is not stable, so their order would otherwise be undetermined
	type key struct{ s, c, v uint64 }
	first := map[key]DutyIn{}
	for i, d := range in.Duties {
		k := key{d.Slot, d.CIdx, d.VIdx}
		if f, ok := first[k]; ok {
			in.Duties[i] = f
		} else {
			first[k] = d
		}
	}
	// within one committee of a slot the reported length and committees-at-slot are those of one
	// of the entries; make conflicting reports possible but rare
	for v := uint64(1); v <= 6; v++ {
		if !r.Chance(1, 4) {
			in.Held = append(in.Held, v)
		}
	}
	return in
}

func min64(a, b uint64) uint64 {
	if a < b {
		return a
	}
	return b
}
