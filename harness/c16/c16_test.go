// C16: drives eight input paths of the real vouch code with structured, fuzz-like inputs, recovers
// panics per case, and prints each input with the observed outcome as a Gallina case for Check.C16.
//
// Paths: propose (Propose -> obtainGraffiti -> proposeBlock), relays (builderbid best over relay
// address strings), graffiti (the {{CLIENT}} substitution of the best proposal strategy), config
// (execution configuration documents: decode, keep-previous, lookup), duties (MergeDuties ->
// Attest), head (cache head events over block shapes), errbody (sync committee error bodies),
// dynamic (dynamic graffiti provider over file contents).
package c16

import (
	"fmt"
	"io"
	"strings"
	"sync"
	"testing"

	zerologger "github.com/rs/zerolog/log"
	"github.com/sasha-s/go-deadlock"
	"github.com/spf13/viper"

	. "verifharness/common"
)

// ---------------------------------------------------------------------------------------------
// Input (JSON; also the corpus / replay format).

type Input struct {
	Path     string       `json:"path"`
	Propose  *ProposeIn   `json:"propose,omitempty"`
	Relays   []RelayIn    `json:"relays,omitempty"`
	Graffiti *GraffitiIn  `json:"graffiti,omitempty"`
	Config   []ConfigStep `json:"config,omitempty"`
	Duties   *DutiesIn    `json:"duties,omitempty"`
	Head     *HeadIn      `json:"head,omitempty"`
	ErrBody  *ErrBodyIn   `json:"errbody,omitempty"`
	Dynamic  *DynamicIn   `json:"dynamic,omitempty"`
	// sessions (p9_sessions_test.go): one service instance, several operations, scripted providers
	HeadSeq    *HeadSeqIn    `json:"headseq,omitempty"`
	DynamicSeq *DynamicSeqIn `json:"dynamicseq,omitempty"`
	ProposeSeq *ProposeSeqIn `json:"proposeseq,omitempty"`
	BidSeq     *BidSeqIn     `json:"bidseq,omitempty"` // p10_bids_test.go: one builder-bid strategy, several auctions
	AggSel     *AggSelIn     `json:"aggsel,omitempty"` // p11_aggsel_test.go: aggregator selection over the duties' committee lengths
	Tags       []string      `json:"tags,omitempty"`
}

// Observed is the JSON rendering of what the implementation did (for samples and replays).
type Observed struct {
	Panic   bool   `json:"panic,omitempty"`
	Message string `json:"message,omitempty"`
	Detail  any    `json:"detail,omitempty"`
}

// ---------------------------------------------------------------------------------------------
// Gallina helpers.

func bytesTerm(b []byte) string {
	items := make([]string, len(b))
	for i, c := range b {
		items[i] = N(uint64(c))
	}
	return List(items)
}

func nlist(xs []uint64) string {
	items := make([]string, len(xs))
	for i, x := range xs {
		items[i] = N(x)
	}
	return List(items)
}

func okT(v string) string  { return App("Ok", v) }
func errT(e string) string { return App("Err", e) }

const panicT = "Panic"

// catch runs f and reports a recovered panic.
func catch(f func()) (panicked bool, msg string) {
	defer func() {
		if r := recover(); r != nil {
			panicked = true
			msg = fmt.Sprint(r)
			if len(msg) > 200 {
				msg = msg[:200]
			}
		}
	}()
	f()
	return false, ""
}

var setupOnce sync.Once

func setup() {
	setupOnce.Do(func() {
		zerologger.Logger = zerologger.Output(io.Discard)
		deadlock.Opts.Disable = true
		// the builder http client constructor wants a timeout before it looks at the address
		viper.Set("timeout", "2s")
	})
}

// ---------------------------------------------------------------------------------------------

type result struct {
	inTerm     string
	obsTerm    string
	obs        Observed
	nontrivial bool
	counts     []string
	tags       []string
}

func runInput(t *testing.T, in Input) result {
	switch in.Path {
	case "propose":
		return runPropose(t, in.Propose)
	case "relays":
		return runRelays(t, in.Relays)
	case "graffiti":
		return runGraffiti(t, in.Graffiti)
	case "config":
		return runConfig(t, in.Config)
	case "duties":
		return runDuties(t, in.Duties)
	case "head":
		return runHead(t, in.Head)
	case "errbody":
		return runErrBody(t, in.ErrBody)
	case "dynamic":
		return runDynamic(t, in.Dynamic)
	case "headseq":
		return runHeadSeq(t, in.HeadSeq)
	case "dynamicseq":
		return runDynamicSeq(t, in.DynamicSeq)
	case "proposeseq":
		return runProposeSeq(t, in.ProposeSeq)
	case "bidseq":
		return runBidSeq(t, in.BidSeq)
	case "aggsel":
		return runAggSel(t, in.AggSel)
	}
	t.Fatalf("unknown path %q", in.Path)
	return result{}
}

func genInput(r *Rand, k int) Input {
	switch k % 8 {
	case 0:
		if (k/8)%4 == 3 {
			return Input{Path: "proposeseq", ProposeSeq: genProposeSeq(r)}
		}
		return Input{Path: "propose", Propose: genPropose(r)}
	case 1:
		// every other one: a session of one builder-bid strategy over several auctions
		if (k/8)%2 == 1 {
			return Input{Path: "bidseq", BidSeq: genBidSeq(r)}
		}
		return Input{Path: "relays", Relays: genRelays(r)}
	case 2:
		return Input{Path: "graffiti", Graffiti: genGraffiti(r)}
	case 3:
		return Input{Path: "config", Config: genConfig(r)}
	case 4:
		return Input{Path: "duties", Duties: genDuties(r)}
	case 5:
		// two of three: a session of the same service over scripted block answers
		if (k/8)%3 != 0 {
			return Input{Path: "headseq", HeadSeq: genHeadSeq(r)}
		}
		return Input{Path: "head", Head: genHead(r)}
	case 6:
		// one of three: aggregator selection over committee lengths
		if (k/8)%3 == 2 {
			return Input{Path: "aggsel", AggSel: genAggSel(r)}
		}
		return Input{Path: "errbody", ErrBody: genErrBody(r)}
	default:
		if (k/8)%2 != 0 {
			return Input{Path: "dynamicseq", DynamicSeq: genDynamicSeq(r)}
		}
		return Input{Path: "dynamic", Dynamic: genDynamic(r)}
	}
}

func TestC16(t *testing.T) {
	setup()
	col := NewCollector("C16", "Check.C16",
		"one case = one input of one of nine paths (propose, relays, graffiti, config, duties, head, errbody, dynamic, aggsel) or one session of one service over providers scripted call by call (headseq, dynamicseq, proposeseq, bidseq), run on the real code with recover(); "+
			"non-trivial = the input carries the unexpected content of its path (blinded without auction result, unusable relay, {{CLIENT}} template, null/malformed config entry, "+
			"duplicate/oversize/out-of-range duty, nil-bearing or unknown-version block, null/real failure entry, blank/CRLF/empty/missing file, a committee shorter than TARGET_AGGREGATORS_PER_COMMITTEE or a failing slot signer; "+
			"for the sessions headseq and dynamicseq: a script whose answers differ from call to call, fail, or carry nothing; for bidseq: a relay with a public key whose bid reaches the signature check); distinct by input text")
	n := EnvInt("VERIF_N", 1600)
	var ins []Input
	for _, in := range LoadInputs[Input]("C16") {
		in.Tags = append(in.Tags, "corpus")
		ins = append(ins, in)
	}
	rng := NewRand(Seed())
	for i := 0; i < n; i++ {
		ins = append(ins, genInput(rng.Fork(), i))
	}
	for _, in := range ins {
		res := runInput(t, in)
		col.Count("path:" + in.Path)
		for _, c := range res.counts {
			col.Count(in.Path + ":" + c)
		}
		if res.obs.Panic {
			col.Count("observed-panic:" + in.Path)
		}
		id := col.NextID()
		tags := append(append([]string{in.Path}, in.Tags...), res.tags...)
		term := Record("c_id", N(id), "c_in", res.inTerm, "c_obs", res.obsTerm)
		col.Add(Case{Term: term, Key: in.Path + "|" + res.inTerm, Nontrivial: res.nontrivial, Tags: tags,
			Sample: map[string]any{"input": in, "observed": res.obs}})
	}
	if err := col.Flush(); err != nil {
		t.Fatal(err)
	}
}

func joinTags(tags []string) string { return strings.Join(tags, ",") }
