package c16

// Sessions: one service instance, several operations, and providers that answer call by call from a
// script (fail then succeed, succeed then fail, alternating, an error-free answer without data).
// When a script runs out its last entry keeps answering; an empty script fails every call.

import (
	"context"
	"errors"
	"fmt"
	"strings"
	"testing"
	"testing/synctest"

	"github.com/attestantio/go-eth2-client/api"
	apiv1 "github.com/attestantio/go-eth2-client/api/v1"
	"github.com/attestantio/go-eth2-client/spec"
	"github.com/attestantio/go-eth2-client/spec/phase0"
	standardcache "github.com/attestantio/vouch/services/cache/standard"
	"github.com/attestantio/vouch/services/graffitiprovider/dynamic"
	nullmetrics "github.com/attestantio/vouch/services/metrics/null"
	"github.com/rs/zerolog"
	"github.com/wealdtech/go-majordomo"

	. "verifharness/common"
	"verifharness/mocks"
)

// =============================================================================================
// Path 6 as a session: the cache constructor's fetch, then head events, one block provider.

type AnswerIn struct {
	Kind      string `json:"kind"` // err | nilresp | nildata | block
	Version   uint64 `json:"version,omitempty"`
	Container bool   `json:"container,omitempty"`
	Message   bool   `json:"message,omitempty"`
	Body      bool   `json:"body,omitempty"`
	Payload   bool   `json:"payload,omitempty"`
	StateZero bool   `json:"state_zero,omitempty"`
	Exec      uint64 `json:"exec,omitempty"`
}

type HeadSeqIn struct {
	Script []AnswerIn `json:"script"`
	Events []string   `json:"events"` // head | nodata
	Trace  bool       `json:"trace_log,omitempty"`
}

func (a AnswerIn) wf() bool {
	switch a.Kind {
	case "err":
		return true
	case "block":
		return !(a.Version >= 1 && a.Version <= 5) || (a.Container && a.Message && a.Body)
	}
	return false
}

func (a AnswerIn) moves() bool {
	return a.Kind == "block" && a.wf() && a.Version >= 3 && a.Version <= 5 && a.Payload && !a.StateZero
}

func (a AnswerIn) term() string {
	switch a.Kind {
	case "err":
		return "BAErr"
	case "nilresp":
		return "BANilResponse"
	case "nildata":
		return "BANilData"
	}
	return App("BABlock", Record("bk_version", N(a.Version), "bk_container", Bool(a.Container), "bk_message", Bool(a.Message),
		"bk_body", Bool(a.Body), "bk_payload", Bool(a.Payload), "bk_state_zero", Bool(a.StateZero), "bk_exec", N(a.Exec)))
}

// scriptedBlocks answers the n-th call with the n-th entry of its script.
type scriptedBlocks struct {
	script []AnswerIn
	calls  int
}

func (b *scriptedBlocks) SignedBeaconBlock(ctx context.Context, _ *api.SignedBeaconBlockOpts) (*api.Response[*spec.VersionedSignedBeaconBlock], error) {
	if err := ctx.Err(); err != nil {
		return nil, err
	}
	a := AnswerIn{Kind: "err"}
	if n := len(b.script); n > 0 {
		i := b.calls
		if i >= n {
			i = n - 1
		}
		a = b.script[i]
	}
	b.calls++
	switch a.Kind {
	case "err":
		return nil, errors.New("GET failed with status 404: scripted block failure")
	case "nilresp":
		return nil, nil
	case "nildata":
		return &api.Response[*spec.VersionedSignedBeaconBlock]{Metadata: map[string]any{}}, nil
	}
	return &api.Response[*spec.VersionedSignedBeaconBlock]{Data: makeBlock(&HeadIn{Version: a.Version, Container: a.Container, Message: a.Message,
		Body: a.Body, Payload: a.Payload, StateZero: a.StateZero, Exec: a.Exec}), Metadata: map[string]any{}}, nil
}

func runHeadSeq(t *testing.T, in *HeadSeqIn) result {
	level := zerolog.Disabled
	if in.Trace {
		level = zerolog.TraceLevel
	}
	var obs []string
	var heights []any
	res := result{}
	blocks := &scriptedBlocks{script: in.Script}
	synctest.Test(t, func(t *testing.T) {
		ctx := context.Background()
		ev := mocks.NewEventsProvider()
		var svc *standardcache.Service
		var cerr error
		record := func(panicked bool, msg string) bool {
			if panicked {
				obs = append(obs, panicT)
				heights = append(heights, "panic")
				res.obs.Panic, res.obs.Message = true, msg
				return false
			}
			term, height := headTerm(ctx, svc)
			obs = append(obs, okT(term))
			heights = append(heights, height)
			return true
		}
		panicked, msg := catch(func() {
			svc, cerr = standardcache.New(ctx,
				standardcache.WithLogLevel(level),
				standardcache.WithMonitor(nullmetrics.New()),
				standardcache.WithChainTime(mocks.NewChainTime(32)),
				standardcache.WithScheduler(mocks.NewRecScheduler()),
				standardcache.WithEventsProvider(ev),
				standardcache.WithSignedBeaconBlockProvider(blocks),
				standardcache.WithBeaconBlockHeadersProvider(noHeaders{}),
			)
		})
		if !panicked && cerr != nil {
			t.Fatalf("cache constructor: %v", cerr)
		}
		if !record(panicked, msg) {
			return
		}
		if len(ev.Handlers["head"]) != 1 {
			t.Fatalf("expected one head handler, got %d", len(ev.Handlers["head"]))
		}
		for i, kind := range in.Events {
			event := &apiv1.Event{Topic: "head"}
			if kind != "nodata" {
				event.Data = &apiv1.HeadEvent{Slot: phase0.Slot(100 + i), Block: phase0.Root{7, byte(i)}}
			}
			panicked, msg := catch(func() { ev.Handlers["head"][0](event) })
			if !record(panicked, msg) {
				return
			}
		}
		synctest.Wait()
	})
	res.obsTerm = App("OHeadSeq", List(obs))
	res.obs.Detail = map[string]any{"heads": heights, "block_calls": blocks.calls}

	script := make([]string, len(in.Script))
	uniform, wf, anyErr, anyOK := true, true, false, false
	for i, a := range in.Script {
		script[i] = a.term()
		if a != in.Script[0] {
			uniform = false
		}
		if !a.wf() {
			wf = false
		}
		switch a.Kind {
		case "err":
			anyErr = true
		case "block":
			anyOK = true
		default:
			res.counts = append(res.counts, "answer:"+a.Kind)
		}
		// an answer that fails or moves nothing, followed by one that differs: what a second call would meet
		if i > 0 && a != in.Script[i-1] {
			switch prev := in.Script[i-1]; {
			case prev.Kind == "err" && a.Kind == "block":
				res.counts = append(res.counts, "fail-then-succeed")
			case prev.Kind == "block" && a.Kind == "err":
				res.counts = append(res.counts, "succeed-then-fail")
			}
		}
	}
	evs := make([]string, len(in.Events))
	for i, e := range in.Events {
		evs[i] = "EvHead"
		if e == "nodata" {
			evs[i] = "EvNoData"
			res.counts = append(res.counts, "event-without-data")
		}
	}
	res.inTerm = App("IHeadSeq", List(script), List(evs))
	if !wf {
		res.tags = append(res.tags, "outside-decoder-domain")
		res.counts = append(res.counts, "outside-decoder-domain")
	}
	switch {
	case len(in.Script) == 0:
		res.counts = append(res.counts, "empty-script")
	case uniform:
		res.counts = append(res.counts, "uniform-script")
	case anyErr && anyOK:
		res.counts = append(res.counts, "mixed-script")
	}
	res.counts = append(res.counts, fmt.Sprintf("events:%d", len(in.Events)))
	res.nontrivial = !uniform || anyErr || !wf || len(in.Script) == 0
	return res
}

func genBlockAnswer(r *Rand, exec uint64) AnswerIn {
	a := AnswerIn{Kind: "block", Version: uint64(r.Range(3, 5)), Container: true, Message: true, Body: true, Payload: true, Exec: exec}
	switch r.Intn(12) {
	case 0:
		a.Version = uint64(r.Range(1, 2))
	case 1:
		a.Version = []uint64{0, 6, 99}[r.Intn(3)]
	case 2:
		a.Payload = false
	case 3:
		a.StateZero = true
	}
	return a
}

func genHeadSeq(r *Rand) *HeadSeqIn {
	in := &HeadSeqIn{Trace: r.Chance(1, 8)}
	exec := uint64(r.Range(1, 50000))
	next := func() uint64 { exec += uint64(r.Range(1, 9)); return exec }
	fail := AnswerIn{Kind: "err"}
	n := r.Range(2, 6)
	switch k := r.Intn(17); {
	case k < 3: // the node fails once, then serves the block
		for i := 0; i < n; i++ {
			in.Script = append(in.Script, genBlockAnswer(r, next()))
		}
		in.Script[r.Intn(n-1)] = fail
	case k < 5: // serves, then fails
		in.Script = append(in.Script, genBlockAnswer(r, next()))
		for i := 1; i < n; i++ {
			in.Script = append(in.Script, fail)
		}
	case k < 8: // alternating
		start := r.Intn(2)
		for i := 0; i < n; i++ {
			if (i+start)%2 == 0 {
				in.Script = append(in.Script, fail)
			} else {
				in.Script = append(in.Script, genBlockAnswer(r, next()))
			}
		}
	case k < 10: // every call gets the same answer
		a := fail
		if r.Chance(2, 3) {
			a = genBlockAnswer(r, next())
		}
		for i, m := 0, r.Range(0, 3); i < m; i++ {
			in.Script = append(in.Script, a)
		}
	default: // any mixture
		for i := 0; i < n; i++ {
			if r.Chance(1, 3) {
				in.Script = append(in.Script, fail)
			} else {
				in.Script = append(in.Script, genBlockAnswer(r, next()))
			}
		}
	}
	if len(in.Script) > 0 && r.Chance(1, 10) {
		// what the client library never delivers: an error-free answer without a response, without
		// data, or a block without its container, message or body
		i := r.Intn(len(in.Script))
		switch r.Intn(4) {
		case 0:
			in.Script[i] = AnswerIn{Kind: "nilresp"}
		case 1:
			in.Script[i] = AnswerIn{Kind: "nildata"}
		default:
			a := genBlockAnswer(r, next())
			a.Version = uint64(r.Range(3, 5))
			switch r.Intn(3) {
			case 0:
				a.Container = false
			case 1:
				a.Message = false
			default:
				a.Body = false
			}
			in.Script[i] = a
		}
	}
	for i, m := 0, r.Range(1, 6); i < m; i++ {
		if r.Chance(1, 7) {
			in.Events = append(in.Events, "nodata")
		} else {
			in.Events = append(in.Events, "head")
		}
	}
	return in
}

// =============================================================================================
// Path 8 as a session: one dynamic graffiti provider, several calls, majordomo answering each
// location call by call.

type DynamicSeqIn struct {
	Calls       int       `json:"calls"`
	Primary     []FetchIn `json:"primary"`
	HasFallback bool      `json:"has_fallback,omitempty"`
	Fallback    []FetchIn `json:"fallback,omitempty"`
	Trace       bool      `json:"trace_log,omitempty"`
}

type scriptedFiles struct {
	in    *DynamicSeqIn
	calls map[string]int
}

func (f *scriptedFiles) Fetch(ctx context.Context, key string) ([]byte, error) {
	if err := ctx.Err(); err != nil {
		return nil, err
	}
	script := f.in.Primary
	if key == "file:///fallback" {
		if !f.in.HasFallback {
			return nil, errors.New("no fallback configured, yet asked for")
		}
		script = f.in.Fallback
	}
	src := FetchIn{Kind: "other"}
	if n := len(script); n > 0 {
		i := f.calls[key]
		if i >= n {
			i = n - 1
		}
		src = script[i]
	}
	f.calls[key]++
	switch src.Kind {
	case "data":
		return append([]byte{}, src.Data...), nil
	case "nildata": // an error-free answer without data
		return nil, nil
	case "notfound":
		return nil, fmt.Errorf("file missing: %w", majordomo.ErrNotFound)
	}
	return nil, errors.New("scripted fetch failure")
}

func fetchTermSeq(f FetchIn) string {
	if f.Kind == "nildata" {
		return App("FData", bytesTerm(nil))
	}
	return fetchTerm(f)
}

func runDynamicSeq(t *testing.T, in *DynamicSeqIn) result {
	ctx := context.Background()
	level := zerolog.Disabled
	if in.Trace {
		level = zerolog.TraceLevel
	}
	files := &scriptedFiles{in: in, calls: map[string]int{}}
	params := []dynamic.Parameter{dynamic.WithLogLevel(level), dynamic.WithMajordomo(files), dynamic.WithLocation("file:///graffiti")}
	if in.HasFallback {
		params = append(params, dynamic.WithFallbackLocation("file:///fallback"))
	}
	svc, err := dynamic.New(ctx, params...)
	if err != nil {
		t.Fatalf("dynamic graffiti constructor: %v", err)
	}
	res := result{}
	var obs []string
	var detail []any
	synctest.Test(t, func(t *testing.T) {
		for i := 0; i < in.Calls; i++ {
			var out []byte
			var gerr error
			panicked, msg := catch(func() { out, gerr = svc.Graffiti(ctx, phase0.Slot(12345+i), 7) })
			switch {
			case panicked:
				obs = append(obs, panicT)
				detail = append(detail, "panic")
				res.obs.Panic, res.obs.Message = true, msg
			case gerr != nil:
				obs = append(obs, errT("GEFetch"))
				detail = append(detail, "error")
			default:
				obs = append(obs, okT(bytesTerm(out)))
				detail = append(detail, string(out))
			}
		}
		synctest.Wait()
	})
	res.obsTerm = App("ODynamicSeq", List(obs))
	res.obs.Detail = map[string]any{"graffiti": detail, "fetches": files.calls}
	terms := func(fs []FetchIn) string {
		items := make([]string, len(fs))
		for i, f := range fs {
			items[i] = fetchTermSeq(f)
			res.counts = append(res.counts, "fetch:"+f.Kind)
			if i > 0 && (f.Kind == "data") != (fs[i-1].Kind == "data") {
				if f.Kind == "data" {
					res.counts = append(res.counts, "fail-then-succeed")
				} else {
					res.counts = append(res.counts, "succeed-then-fail")
				}
				res.nontrivial = true
			}
			if f.Kind != "data" || strings.TrimSpace(string(f.Data)) == "" {
				res.nontrivial = true
			}
		}
		return List(items)
	}
	fb := None()
	if in.HasFallback {
		fb = Some(terms(in.Fallback))
		res.counts = append(res.counts, "with-fallback")
	}
	res.inTerm = App("IDynamicSeq", N(uint64(in.Calls)), terms(in.Primary), fb)
	res.counts = append(res.counts, fmt.Sprintf("calls:%d", in.Calls))
	if len(in.Primary) == 0 {
		res.nontrivial = true
	}
	return res
}

func genFetchSeq(r *Rand) FetchIn {
	if r.Chance(1, 12) {
		return FetchIn{Kind: "nildata"}
	}
	return genFetch(r)
}

func genFetchScript(r *Rand) []FetchIn {
	n := r.Range(0, 5)
	var out []FetchIn
	switch k := r.Intn(8); {
	case k < 2: // fails, then is there
		for i := 0; i < n; i++ {
			out = append(out, FetchIn{Kind: "data", Data: genFile(r)})
		}
		if n > 0 {
			out[r.Intn(n)] = FetchIn{Kind: []string{"other", "notfound"}[r.Intn(2)]}
		}
	case k < 4: // alternating
		for i := 0; i < n; i++ {
			if i%2 == k%2 {
				out = append(out, FetchIn{Kind: []string{"other", "notfound"}[r.Intn(2)]})
			} else {
				out = append(out, FetchIn{Kind: "data", Data: genFile(r)})
			}
		}
	case k < 5: // the same answer every time
		f := genFetchSeq(r)
		for i := 0; i < n; i++ {
			out = append(out, f)
		}
	default:
		for i := 0; i < n; i++ {
			out = append(out, genFetchSeq(r))
		}
	}
	return out
}

func genDynamicSeq(r *Rand) *DynamicSeqIn {
	in := &DynamicSeqIn{Calls: r.Range(1, 5), Primary: genFetchScript(r), Trace: r.Chance(1, 8)}
	if r.Chance(1, 2) {
		in.HasFallback = true
		in.Fallback = genFetchScript(r)
	}
	return in
}

// =============================================================================================
// Path 1 as a session: one proposer service, several proposals, the collaborators answering
// proposal by proposal.

type ProposeSeqIn struct {
	Ops []*ProposeIn `json:"ops"`
}

func runProposeSeq(t *testing.T, in *ProposeSeqIn) result {
	if len(in.Ops) == 0 {
		t.Fatalf("a propose session needs at least one proposal")
	}
	panics, msgs, logs := runProposeOps(t, in.Ops)
	res := result{}
	recs := make([]string, len(in.Ops))
	var obs []string
	var details []any
	seen := map[string]bool{}
	for k, op := range in.Ops {
		var lg *p1log
		var panicked bool
		var msg string
		if k < len(logs) {
			lg, panicked, msg = logs[k], panics[k], msgs[k]
		} else {
			lg = &p1log{}
		}
		r, rec, tr := proposeResult(op, lg, panicked, msg)
		recs[k] = rec
		if k < len(logs) {
			obs = append(obs, Pair(Bool(panicked), tr))
			details = append(details, r.obs.Detail)
			if panicked {
				res.obs.Panic, res.obs.Message = true, msg
			}
		}
		res.nontrivial = res.nontrivial || r.nontrivial
		for _, c := range r.counts {
			if !seen[c] {
				seen[c] = true
				res.counts = append(res.counts, c)
			}
		}
		for _, tag := range r.tags {
			if !seen["tag:"+tag] {
				seen["tag:"+tag] = true
				res.tags = append(res.tags, tag)
			}
		}
	}
	res.inTerm = App("IProposeSeq", List(recs))
	res.obsTerm = App("OProposeSeq", List(obs))
	res.obs.Detail = map[string]any{"proposals": details}
	res.counts = append(res.counts, fmt.Sprintf("proposals:%d", len(in.Ops)))
	return res
}

// genProposeSeq: proposals that differ in everything the collaborators answer; what exists at
// construction (a graffiti provider, an auctioneer, a node that can name itself, unblind-from-all)
// is that of the first.
func genProposeSeq(r *Rand) *ProposeSeqIn {
	base := genPropose(r)
	in := &ProposeSeqIn{Ops: []*ProposeIn{base}}
	named := base.NodeClient == "err" || base.NodeClient == "name"
	for k, n := 1, r.Range(2, 4); k < n; k++ {
		op := genPropose(r)
		switch {
		case base.Graffiti == "none":
			op.Graffiti, op.GraffitiData = "none", nil
		case op.Graffiti == "none":
			op.Graffiti = "err"
		}
		switch {
		case base.Auction == "none":
			op.Auction, op.Providers, op.AllProviders = "none", nil, nil
		case op.Auction == "none":
			op.Auction = "err"
		}
		switch {
		case !named:
			op.NodeClient, op.ClientName = "not", nil
		case op.NodeClient != "err" && op.NodeClient != "name":
			op.NodeClient = "err"
		}
		op.UnblindAll = base.UnblindAll
		op.Trace = base.Trace
		in.Ops = append(in.Ops, op)
	}
	// family: what a proposal could take over from the one before -- an auction with relays that can
	// unblind and a fetched, signed proposal, then a proposal whose auction (or proposal fetch) fails
	if base.Auction != "none" && r.Chance(1, 2) {
		k := r.Range(1, len(in.Ops)-1)
		prev, op := in.Ops[k-1], in.Ops[k]
		prev.Auction = "res"
		prev.AllProviders = []ProvIn{{ID: 1, Unblinds: true}, {ID: 2, Unblinds: r.Bool()}}
		prev.Providers = prev.AllProviders[:1]
		prev.Proposal = &ProposalIn{Version: uint64(r.Range(3, 5)), Blinded: true, Present: true, SlotOK: true}
		prev.SignOK, prev.UnblindOK = true, true
		if r.Bool() {
			op.Auction, op.Providers, op.AllProviders = "err", nil, nil
			op.Proposal = &ProposalIn{Version: uint64(r.Range(3, 5)), Blinded: true, Present: true, SlotOK: true}
			op.SignOK = true
		} else {
			op.Proposal = nil
		}
	}
	return in
}
