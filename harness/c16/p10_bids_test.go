package c16

// Sessions of the builder-bid strategy: ONE strategy instance (bestbid.New), several auctions
// (BuilderBid) one after the other.  Every relay has a public key of its own - in the execution
// configuration (RelayConfig.PublicKey) or embedded in its URL (provider.Pubkey()) - that is 48 bytes
// and otherwise anything: the key the relay signs with, somebody else's key, a valid key nobody signs
// with, or 48 bytes that are no public key at all.  The relays answer with real, really signed bids
// (Bellatrix, Capella, Deneb), scripted auction by auction.
//
// The strategy verifies each bid in a goroutine of its own (builderBid), where a panic cannot be
// recovered: it ends the process.  The sessions therefore run in a WORKER PROCESS (this test binary,
// TestBidWorker) that reports after every auction; a worker that dies in the middle of an auction is
// the observation "panic" for that auction, with a replayable input, instead of the end of the
// harness.  On a tree that does not crash one worker serves all sessions of a run.

import (
	"bufio"
	"bytes"
	"context"
	"crypto/sha256"
	"encoding/binary"
	"encoding/json"
	"errors"
	"fmt"
	"os"
	"os/exec"
	"sort"
	"strings"
	"sync"
	"testing"
	"testing/synctest"
	"time"

	"github.com/attestantio/go-block-relay/services/blockauctioneer"
	builderapi "github.com/attestantio/go-builder-client/api"
	builderbellatrix "github.com/attestantio/go-builder-client/api/bellatrix"
	buildercapella "github.com/attestantio/go-builder-client/api/capella"
	builderdeneb "github.com/attestantio/go-builder-client/api/deneb"
	builderspec "github.com/attestantio/go-builder-client/spec"
	"github.com/attestantio/go-eth2-client/api"
	"github.com/attestantio/go-eth2-client/spec"
	"github.com/attestantio/go-eth2-client/spec/bellatrix"
	"github.com/attestantio/go-eth2-client/spec/capella"
	"github.com/attestantio/go-eth2-client/spec/deneb"
	"github.com/attestantio/go-eth2-client/spec/phase0"
	"github.com/attestantio/vouch/mock"
	"github.com/attestantio/vouch/services/beaconblockproposer"
	"github.com/attestantio/vouch/services/blockrelay"
	nullmetrics "github.com/attestantio/vouch/services/metrics/null"
	bestbid "github.com/attestantio/vouch/strategies/builderbid/best"
	"github.com/attestantio/vouch/util"
	"github.com/holiman/uint256"
	"github.com/rs/zerolog"
	"github.com/shopspring/decimal"
	e2types "github.com/wealdtech/go-eth2-types/v2"

	. "verifharness/common"
	"verifharness/mocks"
)

// ---------------------------------------------------------------------------------------------
// input

// KeyIn: 48 bytes.  Kind "signer": the public key of signer N (N >= 900: a valid key nobody signs
// with: 900 the point at infinity, 901 the infinity flag with a non-zero tail, 902.. the negation of
// signer N-900's key).  Kind "invalid": the N-th pattern of 48 bytes that is no public key.
type KeyIn struct {
	Kind string `json:"kind"`
	N    int    `json:"n"`
}

// SigIn: 96 bytes.  "by": the signature of signer N over this bid; "othermsg": signer N's signature
// over another bid; "malformed": the N-th pattern of 96 bytes that is no signature.
type SigIn struct {
	Kind string `json:"kind"`
	N    int    `json:"n"`
}

type BidIn struct {
	Kind    string `json:"kind"`            // err | hang | nodata | empty | bid
	Value   uint64 `json:"value,omitempty"` // version (value mod 3: Bellatrix, Capella, Deneb) and header are derived from the value: equal values, equal bids
	FeeZero bool   `json:"fee_zero,omitempty"`
	BadTime bool   `json:"bad_time,omitempty"`
	Sig     SigIn  `json:"sig"`
}

// BidRelayIn: one entry of the proposer's relay list in one auction.
type BidRelayIn struct {
	ID       int    `json:"id"`     // the relay (its address); its own signer is ID+1
	Client   string `json:"client"` // full | empty | parse | newerr | nounblind | nobid
	CfgKey   *KeyIn `json:"cfg_key,omitempty"`
	ProvKey  *KeyIn `json:"prov_key,omitempty"`
	MinValue uint64 `json:"min_value,omitempty"`
	Bid      BidIn  `json:"bid"`
}

type BidSeqIn struct {
	Auctions [][]BidRelayIn `json:"auctions"`
	Trace    bool           `json:"trace_log,omitempty"`
}

// AuctionObs: what BuilderBid returned (relay ids).
type AuctionObs struct {
	Panic        bool     `json:"panic,omitempty"`
	Message      string   `json:"message,omitempty"`
	All          []uint64 `json:"all_providers"`
	Winners      []uint64 `json:"winners"`
	Score        uint64   `json:"score"`
	Participants []uint64 `json:"participants"`
}

// ---------------------------------------------------------------------------------------------
// keys, signatures, bids (worker side)

const nInvalidKeys = 9
const nMalformedSigs = 3

var blsOnce sync.Once
var signers = map[int]*e2types.BLSPrivateKey{}
var signersMu sync.Mutex

func signer(n int) *e2types.BLSPrivateKey {
	signersMu.Lock()
	defer signersMu.Unlock()
	if sk, ok := signers[n]; ok {
		return sk
	}
	h := sha256.Sum256([]byte(fmt.Sprintf("c16 bid signer %d", n)))
	h[0] &= 0x3f // below the group order
	sk, err := e2types.BLSPrivateKeyFromBytes(h[:])
	if err != nil {
		panic(fmt.Sprintf("harness: signer %d: %v", n, err))
	}
	signers[n] = sk
	return sk
}

func keyBytes(k KeyIn) phase0.BLSPubKey {
	var out phase0.BLSPubKey
	switch k.Kind {
	case "signer":
		switch {
		case k.N == 900:
			out[0] = 0xc0
		case k.N == 901:
			out[0] = 0xc0
			out[47] = 1
		case k.N > 901:
			copy(out[:], signer(k.N-900).PublicKey().Marshal())
			out[0] ^= 0x20 // the other root: the negated point, a valid key without signer
		default:
			copy(out[:], signer(k.N).PublicKey().Marshal())
		}
	default:
		switch n := k.N % nInvalidKeys; n {
		case 0: // the right length and flags, x not on the curve
			b := []byte{0x82, 0x1f, 0x2a, 0x65, 0xaf, 0xb7, 0x0e, 0x7f, 0x2e, 0x82, 0x0a, 0x92, 0x5a, 0x9b, 0x4c, 0x80, 0xa1, 0x59, 0x62, 0x05, 0x82, 0xc1, 0x76, 0x6b,
				0x1b, 0x09, 0x72, 0x9f, 0xec, 0x17, 0x8b, 0x11, 0xea, 0x22, 0xab, 0xb3, 0xa5, 0x1f, 0x07, 0xb2, 0x88, 0xbe, 0x81, 0x5a, 0x1a, 0x2f, 0xf5, 0x15}
			copy(out[:], b)
		case 1:
			for i := range out {
				out[i] = 0xff
			}
		case 2: // all zeroes: what an operator gets from a zero-valued field
		case 3:
			out[0] = 0x40
		default: // a real key: compression flag cleared (4, 5), a bit of x flipped (6, 7, 8)
			copy(out[:], signer(n).PublicKey().Marshal())
			if n < 6 {
				out[0] &^= 0x80
			} else {
				out[47] ^= 1
			}
		}
	}
	return out
}

func keyTerm(k *KeyIn) string {
	if k == nil {
		return None()
	}
	if k.Kind == "signer" {
		return Some(App("KValid", N(uint64(k.N))))
	}
	return Some(App("KInvalid", N(uint64(k.N%nInvalidKeys))))
}

func sigTerm(s SigIn) string {
	switch s.Kind {
	case "by":
		return App("SigBy", N(uint64(s.N)))
	case "othermsg":
		return App("SigBy", N(uint64(5000+s.N))) // verifies under nobody's key
	}
	return "SigMalformed"
}

// blsSelfCheck: the classification of the byte patterns above is the library's own.
func blsSelfCheck() error {
	for n := 0; n < nInvalidKeys; n++ {
		kb := keyBytes(KeyIn{Kind: "invalid", N: n})
		if pk, err := e2types.BLSPublicKeyFromBytes(kb[:]); err == nil || pk != nil {
			return fmt.Errorf("invalid key pattern %d deserializes", n)
		}
	}
	for _, n := range []int{1, 2, 3, 900, 901, 902, 903} {
		kb := keyBytes(KeyIn{Kind: "signer", N: n})
		if _, err := e2types.BLSPublicKeyFromBytes(kb[:]); err != nil {
			return fmt.Errorf("valid key %d does not deserialize: %v", n, err)
		}
	}
	for n := 0; n < nMalformedSigs; n++ {
		sb := malformedSig(n, signer(1).Sign(make([]byte, 32)).Marshal())
		if _, err := e2types.BLSSignatureFromBytes(sb); err == nil {
			return fmt.Errorf("malformed signature pattern %d deserializes", n)
		}
	}
	return nil
}

func malformedSig(n int, good []byte) []byte {
	b := make([]byte, 96)
	switch n % nMalformedSigs {
	case 0: // all zeroes
	case 1:
		for i := range b {
			b[i] = 0xff
		}
	default:
		copy(b, good)
		b[50] ^= 1
	}
	return b
}

var bidDomain phase0.Domain

func valueHash(tag string, v uint64) (out [32]byte) {
	var b [8]byte
	binary.BigEndian.PutUint64(b[:], v)
	return sha256.Sum256(append([]byte(tag), b[:]...))
}

// unsignedBid: a complete bid of the given version; everything in the header follows from the value.
func unsignedBid(b BidIn, value uint64, signerN int, ts uint64) *builderspec.VersionedSignedBuilderBid {
	fee := bellatrix.ExecutionAddress{0x32, 0x07, 0x15}
	if b.FeeZero {
		fee = bellatrix.ExecutionAddress{}
	}
	if b.BadTime {
		ts++
	}
	var pk phase0.BLSPubKey
	copy(pk[:], signer(signerN).PublicKey().Marshal())
	val := uint256.NewInt(value)
	out := &builderspec.VersionedSignedBuilderBid{}
	switch value % 3 {
	case 0:
		out.Version = spec.DataVersionBellatrix
		out.Bellatrix = &builderbellatrix.SignedBuilderBid{Message: &builderbellatrix.BuilderBid{Value: val, Pubkey: pk,
			Header: &bellatrix.ExecutionPayloadHeader{ParentHash: phase0.Hash32{1}, FeeRecipient: fee, StateRoot: valueHash("state", value),
				BlockNumber: value, GasLimit: 30000000, GasUsed: 42000, Timestamp: ts, ExtraData: []byte("c16"),
				BlockHash: valueHash("block", value), TransactionsRoot: valueHash("txs", value)}}}
	case 1:
		out.Version = spec.DataVersionCapella
		out.Capella = &buildercapella.SignedBuilderBid{Message: &buildercapella.BuilderBid{Value: val, Pubkey: pk,
			Header: &capella.ExecutionPayloadHeader{ParentHash: phase0.Hash32{1}, FeeRecipient: fee, StateRoot: valueHash("state", value),
				BlockNumber: value, GasLimit: 30000000, GasUsed: 42000, Timestamp: ts, ExtraData: []byte("c16"),
				BlockHash: valueHash("block", value), TransactionsRoot: valueHash("txs", value), WithdrawalsRoot: valueHash("wd", value)}}}
	default:
		out.Version = spec.DataVersionDeneb
		out.Deneb = &builderdeneb.SignedBuilderBid{Message: &builderdeneb.BuilderBid{Value: val, Pubkey: pk,
			BlobKZGCommitments: []deneb.KZGCommitment{},
			Header: &deneb.ExecutionPayloadHeader{ParentHash: phase0.Hash32{1}, FeeRecipient: fee, StateRoot: valueHash("state", value),
				BlockNumber: value, GasLimit: 30000000, GasUsed: 42000, Timestamp: ts, ExtraData: []byte("c16"), BaseFeePerGas: uint256.NewInt(7),
				BlockHash: valueHash("block", value), TransactionsRoot: valueHash("txs", value), WithdrawalsRoot: valueHash("wd", value)}}}
	}
	return out
}

func signingRoot(bid *builderspec.VersionedSignedBuilderBid) [32]byte {
	root, err := bid.MessageHashTreeRoot()
	if err != nil {
		panic(fmt.Sprintf("harness: bid message root: %v", err))
	}
	sr, err := (&phase0.SigningData{ObjectRoot: root, Domain: bidDomain}).HashTreeRoot()
	if err != nil {
		panic(fmt.Sprintf("harness: signing root: %v", err))
	}
	return sr
}

// makeBid: the bid a relay (own signer relayID+1) serves, signed as the input says.
func makeBid(b BidIn, relayID int, ts uint64) *builderspec.VersionedSignedBuilderBid {
	own := relayID + 1
	bid := unsignedBid(b, b.Value, own, ts)
	var sigBytes []byte
	switch b.Sig.Kind {
	case "by":
		sr := signingRoot(bid)
		sigBytes = signer(b.Sig.N).Sign(sr[:]).Marshal()
	case "othermsg":
		sr := signingRoot(unsignedBid(b, b.Value+1, own, ts))
		sigBytes = signer(b.Sig.N).Sign(sr[:]).Marshal()
	default:
		sr := signingRoot(bid)
		sigBytes = malformedSig(b.Sig.N, signer(own).Sign(sr[:]).Marshal())
	}
	var sig phase0.BLSSignature
	copy(sig[:], sigBytes)
	switch {
	case bid.Bellatrix != nil:
		bid.Bellatrix.Signature = sig
	case bid.Capella != nil:
		bid.Capella.Signature = sig
	default:
		bid.Deneb.Signature = sig
	}
	return bid
}

// ---------------------------------------------------------------------------------------------
// the relay mock: one per relay for the whole session; its URL key and its answer are set before
// every auction

type bidRelay struct {
	id     int
	addr   string
	mu     sync.Mutex
	prov   *phase0.BLSPubKey
	answer BidIn
	bid    *builderspec.VersionedSignedBuilderBid
}

func (m *bidRelay) Name() string    { return fmt.Sprintf("relay-%d", m.id) }
func (m *bidRelay) Address() string { return m.addr }
func (m *bidRelay) Pubkey() *phase0.BLSPubKey {
	m.mu.Lock()
	defer m.mu.Unlock()
	return m.prov
}

func (m *bidRelay) builderBid(ctx context.Context) (*builderapi.Response[*builderspec.VersionedSignedBuilderBid], error) {
	if err := ctx.Err(); err != nil {
		return nil, err
	}
	m.mu.Lock()
	a, bid := m.answer, m.bid
	m.mu.Unlock()
	switch a.Kind {
	case "hang":
		<-ctx.Done()
		return nil, ctx.Err()
	case "nodata":
		return &builderapi.Response[*builderspec.VersionedSignedBuilderBid]{Metadata: map[string]any{}}, nil
	case "empty":
		return &builderapi.Response[*builderspec.VersionedSignedBuilderBid]{Data: &builderspec.VersionedSignedBuilderBid{Version: spec.DataVersionDeneb}, Metadata: map[string]any{}}, nil
	case "bid":
		return &builderapi.Response[*builderspec.VersionedSignedBuilderBid]{Data: bid, Metadata: map[string]any{}}, nil
	}
	return nil, errors.New("scripted relay failure")
}

type bidRelayFull struct{ *bidRelay }

func (m bidRelayFull) BuilderBid(ctx context.Context, _ *builderapi.BuilderBidOpts) (*builderapi.Response[*builderspec.VersionedSignedBuilderBid], error) {
	return m.builderBid(ctx)
}
func (bidRelayFull) UnblindProposal(context.Context, *builderapi.UnblindProposalOpts) (*builderapi.Response[*api.VersionedSignedProposal], error) {
	return nil, errors.New("not scripted")
}

type bidRelayBidOnly struct{ *bidRelay }

func (m bidRelayBidOnly) BuilderBid(ctx context.Context, _ *builderapi.BuilderBidOpts) (*builderapi.Response[*builderspec.VersionedSignedBuilderBid], error) {
	return m.builderBid(ctx)
}

func bidRelayAddr(r BidRelayIn) string {
	switch r.Client {
	case "empty":
		return ""
	case "parse":
		return fmt.Sprintf(parseErrAddrs[r.ID%len(parseErrAddrs)], r.ID)
	case "newerr":
		return fmt.Sprintf(newErrAddrs[r.ID%2], r.ID)
	}
	return fmt.Sprintf("http://relay-%d-%s.c16.invalid:18550", r.ID, r.Client)
}

// ---------------------------------------------------------------------------------------------
// the session on the real strategy (worker side).  emit is called after every auction.

func runBidSessionReal(t *testing.T, in *BidSeqIn, emit func(AuctionObs)) {
	level := zerolog.Disabled
	if in.Trace {
		level = zerolog.TraceLevel
	}
	synctest.Test(t, func(t *testing.T) {
		ctx := context.Background()
		chainTime := &mocks.ChainTime{Genesis: time.Now().Add(-12345 * 12 * time.Second), SlotDuration: 12 * time.Second, SPE: 32}
		util.ResetBuilderClientsC09()
		defer util.ResetBuilderClientsC09()
		strat, err := bestbid.New(ctx, bestbid.WithLogLevel(level), bestbid.WithMonitor(nullmetrics.New()),
			bestbid.WithSpecProvider(mock.NewSpecProvider()), bestbid.WithDomainProvider(mock.NewDomainProvider()),
			bestbid.WithChainTime(chainTime), bestbid.WithTimeout(2*time.Second), bestbid.WithReleaseVersion("verif"))
		if err != nil {
			t.Fatalf("builder bid strategy constructor: %v", err)
		}
		clients := map[string]*bidRelay{}
		for ai, auction := range in.Auctions {
			slot := phase0.Slot(12345 + ai)
			ts := uint64(chainTime.StartOfSlot(slot).Unix())
			addrID := map[string]uint64{}
			relays := make([]*beaconblockproposer.RelayConfig, 0, len(auction))
			for _, r := range auction {
				addr := bidRelayAddr(r)
				addrID[addr] = uint64(r.ID)
				switch r.Client {
				case "full", "nounblind", "nobid":
					m := clients[addr]
					if m == nil {
						m = &bidRelay{id: r.ID, addr: addr}
						clients[addr] = m
						switch r.Client {
						case "full":
							util.InjectBuilderClientC09(addr, bidRelayFull{m})
						case "nounblind":
							util.InjectBuilderClientC09(addr, bidRelayBidOnly{m})
						default:
							util.InjectBuilderClientC09(addr, m)
						}
					}
					m.mu.Lock()
					m.prov = nil
					if r.ProvKey != nil {
						kb := keyBytes(*r.ProvKey)
						m.prov = &kb
					}
					m.answer = r.Bid
					m.bid = nil
					if r.Bid.Kind == "bid" {
						m.bid = makeBid(r.Bid, r.ID, ts)
					}
					m.mu.Unlock()
				}
				rc := &beaconblockproposer.RelayConfig{Address: addr, FeeRecipient: bellatrix.ExecutionAddress{1}, GasLimit: 30000000,
					MinValue: decimal.NewFromUint64(r.MinValue)}
				if r.CfgKey != nil {
					kb := keyBytes(*r.CfgKey)
					rc.PublicKey = &kb
				}
				relays = append(relays, rc)
			}
			actx, cancel := context.WithCancel(ctx)
			var res *blockauctioneer.Results
			panicked, msg := catch(func() {
				res, _ = strat.BuilderBid(actx, slot, phase0.Hash32{1}, phase0.BLSPubKey{0xaa},
					&beaconblockproposer.ProposerConfig{FeeRecipient: bellatrix.ExecutionAddress{1}, Relays: relays},
					map[phase0.BLSPubKey]*blockrelay.BuilderConfig{})
			})
			cancel()
			synctest.Wait() // the relays' goroutines of this auction have ended
			if panicked {
				emit(AuctionObs{Panic: true, Message: msg})
				return
			}
			o := AuctionObs{All: []uint64{}, Winners: []uint64{}, Participants: []uint64{}}
			if res != nil {
				for _, p := range res.AllProviders {
					o.All = append(o.All, addrID[p.Address()])
				}
				for _, p := range res.Providers {
					o.Winners = append(o.Winners, addrID[p.Address()])
				}
				if res.WinningParticipation != nil && res.WinningParticipation.Score != nil {
					o.Score = res.WinningParticipation.Score.Uint64()
				}
				for a := range res.Participation {
					o.Participants = append(o.Participants, addrID[a])
				}
			}
			sort.Slice(o.Winners, func(i, j int) bool { return o.Winners[i] < o.Winners[j] })
			sort.Slice(o.Participants, func(i, j int) bool { return o.Participants[i] < o.Participants[j] })
			emit(o)
		}
	})
}

// ---------------------------------------------------------------------------------------------
// worker process: requests (one JSON input per line) on stdin, answers on fd 3:
//   "A <AuctionObs>" after every auction, "D" when the session is over.

func TestBidWorker(t *testing.T) {
	if os.Getenv("C16_BID_WORKER") == "" {
		t.Skip("only as the worker process of TestC16")
	}
	setup()
	out := os.NewFile(3, "answers")
	if out == nil {
		t.Fatal("no answer pipe")
	}
	blsOnce.Do(func() {
		if err := e2types.InitBLS(); err != nil {
			t.Fatalf("BLS: %v", err)
		}
	})
	if err := blsSelfCheck(); err != nil {
		fmt.Fprintf(out, "F %v\n", err)
		t.Fatal(err)
	}
	dom, err := mock.NewDomainProvider().GenesisDomain(context.Background(), phase0.DomainType{0x00, 0x00, 0x00, 0x01})
	if err != nil {
		t.Fatal(err)
	}
	bidDomain = dom
	fmt.Fprintln(out, "R")
	rd := bufio.NewReaderSize(os.Stdin, 1<<20)
	for {
		line, err := rd.ReadBytes('\n')
		if len(bytes.TrimSpace(line)) > 0 {
			var req workerReq
			if jerr := json.Unmarshal(line, &req); jerr != nil {
				fmt.Fprintf(out, "F bad request: %v\n", jerr)
				t.Fatal(jerr)
			}
			emit := func(o AuctionObs) {
				data, _ := json.Marshal(o)
				fmt.Fprintf(out, "A %s\n", data)
			}
			switch {
			case req.BidSeq != nil:
				runBidSessionReal(t, req.BidSeq, emit)
			case req.Relays != nil:
				p, msg, all := runRelaysReal(t, req.Relays)
				emit(AuctionObs{Panic: p, Message: msg, All: all})
			}
			fmt.Fprintln(out, "D")
		}
		if err != nil {
			return
		}
	}
}

// ---------------------------------------------------------------------------------------------
// parent side

type bidWorker struct {
	cmd    *exec.Cmd
	stdin  *os.File
	answer *bufio.Reader
	rpipe  *os.File
	stderr *bytes.Buffer
	lines  chan string
}

var theBidWorker *bidWorker
var bidWorkerStarts int

func startBidWorker(t *testing.T) *bidWorker {
	exe, err := os.Executable()
	if err != nil {
		t.Fatalf("worker: %v", err)
	}
	inR, inW, err := os.Pipe()
	if err != nil {
		t.Fatal(err)
	}
	outR, outW, err := os.Pipe()
	if err != nil {
		t.Fatal(err)
	}
	w := &bidWorker{stderr: &bytes.Buffer{}, stdin: inW, rpipe: outR, lines: make(chan string, 64)}
	w.cmd = exec.Command(exe, "-test.run", "^TestBidWorker$", "-test.count=1", "-test.timeout", "3600s")
	w.cmd.Env = append(os.Environ(), "C16_BID_WORKER=1")
	w.cmd.Stdin = inR
	w.cmd.Stdout = w.stderr
	w.cmd.Stderr = w.stderr
	w.cmd.ExtraFiles = []*os.File{outW}
	if err := w.cmd.Start(); err != nil {
		t.Fatalf("worker: %v", err)
	}
	inR.Close()
	outW.Close()
	bidWorkerStarts++
	go func() {
		sc := bufio.NewScanner(outR)
		sc.Buffer(make([]byte, 1<<20), 1<<24)
		for sc.Scan() {
			w.lines <- sc.Text()
		}
		close(w.lines)
	}()
	if l, ok := w.next(60 * time.Second); !ok || l != "R" {
		w.kill()
		t.Fatalf("worker did not start: %q\n%s", l, w.stderr.String())
	}
	return w
}

func (w *bidWorker) next(d time.Duration) (string, bool) {
	select {
	case l, ok := <-w.lines:
		return l, ok
	case <-time.After(d):
		return "timeout", false
	}
}

func (w *bidWorker) kill() {
	w.stdin.Close()
	_ = w.cmd.Process.Kill()
	_ = w.cmd.Wait()
	w.rpipe.Close()
}

func stopBidWorker() {
	if w := theBidWorker; w != nil {
		theBidWorker = nil
		w.stdin.Close()
		done := make(chan struct{})
		go func() { _ = w.cmd.Wait(); close(done) }()
		select {
		case <-done:
		case <-time.After(20 * time.Second):
			_ = w.cmd.Process.Kill()
			<-done
		}
		w.rpipe.Close()
	}
}

// crashMessage: the runtime's report of what ended the worker.
func crashMessage(stderr string) (string, bool) {
	for _, l := range strings.Split(stderr, "\n") {
		if strings.HasPrefix(l, "panic: ") || strings.HasPrefix(l, "fatal error: ") {
			if strings.Contains(l, "deadlock: all goroutines in bubble are blocked") || strings.Contains(l, "harness:") {
				return l, false // a fault of the harness, not of the code under test
			}
			if len(l) > 200 {
				l = l[:200]
			}
			return l, true
		}
	}
	return "", false
}

// workerReq: one request to the worker: a session of the builder-bid strategy, or one auction of the
// relays path (p2_relays_test.go).
type workerReq struct {
	BidSeq *BidSeqIn `json:"bidseq,omitempty"`
	Relays []RelayIn `json:"relays,omitempty"`
}

// workerCall runs one request in the worker; a worker that dies is the panic of the auction in progress.
func workerCall(t *testing.T, in workerReq) []AuctionObs {
	if theBidWorker == nil {
		theBidWorker = startBidWorker(t)
		t.Cleanup(stopBidWorker)
	}
	w := theBidWorker
	req, _ := json.Marshal(in)
	if _, err := w.stdin.Write(append(req, '\n')); err != nil {
		t.Fatalf("worker: %v\n%s", err, w.stderr.String())
	}
	var obs []AuctionObs
	for {
		l, ok := w.next(120 * time.Second)
		switch {
		case ok && l == "D":
			return obs
		case ok && strings.HasPrefix(l, "A "):
			var o AuctionObs
			if err := json.Unmarshal([]byte(l[2:]), &o); err != nil {
				t.Fatalf("worker answer %q: %v", l, err)
			}
			obs = append(obs, o)
		case ok:
			t.Fatalf("worker: %s\n%s", l, w.stderr.String())
		case l == "timeout":
			w.kill()
			theBidWorker = nil
			t.Fatalf("worker: no answer within two minutes\n%s", w.stderr.String())
		default: // the answer pipe closed: the process is gone
			_ = w.cmd.Wait()
			w.stdin.Close()
			w.rpipe.Close()
			theBidWorker = nil
			msg, genuine := crashMessage(w.stderr.String())
			if !genuine {
				tail := w.stderr.String()
				if len(tail) > 3000 {
					tail = tail[len(tail)-3000:]
				}
				t.Fatalf("worker ended without a panic of the code under test (%s):\n%s", msg, tail)
			}
			return append(obs, AuctionObs{Panic: true, Message: msg})
		}
	}
}

func clientTerm(r BidRelayIn) string {
	switch r.Client {
	case "empty":
		return "FEmpty"
	case "parse":
		return "FParseErr"
	case "newerr":
		return "FNewErr"
	case "nounblind":
		return App("FClient", N(uint64(r.ID)), "true", "false")
	case "nobid":
		return App("FClient", N(uint64(r.ID)), "false", "false")
	}
	return App("FClient", N(uint64(r.ID)), "true", "true")
}

func bidTerm(b BidIn) string {
	switch b.Kind {
	case "hang":
		return "BdHang"
	case "nodata":
		return "BdNoData"
	case "empty":
		return "BdEmpty"
	case "bid":
		return App("BdBid", N(b.Value), N(b.Value), Bool(b.FeeZero), Bool(!b.BadTime), sigTerm(b.Sig))
	}
	return "BdErr"
}

func (k *KeyIn) invalid() bool { return k != nil && k.Kind == "invalid" }

// effective: the key the strategy checks the relay's bids against.
func (r BidRelayIn) effective() *KeyIn {
	if r.CfgKey != nil {
		return r.CfgKey
	}
	return r.ProvKey
}

// reachesVerification: the relay's bid gets as far as the signature check.
func (r BidRelayIn) reachesVerification() bool {
	return r.Client == "full" && r.Bid.Kind == "bid" && r.Bid.Value != 0 && r.Bid.Value >= r.MinValue && !r.Bid.FeeZero && !r.Bid.BadTime
}

func runBidSeq(t *testing.T, in *BidSeqIn) result {
	obs := workerCall(t, workerReq{BidSeq: in})
	res := result{}
	auctions := make([]string, len(in.Auctions))
	seenInvalid := map[KeyIn]int{}
	for ai, a := range in.Auctions {
		items := make([]string, len(a))
		for i, r := range a {
			items[i] = Record("br_client", clientTerm(r), "br_cfg_key", keyTerm(r.CfgKey), "br_prov_key", keyTerm(r.ProvKey),
				"br_min", N(r.MinValue), "br_answer", bidTerm(r.Bid))
			res.counts = append(res.counts, "client:"+r.Client, "bid:"+r.Bid.Kind)
			k := r.effective()
			switch {
			case k == nil:
				res.counts = append(res.counts, "key:none")
			case r.CfgKey != nil:
				res.counts = append(res.counts, "key:config:"+k.Kind)
			default:
				res.counts = append(res.counts, "key:url:"+k.Kind)
			}
			if r.reachesVerification() {
				res.counts = append(res.counts, "sig:"+r.Bid.Sig.Kind)
				if k != nil {
					res.nontrivial = true
				}
				if k.invalid() {
					kk := *k
					kk.N %= nInvalidKeys
					seenInvalid[kk]++
					if seenInvalid[kk] == 2 {
						res.counts = append(res.counts, "invalid-key-verified-again")
					}
				}
			}
		}
		auctions[ai] = List(items)
	}
	res.counts = append(res.counts, fmt.Sprintf("auctions:%d", len(in.Auctions)))
	res.inTerm = App("IBidSeq", List(auctions))
	terms := make([]string, len(obs))
	for i, o := range obs {
		if o.Panic {
			terms[i] = panicT
			res.obs.Panic, res.obs.Message = true, o.Message
			continue
		}
		terms[i] = okT(Pair(Pair(Pair(nlist(o.All), nlist(o.Winners)), N(o.Score)), nlist(o.Participants)))
	}
	res.obsTerm = App("OBidSeq", List(terms))
	res.obs.Detail = map[string]any{"auctions": obs}
	return res
}

// ---------------------------------------------------------------------------------------------
// generator

func genKey(r *Rand, own int) *KeyIn {
	switch k := r.Intn(12); {
	case k < 4:
		return &KeyIn{Kind: "signer", N: own}
	case k < 8:
		return &KeyIn{Kind: "invalid", N: r.Intn(nInvalidKeys)}
	case k < 10:
		return &KeyIn{Kind: "signer", N: 1 + r.Intn(5)} // somebody's key, maybe another relay's
	default:
		return &KeyIn{Kind: "signer", N: 900 + r.Intn(5)}
	}
}

func genBid(r *Rand, own int, value uint64) BidIn {
	b := BidIn{Kind: "bid", Value: value, Sig: SigIn{Kind: "by", N: own}}
	switch k := r.Intn(20); {
	case k < 11:
	case k < 12:
		b.Kind = "err"
	case k < 13:
		b.Kind = "nodata"
	case k < 14:
		b.Kind = "empty"
	case k < 15:
		b.Kind = "hang"
	case k < 16:
		b.FeeZero = true
	case k < 17:
		b.BadTime = true
	case k < 18:
		b.Value = 0
	case k < 19:
		b.Sig = SigIn{Kind: "malformed", N: r.Intn(nMalformedSigs)}
	default:
		if r.Bool() {
			b.Sig = SigIn{Kind: "othermsg", N: own}
		} else {
			b.Sig = SigIn{Kind: "by", N: 1 + r.Intn(5)}
		}
	}
	return b
}

type relayTemplate struct {
	id      int
	client  string
	cfg     *KeyIn
	prov    *KeyIn
	min     uint64
	present int // chances out of 8 to take part in an auction
}

func genBidSeq(r *Rand) *BidSeqIn {
	in := &BidSeqIn{Trace: r.Chance(1, 6)}
	nrel := r.Range(1, 4)
	nauc := r.Range(2, 4)
	family := r.Intn(8)
	fixedSig := r.Intn(2) // the malformed signature family 6 repeats
	tmpl := make([]relayTemplate, nrel)
	for i := range tmpl {
		tp := relayTemplate{id: i, client: "full", present: 7}
		switch k := r.Intn(12); {
		case k < 1:
			tp.client = []string{"empty", "parse", "newerr", "nounblind", "nobid"}[r.Intn(5)]
		}
		switch k := r.Intn(6); {
		case k < 1: // no key anywhere
		case k < 4:
			tp.cfg = genKey(r, i+1)
			if r.Chance(1, 4) {
				tp.prov = genKey(r, i+1) // the configuration's key comes first
			}
		default:
			tp.prov = genKey(r, i+1)
		}
		if r.Chance(1, 4) {
			tp.min = uint64(r.Range(1, 60))
		}
		tmpl[i] = tp
	}
	switch family {
	case 0, 1: // a relay whose key is 48 bytes but no public key makes an acceptable bid in every auction
		bad := &KeyIn{Kind: "invalid", N: r.Intn(nInvalidKeys)}
		tmpl[0].client, tmpl[0].min, tmpl[0].present = "full", 0, 8
		if family == 0 {
			tmpl[0].cfg, tmpl[0].prov = bad, nil
		} else {
			tmpl[0].cfg, tmpl[0].prov = nil, bad
		}
	}
	for ai := 0; ai < nauc; ai++ {
		var a []BidRelayIn
		used := map[uint64]bool{}
		for _, tp := range tmpl {
			if !r.Chance(tp.present, 8) {
				continue
			}
			// equal values are equal bids; distinct relays mostly bid distinct values
			value := uint64(r.Range(1, 90))
			if len(used) > 0 && r.Chance(1, 5) {
				for v := range used {
					value = v
					break
				}
			}
			used[value] = true
			e := BidRelayIn{ID: tp.id, Client: tp.client, CfgKey: tp.cfg, ProvKey: tp.prov, MinValue: tp.min, Bid: genBid(r, tp.id+1, value)}
			switch {
			case family <= 1 && tp.id == 0:
				e.Bid = BidIn{Kind: "bid", Value: value, Sig: SigIn{Kind: "by", N: 1}}
			case family == 2 && r.Chance(1, 3):
				// the key changes between auctions (a refreshed configuration): from or to a key that is none
				e.CfgKey = genKey(r, tp.id+1)
			case family == 5 && tp.client == "full":
				// the relay's key changes from auction to auction between the key it signs with and another
				// valid one (a refreshed configuration), while its bids stay acceptable and signed by itself
				k := &KeyIn{Kind: "signer", N: tp.id + 1}
				if (ai+tp.id)%2 == 1 {
					k = &KeyIn{Kind: "signer", N: []int{tp.id + 2, 900, 901, 902 + tp.id}[r.Intn(4)]}
				}
				if tp.id%2 == 0 {
					e.CfgKey, e.ProvKey = k, nil
				} else {
					e.CfgKey, e.ProvKey = nil, k
				}
				e.MinValue = 0
				e.Bid = BidIn{Kind: "bid", Value: value, Sig: SigIn{Kind: "by", N: tp.id + 1}}
			case family == 6 && tp.id == 0:
				// the same 96 bytes that are no signature, auction after auction, from a relay with a proper key
				e.Client, e.MinValue = "full", 0
				if e.effective() == nil || e.effective().Kind != "signer" {
					e.CfgKey = &KeyIn{Kind: "signer", N: 1}
				}
				e.Bid = BidIn{Kind: "bid", Value: value, Sig: SigIn{Kind: "malformed", N: fixedSig}}
			case family == 3:
				// good signature in one auction, a bad one in the next (and the other way round)
				if (ai+tp.id)%2 == 1 {
					e.Bid = BidIn{Kind: "bid", Value: value, Sig: SigIn{Kind: "by", N: tp.id + 1}}
				} else if r.Bool() {
					e.Bid = BidIn{Kind: "bid", Value: value, Sig: SigIn{Kind: "othermsg", N: tp.id + 1}}
				} else {
					e.Bid = BidIn{Kind: "bid", Value: value, Sig: SigIn{Kind: "malformed", N: r.Intn(nMalformedSigs)}}
				}
			}
			a = append(a, e)
		}
		if len(a) == 0 {
			tp := tmpl[0]
			a = append(a, BidRelayIn{ID: tp.id, Client: tp.client, CfgKey: tp.cfg, ProvKey: tp.prov, MinValue: tp.min, Bid: genBid(r, tp.id+1, uint64(r.Range(1, 90)))})
		}
		if family == 4 && len(a) >= 2 {
			// two relays share one key in this auction (a relay listed under two addresses)
			a[1].CfgKey, a[1].ProvKey = a[0].effective(), nil
		}
		in.Auctions = append(in.Auctions, a)
	}
	return in
}
