package c16

import (
	"context"
	"errors"
	"fmt"
	"sync"
	"testing"
	"testing/synctest"
	"time"

	"github.com/attestantio/go-block-relay/services/blockauctioneer"
	builderapi "github.com/attestantio/go-builder-client/api"
	builderspec "github.com/attestantio/go-builder-client/spec"
	"github.com/attestantio/go-eth2-client/api"
	"github.com/attestantio/go-eth2-client/spec"
	"github.com/attestantio/go-eth2-client/spec/bellatrix"
	"github.com/attestantio/go-eth2-client/spec/phase0"
	"github.com/attestantio/vouch/mock"
	"github.com/attestantio/vouch/services/beaconblockproposer"
	"github.com/attestantio/vouch/services/blockrelay"
	nullmetrics "github.com/attestantio/vouch/services/metrics/null"
	bestbid "github.com/attestantio/vouch/strategies/builderbid/best"
	"github.com/attestantio/vouch/util"
	"github.com/rs/zerolog"
	"github.com/shopspring/decimal"

	. "verifharness/common"
	"verifharness/mocks"
)

// RelayIn: one entry of proposerConfig.Relays, by what util.FetchBuilderClient makes of its address.
type RelayIn struct {
	Kind    string `json:"kind"`    // empty | parse | newerr | full | nounblind | nobid
	Variant int    `json:"variant"` // which address of that kind
	Trace   bool   `json:"trace_log,omitempty"`
}

var parseErrAddrs = []string{
	"http://relay-%d.c16.invalid:%%zz", // invalid URL escape
	"http://[::1%d",                    // missing ']' in host
	"http://relay %d.c16.invalid",      // invalid character " " in host name
	"http://relay-%d.c16.invalid/\x7f", // invalid control character in URL
	"1%d:relay.c16.invalid",            // first path segment in URL cannot contain colon
}

var newErrAddrs = []string{
	"relay-%d.c16.invalid:port",           // parses as scheme:opaque; "http://"+address has a bad port
	"http://0xzz@relay-%d.c16.invalid",    // the user part is not a hex public key
	"https://relay-%d.c16.invalid:99999x", // hmm: rejected by url.Parse already? (kept under newerr only if it is not)
}

func relayAddr(i int, r RelayIn) string {
	switch r.Kind {
	case "empty":
		return ""
	case "parse":
		return fmt.Sprintf(parseErrAddrs[r.Variant%len(parseErrAddrs)], i)
	case "newerr":
		return fmt.Sprintf(newErrAddrs[r.Variant%2], i)
	}
	return fmt.Sprintf("http://relay-%d.c16.invalid:18550", i)
}

type p2relay struct {
	idx     int
	addr    string
	variant int
	mu      sync.Mutex
	calls   int
}

func (m *p2relay) Name() string              { return fmt.Sprintf("relay-%d", m.idx) }
func (m *p2relay) Address() string           { return m.addr }
func (m *p2relay) Pubkey() *phase0.BLSPubKey { return nil }

// bidAnswer: what a relay answers to BuilderBid, by the variant of its entry and the call number: a
// failure, an error-free response without data (no bid), or an empty bid; from the second call on
// (the code asks each relay once per auction) the next of the three.
func (m *p2relay) bidAnswer() (*builderapi.Response[*builderspec.VersionedSignedBuilderBid], error) {
	m.mu.Lock()
	m.calls++
	k := (m.variant/3 + m.calls - 1) % 3
	m.mu.Unlock()
	switch k {
	case 1:
		return &builderapi.Response[*builderspec.VersionedSignedBuilderBid]{Metadata: map[string]any{}}, nil
	case 2:
		return &builderapi.Response[*builderspec.VersionedSignedBuilderBid]{Data: &builderspec.VersionedSignedBuilderBid{Version: spec.DataVersionDeneb}, Metadata: map[string]any{}}, nil
	}
	return nil, errors.New("scripted relay failure")
}

type p2full struct{ *p2relay }

func (m p2full) BuilderBid(context.Context, *builderapi.BuilderBidOpts) (*builderapi.Response[*builderspec.VersionedSignedBuilderBid], error) {
	return m.bidAnswer()
}
func (p2full) UnblindProposal(context.Context, *builderapi.UnblindProposalOpts) (*builderapi.Response[*api.VersionedSignedProposal], error) {
	return nil, errors.New("not scripted")
}

type p2bidonly struct{ *p2relay }

func (m p2bidonly) BuilderBid(context.Context, *builderapi.BuilderBidOpts) (*builderapi.Response[*builderspec.VersionedSignedBuilderBid], error) {
	return m.bidAnswer()
}

// runRelays: the auction runs in the worker process (p10_bids_test.go): the strategy asks each relay in
// a goroutine of its own, where a panic cannot be recovered; a worker that dies is the observed panic.
func runRelays(t *testing.T, in []RelayIn) result {
	obs := workerCall(t, workerReq{Relays: in})
	var panicked bool
	var msg string
	var all []uint64
	for _, o := range obs {
		if o.Panic {
			panicked, msg = true, o.Message
		} else {
			all = o.All
		}
	}
	return relaysResult(in, panicked, msg, all)
}

// runRelaysReal: one BuilderBid of a fresh strategy over the relay list (worker side).
func runRelaysReal(t *testing.T, in []RelayIn) (panicked bool, msg string, all []uint64) {
	trace := len(in) > 0 && in[0].Trace
	synctest.Test(t, func(t *testing.T) {
		ctx, cancel := context.WithCancel(context.Background())
		defer cancel()
		chainTime := &mocks.ChainTime{Genesis: time.Now().Add(-12345 * 12 * time.Second), SlotDuration: 12 * time.Second, SPE: 32}
		util.ResetBuilderClientsC09()
		addrIdx := map[string]uint64{}
		relays := make([]*beaconblockproposer.RelayConfig, 0, len(in))
		for i, r := range in {
			addr := relayAddr(i, r)
			m := &p2relay{idx: i, addr: addr, variant: r.Variant}
			switch r.Kind {
			case "full":
				util.InjectBuilderClientC09(addr, p2full{m})
			case "nounblind":
				util.InjectBuilderClientC09(addr, p2bidonly{m})
			case "nobid":
				util.InjectBuilderClientC09(addr, m)
			}
			addrIdx[addr] = uint64(i)
			relays = append(relays, &beaconblockproposer.RelayConfig{Address: addr, FeeRecipient: bellatrix.ExecutionAddress{1}, GasLimit: 30000000, MinValue: decimal.Zero})
		}
		level := zerolog.Disabled
		if trace {
			level = zerolog.TraceLevel
		}
		strat, err := bestbid.New(ctx, bestbid.WithLogLevel(level), bestbid.WithMonitor(nullmetrics.New()),
			bestbid.WithSpecProvider(mock.NewSpecProvider()), bestbid.WithDomainProvider(mock.NewDomainProvider()),
			bestbid.WithChainTime(chainTime), bestbid.WithTimeout(2*time.Second), bestbid.WithReleaseVersion("verif"))
		if err != nil {
			t.Fatalf("builder bid strategy constructor: %v", err)
		}
		var res *blockauctioneer.Results
		panicked, msg = catch(func() {
			res, _ = strat.BuilderBid(ctx, 12345, phase0.Hash32{1}, phase0.BLSPubKey{0xaa},
				&beaconblockproposer.ProposerConfig{FeeRecipient: bellatrix.ExecutionAddress{1}, Relays: relays},
				map[phase0.BLSPubKey]*blockrelay.BuilderConfig{})
		})
		if res != nil {
			for _, p := range res.AllProviders {
				all = append(all, addrIdx[p.Address()])
			}
		}
		cancel()
		synctest.Wait()
	})
	util.ResetBuilderClientsC09()
	return panicked, msg, all
}

func relaysResult(in []RelayIn, panicked bool, msg string, all []uint64) result {
	items := make([]string, len(in))
	res := result{}
	for i, r := range in {
		switch r.Kind {
		case "empty":
			items[i] = "FEmpty"
		case "parse":
			items[i] = "FParseErr"
		case "newerr":
			items[i] = "FNewErr"
		case "full":
			items[i] = App("FClient", N(uint64(i)), "true", "true")
		case "nounblind":
			items[i] = App("FClient", N(uint64(i)), "true", "false")
		case "nobid":
			items[i] = App("FClient", N(uint64(i)), "false", "false")
		}
		res.counts = append(res.counts, "kind:"+r.Kind)
		if r.Kind != "full" {
			res.nontrivial = true
		}
	}
	res.inTerm = App("IRelays", List(items))
	if panicked {
		res.obsTerm = App("ORelays", panicT)
	} else {
		res.obsTerm = App("ORelays", okT(nlist(all)))
	}
	res.obs = Observed{Panic: panicked, Message: msg, Detail: map[string]any{"all_providers": all}}
	return res
}

func genRelays(r *Rand) []RelayIn {
	n := r.Range(1, 5)
	out := make([]RelayIn, n)
	for i := range out {
		switch k := r.Intn(10); {
		case k < 4:
			out[i].Kind = "full"
		case k < 5:
			out[i].Kind = "empty"
		case k < 7:
			out[i].Kind = "parse"
		case k < 8:
			out[i].Kind = "newerr"
		case k < 9:
			out[i].Kind = "nounblind"
		default:
			out[i].Kind = "nobid"
		}
		out[i].Variant = r.Intn(8)
	}
	out[0].Trace = r.Chance(1, 6)
	return out
}
