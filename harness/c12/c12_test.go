// C12: drives the real services/blockrelay/standard.Service (hook constructor, no REST daemon, no
// scheduler) with a scripted configuration source: sequences of configuration refreshes with every
// kind of outcome interleaved with proposer-settings lookups, auctions and registration rounds, some
// of them held *inside* the configuration read lock (the mock account blocks in Name(), which the
// version 2 configuration calls while resolving) so that "a writer arrives while a reader is
// inside" is forced, not sampled.  Runs outside synctest bubbles: a goroutine blocked on a
// sync.RWMutex is not durably blocked.  The only real waits are the watchdog on scenarios that hang.
package c12

import (
	"bufio"
	"context"
	"encoding/binary"
	"encoding/json"
	"errors"
	"fmt"
	"io"
	"os"
	"os/exec"
	"runtime"
	"strings"
	"sync"
	"sync/atomic"
	"testing"
	"time"

	builderclient "github.com/attestantio/go-builder-client"
	builderapi "github.com/attestantio/go-builder-client/api"
	"github.com/attestantio/go-eth2-client/spec/bellatrix"
	"github.com/attestantio/go-eth2-client/spec/phase0"
	"github.com/attestantio/go-block-relay/services/blockauctioneer"
	"github.com/attestantio/vouch/services/beaconblockproposer"
	"github.com/attestantio/vouch/services/blockrelay"
	standard "github.com/attestantio/vouch/services/blockrelay/standard"
	v2 "github.com/attestantio/vouch/services/blockrelay/v2"
	"github.com/attestantio/vouch/util"
	"github.com/google/uuid"
	"github.com/rs/zerolog"
	zerologger "github.com/rs/zerolog/log"
	e2types "github.com/wealdtech/go-eth2-types/v2"
	e2wtypes "github.com/wealdtech/go-eth2-wallet-types/v2"

	. "verifharness/common"
	"verifharness/mocks"
)

// ---------------------------------------------------------------------------------------------
// Input

type Doc struct {
	ID    uint64   `json:"id"`
	Bad   []uint64 `json:"bad,omitempty"`   // validators whose settings this document makes unresolvable
	Relay bool     `json:"relay,omitempty"` // the document configures a relay
	// the document carries proposer-specific entries (by public key and by account expression) even
	// when it makes nobody unresolvable; documents with unresolvable validators always carry them
	Entries bool `json:"entries,omitempty"`
	// an unversioned (version 1) document: default configuration plus one entry per validator 1..4.
	// Version 1 never asks the account for its name, so requests cannot be held inside the read lock
	// while such a document is active: only scenarios without gated requests use it.
	V1 bool `json:"v1,omitempty"`
	// a version 2 document that configures a relay (Relay) names a second relay next to it that cannot take
	// registrations: "unparsable" = an address no builder client can be made from (url.Parse rejects it, so
	// util.FetchBuilderClient fails every time it is asked), "nosubmit" = a relay whose builder client is not a
	// ValidatorRegistrationsSubmitter.  The code logs the error for that relay and carries on with the others:
	// nothing the model predicts depends on it (the document is d_relay = true either way).  Ignored without Relay.
	// A version 1 document lists it in the relays of its default and proposer entries.
	Extra string `json:"extra,omitempty"`
}

type Cmd struct {
	// lookup | auction | reg | refresh | release, and the requests made without an account, for a validator
	// Vouch holds no account for (public key pubkeyOfK(v, foreignK), same settings as validator v):
	// bid (BuilderBid with nothing cached -> immediateBuilderBid -> auctionBlock(..., nil)) |
	// fwd (ValidatorRegistrations: a registration forwarded by a beacon node) |
	// unblind (UnblindBlock -> unblindersForProposal) | lookup with noacc (ProposerConfig(ctx, nil, pubkey))
	Op        string `json:"op"`
	V         uint64 `json:"v,omitempty"`         // validator (lookup, auction, bid, fwd, unblind)
	NoAcc     bool   `json:"noacc,omitempty"`     // lookup: the account argument is nil
	// auction, bid: the slot the block space is auctioned for (0: slot 100).  Requests arrive for slots in
	// any order (a beacon node that is syncing or far behind asks for old slots); the answer does not
	// depend on the slot
	Slot uint64 `json:"slot,omitempty"`
	// lookup, auction: the account knows its wallet (e2wtypes.AccountWalletProvider), so its name in the
	// configuration's account expressions is "wallet-c12/account-v" instead of "<unknown>/account-v"
	Wallet bool `json:"wallet,omitempty"`
	// lookup, auction (with an account): hold the request inside ProposerConfig, i.e. INSIDE the configuration read
	// lock, until released.  fwd, reg: the relay sits on the POST of the registrations until released (or until the
	// request's context ends): the request is held OUTSIDE the lock, in submitRelayRegistrations
	Gate bool `json:"gate,omitempty"`
	// bid: requests with the same non-zero key ask for the same bid (same slot, parent hash and public key), as
	// beacon nodes do when they repeat a header request or several of them ask for the same one; 0: a bid of its own.
	// The generators stop using a key once a request with it may have obtained a bid (the answer would then come
	// from the bid cache instead of the configuration)
	Key uint64 `json:"key,omitempty"`
	Acc       string `json:"acc,omitempty"`       // refresh: accounts provider: "" (accounts) | err | none
	Fetch     string `json:"fetch,omitempty"`     // refresh: ok | err | malformed
	Malformed string `json:"malformed,omitempty"` // which malformed content
	Doc       *Doc   `json:"doc,omitempty"`       // refresh with fetch = ok
	K         int    `json:"k,omitempty"`         // release: number of the request (spawn order)
	// the goroutine of this request makes it for this many distinct validators with the same settings
	// as validator V (lookup, auction), or runs the registration round over this many accounts per
	// validator 1..4 (reg); 0 = 1.  All answers of one series must be the same answer.
	Many int `json:"many,omitempty"`
	// do not wait for the implementation to settle after this command: the next command is issued at
	// once, so that the requests of a group overlap (the generators never put a refresh in a group)
	NoSettle bool `json:"nosettle,omitempty"`
}

type Scenario struct {
	Init   string   `json:"init"`             // nil | empty : configuration before the first refresh
	URL    bool     `json:"url"`              // a configuration URL is set
	Stress bool     `json:"stress,omitempty"` // all commands at once, no settling; values not compared
	Repeat int      `json:"repeat,omitempty"` // stress: every request is issued this many times by its goroutine
	Cmds   []Cmd    `json:"cmds"`
	Tags   []string `json:"tags,omitempty"`
}

const nValidators = 4
const relayAddress = "https://relay.c12.example"

// relays that cannot take registrations (Doc.Extra)
const unparsableRelayAddress = "://unusable-relay.c12.example"
const noSubmitRelayAddress = "https://nosubmit-relay.c12.example"

func extraRelayAddress(d *Doc) string {
	if d == nil || !d.Relay {
		return ""
	}
	switch d.Extra {
	case "unparsable":
		return unparsableRelayAddress
	case "nosubmit":
		return noSubmitRelayAddress
	}
	return ""
}

// noSubmitClient is a builder client that is a builder.Service and nothing else.
type noSubmitClient struct{}

func (noSubmitClient) Name() string              { return "c12-nosubmit-relay" }
func (noSubmitClient) Address() string           { return noSubmitRelayAddress }
func (noSubmitClient) Pubkey() *phase0.BLSPubKey { return nil }

var malformedContents = map[string]string{
	"empty":        ``,
	"truncated":    `{"version":2,"fee_rec`,
	"badversion":   `{"version":3}`,
	"null":         `null`,
	"emptyobject":  `{}`,
	"array":        `[]`,
	"bad-fee":      `{"version":2,"fee_recipient":"0x12"}`,
	"null-relay":   `{"version":2,"relays":{"https://r.example":null}}`,
	"null-propose": `{"version":2,"proposers":[null]}`,
	"text":         `not json at all`,
}

var malformedNames []string

// ---------------------------------------------------------------------------------------------
// Mocks (scripted per request through the context)

type scriptKey struct{}

type script struct {
	acc       string // "", err, none
	many      int    // registration round: accounts per validator
	fetch     func() ([]byte, error)
	account   e2wtypes.Account
	bidFee    *uint64 // set by the builder-bid provider: id of the fee recipient it was asked with
	bidCalled bool
	forwarded atomic.Int64 // registrations handed to the relay on behalf of this request
	// the relay sits on the POST of this request's registrations until the gate is closed (nil: answers at once)
	relayGate    chan struct{}
	relayEntered chan struct{}
	relayOnce    sync.Once
}

func scriptOf(ctx context.Context) *script {
	s, _ := ctx.Value(scriptKey{}).(*script)
	return s
}

type fakePub struct{ b [48]byte }

func (p fakePub) Marshal() []byte            { return p.b[:] }
func (fakePub) Aggregate(e2types.PublicKey)  {}
func (p fakePub) Copy() e2types.PublicKey    { return p }
func pubkeyOf(v uint64) (pk phase0.BLSPubKey) { pk[0] = 0xa0; binary.BigEndian.PutUint64(pk[40:], v); return }

// the k-th validator with the settings of validator v (k = 0: validator v itself)
func pubkeyOfK(v, k uint64) (pk phase0.BLSPubKey) {
	pk = pubkeyOf(v)
	binary.BigEndian.PutUint64(pk[8:], k)
	return
}

type acct struct {
	v       uint64
	k       uint64        // series number (0: the validator itself)
	gate    chan struct{} // nil: never blocks
	entered chan struct{}
	once    sync.Once
}

func newAcct(v uint64, gated bool) *acct {
	a := &acct{v: v, entered: make(chan struct{})}
	if gated {
		a.gate = make(chan struct{})
	}
	return a
}
func (a *acct) ID() uuid.UUID { return uuid.UUID{byte(a.v)} }
func (a *acct) Name() string {
	if a.gate != nil {
		a.once.Do(func() { close(a.entered) })
		<-a.gate
	}
	if a.k > 0 {
		return fmt.Sprintf("account-%d-%d", a.v, a.k)
	}
	return fmt.Sprintf("account-%d", a.v)
}
func (a *acct) PublicKey() e2types.PublicKey { return fakePub{b: pubkeyOfK(a.v, a.k)} }

type accountsProvider struct{}

func (accountsProvider) AccountByPublicKey(ctx context.Context, pubkey phase0.BLSPubKey) (e2wtypes.Account, error) {
	if s := scriptOf(ctx); s != nil && s.account != nil {
		return s.account, nil
	}
	a := newAcct(binary.BigEndian.Uint64(pubkey[40:]), false)
	a.k = binary.BigEndian.Uint64(pubkey[8:])
	return a, nil
}

type validatingAccounts struct{}

func (validatingAccounts) ValidatingAccountsForEpoch(ctx context.Context, _ phase0.Epoch) (map[phase0.ValidatorIndex]e2wtypes.Account, error) {
	acc := ""
	if s := scriptOf(ctx); s != nil {
		acc = s.acc
	}
	switch acc {
	case "err":
		return nil, errors.New("scripted: accounts unavailable")
	case "none":
		return map[phase0.ValidatorIndex]e2wtypes.Account{}, nil
	}
	res := make(map[phase0.ValidatorIndex]e2wtypes.Account)
	many := uint64(1)
	if s := scriptOf(ctx); s != nil && s.many > 1 {
		many = uint64(s.many)
	}
	for v := uint64(1); v <= nValidators; v++ {
		for k := uint64(0); k < many; k++ {
			a := newAcct(v, false)
			a.k = k
			res[phase0.ValidatorIndex(v+k*(nValidators+1))] = a
		}
	}
	return res, nil
}
func (validatingAccounts) ValidatingAccountsForEpochByIndex(context.Context, phase0.Epoch, []phase0.ValidatorIndex) (map[phase0.ValidatorIndex]e2wtypes.Account, error) {
	return nil, errors.New("not used")
}
func (validatingAccounts) SyncCommitteeAccountsForEpoch(context.Context, phase0.Epoch) (map[phase0.ValidatorIndex]e2wtypes.Account, error) {
	return nil, errors.New("not used")
}
func (validatingAccounts) SyncCommitteeAccountsForEpochByIndex(context.Context, phase0.Epoch, []phase0.ValidatorIndex) (map[phase0.ValidatorIndex]e2wtypes.Account, error) {
	return nil, errors.New("not used")
}

type source struct{}

func (source) Fetch(ctx context.Context, _ string) ([]byte, error) {
	if s := scriptOf(ctx); s != nil && s.fetch != nil {
		return s.fetch()
	}
	return nil, errors.New("scripted: no content")
}

type regSigner struct{}

func (regSigner) SignValidatorRegistration(context.Context, e2wtypes.Account, *builderapi.VersionedValidatorRegistration) (phase0.BLSSignature, error) {
	return phase0.BLSSignature{1}, nil
}

type bidProvider struct{}

func (bidProvider) BuilderBid(ctx context.Context, _ phase0.Slot, _ phase0.Hash32, _ phase0.BLSPubKey,
	pc *beaconblockproposer.ProposerConfig, _ map[phase0.BLSPubKey]*blockrelay.BuilderConfig,
) (*blockauctioneer.Results, error) {
	if s := scriptOf(ctx); s != nil {
		id := feeID(pc.FeeRecipient)
		s.bidFee = &id
		s.bidCalled = true
	}
	return &blockauctioneer.Results{
		Participation: make(map[string]*blockauctioneer.Participation),
		AllProviders:  make([]builderclient.BuilderBidProvider, 0),
		Providers:     make([]builderclient.BuilderBidProvider, 0),
	}, nil
}

type relayClient struct{}

func (relayClient) Name() string             { return "c12-relay" }
func (relayClient) Address() string          { return relayAddress }
func (relayClient) Pubkey() *phase0.BLSPubKey { return nil }
func (relayClient) SubmitValidatorRegistrations(ctx context.Context, opts *builderapi.SubmitValidatorRegistrationsOpts) error {
	s := scriptOf(ctx)
	if s != nil && opts != nil {
		s.forwarded.Add(int64(len(opts.Registrations)))
	}
	if s != nil && s.relayGate != nil {
		// a slow relay: the answer comes when the harness says so, or never (the request's context decides)
		s.relayOnce.Do(func() { close(s.relayEntered) })
		select {
		case <-s.relayGate:
		case <-ctx.Done():
			return ctx.Err()
		}
	}
	return nil
}

// fee recipients: fallback = fa..00, document n = d0..n
func fallbackFee() (a bellatrix.ExecutionAddress) { a[0] = 0xfa; return }
func docFee(id uint64) string {
	var a bellatrix.ExecutionAddress
	a[0] = 0xd0
	binary.BigEndian.PutUint64(a[12:], id)
	return fmt.Sprintf("%#x", a)
}
func feeID(a bellatrix.ExecutionAddress) uint64 {
	if a[0] == 0xfa {
		return 0
	}
	return binary.BigEndian.Uint64(a[12:])
}

// baseMarker distinguishes the document-level fee recipient of a document with proposer entries from
// the fee recipient its entries give: every validator that resolves does so through an entry, so an
// answer carrying the marker means "the entry that applies to this validator was not applied".
const baseMarker = uint64(1) << 40

func docJSON(d *Doc) []byte {
	var b strings.Builder
	if d.V1 {
		relays := `"` + relayAddress + `"`
		if extra := extraRelayAddress(d); extra != "" {
			relays = `"` + extra + `",` + relays
		}
		entry := fmt.Sprintf(`{"fee_recipient":"%s","gas_limit":"30000000","builder":{"enabled":%v,"relays":[%s]}}`,
			docFee(d.ID), d.Relay, relays)
		fmt.Fprintf(&b, `{"default_config":%s,"proposer_config":{`, entry)
		for v := uint64(1); v <= nValidators; v++ {
			pk := pubkeyOf(v)
			if v > 1 {
				b.WriteString(",")
			}
			fmt.Fprintf(&b, `"%#x":%s`, pk[:], entry)
		}
		b.WriteString("}}")
		return []byte(b.String())
	}
	bad := map[uint64]bool{}
	for _, v := range d.Bad {
		bad[v] = true
	}
	entries := d.Entries || len(bad) > 0
	if entries {
		fmt.Fprintf(&b, `{"version":2,"fee_recipient":"%s"`, docFee(d.ID|baseMarker))
	} else {
		fmt.Fprintf(&b, `{"version":2,"fee_recipient":"%s"`, docFee(d.ID))
	}
	if d.Relay {
		if extra := extraRelayAddress(d); extra != "" {
			fmt.Fprintf(&b, `,"relays":{"%s":{},"%s":{}}`, extra, relayAddress)
		} else {
			fmt.Fprintf(&b, `,"relays":{"%s":{}}`, relayAddress)
		}
	}
	if entries {
		// the validators that still resolve get entries of their own (by public key for the validator
		// itself, by account expression for the whole series with its settings); everybody else runs
		// into an entry that names neither an account nor a validator, which ProposerConfig cannot apply
		b.WriteString(`,"proposers":[`)
		sep := ""
		for v := uint64(0); v <= nValidators; v++ {
			if !bad[v] {
				pk := pubkeyOf(v)
				fmt.Fprintf(&b, `%s{"proposer":"%#x","fee_recipient":"%s"}`, sep, pk[:], docFee(d.ID))
				sep = ","
				// the validator with the same settings that Vouch holds no account for
				pk = pubkeyOfK(v, foreignK)
				fmt.Fprintf(&b, `%s{"proposer":"%#x","fee_recipient":"%s"}`, sep, pk[:], docFee(d.ID))
			}
		}
		for v := uint64(0); v <= nValidators; v++ {
			if !bad[v] {
				fmt.Fprintf(&b, `%s{"proposer":"(<unknown>|wallet-c12)/account-%d(-[0-9]+)?","fee_recipient":"%s"}`, sep, v, docFee(d.ID))
				sep = ","
			}
		}
		if len(bad) > 0 {
			fmt.Fprintf(&b, `%s{"proposer":"0x%s"}`, sep, strings.Repeat("00", 48))
		}
		b.WriteString("]")
	}
	b.WriteString("}")
	return []byte(b.String())
}

// ---------------------------------------------------------------------------------------------
// Runner

type thread struct {
	cmd      Cmd
	account  *acct
	done     chan struct{}
	res      string // Gallina result
	panicked bool
	mixed    bool // the answers of one series of requests were not all the same
	finished bool
	doneAt   int
	inGate   bool
	released bool
	// the request is one that the RELAY holds (fwd, reg with gate), outside the configuration lock
	relayGate    chan struct{}
	relayEntered chan struct{}
}

// the channel that tells that the request has reached the point where it is held (nil: never held)
func (th *thread) enteredCh() chan struct{} {
	if th.relayEntered != nil {
		return th.relayEntered
	}
	if th.account != nil {
		return th.account.entered
	}
	return nil
}

// openGate lets a held request go
func (th *thread) openGate() {
	if th.released {
		return
	}
	if th.relayGate != nil {
		close(th.relayGate)
	}
	if th.account != nil && th.account.gate != nil {
		close(th.account.gate)
	}
	th.released = true
}

type runner struct {
	svc      *standard.Service
	threads  []*thread
	cmdIndex int
	timeouts int
	hung     bool
	watchdog time.Duration
}

var hungScenarios int

// the property must not depend on the log level: the thorough tier runs every other scenario at
// trace level (output discarded), which executes the code under `if e := log.Trace(); e.Enabled()`
var logLevel = zerolog.Disabled

func watchdog() time.Duration {
	ms := EnvInt("VERIF_C12_WATCHDOG_MS", 2000)
	if hungScenarios >= 3 {
		ms = EnvInt("VERIF_C12_WATCHDOG_SHORT_MS", 250)
	}
	return time.Duration(ms) * time.Millisecond
}

func (r *runner) poll() {
	for _, th := range r.threads {
		if !th.finished {
			select {
			case <-th.done:
				th.finished = true
				th.doneAt = r.cmdIndex + 1
			default:
			}
		}
		if ch := th.enteredCh(); !th.inGate && ch != nil {
			select {
			case <-ch:
				th.inGate = true
			default:
			}
		}
	}
}

// settle waits until the implementation has done everything it can do without further commands:
// every request has returned or sits in its gate, or a refresh has announced its write lock while a
// gated request is INSIDE the read lock (then it legitimately waits).  A request held by the relay is
// outside the lock: nothing may wait for it (a refresh that does not finish, or a request queued behind
// it, while only relay-held requests are outstanding runs into the watchdog).
func (r *runner) settle() {
	if r.hung {
		r.poll()
		return
	}
	start := time.Now()
	for spin := 0; ; spin++ {
		r.poll()
		refreshUnfinished, gated, allStable := false, false, true
		for _, th := range r.threads {
			if th.cmd.Op == "refresh" && !th.finished {
				refreshUnfinished = true
			}
			if th.inGate && !th.released && !th.finished && th.relayGate == nil {
				gated = true
			}
			if !(th.finished || (th.inGate && !th.released)) {
				allStable = false
			}
		}
		switch {
		case refreshUnfinished && gated:
			if !r.svc.VerifC12TryRLockExecutionConfig() {
				return // the writer has announced itself and waits for the gated reader(s)
			}
		case !refreshUnfinished:
			if allStable {
				return
			}
		}
		if time.Since(start) > r.watchdog {
			r.timeouts++
			r.hung = true
			return
		}
		if spin < 200 {
			runtime.Gosched()
		} else {
			time.Sleep(50 * time.Microsecond)
		}
	}
}

func (r *runner) spawn(ctx context.Context, c Cmd, repeat int) {
	th := &thread{cmd: c, done: make(chan struct{}), res: "RAny"}
	sc := &script{acc: c.Acc}
	switch c.Op {
	case "lookup", "auction":
		if !accountless(c) {
			th.account = newAcct(c.V, c.Gate)
			sc.account = th.account
			if c.Wallet {
				sc.account = walletAcct{th.account}
			}
		}
	case "fwd", "reg":
		if c.Gate {
			sc.relayGate, sc.relayEntered = make(chan struct{}), make(chan struct{})
			th.relayGate, th.relayEntered = sc.relayGate, sc.relayEntered
		}
	case "refresh":
		switch c.Fetch {
		case "ok":
			data := docJSON(c.Doc)
			sc.fetch = func() ([]byte, error) { return data, nil }
		case "malformed":
			data := []byte(malformedContents[c.Malformed])
			sc.fetch = func() ([]byte, error) { return data, nil }
		default:
			sc.fetch = func() ([]byte, error) { return nil, errors.New("scripted: source unavailable") }
		}
	}
	many := 1
	if c.Many > 1 && !c.Gate && !accountless(c) {
		many = c.Many
	}
	if c.Op == "reg" {
		sc.many = many
		many = 1
	}
	tctx := context.WithValue(ctx, scriptKey{}, sc)
	number := len(r.threads)
	r.threads = append(r.threads, th)
	go func() {
		defer close(th.done)
		defer func() {
			if p := recover(); p != nil {
				th.panicked = true
				th.res = "RAny"
			}
		}()
		first := true
		answer := func(res string) {
			if !first && res != th.res {
				th.mixed = true
			}
			first = false
			th.res = res
		}
		for i := 0; i < repeat; i++ {
			for k := uint64(0); k < uint64(many); k++ {
				var account e2wtypes.Account
				if th.account != nil {
					a := th.account
					if k > 0 {
						a = newAcct(c.V, false)
						a.k = k
					}
					account = a
					if c.Wallet {
						account = walletAcct{a}
					}
				}
				if accountless(c) {
					answer(r.accountlessRequest(tctx, sc, c, number, i))
					continue
				}
				switch c.Op {
				case "lookup":
					pc, err := r.svc.ProposerConfig(tctx, account, pubkeyOfK(c.V, k))
					if err != nil {
						answer("RErr")
					} else {
						answer(App("RFee", N(feeID(pc.FeeRecipient))))
					}
				case "auction":
					sc.account = account
					sc.bidCalled, sc.bidFee = false, nil
					_, err := r.svc.AuctionBlock(tctx, slotOf(c, i), phase0.Hash32{byte(c.V)}, pubkeyOfK(c.V, k))
					switch {
					case err != nil:
						answer("RErr")
					case sc.bidCalled:
						answer(App("RFee", N(*sc.bidFee)))
					default:
						answer("RNoRelays")
					}
				case "reg":
					r.svc.VerifC12SubmitValidatorRegistrations(tctx)
					th.res = "RDone"
				case "refresh":
					r.svc.VerifC12FetchExecutionConfig(tctx)
					th.res = "RDone"
				}
			}
		}
	}()
}

type Obs struct {
	Finished []bool   `json:"finished"`
	Results  []string `json:"results"`
	DoneAt   []int    `json:"done_at"`
	LockFree bool     `json:"lock_free"`
	Timeouts int      `json:"timeouts"`
	Panics   int      `json:"panics"`
	Mixed    int      `json:"mixed,omitempty"`   // series of requests whose answers were not all the same
	Crashed  string   `json:"crashed,omitempty"` // the process running the scenario died: how
}

// clean: everything returned, no settle ran into the watchdog, the lock is free.
func (o Obs) clean() bool {
	for _, f := range o.Finished {
		if !f {
			return false
		}
	}
	return o.Timeouts == 0 && o.LockFree && o.Crashed == ""
}

// runConfirmed runs a scenario; a run that is not clean is repeated (fresh service, twice, with a
// doubled watchdog) before it counts: a real hang reproduces every time, a stalled machine does not.
// Only the first hung scenarios of a run are confirmed this way (afterwards the run is known bad and
// the short watchdog applies).
func runConfirmed(s Scenario) (Obs, int) {
	o, hung := runOnce(s, 1)
	retries := 0
	for !o.clean() && retries < 2 && hungScenarios < 3 {
		retries++
		o, hung = runOnce(s, 2)
	}
	if hung {
		hungScenarios++
	}
	return o, retries
}

func runOnce(s Scenario, watchdogFactor int) (Obs, bool) {
	var initial blockrelay.ExecutionConfigurator
	if s.Init == "empty" {
		initial = &v2.ExecutionConfig{Version: 2}
	}
	url := ""
	if s.URL {
		url = "file:///c12/execution-config.json"
	}
	svc := standard.NewForVerifC12(&standard.VerifC12Params{
		LogLevel:                    logLevel,
		Majordomo:                   source{},
		ChainTime:                   mocks.NewChainTime(32),
		ConfigURL:                   url,
		FallbackFeeRecipient:        fallbackFee(),
		FallbackGasLimit:            30000000,
		AccountsProvider:            accountsProvider{},
		ValidatingAccountsProvider:  validatingAccounts{},
		ValidatorRegistrationSigner: regSigner{},
		BuilderBidProvider:          bidProvider{},
		InitialExecutionConfig:      initial,
	})
	svc.VerifC12SetValidatorsProvider(validatorsProvider{})
	r := &runner{svc: svc, watchdog: time.Duration(watchdogFactor) * watchdog()}
	ctx, cancel := context.WithCancel(context.Background())
	defer cancel()
	repeat := 1
	if s.Stress && s.Repeat > 1 {
		repeat = s.Repeat
	}
	for i, c := range s.Cmds {
		r.cmdIndex = i
		if c.Op == "release" {
			if c.K >= 0 && c.K < len(r.threads) {
				r.threads[c.K].openGate()
			}
		} else {
			r.spawn(ctx, c, repeat)
		}
		if !s.Stress && !c.NoSettle {
			r.settle()
		}
	}
	// final wait: everything still running must return
	r.cmdIndex = len(s.Cmds)
	wd := r.watchdog
	if s.Stress {
		wd = 4 * r.watchdog
	}
	if r.hung {
		wd = 100 * time.Millisecond
	}
	deadline := time.Now().Add(wd)
	for {
		r.poll()
		all := true
		for _, th := range r.threads {
			if !th.finished {
				all = false
			}
		}
		if all || time.Now().After(deadline) {
			if !all {
				r.hung = true
			}
			break
		}
		time.Sleep(50 * time.Microsecond)
	}
	o := Obs{LockFree: svc.VerifC12TryLockExecutionConfig(), Timeouts: r.timeouts}
	for _, th := range r.threads {
		o.Finished = append(o.Finished, th.finished)
		res := "RAny"
		if th.finished {
			res = th.res
			if th.mixed && !s.Stress {
				// one series of requests with nothing changing the configuration meanwhile
				// must give one answer: report "no answer" (never an expected one)
				res = "RAny"
				o.Mixed++
			}
		}
		if th.panicked {
			o.Panics++
		}
		o.Results = append(o.Results, res)
		o.DoneAt = append(o.DoneAt, th.doneAt)
	}
	if r.hung {
		// let the goroutines that are only waiting in a gate go; those wedged on the lock stay
		for _, th := range r.threads {
			th.openGate()
		}
	}
	return o, r.hung
}

// ---------------------------------------------------------------------------------------------
// Gallina

func docTerm(d *Doc) string {
	bad := make([]string, 0, len(d.Bad))
	for _, v := range d.Bad {
		bad = append(bad, N(v))
	}
	return Record("d_id", N(d.ID), "d_bad", List(bad), "d_relay", Bool(d.Relay))
}

func refreshTerm(c Cmd) string {
	acc := "AccSome"
	switch c.Acc {
	case "err":
		acc = "AccErr"
	case "none":
		acc = "AccNone"
	}
	f := "FErr"
	switch c.Fetch {
	case "ok":
		f = App("FOk", docTerm(c.Doc))
	case "malformed":
		f = "FMalformed"
	}
	return Record("rf_acc", acc, "rf_fetch", f)
}

func cmdTerm(c Cmd) string {
	if c.Op == "release" {
		return App("Release", Nat(c.K))
	}
	kind := map[string]string{"lookup": "KLookup", "auction": "KAuction", "reg": "KReg", "refresh": "KRefresh",
		"bid": "KBid", "fwd": "KFwd", "unblind": "KUnblind"}[c.Op]
	if c.Op == "lookup" && c.NoAcc {
		kind = "KLookupNA"
	}
	ref := Record("rf_acc", "AccSome", "rf_fetch", "FErr")
	if c.Op == "refresh" {
		ref = refreshTerm(c)
	}
	return App("Spawn", Record("sp_kind", kind, "sp_v", N(c.V), "sp_gate", Bool(gated(c)), "sp_ref", ref))
}

func caseTerm(id uint64, s Scenario, o Obs, readerWrites int) string {
	cmds := make([]string, 0, len(s.Cmds))
	for _, c := range s.Cmds {
		cmds = append(cmds, cmdTerm(c))
	}
	obs := make([]string, 0, len(o.Finished))
	for i := range o.Finished {
		obs = append(obs, Record("o_fin", Bool(o.Finished[i]), "o_res", o.Results[i], "o_done_at", Nat(o.DoneAt[i])))
	}
	init := None()
	if s.Init == "empty" {
		init = Some(Record("d_id", N(0), "d_bad", List(nil), "d_relay", "false"))
	}
	return Record("c_id", N(id), "c_init", init, "c_url", Bool(s.URL), "c_stress", Bool(s.Stress),
		"c_cmds", List(cmds), "c_obs", List(obs), "c_lock_free", Bool(o.LockFree), "c_timeouts", Nat(o.Timeouts),
		"c_crashed", Bool(o.Crashed != ""), "c_panics", Nat(o.Panics), "c_reader_writes", Nat(readerWrites))
}

// ---------------------------------------------------------------------------------------------
// Generators

type genState struct {
	extraShift uint64 // which documents name a relay that cannot take registrations (see doc)
	r         *Rand
	s         *Scenario
	nThreads  int
	openGates []int // gated readers not yet released (thread numbers)
	inflight  []int // gates the running refresh waits for (nil: no refresh in flight)
	nextDoc   uint64
	tags      map[string]bool
	// requests held by the relay (outside the lock) and not yet released (thread numbers)
	relayGates []int
	regHeld    bool // one of them is a registration round (the service runs one round at a time and skips the others)
	// builder bid requests for the same bid: per validator, whether some document issued so far gives it a
	// relay (a bid request may then obtain a bid, which is cached), and how many keys have been used up
	cacheable map[uint64]bool
	keyGen    map[uint64]uint64
}

func (g *genState) add(c Cmd) int {
	if c.Op == "reg" && g.regHeld {
		// a second round while one is held by the relay is skipped by the service: not a round at all
		c = Cmd{Op: "lookup", V: 1}
	}
	if c.Op == "refresh" && c.Doc != nil {
		if extra := extraRelayAddress(c.Doc); extra != "" {
			g.tags["relay-that-cannot-take-registrations"] = true
			g.tags["extra-relay-"+c.Doc.Extra] = true
		}
	}
	if c.Op == "refresh" && c.Doc != nil && c.Doc.Relay {
		bad := map[uint64]bool{}
		for _, v := range c.Doc.Bad {
			bad[v] = true
		}
		for v := uint64(1); v <= nValidators; v++ {
			if !bad[v] {
				g.cacheable[v] = true
			}
		}
	}
	g.s.Cmds = append(g.s.Cmds, c)
	if c.Op != "release" {
		g.nThreads++
		return g.nThreads - 1
	}
	return -1
}

// a builder bid request for validator v.  Requests for v ask for the SAME bid (same key: slot, parent hash,
// public key) as long as no document issued so far lets a request for v obtain a bid; the first request
// after that uses the key a last time (what it obtains is cached, and later requests for the same bid
// would be answered from the cache, whatever the configuration says by then).
func (g *genState) bid(v uint64) Cmd {
	if g.s.Stress {
		c := Cmd{Op: "bid", V: v}
		if g.r.Bool() {
			c.Key = v // answers are not compared: all goroutines and repetitions ask for one bid
			g.tags["bid-same-key"] = true
		}
		return c
	}
	key := v*1000 + g.keyGen[v] + 1
	c := Cmd{Op: "bid", V: v, Key: key, Slot: []uint64{0, 40, 100, 101, 180, 300, 1000}[key%7]}
	if g.cacheable[v] {
		g.keyGen[v]++
	}
	g.tags["bid-same-key"] = true
	return c
}

// a request that the relay will hold (if the configuration gives it a relay to talk to): a registration
// forwarded for validator v, or a registration round
func (g *genState) relayHeld(v uint64) {
	c := Cmd{Op: "fwd", V: v, Gate: true}
	if !g.regHeld && g.inflight == nil && g.r.Chance(1, 3) {
		c = Cmd{Op: "reg", Gate: true}
	}
	k := g.add(c)
	if c.Op == "reg" {
		g.regHeld = true
	}
	g.relayGates = append(g.relayGates, k)
	g.tags["held-by-relay"] = true
	g.tags["held-by-relay-"+c.Op] = true
}

func (g *genState) releaseRelay(i int) {
	k := g.relayGates[i]
	g.relayGates = append(g.relayGates[:i], g.relayGates[i+1:]...)
	if g.s.Cmds[g.cmdOf(k)].Op == "reg" {
		g.regHeld = false
	}
	g.add(Cmd{Op: "release", K: k})
}

// the command that spawned thread k
func (g *genState) cmdOf(k int) int {
	n := -1
	for i, c := range g.s.Cmds {
		if c.Op != "release" {
			n++
		}
		if n == k {
			return i
		}
	}
	return 0
}

// one of the four requests made without an account, for the validator with the settings of v
func (g *genState) accountless(v uint64) {
	c := Cmd{Op: "lookup", V: v, NoAcc: true}
	switch g.r.Intn(4) {
	case 1:
		c = g.bid(v)
	case 2:
		c = Cmd{Op: "fwd", V: v}
	case 3:
		c = Cmd{Op: "unblind", V: v}
	}
	g.add(c)
	g.tags["accountless"] = true
}

// slots in no particular order, more than the bid cache's horizon (32 slots) apart
func (g *genState) slot() uint64 {
	if g.r.Chance(1, 2) {
		return 0
	}
	return []uint64{40, 100, 101, 180, 300, 1000}[g.r.Intn(6)]
}

func (g *genState) reader(gate bool) {
	if !gate && g.r.Chance(1, 3) {
		g.accountless(uint64(g.r.Range(1, nValidators)))
		return
	}
	op := "lookup"
	if g.r.Chance(2, 5) {
		op = "auction"
	}
	c := Cmd{Op: op, V: uint64(g.r.Range(1, nValidators)), Gate: gate, Wallet: g.r.Chance(1, 3)}
	if op == "auction" && !g.s.Stress {
		c.Slot = g.slot()
	}
	k := g.add(c)
	if gate {
		g.openGates = append(g.openGates, k)
		g.tags["gated-"+op] = true
	}
}

func (g *genState) doc() *Doc {
	g.nextDoc++
	d := &Doc{ID: g.nextDoc, Relay: g.r.Chance(3, 4)}
	// two documents of three name a relay that cannot take registrations next to the usable one (no random
	// draw: the scenarios are otherwise the ones generated before this option existed); honoured only if the
	// document ends up with a relay (callers may still change Relay)
	switch (g.nextDoc + g.extraShift) % 3 {
	case 1:
		d.Extra = "unparsable"
	case 2:
		d.Extra = "nosubmit"
	}
	if g.r.Chance(1, 2) {
		for v := uint64(1); v <= nValidators; v++ {
			if g.r.Chance(1, 3) {
				d.Bad = append(d.Bad, v)
			}
		}
		if len(d.Bad) > 0 {
			g.tags["unresolvable"] = true
		}
	}
	return d
}

func (g *genState) refresh(forceOk bool) {
	if g.inflight != nil {
		return
	}
	c := Cmd{Op: "refresh"}
	switch k := g.r.Intn(20); {
	case forceOk || k < 9:
		c.Fetch, c.Doc = "ok", g.doc()
	case k < 13:
		c.Fetch = "err"
		g.tags["fetch-error"] = true
	case k < 17:
		c.Fetch, c.Malformed = "malformed", malformedNames[g.r.Intn(len(malformedNames))]
		g.tags["malformed"] = true
	case k < 18:
		c.Acc, c.Fetch, c.Doc = "err", "ok", g.doc()
		g.tags["accounts-error"] = true
	default:
		c.Acc, c.Fetch, c.Doc = "none", "ok", g.doc()
		g.tags["no-accounts"] = true
	}
	g.add(c)
	if len(g.openGates) > 0 {
		g.inflight = append([]int{}, g.openGates...)
		g.tags["writer-inside-reader"] = true
	}
}

func (g *genState) release(i int) {
	k := g.openGates[i]
	g.openGates = append(g.openGates[:i], g.openGates[i+1:]...)
	g.add(Cmd{Op: "release", K: k})
	if g.inflight != nil {
		rest := g.inflight[:0]
		for _, x := range g.inflight {
			if x != k {
				rest = append(rest, x)
			}
		}
		g.inflight = rest
		if len(rest) == 0 {
			g.inflight = nil
		}
	}
}

func gen(r *Rand, search bool) Scenario {
	s := Scenario{Init: "empty", URL: true}
	if r.Chance(1, 3) {
		s.Init = "nil"
	}
	if r.Chance(1, 12) {
		s.URL = false
	}
	g := &genState{r: r, s: &s, tags: map[string]bool{}, cacheable: map[uint64]bool{}, keyGen: map[uint64]uint64{}}
	fam := r.Intn(16)
	g.extraShift = uint64(fam)
	if s.Init == "nil" {
		g.extraShift++
	}
	switch fam {
	case 14:
		fam = 9 // stress and bursts are where the races are found: keep their share (5 of 16; it was 3 of 12)
	case 15:
		fam = 10
	}
	if search {
		switch r.Intn(3) {
		case 0:
			fam = 9
		case 1:
			fam = 10
		}
	}
	switch {
	case fam == 10 || fam == 11:
		// burst: right after a refresh that installs a document with proposer-specific entries, a group
		// of overlapping requests (lookups, auctions, a registration round), each for a long series of
		// distinct validators nobody has asked about since the refresh.  Nothing changes the
		// configuration while a group runs, so every answer is determined: it is compared.
		// Half of the time the refresh is held up by a request inside the read lock and the group
		// queues behind the announced writer: then the whole group starts at the same instant.
		s.URL = true
		g.tags["burst"] = true
		v1 := r.Chance(1, 5)
		if v1 {
			g.tags["version-1-documents"] = true
		}
		for round, rounds := 0, r.Range(1, 3); round < rounds; round++ {
			queued := r.Chance(1, 2) && !v1
			if queued {
				g.reader(true)
			}
			d := g.doc()
			d.Entries = true
			if v1 {
				d = &Doc{ID: d.ID, Relay: d.Relay, V1: true, Extra: d.Extra}
			}
			g.add(Cmd{Op: "refresh", Fetch: "ok", Doc: d})
			if queued {
				g.inflight = append([]int{}, g.openGates...)
				g.tags["writer-inside-reader"] = true
				g.tags["burst-queued-behind-writer"] = true
			}
			if r.Chance(1, 3) && !queued {
				// a failing refresh in between changes nothing
				if r.Bool() {
					g.add(Cmd{Op: "refresh", Fetch: "err"})
					g.tags["fetch-error"] = true
				} else {
					g.add(Cmd{Op: "refresh", Fetch: "malformed", Malformed: malformedNames[r.Intn(len(malformedNames))]})
					g.tags["malformed"] = true
				}
			}
			workers, many := r.Range(4, 16), r.Range(40, 300)
			if search {
				workers, many = r.Range(8, 32), r.Range(300, 3000)
			}
			reg := r.Chance(1, 2)
			for w := 0; w < workers; w++ {
				c := Cmd{Op: "lookup", V: uint64(r.Range(1, nValidators)), Many: many, NoSettle: true, Wallet: r.Chance(1, 3)}
				if r.Chance(2, 5) {
					c.Op = "auction"
				}
				if reg && w == workers/2 {
					c = Cmd{Op: "reg", Many: many / 4, NoSettle: true}
				} else if r.Chance(1, 6) {
					// a request without an account in the group (one request, not a series)
					c = Cmd{Op: []string{"lookup", "bid", "fwd", "unblind"}[r.Intn(4)], V: c.V, NoSettle: true}
					c.NoAcc = c.Op == "lookup"
					g.tags["accountless"] = true
				}
				if w == workers-1 && !queued {
					c.NoSettle = false
				}
				g.add(c)
			}
			for len(g.openGates) > 0 {
				g.release(r.Intn(len(g.openGates)))
			}
		}
	case fam == 9:
		// stress: many requests of every kind at once, repeated, against refreshes with changing outcomes
		s.Stress, s.Repeat, s.URL = true, r.Range(20, 200), true
		if search {
			s.Repeat = r.Range(200, 1500)
		}
		g.tags["stress"] = true
		for i, n := 0, r.Range(4, 10); i < n; i++ {
			g.reader(false)
		}
		for i, n := 0, r.Range(1, 2); i < n; i++ {
			c := Cmd{Op: "refresh", Fetch: "ok", Doc: g.doc()}
			g.add(c)
		}
		if r.Chance(1, 2) {
			g.add(Cmd{Op: "refresh", Fetch: "err"})
		}
		if r.Chance(1, 2) {
			g.add(Cmd{Op: "reg"})
		}
	case fam == 2:
		// requests made without an account (builder bid requests, forwarded registrations, unblinding,
		// lookups with a nil account) in every configuration state: before any refresh (nothing / the
		// default), after a document that makes some validators unresolvable (for those and for the
		// others), after refreshes that fail and keep it, after the next document; some of them while
		// a refresh waits for a request held inside the read lock (they queue behind the writer)
		g.tags["accountless-family"] = true
		all := func(v uint64) {
			for _, c := range []Cmd{{Op: "lookup", V: v, NoAcc: true}, {Op: "bid", V: v}, {Op: "fwd", V: v}, {Op: "unblind", V: v}} {
				if r.Chance(3, 4) {
					if c.Op == "bid" {
						c = g.bid(v)
					}
					g.add(c)
					g.tags["accountless"] = true
				}
			}
		}
		all(uint64(r.Range(1, nValidators)))
		for round, rounds := 0, r.Range(1, 3); round < rounds; round++ {
			d := g.doc()
			bad := uint64(r.Range(1, nValidators))
			if r.Chance(3, 4) {
				d.Bad = []uint64{bad}
				if r.Chance(1, 3) {
					d.Bad = append(d.Bad, uint64(r.Range(1, nValidators)))
				}
				g.tags["unresolvable"] = true
			} else {
				d.Bad = nil
				d.Entries = r.Bool()
			}
			queued := r.Chance(1, 3)
			if queued {
				g.reader(true)
			}
			g.add(Cmd{Op: "refresh", Fetch: "ok", Doc: d})
			if queued {
				g.inflight = append([]int{}, g.openGates...)
				g.tags["writer-inside-reader"] = true
				all(bad) // blocked behind the announced writer until the gate opens
				for len(g.openGates) > 0 {
					g.release(r.Intn(len(g.openGates)))
				}
			}
			all(bad)
			all(uint64(r.Range(1, nValidators)))
			if r.Chance(1, 2) {
				g.add(Cmd{Op: "reg"})
			}
			for i, n := 0, r.Range(0, 2); i < n; i++ {
				g.refresh(false)
				all(bad)
			}
		}
	case fam == 12:
		// requests held by a relay: the relay sits on the POST of a forwarded registration (or of a registration
		// round) while configuration refreshes fall due and lookups, auctions and further registrations arrive.
		// The request is outside the configuration lock then: every refresh and every other request goes
		// through at once, whatever the refresh's outcome; sometimes a reader is held INSIDE the lock as well
		// (then the refresh legitimately waits for that one, and only for that one).
		s.URL = true
		g.tags["held-by-relay-family"] = true
		good := uint64(r.Range(1, nValidators))
		first := g.doc()
		first.Relay = true
		keep := first.Bad[:0]
		for _, v := range first.Bad {
			if v != good {
				keep = append(keep, v)
			}
		}
		first.Bad = keep
		g.add(Cmd{Op: "refresh", Fetch: "ok", Doc: first})
		for round, rounds := 0, r.Range(1, 3); round < rounds; round++ {
			g.relayHeld(good)
			if r.Chance(1, 3) {
				g.relayHeld(uint64(r.Range(1, nValidators)))
			}
			for i, n := 0, r.Range(1, 3); i < n; i++ {
				g.refresh(false)
				for j, m := 0, r.Range(1, 3); j < m; j++ {
					g.reader(false)
				}
				if r.Chance(1, 4) {
					g.add(Cmd{Op: "reg"})
				}
			}
			if r.Chance(1, 3) {
				// a reader inside the lock as well: the refresh waits for it, and is let go by it alone
				g.reader(true)
				g.refresh(false)
				g.reader(false)
				for len(g.openGates) > 0 {
					g.release(r.Intn(len(g.openGates)))
				}
			}
			if r.Chance(2, 3) {
				for len(g.relayGates) > 0 {
					g.releaseRelay(r.Intn(len(g.relayGates)))
				}
				if r.Chance(1, 2) {
					g.refresh(false)
				}
			}
		}
	case fam == 13:
		// the same builder bid asked for again and again (beacon nodes repeat the header request; several
		// nodes ask for the same one) while the configuration makes the validator's settings unresolvable,
		// names no relay, or does not exist; across refreshes that fail and refreshes that install the next
		// document.  Every request returns, each with the answer the configuration of its moment gives.
		g.tags["same-bid-family"] = true
		v := uint64(r.Range(1, nValidators))
		for round, rounds := 0, r.Range(1, 3); round < rounds; round++ {
			for i, n := 0, r.Range(0, 2); i < n; i++ {
				g.add(g.bid(v))
			}
			d := g.doc()
			switch r.Intn(4) {
			case 0:
				d.Relay = false
			default:
				has := false
				for _, b := range d.Bad {
					has = has || b == v
				}
				if !has {
					d.Bad = append(d.Bad, v)
				}
				g.tags["unresolvable"] = true
			}
			g.add(Cmd{Op: "refresh", Fetch: "ok", Doc: d})
			for i, n := 0, r.Range(2, 4); i < n; i++ {
				g.add(g.bid(v))
				if r.Chance(1, 4) {
					g.reader(false)
				}
			}
			for i, n := 0, r.Range(0, 2); i < n; i++ {
				g.refresh(false)
				g.add(g.bid(v))
			}
			if r.Chance(1, 2) {
				// the next document resolves the validator: the request for the same bid is answered from it
				nd := g.doc()
				nd.Bad = nil
				g.add(Cmd{Op: "refresh", Fetch: "ok", Doc: nd})
				g.add(g.bid(v))
				g.add(g.bid(v))
			}
		}
	case fam <= 1:
		// the path the statement names: settings that cannot be resolved, then a refresh, then lookups
		g.tags["unresolvable-refresh-lookup"] = true
		d := g.doc()
		bad := uint64(r.Range(1, nValidators))
		d.Bad = []uint64{bad}
		if r.Chance(1, 2) {
			d.Bad = append(d.Bad, uint64(r.Range(1, nValidators)))
		}
		g.tags["unresolvable"] = true
		g.add(Cmd{Op: "refresh", Fetch: "ok", Doc: d})
		for i, n := 0, r.Range(1, 3); i < n; i++ {
			op := "auction"
			if r.Chance(1, 3) {
				op = "lookup"
			}
			if r.Chance(1, 3) {
				g.accountless(bad)
			} else {
				g.add(Cmd{Op: op, V: bad})
			}
		}
		g.refresh(false)
		g.reader(false)
		if r.Chance(1, 2) {
			g.add(Cmd{Op: "reg"})
		}
		g.refresh(false)
		g.reader(false)
	default:
		g.tags["mixed"] = true
		if r.Chance(2, 3) {
			g.refresh(true)
		}
		for i, n := 0, r.Range(3, 14); i < n; i++ {
			switch k := r.Intn(20); {
			case k < 5:
				g.reader(false)
			case k < 9:
				g.reader(true)
			case k < 14:
				g.refresh(false)
			case k < 16:
				if r.Chance(1, 3) {
					g.relayHeld(uint64(r.Range(1, nValidators)))
				} else {
					g.add(Cmd{Op: "reg"})
				}
			default:
				if len(g.relayGates) > 0 && r.Chance(1, 3) {
					g.releaseRelay(r.Intn(len(g.relayGates)))
				} else if len(g.openGates) > 0 {
					g.release(r.Intn(len(g.openGates)))
				} else {
					g.reader(false)
				}
			}
		}
	}
	for len(g.openGates) > 0 {
		g.release(r.Intn(len(g.openGates)))
	}
	for len(g.relayGates) > 0 {
		g.releaseRelay(r.Intn(len(g.relayGates)))
	}
	if !s.Stress {
		// probes: what is in use at the end
		g.add(Cmd{Op: "lookup", V: uint64(r.Range(1, nValidators))})
		g.add(Cmd{Op: "auction", V: uint64(r.Range(1, nValidators))})
	}
	if s.Init == "nil" {
		g.tags["init-nil"] = true
	}
	if !s.URL {
		g.tags["no-url"] = true
	}
	for t := range g.tags {
		s.Tags = append(s.Tags, t)
	}
	sortStrings(s.Tags)
	return s
}

func sortStrings(xs []string) {
	for i := 1; i < len(xs); i++ {
		for j := i; j > 0 && xs[j] < xs[j-1]; j-- {
			xs[j], xs[j-1] = xs[j-1], xs[j]
		}
	}
}

// ---------------------------------------------------------------------------------------------
// The scenarios run in a child process (this test binary again, VERIF_C12_CHILD set): a fatal runtime
// error (concurrent map writes, unlock of an unlocked mutex, a panic in a goroutine of the service,
// stack exhaustion) kills that process only.  The parent restarts it after the scenario on which it
// died and reports "the process died" as the observed outcome of that scenario.

type Work struct {
	S      Scenario `json:"s"`
	Origin string   `json:"origin"`
	Trace  bool     `json:"trace,omitempty"`
}

type Result struct {
	Index   int  `json:"index"`
	Obs     Obs  `json:"obs"`
	Retries int  `json:"retries"`
	Hung    bool `json:"hung"`
}

func child(t *testing.T) {
	var work []Work
	data, err := os.ReadFile(os.Getenv("VERIF_C12_WORK"))
	if err != nil {
		t.Fatal(err)
	}
	if err := json.Unmarshal(data, &work); err != nil {
		t.Fatal(err)
	}
	out, err := os.OpenFile(os.Getenv("VERIF_C12_RESULTS"), os.O_APPEND|os.O_CREATE|os.O_WRONLY, 0o644)
	if err != nil {
		t.Fatal(err)
	}
	defer out.Close()
	hungScenarios = EnvInt("VERIF_C12_HUNG", 0)
	zerologger.Logger = zerolog.New(io.Discard)
	for i := EnvInt("VERIF_C12_FROM", 0); i < len(work); i++ {
		logLevel = zerolog.Disabled
		if work[i].Trace {
			logLevel = zerolog.TraceLevel
		}
		before := hungScenarios
		o, retries := runConfirmed(work[i].S)
		line, _ := json.Marshal(Result{Index: i, Obs: o, Retries: retries, Hung: hungScenarios > before})
		if _, err := out.Write(append(line, '\n')); err != nil {
			t.Fatal(err)
		}
	}
}

func nSpawns(s Scenario) int {
	n := 0
	for _, c := range s.Cmds {
		if c.Op != "release" {
			n++
		}
	}
	return n
}

// crashedObs: what is observed of a scenario on which the process died: nothing returned.
func crashedObs(s Scenario, how string) Obs {
	o := Obs{Crashed: how}
	for i := 0; i < nSpawns(s); i++ {
		o.Finished = append(o.Finished, false)
		o.Results = append(o.Results, "RAny")
		o.DoneAt = append(o.DoneAt, 0)
	}
	return o
}

const maxCrashes = 20

// runAll runs the work in child processes; results[i] is missing (nil) only for the scenarios after
// the one with the maxCrashes-th crash.
func runAll(t *testing.T, work []Work) (results []*Result, crashes int) {
	dir, err := os.MkdirTemp("", "c12")
	if err != nil {
		t.Fatal(err)
	}
	defer os.RemoveAll(dir)
	workFile, resFile := dir+"/work.json", dir+"/results.jsonl"
	data, _ := json.Marshal(work)
	if err := os.WriteFile(workFile, data, 0o644); err != nil {
		t.Fatal(err)
	}
	hung := 0
	for len(results) < len(work) && crashes < maxCrashes {
		os.Remove(resFile)
		cmd := exec.Command(os.Args[0], "-test.run", "^TestC12$", "-test.count=1", "-test.timeout", "3000s")
		cmd.Env = append(os.Environ(), "VERIF_C12_CHILD=1", "VERIF_C12_WORK="+workFile, "VERIF_C12_RESULTS="+resFile,
			fmt.Sprintf("VERIF_C12_FROM=%d", len(results)), fmt.Sprintf("VERIF_C12_HUNG=%d", hung))
		outb, runErr := cmd.CombinedOutput()
		if f, err := os.Open(resFile); err == nil {
			scan := bufio.NewScanner(f)
			scan.Buffer(make([]byte, 1<<20), 1<<26)
			for scan.Scan() {
				var r Result
				if json.Unmarshal(scan.Bytes(), &r) == nil && r.Index == len(results) {
					if r.Hung {
						hung++
					}
					results = append(results, &r)
				}
			}
			f.Close()
		}
		if len(results) < len(work) {
			// the child died on scenario number len(results)
			crashes++
			msg := string(outb)
			if i := strings.Index(msg, "fatal error:"); i >= 0 {
				msg = msg[i:]
			} else if i := strings.Index(msg, "panic:"); i >= 0 {
				msg = msg[i:]
			}
			if i := strings.Index(msg, "\n"); i >= 0 {
				// first line, and the first frame of the repository if there is one
				rest := msg[i:]
				msg = msg[:i]
				if k := strings.Index(rest, "github.com/attestantio/vouch/"); k >= 0 {
					fr := rest[k:]
					if e := strings.Index(fr, "\n"); e >= 0 {
						fr = fr[:e]
					}
					// drop the argument list: the last "(" that does not open a receiver type
					if e := strings.LastIndex(fr, "("); e >= 0 && !strings.HasPrefix(fr[e:], "(*") {
						fr = fr[:e]
					}
					msg += " in " + fr
				}
			}
			if len(msg) > 300 {
				msg = msg[:300]
			}
			if runErr == nil {
				msg = "child stopped early: " + msg
			}
			results = append(results, &Result{Index: len(results), Obs: crashedObs(work[len(results)].S, msg)})
		}
	}
	for len(results) < len(work) {
		results = append(results, nil)
	}
	return results, crashes
}

// ---------------------------------------------------------------------------------------------

func TestC12(t *testing.T) {
	// malformed contents must really be rejected by the parser (an assumption of the generator)
	for name, content := range malformedContents {
		if _, err := blockrelay.UnmarshalJSON([]byte(content)); err != nil {
			malformedNames = append(malformedNames, name)
		}
	}
	sortStrings(malformedNames)
	util.InjectBuilderClientC09(relayAddress, relayClient{})
	util.InjectBuilderClientC09(noSubmitRelayAddress, noSubmitClient{})
	if os.Getenv("VERIF_C12_CHILD") != "" {
		child(t)
		return
	}

	col := NewCollector("C12", "Check.C12",
		"non-trivial = at least one configuration refresh and one lookup/auction whose answer is checked against the last good configuration, or a stress scenario")
	col.Note(fmt.Sprintf("malformed contents rejected by blockrelay.UnmarshalJSON: %v (of %d)", malformedNames, len(malformedContents)))
	col.Note("fetch outcome Nil (obtainExecutionConfig returning nil,nil) is modelled but cannot be driven: it needs a dynamic source and no public keys, which the accounts check excludes")
	col.Note("scenarios run in a child process; a scenario on which that process dies (fatal runtime error, panic outside the request's own goroutine) is reported with c_crashed = true")
	// common.NewRand(seed) streams for consecutive seeds are shifts of one another (the state is
	// seed*golden+c and advances by golden): derive the stream from a hashed seed instead
	rng := NewRand(NewRand(Seed()).U64())
	n := EnvInt("VERIF_N", 400)
	search := os.Getenv("VERIF_SEARCH") == "1"

	var work []Work
	for _, s := range LoadInputs[Scenario]("C12") {
		work = append(work, Work{S: s, Origin: "corpus"})
	}
	trace := os.Getenv("VERIF_TIER") == "thorough"
	for i := 0; i < n; i++ {
		// thorough tier: every other scenario at trace level; quick tier: every fourth (code under
		// "if e := log.Trace(); e.Enabled()" and the arguments of log calls are part of the request)
		work = append(work, Work{S: gen(rng.Fork(), search), Origin: "generated", Trace: (trace && i%2 == 1) || i%4 == 3})
	}
	results, crashes := runAll(t, work)

	// the model's lookups only read the configuration: what the source says about that (static.go)
	writes, scanErr := readerWrites()
	if scanErr != "" {
		col.Note("source scan of the lookup path failed: " + scanErr)
		writes = []string{"scan failed: " + scanErr}
	}
	col.Note(fmt.Sprintf("source scan: functions reachable from ExecutionConfig.ProposerConfig (v1, v2) and Service.ProposerConfig: %d; writes to shared state found: %v", scannedFuncs, writes))
	{
		s := Scenario{Init: "empty", URL: true, Tags: []string{"source-scan"}}
		col.Add(Case{
			Term:       caseTerm(col.NextID(), s, Obs{LockFree: true}, len(writes)),
			Key:        "source-scan",
			Nontrivial: false,
			Tags:       []string{"source-scan"},
			Sample:     map[string]any{"input": s, "observed": map[string]any{"writes_to_shared_state_on_the_lookup_path": writes}},
		})
	}

	hungTotal, skipped := 0, 0
	for i, w := range work {
		if results[i] == nil {
			skipped++
			continue
		}
		s, o, retries := w.S, results[i].Obs, results[i].Retries
		if results[i].Hung {
			hungTotal++
		}
		if w.Trace {
			col.Count("scenarios-at-trace-level")
		}
		if retries > 0 {
			col.Count("scenarios-repeated-before-counting")
			if o.clean() {
				col.Count("unreproducible-hang-or-timeout")
			}
		}
		refreshes, readers := 0, 0
		for _, c := range s.Cmds {
			switch c.Op {
			case "refresh":
				refreshes++
				col.Count("refresh-" + c.Acc + "-" + c.Fetch)
			case "lookup", "auction", "bid", "fwd", "unblind":
				readers++
				if c.Op == "lookup" && c.NoAcc {
					col.Count("lookup-without-account")
				} else {
					col.Count(c.Op)
				}
				if c.Gate {
					col.Count("gated")
				}
				if c.Many > 1 {
					col.Count("series-of-distinct-validators")
				}
			default:
				col.Count(c.Op)
			}
		}
		if o.Timeouts > 0 {
			col.Count("settle-timeouts")
		}
		if o.Panics > 0 {
			col.Count("panics")
		}
		if o.Mixed > 0 {
			col.Count("scenarios-with-a-series-of-different-answers")
		}
		if o.Crashed != "" {
			col.Count("scenarios-on-which-the-process-died")
		} else {
			hung := false
			for _, f := range o.Finished {
				if !f {
					hung = true
				}
			}
			if hung {
				col.Count("scenarios-with-a-request-that-did-not-return")
			}
			if !o.LockFree {
				col.Count("scenarios-with-the-lock-still-held")
			}
		}
		key, _ := json.Marshal(s)
		tags := append([]string{w.Origin}, s.Tags...)
		col.Add(Case{
			Term:       caseTerm(col.NextID(), s, o, 0),
			Key:        string(key),
			Nontrivial: s.Stress || (refreshes > 0 && readers > 0),
			Tags:       tags,
			Sample:     map[string]any{"input": s, "observed": o},
		})
	}
	col.Note(fmt.Sprintf("scenarios that hung: %d; on which the process died: %d; not run after %d deaths: %d", hungTotal, crashes, maxCrashes, skipped))
	if err := col.Flush(); err != nil {
		t.Fatal(err)
	}
}
