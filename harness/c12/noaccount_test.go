// C12: requests made WITHOUT an account.  The account argument of Service.ProposerConfig is nil for
// every request made on behalf of a validator Vouch holds no account for: a builder bid request with
// nothing cached (BuilderBid -> immediateBuilderBid -> auctionBlock(..., nil)), a registration
// forwarded by a beacon node (ValidatorRegistrations), the unblinding provider lookup (UnblindBlock
// -> unblindersForProposal) and ProposerConfig(ctx, nil, pubkey) itself.  The statement covers them
// ("every request for proposer settings, every auction ... returns") in every configuration state:
// none yet, the default, a document that resolves the validator, a document that makes its settings
// unresolvable (an error is the answer then, not a panic), and whatever the refreshes in between did.
package c12

import (
	"context"
	"strings"
	"time"

	"github.com/attestantio/go-block-relay/types"
	"github.com/attestantio/go-eth2-client/api"
	apiv1 "github.com/attestantio/go-eth2-client/api/v1"
	apiv1deneb "github.com/attestantio/go-eth2-client/api/v1/deneb"
	"github.com/attestantio/go-eth2-client/spec"
	"github.com/attestantio/go-eth2-client/spec/phase0"
	"github.com/google/uuid"
	e2wtypes "github.com/wealdtech/go-eth2-wallet-types/v2"

	. "verifharness/common"
)

// foreignK: series number of "the validator with the settings of validator v that Vouch holds no
// account for".  Registration rounds never reach it (their series are short), so it is never among
// the controlled validators, whose forwarded registrations ValidatorRegistrations drops unseen.
const foreignK = uint64(1) << 32

// walletAcct: an account that knows its wallet (v2's setAccountName then asks the wallet for its name)
type walletAcct struct{ *acct }

func (walletAcct) Wallet() e2wtypes.Wallet { return wallet{} }

type wallet struct{}

func (wallet) ID() uuid.UUID   { return uuid.UUID{0xc1, 0x2} }
func (wallet) Type() string    { return "c12" }
func (wallet) Name() string    { return "wallet-c12" }
func (wallet) Version() uint   { return 1 }
func (wallet) Accounts(context.Context) <-chan e2wtypes.Account {
	ch := make(chan e2wtypes.Account)
	close(ch)
	return ch
}

// slotOf: the slot of the i-th repetition of an auction or builder bid request
func slotOf(c Cmd, i int) phase0.Slot {
	if c.Slot > 0 {
		return phase0.Slot(c.Slot + uint64(i))
	}
	return phase0.Slot(100 + i)
}

// gated: the request can be held by the harness: by its account inside the read lock (lookup, auction
// with an account), or by the relay outside it (fwd, reg)
func gated(c Cmd) bool {
	switch c.Op {
	case "fwd", "reg":
		return c.Gate
	}
	return c.Gate && !accountless(c)
}

func accountless(c Cmd) bool {
	switch c.Op {
	case "bid", "fwd", "unblind":
		return true
	case "lookup":
		return c.NoAcc
	}
	return false
}

// validatorsProvider answers UnblindBlock's question "which validator has this index": validator v
// is the foreign validator with the settings of v.
type validatorsProvider struct{}

func (validatorsProvider) Validators(_ context.Context, opts *api.ValidatorsOpts) (*api.Response[map[phase0.ValidatorIndex]*apiv1.Validator], error) {
	data := make(map[phase0.ValidatorIndex]*apiv1.Validator)
	for _, index := range opts.Indices {
		data[index] = &apiv1.Validator{
			Index:     index,
			Status:    apiv1.ValidatorStateActiveOngoing,
			Validator: &phase0.Validator{PublicKey: pubkeyOfK(uint64(index), foreignK)},
		}
	}
	return &api.Response[map[phase0.ValidatorIndex]*apiv1.Validator]{Data: data, Metadata: map[string]any{}}, nil
}

// accountlessRequest makes one such request (number: the request's number in the scenario, i: the
// repetition) and maps what came back to the small set of answers the model knows.
func (r *runner) accountlessRequest(ctx context.Context, sc *script, c Cmd, number, i int) string {
	pubkey := pubkeyOfK(c.V, foreignK)
	switch c.Op {
	case "lookup":
		pc, err := r.svc.ProposerConfig(ctx, nil, pubkey)
		if err != nil {
			return "RErr"
		}
		return App("RFee", N(feeID(pc.FeeRecipient)))
	case "bid":
		// a parent hash of its own: nothing is cached for it, so the request runs the auction itself
		sc.bidCalled, sc.bidFee = false, nil
		parent := phase0.Hash32{byte(c.V), 0xb1, byte(number), byte(number >> 8), byte(number >> 16)}
		slot := slotOf(c, i)
		if c.Key > 0 {
			// the same bid as every other request with this key (and as every repetition of this one)
			parent = phase0.Hash32{byte(c.V), 0xb2, byte(c.Key), byte(c.Key >> 8), byte(c.Key >> 16), byte(c.Key >> 24)}
			slot = slotOf(c, 0)
		}
		_, err := r.svc.BuilderBid(ctx, slot, parent, pubkey)
		switch {
		case err != nil:
			return "RErr"
		case sc.bidCalled:
			return App("RFee", N(*sc.bidFee))
		default:
			return "RNoRelays"
		}
	case "fwd":
		before := sc.forwarded.Load()
		_, err := r.svc.ValidatorRegistrations(ctx, []*types.SignedValidatorRegistration{{
			Message: &types.ValidatorRegistration{
				FeeRecipient: fallbackFee(),
				GasLimit:     30000000,
				Timestamp:    time.Unix(1700000000, 0),
				Pubkey:       pubkey,
			},
			Signature: phase0.BLSSignature{2},
		}})
		switch {
		case err != nil:
			return "RErr"
		case sc.forwarded.Load() > before:
			return "RDone" // handed to the relay the settings name
		default:
			return "RNoRelays" // skipped, or no relay to hand it to
		}
	case "unblind":
		_, err := r.svc.UnblindBlock(ctx, &api.VersionedSignedBlindedBeaconBlock{
			Version: spec.DataVersionDeneb,
			Deneb: &apiv1deneb.SignedBlindedBeaconBlock{
				Message: &apiv1deneb.BlindedBeaconBlock{Slot: phase0.Slot(100 + i), ProposerIndex: phase0.ValidatorIndex(c.V)},
			},
		})
		switch {
		case err == nil:
			return "RAny" // the harness's relay does not unblind: there is nothing to succeed with
		case strings.Contains(err.Error(), "failed to obtain proposer configuration"):
			return "RErr"
		case strings.Contains(err.Error(), "no unblinders obtained"):
			return "RNoRelays"
		default:
			return "RAny"
		}
	}
	return "RAny"
}
